(* Props/C20.v — property C20 (config tooling never loses user settings and only writes validated values).
   Only statements closed by `exact <lemma>` and their Print Assumptions.

   Reading guide.  Files are lists of lines (text.split("\n")).  `analyse` recognises the line-structured YAML
   subset (block documents: top-level `key:` lines with indented / dash-led bodies, comments, blank lines, an
   optional `---`; one-line flow-style roots); `struct_r (analyse E) = true` says E is in it.  `eff nk es` is the
   entry a loader finds for the normalised key nk (last one wins).  `spec_ok reps E R R2` is the conjunction of
   the seven specification bits of Model/CfgMerge.v for "E before, R after, R2 after running it again".
   `presets`, `linter_sections`, the template, markers, separators, defaults and validators are regenerated
   from /repo on every run (Gen/CfgToolGen.v). *)
From TL Require Import Lib.Base Lib.GenTypes Model.CfgTypes Gen.CfgToolGen Model.CfgMerge Model.CfgCli Model.CfgLoc Model.CfgPath Model.CfgEntry
     Proofs.CfgLines Proofs.CfgMergeMain Proofs.CfgMergeText Proofs.CfgMergeSpec Proofs.CfgInitMain Proofs.CfgCliProofs Proofs.CfgConvert
     Proofs.CfgLocProofs Proofs.CfgPathProofs Proofs.CfgTail Proofs.CfgEntryProofs.
From Coq Require Import ZArith.

(* 1. init-config without --force, every preset, every existing file of the subset, every quirk vector with the two
      remaining merge flags off: the result meets the whole specification, and a second run changes nothing.
      (The "missing section" test is the one read from the repaired source - Gen.missing_by_normalised_key - so no
      guard on q_missing_by_raw_key is needed any more.) *)
Theorem C20_init_config_spec : forall q preset reps E,
  q_append_to_flow_root q = false -> q_insert_mid_entry q = false ->
  lookup preset presets = Some reps -> struct_r (analyse E) = true ->
  let R := result_file E (init_config q preset E) in
  spec_ok reps E R (result_file R (init_config q preset R)) = true.
Proof. intros q preset reps E H2 H3 Hl Hs. exact (init_config_spec q preset reps E Hl Hs (or_introl H2) (or_introl H3)). Qed.
Print Assumptions C20_init_config_spec.

(* 1'. (partial) the same for ANY quirk vector - in particular the one claimed for the current tree - on files that
      avoid the two remaining defect classes: the root is block style, and the GLOBAL SETTINGS banner (if any) stands
      at an entry boundary.  Keys re-spelled with underscores are covered (see C20_nonvacuous). *)
Theorem C20_init_config_partial : forall q preset reps E,
  is_block E = true -> marker_ok E = true ->
  lookup preset presets = Some reps -> struct_r (analyse E) = true ->
  let R := result_file E (init_config q preset E) in
  spec_ok reps E R (result_file R (init_config q preset R)) = true.
Proof. intros q preset reps E H2 H3 Hl Hs. exact (init_config_spec q preset reps E Hl Hs (or_intror H2) (or_intror H3)). Qed.
Print Assumptions C20_init_config_partial.

(* 1''. the ENTRY POINT (Model/CfgEntry.v; control shape of init_config pinned by Gen.init_entry_shape_ok): the preset comes from
      --preset (--non-interactive) or from the prompt (empty answer = default, no-preset answers are asked again); whether the file
      is merged depends on `exists and not force` alone.  So on an existing file without --force EVERY entry point is init_config
      for the chosen preset - the merge specification does not depend on how the preset was chosen - and with --force / without a
      file the text written is the generated file of the chosen preset (the text of C20_fresh_files); the prompt yields the default
      or one of the presets. *)
Theorem C20_merge_independent_of_entry_point : forall q ni d ans E p,
  entry_preset ni d ans = Some p -> init_entry q ni d ans false (Some E) = EMerge (init_config q p E).
Proof. exact entry_merge_is_init_config. Qed.
Print Assumptions C20_merge_independent_of_entry_point.

Theorem C20_init_entry_spec : forall q ni d ans p reps E,
  q_append_to_flow_root q = false \/ is_block E = true -> q_insert_mid_entry q = false \/ marker_ok E = true ->
  entry_preset ni d ans = Some p -> lookup p presets = Some reps -> struct_r (analyse E) = true ->
  exists r, init_entry q ni d ans false (Some E) = EMerge r /\
            let R := result_file E r in
            forall r2, init_entry q ni d ans false (Some R) = EMerge r2 -> spec_ok reps E R (result_file R r2) = true.
Proof. exact init_entry_spec. Qed.
Print Assumptions C20_init_entry_spec.

Theorem C20_entry_fresh_file : forall q ni d ans force existing p reps,
  entry_preset ni d ans = Some p -> lookup p presets = Some reps -> (force = true \/ existing = None) ->
  init_entry q ni d ans force existing = EFresh (gen_content reps).
Proof. exact entry_fresh_is_template. Qed.
Print Assumptions C20_entry_fresh_file.

Theorem C20_prompt_yields_a_preset : forall d ans p,
  prompt_choice d ans = Some p -> p = d \/ In p (map fst presets).
Proof. exact prompt_choice_sound. Qed.
Print Assumptions C20_prompt_yields_a_preset.

Example C20_entry_nonvacuous :
  entry_preset false "standard" [""] = Some "standard" /\ entry_preset false "standard" ["bogus"; "STRICT"; "lenient"] = Some "lenient" /\
  entry_preset false "standard" ["bogus"] = None /\ entry_preset true "strict" [] = Some "strict".
Proof. vm_compute. repeat split; reflexivity. Qed.

(* 2. what the specification says, bit by bit: valid YAML whose entries are literally old or template entries;
      old non-blank lines preserved in order; settings in effect; only missing sections added; all of them added
      (block roots); added sections carry the template's content; the second run leaves the file as it is. *)
Theorem C20_spec_meaning : forall reps E R R2, spec_ok reps E R R2 = true ->
  valid_b reps E R = true /\ preserved_b E R = true /\ in_effect_b E R = true /\ only_missing_b E R = true /\
  (is_block E = true -> complete_b R = true) /\ added_content_b reps E R = true /\ R2 = R.
Proof. exact spec_ok_unfold. Qed.
Print Assumptions C20_spec_meaning.

Theorem C20_settings_stay_in_effect : forall E R a, in_effect_b E R = true -> analyse E = RBlock a ->
  exists b, analyse R = RBlock b /\ forall e, In e a -> eff (norm (ekey e)) b = eff (norm (ekey e)) a.
Proof. exact in_effect_sound. Qed.
Print Assumptions C20_settings_stay_in_effect.

Theorem C20_old_lines_preserved : forall E R, preserved_b E R = true -> subseq (nonblank E) (nonblank R).
Proof. intros E R H. exact (subseqb_sound _ _ H). Qed.
Print Assumptions C20_old_lines_preserved.

(* 2'. byte level, with NO assumption on the existing file (block scalars, quoted text, anything): whenever init-config rewrites
      the file, the new text is the old text with new lines put in at one place - every old line byte-identical - except that in
      append mode the white space at the very end of the file is removed. *)
Theorem C20_raw_text_preserved : forall q preset reps E names R,
  lookup preset presets = Some reps -> init_config q preset E = Merged names R ->
  (exists ins, R = rstrip_doc E ++ ins) \/ (exists pre ins post, E = pre ++ post /\ R = pre ++ ins ++ post).
Proof.
  intros q preset reps E names R Hl Hr.
  exact (match init_raw_preserved q preset reps E names R Hl Hr with
         | RawAppend _ _ ins H => or_introl (ex_intro _ ins H)
         | RawInsert _ _ pre ins post H1 H2 => or_intror (ex_intro _ pre (ex_intro _ ins (ex_intro _ post (conj H1 H2))))
         end).
Qed.
Print Assumptions C20_raw_text_preserved.

(* 2''. ... and that white space is ALL the append mode takes away: the text is either white space only, or it is A, a last
      non-blank line l = rstrip l ++ w (w white space only) and blank lines B, and the new text starts with A and rstrip l.
      This confines finding eof_rstrip_changes_block_scalar to files in which w / B belong to a value (a file ending inside a block
      scalar); `is_blank` / `all_ws` use str.isspace on the ASCII range. *)
Theorem C20_append_loses_only_trailing_whitespace : forall q preset reps E names R,
  lookup preset presets = Some reps -> init_config q preset E = Merged names R ->
  (exists pre ins post, E = pre ++ post /\ R = pre ++ ins ++ post) \/
  (forallb is_blank E = true /\ exists ins, R = EmptyString :: ins) \/
  (exists A l B w ins, E = A ++ l :: B /\ is_blank l = false /\ forallb is_blank B = true /\
                       l = (rstrip l ++ w)%string /\ all_ws w = true /\ R = A ++ rstrip l :: ins).
Proof. exact init_append_loses_only_ws. Qed.
Print Assumptions C20_append_loses_only_trailing_whitespace.

(* 3. the file generated for each preset: a block document that has every linter section under its hyphenated
      name, no two keys that normalise to the same name, no placeholder left, and on which init-config finds
      nothing missing (computed on the template and preset table read from the source). *)
Theorem C20_fresh_files : forallb (fun p => fresh_ok (snd p)) presets = true /\ map fst presets = ["strict"; "standard"; "lenient"].
Proof. exact (conj fresh_files_ok preset_names). Qed.
Print Assumptions C20_fresh_files.

(* 4. config set: a rejected value leaves the file unchanged; get never writes; an accepted value is written into
      a configuration that validates. *)
Theorem C20_rejected_set_leaves_file : forall q ex f k t,
  o_rc (step q ex f (CSet k t)) <> 0 -> o_file (step q ex f (CSet k t)) = f.
Proof. exact rejected_set_leaves_file. Qed.
Print Assumptions C20_rejected_set_leaves_file.

Theorem C20_get_leaves_file : forall q ex f k, o_file (step q ex f (CGet k)) = f.
Proof. exact get_leaves_file. Qed.
Print Assumptions C20_get_leaves_file.

Theorem C20_accepted_set_writes_valid : forall q ex f k t,
  o_rc (step q ex f (CSet k t)) = 0 ->
  exists c, o_file (step q ex f (CSet k t)) = Some c /\ valid c = true /\ lookup (ckey_set q k) c = Some (convert t).
Proof. exact accepted_set_writes_valid. Qed.
Print Assumptions C20_accepted_set_writes_valid.

(* 4'. the guards of validate_config read from the source ARE the documented validity (required keys; level and format
      sets; max_retries a non-negative integer; timeout a positive number; app_name non-empty) - an edited operator,
      bound, set or message in src/config.py breaks this - so what an accepted `config set` writes is valid as documented. *)
Theorem C20_validators_are_documented : (forall c, valid c = valid_doc c) /\
  max_retries_msg = "max_retries must be a non-negative integer" /\ timeout_msg = "timeout must be a positive number"
  /\ app_name_msg = "app_name must be a non-empty string".
Proof. exact (conj valid_is_documented documented_messages). Qed.
Print Assumptions C20_validators_are_documented.

Theorem C20_documented_boundaries :
  check_num_guard "timeout" CLe 0 [("timeout", VInt 0)] = false /\
  check_num_guard "timeout" CLe 0 [("timeout", VFloat false "0" "0")] = false /\
  check_num_guard "timeout" CLe 0 [("timeout", VFloat true "0" "0")] = false /\
  check_num_guard "timeout" CLe 0 [("timeout", VFloat false "0" "001")] = true /\
  check_num_guard "timeout" CLe 0 [("timeout", VInt 1)] = true /\
  check_num_guard "timeout" CLe 0 [("timeout", VInt (-1))] = false /\
  check_int_guard "max_retries" CLt 0 [("max_retries", VInt 0)] = true /\
  check_int_guard "max_retries" CLt 0 [("max_retries", VInt (-1))] = false /\
  check_int_guard "max_retries" CLt 0 [("max_retries", VFloat false "1" "0")] = false.
Proof. exact documented_boundaries. Qed.
Print Assumptions C20_documented_boundaries.

(* 5. ... and, for every quirk vector (the commands normalise the key like the loader does, as read from the repaired
      source), the written file loads again, validates, and `config get` prints the accepted value. *)
Theorem C20_accepted_set_reloads : forall q ex f k t,
  o_rc (step q ex f (CSet k t)) = 0 ->
  exists c c', o_file (step q ex f (CSet k t)) = Some c /\ load ex (Some c) = Some c' /\ valid c' = true
               /\ lookup (norm k) c' = Some (convert t).
Proof. exact accepted_set_reloads. Qed.
Print Assumptions C20_accepted_set_reloads.

Theorem C20_set_then_get : forall q ex f k t,
  o_rc (step q ex f (CSet k t)) = 0 ->
  let f' := o_file (step q ex f (CSet k t)) in
  step q ex f' (CGet k) = Build_obs 0 (Some (show (convert t))) f'.
Proof. exact set_then_get. Qed.
Print Assumptions C20_set_then_get.

(* 5'. what `config get` prints denotes the accepted value: reading the printed text back with the conversion of `config set`
      gives the stored value again - for EVERY text (booleans print as True/False, integers without sign/zeros padding, decimals
      in repr form, anything else verbatim).  Proved inside Coq from the decimal printing of the standard library. *)
Theorem C20_get_prints_the_accepted_value : forall t, convert (show (convert t)) = convert t.
Proof. exact get_prints_the_accepted_value. Qed.
Print Assumptions C20_get_prints_the_accepted_value.

(* 6. histories: for every quirk vector, every sequence of set / get / reset commands (hyphenated keys included) from every
      initial file (absent, valid, invalid; --config given or not), every step of the model trace meets the trace
      specification: rejected sets and gets leave the file alone, accepted sets leave a file that is valid AS DOCUMENTED
      after loading and holds the value, and a get of a key set earlier (no later set of it, no reset) prints that value. *)
Theorem C20_history : forall q ex cs f,
  forallb (fun b => b) (spec_trace [] f cs (run q ex f cs)) = true.
Proof. exact history_spec_fresh. Qed.
Print Assumptions C20_history.

(* 7. WITHOUT --config: the default-location chain of src/config.py (Model/CfgLoc.v).  The state is one file state per entry of
      CONFIG_LOCATIONS - absent, unreadable / not a mapping, or a mapping - in ANY combination.  `load_chain` takes the first
      location whose merged configuration validates (unreadable and invalid ones are skipped), `config set` / `reset` write
      CONFIG_LOCATIONS[save_location_index].  Both literals are read from the source; the save location is the one searched first. *)
Theorem C20_save_location_is_searched_first :
  save_location_index = 0 /\
  config_locations = [("cwd", "config.yaml"); ("cwd", "config.json"); ("home", ".config/{{PROJECT_NAME}}/config.yaml");
                      ("home", ".config/{{PROJECT_NAME}}/config.json"); ("abs", "/etc/{{PROJECT_NAME}}/config.yaml")].
Proof. exact (conj gen_save_first gen_locations). Qed.
Print Assumptions C20_save_location_is_searched_first.

Theorem C20_default_locations_rejected_set : forall q ls k t,
  lo_rc (lstep q ls (CSet k t)) <> 0 -> lo_files (lstep q ls (CSet k t)) = ls.
Proof. exact lrejected_set_leaves_files. Qed.
Print Assumptions C20_default_locations_rejected_set.

Theorem C20_default_locations_get : forall q ls k, lo_files (lstep q ls (CGet k)) = ls.
Proof. exact lget_leaves_files. Qed.
Print Assumptions C20_default_locations_get.

(* an accepted set writes the save location - with a configuration that validates and holds the converted value - and no other *)
Theorem C20_default_locations_accepted_set : forall q ls k t,
  lo_rc (lstep q ls (CSet k t)) = 0 ->
  exists c, nth save_location_index (lo_files (lstep q ls (CSet k t))) LAbsent = LFile c /\ valid c = true
            /\ lookup (norm k) c = Some (convert t)
            /\ forall m, m <> save_location_index -> nth m (lo_files (lstep q ls (CSet k t))) LAbsent = nth m ls LAbsent.
Proof. exact laccepted_set_writes. Qed.
Print Assumptions C20_default_locations_accepted_set.

(* ... and the next `config get` finds it, whatever stands at the other locations (a valid file further down the chain, an
      invalid or unreadable one in front of it before the set) *)
Theorem C20_default_locations_set_then_get : forall q ls k t,
  lo_rc (lstep q ls (CSet k t)) = 0 ->
  let ls' := lo_files (lstep q ls (CSet k t)) in
  lstep q ls' (CGet k) = Build_lobs 0 (Some (show (convert t))) ls'.
Proof. exact lset_then_get. Qed.
Print Assumptions C20_default_locations_set_then_get.

(* histories: every quirk vector, every initial combination of files, every command sequence - each step meets the trace
      specification of Model/CfgLoc.v (rejected set / get: no file anywhere changes; accepted set: every changed file is valid as
      documented after loading and holds the value, some location holds it; a later get prints it) *)
Theorem C20_default_locations_history : forall q cs ls,
  forallb (fun b => b) (lspec_trace [] ls cs (lrun q ls cs)) = true.
Proof. exact lhistory_spec_fresh. Qed.
Print Assumptions C20_default_locations_history.

(* the single-file machine of theorems 4-6 (no --config, only ./config.yaml considered) is the one-location instance *)
Theorem C20_single_file_is_one_location : forall q f c,
  let o := step q false f c in
  lstep q [lf f] c = Build_lobs (o_rc o) (o_out o) [lf (o_file o)].
Proof. exact lstep_single. Qed.
Print Assumptions C20_single_file_is_one_location.

(* 8. --config FILE with ANY suffix (Model/CfgPath.v): the loader accepts the lower-cased suffix, the writer the suffix as written
      (extension lists read from the source).  A suffix the writer accepts is accepted by the loader, and then the machine is the
      single-file machine of theorems 4-6; with every other suffix (.YAML, .JSON, .toml, none ...) no command ever changes the
      file and no `config set` exits 0; for every suffix a set that does not exit 0 leaves the file, and every history meets the
      trace specification. *)
Theorem C20_writable_suffix_is_single_file_machine : forall q suf f c,
  suffix_writable suf = true -> suffix_loadable suf = true /\ pstep q suf f c = step q true f c.
Proof. intros q suf f c H. exact (conj (writable_loadable suf H) (pstep_is_step q suf f c H)). Qed.
Print Assumptions C20_writable_suffix_is_single_file_machine.

Theorem C20_unwritable_suffix_never_writes : forall q suf f c,
  suffix_writable suf = false -> o_file (pstep q suf f c) = f.
Proof. exact pstep_unwritable_keeps_file. Qed.
Print Assumptions C20_unwritable_suffix_never_writes.

Theorem C20_any_suffix_rejected_set_leaves_file : forall q suf f k t,
  (o_rc (pstep q suf f (CSet k t)) <> 0 -> o_file (pstep q suf f (CSet k t)) = f) /\
  (o_rc (pstep q suf f (CSet k t)) = 0 -> suffix_writable suf = true).
Proof. intros q suf f k t. exact (conj (pstep_rejected_set_leaves_file q suf f k t) (pstep_accepted_set_needs_writable q suf f k t)). Qed.
Print Assumptions C20_any_suffix_rejected_set_leaves_file.

Theorem C20_any_suffix_history : forall q suf f cs,
  forallb (fun b => b) (spec_trace [] f cs (prun q suf f cs)) = true.
Proof. exact phistory. Qed.
Print Assumptions C20_any_suffix_history.

Example C20_suffix_nonvacuous :
  map suffix_writable [".yaml"; ".yml"; ".json"; ".YAML"; ".JSON"; ".toml"; ""] = [true; true; true; false; false; false; false] /\
  map suffix_loadable [".yaml"; ".yml"; ".json"; ".YAML"; ".JSON"; ".toml"; ""] = [true; true; true; true; true; false; false] /\
  map o_rc (prun ideal ".YAML" (Some [("greeting", VStr "Yo")]) [CGet "greeting"; CSet "greeting" "Hi"; CSet "timeout" "0"; CReset]) = [0; 1; 1; 1] /\
  map o_rc (prun ideal ".toml" (Some []) [CGet "greeting"; CSet "greeting" "Hi"]) = [2; 2] /\
  map o_rc (prun ideal ".toml" None [CGet "greeting"; CSet "greeting" "Hi"]) = [0; 1].
Proof. vm_compute. repeat split; reflexivity. Qed.

(* non-vacuity: ./config.yaml invalid (skipped), ./config.json unreadable (skipped), the user-level YAML file valid: the greeting
   comes from the third location; the accepted set rewrites ./config.yaml (the skipped invalid file) with the merged configuration,
   the rejected one touches nothing; the other locations keep their files *)
Definition ex_locs : lstate :=
  [LFile [("log_level", VStr "bogus")]; LBroken; LFile [("greeting", VStr "Hi"); ("my-key", VInt 5)]; LAbsent; LAbsent].
Example C20_locations_nonvacuous :
  map lo_out (lrun ideal ex_locs [CGet "greeting"; CSet "timeout" "0"; CSet "my-key" "7"; CGet "my_key"; CGet "greeting"])
    = [Some "Hi"; None; Some "Set my_key = 7"; Some "7"; Some "Hi"] /\
  map lo_rc (lrun ideal ex_locs [CGet "greeting"; CSet "timeout" "0"; CSet "my-key" "7"]) = [0; 1; 0] /\
  tl (lo_files (lstep ideal ex_locs (CSet "my-key" "7"))) = tl ex_locs.
Proof. vm_compute. repeat split; reflexivity. Qed.

(* non-vacuity: an admissible existing file with comments, both spellings, a flow value and a column-0 sequence, from
   which nine sections are missing; the merge keeps `magic_numbers` in effect under the ideal vector *)
Definition ex_E : list string :=
  ["# team config"; "---"; "magic_numbers:"; "  allowed_numbers: [4242]  # ours"; ""; "nesting: {max_nesting_depth: 3}";
   "exclude:"; "- build/"; "dry:"; "    min_duplicate_lines: 7"; ""].
Example C20_nonvacuous :
  struct_r (analyse ex_E) = true /\ is_block ex_E = true /\ marker_ok ex_E = true /\ spelling_ok ex_E = false /\
  List.length (result_names (init_config ideal "strict" ex_E)) = 9 /\
  root_keys (analyse ex_E) = ["magic_numbers"; "nesting"; "exclude"; "dry"].
Proof. vm_compute. repeat split; reflexivity. Qed.
