(* placeholder while the harness is being brought up *)
From TL Require Import Lib.Base Model.CfgMerge Model.CfgCli Model.CfgToolRun Actual.CfgToolActual.
Theorem C20_placeholder : True. Proof. exact I. Qed.
Print Assumptions C20_placeholder.
