(* Proofs/MethodPropLocal.v — the method-property detector (Model/MethodProp.v):
   * for EVERY quirk vector: n copies give n moved report lists, and the embedding law holds for every context that
     wraps in no class (confinement of q_mp_class_body_only: the quirk only matters below a class wrapper);
   * with q_mp_class_body_only = false: the law holds for every context whose innermost wrapper is not a class and in
     which no function wrapper sits directly in a class wrapper (class in a method, class under if / try in a class ...).
   The context's own contribution is what the detector reports on the context filled with nothing (plug c []). *)
From Coq Require Import Permutation.
From TL Require Import Lib.Base Lib.GenTypes Gen.EmbedGen Model.Embed Model.PrintStmt Model.PerfConcat Model.StatelessCls
     Model.MethodProp Proofs.EmbedLocality Proofs.PrintStmtLocal Proofs.PerfConcatLocal Proofs.StatelessClsLocal.

Lemma mp_step_shift q dl dc s t : mp_step q s (shift dl dc t) = mp_step q s t.
Proof. unfold mp_step. now rewrite !is_cls_shift, nsval_shift, nrole_shift. Qed.

Lemma mp_emit_shift dl dc s t : mp_emit s (shift dl dc t) = shiftRs dl dc (mp_emit s t).
Proof.
  unfold mp_emit. rewrite is_cls_shift, nrole_shift, erase_shift, nsval_shift.
  destruct (fst s) as [|[|n]]; try reflexivity.
  destruct (is_cls mp_method_cls t && String.eqb (nrole t) "body" && is_candidate (erase t)); destruct t as [i ks]; reflexivity.
Qed.

Theorem method_copies q n h frag :
  method_reports q (copies n h frag) = flat_map (fun k => shiftRs (k * h) 0 (method_reports q frag)) (seq 0 n).
Proof. unfold method_reports. apply (copies_local (mp_step q) mp_emit (mp_step_shift q) mp_emit_shift). Qed.

(* what the context alone reports *)
Lemma context_alone q c s :
  detectF (mp_step q) mp_emit s (plug c []) = gen_pre (mp_step q) mp_emit c [] s ++ gen_post (mp_step q) mp_emit c [] s.
Proof.
  rewrite (plug_decompose (mp_step q) mp_emit (mp_step_shift q) mp_emit_shift c [] s).
  unfold detectF at 1. cbn [flat_map shiftRs map]. reflexivity.
Qed.

(* ------------------------------------------------------------------ contexts without a class wrapper, any quirk vector *)
Lemma mp_open_indep q c : sl_ctx_ok c = true ->
  indep (mp_step q) mp_emit c (0, "") /\ hole_sum (mp_step q) c [] (0, "") = (0, "").
Proof.
  induction c as [|i pre post dl dc c' IH|pre dl c' IH post]; cbn [sl_ctx_ok indep hole_sum]; intro H.
  - split; [exact I|reflexivity].
  - apply andb_true_iff in H. destruct H as [H1 H2]. apply negb_true_iff in H1.
    assert (St : forall mid, mp_step q (0, "") (Node i (pre ++ mid ++ post)) = (0, "")).
    { intro mid. unfold mp_step, is_cls, ncls. cbn [ninfo fst]. change mp_class_cls with sl_class_cls. rewrite H1.
      destruct (q_mp_class_body_only q); reflexivity. }
    unfold wnode. rewrite (St (shiftF dl dc (plug c' []))). destruct (IH H2) as [I1 I2]. split; [|exact I2].
    split; [|now rewrite (St [])].
    intro mid. split; [reflexivity|]. now rewrite (St mid), (St []).
  - now apply IH.
Qed.

Theorem method_embedding_open q c frag :
  sl_ctx_ok c = true ->
  Permutation (method_reports q (plug c frag))
              (shiftRs (off_l c) (off_c c) (method_reports q frag) ++ method_reports q (plug c [])).
Proof.
  intro H. unfold method_reports. destruct (mp_open_indep q c H) as [Hi Hs].
  rewrite (plug_indep (mp_step q) mp_emit (mp_step_shift q) mp_emit_shift c frag (0, "") Hi), Hs, context_alone.
  rewrite app_assoc. rewrite (app_assoc _ (gen_pre (mp_step q) mp_emit c [] (0, ""))).
  apply Permutation_app_tail. apply Permutation_app_comm.
Qed.

(* ------------------------------------------------------------------ class wrappers, with every class analysed *)
Section Ideal.
  Variable q : mquirks.
  Hypothesis Hq : q_mp_class_body_only q = false.

  Lemma step_ideal s i ks :
    mp_step q s (Node i ks) = if String.eqb (cls i) mp_class_cls then (1, sval i) else (0, "").
  Proof. unfold mp_step. rewrite Hq. reflexivity. Qed.

  Lemma mp_ideal_indep c : forall p s,
    (p = false -> s = (0, "")) -> (p = true -> fst s = 1) -> mp_ctx_ok_from p c = true ->
    indep (mp_step q) mp_emit c s /\ hole_sum (mp_step q) c [] s = (0, "").
  Proof.
    induction c as [|i pre post dl dc c' IH|pre dl c' IH post]; intros p s H0 H1 H; cbn [mp_ctx_ok_from indep hole_sum] in *.
    - split; [exact I|]. apply H0. now apply negb_true_iff in H.
    - apply andb_true_iff in H. destruct H as [Ha Hb]. unfold wnode. rewrite !step_ideal.
      assert (Em : forall mid, mp_emit s (Node i (pre ++ mid ++ post)) = []).
      { intro mid. unfold mp_emit. destruct p.
        - rewrite (H1 eq_refl). unfold is_cls, ncls. cbn [ninfo]. cbn [andb] in Ha. apply negb_true_iff in Ha. now rewrite Ha.
        - rewrite (H0 eq_refl). reflexivity. }
      destruct (IH (String.eqb (cls i) mp_class_cls) (if String.eqb (cls i) mp_class_cls then (1, sval i) else (0, ""))) as [I1 I2].
      + now intros ->.
      + now intros ->.
      + exact Hb.
      + split; [|exact I2]. split; [|exact I1]. intro mid. split; [now rewrite (Em mid), (Em [])|now rewrite !step_ideal].
    - now apply (IH p s H0 H1 H).
  Qed.

  Theorem method_embedding_local c frag :
    mp_ctx_ok c = true ->
    Permutation (method_reports q (plug c frag))
                (shiftRs (off_l c) (off_c c) (method_reports q frag) ++ method_reports q (plug c [])).
  Proof.
    intro H. unfold method_reports.
    destruct (mp_ideal_indep c false (0, "") (fun _ => eq_refl) (fun E => ltac:(discriminate)) H) as [Hi Hs].
    rewrite (plug_indep (mp_step q) mp_emit (mp_step_shift q) mp_emit_shift c frag (0, "") Hi), Hs, context_alone.
    rewrite app_assoc. rewrite (app_assoc _ (gen_pre (mp_step q) mp_emit c [] (0, ""))).
    apply Permutation_app_tail. apply Permutation_app_comm.
  Qed.
End Ideal.

(* the documented exclusion lists and the code's tables are the same lists *)
Lemma mp_tables_as_documented :
  mp_exclude_prefixes = mp_doc_exclude_prefixes /\ mp_exclude_names = mp_doc_exclude_names.
Proof. split; reflexivity. Qed.
