(* Proofs/IgnoreStr.v — elementary facts about the string runtime of Model/PyStr.v:
   prefix / containment under append, ASCII lowering, reversal, and the counting argument used to locate
   the single occurrence of a key word inside a line assembled from pieces. *)
From TL Require Import Lib.Base Model.PyStr.

(* ---------- append, length ---------- *)
Lemma sapp_nil_r s : (s ++ "")%string = s.
Proof. induction s as [|c s IH]; cbn [append]; [reflexivity|now rewrite IH]. Qed.

Lemma sapp_assoc a b c : ((a ++ b) ++ c)%string = (a ++ (b ++ c))%string.
Proof. induction a as [|x a IH]; cbn [append]; [reflexivity|now rewrite IH]. Qed.

Lemma slen_app a b : String.length (a ++ b) = String.length a + String.length b.
Proof. induction a as [|x a IH]; cbn [append String.length]; [reflexivity|now rewrite IH]. Qed.

(* ---------- prefixb ---------- *)
Lemma prefixb_nil s : prefixb "" s = true.
Proof. destruct s; reflexivity. Qed.

Lemma prefixb_app p t : prefixb p (p ++ t) = true.
Proof. induction p as [|c p IH]; cbn [append prefixb]; [reflexivity|]. now rewrite Ascii.eqb_refl, IH. Qed.

Lemma prefixb_refl p : prefixb p p = true.
Proof. rewrite <- (sapp_nil_r p) at 2. apply prefixb_app. Qed.

Lemma prefixb_app_inv a b s : prefixb (a ++ b) s = true -> prefixb a s = true.
Proof.
  revert s. induction a as [|c a IH]; intros s H; [apply prefixb_nil|].
  cbn [append prefixb] in *. destruct s as [|d s]; [discriminate|].
  apply andb_true_iff in H as [H1 H2]. rewrite H1. cbn [andb]. now apply IH.
Qed.

Lemma prefixb_ext p s t : prefixb p s = true -> prefixb p (s ++ t) = true.
Proof.
  revert s. induction p as [|c p IH]; intros s H; [apply prefixb_nil|].
  destruct s as [|d s]; cbn [prefixb append] in *; [discriminate|].
  apply andb_true_iff in H as [H1 H2]. rewrite H1. cbn [andb]. now apply IH.
Qed.

Lemma prefixb_cancel a y q : prefixb (a ++ y) (a ++ q) = prefixb y q.
Proof. induction a as [|c a IH]; cbn [append prefixb]; [reflexivity|]. now rewrite Ascii.eqb_refl, IH. Qed.

Lemma prefixb_false_ext p s t : prefixb p s = false -> String.length p <= String.length s -> prefixb p (s ++ t) = false.
Proof.
  revert s. induction p as [|c p IH]; intros s H L; [rewrite prefixb_nil in H; discriminate|].
  destruct s as [|d s]; cbn [String.length] in L; [lia|].
  cbn [prefixb append] in *. destruct (Ascii.eqb c d); cbn [andb] in *; [|reflexivity].
  apply IH; [exact H|lia].
Qed.

(* ---------- containsb ---------- *)
Lemma containsb_unfold n s :
  containsb n s = prefixb n s || match s with EmptyString => false | String _ r => containsb n r end.
Proof. destruct s; reflexivity. Qed.

Lemma containsb_prefix n s : prefixb n s = true -> containsb n s = true.
Proof. intro H. rewrite containsb_unfold, H. reflexivity. Qed.

Lemma containsb_cons n c s : containsb n s = true -> containsb n (String c s) = true.
Proof. intro H. rewrite containsb_unfold, H. apply orb_true_r. Qed.

Lemma containsb_app_r n a b : containsb n b = true -> containsb n (a ++ b) = true.
Proof. intro H. induction a as [|c a IH]; cbn [append]; [exact H|]. now apply containsb_cons. Qed.

Lemma containsb_app_l n a b : containsb n a = true -> containsb n (a ++ b) = true.
Proof.
  induction a as [|c a IH]; intro H.
  - rewrite containsb_unfold in H. rewrite orb_false_r in H. cbn [append].
    destruct n; [rewrite containsb_unfold, prefixb_nil; reflexivity|discriminate].
  - rewrite containsb_unfold in H. apply orb_true_iff in H as [H|H].
    + apply containsb_prefix. now apply (prefixb_ext n (String c a) b).
    + cbn [append]. apply containsb_cons. now apply IH.
Qed.

Lemma containsb_mid n a b : containsb n (a ++ n ++ b) = true.
Proof. apply containsb_app_r. apply containsb_prefix. apply prefixb_app. Qed.

(* a text that contains x ++ k ++ y contains k *)
Lemma prefixb_sub x k y s : prefixb (x ++ k ++ y) s = true -> containsb k s = true.
Proof.
  revert s. induction x as [|c x IH]; intros s H.
  - cbn [append] in H. apply containsb_prefix. now apply (prefixb_app_inv k y).
  - cbn [append prefixb] in H. destruct s as [|d s]; [discriminate|].
    apply andb_true_iff in H as [_ H]. apply containsb_cons. now apply IH.
Qed.

Lemma containsb_sub x k y s : containsb (x ++ k ++ y) s = true -> containsb k s = true.
Proof.
  induction s as [|c s IH]; intro H; rewrite containsb_unfold in H.
  - rewrite orb_false_r in H. now apply (prefixb_sub x k y).
  - apply orb_true_iff in H as [H|H]; [now apply (prefixb_sub x k y)|]. apply containsb_cons. now apply IH.
Qed.

Lemma containsb_false_sub x k y s : containsb k s = false -> containsb (x ++ k ++ y) s = false.
Proof. intro H. destruct (containsb (x ++ k ++ y) s) eqn:E; [|reflexivity]. apply containsb_sub in E. congruence. Qed.

(* ---------- lower ---------- *)
Lemma lower_ascii_idem c : lower_ascii (lower_ascii c) = lower_ascii c.
Proof. destruct c as [[] [] [] [] [] [] [] []]; reflexivity. Qed.

Lemma lower_app a b : lower (a ++ b) = (lower a ++ lower b)%string.
Proof. induction a as [|c a IH]; cbn [append lower]; [reflexivity|now rewrite IH]. Qed.

Lemma lower_idem s : lower (lower s) = lower s.
Proof. induction s as [|c s IH]; cbn [lower]; [reflexivity|]. now rewrite lower_ascii_idem, IH. Qed.

Lemma lower_length s : String.length (lower s) = String.length s.
Proof. induction s as [|c s IH]; cbn [lower String.length]; [reflexivity|now rewrite IH]. Qed.

Lemma lower_ascii_eqb a b : Ascii.eqb a b = true -> Ascii.eqb (lower_ascii a) (lower_ascii b) = true.
Proof. intro H. apply Ascii.eqb_eq in H. subst. apply Ascii.eqb_refl. Qed.

Lemma prefixb_lower p s : prefixb p s = true -> prefixb (lower p) (lower s) = true.
Proof.
  revert s. induction p as [|c p IH]; intros s H; [apply prefixb_nil|].
  destruct s as [|d s]; cbn [prefixb lower] in *; [discriminate|].
  apply andb_true_iff in H as [H1 H2]. rewrite (lower_ascii_eqb _ _ H1). cbn [andb]. now apply IH.
Qed.

Lemma containsb_lower n s : containsb n s = true -> containsb (lower n) (lower s) = true.
Proof.
  induction s as [|c s IH]; intro H; rewrite containsb_unfold in H.
  - rewrite orb_false_r in H. apply containsb_prefix. now apply (prefixb_lower n "").
  - apply orb_true_iff in H as [H|H].
    + apply containsb_prefix. now apply (prefixb_lower n (String c s)).
    + cbn [lower]. apply containsb_cons. now apply IH.
Qed.

Lemma lower_stake n s : lower (stake n s) = stake n (lower s).
Proof. revert s. induction n as [|n IH]; intros [|c s]; cbn [stake lower]; try reflexivity. now rewrite IH. Qed.

Lemma lower_sdrop n s : lower (sdrop n s) = sdrop n (lower s).
Proof. revert s. induction n as [|n IH]; intros [|c s]; cbn [sdrop lower]; try reflexivity. apply IH. Qed.

(* ---------- take / drop / reverse ---------- *)
Lemma stake_sdrop n s : (stake n s ++ sdrop n s)%string = s.
Proof. revert s. induction n as [|n IH]; intros [|c s]; cbn [stake sdrop append]; try reflexivity. now rewrite IH. Qed.

Lemma sdrop_app a b : sdrop (String.length a) (a ++ b) = b.
Proof. induction a as [|c a IH]; cbn [String.length append sdrop]; [reflexivity|exact IH]. Qed.

Lemma stake_app a b : stake (String.length a) (a ++ b) = a.
Proof. induction a as [|c a IH]; cbn [String.length append stake]; [reflexivity|now rewrite IH]. Qed.

Lemma prefixb_stake p s : prefixb p (stake (String.length p) s) = prefixb p s.
Proof.
  revert s. induction p as [|c p IH]; intros s; [now rewrite !prefixb_nil|].
  destruct s as [|d s]; cbn [String.length stake prefixb]; [reflexivity|]. now rewrite IH.
Qed.

Lemma srev_app_spec s acc : srev_app s acc = (srev_app s "" ++ acc)%string.
Proof.
  revert acc. induction s as [|c s IH]; intro acc; cbn [srev_app append]; [reflexivity|].
  rewrite IH. rewrite (IH (String c "")). rewrite sapp_assoc. reflexivity.
Qed.

Lemma srev_cons c s : srev (String c s) = (srev s ++ String c "")%string.
Proof. unfold srev. cbn [srev_app]. apply srev_app_spec. Qed.

Lemma srev_app_distr a b : srev (a ++ b) = (srev b ++ srev a)%string.
Proof.
  induction a as [|c a IH]; cbn [append].
  - unfold srev at 3. cbn [srev_app]. now rewrite sapp_nil_r.
  - rewrite !srev_cons, IH, sapp_assoc. reflexivity.
Qed.

Lemma srev_involutive s : srev (srev s) = s.
Proof.
  induction s as [|c s IH]; [reflexivity|].
  rewrite srev_cons, srev_app_distr, IH. reflexivity.
Qed.

Lemma srev_length s : String.length (srev s) = String.length s.
Proof.
  induction s as [|c s IH]; [reflexivity|]. rewrite srev_cons, slen_app, IH. cbn [String.length]. lia.
Qed.

(* ---------- counting occurrences ---------- *)
Fixpoint count_occ (k s : string) : nat :=
  (if prefixb k s then 1 else 0) + match s with EmptyString => 0 | String _ r => count_occ k r end.

Lemma count_occ_unfold k s :
  count_occ k s = (if prefixb k s then 1 else 0) + match s with EmptyString => 0 | String _ r => count_occ k r end.
Proof. destruct s; reflexivity. Qed.

Lemma count_zero_contains k s : count_occ k s = 0 -> containsb k s = false.
Proof.
  induction s as [|c s IH]; intro H; rewrite count_occ_unfold in H; rewrite containsb_unfold.
  - destruct (prefixb k ""); [discriminate|reflexivity].
  - destruct (prefixb k (String c s)); [discriminate|]. cbn [orb]. apply IH. cbn [plus] in H. exact H.
Qed.

Lemma contains_false_count k s : containsb k s = false -> count_occ k s = 0.
Proof.
  induction s as [|c s IH]; intro H; rewrite containsb_unfold in H; rewrite count_occ_unfold.
  - rewrite orb_false_r in H. now rewrite H.
  - apply orb_false_iff in H as [H1 H2]. rewrite H1. cbn [plus]. now apply IH.
Qed.

Lemma contains_count_pos k s : containsb k s = true -> 1 <= count_occ k s.
Proof.
  intro H. destruct (count_occ k s) eqn:E; [|lia]. apply count_zero_contains in E. congruence.
Qed.

(* c does not occur in k *)
Fixpoint nochar (c : ascii) (k : string) : bool :=
  match k with EmptyString => true | String x r => negb (Ascii.eqb x c) && nochar c r end.

Lemma prefixb_sep k a c b : nochar c k = true -> prefixb k (a ++ String c b) = prefixb k a.
Proof.
  revert a. induction k as [|x k IH]; intros a H; [now rewrite !prefixb_nil|].
  cbn [nochar] in H. apply andb_true_iff in H as [H1 H2].
  destruct a as [|y a]; cbn [append prefixb].
  - apply negb_true_iff in H1. now rewrite H1.
  - now rewrite (IH a H2).
Qed.

(* a separator that is not a letter of k cuts the counting in two *)
Lemma count_sep k a c b : nochar c k = true -> k <> EmptyString ->
  count_occ k (a ++ String c b) = count_occ k a + count_occ k b.
Proof.
  intros H Hk. induction a as [|y a IH].
  - cbn [append]. rewrite (count_occ_unfold k (String c b)). rewrite (count_occ_unfold k "").
    destruct k as [|x k]; [congruence|].
    cbn [nochar] in H. apply andb_true_iff in H as [H1 _]. apply negb_true_iff in H1.
    cbn [prefixb]. rewrite H1. cbn [andb plus]. reflexivity.
  - cbn [append]. rewrite (count_occ_unfold k (String y (a ++ String c b))), (count_occ_unfold k (String y a)).
    change (String y (a ++ String c b)) with (String y a ++ String c b)%string.
    rewrite (prefixb_sep k (String y a) c b H). rewrite IH. lia.
Qed.

Lemma count_sep_end k a c : nochar c k = true -> k <> EmptyString ->
  count_occ k (a ++ String c "") = count_occ k a.
Proof.
  intros H Hk. rewrite (count_sep k a c "" H Hk). rewrite (count_occ_unfold k "").
  destruct k; [congruence|]. cbn [prefixb plus]. lia.
Qed.

(* ---------- the single occurrence ---------- *)
(* if k occurs exactly once in p ++ k ++ q, every occurrence of x ++ k ++ y puts y right after that k *)
Lemma unique_occ_suffix k y q : forall p x,
  count_occ k (p ++ k ++ q) = 1 ->
  containsb (x ++ k ++ y) (p ++ k ++ q) = true -> prefixb y q = true.
Proof.
  induction p as [|c p IH]; intros x Hc H.
  - cbn [append] in *.
    assert (Htail : match (k ++ q)%string with EmptyString => 0 | String _ r => count_occ k r end = 0).
    { rewrite count_occ_unfold in Hc. rewrite prefixb_app in Hc. lia. }
    rewrite containsb_unfold in H. apply orb_true_iff in H as [H|H].
    + destruct x as [|d x].
      * cbn [append] in H. now rewrite prefixb_cancel in H.
      * cbn [append prefixb] in H. destruct (k ++ q)%string as [|e r] eqn:E; [discriminate|].
        apply andb_true_iff in H as [_ H]. apply prefixb_sub in H. apply contains_count_pos in H. lia.
    + destruct (k ++ q)%string as [|e r] eqn:E; [discriminate|].
      apply containsb_sub in H. apply contains_count_pos in H. lia.
  - cbn [append] in *. rewrite count_occ_unfold in Hc.
    assert (Hpos : 1 <= count_occ k (p ++ k ++ q)) by (apply contains_count_pos, containsb_mid).
    destruct (prefixb k (String c (p ++ k ++ q))) eqn:Ep; [lia|]. cbn [plus] in Hc.
    rewrite containsb_unfold in H. apply orb_true_iff in H as [H|H].
    + destruct x as [|d x].
      * cbn [append] in H. apply (prefixb_app_inv k y) in H. congruence.
      * cbn [append prefixb] in H. apply andb_true_iff in H as [_ H].
        apply (IH x Hc). now apply containsb_prefix.
    + now apply (IH x Hc).
Qed.

Lemma unique_occ_none k y q p x :
  count_occ k (p ++ k ++ q) = 1 -> prefixb y q = false -> containsb (x ++ k ++ y) (p ++ k ++ q) = false.
Proof.
  intros Hc Hy. destruct (containsb (x ++ k ++ y) (p ++ k ++ q)) eqn:E; [|reflexivity].
  apply (unique_occ_suffix k y q p x Hc) in E. congruence.
Qed.

(* before the single occurrence no suffix of the text starts with k *)
Lemma unique_occ_before k q : forall p a b, p = (a ++ b)%string -> b <> EmptyString ->
  count_occ k (p ++ k ++ q) = 1 -> prefixb k (b ++ k ++ q) = false.
Proof.
  induction p as [|c p IH]; intros a b E Hb Hc.
  - destruct a; destruct b; cbn [append] in E; congruence.
  - cbn [append] in Hc. rewrite count_occ_unfold in Hc.
    assert (Hpos : 1 <= count_occ k (p ++ k ++ q)) by (apply contains_count_pos, containsb_mid).
    destruct (prefixb k (String c (p ++ k ++ q))) eqn:Ep; [lia|]. cbn [plus] in Hc.
    destruct a as [|d a]; cbn [append] in E.
    + subst b. exact Ep.
    + injection E as -> E. now apply (IH a b E Hb Hc).
Qed.

Lemma unique_occ_after k q p : k <> EmptyString ->
  count_occ k (p ++ k ++ q) = 1 ->
  match (k ++ q)%string with EmptyString => True | String _ r => count_occ k r = 0 end.
Proof.
  intros Hk. induction p as [|c p IH]; intro Hc; cbn [append] in Hc.
  - rewrite count_occ_unfold in Hc. rewrite prefixb_app in Hc.
    destruct (k ++ q)%string; [exact I|lia].
  - rewrite count_occ_unfold in Hc.
    assert (Hpos : 1 <= count_occ k (p ++ k ++ q)) by (apply contains_count_pos, containsb_mid).
    destruct (prefixb k (String c (p ++ k ++ q))); [lia|]. cbn [plus] in Hc. now apply IH.
Qed.
