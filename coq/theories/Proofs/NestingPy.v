(* Proofs/NestingPy.v — the Python depth visitor (_visit_node & co.) computes, for a start
   depth s and a control-structure table that agrees with `counts` on the kinds in use,
   s - 1 + (documented depth) when the function contains a control structure and 0 otherwise.
   Generic in s / table / admissible kinds; instantiated twice in NestingMain.v. *)
From TL Require Import Lib.Base Lib.GenTypes Model.Skel Model.Nesting Proofs.NestingTs.

(* the visitor with the literals read from the source is the visitor the lemmas below talk about *)
Section PyInd.
  Variable P : pynode -> Prop.
  Hypothesis HIf : forall b o, Forall P b -> Forall P o -> P (PIf b o).
  Hypothesis HNode : forall cls cs, Forall P cs -> P (PNode cls cs).
  Fixpoint pynode_ind' (n : pynode) : P n :=
    let go := fix go (l : list pynode) : Forall P l :=
                match l with
                | [] => Forall_nil P
                | x :: xs => Forall_cons x (pynode_ind' x) (go xs)
                end in
    match n with
    | PIf b o => HIf b o (go b) (go o)
    | PNode cls cs => HNode cls cs (go cs)
    end.
End PyInd.

Lemma py_visit_g_111 ctl n : forall d e, py_visit_g 1 1 1 ctl n d e = py_visit ctl n d e.
Proof.
  induction n as [b o IHb IHo|cls cs IH] using pynode_ind'; intros d e.
  - cbn [py_visit_g py_visit]. rewrite Nat.add_1_r.
    set (d' := if e then d else S d).
    assert (Hb : maxl (map (fun c => py_visit_g 1 1 1 ctl c d' false) b) = maxl (map (fun c => py_visit ctl c d' false) b)).
    { apply maxl_map_ext. rewrite Forall_forall in IHb |- *. intros c Hc. apply IHb, Hc. }
    assert (Ho : maxl (map (fun c => py_visit_g 1 1 1 ctl c d' false) o) = maxl (map (fun c => py_visit ctl c d' false) o)).
    { apply maxl_map_ext. rewrite Forall_forall in IHo |- *. intros c Hc. apply IHo, Hc. }
    rewrite Hb. f_equal. f_equal.
    destruct o as [|[b1 o1|cls1 l1] [|y ys]]; try exact Ho.
    + inversion IHo as [|? ? H1 _]; subst. cbn [List.length Nat.eqb]. apply H1.
  - cbn [py_visit_g py_visit]. rewrite Nat.add_1_r.
    assert (H1 : forall dd, maxl (map (fun c => py_visit_g 1 1 1 ctl c dd false) cs) = maxl (map (fun c => py_visit ctl c dd false) cs)).
    { intros dd. apply maxl_map_ext. rewrite Forall_forall in IH |- *. intros c Hc. apply IH, Hc. }
    rewrite !H1. reflexivity.
Qed.

Lemma py_visit_src_eq ctl n d e : py_visit_src ctl n d e = py_visit ctl n d e.
Proof. exact (py_visit_g_111 ctl n d e). Qed.

Definition sh (d n : nat) : nat := if n =? 0 then 0 else d + n.

Lemma sh_max d a b : Nat.max (sh d a) (sh d b) = sh d (Nat.max a b).
Proof. unfold sh. destruct a, b; cbn [Nat.eqb Nat.max]; lia. Qed.

Lemma maxl_sh {A} (f g : A -> nat) d l :
  Forall (fun x => f x = sh d (g x)) l -> maxl (map f l) = sh d (maxl (map g l)).
Proof.
  induction 1 as [|x xs Hx _ IH]; cbn [map maxl]; [reflexivity|]. rewrite Hx, IH. apply sh_max.
Qed.

(* an else block consisting of exactly one `if` is, for CPython, an elif: outside the domain *)
Fixpoint no_else_if (t : tree) : bool :=
  match t with
  | T k cs =>
    negb (match k, cs with KElse, [T KIf _] => true | _, _ => false end) && forallb no_else_if cs
  end.

Definition orelse_val (ctl : list string) (orelse : list pynode) (d' : nat) : nat :=
  match orelse with
  | [PIf b o as e] => py_visit ctl e d' true
  | _ => maxl (map (fun c => py_visit ctl c d' false) orelse)
  end.

Lemma py_visit_if ctl body orelse d e :
  py_visit ctl (PIf body orelse) d e =
  let d' := if e then d else S d in
  Nat.max (if e then 0 else d')
          (Nat.max (maxl (map (fun c => py_visit ctl c d' false) body)) (orelse_val ctl orelse d')).
Proof. destruct orelse as [|[b o|cls l] [|y ys]]; reflexivity. Qed.

Lemma py_visit_node ctl cls cs d e :
  py_visit ctl (PNode cls cs) d e =
  if smem cls ctl then Nat.max (S d) (maxl (map (fun c => py_visit ctl c (S d) false) cs))
  else maxl (map (fun c => py_visit ctl c d false) cs).
Proof. reflexivity. Qed.

Lemma to_py_node k cs : k <> KIf -> to_py (T k cs) = PNode (py_cls k) (map to_py cs).
Proof. destruct k; try reflexivity; congruence. Qed.

Definition py_chainF (c : tree) (acc : list pynode) : list pynode :=
  match c with
  | T KElif b => [PIf (map to_py b) acc]
  | T KElse b => map to_py b
  | _ => acc
  end.

Lemma to_py_if cs :
  to_py (T KIf cs) =
  PIf (flat_map (fun c => if is_branch (tkind c) then [] else [to_py c]) cs) (fold_right py_chainF [] cs).
Proof. reflexivity. Qed.

Section Generic.
  Variables (ctl : list string) (okk : kind -> bool).
  Hypothesis Hctl : forall k, okk k = true -> is_branch k = false -> k <> KIf -> smem (py_cls k) ctl = counts k.

  Definition pv (t : tree) (d : nat) : nat := py_visit ctl (to_py t) d false.

  Definition PP (t : tree) : Prop :=
    wfb t = true -> tree_all okk t = true -> no_else_if t = true ->
    forall d,
      if is_branch (tkind t)
      then maxl (map (fun x => pv x d) (tkids t)) = sh d (maxl (map nest (tkids t)))
      else pv t d = sh d (nest t).

  Lemma PP_list l d :
    Forall PP l -> forallb wf l = true -> forallb (tree_all okk) l = true -> forallb no_else_if l = true ->
    maxl (map (fun x => pv x d) l) = sh d (maxl (map nest l)).
  Proof.
    intros HP Hw Ha Hn. apply maxl_sh. rewrite forallb_forall in Hw, Ha, Hn.
    rewrite Forall_forall in HP |- *. intros x Hx.
    specialize (HP x Hx). unfold PP in HP. pose proof (wf_not_branch _ (Hw x Hx)) as Hb. rewrite Hb in HP.
    apply HP; [|apply Ha, Hx|apply Hn, Hx].
    destruct x as [k cs]. unfold wfb. cbn [tkind] in Hb. rewrite Hb. apply Hw, Hx.
  Qed.

  Lemma chain_value_py cs d' :
    Forall PP cs ->
    forallb (fun c => match c with T ck ccs => if is_branch ck then forallb wf ccs else wf c end) cs = true ->
    forallb (tree_all okk) cs = true -> forallb no_else_if cs = true ->
    else_last cs = true ->
    orelse_val ctl (fold_right py_chainF [] cs) d' = sh d' (maxl (map branch_nest cs)).
  Proof.
    induction 1 as [|c cs Hc Hcs IH]; cbn [forallb fold_right map maxl]; [reflexivity|].
    intros Hw Ha Hn Hl.
    apply andb_prop in Hw. destruct Hw as [Hw Hws]. apply andb_prop in Ha. destruct Ha as [Ha Has].
    apply andb_prop in Hn. destruct Hn as [Hn Hns].
    destruct c as [k b]. change (branch_nest (T k b)) with (if is_branch k then nest (T k b) else 0).
    assert (Hb : forall k', k = k' -> is_branch k' = true ->
                 maxl (map (fun x => pv x d') b) = sh d' (maxl (map nest b))).
    { intros k' -> Hbr. unfold PP in Hc. cbn [tkind tkids] in Hc. rewrite Hbr in Hc. apply Hc; [|exact Ha|exact Hn].
      unfold wfb. rewrite Hbr. rewrite Hbr in Hw. exact Hw. }
    destruct k; cbn [py_chainF is_branch];
      try (cbn [else_last] in Hl; rewrite (IH Hws Has Hns Hl); f_equal; lia).
    - (* KElif *)
      cbn [else_last] in Hl. unfold orelse_val at 1. rewrite py_visit_if. cbv zeta. cbn iota.
      rewrite (IH Hws Has Hns Hl). rewrite map_map.
      specialize (Hb KElif eq_refl eq_refl). unfold pv in Hb. rewrite Hb.
      cbn [nest counts b2n]. rewrite sh_max. cbn [Nat.max]. f_equal.
    - (* KElse *)
      cbn [else_last] in Hl.
      assert (Hz : maxl (map branch_nest cs) = 0).
      { clear -Hl. induction cs as [|x xs IHx]; [reflexivity|]. cbn [forallb] in Hl.
        apply andb_prop in Hl. destruct Hl as [H1 H2]. cbn [map maxl]. rewrite (IHx H2).
        unfold branch_nest. apply negb_true_iff in H1. rewrite H1. reflexivity. }
      rewrite Hz, Nat.max_0_r. cbn [nest counts b2n]. cbn [Nat.add].
      specialize (Hb KElse eq_refl eq_refl).
      assert (Hdef : orelse_val ctl (map to_py b) d' = maxl (map (fun c => py_visit ctl c d' false) (map to_py b))).
      { cbn [no_else_if] in Hn. apply andb_prop in Hn. destruct Hn as [Hn _]. apply negb_true_iff in Hn.
        destruct b as [|[k1 c1] [|y ys]]; try reflexivity; destruct k1; try reflexivity; discriminate. }
      rewrite Hdef, map_map. exact Hb.
  Qed.

  Lemma thens_value_py cs d' :
    Forall PP cs ->
    forallb (fun c => match c with T ck ccs => if is_branch ck then forallb wf ccs else wf c end) cs = true ->
    forallb (tree_all okk) cs = true -> forallb no_else_if cs = true ->
    maxl (map (fun c => py_visit ctl c d' false) (flat_map (fun c => if is_branch (tkind c) then [] else [to_py c]) cs))
    = sh d' (maxl (map plain_nest cs)).
  Proof.
    induction 1 as [|c cs Hc Hcs IH]; cbn [forallb flat_map map maxl]; [reflexivity|].
    intros Hw Ha Hn.
    apply andb_prop in Hw. destruct Hw as [Hw Hws]. apply andb_prop in Ha. destruct Ha as [Ha Has].
    apply andb_prop in Hn. destruct Hn as [Hn Hns].
    rewrite map_app, maxl_app, (IH Hws Has Hns). rewrite <- sh_max. f_equal.
    destruct c as [k b]. change (plain_nest (T k b)) with (if is_branch k then 0 else nest (T k b)). cbn [tkind].
    destruct (is_branch k) eqn:Hbr; cbn [map maxl]; [reflexivity|].
    unfold PP in Hc. cbn [tkind] in Hc. rewrite Hbr in Hc. unfold pv in Hc. rewrite Hc; [lia| |exact Ha|exact Hn].
    unfold wfb. rewrite Hbr. exact Hw.
  Qed.

  Theorem pv_is_nest t : PP t.
  Proof.
    induction t as [k cs IH] using tree_ind'. unfold PP. intros Hw Ha Hn d. cbn [tkind tkids].
    cbn [no_else_if] in Hn. apply andb_prop in Hn. destruct Hn as [_ Hn].
    destruct (is_branch k) eqn:Hbr.
    - unfold wfb in Hw. rewrite Hbr in Hw. cbn [tree_all] in Ha. apply andb_prop in Ha. destruct Ha as [_ Ha].
      apply PP_list; assumption.
    - unfold wfb in Hw. rewrite Hbr in Hw. cbn [wf] in Hw. rewrite Hbr in Hw. cbn [negb andb] in Hw.
      apply andb_prop in Hw. destruct Hw as [Hl Hw].
      cbn [tree_all] in Ha. apply andb_prop in Ha. destruct Ha as [Hk Ha].
      destruct (match k with KIf => true | _ => false end) eqn:Hisif.
      + assert (k = KIf) as -> by (destruct k; congruence).
        unfold pv. rewrite to_py_if, py_visit_if. cbv zeta. cbn iota.
        assert (Hw' : forallb (fun c => match c with T ck ccs => if is_branch ck then forallb wf ccs else wf c end) cs = true).
        { rewrite forallb_forall in Hw |- *. intros [ck ccs] Hin. specialize (Hw _ Hin). cbn beta iota in Hw.
          destruct (is_branch ck); [apply andb_prop in Hw; tauto | exact Hw]. }
        rewrite thens_value_py by assumption. rewrite chain_value_py by assumption.
        rewrite sh_max, <- split_nest. cbn [nest counts b2n]. unfold sh.
        destruct (maxl (map nest cs)) eqn:Em; cbn [Nat.eqb Nat.add]; lia.
      + assert (Hne : k <> KIf) by (intros ->; discriminate).
        unfold pv. rewrite to_py_node by exact Hne. rewrite py_visit_node.
        rewrite (Hctl k Hk Hbr Hne). rewrite !map_map.
        assert (Hws : forallb wf cs = true).
        { rewrite forallb_forall in Hw |- *. intros [ck ccs] Hin. specialize (Hw _ Hin). cbn beta iota in Hw.
          destruct (is_branch ck) eqn:Hb2; [|exact Hw]. destruct k; cbn in Hw; try discriminate. }
        pose proof (fun d0 => PP_list cs d0 IH Hws Ha Hn) as HL. unfold pv in HL.
        cbn [nest]. destruct (counts k); cbn [b2n].
        * rewrite HL. unfold sh. destruct (maxl (map nest cs)) eqn:Em; cbn [Nat.eqb Nat.add]; lia.
        * rewrite HL. reflexivity.
  Qed.

  (* PythonNestingAnalyzer.calculate_max_depth with start depth s *)
  Lemma py_calc_value (s : nat) body :
    forallb wf body = true -> forallb (tree_all okk) body = true -> forallb no_else_if body = true ->
    maxl (map (fun st => py_visit ctl (to_py st) s false) body) = sh s (maxl (map nest body)).
  Proof.
    intros Hw Ha Hn. apply (PP_list body s); try assumption.
    apply Forall_forall. intros x _. apply pv_is_nest.
  Qed.
End Generic.
