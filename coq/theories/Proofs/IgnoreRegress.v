(* Proofs/IgnoreRegress.v — regressions: the witnesses of the five findings repaired by the fix: commits b7d1dc0 (// next-line and
   file markers), 71ade39 (block end), 9b79df3 (bare directives) meet the specification under the vector claimed for the current
   tree (which reads the markers and fallbacks from the source).  The same files stay in corpus/C04 and must now pass. *)
From TL Require Import Lib.Base Lib.GenTypes Gen.IgnoreGen Model.PyStr Model.Ignore Model.IgnoreSpec Actual.IgnoreActual.

Definition repaired (a : list aline) (v : nat) (r : string) (expected : bool) : Prop :=
  file_ok a = true /\ target_ok a v = true /\ spec false a v r = expected /\ should_ignore ignore_actual false (render a) v r = expected.

Definition w_next_slash : list aline := [LNext "" Slashes (Names "magic-numbers"); LPlain "return 4242;"].
Lemma next_line_hash_only_repaired : repaired w_next_slash 2 "magic-numbers.numeric-literal" true.
Proof. vm_compute. repeat split; reflexivity. Qed.

Definition w_file_slash : list aline := [LFile Slashes (Names "nesting"); LPlain "function f() {"].
Lemma file_hash_only_repaired : repaired w_file_slash 2 "nesting.excessive-depth" true.
Proof. vm_compute. repeat split; reflexivity. Qed.

(* the violation on line 1 is outside (before) the block on lines 2-4: it was suppressed before 71ade39, it no longer is *)
Definition w_before_block : list aline :=
  [LPlain "x = 4242"; LStart "" Hash false (Names "magic-numbers"); LPlain "y = 1"; LEnd "" Hash].
Lemma block_end_before_repaired : repaired w_before_block 1 "magic-numbers.numeric-literal" false.
Proof. vm_compute. repeat split; reflexivity. Qed.

Definition w_bare_line : list aline := [LSame "def f(a):" Hash Bare].
Lemma bare_line_unsupported_repaired : repaired w_bare_line 1 "nesting.excessive-depth" true.
Proof. vm_compute. repeat split; reflexivity. Qed.

Definition w_bare_file : list aline := [LFile Hash Bare; LPlain "def f(a):"].
Lemma bare_file_unsupported_repaired : repaired w_bare_file 2 "nesting.excessive-depth" true.
Proof. vm_compute. repeat split; reflexivity. Qed.

