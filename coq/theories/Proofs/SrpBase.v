(* Proofs/SrpBase.v — list / string lemmas used by the C16 proofs (independent of the generated layer). *)
From TL Require Import Lib.Base Model.SrpTypes Model.SrpSpec.

(* ------------------------------------------------------------------ strings *)
Lemma starts_with_spec p s : starts_with p s = true <-> exists b, s = (p ++ b)%string.
Proof.
  revert s. induction p as [|a p IH]; intros s; cbn [starts_with String.append].
  - split; [intros _; now exists s | reflexivity].
  - destruct s as [|b s].
    + split; [discriminate | intros [x H]; discriminate].
    + rewrite andb_true_iff, Ascii.eqb_eq, IH. split.
      * intros [-> [x ->]]. now exists x.
      * intros [x H]. injection H as -> ->. split; [reflexivity | now exists x].
Qed.

Lemma contains_spec kw s : contains kw s = true <-> exists a b, s = (a ++ kw ++ b)%string.
Proof.
  induction s as [|c s IH]; cbn [contains]; rewrite orb_true_iff, starts_with_spec.
  - split.
    + intros [[b H]|H]; [|discriminate]. exists "", b. exact H.
    + intros [a [b H]]. left. destruct a as [|x a]; [exists b; exact H | discriminate].
  - rewrite IH. split.
    + intros [[b H]|[a [b H]]]; [exists "", b; exact H | exists (String c a), b; cbn [String.append]; now rewrite H].
    + intros [a [b H]]. destruct a as [|x a]; [left; exists b; exact H | right].
      cbn [String.append] in H. injection H as _ H. now exists a, b.
Qed.

Lemma starts_with_nonempty p s : p <> "" -> starts_with p s = true -> String.eqb s "" = false.
Proof. destruct p as [|a p]; [congruence|]. intros _. destruct s; cbn; [discriminate | reflexivity]. Qed.

(* a line that starts with the block-comment marker is not empty and does not start with // *)
Lemma block_not_line t : starts_with "/*" t = true -> String.eqb t "" = false /\ starts_with "//" t = false.
Proof.
  destruct t as [|a [|b t]]; cbn [starts_with]; try (rewrite ?andb_false_r; discriminate).
  rewrite !andb_true_r, andb_true_iff, !Ascii.eqb_eq. intros [<- <-]. split; reflexivity.
Qed.

(* ------------------------------------------------------------------ lists *)
Lemma filter_all {A} (f : A -> bool) l : forallb f l = true -> filter f l = l.
Proof. induction l as [|x xs IH]; cbn [forallb filter]; [reflexivity|]. intros H. apply andb_prop in H. destruct H as [-> H]. now rewrite IH. Qed.

Lemma filter_const_true {A} (b : bool) (l : list A) : b = true -> filter (fun _ => b) l = l.
Proof. intros ->. induction l as [|x xs IH]; cbn [filter]; [reflexivity | now rewrite IH]. Qed.

Lemma filter_length_ext {A} (f g : A -> bool) l :
  (forall x, In x l -> f x = g x) -> List.length (filter f l) = List.length (filter g l).
Proof. intros H. now rewrite (filter_ext_in f g l H). Qed.

Lemma flat_map_ext_in' {A B} (f g : A -> list B) l :
  (forall x, In x l -> f x = g x) -> flat_map f l = flat_map g l.
Proof.
  induction l as [|x xs IH]; cbn [flat_map]; [reflexivity|]. intros H.
  rewrite (H x (or_introl eq_refl)), IH; [reflexivity|]. intros y Hy. apply H. now right.
Qed.

Lemma list_sum_map_ext {A} (f g : A -> nat) l :
  (forall x, In x l -> f x = g x) -> list_sum (map f l) = list_sum (map g l).
Proof. intros H. now rewrite (map_ext_in f g l H). Qed.

Lemma skipn_In {A} n (l : list A) x : In x (skipn n l) -> In x l.
Proof. revert l. induction n as [|n IH]; intros [|y l]; cbn [skipn]; try tauto. intros H. right. now apply IH. Qed.

Lemma firstn_In {A} n (l : list A) x : In x (firstn n l) -> In x l.
Proof. revert l. induction n as [|n IH]; intros [|y l]; cbn [firstn In]; try tauto. intros [->|H]; [now left | right; now apply IH]. Qed.

Lemma extent_In lines start len x : In x (extent lines start len) -> In x lines.
Proof. unfold extent. intros H. eapply skipn_In, firstn_In, H. Qed.

Lemma extent_length lines start len :
  span_good (List.length lines) start len = true -> List.length (extent lines start len) = len.
Proof.
  unfold span_good, extent. intros H. apply andb_prop in H. destruct H as [H H3]. apply andb_prop in H. destruct H as [H1 H2].
  apply Nat.leb_le in H1, H2, H3. rewrite firstn_length, skipn_length. lia.
Qed.

Lemma slice_extent (lines : list line) start len : 1 <= start -> slice (start - 1) (start + len - 1) lines = extent lines start len.
Proof. intros H. unfold slice, extent. replace (start + len - 1 - (start - 1)) with len by lia. reflexivity. Qed.

Lemma span_good_inv n start len : span_good n start len = true -> 1 <= start /\ 1 <= len /\ start + len - 1 <= n.
Proof.
  unfold span_good. intros H. apply andb_prop in H. destruct H as [H H3]. apply andb_prop in H. destruct H as [H1 H2].
  apply Nat.leb_le in H1, H2, H3. lia.
Qed.

Lemma forallb_In {A} (f : A -> bool) l x : forallb f l = true -> In x l -> f x = true.
Proof. intros H. rewrite forallb_forall in H. apply H. Qed.

Lemma path_eqb_refl p : path_eqb p p = true.
Proof. induction p as [|x p IH]; cbn [path_eqb]; [reflexivity|]. now rewrite String.eqb_refl, IH. Qed.

(* ------------------------------------------------------------------ str.strip() *)
Fixpoint all_ws (s : string) : bool := match s with EmptyString => true | String c r => is_ws c && all_ws r end.

Lemma lstrip_ws a x : all_ws a = true -> lstrip (a ++ x) = lstrip x.
Proof. induction a as [|c a IH]; cbn [all_ws String.append lstrip]; [reflexivity|]. intros H. apply andb_prop in H. destruct H as [-> H]. now apply IH. Qed.

Lemma rstrip_ws t b : all_ws b = true -> rstrip (t ++ b) = rstrip t.
Proof.
  intros Hb. induction t as [|c t IH]; cbn [String.append rstrip].
  - induction b as [|d b IHb]; cbn [rstrip]; [reflexivity|]. cbn [all_ws] in Hb. apply andb_prop in Hb. destruct Hb as [Hd Hb].
    rewrite (IHb Hb). now rewrite Hd.
  - now rewrite IH.
Qed.

Lemma lstrip_all_ws b : all_ws b = true -> lstrip b = "".
Proof. induction b as [|d b IH]; cbn [lstrip all_ws]; [reflexivity|]. intros H. apply andb_prop in H. destruct H as [-> H]. now apply IH. Qed.

(* a rendered line = whitespace indentation + text + trailing whitespace: strip gives the text back *)
Lemma strip_render a t b :
  all_ws a = true -> all_ws b = true -> (match t with String c _ => is_ws c | EmptyString => false end) = false ->
  strip (a ++ t ++ b) = rstrip t.
Proof.
  intros Ha Hb Ht. unfold strip. rewrite (lstrip_ws a _ Ha).
  destruct t as [|c t]; cbn [String.append].
  - now rewrite (lstrip_all_ws b Hb).
  - cbn [lstrip]. rewrite Ht. exact (rstrip_ws (String c t) b Hb).
Qed.

(* whitespace-only lines are blank *)
Lemma strip_blank s : all_ws s = true -> strip s = "".
Proof. intros H. unfold strip. now rewrite (lstrip_all_ws s H). Qed.
