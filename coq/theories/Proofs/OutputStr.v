(* Proofs/OutputStr.v — string lemmas used by the text round trip of C06: append, splitting at the
   first / last separator, prefixes, line splitting, decimal numerals, the newline escape. *)
From TL Require Import Lib.Base Model.OutputTypes Gen.OutputGen Model.Output.
From Coq Require Import ZArith Lia DecimalString Decimal DecimalZ DecimalPos.
Local Open Scope Z_scope.
Local Open Scope string_scope.

(* ---------- append ---------- *)
Lemma app_nil_r (s : string) : s ++ "" = s.
Proof. induction s as [|a s IH]; cbn; [reflexivity|now rewrite IH]. Qed.

Lemma app_assoc (a b c : string) : (a ++ b) ++ c = a ++ (b ++ c).
Proof. induction a as [|x a IH]; cbn; [reflexivity|now rewrite IH]. Qed.

Lemma has_char_app c a b : has_char c (a ++ b) = has_char c a || has_char c b.
Proof. induction a as [|x a IH]; cbn; [reflexivity|]. rewrite IH. now rewrite orb_assoc. Qed.

(* ---------- strip_prefix ---------- *)
Lemma strip_prefix_app p s : strip_prefix p (p ++ s) = Some s.
Proof. induction p as [|a p IH]; cbn; [reflexivity|]. now rewrite Ascii.eqb_refl. Qed.

(* ---------- split2: first occurrence of a two-character separator ---------- *)
Definition no2 (c1 c2 : ascii) (s : string) : bool := match split2 c1 c2 s with None => true | Some _ => false end.

Lemma split2_cons c1 c2 x s :
  split2 c1 c2 (String x s) =
  match s with
  | EmptyString => None
  | String b r' =>
    if Ascii.eqb x c1 && Ascii.eqb b c2 then Some (EmptyString, r')
    else match split2 c1 c2 s with Some (u, w) => Some (String x u, w) | None => None end
  end.
Proof. destruct s; reflexivity. Qed.

Lemma split2_app c1 c2 a b :
  c1 <> c2 -> no2 c1 c2 a = true -> split2 c1 c2 (a ++ String c1 (String c2 b)) = Some (a, b).
Proof.
  intros Hne. unfold no2.
  assert (E2 : Ascii.eqb c1 c2 = false) by (apply Ascii.eqb_neq; exact Hne).
  induction a as [|x a IH]; intros H.
  - cbn [append]. rewrite split2_cons. now rewrite !Ascii.eqb_refl.
  - destruct a as [|y a'].
    + cbn [append]. rewrite split2_cons. rewrite E2, andb_false_r.
      rewrite split2_cons. now rewrite !Ascii.eqb_refl.
    + rewrite split2_cons in H.
      destruct (Ascii.eqb x c1 && Ascii.eqb y c2) eqn:E; [discriminate|].
      assert (H' : match split2 c1 c2 (String y a') with Some _ => false | None => true end = true).
      { destruct (split2 c1 c2 (String y a')) as [[u w]|]; [discriminate|reflexivity]. }
      specialize (IH H').
      change (String x (String y a') ++ String c1 (String c2 b)) with (String x (String y a' ++ String c1 (String c2 b))).
      rewrite split2_cons. rewrite IH.
      change (String y a' ++ String c1 (String c2 b)) with (String y (a' ++ String c1 (String c2 b))).
      cbv iota. rewrite E. reflexivity.
Qed.

(* ---------- rsplit: last occurrence of a character ---------- *)
Lemma rsplit_none c s : has_char c s = false -> rsplit c s = None.
Proof.
  induction s as [|a s IH]; cbn [has_char rsplit]; [reflexivity|]. intros H. apply orb_false_iff in H as [H1 H2].
  rewrite (IH H2). now rewrite H1.
Qed.

Lemma rsplit_app c a b : has_char c b = false -> rsplit c (a ++ String c b) = Some (a, b).
Proof.
  intros H. induction a as [|x a IH]; cbn [append rsplit].
  - rewrite (rsplit_none _ _ H). now rewrite Ascii.eqb_refl.
  - now rewrite IH.
Qed.

(* ---------- split_nl ---------- *)
Lemma split_nl_app a r : no_nl a = true -> split_nl (a ++ String nl r) = a :: split_nl r.
Proof.
  unfold no_nl. induction a as [|c a IH]; cbn [append split_nl has_char]; intros H.
  - now rewrite Ascii.eqb_refl.
  - apply negb_true_iff, orb_false_iff in H as [H1 H2]. rewrite H1.
    rewrite IH; [reflexivity|]. now rewrite H2.
Qed.

Lemma no_nl_app a b : no_nl (a ++ b) = no_nl a && no_nl b.
Proof. unfold no_nl. rewrite has_char_app. now rewrite negb_orb. Qed.

(* ---------- decimal numerals ---------- *)
Lemma only_digits_uint d : only_digits (NilEmpty.string_of_uint d) = true.
Proof. induction d; cbn; try reflexivity; exact IHd. Qed.

Lemma no_char_digits c s : is_digit c = false -> only_digits s = true -> has_char c s = false.
Proof.
  intros Hc. induction s as [|a s IH]; cbn; [reflexivity|]. intros H. apply andb_true_iff in H as [H1 H2].
  rewrite (IH H2). destruct (Ascii.eqb_spec a c) as [->|]; [congruence|reflexivity].
Qed.

Lemma show_Z_nonneg z : 0 <= z -> exists d, d <> Nil /\ show_Z z = NilEmpty.string_of_uint d /\ Z.to_int z = Pos d.
Proof.
  intros H. destruct z as [|p|p]; [| |lia].
  - exists (D0 Nil). repeat split; discriminate.
  - exists (Pos.to_uint p). repeat split. apply Unsigned.to_uint_nonnil.
Qed.

Lemma all_digits_show z : 0 <= z -> all_digits (show_Z z) = true.
Proof.
  intros H. destruct (show_Z_nonneg z H) as (d & Hd & -> & _).
  unfold all_digits. destruct (NilEmpty.string_of_uint d) eqn:E.
  - destruct d; cbn in E; congruence.
  - rewrite <- E. apply only_digits_uint.
Qed.

Lemma read_digits_show z : 0 <= z -> read_digits (show_Z z) = Some z.
Proof.
  intros H. unfold read_digits. rewrite (all_digits_show z H).
  unfold show_Z. rewrite NilEmpty.isi. cbn. now rewrite DecimalZ.of_to.
Qed.

Lemma only_digits_of_all s : all_digits s = true -> only_digits s = true.
Proof. destruct s; cbn; [discriminate|auto]. Qed.

Lemma show_Z_no_char c z : 0 <= z -> is_digit c = false -> has_char c (show_Z z) = false.
Proof. intros H Hc. apply no_char_digits; [exact Hc|]. apply only_digits_of_all, all_digits_show, H. Qed.

(* negative numbers: a minus sign followed by the digits of the absolute value *)
Lemma show_Z_neg p : show_Z (Zneg p) = String "-"%char (show_Z (Zpos p)).
Proof. reflexivity. Qed.

Lemma show_Z_pos_first p : exists a r, show_Z (Zpos p) = String a r /\ Ascii.eqb a "-"%char = false.
Proof.
  assert (H : 0 <= Zpos p) by lia. pose proof (all_digits_show _ H) as D.
  destruct (show_Z (Zpos p)) as [|a r] eqn:E; [discriminate|].
  exists a, r. split; [reflexivity|]. cbn in D. apply andb_true_iff in D as [D _].
  destruct (Ascii.eqb_spec a "-"%char) as [->|]; [discriminate|reflexivity].
Qed.

Lemma read_int_show z : read_int (show_Z z) = Some z.
Proof.
  destruct z as [|p|p].
  - reflexivity.
  - destruct (show_Z_pos_first p) as (a & r & E & Ha). unfold read_int. rewrite E, Ha, <- E.
    apply read_digits_show. lia.
  - rewrite show_Z_neg. cbn [read_int]. rewrite Ascii.eqb_refl.
    rewrite read_digits_show by lia. reflexivity.
Qed.

Lemma show_Z_no_colon z : has_char ":"%char (show_Z z) = false.
Proof.
  destruct z as [|p|p].
  - reflexivity.
  - apply show_Z_no_char; [lia|reflexivity].
  - rewrite show_Z_neg. cbn [has_char]. rewrite show_Z_no_char; [reflexivity|lia|reflexivity].
Qed.

Lemma show_Z_no_nl z : no_nl (show_Z z) = true.
Proof.
  unfold no_nl. apply negb_true_iff. destruct z as [|p|p].
  - reflexivity.
  - apply show_Z_no_char; [lia|reflexivity].
  - rewrite show_Z_neg. cbn [has_char]. rewrite show_Z_no_char; [reflexivity|lia|reflexivity].
Qed.

(* ---------- the newline escape of the ideal text format ---------- *)
Lemma unescape_escape s : unescape (escape s) = s.
Proof.
  induction s as [|a s IH]; [reflexivity|]. cbn [escape].
  destruct (Ascii.eqb_spec a nl) as [->|Hn].
  - cbn. now rewrite IH.
  - destruct (Ascii.eqb_spec a "\"%char) as [->|Hb].
    + cbn. now rewrite IH.
    + cbn [unescape]. destruct (Ascii.eqb_spec a "\"%char); [contradiction|]. now rewrite IH.
Qed.

Lemma escape_no_nl s : no_nl (escape s) = true.
Proof.
  unfold no_nl. apply negb_true_iff. induction s as [|a s IH]; [reflexivity|]. cbn [escape].
  destruct (Ascii.eqb_spec a nl) as [->|Hn]; [cbn [has_char]; rewrite IH; reflexivity|].
  destruct (Ascii.eqb_spec a "\"%char) as [->|Hb]; [cbn [has_char]; rewrite IH; reflexivity|].
  cbn [has_char]. rewrite IH. destruct (Ascii.eqb_spec a nl); [contradiction|reflexivity].
Qed.
