(* Proofs/CfgInitMain.v — the theorem about `init-config` on an existing file, for all files of the YAML
   subset, all presets and all quirk vectors (each flag either off or its defect class avoided by the file);
   plus the facts about the template that are established by computation on Gen/CfgToolGen.v. *)
From TL Require Import Lib.Base Lib.GenTypes Model.CfgTypes Gen.CfgToolGen Model.CfgMerge
     Proofs.CfgLines Proofs.CfgMergeMain Proofs.CfgMergeText Proofs.CfgMergeSpec.
From Coq Require Import NArith.

(* ------------------------------------------------------------------ computed facts (re-checked whenever the source changes) *)
Lemma presets_ok : forallb (fun p => preset_ok (snd p)) presets = true.
Proof. vm_compute. reflexivity. Qed.

Lemma sections_distinct_ok : sections_distinct = true.
Proof. vm_compute. reflexivity. Qed.

Lemma lookup_In {A} k (d : list (string * A)) v : lookup k d = Some v -> In (k, v) d.
Proof.
  induction d as [|[k' v'] d IH]; [discriminate|]. cbn [lookup].
  destruct (String.eqb_spec k' k) as [->|]; [intros [= ->]; now left|]. intro H. right. now apply IH.
Qed.

Lemma preset_lookup_ok preset reps : lookup preset presets = Some reps -> preset_ok reps = true.
Proof.
  intro H. apply lookup_In in H. pose proof presets_ok as Hp. rewrite forallb_forall in Hp. exact (Hp _ H).
Qed.

(* ------------------------------------------------------------------ the file is left as it is *)
Definition is_block (E : list string) : bool := match analyse E with RBlock _ => true | _ => false end.

Lemma unchanged_spec reps E :
  preset_ok reps = true -> struct_r (analyse E) = true ->
  (is_block E = true -> complete_r (analyse E) = true) ->
  spec_ok reps E E E = true.
Proof.
  intros Hok Hs Hc. destruct (preset_ok_facts reps Hok) as (_ & _ & _ & _ & Htm).
  unfold spec_ok, spec_bits, spec_bits_r. rewrite Htm. cbn [forallb].
  assert (Hadd : added_keys_r (analyse E) (analyse E) = []).
  { unfold added_keys_r. apply filter_none. intros k Hk. apply negb_false_iff. now apply smem_In. }
  assert (H1 : valid_r (analyse E) (analyse E) (RBlock (tmpl_entries reps)) = true).
  { unfold valid_r. rewrite Hs. cbn [andb]. unfold known_entries_r. destruct (analyse E) as [es|ks|]; [| |discriminate Hs].
    - apply forallb_forall. intros e He. cbn [block_entries]. rewrite existsb_app. apply orb_true_iff. left. now apply existsb_entry_in.
    - apply lines_eqb_refl. }
  assert (H4 : only_missing_r (analyse E) (analyse E) = true).
  { unfold only_missing_r. rewrite Hadd. cbn [List.length nodupb forallb]. now rewrite Nat.add_0_r, Nat.eqb_refl. }
  assert (H6 : added_content_r (analyse E) (analyse E) (RBlock (tmpl_entries reps)) = true).
  { unfold added_content_r. rewrite Hadd. destruct (analyse E); [reflexivity|reflexivity|discriminate Hs]. }
  assert (H5 : match analyse E with RBlock _ => complete_r (analyse E) | _ => true end = true).
  { unfold is_block in Hc. destruct (analyse E) eqn:HE; try reflexivity. now apply Hc. }
  unfold preserved_b, in_effect_r. rewrite H1, subseqb_refl, lines_eqb_refl, H4, H5, H6. reflexivity.
Qed.

(* ------------------------------------------------------------------ main theorem *)
Theorem init_config_spec q preset reps E :
  lookup preset presets = Some reps ->
  struct_r (analyse E) = true ->
  q_append_to_flow_root q = false \/ is_block E = true ->
  q_insert_mid_entry q = false \/ marker_ok E = true ->
  let R := result_file E (init_config q preset E) in
  spec_ok reps E R (result_file R (init_config q preset R)) = true.
Proof.
  intros Hl Hs Hq2 Hq3. pose proof (preset_lookup_ok _ _ Hl) as Hok. cbv zeta.
  unfold init_config. rewrite Hl. unfold init_with.
  destruct (analyse E) as [es|ks|] eqn:HE; [| |discriminate Hs].
  - (* block document *)
    assert (Hag : agree q (map ekey es)).
    { apply agree_intro; [exact sections_distinct_ok|]. left. apply raw_missing_test_off. }
    destruct (filter (fun s => negb (present q (map ekey es) (fst s))) (preset_sections reps)) as [|m ms'] eqn:Hms.
    + assert (Hr : init_from q (preset_sections reps) E (RBlock es) = AlreadyComplete) by (unfold init_from; now rewrite Hms).
      rewrite Hr. cbn [result_file]. rewrite HE, Hr. cbn [result_file].
      apply (unchanged_spec reps E Hok); [now rewrite HE|]. intros _. rewrite HE.
      unfold complete_r, root_keys. apply forallb_forall. intros n Hn.
      rewrite <- (Hag n Hn). destruct (preset_ok_facts reps Hok) as (Hnames & _).
      rewrite <- Hnames in Hn. apply in_map_iff in Hn as (s & <- & Hin).
      destruct (present q (map ekey es) (fst s)) eqn:Hp; [reflexivity|].
      assert (Hf : In s (filter (fun s => negb (present q (map ekey es) (fst s))) (preset_sections reps))) by (apply filter_In; now rewrite Hp).
      rewrite Hms in Hf. contradiction.
    + assert (Hr : init_from q (preset_sections reps) E (RBlock es)
                   = Merged (map fst (m :: ms')) (merge_lines q E (join_texts section_join_newlines (map snd (m :: ms')))))
        by (unfold init_from; now rewrite Hms).
      rewrite Hr. cbn [result_file]. rewrite <- Hms.
      apply (merged_spec q reps E es Hok sections_distinct_ok HE Hag Hq3). rewrite Hms. discriminate.
  - (* flow-style root *)
    assert (Hq : q_append_to_flow_root q = false).
    { destruct Hq2 as [H|H]; [exact H|]. unfold is_block in H. rewrite HE in H. discriminate H. }
    assert (Hun : spec_ok reps E E E = true).
    { apply (unchanged_spec reps E Hok); [now rewrite HE|]. unfold is_block. rewrite HE. discriminate. }
    destruct (filter (fun s => negb (present q ks (fst s))) (preset_sections reps)) as [|m ms'] eqn:Hms.
    + assert (Hr : init_from q (preset_sections reps) E (RFlow ks) = AlreadyComplete) by (unfold init_from; now rewrite Hms).
      rewrite Hr. cbn [result_file]. rewrite HE, Hr. exact Hun.
    + assert (Hr : init_from q (preset_sections reps) E (RFlow ks) = Refused) by (unfold init_from; now rewrite Hms, Hq).
      rewrite Hr. cbn [result_file]. rewrite HE, Hr. exact Hun.
Qed.

(* the specification, bit by bit *)
Lemma spec_ok_unfold reps E R R2 : spec_ok reps E R R2 = true ->
  valid_b reps E R = true /\ preserved_b E R = true /\ in_effect_b E R = true /\ only_missing_b E R = true /\
  (is_block E = true -> complete_b R = true) /\ added_content_b reps E R = true /\ R2 = R.
Proof.
  unfold spec_ok, spec_bits, spec_bits_r. cbn [forallb]. intro H.
  repeat (apply andb_true_iff in H as [?H H]).
  repeat split; try assumption.
  - unfold is_block. intro Hb. destruct (analyse E); try discriminate Hb. assumption.
  - now apply lines_eqb_eq.
Qed.

(* what "stays in effect" means: every top-level entry of E is still what a loader finds under its (normalised) key *)
Lemma in_effect_sound E R a : in_effect_b E R = true -> analyse E = RBlock a ->
  exists b, analyse R = RBlock b /\ forall e, In e a -> eff (norm (ekey e)) b = eff (norm (ekey e)) a.
Proof.
  unfold in_effect_b, in_effect_r. intros H HE. apply orb_true_iff in H as [H|H].
  - apply lines_eqb_eq in H. subst R. now exists a.
  - rewrite HE in H. destruct (analyse R) as [b| |]; try discriminate H. exists b. split; [reflexivity|].
    rewrite forallb_forall in H. intros e He. now apply val_eqb_eq, H.
Qed.

(* the old lines survive: Prop-level reading of subseqb *)
Inductive subseq {A} : list A -> list A -> Prop :=
| sub_nil l : subseq [] l
| sub_take x a b : subseq a b -> subseq (x :: a) (x :: b)
| sub_skip x a b : subseq a b -> subseq a (x :: b).

Lemma subseqb_sound a b : subseqb a b = true -> subseq a b.
Proof.
  revert a. induction b as [|y b IH]; intros [|x a] H; try apply sub_nil; try discriminate H.
  cbn [subseqb] in H. destruct (String.eqb_spec x y) as [Heq|Hne].
  - subst y. apply sub_take. now apply IH.
  - apply sub_skip. now apply IH.
Qed.

(* ------------------------------------------------------------------ the generated file itself *)
Fixpoint contains (needle s : string) : bool :=
  prefix needle s || match s with String _ r => contains needle r | EmptyString => false end.

Definition fresh_ok (reps : list (string * string)) : bool :=
  let F := gen_content reps in
  match analyse F with
  | RBlock es =>
    forallb (fun n => smem n (map ekey es)) linter_sections            (* every linter section is there, hyphenated *)
    && nodupb (map norm (map ekey es))                                  (* no key shadows another *)
    && negb (existsb (contains "{{") F)                                  (* no placeholder left *)
    && match init_with ideal (preset_sections reps) F with AlreadyComplete => true | _ => false end
  | _ => false
  end.

Lemma fresh_files_ok : forallb (fun p => fresh_ok (snd p)) presets = true.
Proof. vm_compute. reflexivity. Qed.

Lemma preset_names : map fst presets = ["strict"; "standard"; "lenient"].
Proof. reflexivity. Qed.

(* ------------------------------------------------------------------ byte level, for every existing file whatsoever *)
Theorem init_raw_preserved q preset reps E names R :
  lookup preset presets = Some reps -> init_config q preset E = Merged names R -> raw_spliced E R.
Proof.
  intros Hl. pose proof (preset_lookup_ok _ _ Hl) as Hok. destruct (preset_ok_facts reps Hok) as (_ & Hwf & _).
  unfold init_config. rewrite Hl. unfold init_with, init_from.
  assert (Hgo : forall keys isb,
    match filter (fun s => negb (present q keys (fst s))) (preset_sections reps) with
    | [] => AlreadyComplete
    | _ :: _ => if negb isb && negb (q_append_to_flow_root q) then Refused
                else Merged (map fst (filter (fun s => negb (present q keys (fst s))) (preset_sections reps)))
                            (merge_lines q E (join_texts section_join_newlines (map snd (filter (fun s => negb (present q keys (fst s))) (preset_sections reps)))))
    end = Merged names R -> raw_spliced E R).
  { intros keys isb. remember (filter (fun s => negb (present q keys (fst s))) (preset_sections reps)) as ms eqn:Hms.
    assert (Hwf' : forallb sec_wf ms = true).
    { rewrite forallb_forall in *. intros s Hs. apply Hwf. rewrite Hms in Hs. now apply filter_In in Hs as [Hs _]. }
    clear Hms. destruct ms as [|m ms']; [discriminate|].
    destruct (negb isb && negb (q_append_to_flow_root q)); [discriminate|]. intro H.
    assert (HR : R = merge_lines q E (join_texts section_join_newlines (map snd (m :: ms')))) by congruence.
    rewrite HR. apply merge_raw_spliced; [discriminate|exact Hwf']. }
  destruct (analyse E) as [es|ks|]; [apply Hgo|apply Hgo|discriminate].
Qed.
