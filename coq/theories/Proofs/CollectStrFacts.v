(* Proofs/CollectStrFacts.v — elementary facts about the string / path primitives of Model/CollectStr.v:
   conversions, prefixes and suffixes, joining and splitting paths at "/". *)
From TL Require Import Lib.Base Model.CollectStr.

(* ------------------------------------------------------------------ conversions *)
Lemma la_sa l : la (sa l) = l.
Proof. apply list_ascii_of_string_of_list_ascii. Qed.

Lemma sa_la s : sa (la s) = s.
Proof. apply string_of_list_ascii_of_string. Qed.

Lemma la_inj s t : la s = la t -> s = t.
Proof. intro H. rewrite <- (sa_la s), <- (sa_la t). now rewrite H. Qed.

Lemma la_app s t : la (s ++ t)%string = la s ++ la t.
Proof. induction s as [|c s IH]; [reflexivity|]. cbn [String.append]. unfold la in *. cbn [list_ascii_of_string]. now rewrite IH. Qed.

Lemma la_cons c s : la (String c s) = c :: la s.
Proof. reflexivity. Qed.

Lemma la_empty : la "" = [].
Proof. reflexivity. Qed.

Lemma la_nil_iff s : la s = [] <-> s = ""%string.
Proof. split; [|intros ->; reflexivity]. destruct s; [reflexivity|discriminate]. Qed.

Lemma aeqb_eq a b : aeqb a b = true <-> a = b.
Proof. apply Ascii.eqb_eq. Qed.

Lemma aeqb_refl a : aeqb a a = true.
Proof. now apply aeqb_eq. Qed.

Lemma aeqb_neq a b : aeqb a b = false <-> a <> b.
Proof. unfold aeqb. destruct (Ascii.eqb_spec a b); split; congruence. Qed.

Lemma amem_In c l : amem c l = true <-> In c l.
Proof.
  unfold amem. rewrite existsb_exists. split.
  - intros [x [Hx E]]. apply aeqb_eq in E. now subst.
  - intro H. exists c. split; [exact H|apply aeqb_refl].
Qed.

(* ------------------------------------------------------------------ prefixes *)
Lemma lprefix_spec p s : lprefix p s = true <-> exists r, s = p ++ r.
Proof.
  revert s. induction p as [|c p IH]; intro s; cbn [lprefix].
  - split; [intros _; now exists s|reflexivity].
  - destruct s as [|d s]; [split; [discriminate|intros [r H]; discriminate]|].
    rewrite andb_true_iff, aeqb_eq, IH. split.
    + intros [-> [r ->]]. now exists r.
    + intros [r H]. injection H as -> ->. split; [reflexivity|now exists r].
Qed.

Lemma starts_with_spec s p : starts_with s p = true <-> exists r, la s = la p ++ r.
Proof. apply lprefix_spec. Qed.

Lemma ends_with_spec s suf : ends_with s suf = true <-> exists r, la s = r ++ la suf.
Proof.
  unfold ends_with. rewrite lprefix_spec. split.
  - intros [r H]. exists (rev r). apply (f_equal (@rev ascii)) in H.
    rewrite rev_involutive, rev_app_distr, rev_involutive in H. exact H.
  - intros [r H]. exists (rev r). rewrite H, rev_app_distr. reflexivity.
Qed.

Lemma bool_ext a b : (a = true <-> b = true) -> a = b.
Proof. intro H. now apply Bool.eq_iff_eq_true. Qed.

(* ------------------------------------------------------------------ characters of a string *)
Definition no_slash (l : list ascii) : Prop := ~ In slash l.

Lemma no_slash_app a b : no_slash (a ++ b) <-> no_slash a /\ no_slash b.
Proof. unfold no_slash. rewrite in_app_iff. tauto. Qed.

(* the first "/" of a string is where it is *)
Lemma first_slash_unique x y r r' :
  no_slash x -> no_slash y -> x ++ slash :: r = y ++ slash :: r' -> x = y /\ r = r'.
Proof.
  revert y. induction x as [|c x IH]; intros y Hx Hy E.
  - destruct y as [|d y]; [injection E as ->; now split|].
    cbn in E. injection E as <- _. exfalso. apply Hy. now left.
  - destruct y as [|d y].
    + cbn in E. injection E as -> _. exfalso. apply Hx. now left.
    + cbn in E. injection E as -> E.
      destruct (IH y) as [-> ->]; [intro H; apply Hx; now right|intro H; apply Hy; now right|exact E|now split].
Qed.

(* ------------------------------------------------------------------ ljoin *)
Lemma ljoin_cons x r : r <> [] -> ljoin (x :: r) = x ++ slash :: ljoin r.
Proof. destruct r; [congruence|reflexivity]. Qed.

Lemma ljoin_app a b : a <> [] -> b <> [] -> ljoin (a ++ b) = ljoin a ++ slash :: ljoin b.
Proof.
  intros Ha Hb. induction a as [|x a IH]; [congruence|].
  destruct a as [|y a].
  - cbn [app]. now rewrite ljoin_cons.
  - change ((x :: y :: a) ++ b) with (x :: ((y :: a) ++ b)).
    rewrite ljoin_cons by discriminate. rewrite IH by discriminate.
    rewrite (ljoin_cons x (y :: a)) by discriminate. now rewrite <- app_assoc.
Qed.

Definition comps_plain (cs : list (list ascii)) : Prop := Forall no_slash cs.

(* splitting at "/" undoes joining *)
Lemma lsplit_acc cur x rest :
  no_slash x -> lsplit cur (x ++ rest) = match rest with
                                          | [] => [rev cur ++ x]
                                          | c :: r => if aeqb c slash then (rev cur ++ x) :: lsplit [] r else lsplit (rev x ++ cur) rest
                                          end.
Proof.
  revert cur. induction x as [|c x IH]; intros cur Hx.
  - cbn [app rev]. rewrite app_nil_r. destruct rest as [|c r]; [reflexivity|]. cbn [lsplit]. destruct (aeqb c slash); reflexivity.
  - cbn [app lsplit]. assert (Hc : aeqb c slash = false).
    { apply aeqb_neq. intro E. apply Hx. left. now symmetry. }
    rewrite Hc. rewrite IH by (intro H; apply Hx; now right).
    cbn [rev]. rewrite <- !app_assoc. cbn [app]. reflexivity.
Qed.

Lemma lsplit_ljoin cs : cs <> [] -> comps_plain cs -> lsplit [] (ljoin cs) = cs.
Proof.
  induction cs as [|x cs IH]; [congruence|]. intros _ H. inversion H as [|? ? Hx Hcs]; subst.
  destruct cs as [|y cs].
  - cbn [ljoin]. rewrite <- (app_nil_r x) at 1. rewrite lsplit_acc by exact Hx. reflexivity.
  - rewrite ljoin_cons by discriminate. rewrite lsplit_acc by exact Hx.
    rewrite aeqb_refl. cbn [rev app]. f_equal. apply IH; [discriminate|exact Hcs].
Qed.

Lemma ljoin_inj cs ds : cs <> [] -> ds <> [] -> comps_plain cs -> comps_plain ds -> ljoin cs = ljoin ds -> cs = ds.
Proof.
  intros H1 H2 P1 P2 E. rewrite <- (lsplit_ljoin cs H1 P1), <- (lsplit_ljoin ds H2 P2). now rewrite E.
Qed.

(* a joined path that starts with x/ has x as its first component and at least one more *)
Lemma ljoin_first x b cs :
  comps_plain cs -> no_slash x -> ljoin cs = x ++ slash :: b -> exists rest, cs = x :: rest /\ rest <> [] /\ b = ljoin rest.
Proof.
  intros P Hx E. destruct cs as [|y cs]; [destruct x; discriminate|].
  inversion P as [|? ? Hy Hcs]; subst.
  destruct cs as [|z cs].
  - cbn [ljoin] in E. exfalso. apply Hy. rewrite E. apply in_or_app. right. now left.
  - rewrite ljoin_cons in E by discriminate.
    destruct (first_slash_unique _ _ _ _ Hy Hx E) as [-> <-]. exists (z :: cs). repeat split; discriminate.
Qed.

(* joined path = everything before the last component ++ the last component; what is before ends with "/" *)
Lemma ljoin_last cs d : cs <> [] -> exists pre, ljoin cs = pre ++ last cs d /\ (pre = [] \/ exists pre', pre = pre' ++ [slash]).
Proof.
  induction cs as [|x cs IH]; [congruence|]. intros _. destruct cs as [|y cs].
  - exists []. split; [reflexivity|now left].
  - destruct IH as [pre [E Hp]]; [discriminate|]. rewrite ljoin_cons by discriminate.
    change (last (x :: y :: cs) d) with (last (y :: cs) d). rewrite E.
    exists (x ++ slash :: pre). split; [now rewrite <- app_assoc|]. right.
    destruct Hp as [->|[pre' ->]].
    + exists x. reflexivity.
    + exists (x ++ slash :: pre'). now rewrite <- app_assoc.
Qed.

Lemma last_app_ne {A} (a l : list A) d : l <> [] -> last (a ++ l) d = last l d.
Proof.
  intro H. induction a as [|u a IH]; [reflexivity|]. cbn [app].
  destruct (a ++ l) eqn:Q; [destruct a; [cbn in Q; congruence|discriminate]|]. exact IH.
Qed.

Lemma last_In {A} (l : list A) d : l <> [] -> In (last l d) l.
Proof.
  induction l as [|u l IH]; [congruence|]. intros _. destruct l as [|v l]; [now left|].
  right. apply IH. discriminate.
Qed.

Lemma tail_of_slash_ended a c l pre' : a ++ c :: l = pre' ++ [slash] -> In slash (c :: l).
Proof.
  intro E. apply (f_equal (fun z => last z c)) in E. rewrite last_last in E.
  rewrite last_app_ne in E by discriminate. rewrite <- E. apply last_In. discriminate.
Qed.

(* a slash-free suffix of a joined path lies inside its last component *)
Lemma ljoin_suffix_last cs d x :
  cs <> [] -> no_slash x -> (exists a, ljoin cs = a ++ x) <-> (exists a, last cs d = a ++ x).
Proof.
  intros Hne Hx. destruct (ljoin_last cs d Hne) as [pre [E Hp]]. split.
  - intros [a Ha]. rewrite E in Ha. apply app_eq_app in Ha. destruct Ha as [l [[Hpre H]|[-> H]]].
    + destruct l as [|c l]; [exists []; rewrite app_nil_l in H; now cbn|].
      exfalso. destruct Hp as [Hp|[pre' Hp]].
      * rewrite Hp in Hpre. destruct a; discriminate.
      * apply Hx. rewrite H. apply in_or_app. left. rewrite Hpre in Hp. exact (tail_of_slash_ended _ _ _ _ Hp).
    + now exists l.
  - intros [a Ha]. exists (pre ++ a). rewrite E, Ha. now rewrite app_assoc.
Qed.
