(* Proofs/ContainCensus.v - census of the raising expressions in the analyzers (C11).
   Gen/CensusGen.v lists, from the current source, every int()/float()/.index()/.decode()/next() call, every tuple-unpacking
   assignment and, per function, the number of subscript loads that are not inside a `try` catching what they raise.
   Here: every conversion / unpacking site is guarded, verified by arity, or one of the sites audited below; the subscript
   table equals the recorded one.  A newly unguarded conversion, unpacking or subscript therefore breaks one of these
   theorems on the next run, whether or not a generated input reaches it.  (The audited sites are exactly the ones the
   mutation stream exercises on every run without a failure; the audit reasons are given per group.) *)
From TL Require Import Lib.Base Gen.CensusGen.

(* audited: `.decode()` of a tree-sitter node's text - the parser was given `bytes(code, "utf8")` of a decoded str and
   node boundaries are token boundaries, so the bytes are valid UTF-8; `line.index(tok)` directly under `if tok in line` *)
Definition audited_conversions : list string :=
  ["src/analyzers/rust_base.py::RustBaseAnalyzer.extract_node_text::decode::text.decode()";
   "src/analyzers/rust_context.py::_get_node_text::decode::node.text.decode()";
   "src/analyzers/typescript_base.py::TypeScriptBaseAnalyzer.extract_node_text::decode::text.decode()";
   "src/linters/blocking_async/rust_analyzer.py::_node_text_matches_wrapper::decode::text.decode()";
   "src/linters/blocking_async/rust_analyzer.py::_scoped_name_matches_wrapper::decode::text.decode()";
   "src/linters/clone_abuse/rust_analyzer.py::_is_matching_identifier::decode::text.decode()";
   "src/linters/dry/token_hasher.py::_strip_comments::index::line.index('#')";
   "src/linters/dry/token_hasher.py::_strip_comments::index::line.index('//')";
   "src/linters/dry/typescript_analyzer.py::TypeScriptDuplicateAnalyzer._is_jsdoc_comment::decode::node.text.decode()";
   "src/linters/srp/typescript_metrics_calculator.py::_get_method_name::decode::child.text.decode()"].

(* audited: the right-hand side is a name bound a few lines above to the result of a helper returning `tuple | None` and
   tested `is None` first (collection-pipeline, stringly-typed, lbyl), or a tuple built by the caller in the same module
   (magic-numbers literal records, nesting function records, the worker's argument triple) *)
Definition audited_unpacks : list string :=
  ["src/linters/collection_pipeline/filter_map_analyzer.py::extract_filter_map_pattern::unpack::result_var, _ = result_init";
   "src/linters/collection_pipeline/filter_map_analyzer.py::extract_filter_map_pattern::unpack::transform_var, transform_expr = loop_pattern";
   "src/linters/collection_pipeline/filter_map_analyzer.py::extract_takewhile_pattern::unpack::result_var, _ = result_init";
   "src/linters/collection_pipeline/filter_map_analyzer.py::_extract_assign_if_append::unpack::transform_var, transform_expr = assignment";
   "src/linters/collection_pipeline/filter_map_analyzer.py::_is_append_call::unpack::obj_name, method_name, args = info";
   "src/linters/lbyl/pattern_detectors/file_exists_detector.py::FileExistsDetector._check_file_exists_pattern::unpack::path_expr, check_type = _try_extract_exists_call(node.test)";
   "src/linters/lbyl/pattern_detectors/len_check_detector.py::LenCheckDetector._check_len_pattern::unpack::collection_expr, index_expr = _extract_len_check(node.test)";
   "src/linters/magic_numbers/linter.py::MagicNumberRule._try_create_violation::unpack::node, parent, value, line_number = literal_info";
   "src/linters/magic_numbers/linter.py::MagicNumberRule._should_flag_number::unpack::node, parent = node_info";
   "src/linters/nesting/violation_builder.py::NestingViolationBuilder.create_typescript_nesting_violation::unpack::func_node, func_name = func_info";
   "src/linters/nesting/violation_builder.py::NestingViolationBuilder.create_rust_nesting_violation::unpack::func_node, func_name = func_info";
   "src/linters/stringly_typed/typescript/comparison_tracker.py::TypeScriptComparisonTracker._process_binary_expression::unpack::left, right = operands";
   "src/orchestrator/core.py::_lint_file_worker::unpack::file_path, project_root, config = args"].

(* recorded: number of subscript loads outside a try catching IndexError/KeyError, per function (total below) *)
Definition recorded_subscript_counts : list (string * nat) :=
  [("src/core/linter_utils.py::get_line_context", 1);
   ("src/linter_config/ignore.py::IgnoreDirectiveParser.is_ignored", 1);
   ("src/linter_config/ignore.py::_check_current_line_ignore", 1);
   ("src/linter_config/ignore.py::_get_prev_line", 1);
   ("src/linter_config/rule_matcher.py::_pattern_matches_deprecated_id", 1);
   ("src/linters/blocking_async/rust_analyzer.py::RustBlockingAsyncAnalyzer._check_blocking_call", 3);
   ("src/linters/blocking_async/rust_analyzer.py::_matches_short_fs_pattern", 2);
   ("src/linters/blocking_async/rust_analyzer.py::_matches_short_net_pattern", 2);
   ("src/linters/blocking_async/rust_analyzer.py::_matches_short_sleep_pattern", 2);
   ("src/linters/blocking_async/rust_analyzer.py::_matches_std_fs_pattern", 3);
   ("src/linters/blocking_async/rust_analyzer.py::_matches_std_net_pattern", 3);
   ("src/linters/blocking_async/rust_analyzer.py::_matches_std_sleep_pattern", 3);
   ("src/linters/blocking_async/rust_analyzer.py::_scoped_name_matches_wrapper", 1);
   ("src/linters/clone_abuse/rust_analyzer.py::RustCloneAnalyzer._find_clone_recursive", 3);
   ("src/linters/clone_abuse/rust_analyzer.py::_get_receiver_node", 1);
   ("src/linters/collection_pipeline/any_all_analyzer.py::_extract_if_return_false", 1);
   ("src/linters/collection_pipeline/any_all_analyzer.py::_extract_if_return_true", 1);
   ("src/linters/collection_pipeline/any_all_analyzer.py::_is_simple_if_return", 2);
   ("src/linters/collection_pipeline/ast_utils.py::get_next_return_stmt", 1);
   ("src/linters/collection_pipeline/continue_analyzer.py::is_continue_only", 1);
   ("src/linters/collection_pipeline/detector.py::PipelinePatternDetector._analyze_any_all_pattern", 1);
   ("src/linters/collection_pipeline/detector.py::PipelinePatternDetector._analyze_filter_map_pattern", 1);
   ("src/linters/collection_pipeline/filter_map_analyzer.py::_extract_assign_if_append", 3);
   ("src/linters/collection_pipeline/filter_map_analyzer.py::_extract_if_break_append", 2);
   ("src/linters/collection_pipeline/filter_map_analyzer.py::_extract_simple_assignment", 2);
   ("src/linters/collection_pipeline/filter_map_analyzer.py::_find_result_init_before", 1);
   ("src/linters/collection_pipeline/filter_map_analyzer.py::_get_assign_empty_list_var", 2);
   ("src/linters/collection_pipeline/filter_map_analyzer.py::_is_conditional_append", 1);
   ("src/linters/collection_pipeline/filter_map_analyzer.py::_is_simple_if_break", 1);
   ("src/linters/collection_pipeline/filter_map_analyzer.py::_is_single_name_arg", 2);
   ("src/linters/collection_pipeline/linter.py::CollectionPipelineRule._get_line_text", 1);
   ("src/linters/cqs/function_analyzer.py::FunctionAnalyzer._build_pattern", 1);
   ("src/linters/cqs/function_analyzer.py::_has_return_self", 1);
   ("src/linters/cqs/typescript_function_analyzer.py::TypeScriptFunctionAnalyzer._analyze_function", 2);
   ("src/linters/cqs/typescript_function_analyzer.py::_ends_with_return_this", 1);
   ("src/linters/cqs/typescript_function_analyzer.py::_filter_duplicate_functions", 2);
   ("src/linters/cqs/typescript_function_analyzer.py::_get_function_child_positions", 2);
   ("src/linters/cqs/typescript_input_detector.py::TypeScriptInputDetector._check_assignment_expression", 2);
   ("src/linters/cqs/typescript_input_detector.py::TypeScriptInputDetector._create_input_operation", 2);
   ("src/linters/cqs/typescript_output_detector.py::TypeScriptOutputDetector._check_expression_statement", 2);
   ("src/linters/dry/block_filter.py::ExceptionReraiseFilter._is_except_raise_pattern", 2);
   ("src/linters/dry/block_filter.py::LoggerCallFilter.should_filter", 1);
   ("src/linters/dry/block_grouper.py::BlockGrouper.group_blocks_by_file", 1);
   ("src/linters/dry/block_grouper.py::BlockGrouper.group_violations_by_file", 1);
   ("src/linters/dry/cache.py::DRYCache.get_duplicate_constant_names", 1);
   ("src/linters/dry/cache_query.py::CacheQueryService.get_duplicate_hashes", 1);
   ("src/linters/dry/constant_matcher.py::UnionFind.find", 3);
   ("src/linters/dry/constant_matcher.py::_build_merged_groups", 3);
   ("src/linters/dry/constant_matcher.py::_group_by_exact_name", 1);
   ("src/linters/dry/constant_matcher.py::_is_antonym_split", 2);
   ("src/linters/dry/constant_matcher.py::_levenshtein_distance", 4);
   ("src/linters/dry/python_analyzer.py::PythonDuplicateAnalyzer._extract_docstring_lines", 1);
   ("src/linters/dry/python_analyzer.py::PythonDuplicateAnalyzer._rolling_hash_with_tracking", 4);
   ("src/linters/dry/single_statement_detector.py::SingleStatementDetector._add_node_to_index", 1);
   ("src/linters/dry/single_statement_detector.py::SingleStatementDetector._collect_candidate_nodes", 1);
   ("src/linters/dry/single_statement_detector.py::SingleStatementDetector._get_function_body_start", 2);
   ("src/linters/dry/single_statement_detector.py::SingleStatementDetector.is_part_of_function_call.is_single_non_function_statement", 1);
   ("src/linters/dry/typescript_analyzer.py::TypeScriptDuplicateAnalyzer._add_comment_lines_to_set", 2);
   ("src/linters/dry/typescript_analyzer.py::TypeScriptDuplicateAnalyzer._rolling_hash_with_tracking", 4);
   ("src/linters/dry/typescript_constant_extractor.py::TypeScriptConstantExtractor._extract_from_declarator", 1);
   ("src/linters/dry/typescript_statement_detector.py::_find_first_method_line", 1);
   ("src/linters/dry/typescript_statement_detector.py::_handle_interface_continuation", 2);
   ("src/linters/dry/typescript_statement_detector.py::_handle_interface_start", 1);
   ("src/linters/dry/typescript_statement_detector.py::_is_in_class_field_area", 2);
   ("src/linters/dry/typescript_statement_detector.py::_is_single_statement_pattern", 2);
   ("src/linters/dry/typescript_statement_detector.py::_matches_call_expression_pattern", 2);
   ("src/linters/dry/typescript_statement_detector.py::_node_overlaps_and_matches", 2);
   ("src/linters/dry/typescript_statement_detector.py::_process_line_for_interface", 1);
   ("src/linters/dry/typescript_value_extractor.py::TypeScriptValueExtractor.get_value_string", 1);
   ("src/linters/dry/violation_generator.py::ViolationGenerator._meets_min_occurrences", 1);
   ("src/linters/file_header/base_parser.py::BaseHeaderParser._start_new_field", 2);
   ("src/linters/file_header/field_validator.py::FieldValidator._check_field", 2);
   ("src/linters/file_header/linter.py::FileHeaderRule._extract_markdown_prose_fields", 1);
   ("src/linters/file_header/linter.py::FileHeaderRule._has_line_level_ignore", 1);
   ("src/linters/file_header/markdown_parser.py::MarkdownHeaderParser._start_field", 2);
   ("src/linters/file_placement/linter.py::FilePlacementRule._get_or_create_linter", 1);
   ("src/linters/file_placement/linter.py::FilePlacementRule._get_root_from_metadata", 1);
   ("src/linters/file_placement/linter.py::FilePlacementRule._get_wrapped_config", 2);
   ("src/linters/file_placement/pattern_matcher.py::PatternMatcher._extract_pattern_and_reason", 1);
   ("src/linters/file_placement/pattern_matcher.py::PatternMatcher._get_compiled", 1);
   ("src/linters/file_placement/pattern_matcher.py::PatternMatcher.match_allow_patterns", 1);
   ("src/linters/file_placement/pattern_validator.py::PatternValidator._validate_allow_patterns", 1);
   ("src/linters/file_placement/pattern_validator.py::PatternValidator._validate_deny_patterns", 1);
   ("src/linters/file_placement/pattern_validator.py::PatternValidator._validate_directory_patterns", 1);
   ("src/linters/file_placement/pattern_validator.py::PatternValidator._validate_global_deny_patterns", 1);
   ("src/linters/file_placement/pattern_validator.py::PatternValidator._validate_global_patterns", 2);
   ("src/linters/file_placement/rule_checker.py::RuleChecker._check_directory_allow_rules", 1);
   ("src/linters/file_placement/rule_checker.py::RuleChecker._check_directory_deny_rules", 1);
   ("src/linters/file_placement/rule_checker.py::RuleChecker.check_all_rules", 3);
   ("src/linters/lazy_ignores/python_analyzer.py::PythonIgnoreDetector._get_scannable_lines", 2);
   ("src/linters/lazy_ignores/python_analyzer.py::PythonIgnoreDetector._update_docstring_state", 1);
   ("src/linters/lazy_ignores/skip_detector.py::_get_python_scannable_lines", 2);
   ("src/linters/lazy_ignores/skip_detector.py::_update_docstring_state", 1);
   ("src/linters/lazy_ignores/violation_builder.py::_build_unjustified_suggestion", 1);
   ("src/linters/lbyl/linter.py::LBYLRule", 1);
   ("src/linters/lbyl/pattern_detectors/base.py::BaseLBYLDetector", 1);
   ("src/linters/lbyl/pattern_detectors/dict_key_detector.py::DictKeyDetector", 1);
   ("src/linters/lbyl/pattern_detectors/dict_key_detector.py::_extract_in_check", 1);
   ("src/linters/lbyl/pattern_detectors/dict_key_detector.py::_is_simple_in_compare", 1);
   ("src/linters/lbyl/pattern_detectors/division_check_detector.py::DivisionCheckDetector", 1);
   ("src/linters/lbyl/pattern_detectors/division_check_detector.py::_extract_zero_comparison", 1);
   ("src/linters/lbyl/pattern_detectors/division_check_detector.py::_is_equality_op", 1);
   ("src/linters/lbyl/pattern_detectors/file_exists_detector.py::FileExistsDetector", 1);
   ("src/linters/lbyl/pattern_detectors/file_exists_detector.py::_check_exists_name_call", 1);
   ("src/linters/lbyl/pattern_detectors/file_exists_detector.py::_check_os_path_exists_attribute", 1);
   ("src/linters/lbyl/pattern_detectors/file_exists_detector.py::_check_path_constructor_exists", 1);
   ("src/linters/lbyl/pattern_detectors/file_exists_detector.py::_is_open_call", 1);
   ("src/linters/lbyl/pattern_detectors/file_exists_detector.py::_is_os_path_exists_call", 1);
   ("src/linters/lbyl/pattern_detectors/file_exists_detector.py::_is_pathlib_exists_call", 1);
   ("src/linters/lbyl/pattern_detectors/file_exists_detector.py::_try_extract_exists_call", 1);
   ("src/linters/lbyl/pattern_detectors/hasattr_detector.py::HasattrDetector", 1);
   ("src/linters/lbyl/pattern_detectors/hasattr_detector.py::_extract_hasattr_args", 2);
   ("src/linters/lbyl/pattern_detectors/isinstance_detector.py::IsinstanceDetector", 1);
   ("src/linters/lbyl/pattern_detectors/isinstance_detector.py::_extract_isinstance_args", 2);
   ("src/linters/lbyl/pattern_detectors/len_check_detector.py::LenCheckDetector", 1);
   ("src/linters/lbyl/pattern_detectors/len_check_detector.py::_extract_len_call_collection", 1);
   ("src/linters/lbyl/pattern_detectors/len_check_detector.py::_extract_len_check", 3);
   ("src/linters/lbyl/pattern_detectors/none_check_detector.py::NoneCheckDetector", 1);
   ("src/linters/lbyl/pattern_detectors/none_check_detector.py::_extract_none_comparison", 2);
   ("src/linters/lbyl/pattern_detectors/string_validator_detector.py::StringValidatorDetector", 1);
   ("src/linters/lbyl/pattern_detectors/string_validator_detector.py::_is_matching_call", 1);
   ("src/linters/magic_numbers/config.py::MagicNumberConfig.from_dict", 1);
   ("src/linters/magic_numbers/linter.py::MagicNumberRule._has_generic_thailint_ignore", 2);
   ("src/linters/magic_numbers/rust_analyzer.py::RustMagicNumberAnalyzer._collect_numeric_literals", 1);
   ("src/linters/magic_numbers/typescript_analyzer.py::TypeScriptMagicNumberAnalyzer._collect_numeric_literals", 1);
   ("src/linters/magic_numbers/typescript_ignore_checker.py::TypeScriptIgnoreChecker._has_typescript_ignore_directive", 2);
   ("src/linters/method_property/config.py::_load_list_config", 4);
   ("src/linters/method_property/config.py::_load_set_config", 4);
   ("src/linters/method_property/linter.py::MethodPropertyRule._get_line_text", 1);
   ("src/linters/method_property/python_analyzer.py::PythonMethodAnalyzer._get_non_docstring_body", 1);
   ("src/linters/method_property/python_analyzer.py::PythonMethodAnalyzer._returns_value", 1);
   ("src/linters/nesting/config.py::NestingConfig.from_dict", 1);
   ("src/linters/nesting/python_analyzer.py::_is_elif_chain", 1);
   ("src/linters/nesting/python_analyzer.py::_visit_if_node", 1);
   ("src/linters/nesting/rust_analyzer.py::RustNestingAnalyzer.calculate_max_depth", 2);
   ("src/linters/nesting/rust_analyzer.py::RustNestingAnalyzer.calculate_max_depth.visit_node", 1);
   ("src/linters/nesting/typescript_analyzer.py::TypeScriptNestingAnalyzer.calculate_max_depth", 2);
   ("src/linters/nesting/typescript_analyzer.py::TypeScriptNestingAnalyzer.calculate_max_depth.visit_node", 1);
   ("src/linters/nesting/violation_builder.py::NestingViolationBuilder.create_rust_nesting_violation", 2);
   ("src/linters/nesting/violation_builder.py::NestingViolationBuilder.create_typescript_nesting_violation", 2);
   ("src/linters/performance/typescript_analyzer.py::TypeScriptStringConcatAnalyzer._create_violation", 2);
   ("src/linters/performance/violation_builder.py::PerformanceViolationBuilder._generate_regex_suggestion", 1);
   ("src/linters/print_statements/conditional_verbose_analyzer.py::_is_verbose_dict_get", 1);
   ("src/linters/print_statements/conditional_verbose_rule.py::ConditionalVerboseRule._has_generic_thailint_ignore", 2);
   ("src/linters/print_statements/config.py::PrintStatementConfig.from_dict", 1);
   ("src/linters/print_statements/linter.py::PrintStatementRule._has_generic_thailint_ignore", 2);
   ("src/linters/print_statements/linter.py::PrintStatementRule._has_typescript_ignore_directive", 2);
   ("src/linters/print_statements/python_analyzer.py::PythonPrintStatementAnalyzer.is_in_main_block", 1);
   ("src/linters/print_statements/python_analyzer.py::_compares_to_main", 1);
   ("src/linters/print_statements/python_analyzer.py::_has_single_eq_operator", 1);
   ("src/linters/print_statements/typescript_analyzer.py::TypeScriptPrintStatementAnalyzer._collect_console_calls", 1);
   ("src/linters/srp/config.py::SRPConfig.from_dict", 1);
   ("src/linters/srp/linter.py::SRPRule._check_python", 1);
   ("src/linters/srp/metrics_evaluator.py::evaluate_metrics", 5);
   ("src/linters/srp/rust_analyzer.py::RustSRPAnalyzer._node_loc", 2);
   ("src/linters/srp/rust_analyzer.py::RustSRPAnalyzer.analyze_struct", 2);
   ("src/linters/srp/typescript_analyzer.py::TypeScriptSRPAnalyzer.analyze_class", 2);
   ("src/linters/srp/typescript_metrics_calculator.py::count_loc", 2);
   ("src/linters/srp/violation_builder.py::ViolationBuilder.build_violation", 3);
   ("src/linters/stateless_class/linter.py::StatelessClassRule._filter_by_predicate", 1);
   ("src/linters/stateless_class/linter.py::StatelessClassRule._get_line_text", 1);
   ("src/linters/stateless_class/python_analyzer.py::_has_test_filename", 2);
   ("src/linters/stringly_typed/config.py::StringlyTypedConfig.from_dict", 1);
   ("src/linters/stringly_typed/ignore_checker.py::IgnoreChecker._get_file_content", 1);
   ("src/linters/stringly_typed/python/comparison_tracker.py::ComparisonTracker._check_comparison", 2);
   ("src/linters/stringly_typed/python/condition_extractor.py::_get_string_constant", 1);
   ("src/linters/stringly_typed/python/condition_extractor.py::_is_simple_equality", 1);
   ("src/linters/stringly_typed/python/conditional_detector.py::ConditionalPatternDetector._get_next_elif", 2);
   ("src/linters/stringly_typed/python/validation_detector.py::MembershipValidationDetector._check_membership_operator", 1);
   ("src/linters/stringly_typed/storage.py::StringlyTypedStorage.get_duplicate_hashes", 1);
   ("src/linters/stringly_typed/storage.py::StringlyTypedStorage.get_limited_value_functions", 3);
   ("src/linters/stringly_typed/storage.py::StringlyTypedStorage.get_variables_with_multiple_values", 2);
   ("src/linters/stringly_typed/storage.py::_row_to_comparison", 6);
   ("src/linters/stringly_typed/storage.py::_row_to_function_call", 6);
   ("src/linters/stringly_typed/storage.py::_row_to_pattern", 8);
   ("src/linters/stringly_typed/typescript/call_tracker.py::TypeScriptCallTracker._add_pattern", 2);
   ("src/linters/stringly_typed/typescript/call_tracker.py::TypeScriptCallTracker._extract_string_value", 3);
   ("src/linters/stringly_typed/typescript/comparison_tracker.py::TypeScriptComparisonTracker._add_pattern", 2);
   ("src/linters/stringly_typed/typescript/comparison_tracker.py::TypeScriptComparisonTracker._get_operands", 2);
   ("src/linters/stringly_typed/typescript/comparison_tracker.py::TypeScriptComparisonTracker._strip_quotes", 2);
   ("src/linters/stringly_typed/violation_generator.py::_should_skip_patterns", 1);
   ("src/linters/unwrap_abuse/rust_analyzer.py::RustUnwrapAnalyzer._find_unwrap_recursive", 3);
   ("src/orchestrator/core.py::_verif_failure_tap", 1);
   ("src/orchestrator/language_detector.py::_read_first_line", 1);
   ("src/orchestrator/language_detector.py::detect_language", 1)].

Definition conv_ok (s : string * string * bool) : bool := snd s || smem (fst (fst s)) audited_conversions.
Definition unpack_ok (s : string * bool) : bool := snd s || smem (fst s) audited_unpacks.

Lemma conversion_census_b : forallb conv_ok conversion_sites = true.
Proof. vm_compute. reflexivity. Qed.

Theorem conversion_census : forall s, In s conversion_sites -> snd s = true \/ In (fst (fst s)) audited_conversions.
Proof.
  intros s I. pose proof (proj1 (forallb_forall conv_ok conversion_sites) conversion_census_b s I) as H.
  unfold conv_ok in H. apply orb_prop in H. destruct H as [H|H]; [left; exact H|right; apply smem_In; exact H].
Qed.

Lemma unpack_census_b : forallb unpack_ok unpack_sites = true.
Proof. vm_compute. reflexivity. Qed.

Theorem unpack_census : forall s, In s unpack_sites -> snd s = true \/ In (fst s) audited_unpacks.
Proof.
  intros s I. pose proof (proj1 (forallb_forall unpack_ok unpack_sites) unpack_census_b s I) as H.
  unfold unpack_ok in H. apply orb_prop in H. destruct H as [H|H]; [left; exact H|right; apply smem_In; exact H].
Qed.

(* nothing audited is stale: every audited site still exists and is still unguarded *)
Theorem audited_sites_exist :
  forallb (fun a => existsb (fun s : string * string * bool => String.eqb a (fst (fst s)) && negb (snd s)) conversion_sites) audited_conversions = true
  /\ forallb (fun a => existsb (fun s : string * bool => String.eqb a (fst s) && negb (snd s)) unpack_sites) audited_unpacks = true.
Proof. vm_compute. split; reflexivity. Qed.

Theorem subscript_census : subscript_counts = recorded_subscript_counts.
Proof. vm_compute. reflexivity. Qed.

Theorem subscript_total : fold_right (fun kv n => snd kv + n) 0 subscript_counts = 304.
Proof. vm_compute. reflexivity. Qed.

(* ---------------------------------------------------------------- analyzer state that survives from one file to the next *)
(* Rule and analyzer objects live for the whole run.  Gen.state_sites lists every place outside __init__ where an attribute of `self` or a
   module-level name is assigned, subscript-assigned, mutated through a container method or declared global; a site is covered when it is
   a reset (a fresh value is assigned) or mutates an attribute the class resets at the start of an analysis.  The uncovered sites are
   audited here, by hand, in four groups; a NEW uncovered site (a parse memo, a `last result` kept for the next file, a module-level cache)
   breaks state_census on the next run whether or not a generated input shows its effect. *)
Definition audited_state_sites : list string :=
  [ (* objects built per file or per finalize(), never shared between files: the collection-pipeline detector is constructed in check() from the file's
   content; ConstantGroup / UnionFind are locals of find_constant_groups; _DepthTracker is constructed per function *)
   "src/linters/collection_pipeline/detector.py::PipelinePatternDetector.visit_AsyncFunctionDef::self._func_body_stack.append";
   "src/linters/collection_pipeline/detector.py::PipelinePatternDetector.visit_AsyncFunctionDef::self._func_body_stack.pop";
   "src/linters/collection_pipeline/detector.py::PipelinePatternDetector.visit_For::self.matches.append";
   "src/linters/collection_pipeline/detector.py::PipelinePatternDetector.visit_FunctionDef::self._func_body_stack.append";
   "src/linters/collection_pipeline/detector.py::PipelinePatternDetector.visit_FunctionDef::self._func_body_stack.pop";
   "src/linters/dry/constant.py::ConstantGroup.add_location::self.all_names.add";
   "src/linters/dry/constant.py::ConstantGroup.add_location::self.locations.append";
   "src/linters/dry/constant_matcher.py::UnionFind.find::self._parent[]=";
   "src/linters/dry/constant_matcher.py::UnionFind.union::self._parent[]=";
   "src/linters/nesting/python_analyzer.py::_DepthTracker.record::self.max_depth=";
   "src/linters/nesting/python_analyzer.py::_DepthTracker.record::self.max_depth_line=";
  (* assigned from the current file at the entry of every analysis, before any use (parent maps; the statement detector, reset to None in a
   finally) *)
   "src/linters/dry/python_analyzer.py::PythonDuplicateAnalyzer.analyze::self._statement_detector=";
   "src/linters/magic_numbers/python_analyzer.py::PythonMagicNumberAnalyzer.find_numeric_literals::self.parent_map=";
   "src/linters/print_statements/python_analyzer.py::PythonPrintStatementAnalyzer.find_print_calls::self.parent_map=";
  (* the stores of the two cross-file rules and what they set up on the first file (intended evidence, emptied by finalize(); the compute/store
   order is modelled: dry_steps / stringly_steps; sticky _config / _project_root are the subject of C08 / C10) *)
   "src/linters/dry/linter.py::DRYRule._ensure_storage_initialized::self._file_analyzer=";
   "src/linters/dry/linter.py::DRYRule._ensure_storage_initialized::self._storage=";
   "src/linters/dry/linter.py::DRYRule._extract_and_store_constants::self._constants.extend";
   "src/linters/dry/linter.py::DRYRule._process_file::self._file_contents[]=";
   "src/linters/dry/linter.py::DRYRule._process_file::self._project_root=";
   "src/linters/dry/linter.py::DRYRule.check::self._config=";
   "src/linters/stringly_typed/linter.py::StringlyTypedRule._ensure_storage_initialized::self._config=";
   "src/linters/stringly_typed/linter.py::StringlyTypedRule._ensure_storage_initialized::self._storage=";
  (* configuration-time registries and caches keyed by path / pattern / configuration (their keys never depend on another file's content; the
   ignore-parser singleton and the caches are the subject of C08 / C10) *)
   "src/core/registry.py::RuleRegistry.register::self._rules[]=";
   "src/linter_config/ignore.py::IgnoreDirectiveParser.is_ignored::self._ignore_cache[]=";
   "src/linter_config/ignore.py::clear_ignore_parser_cache::global _CACHED_PARSER";
   "src/linter_config/ignore.py::clear_ignore_parser_cache::global _CACHED_PROJECT_ROOT";
   "src/linter_config/ignore.py::get_ignore_parser::global _CACHED_PARSER";
   "src/linter_config/ignore.py::get_ignore_parser::global _CACHED_PROJECT_ROOT";
   "src/linters/dry/block_filter.py::BlockFilterRegistry.disable_filter::self._enabled_filters.discard";
   "src/linters/dry/block_filter.py::BlockFilterRegistry.enable_filter::self._enabled_filters.add";
   "src/linters/dry/block_filter.py::BlockFilterRegistry.register::self._enabled_filters.add";
   "src/linters/dry/block_filter.py::BlockFilterRegistry.register::self._filters.append";
   "src/linters/dry/inline_ignore.py::InlineIgnoreParser.parse_file::self._ignore_ranges[]=";
   "src/linters/file_placement/linter.py::FilePlacementRule._get_or_create_linter::self._linter_cache[]=";
   "src/linters/file_placement/pattern_matcher.py::PatternMatcher._get_compiled::self._compiled_patterns[]=";
   "src/linters/stringly_typed/ignore_checker.py::IgnoreChecker._get_file_content::self._file_content_cache[]="].

Definition state_ok (s : string * bool) : bool := snd s || smem (fst s) audited_state_sites.

Lemma state_census_b : forallb state_ok state_sites = true.
Proof. vm_compute. reflexivity. Qed.

Theorem state_census : forall s, In s state_sites -> snd s = true \/ In (fst s) audited_state_sites.
Proof.
  intros s I. pose proof (proj1 (forallb_forall state_ok state_sites) state_census_b s I) as H.
  unfold state_ok in H. apply orb_prop in H. destruct H as [H|H]; [left; exact H|right; apply smem_In; exact H].
Qed.

(* nothing audited is stale *)
Theorem audited_state_sites_exist :
  forallb (fun a => existsb (fun s : string * bool => String.eqb a (fst s) && negb (snd s)) state_sites) audited_state_sites = true.
Proof. vm_compute. reflexivity. Qed.
