(* Proofs/IgnoreFeat2.v — the block-scan classification of every kind of rendered line, and the rule list parsed
   from a block start. *)
From TL Require Import Lib.Base Lib.GenTypes Gen.IgnoreGen Model.PyStr Model.Ignore Model.IgnoreSpec
     Proofs.IgnoreStr Proofs.IgnoreStr2 Proofs.IgnoreLines Proofs.IgnoreFeat.

(* ---------- rule lists ---------- *)
Lemma star_matches r : rule_matches r "*" = true.
Proof. reflexivity. Qed.

Lemma rmv_exists rules r : rules_match_violation rules r = existsb (rule_matches r) rules.
Proof.
  unfold rules_match_violation. change rm_star_rule with "*".
  destruct (smem "*" rules) eqn:E; [|reflexivity]. cbn [orb]. symmetry.
  apply smem_In in E. apply existsb_exists. exists "*". split; [exact E|apply star_matches].
Qed.

(* ---------- words ---------- *)
Lemma word_snoc : forall w, nonempty w = true -> word_ok w = true ->
  exists w' c, w = (w' ++ String c "")%string /\ wchar c = true.
Proof.
  induction w as [|c w IH]; intros Hn Hw; [discriminate|].
  cbn [word_ok all_chars] in Hw. apply andb_true_iff in Hw as [Hc Hw].
  destruct w as [|d w].
  - exists "", c. split; [reflexivity|exact Hc].
  - destruct (IH eq_refl Hw) as (w' & c' & E & Hc'). exists (String c w'), c'. split; [|exact Hc'].
    cbn [append]. now rewrite <- E.
Qed.

Lemma strip_word w : nonempty w = true -> word_ok w = true -> strip w = w.
Proof.
  intros Hn Hw. destruct (word_snoc w Hn Hw) as (w' & c & E & Hc).
  destruct w as [|h w0]; [discriminate|].
  cbn [word_ok all_chars] in Hw. apply andb_true_iff in Hw as [Hh Hw].
  unfold strip, lstrip. cbn [String.length lstrip_fuel]. rewrite (wchar_ws_len h w0 Hh).
  rewrite E. apply rstrip_last. now apply wchar_vchar.
Qed.

(* ---------- block markers: absent ---------- *)
Lemma block_marker_absent prefixes y tags s :
  containsb (K ++ y) (lower s) = false -> block_marker prefixes (K ++ y) tags s = false.
Proof.
  intro H. unfold block_marker.
  destruct (containsb (K ++ y) (lower (strip s))) eqn:E.
  - apply contains_lower_strip in E. congruence.
  - now rewrite andb_false_r.
Qed.

Lemma start_marker_absent l : line_ok l = true -> match l with LStart _ _ _ _ => false | _ => true end = true ->
  has_ignore_start_marker (render_line l) = false.
Proof.
  intros H N. unfold has_ignore_start_marker. change start_marker_keyword with (K ++ "-start")%string.
  apply block_marker_absent. change (K ++ "-start")%string with ("" ++ K ++ "-start")%string.
  destruct l as [c|c st n|ind st n|ind st br n|ind st|st n]; try discriminate.
  - cbn [line_ok] in H. unfold code_ok in H. apply andb_true_iff in H as [Hk _]. now apply plain_no_needle.
  - apply needle_absent; try assumption; try reflexivity; post_head.
  - apply needle_absent; try assumption; try reflexivity; post_head.
  - apply needle_absent; try assumption; try reflexivity; post_head.
  - apply needle_absent; try assumption; try reflexivity; post_head.
Qed.

Lemma end_marker_absent l : line_ok l = true -> match l with LEnd _ _ => false | _ => true end = true ->
  has_ignore_end_marker (render_line l) = false.
Proof.
  intros H N. unfold has_ignore_end_marker. change end_marker_keyword with (K ++ "-end")%string.
  apply block_marker_absent. change (K ++ "-end")%string with ("" ++ K ++ "-end")%string.
  destruct l as [c|c st n|ind st n|ind st br n|ind st|st n]; try discriminate.
  - cbn [line_ok] in H. unfold code_ok in H. apply andb_true_iff in H as [Hk _]. now apply plain_no_needle.
  - apply needle_absent; try assumption; try reflexivity; post_head.
  - apply needle_absent; try assumption; try reflexivity; post_head.
  - apply needle_absent; try assumption; try reflexivity; post_head.
  - apply needle_absent; try assumption; try reflexivity; post_head.
Qed.

(* ---------- block markers: present ---------- *)
Lemma end_marker_present ind st : indent_ok ind = true -> has_ignore_end_marker (render_line (LEnd ind st)) = true.
Proof.
  intro Hi. unfold has_ignore_end_marker, block_marker. cbn [render_line].
  destruct st; cbn [cm].
  - change ("#" ++ " thailint: ignore-end")%string with (String "#" (" thailint: ignore-en" ++ String "d" "")).
    rewrite (strip_indent_body ind "#" " thailint: ignore-en" "d" Hi eq_refl eq_refl). reflexivity.
  - change ("//" ++ " thailint: ignore-end")%string with (String "/" ("/ thailint: ignore-en" ++ String "d" "")).
    rewrite (strip_indent_body ind "/" "/ thailint: ignore-en" "d" Hi eq_refl eq_refl). reflexivity.
Qed.

(* the comment body of a block start, as first character, middle, last character *)
Lemma start_body_shape st br n : start_names_ok br n = true ->
  exists h mid c, vchar h = true /\ vchar c = true /\
    (cm st ++ " thailint: ignore-start" ++ start_tail br n)%string = String h (mid ++ String c "") /\
    (h = "#"%char \/ exists mid', h = "/"%char /\ mid = String "/" mid').
Proof.
  intro H. unfold start_names_ok in H. apply andb_true_iff in H as [Hn Hw].
  assert (EQ : forall x y z : string, ((x ++ y) ++ z = x ++ y ++ z)%string) by (intros; apply sapp_assoc).
  destruct n as [|t].
  - destruct st.
    + exists "#"%char, " thailint: ignore-star", "t"%char. split; [reflexivity|split; [reflexivity|split; [reflexivity|now left]]].
    + exists "/"%char, "/ thailint: ignore-star", "t"%char. split; [reflexivity|split; [reflexivity|split; [reflexivity|]]].
      right. now exists " thailint: ignore-star".
  - destruct br.
    + destruct st.
      * exists "#"%char, (" thailint: ignore-start[" ++ t)%string, "]"%char.
        split; [reflexivity|split; [reflexivity|split; [|now left]]].
        cbn [cm start_tail append]. now rewrite ?sapp_assoc.
      * exists "/"%char, ("/ thailint: ignore-start[" ++ t)%string, "]"%char.
        split; [reflexivity|split; [reflexivity|split; [|right; now exists (" thailint: ignore-start[" ++ t)%string]]].
        cbn [cm start_tail append]. now rewrite ?sapp_assoc.
    + cbn [orb] in Hw. destruct (names_parts t Hn) as (Hne & _ & _).
      destruct (word_snoc t Hne Hw) as (w' & c & E & Hc). apply wchar_vchar in Hc.
      destruct st.
      * exists "#"%char, (" thailint: ignore-start " ++ w')%string, c.
        split; [reflexivity|split; [exact Hc|split; [|now left]]].
        cbn [cm start_tail append]. rewrite E. now rewrite ?sapp_assoc.
      * exists "/"%char, ("/ thailint: ignore-start " ++ w')%string, c.
        split; [reflexivity|split; [exact Hc|split; [|right; now exists (" thailint: ignore-start " ++ w')%string]]].
        cbn [cm start_tail append]. rewrite E. now rewrite ?sapp_assoc.
Qed.

Lemma start_marker_present ind st br n : line_ok (LStart ind st br n) = true ->
  has_ignore_start_marker (render_line (LStart ind st br n)) = true.
Proof.
  intro H. cbn [line_ok] in H. apply andb_true_iff in H as [Hi Hs].
  destruct (start_body_shape st br n Hs) as (h & mid & c & Hh & Hc & E & Hshape).
  unfold has_ignore_start_marker, block_marker.
  assert (R : render_line (LStart ind st br n) = (ind ++ String h (mid ++ String c ""))%string).
  { rewrite <- E. cbn [render_line start_tail]. destruct n; [reflexivity|]. destruct br; reflexivity. }
  rewrite R, (strip_indent_body ind h mid c Hi Hh Hc). rewrite <- E.
  rewrite !lower_app, lower_cm. change (lower " thailint: ignore-start") with " thailint: ignore-start".
  apply andb_true_iff. split; [apply andb_true_iff; split|].
  - destruct st; reflexivity.
  - apply containsb_app_r. apply containsb_app_l. reflexivity.
  - unfold any_contains. change start_marker_tags with ["thailint:"; "design-lint:"]. cbn [existsb].
    rewrite (containsb_app_r "thailint:" (cm st)); [reflexivity|]. apply containsb_app_l. reflexivity.
Qed.

(* ---------- the rule list of a block start ---------- *)
Lemma start_rules_feature q ind st br n r : line_ok (LStart ind st br n) = true -> line_avoids q (LStart ind st br n) = true ->
  rules_match_violation (parse_ignore_start_rules q (render_line (LStart ind st br n))) r = named (start_rules br n) r.
Proof.
  intros H A. pose proof H as H0. cbn [line_ok] in H. apply andb_true_iff in H as [Hi Hs].
  unfold line_avoids in A. apply andb_true_iff in A as [_ A].
  rewrite rmv_exists. unfold parse_ignore_start_rules.
  change re_start_space with ("ignore-start", false). cbn [fst snd]. change start_default_rules with ["*"]. change rm_bracket_sep with ",".
  set (L := LStart ind st br n) in *.
  destruct n as [|t].
  - (* bare *)
    destruct (q_start_rules_from_code q).
    + rewrite (space_at L false "ignore-start" H0 eq_refl eq_refl).
      change (re_space false "ignore-start" ("ignore" ++ post_of L)) with (@None string). reflexivity.
    + rewrite (bracket_at L true "ignore-start" H0 eq_refl eq_refl).
      change (re_bracket true "ignore-start" ("ignore" ++ post_of L)) with (@None string).
      rewrite (space_at L true "ignore-start" H0 eq_refl eq_refl).
      change (re_space true "ignore-start" ("ignore" ++ post_of L)) with (@None string). reflexivity.
  - unfold start_names_ok in Hs. apply andb_true_iff in Hs as [Hn Hw]. destruct (names_parts t Hn) as (Hne & Hk & Hb).
    destruct br.
    + (* bracket form: only the ideal parser reads it *)
      destruct (q_start_rules_from_code q); [discriminate|].
      rewrite (bracket_at L true "ignore-start" H0 eq_refl eq_refl).
      change ("ignore" ++ post_of L)%string with ("ignore-start" ++ "[" ++ t ++ "]")%string.
      rewrite (bracket_hit true "ignore-start" t eq_refl Hne Hb). reflexivity.
    + (* space form *)
      cbn [orb] in Hw. destruct t as [|c0 w0]; [discriminate|].
      pose proof Hw as Hw'. cbn [word_ok all_chars] in Hw'. apply andb_true_iff in Hw' as [Hc0 Hw0].
      assert (Sp : forall ci, re_space ci "ignore-start" ("ignore" ++ post_of L) = Some (String c0 w0)).
      { intro ci. change ("ignore" ++ post_of L)%string with ("ignore-start" ++ String " " (String c0 w0))%string.
        rewrite re_space_unfold.
        assert (P : prefix_lit ci "ignore-start" ("ignore-start" ++ String " " (String c0 w0)) = true) by (destruct ci; reflexivity).
        rewrite P. change (sdrop (String.length "ignore-start") ("ignore-start" ++ String " " (String c0 w0))) with (String " " (String c0 w0)).
        now rewrite (space_group_word c0 w0 Hc0 Hw0). }
      cbn [start_rules].
      destruct (q_start_rules_from_code q).
      * rewrite (space_at L false "ignore-start" H0 eq_refl eq_refl), Sp. now rewrite (strip_word (String c0 w0) eq_refl Hw).
      * rewrite (bracket_at L true "ignore-start" H0 eq_refl eq_refl).
        assert (Br : re_bracket true "ignore-start" ("ignore" ++ post_of L) = None).
        { change ("ignore" ++ post_of L)%string with (String "i" ("gnore-start " ++ String c0 w0)).
          rewrite re_bracket_unfold.
          change (prefix_lit true ("ignore-start" ++ "[") (String "i" ("gnore-start " ++ String c0 w0))) with false.
          apply (re_bracket_none true "ignore-start" eq_refl).
          rewrite lower_app. change (lower "gnore-start ") with "gnore-start ".
          rewrite (count_app_lit K "gnore-start " _ K_nonempty eq_refl). change (count_occ K "gnore-start ") with 0. cbn [plus].
          now apply kfree_count. }
        rewrite Br, (space_at L true "ignore-start" H0 eq_refl eq_refl), Sp. now rewrite (strip_word (String c0 w0) eq_refl Hw).
Qed.

(* ---------- classification ---------- *)
Lemma classify_feature q l : line_ok l = true ->
  classify q (render_line l) =
  match l with
  | LStart _ _ _ _ => BStart (parse_ignore_start_rules q (render_line l))
  | LEnd _ _ => BEnd
  | _ => BOther
  end.
Proof.
  intro H. unfold classify.
  destruct l as [c|c st n|ind st n|ind st br n|ind st|st n].
  - now rewrite (start_marker_absent _ H eq_refl), (end_marker_absent _ H eq_refl).
  - now rewrite (start_marker_absent _ H eq_refl), (end_marker_absent _ H eq_refl).
  - now rewrite (start_marker_absent _ H eq_refl), (end_marker_absent _ H eq_refl).
  - now rewrite (start_marker_present ind st br n H).
  - rewrite (start_marker_absent _ H eq_refl). cbn [line_ok] in H. now rewrite (end_marker_present ind st H).
  - now rewrite (start_marker_absent _ H eq_refl), (end_marker_absent _ H eq_refl).
Qed.
