(* Proofs/GlobSets.v — bracket expressions with ranges of any shape in the fnmatch model of Model/Glob.v.
   fnmatch.translate cuts the text between "[" and "]" into chunks at the hyphens that can be range operators, removes
   reversed ranges by joining the two chunks without their end points, and only then looks whether the text starts with
   "!".  Theorem mk_set_simple_reading: that treatment decides, for every text, the same set as the simple reading
   "x-y is a range (empty when written backwards), everything else stands for itself, a leading ! negates" -- unless a "!"
   surfaces as the first character after the removal (bang_surfaces), which happens only when the text starts with a
   reversed range (bang_surfaces_only_after_reversed_range). *)
From TL Require Import Lib.Base Model.CollectStr Model.Glob Proofs.CollectStrFacts Proofs.GlobFacts.

Definition sem (items : list item) (c : ascii) : bool := existsb (item_matches c) items.
Definition rng (lo hi c : ascii) : bool := item_matches c (IRange lo hi).

(* which single characters a token accepts *)
Definition tok_sem (t : tok) (c : ascii) : bool :=
  match t with
  | TSet neg items => xorb neg (sem items c)
  | TLit d => aeqb d c
  | TAny | TStar => true
  end.

(* a "!" that was not the first character of the text is its first character after the empty ranges were removed *)
Definition bang_surfaces (stuff : list ascii) : bool :=
  match stuff with
  | x :: _ => negb (aeqb x c_bang) && match set_chunks stuff with (d :: _) :: _ => aeqb d c_bang | _ => false end
  | [] => false
  end.

(* ------------------------------------------------------------------ small list facts *)
Lemma sem_app a b c : sem (a ++ b) c = sem a c || sem b c.
Proof. unfold sem. apply existsb_app. Qed.

Lemma sem_singles l c : sem (map ISingle l) c = amem c l.
Proof. apply existsb_singles. Qed.

Lemma amem_app c a b : amem c (a ++ b) = amem c a || amem c b.
Proof. unfold amem. apply existsb_app. Qed.

Lemma last_app_ne (p a : list ascii) d : a <> [] -> last (p ++ a) d = last a d.
Proof.
  intro H. induction p as [|x p IH]; [reflexivity|].
  cbn [app]. destruct (p ++ a) eqn:E; [destruct p; [cbn in E; congruence|discriminate]|]. cbn [last]. exact IH.
Qed.

Lemma amem_removelast_last c (a : list ascii) d : a <> [] -> amem c a = amem c (removelast a) || aeqb c (last a d).
Proof.
  intro H. rewrite (app_removelast_last d H) at 1. rewrite amem_app. cbn [amem existsb]. now rewrite orb_false_r.
Qed.

Lemma rng_lo lo hi : gt_c lo hi = false -> rng lo hi lo = true.
Proof.
  unfold gt_c, rng. cbn [item_matches]. intro H. apply Nat.ltb_ge in H. rewrite Nat.leb_refl. cbn [andb]. now apply Nat.leb_le.
Qed.

Lemma rng_hi lo hi : gt_c lo hi = false -> rng lo hi hi = true.
Proof.
  unfold gt_c, rng. cbn [item_matches]. intro H. apply Nat.ltb_ge in H. rewrite Nat.leb_refl, andb_true_r. now apply Nat.leb_le.
Qed.

Lemma rng_reversed lo hi c : gt_c lo hi = true -> rng lo hi c = false.
Proof. unfold gt_c, rng. intro H. apply Nat.ltb_lt in H. now apply reversed_range_empty. Qed.

Lemma aeqb_rng c x lo hi : rng lo hi x = true -> aeqb c x || rng lo hi c = rng lo hi c.
Proof.
  intro H. destruct (aeqb c x) eqn:E; [|reflexivity]. apply aeqb_eq in E. subst c. now rewrite H.
Qed.

(* ------------------------------------------------------------------ the set of a list of chunks, read off directly *)
(* a = the first chunk (possibly without its first character), rest = the chunks after it *)
Fixpoint usem (a : list ascii) (rest : list (list ascii)) (c : ascii) : bool :=
  match rest with
  | [] => amem c a
  | b :: rest' => amem c (removelast a) || rng (last a zero_c) (hd zero_c b) c || usem (tl b) rest' c
  end.

(* what the chunking produces: every chunk after the first has two or more characters, except the last (one or more) *)
Fixpoint wfr (rest : list (list ascii)) : Prop :=
  match rest with
  | [] => True
  | b :: rest' => b <> [] /\ (rest' <> [] -> 2 <= List.length b) /\ wfr rest'
  end.

Lemma usem_cons b rest c :
  b <> [] -> (rest <> [] -> 2 <= List.length b) -> usem b rest c = aeqb c (hd zero_c b) || usem (tl b) rest c.
Proof.
  intros Hb Hl. destruct b as [|x b]; [congruence|]. cbn [hd tl]. destruct rest as [|b2 rest]; [reflexivity|].
  cbn [usem]. destruct b as [|y b]; [cbn in Hl; assert (X : (b2 :: rest) <> []) by discriminate; specialize (Hl X); lia|].
  change (removelast (x :: y :: b)) with (x :: removelast (y :: b)). change (last (x :: y :: b) zero_c) with (last (y :: b) zero_c).
  cbn [amem existsb]. now rewrite !orb_assoc.
Qed.

(* ------------------------------------------------------------------ removing the empty ranges *)
Lemma py_merge_cons a rest :
  py_merge (a :: rest) = match py_merge rest with
                         | [] => [a]
                         | b :: rest' => if gt_c (last a zero_c) (hd zero_c b) then (removelast a ++ tl b) :: rest' else a :: b :: rest'
                         end.
Proof. reflexivity. Qed.

Lemma py_merge_nonempty a rest : py_merge (a :: rest) <> [].
Proof. rewrite py_merge_cons. destruct (py_merge rest) as [|b r]; [discriminate|]. destruct (gt_c _ _); discriminate. Qed.

(* characters in front of a non-empty first chunk stay where they are *)
Lemma merge_prefix p a rest :
  a <> [] -> py_merge ((p ++ a) :: rest) = match py_merge (a :: rest) with m :: r => (p ++ m) :: r | [] => [] end.
Proof.
  intro Ha. rewrite !py_merge_cons. destruct (py_merge rest) as [|b r]; [reflexivity|].
  rewrite last_app_ne by exact Ha. rewrite removelast_app by exact Ha.
  destruct (gt_c _ _); [now rewrite app_assoc|reflexivity].
Qed.

Lemma merge_hd b rest :
  b <> [] -> (rest <> [] -> 2 <= List.length b) ->
  exists m r, py_merge (b :: rest) = m :: r /\ hd zero_c m = hd zero_c b
              /\ (tl b <> [] -> exists m', py_merge (tl b :: rest) = m' :: r /\ m = hd zero_c b :: m')
              /\ (tl b = [] -> m = b /\ r = []).
Proof.
  intros Hb Hl. destruct b as [|x t]; [congruence|]. cbn [hd tl]. destruct t as [|y t].
  - destruct rest as [|b2 rest]; [|cbn in Hl; assert (X : (b2 :: rest) <> []) by discriminate; specialize (Hl X); lia].
    exists [x], []. split; [reflexivity|]. split; [reflexivity|]. split; [intro X; cbn in X; congruence|intros _; now split].
  - pose proof (merge_prefix [x] (y :: t) rest) as H. assert (Hne : y :: t <> []) by discriminate. specialize (H Hne).
    destruct (py_merge ((y :: t) :: rest)) as [|m' r] eqn:E; [now apply py_merge_nonempty in E|].
    exists (x :: m'), r. cbn [app] in H. split; [exact H|]. split; [reflexivity|]. split.
    + intros _. exists m'. split; reflexivity.
    + intro X. discriminate.
Qed.

Lemma merge_sem c : forall rest a p,
  wfr rest -> (rest <> [] -> a <> []) ->
  sem (class_items (py_merge ((p ++ a) :: rest))) c = amem c p || usem a rest c.
Proof.
  induction rest as [|b rest IH]; intros a p Hw Ha.
  - cbn [py_merge class_items usem]. now rewrite sem_singles, amem_app.
  - assert (Hane : a <> []) by (apply Ha; discriminate). destruct Hw as [Hb [Hl Hw]].
    destruct (merge_hd b rest Hb Hl) as [m [r [Em [Ehd [Htl Hnil]]]]].
    rewrite py_merge_cons, Em, last_app_ne by exact Hane. rewrite Ehd. cbn [usem].
    destruct (gt_c (last a zero_c) (hd zero_c b)) eqn:G.
    + (* reversed: joined without the end points *)
      rewrite rng_reversed by exact G. rewrite orb_false_r. rewrite removelast_app by exact Hane.
      destruct (tl b) as [|y t] eqn:Et.
      * destruct (Hnil eq_refl) as [-> ->]. rewrite Et, app_nil_r. cbn [class_items].
        assert (rest = []) as ->.
        { destruct rest as [|b2 rest]; [reflexivity|]. assert (X : (b2 :: rest) <> []) by discriminate. specialize (Hl X).
          destruct b as [|x [|]]; cbn in Et, Hl; try congruence; lia. }
        cbn [usem amem existsb]. now rewrite sem_singles, amem_app, orb_false_r.
      * assert (Hne : y :: t <> []) by discriminate. destruct (Htl Hne) as [m' [Em' ->]]. cbn [tl].
        specialize (IH (y :: t) (p ++ removelast a) Hw (fun _ => Hne)).
        rewrite merge_prefix, Em' in IH by exact Hne. rewrite IH, amem_app. now rewrite orb_assoc.
    + (* a range *)
      assert (Hpa : p ++ a <> []) by (destruct p; [exact Hane|discriminate]).
      rewrite <- Em. change (class_items ((p ++ a) :: py_merge (b :: rest)))
        with (match py_merge (b :: rest) with
              | [] => map ISingle (p ++ a)
              | b0 :: _ => match p ++ a with
                           | [] => ISingle c_dash :: class_items (py_merge (b :: rest))
                           | _ => map ISingle (p ++ a) ++ IRange (last (p ++ a) zero_c) (hd zero_c b0) :: class_items (py_merge (b :: rest))
                           end
              end).
      rewrite Em. destruct (p ++ a) as [|z pa] eqn:Epa; [congruence|]. rewrite <- Epa, <- Em.
      rewrite sem_app, sem_singles. change (sem (IRange (last (p ++ a) zero_c) (hd zero_c m) :: class_items (py_merge (b :: rest))) c)
        with (rng (last (p ++ a) zero_c) (hd zero_c m) c || sem (class_items (py_merge (b :: rest))) c).
      rewrite last_app_ne by exact Hane. rewrite Ehd.
      specialize (IH b [] Hw (fun _ => Hb)). cbn [app amem existsb] in IH. rewrite IH. cbn [orb].
      rewrite usem_cons by assumption. rewrite amem_app, (amem_removelast_last c a zero_c Hane).
      pose proof (rng_lo _ _ G) as Hlo. pose proof (rng_hi _ _ G) as Hhi.
      rewrite <- !orb_assoc. f_equal. f_equal.
      rewrite orb_assoc, (aeqb_rng c _ _ _ Hlo). rewrite orb_assoc. rewrite (orb_comm (rng _ _ c)), (aeqb_rng c _ _ _ Hhi). reflexivity.
Qed.

(* ------------------------------------------------------------------ cutting the text into chunks *)
Lemma split_dash0_spec s :
  match split_dash 0 s with
  | Some (a, b) => s = a ++ c_dash :: b /\ ~ In c_dash a
  | None => ~ In c_dash s
  end.
Proof.
  induction s as [|x s IH]; [intros []|]. cbn [split_dash]. destruct (aeqb x c_dash) eqn:E.
  - apply aeqb_eq in E. subst x. split; [reflexivity|intros []].
  - apply aeqb_neq in E. destruct (split_dash 0 s) as [[a b]|].
    + destruct IH as [-> Hn]. split; [reflexivity|]. intros [H|H]; [congruence|contradiction].
    + intros [H|H]; [congruence|contradiction].
Qed.

(* the offsets generated from the interpreter's fnmatch.translate, consumed through these two equations *)
Lemma py_chunks_S f off cur :
  py_chunks (S f) off cur = match split_dash off cur with
                            | None => [cur]
                            | Some (a, []) => [a ++ [c_dash]]
                            | Some (a, b) => a :: py_chunks f 2 b
                            end.
Proof. reflexivity. Qed.

Lemma first_off_eq stuff : first_off stuff = match stuff with c :: _ => if aeqb c c_bang then 2 else 1 | [] => 1 end.
Proof. reflexivity. Qed.

Lemma split_dash1 x s :
  split_dash 1 (x :: s) = match split_dash 0 s with Some (a, b) => Some (x :: a, b) | None => None end.
Proof. reflexivity. Qed.

Lemma split_dash2 h t :
  split_dash 2 (h :: t) = match split_dash 1 t with Some (a, b) => Some (h :: a, b) | None => None end.
Proof. reflexivity. Qed.

(* the search from offset 2 is the search from offset 1 in the text without its first character *)
Lemma py_chunks2 f h t :
  py_chunks f 2 (h :: t) = match py_chunks f 1 t with a :: rest => (h :: a) :: rest | [] => [] end.
Proof.
  destruct f as [|f]; [reflexivity|]. rewrite !py_chunks_S, split_dash2.
  destruct (split_dash 1 t) as [[a b]|]; [|reflexivity]. destruct b; reflexivity.
Qed.

Lemma items_of_nodash x s : ~ In c_dash s -> items_of (x :: s) = map ISingle (x :: s).
Proof.
  revert x. induction s as [|y s IH]; intros x H; [reflexivity|].
  assert (Hs : ~ In c_dash s) by (intro X; apply H; now right).
  assert (E : aeqb y c_dash = false) by (apply aeqb_neq; intros ->; apply H; now left).
  change (items_of (x :: y :: s)) with (match s with
                                        | e :: r => if aeqb y c_dash then IRange x e :: items_of r else ISingle x :: items_of (y :: s)
                                        | [] => ISingle x :: items_of (y :: s)
                                        end).
  rewrite E. rewrite IH by exact Hs. now destruct s.
Qed.

(* the simple reading walks over single characters up to the one in front of the next hyphen *)
Lemma items_of_upto a : forall x b,
  ~ In c_dash a ->
  items_of (x :: a ++ c_dash :: b) = map ISingle (removelast (x :: a)) ++ items_of (last (x :: a) zero_c :: c_dash :: b).
Proof.
  induction a as [|y a IH]; intros x b H; [reflexivity|].
  assert (Ha : ~ In c_dash a) by (intro X; apply H; now right).
  assert (E : aeqb y c_dash = false) by (apply aeqb_neq; intros ->; apply H; now left).
  change (removelast (x :: y :: a)) with (x :: removelast (y :: a)). change (last (x :: y :: a) zero_c) with (last (y :: a) zero_c).
  cbn [map app]. rewrite <- IH by exact Ha.
  change ((y :: a) ++ c_dash :: b) with (y :: (a ++ c_dash :: b)).
  destruct (a ++ c_dash :: b) as [|e r] eqn:Er; [destruct a; discriminate|].
  change (items_of (x :: y :: e :: r)) with (if aeqb y c_dash then IRange x e :: items_of r else ISingle x :: items_of (y :: e :: r)).
  now rewrite E.
Qed.

Lemma chunks_sem1 c : forall f t,
  List.length t < f ->
  exists a rest, py_chunks f 1 t = a :: rest /\ wfr rest /\ (t <> [] -> a <> []) /\ usem a rest c = sem (items_of t) c.
Proof.
  induction f as [|f IH]; intros t Hf; [lia|]. destruct t as [|x s].
  - exists [], []. repeat split; try reflexivity. intro X. congruence.
  - rewrite py_chunks_S, split_dash1. pose proof (split_dash0_spec s) as Hs.
    destruct (split_dash 0 s) as [[a0 b]|].
    + destruct Hs as [-> Hn]. rewrite items_of_upto by exact Hn. rewrite sem_app, sem_singles.
      destruct b as [|e r].
      * exists ((x :: a0) ++ [c_dash]), []. repeat split; try (intro X; destruct a0; discriminate).
        cbn [usem]. assert (Hne : x :: a0 <> []) by discriminate.
        rewrite amem_app, (amem_removelast_last c (x :: a0) zero_c Hne). cbn. now rewrite !orb_false_r, orb_assoc.
      * assert (Hr : List.length r < f).
        { cbn [List.length] in Hf. rewrite app_length in Hf. cbn [List.length] in Hf. lia. }
        destruct (IH r Hr) as [a' [rest' [Ec [Hw [Hne' Hsem]]]]].
        rewrite py_chunks2, Ec. exists (x :: a0), ((e :: a') :: rest'). repeat split; try discriminate.
        -- intro X. destruct rest' as [|b2 rest']; [congruence|]. cbn [List.length]. destruct a' as [|y a']; [|cbn; lia].
           exfalso. destruct r as [|z r]; [|now apply Hne'].
           (* r = [] : a single chunk *) destruct f; [cbn in Hr; lia|]. rewrite py_chunks_S in Ec. cbn in Ec. congruence.
        -- exact Hw.
        -- cbn [usem hd tl]. rewrite Hsem.
           change (items_of (last (x :: a0) zero_c :: c_dash :: e :: r)) with (if aeqb c_dash c_dash then IRange (last (x :: a0) zero_c) e :: items_of r else ISingle (last (x :: a0) zero_c) :: items_of (c_dash :: e :: r)).
           rewrite aeqb_refl. unfold sem, rng. cbn [existsb]. now rewrite orb_assoc.
    + exists (x :: s), []. repeat split; try discriminate. cbn [usem]. rewrite items_of_nodash by exact Hs. now rewrite sem_singles.
Qed.

(* ------------------------------------------------------------------ the theorem *)
Lemma amem_false_notin c l : amem c l = false -> ~ In c l.
Proof. intros H X. apply amem_In in X. congruence. Qed.

Theorem mk_set_simple_reading stuff c :
  bang_surfaces stuff = false -> tok_sem (mk_set stuff) c = tok_sem (mk_set_simple stuff) c.
Proof.
  intro Hb. destruct stuff as [|x s]; [reflexivity|]. unfold mk_set, set_chunks in *. unfold bang_surfaces, set_chunks in Hb.
  destruct (amem c_dash (x :: s)) eqn:Ed.
  - (* there is a hyphen: chunks *)
    rewrite first_off_eq in *. unfold mk_set_simple. destruct (aeqb x c_bang) eqn:Ex.
    + (* negated *)
      apply aeqb_eq in Ex. subst x. rewrite py_chunks2.
      destruct (chunks_sem1 c (S (List.length (c_bang :: s))) s) as [a [rest [Ec [Hw [Hne Hsem]]]]]; [cbn; lia|].
      rewrite Ec. assert (Hs : s <> []).
      { intros ->. cbn in Ed. discriminate. }
      specialize (Hne Hs). pose proof (merge_prefix [c_bang] a rest Hne) as Hp. cbn [app] in Hp. rewrite Hp.
      destruct (py_merge (a :: rest)) as [|m r] eqn:Em; [now apply py_merge_nonempty in Em|].
      rewrite aeqb_refl. cbn [tok_sem]. f_equal. rewrite <- Em.
      pose proof (merge_sem c rest a [] Hw (fun _ => Hne)) as H. cbn [app amem existsb orb] in H. now rewrite H.
    + cbn [negb andb] in Hb.
      destruct (chunks_sem1 c (S (List.length (x :: s))) (x :: s)) as [a [rest [Ec [Hw [Hne Hsem]]]]]; [lia|].
      rewrite Ec in *. assert (Hxs : x :: s <> []) by discriminate. specialize (Hne Hxs).
      pose proof (merge_sem c rest a [] Hw (fun _ => Hne)) as H. cbn [app amem existsb orb] in H.
      destruct (py_merge (a :: rest)) as [|m r] eqn:Em; [now apply py_merge_nonempty in Em|].
      destruct m as [|d m]; [cbn [tok_sem]; now rewrite H, Hsem|]. rewrite Hb. cbn [tok_sem]. now rewrite H, Hsem.
  - (* no hyphen: the characters themselves *)
    pose proof (amem_false_notin _ _ Ed) as Hn. unfold mk_set_simple. destruct (aeqb x c_bang) eqn:Ex.
    + cbn [class_items tok_sem]. f_equal. destruct s as [|y s]; [reflexivity|].
      rewrite items_of_nodash; [reflexivity|]. intro X. apply Hn. right. now right.
    + cbn [class_items tok_sem]. f_equal. rewrite items_of_nodash; [reflexivity|]. intro X. apply Hn. now right.
Qed.

(* a "!" can only surface when the text starts with a range written backwards *)
Theorem bang_surfaces_only_after_reversed_range stuff :
  bang_surfaces stuff = true ->
  exists lo hi r, stuff = lo :: c_dash :: hi :: r /\ nat_of_ascii hi < nat_of_ascii lo.
Proof.
  destruct stuff as [|x s]; [discriminate|]. unfold bang_surfaces, set_chunks. intro H. apply andb_true_iff in H. destruct H as [Hx H].
  apply negb_true_iff in Hx. destruct (amem c_dash (x :: s)) eqn:Ed; [|cbn in H; congruence].
  rewrite first_off_eq, Hx, py_chunks_S, split_dash1 in H.
  pose proof (split_dash0_spec s) as Hs. destruct (split_dash 0 s) as [[a0 b]|].
  - destruct Hs as [-> Hn]. destruct b as [|e r].
    + cbn in H. congruence.
    + rewrite py_merge_cons in H. destruct (py_merge (py_chunks (List.length (x :: a0 ++ c_dash :: e :: r)) 2 (e :: r))) as [|m rr] eqn:Em.
      * cbn in H. congruence.
      * assert (Ehd : hd zero_c m = e).
        { rewrite py_chunks2 in Em. destruct (py_chunks _ 1 r) as [|a' rest'] eqn:Ec; [discriminate|].
          destruct a' as [|y a'].
          - (* the chunk is [e]: it is the last one *)
            destruct r as [|z r].
            + destruct (List.length (x :: a0 ++ [c_dash; e])); [|rewrite py_chunks_S in Ec]; cbn in Ec; injection Ec as <-; cbn in Em; now injection Em as <- _.
            + exfalso. destruct (chunks_sem1 zero_c (S (List.length (z :: r))) (z :: r)) as [a2 [r2 [E2 [_ [Hne2 _]]]]]; [lia|].
              assert (Hl : List.length (x :: a0 ++ c_dash :: e :: z :: r) = S (List.length (z :: r)) + (2 + List.length a0)).
              { cbn [List.length]. rewrite app_length. cbn [List.length]. lia. }
              (* fuel does not matter once it exceeds the length; avoid that by computing directly *)
              clear E2 Hne2 a2 r2. destruct (List.length (x :: a0 ++ c_dash :: e :: z :: r)) as [|f]; [cbn in Hl; lia|].
              rewrite py_chunks_S, split_dash1 in Ec. destruct (split_dash 0 r) as [[a3 b3]|]; [destruct b3|]; discriminate.
          - pose proof (merge_prefix [e] (y :: a') rest') as Hp. assert (Hne : y :: a' <> []) by discriminate. specialize (Hp Hne).
            cbn [app] in Hp. rewrite Hp in Em. destruct (py_merge ((y :: a') :: rest')); [discriminate|]. now injection Em as <- _. }
        rewrite Ehd in H. destruct (gt_c (last (x :: a0) zero_c) e) eqn:G.
        -- destruct a0 as [|y a0].
           ++ exists x, e, r. split; [reflexivity|]. unfold gt_c in G. cbn [last] in G. now apply Nat.ltb_lt in G.
           ++ change (removelast (x :: y :: a0)) with (x :: removelast (y :: a0)) in H. cbn [app] in H. congruence.
        -- congruence.
  - cbn in H. congruence.
Qed.

(* ------------------------------------------------------------------ at the level of fnmatch *)
Lemma mk_set_is_set stuff : exists neg items, mk_set stuff = TSet neg items.
Proof.
  unfold mk_set. destruct (set_chunks stuff) as [|[|d m] r].
  - now exists false, (class_items []).
  - now exists false, (class_items ([] :: r)).
  - destruct (aeqb d c_bang); [now exists true, (class_items (m :: r))|now exists false, (class_items ((d :: m) :: r))].
Qed.

(* pre [body] post with ANY body (ranges of any shape, negation, stray hyphens): one character of the simple reading *)
Theorem fnm_bracket name pre body post :
  plain (la pre) -> plain (la post) -> ~ In c_rbr body -> closable (rev body) = true -> bang_surfaces body = false ->
  fnm name (pre ++ "[" ++ sa body ++ "]" ++ post) = true <->
  exists c, tok_sem (mk_set_simple body) c = true /\ la name = la pre ++ c :: la post.
Proof.
  intros Hp Hq Hr Hc Hb. rewrite fnm_unfold, !la_app, la_sa. change (la "[") with [c_lbr]. change (la "]") with [c_rbr].
  rewrite parse_plain by exact Hp. cbn [app]. rewrite parse_bracket by assumption. rewrite parse_plain_all by exact Hq.
  destruct (mk_set_is_set body) as [neg [items Em]]. rewrite gmatch_lits. split.
  - intros [b [E M]]. rewrite Em in M. apply gmatch_set in M. destruct M as [c [b' [-> [Hx M]]]].
    rewrite <- (app_nil_r (map TLit (la post))) in M. apply gmatch_lits in M. destruct M as [b'' [-> M]].
    apply gmatch_nil in M. subst b''. rewrite app_nil_r in E. exists c. split; [|exact E].
    rewrite <- mk_set_simple_reading by exact Hb. rewrite Em. exact Hx.
  - intros [c [Hx E]]. exists (c :: la post). split; [exact E|]. rewrite Em. apply gmatch_set. exists c, (la post). repeat split.
    + rewrite <- mk_set_simple_reading in Hx by exact Hb. rewrite Em in Hx. exact Hx.
    + rewrite <- (app_nil_r (map TLit (la post))). apply gmatch_lits. exists []. split; [now rewrite app_nil_r|reflexivity].
Qed.
