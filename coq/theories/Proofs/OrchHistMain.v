(* Proofs/OrchHistMain.v — history independence, order independence, confinement of the listed defects,
   and freedom from side effects of the model of a long-lived Orchestrator / Linter (C08). *)
From Coq Require Import Permutation.
From TL Require Import Lib.Base Lib.GenTypes Gen.OrchHistGen Model.OrchHist Proofs.OrchHistBase.

Definition clean (st : ostate) : Prop := dry_rows st = [] /\ dry_aux st = [] /\ st_ev st = [].
Definition semi_clean (st : ostate) : Prop := dry_aux st = [] /\ st_ev st = [].

(* operations that run a single file through an entry point that does not finalize *)
Definition bare_single (q : oquirks) (o : op) : bool :=
  match o with
  | LintFile _ => true
  | ApiLint (TFile _) => negb (finalizes (api_file_entry q))
  | _ => false
  end.
Definition is_new_linter (o : op) : bool := match o with NewLinter => true | _ => false end.
(* lint calls proper / everything that is not a change of the file system *)
Definition lint_call (o : op) : bool :=
  match o with LintFile _ | LintFiles _ | LintDir _ _ | ApiLint _ => true | _ => false end.
Definition lint_op (o : op) : bool :=
  match o with Edit _ _ | Delete _ | Add _ _ => false | _ => true end.
Definition touches (ip : path) (o : op) : bool :=
  match o with Edit p _ | Delete p | Add p _ => p =? ip | _ => false end.

(* Configuration is read when an object is built: a history is admissible when no lint call is made between a change
   of the ignore file and the construction of the next Linter (d: the ignore file changed since the object was built) *)
Fixpoint hist_synced (ip : path) (d : bool) (h : list op) : bool :=
  match h with
  | [] => true
  | o :: r =>
      match o with
      | NewLinter => hist_synced ip false r
      | Edit _ _ | Delete _ | Add _ _ => hist_synced ip (d || touches ip o) r
      | _ => negb d && hist_synced ip d r
      end
  end.

Lemma api_file_call_finalizes q p : bare_single q (ApiLint (TFile p)) = false.
Proof. cbn [bare_single]. rewrite gen_api_file_entry. reflexivity. Qed.

Lemma filter_perm {A} (f : A -> bool) l l' : Permutation l l' -> Permutation (filter f l) (filter f l').
Proof.
  induction 1 as [|x l l' _ IH|x y l|l l' l'' _ IH1 _ IH2]; cbn [filter].
  - constructor.
  - destruct (f x); [now constructor|exact IH].
  - destruct (f x), (f y); try reflexivity. apply perm_swap.
  - now transitivity (filter f l').
Qed.

Lemma fs_get_untouched ip fs o : touches ip o = false -> fs_get (fs_step fs o) ip = fs_get fs ip.
Proof.
  assert (REM : forall f p, (p =? ip) = false -> fs_get (fs_remove f p) ip = fs_get f ip).
  { intros f p Hp. induction f as [|[p' c'] r IH]; [reflexivity|]. cbn [fs_remove filter fst negb].
    destruct (p =? p') eqn:E; cbn [negb].
    - apply Nat.eqb_eq in E. subst p'. cbn [fs_get]. rewrite Nat.eqb_sym, Hp. exact IH.
    - cbn [fs_get]. destruct (ip =? p'); [reflexivity|exact IH]. }
  destruct o as [p|ps|d l|t|p c|p|p c|]; cbn [touches fs_step]; intros T; try reflexivity.
  - destruct (fs_get fs p); [|reflexivity]. unfold fs_set. cbn [fs_get]. rewrite Nat.eqb_sym, T. now apply REM.
  - now apply REM.
  - unfold fs_set. cbn [fs_get]. rewrite Nat.eqb_sym, T. now apply REM.
Qed.

Section Main.
  Variable V : Type.
  Variable perfile : path -> option content -> list V.
  Variable rep_blocks : list fv -> list fv -> list V.
  Variable rep_consts rep_st : list fv -> list V.
  Variable hard_excl : path -> bool.
  Variable ignored : option content -> path -> bool.
  Variable ign_path : path.
  Variable in_dir : nat -> path -> bool.

  Notation run_entry := (run_entry V perfile rep_blocks rep_consts rep_st hard_excl ignored).
  Notation run_single := (run_single V perfile rep_blocks rep_consts rep_st hard_excl ignored).
  Notation step := (step V perfile rep_blocks rep_consts rep_st hard_excl ignored ign_path in_dir).
  Notation run := (run V perfile rep_blocks rep_consts rep_st hard_excl ignored ign_path in_dir).
  Notation freshN := (fresh V perfile rep_blocks rep_consts rep_st hard_excl ignored ign_path in_dir).
  Notation mk_init := (mk_init ign_path).
  Notation coherent := (coherent ignored).
  Notation evid := (evid hard_excl ignored).
  Notation pfout := (pfout V perfile hard_excl ignored).
  Notation REF := (run_entry_finalizing V perfile rep_blocks rep_consts rep_st hard_excl ignored).
  Notation REP := (run_entry_plain V perfile rep_blocks rep_consts rep_st hard_excl ignored).

  (* what a fresh object returns after each prefix of a history *)
  Fixpoint fresh_run (q : oquirks) (fs : fsys) (h : list op) : list (out V) :=
    match h with [] => [] | o :: r => freshN q fs o :: fresh_run q (fs_step fs o) r end.

  Lemma clean_init pp : clean (init_st pp). Proof. repeat split. Qed.

  (* ---------- one entry-point call from an arbitrary state ---------- *)
  Lemma run_single_char q entry fs st p : coherent st ->
    let r := run_single q entry fs st p in let pp := ppats st in
    coherent (fst r) /\ ppats (fst r) = pp /\
    (finalizes entry = true -> r = run_entry q entry fs st [p]) /\
    (finalizes entry = false ->
       snd r = Build_out (pfout pp fs [p]) [] [] [] /\
       dry_rows (fst r) = (if q_lintfile_leaves_evidence q then dry_rows st ++ evid pp fs [p] else dry_rows st) /\
       dry_aux (fst r) = (if q_lintfile_leaves_evidence q then dry_aux st ++ evid pp fs [p] else dry_aux st) /\
       st_ev (fst r) = (if q_lintfile_leaves_evidence q then st_ev st ++ evid pp fs [p] else st_ev st)).
  Proof.
    intros C. unfold OrchHist.run_single. cbn zeta. destruct (finalizes entry) eqn:F.
    - pose proof (REF q entry fs st [p] F C) as (_ & _ & _ & _ & H5 & H6).
      destruct (run_entry q entry fs st [p]) as [s1 o]. cbn [fst snd] in *.
      split; [exact H5|]. split; [exact H6|]. split; [reflexivity|discriminate].
    - pose proof (REP q entry fs st [p] F C) as (H1 & H2 & H3 & H4 & H5 & H6).
      destruct (run_entry q entry fs st [p]) as [s1 o]. cbn [fst snd] in *.
      destruct (q_lintfile_leaves_evidence q); cbn [fst snd keep_evidence dry_rows dry_aux st_ev icache ppats].
      + split; [exact H5|]. split; [exact H6|]. split; [discriminate|]. intros _. repeat split; assumption.
      + split; [intros x b Hx; cbn [icache ppats] in *; apply (H5 x b Hx)|]. split; [exact H6|]. split; [discriminate|].
        intros _. repeat split; assumption.
  Qed.

  (* ---------- Theorem A: history independence ---------- *)
  Lemma step_lint_clean q st fs o :
    lint_call o = true ->
    (q_lintfile_leaves_evidence q = false \/ bare_single q o = false) ->
    clean st -> coherent st -> ppats st = fs_get fs ign_path ->
    let r := step q (st, fs) o in
    clean (fst (fst r)) /\ coherent (fst (fst r)) /\ ppats (fst (fst r)) = ppats st /\ snd r = freshN q fs o.
  Proof.
    intros LC L (R1 & R2 & R3) C S. unfold OrchHist.fresh.
    assert (Ci : coherent (mk_init fs)) by apply coherent_init.
    assert (Si : ppats (mk_init fs) = ppats st) by (symmetry; exact S).
    assert (FIN : forall entry ps, finalizes entry = true ->
               let r := run_entry q entry fs st ps in
               clean (fst r) /\ coherent (fst r) /\ ppats (fst r) = ppats st /\ snd r = snd (run_entry q entry fs (mk_init fs) ps)).
    { intros entry ps F.
      pose proof (REF q entry fs st ps F C) as (H1 & H2 & H3 & H4 & H5 & H6).
      pose proof (REF q entry fs (mk_init fs) ps F Ci) as (K1 & _).
      cbn zeta in *. rewrite H1, K1, Si, R1, R2, R3. cbn [OrchHist.mk_init init_st dry_rows dry_aux st_ev app].
      split; [|split; [exact H5|split; [exact H6|reflexivity]]]. unfold clean. rewrite H2, H3, H4, (gen_rows_reset q). repeat split. }
    assert (SGL : forall entry p,
               (q_lintfile_leaves_evidence q = false \/ finalizes entry = true) ->
               let r := run_single q entry fs st p in
               clean (fst r) /\ coherent (fst r) /\ ppats (fst r) = ppats st /\ snd r = snd (run_single q entry fs (mk_init fs) p)).
    { intros entry p Hl.
      pose proof (run_single_char q entry fs st p C) as (H0 & H6 & Hf & Hp).
      pose proof (run_single_char q entry fs (mk_init fs) p Ci) as (_ & _ & Kf & Kp).
      cbn zeta in *. destruct (finalizes entry) eqn:F.
      - rewrite (Hf eq_refl), (Kf eq_refl). apply FIN. exact F.
      - destruct Hl as [Hl|Hl]; [|discriminate].
        destruct (Hp eq_refl) as (H1 & H2 & H3 & H4). destruct (Kp eq_refl) as (K1 & _).
        rewrite H1, K1, Si. split; [|split; [exact H0|split; [exact H6|reflexivity]]].
        unfold clean. rewrite H2, H3, H4, Hl. repeat split; assumption. }
    destruct o as [p|ps|d l|[p|d l]|p c|p|p c|]; cbn [OrchHist.step bare_single lint_call] in *; try discriminate.
    - specialize (SGL "lint_file" p). destruct (run_single q "lint_file" fs st p) as [s r].
      destruct (run_single q "lint_file" fs (mk_init fs) p) as [s' r']. cbn [fst snd] in *. apply SGL.
      destruct L as [L|L]; [now left|discriminate].
    - specialize (FIN "lint_files" ps gen_lint_files_finalizes). destruct (run_entry q "lint_files" fs st ps) as [s r].
      destruct (run_entry q "lint_files" fs (mk_init fs) ps) as [s' r']. exact FIN.
    - specialize (FIN "lint_directory" (walk in_dir fs d l) gen_lint_directory_finalizes).
      destruct (run_entry q "lint_directory" fs st _) as [s r]. destruct (run_entry q "lint_directory" fs (mk_init fs) _) as [s' r']. exact FIN.
    - destruct (fs_get fs p).
      + specialize (SGL (api_file_entry q) p). destruct (run_single q (api_file_entry q) fs st p) as [s r].
        destruct (run_single q (api_file_entry q) fs (mk_init fs) p) as [s' r']. cbn [fst snd] in *. apply SGL.
        destruct L as [L|L]; [now left|]. right. now apply negb_false_iff in L.
      + cbn [fst snd]. repeat split; assumption.
    - specialize (FIN api_dir_entry (walk in_dir fs d l)). rewrite gen_api_dir_entry in *. specialize (FIN gen_lint_directory_finalizes).
      destruct (run_entry q "lint_directory" fs st _) as [s r]. destruct (run_entry q "lint_directory" fs (mk_init fs) _) as [s' r']. exact FIN.
  Qed.

  Lemma run_clean q h : forall d st fs,
    (q_ignore_parser_reused q = false \/ forallb (fun o => negb (is_new_linter o)) h = true) ->
    (q_lintfile_leaves_evidence q = false \/ forallb (fun o => negb (bare_single q o)) h = true) ->
    hist_synced ign_path d h = true ->
    clean st -> coherent st -> (d = false -> ppats st = fs_get fs ign_path) ->
    snd (run q (st, fs) h) = fresh_run q fs h.
  Proof.
    induction h as [|o r IH]; intros d st fs R L HS K C S; cbn [OrchHist.run fresh_run]; [reflexivity|].
    assert (Rr : q_ignore_parser_reused q = false \/ forallb (fun o => negb (is_new_linter o)) r = true).
    { destruct R as [R|R]; [now left|]. right. cbn [forallb] in R. apply andb_true_iff in R. apply R. }
    assert (Lo : q_lintfile_leaves_evidence q = false \/ bare_single q o = false).
    { destruct L as [L|L]; [now left|]. right. cbn [forallb] in L. apply andb_true_iff in L. destruct L as [L _].
      now apply negb_true_iff in L. }
    assert (Lr : q_lintfile_leaves_evidence q = false \/ forallb (fun o => negb (bare_single q o)) r = true).
    { destruct L as [L|L]; [now left|]. right. cbn [forallb] in L. apply andb_true_iff in L. apply L. }
    destruct (lint_call o) eqn:LC.
    - assert (Hd : d = false /\ hist_synced ign_path d r = true).
      { destruct o; cbn [lint_call] in LC; try discriminate; cbn [hist_synced] in HS; apply andb_true_iff in HS;
          destruct HS as [H1 H2]; apply negb_true_iff in H1; split; assumption. }
      destruct Hd as [Hd HSr]. specialize (S Hd).
      pose proof (step_lint_clean q st fs o LC Lo K C S) as (K1 & C1 & P1 & E1).
      pose proof (step_fs V perfile rep_blocks rep_consts rep_st hard_excl ignored ign_path in_dir q st fs o) as Hfs.
      destruct (step q (st, fs) o) as [[s1 f1] x]. cbn [fst snd] in K1, C1, P1, E1, Hfs. subst f1 x.
      assert (Ef : fs_step fs o = fs) by (destruct o; cbn [lint_call] in LC; try discriminate; reflexivity).
      rewrite Ef in *. specialize (IH d s1 fs Rr Lr HSr K1 C1). destruct (run q (s1, fs) r) as [w2 xs]. cbn [fst snd] in *.
      f_equal. apply IH. intros _. now rewrite P1.
    - destruct o as [p|ps|dd l|t|p c|p|p c|]; cbn [lint_call] in LC; try discriminate.
      + cbn [OrchHist.step fs_step hist_synced] in *. unfold OrchHist.fresh at 1. cbn [OrchHist.step snd].
        match goal with |- context [run q (st, ?f) r] => specialize (IH (d || (p =? ign_path)) st f Rr Lr HS K C); destruct (run q (st, f) r) as [w2 xs] end.
        cbn [fst snd] in *. f_equal. apply IH. intros Hd. apply orb_false_iff in Hd. destruct Hd as [Hd Ht].
        rewrite (S Hd). symmetry. apply (fs_get_untouched ign_path fs (Edit p c)). exact Ht.
      + cbn [OrchHist.step fs_step hist_synced] in *. unfold OrchHist.fresh at 1. cbn [OrchHist.step snd].
        match goal with |- context [run q (st, ?f) r] => specialize (IH (d || (p =? ign_path)) st f Rr Lr HS K C); destruct (run q (st, f) r) as [w2 xs] end.
        cbn [fst snd] in *. f_equal. apply IH. intros Hd. apply orb_false_iff in Hd. destruct Hd as [Hd Ht].
        rewrite (S Hd). symmetry. apply (fs_get_untouched ign_path fs (Delete p)). exact Ht.
      + cbn [OrchHist.step fs_step hist_synced] in *. unfold OrchHist.fresh at 1. cbn [OrchHist.step snd].
        match goal with |- context [run q (st, ?f) r] => specialize (IH (d || (p =? ign_path)) st f Rr Lr HS K C); destruct (run q (st, f) r) as [w2 xs] end.
        cbn [fst snd] in *. f_equal. apply IH. intros Hd. apply orb_false_iff in Hd. destruct Hd as [Hd Ht].
        rewrite (S Hd). symmetry. apply (fs_get_untouched ign_path fs (Add p c)). exact Ht.
      + assert (Rq : q_ignore_parser_reused q = false).
        { destruct R as [R|R]; [exact R|]. cbn [forallb is_new_linter negb andb] in R. discriminate R. }
        cbn [OrchHist.step fs_step hist_synced] in *. unfold OrchHist.fresh at 1. cbn [OrchHist.step snd]. rewrite Rq.
        specialize (IH false (mk_init fs) fs Rr Lr HS (clean_init _) (coherent_init ignored _)). destruct (run q (mk_init fs, fs) r) as [w2 xs].
        cbn [fst snd] in *. f_equal. apply IH. intros _. reflexivity.
  Qed.

  (* every call of every admissible history returns what a fresh object returns on the file system as it is then *)
  Theorem history_independent q fs0 h :
    q_lintfile_leaves_evidence q = false -> q_ignore_parser_reused q = false ->
    hist_synced ign_path false h = true ->
    snd (run q (mk_init fs0, fs0) h) = fresh_run q fs0 h.
  Proof.
    intros L R HS. apply (run_clean q h false (mk_init fs0) fs0 (or_introl R) (or_introl L) HS (clean_init _) (coherent_init ignored _)).
    intros _. reflexivity.
  Qed.

  (* the same for EVERY quirk vector - in particular the one claimed for the current tree - on histories without bare
     single-file calls and without rebuilding the Linter in the same process *)
  Theorem history_independent_faithful q fs0 h :
    forallb (fun o => negb (bare_single q o)) h = true -> forallb (fun o => negb (is_new_linter o)) h = true ->
    hist_synced ign_path false h = true ->
    snd (run q (mk_init fs0, fs0) h) = fresh_run q fs0 h.
  Proof.
    intros L R HS. apply (run_clean q h false (mk_init fs0) fs0 (or_intror R) (or_intror L) HS (clean_init _) (coherent_init ignored _)).
    intros _. reflexivity.
  Qed.

  (* ---------- Theorem D: lint operations leave the file system alone ---------- *)
  Theorem lint_ops_preserve_fs q st fs o : lint_op o = true -> snd (fst (step q (st, fs) o)) = fs.
  Proof.
    intros H. rewrite (step_fs V perfile rep_blocks rep_consts rep_st hard_excl ignored ign_path in_dir).
    destruct o; cbn [fs_step lint_op] in *; try reflexivity; discriminate.
  Qed.

  (* ---------- Theorem B: order independence ---------- *)
  Hypothesis rep_blocks_perm : forall l l' a a', Permutation l l' -> Permutation a a' -> Permutation (rep_blocks l a) (rep_blocks l' a').
  Hypothesis rep_st_perm : forall l l', Permutation l l' -> Permutation (rep_st l) (rep_st l').

  Definition out_perm (a b : out V) : Prop :=
    Permutation (o_pf a) (o_pf b) /\ Permutation (o_blocks a) (o_blocks b)
    /\ Permutation (o_consts a) (o_consts b) /\ Permutation (o_st a) (o_st b).

  Definition st_perm (a b : ostate) : Prop :=
    Permutation (dry_rows a) (dry_rows b) /\ Permutation (dry_aux a) (dry_aux b)
    /\ Permutation (st_ev a) (st_ev b) /\ ppats a = ppats b /\ coherent a /\ coherent b.

  Inductive op_perm : op -> op -> Prop :=
  | OP_files ps ps' : Permutation ps ps' -> op_perm (LintFiles ps) (LintFiles ps')
  | OP_dir d l l' : Permutation l l' -> op_perm (LintDir d l) (LintDir d l')
  | OP_api d l l' : Permutation l l' -> op_perm (ApiLint (TDir d l)) (ApiLint (TDir d l'))
  | OP_same o : op_perm o o.

  Lemma out_perm_all a b : out_perm a b -> Permutation (out_all a) (out_all b).
  Proof. intros (H1 & H2 & H3 & H4). unfold out_all. repeat apply Permutation_app; assumption. Qed.

  Lemma out_perm_refl a : out_perm a a. Proof. repeat split; reflexivity. Qed.

  Lemma evid_perm pp fs ps ps' : Permutation ps ps' -> Permutation (evid pp fs ps) (evid pp fs ps').
  Proof. intros H. unfold OrchHistBase.evid. now apply Permutation_flat_map. Qed.
  Lemma pfout_perm pp fs ps ps' : Permutation ps ps' -> Permutation (pfout pp fs ps) (pfout pp fs ps').
  Proof. intros H. unfold OrchHistBase.pfout. now apply Permutation_flat_map. Qed.

  Lemma run_entry_perm q entry fs st st' ps ps' :
    st_perm st st' -> Permutation ps ps' ->
    let r := run_entry q entry fs st ps in let r' := run_entry q entry fs st' ps' in
    out_perm (snd r) (snd r') /\ st_perm (fst r) (fst r').
  Proof.
    intros (P1 & P2 & P3 & PP & C & C') P. cbn zeta.
    pose proof (evid_perm (ppats st) fs ps ps' P) as Pe. pose proof (pfout_perm (ppats st) fs ps ps' P) as Pp.
    destruct (finalizes entry) eqn:F.
    - pose proof (REF q entry fs st ps F C) as (H1 & H2 & H3 & H4 & H5 & H6).
      pose proof (REF q entry fs st' ps' F C') as (K1 & K2 & K3 & K4 & K5 & K6).
      cbn zeta in *. rewrite <- PP in *. rewrite H1, K1. split.
      + unfold out_perm. cbn [o_pf o_blocks o_consts o_st]. rewrite !gen_consts_view.
        split; [exact Pp|]. split; [apply rep_blocks_perm; now apply Permutation_app|].
        split; [|apply rep_st_perm; now apply Permutation_app].
        rewrite (fv_sort_perm_eq (dry_aux st ++ evid (ppats st) fs ps) (dry_aux st' ++ evid (ppats st) fs ps')); [reflexivity|now apply Permutation_app].
      + unfold st_perm. rewrite H2, H3, H4, K2, K3, K4, H6, K6.
        split; [destruct (rows_kept q); [now apply Permutation_app|constructor]|]. repeat split; try constructor; assumption.
    - pose proof (REP q entry fs st ps F C) as (H1 & H2 & H3 & H4 & H5 & H6).
      pose proof (REP q entry fs st' ps' F C') as (K1 & K2 & K3 & K4 & K5 & K6).
      cbn zeta in *. rewrite <- PP in *. rewrite H1, K1. split.
      + unfold out_perm. cbn [o_pf o_blocks o_consts o_st]. repeat split; try constructor. exact Pp.
      + unfold st_perm. rewrite H2, H3, H4, K2, K3, K4, H6, K6. repeat split; try assumption; now apply Permutation_app.
  Qed.

  Lemma run_single_perm q entry fs st st' p :
    st_perm st st' ->
    let r := run_single q entry fs st p in let r' := run_single q entry fs st' p in
    out_perm (snd r) (snd r') /\ st_perm (fst r) (fst r').
  Proof.
    intros P. cbn zeta. pose proof (run_entry_perm q entry fs st st' [p] [p] P (Permutation_refl _)) as (Ho & Hs).
    unfold OrchHist.run_single. destruct (run_entry q entry fs st [p]) as [s1 o1]. destruct (run_entry q entry fs st' [p]) as [s1' o1'].
    cbn [fst snd] in Ho, Hs. destruct (finalizes entry); [split; assumption|].
    destruct (q_lintfile_leaves_evidence q); cbn [fst snd]; [split; assumption|]. split; [exact Ho|].
    destruct P as (P1 & P2 & P3 & _ & _ & _). destruct Hs as (_ & _ & _ & PP1 & C1 & C1').
    unfold st_perm, keep_evidence. cbn [dry_rows dry_aux st_ev icache ppats]. repeat split; assumption.
  Qed.

  Lemma step_perm q st st' fs o o' :
    st_perm st st' -> op_perm o o' ->
    let r := step q (st, fs) o in let r' := step q (st', fs) o' in
    out_perm (snd r) (snd r') /\ st_perm (fst (fst r)) (fst (fst r')) /\ snd (fst r) = snd (fst r').
  Proof.
    intros P X. cbn zeta.
    assert (ENT : forall e a b, Permutation a b ->
              let r := run_entry q e fs st a in let r' := run_entry q e fs st' b in
              out_perm (snd (fst r, fs, snd r)) (snd (fst r', fs, snd r'))
              /\ st_perm (fst (fst (fst r, fs, snd r))) (fst (fst (fst r', fs, snd r')))
              /\ snd (fst (fst r, fs, snd r)) = snd (fst (fst r', fs, snd r'))).
    { intros e a b Hab. cbn zeta. pose proof (run_entry_perm q e fs st st' a b P Hab) as (Ho & Hs).
      cbn [fst snd]. split; [exact Ho|split; [exact Hs|reflexivity]]. }
    assert (SGL : forall e a,
              let r := run_single q e fs st a in let r' := run_single q e fs st' a in
              out_perm (snd (fst r, fs, snd r)) (snd (fst r', fs, snd r'))
              /\ st_perm (fst (fst (fst r, fs, snd r))) (fst (fst (fst r', fs, snd r')))
              /\ snd (fst (fst r, fs, snd r)) = snd (fst (fst r', fs, snd r'))).
    { intros e a. cbn zeta. pose proof (run_single_perm q e fs st st' a P) as (Ho & Hs).
      cbn [fst snd]. split; [exact Ho|split; [exact Hs|reflexivity]]. }
    assert (TRIV : forall f : fsys, out_perm (snd (st, f, @out_nil V)) (snd (st', f, @out_nil V))
              /\ st_perm (fst (fst (st, f, @out_nil V))) (fst (fst (st', f, @out_nil V)))
              /\ snd (fst (st, f, @out_nil V)) = snd (fst (st', f, @out_nil V))).
    { intros f. cbn [fst snd]. split; [apply out_perm_refl|]. split; [exact P|reflexivity]. }
    destruct X as [ps ps' Hp|d l l' Hp|d l l' Hp|o].
    - cbn [OrchHist.step]. specialize (ENT "lint_files" ps ps' Hp). cbn zeta in ENT.
      destruct (run_entry q "lint_files" fs st ps); destruct (run_entry q "lint_files" fs st' ps'). exact ENT.
    - cbn [OrchHist.step]. specialize (ENT "lint_directory" _ _ (filter_perm (fun p => in_dir d p && match fs_get fs p with Some _ => true | None => false end) l l' Hp)). cbn zeta in ENT. unfold walk.
      match goal with |- context [run_entry q ?e fs st ?a] => destruct (run_entry q e fs st a) end.
      match goal with |- context [run_entry q ?e fs st' ?a] => destruct (run_entry q e fs st' a) end. exact ENT.
    - cbn [OrchHist.step]. specialize (ENT api_dir_entry _ _ (filter_perm (fun p => in_dir d p && match fs_get fs p with Some _ => true | None => false end) l l' Hp)). cbn zeta in ENT. unfold walk.
      match goal with |- context [run_entry q ?e fs st ?a] => destruct (run_entry q e fs st a) end.
      match goal with |- context [run_entry q ?e fs st' ?a] => destruct (run_entry q e fs st' a) end. exact ENT.
    - destruct o as [p|ps|d l|[p|d l]|p c|p|p c|]; cbn [OrchHist.step].
      + specialize (SGL "lint_file" p). cbn zeta in SGL.
        destruct (run_single q "lint_file" fs st p); destruct (run_single q "lint_file" fs st' p). exact SGL.
      + specialize (ENT "lint_files" ps ps (Permutation_refl _)). cbn zeta in ENT.
        destruct (run_entry q "lint_files" fs st ps); destruct (run_entry q "lint_files" fs st' ps). exact ENT.
      + specialize (ENT "lint_directory" (walk in_dir fs d l) _ (Permutation_refl _)). cbn zeta in ENT.
        destruct (run_entry q "lint_directory" fs st _); destruct (run_entry q "lint_directory" fs st' _). exact ENT.
      + destruct (fs_get fs p); [|apply TRIV].
        specialize (SGL (api_file_entry q) p). cbn zeta in SGL.
        destruct (run_single q (api_file_entry q) fs st p); destruct (run_single q (api_file_entry q) fs st' p). exact SGL.
      + specialize (ENT api_dir_entry (walk in_dir fs d l) _ (Permutation_refl _)). cbn zeta in ENT.
        destruct (run_entry q api_dir_entry fs st _); destruct (run_entry q api_dir_entry fs st' _). exact ENT.
      + apply TRIV.
      + apply TRIV.
      + apply TRIV.
      + cbn [fst snd]. split; [apply out_perm_refl|]. split; [|reflexivity].
        destruct P as (_ & _ & _ & PP & C & C'). destruct (q_ignore_parser_reused q).
        * unfold st_perm. cbn [dry_rows dry_aux st_ev ppats icache]. repeat split; try constructor; assumption.
        * unfold st_perm. repeat split; try reflexivity; apply coherent_init.
  Qed.

  Lemma run_perm q h : forall h' st st' fs,
    st_perm st st' -> Forall2 op_perm h h' ->
    Forall2 out_perm (snd (run q (st, fs) h)) (snd (run q (st', fs) h')).
  Proof.
    induction h as [|o r IH]; intros h' st st' fs P X; inversion X as [|o1 o' r1 r' Xo Xr]; subst; cbn [OrchHist.run]; [constructor|].
    pose proof (step_perm q st st' fs o o' P Xo) as (Ho & Hs & Hf).
    destruct (step q (st, fs) o) as [[s1 f1] x]. destruct (step q (st', fs) o') as [[s1' f1'] x']. cbn [fst snd] in Ho, Hs, Hf. subst f1'.
    specialize (IH r' s1 s1' f1 Hs Xr). destruct (run q (s1, f1) r) as [w2 xs]. destruct (run q (s1', f1) r') as [w2' xs'].
    cbn [fst snd] in IH |- *. constructor; assumption.
  Qed.

  Lemma st_perm_init pp : st_perm (init_st pp) (init_st pp).
  Proof. unfold st_perm. cbn [init_st dry_rows dry_aux st_ev icache ppats]. repeat split; try constructor; apply coherent_init. Qed.

  (* permuting the file list of any call, and the order in which directories are walked, permutes the results *)
  Theorem order_independent q fs0 h h' :
    Forall2 op_perm h h' ->
    Forall2 out_perm (snd (run q (mk_init fs0, fs0) h)) (snd (run q (mk_init fs0, fs0) h')).
  Proof. intros X. apply run_perm; [apply st_perm_init|exact X]. Qed.

  (* C08 as a whole: with the flags off, every call of every admissible history, in whatever order its files are
     passed or discovered, returns a permutation of what a fresh object returns for the canonical order *)
  Theorem results_depend_on_current_state_only q fs0 h h' :
    q_lintfile_leaves_evidence q = false -> q_ignore_parser_reused q = false -> hist_synced ign_path false h = true ->
    Forall2 op_perm h h' ->
    Forall2 out_perm (snd (run q (mk_init fs0, fs0) h')) (fresh_run q fs0 h).
  Proof.
    intros L R HS X. rewrite <- (history_independent q fs0 h L R HS).
    apply run_perm; [apply st_perm_init|].
    clear -X. induction X; constructor; [|assumption].
    match goal with H : op_perm _ _ |- _ => destruct H; constructor; now apply Permutation_sym end.
  Qed.
End Main.
