(* Proofs/OrchHistMain.v — history independence, order independence, confinement of the listed defects,
   and freedom from side effects of the model of a long-lived Orchestrator / Linter (C08). *)
From Coq Require Import Permutation.
From TL Require Import Lib.Base Lib.GenTypes Gen.OrchHistGen Model.OrchHist Proofs.OrchHistBase.

Definition clean (st : ostate) : Prop := dry_rows st = [] /\ dry_aux st = [] /\ st_ev st = [].
Definition semi_clean (st : ostate) : Prop := dry_aux st = [] /\ st_ev st = [].

(* operations that run a single file through an entry point that does not finalize *)
Definition bare_single (q : oquirks) (o : op) : bool :=
  match o with
  | LintFile _ => true
  | ApiLint (TFile _) => negb (finalizes (api_file_entry q))
  | _ => false
  end.
Definition is_new_linter (o : op) : bool := match o with NewLinter => true | _ => false end.
Definition is_reload (o : op) : bool := match o with ReloadConfig => true | _ => false end.
(* lint calls proper / everything that is not a change of the file system *)
Definition lint_call (o : op) : bool :=
  match o with LintFile _ | LintFiles _ | LintDir _ _ | ApiLint _ => true | _ => false end.
Definition lint_op (o : op) : bool :=
  match o with Edit _ _ | Delete _ | Add _ _ => false | _ => true end.
Definition touches (ip : path) (o : op) : bool :=
  match o with Edit p _ | Delete p | Add p _ => p =? ip | _ => false end.

(* Configuration is read when an object is built or told to reload: a history is admissible when no lint call is made
   between a change of the ignore file and the construction of the next Linter (d), nor between a change of the configuration
   file and the next construction / reload (dc) *)
Fixpoint hist_synced (ip cp : path) (d dc : bool) (h : list op) : bool :=
  match h with
  | [] => true
  | o :: r =>
      match o with
      | NewLinter => hist_synced ip cp false false r
      | ReloadConfig => hist_synced ip cp d false r
      | Edit _ _ | Delete _ | Add _ _ => hist_synced ip cp (d || touches ip o) (dc || touches cp o) r
      | _ => negb d && negb dc && hist_synced ip cp d dc r
      end
  end.

Lemma api_file_call_finalizes q p : bare_single q (ApiLint (TFile p)) = false.
Proof. cbn [bare_single]. rewrite gen_api_file_entry. reflexivity. Qed.

Lemma filter_perm {A} (f : A -> bool) l l' : Permutation l l' -> Permutation (filter f l) (filter f l').
Proof.
  induction 1 as [|x l l' _ IH|x y l|l l' l'' _ IH1 _ IH2]; cbn [filter].
  - constructor.
  - destruct (f x); [now constructor|exact IH].
  - destruct (f x), (f y); try reflexivity. apply perm_swap.
  - now transitivity (filter f l').
Qed.

Lemma fs_get_untouched ip fs o : touches ip o = false -> fs_get (fs_step fs o) ip = fs_get fs ip.
Proof.
  assert (REM : forall f p, (p =? ip) = false -> fs_get (fs_remove f p) ip = fs_get f ip).
  { intros f p Hp. induction f as [|[p' c'] r IH]; [reflexivity|]. cbn [fs_remove filter fst negb].
    destruct (p =? p') eqn:E; cbn [negb].
    - apply Nat.eqb_eq in E. subst p'. cbn [fs_get]. rewrite Nat.eqb_sym, Hp. exact IH.
    - cbn [fs_get]. destruct (ip =? p'); [reflexivity|exact IH]. }
  destruct o as [p|ps|d l|t|p c|p|p c| |]; cbn [touches fs_step]; intros T; try reflexivity.
  - destruct (fs_get fs p); [|reflexivity]. unfold fs_set. cbn [fs_get]. rewrite Nat.eqb_sym, T. now apply REM.
  - now apply REM.
  - unfold fs_set. cbn [fs_get]. rewrite Nat.eqb_sym, T. now apply REM.
Qed.

Section Main.
  Variable V : Type.
  Variable perfile perfile_fp : path -> option content -> list V.
  Variable rep_blocks : option content -> list fv -> list fv -> list V.
  Variable rep_consts : option content -> list fv -> list V.
  Variable rep_st : list fv -> list V.
  Variable hard_excl : path -> bool.
  Variable ignored : option content -> path -> bool.
  Variable ign_path cfg_path : path.
  Variable in_dir : nat -> path -> bool.

  Notation run_entry := (run_entry V perfile perfile_fp rep_blocks rep_consts rep_st hard_excl ignored).
  Notation run_single := (run_single V perfile perfile_fp rep_blocks rep_consts rep_st hard_excl ignored).
  Notation step := (step V perfile perfile_fp rep_blocks rep_consts rep_st hard_excl ignored ign_path cfg_path in_dir).
  Notation run := (run V perfile perfile_fp rep_blocks rep_consts rep_st hard_excl ignored ign_path cfg_path in_dir).
  Notation freshN := (fresh V perfile perfile_fp rep_blocks rep_consts rep_st hard_excl ignored ign_path cfg_path in_dir).
  Notation mk_init := (mk_init ign_path cfg_path).
  Notation coherent := (coherent ignored).
  Notation evid := (evid hard_excl ignored).
  Notation pfout := (pfout V perfile perfile_fp hard_excl ignored).
  Notation REF := (run_entry_finalizing V perfile perfile_fp rep_blocks rep_consts rep_st hard_excl ignored).
  Notation REP := (run_entry_plain V perfile perfile_fp rep_blocks rep_consts rep_st hard_excl ignored).
  Notation RCF := (run_entry_cfg0 V perfile perfile_fp rep_blocks rep_consts rep_st hard_excl ignored).

  (* both rules that remember a configuration use the one the object holds *)
  Definition views_ok (q : oquirks) (st : ostate) : Prop := fp_view q st = ocfg st /\ dry_view q st = ocfg st.
  Lemma views_ok_fresh q pp oc : views_ok q (init_st pp oc).
  Proof. unfold views_ok, fp_view, dry_view, view. cbn [init_st fp_cfg0 dry_cfg0 ocfg]. destruct (q_fp_config_sticky q), (q_dry_config_sticky q); split; reflexivity. Qed.
  Lemma views_ok_frame q a b : same_frame q a b -> views_ok q a -> views_ok q b.
  Proof. intros (_ & F2 & F3 & F4) (A1 & A2). unfold views_ok. rewrite F2, F3, F4. split; assumption. Qed.
  Lemma views_ok_off q st : q_fp_config_sticky q = false -> q_dry_config_sticky q = false -> views_ok q st.
  Proof. intros A B. unfold views_ok, fp_view, dry_view, view. rewrite A, B. split; reflexivity. Qed.

  (* what a fresh object returns after each prefix of a history *)
  Fixpoint fresh_run (q : oquirks) (fs : fsys) (h : list op) : list (out V) :=
    match h with [] => [] | o :: r => freshN q fs o :: fresh_run q (fs_step fs o) r end.

  Lemma clean_init pp oc : clean (init_st pp oc). Proof. repeat split. Qed.

  (* ---------- one entry-point call from an arbitrary state ---------- *)
  Lemma keep_evidence_frame q old new : same_frame q new (keep_evidence old new).
  Proof. unfold same_frame, fp_view, dry_view, keep_evidence. cbn [ppats ocfg fp_cfg0 dry_cfg0]. repeat split. Qed.

  Lemma run_single_char q entry fs st p : coherent st ->
    let r := run_single q entry fs st p in let pp := ppats st in let k := ocfg st in
    coherent (fst r) /\ same_frame q st (fst r) /\
    (finalizes entry = true -> r = run_entry q entry fs st [p]) /\
    (finalizes entry = false ->
       snd r = Build_out (pfout pp k (fp_view q st) fs [p]) [] [] [] /\
       dry_rows (fst r) = (if q_lintfile_leaves_evidence q then dry_rows st ++ evid pp k fs [p] else dry_rows st) /\
       dry_aux (fst r) = (if q_lintfile_leaves_evidence q then dry_aux st ++ evid pp k fs [p] else dry_aux st) /\
       st_ev (fst r) = (if q_lintfile_leaves_evidence q then st_ev st ++ evid pp k fs [p] else st_ev st)).
  Proof.
    intros C. unfold OrchHist.run_single. cbn zeta. destruct (finalizes entry) eqn:F.
    - pose proof (REF q entry fs st [p] F C) as (_ & _ & _ & _ & H5 & H6).
      destruct (run_entry q entry fs st [p]) as [s1 o]. cbn [fst snd] in *.
      split; [exact H5|]. split; [exact H6|]. split; [reflexivity|discriminate].
    - pose proof (REP q entry fs st [p] F C) as (H1 & H2 & H3 & H4 & H5 & H6).
      destruct (run_entry q entry fs st [p]) as [s1 o]. cbn [fst snd] in *.
      destruct (q_lintfile_leaves_evidence q); cbn [fst snd].
      + split; [exact H5|]. split; [exact H6|]. split; [discriminate|]. intros _. repeat split; assumption.
      + split; [intros x b Hx; unfold keep_evidence in *; cbn [icache ppats] in *; apply (H5 x b Hx)|].
        split; [apply (same_frame_trans q st s1 _ H6), keep_evidence_frame|]. split; [discriminate|].
        intros _. unfold keep_evidence. cbn [dry_rows dry_aux st_ev]. repeat split; assumption.
  Qed.

  (* ---------- Theorem A: history independence ---------- *)
  Lemma step_lint_clean q st fs o :
    lint_call o = true ->
    (q_lintfile_leaves_evidence q = false \/ bare_single q o = false) ->
    clean st -> coherent st -> views_ok q st ->
    ppats st = fs_get fs ign_path -> ocfg st = fs_get fs cfg_path ->
    let r := step q (st, fs) o in
    clean (fst (fst r)) /\ coherent (fst (fst r)) /\ same_frame q st (fst (fst r)) /\ snd r = freshN q fs o.
  Proof.
    intros LC L (R1 & R2 & R3) C (W1 & W2) S SC. unfold OrchHist.fresh.
    assert (Ci : coherent (mk_init fs)) by apply coherent_init.
    destruct (views_ok_fresh q (fs_get fs ign_path) (fs_get fs cfg_path)) as (I1 & I2).
    change (init_st (fs_get fs ign_path) (fs_get fs cfg_path)) with (mk_init fs) in I1, I2.
    assert (Si : ppats (mk_init fs) = ppats st) by (symmetry; exact S).
    assert (Sk : ocfg (mk_init fs) = ocfg st) by (symmetry; exact SC).
    assert (FIN : forall entry ps, finalizes entry = true ->
               let r := run_entry q entry fs st ps in
               clean (fst r) /\ coherent (fst r) /\ same_frame q st (fst r) /\ snd r = snd (run_entry q entry fs (mk_init fs) ps)).
    { intros entry ps F.
      pose proof (REF q entry fs st ps F C) as (H1 & H2 & H3 & H4 & H5 & H6).
      pose proof (REF q entry fs (mk_init fs) ps F Ci) as (K1 & _).
      cbn zeta in *. rewrite H1, K1, I1, I2, Si, Sk, W1, W2, R1, R2, R3. cbn [OrchHist.mk_init init_st dry_rows dry_aux st_ev app].
      split; [|split; [exact H5|split; [exact H6|reflexivity]]]. unfold clean. rewrite H2, H3, H4, (gen_rows_reset q). repeat split. }
    assert (SGL : forall entry p,
               (q_lintfile_leaves_evidence q = false \/ finalizes entry = true) ->
               let r := run_single q entry fs st p in
               clean (fst r) /\ coherent (fst r) /\ same_frame q st (fst r) /\ snd r = snd (run_single q entry fs (mk_init fs) p)).
    { intros entry p Hl.
      pose proof (run_single_char q entry fs st p C) as (H0 & H6 & Hf & Hp).
      pose proof (run_single_char q entry fs (mk_init fs) p Ci) as (_ & _ & Kf & Kp).
      cbn zeta in *. destruct (finalizes entry) eqn:F.
      - rewrite (Hf eq_refl), (Kf eq_refl). apply FIN. exact F.
      - destruct Hl as [Hl|Hl]; [|discriminate].
        destruct (Hp eq_refl) as (H1 & H2 & H3 & H4). destruct (Kp eq_refl) as (K1 & _).
        rewrite H1, K1, I1, Si, Sk, W1. split; [|split; [exact H0|split; [exact H6|reflexivity]]].
        unfold clean. rewrite H2, H3, H4, Hl. repeat split; assumption. }
    destruct o as [p|ps|d l|[p|d l]|p c|p|p c| |]; cbn [OrchHist.step bare_single lint_call] in *; try discriminate.
    - specialize (SGL "lint_file" p). destruct (run_single q "lint_file" fs st p) as [s r].
      destruct (run_single q "lint_file" fs (mk_init fs) p) as [s' r']. cbn [fst snd] in *. apply SGL.
      destruct L as [L|L]; [now left|discriminate].
    - specialize (FIN "lint_files" ps gen_lint_files_finalizes). destruct (run_entry q "lint_files" fs st ps) as [s r].
      destruct (run_entry q "lint_files" fs (mk_init fs) ps) as [s' r']. exact FIN.
    - specialize (FIN "lint_directory" (walk in_dir fs d l) gen_lint_directory_finalizes).
      destruct (run_entry q "lint_directory" fs st _) as [s r]. destruct (run_entry q "lint_directory" fs (mk_init fs) _) as [s' r']. exact FIN.
    - destruct (fs_get fs p).
      + specialize (SGL (api_file_entry q) p). destruct (run_single q (api_file_entry q) fs st p) as [s r].
        destruct (run_single q (api_file_entry q) fs (mk_init fs) p) as [s' r']. cbn [fst snd] in *. apply SGL.
        destruct L as [L|L]; [now left|]. right. now apply negb_false_iff in L.
      + cbn [fst snd]. repeat split; try assumption.
    - specialize (FIN api_dir_entry (walk in_dir fs d l)). rewrite gen_api_dir_entry in *. specialize (FIN gen_lint_directory_finalizes).
      destruct (run_entry q "lint_directory" fs st _) as [s r]. destruct (run_entry q "lint_directory" fs (mk_init fs) _) as [s' r']. exact FIN.
  Qed.

  Lemma run_clean q h : forall d dc st fs,
    (q_ignore_parser_reused q = false \/ forallb (fun o => negb (is_new_linter o)) h = true) ->
    (q_lintfile_leaves_evidence q = false \/ forallb (fun o => negb (bare_single q o)) h = true) ->
    ((q_fp_config_sticky q = false /\ q_dry_config_sticky q = false) \/ forallb (fun o => negb (is_reload o)) h = true) ->
    hist_synced ign_path cfg_path d dc h = true ->
    clean st -> coherent st -> views_ok q st ->
    (d = false -> ppats st = fs_get fs ign_path) -> (dc = false -> ocfg st = fs_get fs cfg_path) ->
    snd (run q (st, fs) h) = fresh_run q fs h.
  Proof.
    induction h as [|o r IH]; intros d dc st fs R L SK HS K C W S SC; cbn [OrchHist.run fresh_run]; [reflexivity|].
    assert (Rr : q_ignore_parser_reused q = false \/ forallb (fun o => negb (is_new_linter o)) r = true).
    { destruct R as [R|R]; [now left|]. right. cbn [forallb] in R. apply andb_true_iff in R. apply R. }
    assert (SKr : (q_fp_config_sticky q = false /\ q_dry_config_sticky q = false) \/ forallb (fun o => negb (is_reload o)) r = true).
    { destruct SK as [SK|SK]; [now left|]. right. cbn [forallb] in SK. apply andb_true_iff in SK. apply SK. }
    assert (Lo : q_lintfile_leaves_evidence q = false \/ bare_single q o = false).
    { destruct L as [L|L]; [now left|]. right. cbn [forallb] in L. apply andb_true_iff in L. destruct L as [L _].
      now apply negb_true_iff in L. }
    assert (Lr : q_lintfile_leaves_evidence q = false \/ forallb (fun o => negb (bare_single q o)) r = true).
    { destruct L as [L|L]; [now left|]. right. cbn [forallb] in L. apply andb_true_iff in L. apply L. }
    destruct (lint_call o) eqn:LC.
    - assert (Hd : d = false /\ dc = false /\ hist_synced ign_path cfg_path d dc r = true).
      { destruct o; cbn [lint_call] in LC; try discriminate; cbn [hist_synced] in HS; apply andb_true_iff in HS;
          destruct HS as [H1 H2]; apply andb_true_iff in H1; destruct H1 as [H1 H3]; apply negb_true_iff in H1; apply negb_true_iff in H3;
          repeat split; assumption. }
      destruct Hd as (Hd & Hdc & HSr). specialize (S Hd). specialize (SC Hdc).
      pose proof (step_lint_clean q st fs o LC Lo K C W S SC) as (K1 & C1 & P1 & E1).
      pose proof (step_fs V perfile perfile_fp rep_blocks rep_consts rep_st hard_excl ignored ign_path cfg_path in_dir q st fs o) as Hfs.
      destruct (step q (st, fs) o) as [[s1 f1] x]. cbn [fst snd] in K1, C1, P1, E1, Hfs. subst f1 x.
      assert (Ef : fs_step fs o = fs) by (destruct o; cbn [lint_call] in LC; try discriminate; reflexivity).
      rewrite Ef in *. specialize (IH d dc s1 fs Rr Lr SKr HSr K1 C1 (views_ok_frame q st s1 P1 W)).
      destruct (run q (s1, fs) r) as [w2 xs]. cbn [fst snd] in *.
      destruct P1 as (P1 & P2 & _). f_equal. apply IH; intros _; congruence.
    - destruct o as [p|ps|dd l|t|p c|p|p c| |]; cbn [lint_call] in LC; try discriminate.
      + cbn [OrchHist.step fs_step hist_synced] in *. unfold OrchHist.fresh at 1. cbn [OrchHist.step snd].
        match goal with |- context [run q (st, ?f) r] => specialize (IH (d || (p =? ign_path)) (dc || (p =? cfg_path)) st f Rr Lr SKr HS K C W); destruct (run q (st, f) r) as [w2 xs] end.
        cbn [fst snd] in *. f_equal. apply IH; intros Hd; apply orb_false_iff in Hd; destruct Hd as [Hd Ht].
        * rewrite (S Hd). symmetry. apply (fs_get_untouched ign_path fs (Edit p c)). exact Ht.
        * rewrite (SC Hd). symmetry. apply (fs_get_untouched cfg_path fs (Edit p c)). exact Ht.
      + cbn [OrchHist.step fs_step hist_synced] in *. unfold OrchHist.fresh at 1. cbn [OrchHist.step snd].
        match goal with |- context [run q (st, ?f) r] => specialize (IH (d || (p =? ign_path)) (dc || (p =? cfg_path)) st f Rr Lr SKr HS K C W); destruct (run q (st, f) r) as [w2 xs] end.
        cbn [fst snd] in *. f_equal. apply IH; intros Hd; apply orb_false_iff in Hd; destruct Hd as [Hd Ht].
        * rewrite (S Hd). symmetry. apply (fs_get_untouched ign_path fs (Delete p)). exact Ht.
        * rewrite (SC Hd). symmetry. apply (fs_get_untouched cfg_path fs (Delete p)). exact Ht.
      + cbn [OrchHist.step fs_step hist_synced] in *. unfold OrchHist.fresh at 1. cbn [OrchHist.step snd].
        match goal with |- context [run q (st, ?f) r] => specialize (IH (d || (p =? ign_path)) (dc || (p =? cfg_path)) st f Rr Lr SKr HS K C W); destruct (run q (st, f) r) as [w2 xs] end.
        cbn [fst snd] in *. f_equal. apply IH; intros Hd; apply orb_false_iff in Hd; destruct Hd as [Hd Ht].
        * rewrite (S Hd). symmetry. apply (fs_get_untouched ign_path fs (Add p c)). exact Ht.
        * rewrite (SC Hd). symmetry. apply (fs_get_untouched cfg_path fs (Add p c)). exact Ht.
      + assert (Rq : q_ignore_parser_reused q = false).
        { destruct R as [R|R]; [exact R|]. cbn [forallb is_new_linter negb andb] in R. discriminate R. }
        cbn [OrchHist.step fs_step hist_synced] in *. unfold OrchHist.fresh at 1. cbn [OrchHist.step snd]. rewrite Rq.
        specialize (IH false false (mk_init fs) fs Rr Lr SKr HS (clean_init _ _) (coherent_init ignored _ _) (views_ok_fresh q _ _)).
        destruct (run q (mk_init fs, fs) r) as [w2 xs]. cbn [fst snd] in *. f_equal. apply IH; intros _; reflexivity.
      + assert (Sq : q_fp_config_sticky q = false /\ q_dry_config_sticky q = false).
        { destruct SK as [SK|SK]; [exact SK|]. cbn [forallb is_reload negb andb] in SK. discriminate SK. }
        cbn [OrchHist.step fs_step hist_synced] in *. unfold OrchHist.fresh at 1. cbn [OrchHist.step snd].
        match goal with |- context [run q (?s, fs) r] =>
          assert (K' : clean s) by exact K; assert (C' : coherent s) by exact C;
          specialize (IH d false s fs Rr Lr SKr HS K' C' (views_ok_off q s (proj1 Sq) (proj2 Sq))); destruct (run q (s, fs) r) as [w2 xs] end.
        cbn [fst snd] in *. f_equal. apply IH; [exact S|intros _; reflexivity].
  Qed.

  (* every call of every admissible history returns what a fresh object returns on the file system as it is then *)
  Theorem history_independent q fs0 h :
    q_lintfile_leaves_evidence q = false -> q_ignore_parser_reused q = false ->
    q_fp_config_sticky q = false -> q_dry_config_sticky q = false ->
    hist_synced ign_path cfg_path false false h = true ->
    snd (run q (mk_init fs0, fs0) h) = fresh_run q fs0 h.
  Proof.
    intros L R SF SD HS.
    apply (run_clean q h false false (mk_init fs0) fs0 (or_introl R) (or_introl L) (or_introl (conj SF SD)) HS (clean_init _ _) (coherent_init ignored _ _) (views_ok_fresh q _ _));
      intros _; reflexivity.
  Qed.

  (* the same for EVERY quirk vector - in particular the one claimed for the current tree - on histories without bare
     single-file calls, without rebuilding the Linter in the same process and without reloading the configuration of a live object *)
  Theorem history_independent_faithful q fs0 h :
    forallb (fun o => negb (bare_single q o)) h = true -> forallb (fun o => negb (is_new_linter o)) h = true ->
    forallb (fun o => negb (is_reload o)) h = true ->
    hist_synced ign_path cfg_path false false h = true ->
    snd (run q (mk_init fs0, fs0) h) = fresh_run q fs0 h.
  Proof.
    intros L R SK HS.
    apply (run_clean q h false false (mk_init fs0) fs0 (or_intror R) (or_intror L) (or_intror SK) HS (clean_init _ _) (coherent_init ignored _ _) (views_ok_fresh q _ _));
      intros _; reflexivity.
  Qed.

  (* ---------- Theorem D: lint operations leave the file system alone ---------- *)
  Theorem lint_ops_preserve_fs q st fs o : lint_op o = true -> snd (fst (step q (st, fs) o)) = fs.
  Proof.
    intros H. rewrite (step_fs V perfile perfile_fp rep_blocks rep_consts rep_st hard_excl ignored ign_path cfg_path in_dir).
    destruct o; cbn [fs_step lint_op] in *; try reflexivity; discriminate.
  Qed.

  (* ---------- Theorem B: order independence ---------- *)
  Hypothesis rep_blocks_perm : forall k l l' a a', Permutation l l' -> Permutation a a' -> Permutation (rep_blocks k l a) (rep_blocks k l' a').
  Hypothesis rep_st_perm : forall l l', Permutation l l' -> Permutation (rep_st l) (rep_st l').

  Definition out_perm (a b : out V) : Prop :=
    Permutation (o_pf a) (o_pf b) /\ Permutation (o_blocks a) (o_blocks b)
    /\ Permutation (o_consts a) (o_consts b) /\ Permutation (o_st a) (o_st b).

  Definition st_perm (a b : ostate) : Prop :=
    Permutation (dry_rows a) (dry_rows b) /\ Permutation (dry_aux a) (dry_aux b)
    /\ Permutation (st_ev a) (st_ev b) /\ ppats a = ppats b /\ coherent a /\ coherent b
    /\ ocfg a = ocfg b /\ dry_cfg0 a = dry_cfg0 b /\ fp_cfg0 a = fp_cfg0 b.

  Inductive op_perm : op -> op -> Prop :=
  | OP_files ps ps' : Permutation ps ps' -> op_perm (LintFiles ps) (LintFiles ps')
  | OP_dir d l l' : Permutation l l' -> op_perm (LintDir d l) (LintDir d l')
  | OP_api d l l' : Permutation l l' -> op_perm (ApiLint (TDir d l)) (ApiLint (TDir d l'))
  | OP_same o : op_perm o o.

  Lemma out_perm_all a b : out_perm a b -> Permutation (out_all a) (out_all b).
  Proof. intros (H1 & H2 & H3 & H4). unfold out_all. repeat apply Permutation_app; assumption. Qed.

  Lemma out_perm_refl a : out_perm a a. Proof. repeat split; reflexivity. Qed.

  Lemma evid_perm pp k fs ps ps' : Permutation ps ps' -> Permutation (evid pp k fs ps) (evid pp k fs ps').
  Proof. intros H. unfold OrchHistBase.evid. now apply Permutation_flat_map. Qed.
  Lemma pfout_perm pp k kf fs ps ps' : Permutation ps ps' -> Permutation (pfout pp k kf fs ps) (pfout pp k kf fs ps').
  Proof. intros H. unfold OrchHistBase.pfout. now apply Permutation_flat_map. Qed.
  Lemma any_checked_perm pp ps ps' : Permutation ps ps' -> any_checked hard_excl ignored pp ps = any_checked hard_excl ignored pp ps'.
  Proof.
    unfold any_checked. induction 1 as [|x l l' _ IH|x y l|l l' l'' _ IH1 _ IH2]; cbn [existsb]; try congruence.
    destruct (accepted hard_excl ignored pp x), (accepted hard_excl ignored pp y); reflexivity.
  Qed.
  Lemma views_eq q a b : ocfg a = ocfg b -> dry_cfg0 a = dry_cfg0 b -> fp_cfg0 a = fp_cfg0 b -> fp_view q a = fp_view q b /\ dry_view q a = dry_view q b.
  Proof. intros A B C. unfold fp_view, dry_view. rewrite A, B, C. split; reflexivity. Qed.

  Lemma run_entry_perm q entry fs st st' ps ps' :
    st_perm st st' -> Permutation ps ps' ->
    let r := run_entry q entry fs st ps in let r' := run_entry q entry fs st' ps' in
    out_perm (snd r) (snd r') /\ st_perm (fst r) (fst r').
  Proof.
    intros (P1 & P2 & P3 & PP & C & C' & PK & PD & PF) P. cbn zeta.
    pose proof (evid_perm (ppats st) (ocfg st) fs ps ps' P) as Pe.
    pose proof (pfout_perm (ppats st) (ocfg st) (fp_view q st) fs ps ps' P) as Pp.
    destruct (views_eq q st st' PK PD PF) as (VF & VD).
    pose proof (RCF q entry fs st ps C) as (D1 & D2). pose proof (RCF q entry fs st' ps' C') as (D1' & D2').
    assert (ED : dry_cfg0 (fst (run_entry q entry fs st ps)) = dry_cfg0 (fst (run_entry q entry fs st' ps'))).
    { cbn zeta in *. rewrite D1, D1', <- PP, <- PK, <- PD. unfold cfg0_after. now rewrite (any_checked_perm (ppats st) ps ps' P). }
    assert (EF : fp_cfg0 (fst (run_entry q entry fs st ps)) = fp_cfg0 (fst (run_entry q entry fs st' ps'))).
    { cbn zeta in *. rewrite D2, D2', <- PP, <- PK, <- PF. unfold cfg0_after. now rewrite (any_checked_perm (ppats st) ps ps' P). }
    destruct (finalizes entry) eqn:F.
    - pose proof (REF q entry fs st ps F C) as (H1 & H2 & H3 & H4 & H5 & H6).
      pose proof (REF q entry fs st' ps' F C') as (K1 & K2 & K3 & K4 & K5 & K6).
      cbn zeta in *. rewrite <- PP, <- PK, <- VF, <- VD in *. rewrite H1, K1. split.
      + unfold out_perm. cbn [o_pf o_blocks o_consts o_st]. rewrite !gen_consts_view.
        split; [exact Pp|]. split; [apply rep_blocks_perm; now apply Permutation_app|].
        split; [|apply rep_st_perm; now apply Permutation_app].
        rewrite (fv_sort_perm_eq (dry_aux st ++ evid (ppats st) (ocfg st) fs ps) (dry_aux st' ++ evid (ppats st) (ocfg st) fs ps')); [reflexivity|now apply Permutation_app].
      + destruct H6 as (F1 & F2 & _). destruct K6 as (G1 & G2 & _).
        unfold st_perm. rewrite H2, H3, H4, K2, K3, K4, F1, F2, G1, G2, ED, EF.
        split; [destruct (rows_kept q); [now apply Permutation_app|constructor]|]. repeat split; try constructor; try assumption; congruence.
    - pose proof (REP q entry fs st ps F C) as (H1 & H2 & H3 & H4 & H5 & H6).
      pose proof (REP q entry fs st' ps' F C') as (K1 & K2 & K3 & K4 & K5 & K6).
      cbn zeta in *. rewrite <- PP, <- PK, <- VF in *. rewrite H1, K1. split.
      + unfold out_perm. cbn [o_pf o_blocks o_consts o_st]. repeat split; try constructor. exact Pp.
      + destruct H6 as (F1 & F2 & _). destruct K6 as (G1 & G2 & _).
        unfold st_perm. rewrite H2, H3, H4, K2, K3, K4, F1, F2, G1, G2, ED, EF. repeat split; try assumption; try congruence; now apply Permutation_app.
  Qed.

  Lemma run_single_perm q entry fs st st' p :
    st_perm st st' ->
    let r := run_single q entry fs st p in let r' := run_single q entry fs st' p in
    out_perm (snd r) (snd r') /\ st_perm (fst r) (fst r').
  Proof.
    intros P. cbn zeta. pose proof (run_entry_perm q entry fs st st' [p] [p] P (Permutation_refl _)) as (Ho & Hs).
    unfold OrchHist.run_single. destruct (run_entry q entry fs st [p]) as [s1 o1]. destruct (run_entry q entry fs st' [p]) as [s1' o1'].
    cbn [fst snd] in Ho, Hs. destruct (finalizes entry); [split; assumption|].
    destruct (q_lintfile_leaves_evidence q); cbn [fst snd]; [split; assumption|]. split; [exact Ho|].
    destruct P as (P1 & P2 & P3 & _). destruct Hs as (_ & _ & _ & PP1 & C1 & C1' & Q1 & Q2 & Q3).
    unfold st_perm, keep_evidence. cbn [dry_rows dry_aux st_ev icache ppats ocfg dry_cfg0 fp_cfg0]. repeat split; assumption.
  Qed.

  Lemma step_perm q st st' fs o o' :
    st_perm st st' -> op_perm o o' ->
    let r := step q (st, fs) o in let r' := step q (st', fs) o' in
    out_perm (snd r) (snd r') /\ st_perm (fst (fst r)) (fst (fst r')) /\ snd (fst r) = snd (fst r').
  Proof.
    intros P X. cbn zeta.
    assert (ENT : forall e a b, Permutation a b ->
              let r := run_entry q e fs st a in let r' := run_entry q e fs st' b in
              out_perm (snd (fst r, fs, snd r)) (snd (fst r', fs, snd r'))
              /\ st_perm (fst (fst (fst r, fs, snd r))) (fst (fst (fst r', fs, snd r')))
              /\ snd (fst (fst r, fs, snd r)) = snd (fst (fst r', fs, snd r'))).
    { intros e a b Hab. cbn zeta. pose proof (run_entry_perm q e fs st st' a b P Hab) as (Ho & Hs).
      cbn [fst snd]. split; [exact Ho|split; [exact Hs|reflexivity]]. }
    assert (SGL : forall e a,
              let r := run_single q e fs st a in let r' := run_single q e fs st' a in
              out_perm (snd (fst r, fs, snd r)) (snd (fst r', fs, snd r'))
              /\ st_perm (fst (fst (fst r, fs, snd r))) (fst (fst (fst r', fs, snd r')))
              /\ snd (fst (fst r, fs, snd r)) = snd (fst (fst r', fs, snd r'))).
    { intros e a. cbn zeta. pose proof (run_single_perm q e fs st st' a P) as (Ho & Hs).
      cbn [fst snd]. split; [exact Ho|split; [exact Hs|reflexivity]]. }
    assert (TRIV : forall f : fsys, out_perm (snd (st, f, @out_nil V)) (snd (st', f, @out_nil V))
              /\ st_perm (fst (fst (st, f, @out_nil V))) (fst (fst (st', f, @out_nil V)))
              /\ snd (fst (st, f, @out_nil V)) = snd (fst (st', f, @out_nil V))).
    { intros f. cbn [fst snd]. split; [apply out_perm_refl|]. split; [exact P|reflexivity]. }
    destruct X as [ps ps' Hp|d l l' Hp|d l l' Hp|o].
    - cbn [OrchHist.step]. specialize (ENT "lint_files" ps ps' Hp). cbn zeta in ENT.
      destruct (run_entry q "lint_files" fs st ps); destruct (run_entry q "lint_files" fs st' ps'). exact ENT.
    - cbn [OrchHist.step]. specialize (ENT "lint_directory" _ _ (filter_perm (fun p => in_dir d p && match fs_get fs p with Some _ => true | None => false end) l l' Hp)). cbn zeta in ENT. unfold walk.
      match goal with |- context [run_entry q ?e fs st ?a] => destruct (run_entry q e fs st a) end.
      match goal with |- context [run_entry q ?e fs st' ?a] => destruct (run_entry q e fs st' a) end. exact ENT.
    - cbn [OrchHist.step]. specialize (ENT api_dir_entry _ _ (filter_perm (fun p => in_dir d p && match fs_get fs p with Some _ => true | None => false end) l l' Hp)). cbn zeta in ENT. unfold walk.
      match goal with |- context [run_entry q ?e fs st ?a] => destruct (run_entry q e fs st a) end.
      match goal with |- context [run_entry q ?e fs st' ?a] => destruct (run_entry q e fs st' a) end. exact ENT.
    - destruct o as [p|ps|d l|[p|d l]|p c|p|p c| |]; cbn [OrchHist.step].
      + specialize (SGL "lint_file" p). cbn zeta in SGL.
        destruct (run_single q "lint_file" fs st p); destruct (run_single q "lint_file" fs st' p). exact SGL.
      + specialize (ENT "lint_files" ps ps (Permutation_refl _)). cbn zeta in ENT.
        destruct (run_entry q "lint_files" fs st ps); destruct (run_entry q "lint_files" fs st' ps). exact ENT.
      + specialize (ENT "lint_directory" (walk in_dir fs d l) _ (Permutation_refl _)). cbn zeta in ENT.
        destruct (run_entry q "lint_directory" fs st _); destruct (run_entry q "lint_directory" fs st' _). exact ENT.
      + destruct (fs_get fs p); [|apply TRIV].
        specialize (SGL (api_file_entry q) p). cbn zeta in SGL.
        destruct (run_single q (api_file_entry q) fs st p); destruct (run_single q (api_file_entry q) fs st' p). exact SGL.
      + specialize (ENT api_dir_entry (walk in_dir fs d l) _ (Permutation_refl _)). cbn zeta in ENT.
        destruct (run_entry q api_dir_entry fs st _); destruct (run_entry q api_dir_entry fs st' _). exact ENT.
      + apply TRIV.
      + apply TRIV.
      + apply TRIV.
      + cbn [fst snd]. split; [apply out_perm_refl|]. split; [|reflexivity].
        destruct P as (_ & _ & _ & PP & C & C' & _). destruct (q_ignore_parser_reused q).
        * unfold st_perm. cbn [dry_rows dry_aux st_ev ppats icache ocfg dry_cfg0 fp_cfg0]. repeat split; try constructor; assumption.
        * unfold st_perm. repeat split; try reflexivity; apply coherent_init.
      + cbn [fst snd]. split; [apply out_perm_refl|]. split; [|reflexivity].
        destruct P as (P1 & P2 & P3 & PP & C & C' & PK & PD & PF).
        unfold st_perm. cbn [dry_rows dry_aux st_ev ppats icache ocfg dry_cfg0 fp_cfg0]. repeat split; assumption.
  Qed.

  Lemma run_perm q h : forall h' st st' fs,
    st_perm st st' -> Forall2 op_perm h h' ->
    Forall2 out_perm (snd (run q (st, fs) h)) (snd (run q (st', fs) h')).
  Proof.
    induction h as [|o r IH]; intros h' st st' fs P X; inversion X as [|o1 o' r1 r' Xo Xr]; subst; cbn [OrchHist.run]; [constructor|].
    pose proof (step_perm q st st' fs o o' P Xo) as (Ho & Hs & Hf).
    destruct (step q (st, fs) o) as [[s1 f1] x]. destruct (step q (st', fs) o') as [[s1' f1'] x']. cbn [fst snd] in Ho, Hs, Hf. subst f1'.
    specialize (IH r' s1 s1' f1 Hs Xr). destruct (run q (s1, f1) r) as [w2 xs]. destruct (run q (s1', f1) r') as [w2' xs'].
    cbn [fst snd] in IH |- *. constructor; assumption.
  Qed.

  Lemma st_perm_init pp oc : st_perm (init_st pp oc) (init_st pp oc).
  Proof. unfold st_perm. cbn [init_st dry_rows dry_aux st_ev icache ppats ocfg dry_cfg0 fp_cfg0]. repeat split; try constructor; apply coherent_init. Qed.

  (* permuting the file list of any call, and the order in which directories are walked, permutes the results *)
  Theorem order_independent q fs0 h h' :
    Forall2 op_perm h h' ->
    Forall2 out_perm (snd (run q (mk_init fs0, fs0) h)) (snd (run q (mk_init fs0, fs0) h')).
  Proof. intros X. apply run_perm; [apply st_perm_init|exact X]. Qed.

  (* C08 as a whole: with the flags off, every call of every admissible history, in whatever order its files are
     passed or discovered, returns a permutation of what a fresh object returns for the canonical order *)
  Theorem results_depend_on_current_state_only q fs0 h h' :
    q_lintfile_leaves_evidence q = false -> q_ignore_parser_reused q = false ->
    q_fp_config_sticky q = false -> q_dry_config_sticky q = false -> hist_synced ign_path cfg_path false false h = true ->
    Forall2 op_perm h h' ->
    Forall2 out_perm (snd (run q (mk_init fs0, fs0) h')) (fresh_run q fs0 h).
  Proof.
    intros L R SF SD HS X. rewrite <- (history_independent q fs0 h L R SF SD HS).
    apply run_perm; [apply st_perm_init|].
    clear -X. induction X; constructor; [|assumption].
    match goal with H : op_perm _ _ |- _ => destruct H; constructor; now apply Permutation_sym end.
  Qed.
End Main.
