(* Proofs/OrchHistMain.v — history independence, order independence, confinement of the listed defects,
   and freedom from side effects of the model of a long-lived Orchestrator / Linter (C08). *)
From Coq Require Import Permutation.
From TL Require Import Lib.Base Lib.GenTypes Gen.OrchHistGen Model.OrchHist Proofs.OrchHistBase.

Definition clean (st : ostate) : Prop := dry_rows st = [] /\ dry_aux st = [] /\ st_ev st = [].
Definition semi_clean (st : ostate) : Prop := dry_aux st = [] /\ st_ev st = [].

(* operations that run a single file through an entry point that does not finalize *)
Definition bare_single (q : oquirks) (o : op) : bool :=
  match o with
  | LintFile _ => true
  | ApiLint (TFile _) => q_api_file_no_finalize q
  | _ => false
  end.
(* operations that end with the rules' finalize() *)
Definition finalizing_op (q : oquirks) (o : op) : bool :=
  match o with
  | LintFile _ => false
  | ApiLint (TFile _) => finalizes (api_file_entry q)
  | Edit _ _ | Delete _ | Add _ _ => false
  | _ => true
  end.
Definition lint_op (o : op) : bool :=
  match o with Edit _ _ | Delete _ | Add _ _ => false | _ => true end.

Lemma clean_init : clean init. Proof. repeat split. Qed.

Lemma filter_perm {A} (f : A -> bool) l l' : Permutation l l' -> Permutation (filter f l) (filter f l').
Proof.
  induction 1 as [|x l l' _ IH|x y l|l l' l'' _ IH1 _ IH2]; cbn [filter].
  - constructor.
  - destruct (f x); [now constructor|exact IH].
  - destruct (f x), (f y); try reflexivity. apply perm_swap.
  - now transitivity (filter f l').
Qed.

Section Main.
  Variable V : Type.
  Variable perfile : path -> option content -> list V.
  Variable rep_blocks : list fv -> list fv -> list V.
  Variable rep_consts rep_st : list fv -> list V.
  Variable hard_excl ignored : path -> bool.
  Variable in_dir : nat -> path -> bool.

  Notation run_entry := (run_entry V perfile rep_blocks rep_consts rep_st hard_excl ignored).
  Notation run_single := (run_single V perfile rep_blocks rep_consts rep_st hard_excl ignored).
  Notation step := (step V perfile rep_blocks rep_consts rep_st hard_excl ignored in_dir).
  Notation run := (run V perfile rep_blocks rep_consts rep_st hard_excl ignored in_dir).
  Notation fresh := (fresh V perfile rep_blocks rep_consts rep_st hard_excl ignored in_dir).
  Notation coherent := (coherent ignored).
  Notation evid := (evid hard_excl ignored).
  Notation pfout := (pfout V perfile hard_excl ignored).

  (* what a fresh object returns after each prefix of a history *)
  Fixpoint fresh_run (q : oquirks) (fs : fsys) (h : list op) : list (out V) :=
    match h with [] => [] | o :: r => fresh q fs o :: fresh_run q (fs_step fs o) r end.

  (* ---------- one entry-point call from an arbitrary state ---------- *)
  Lemma run_single_char q entry fs st p : coherent (icache st) ->
    let r := run_single q entry fs st p in
    coherent (icache (fst r)) /\
    (finalizes entry = true -> r = run_entry q entry fs st [p]) /\
    (finalizes entry = false ->
       snd r = Build_out (pfout fs [p]) [] [] [] /\
       dry_rows (fst r) = (if q_lintfile_leaves_evidence q then dry_rows st ++ evid fs [p] else dry_rows st) /\
       dry_aux (fst r) = (if q_lintfile_leaves_evidence q then dry_aux st ++ evid fs [p] else dry_aux st) /\
       st_ev (fst r) = (if q_lintfile_leaves_evidence q then st_ev st ++ evid fs [p] else st_ev st)).
  Proof.
    intros C. unfold OrchHist.run_single. destruct (finalizes entry) eqn:F.
    - pose proof (run_entry_finalizing V perfile rep_blocks rep_consts rep_st hard_excl ignored q entry fs st [p] F C) as (_ & _ & _ & _ & H5).
      destruct (run_entry q entry fs st [p]) as [s1 o]. cbn [fst snd] in *. split; [exact H5|]. split; [reflexivity|discriminate].
    - pose proof (run_entry_plain V perfile rep_blocks rep_consts rep_st hard_excl ignored q entry fs st [p] F C) as (H1 & H2 & H3 & H4 & H5).
      destruct (run_entry q entry fs st [p]) as [s1 o]. cbn [fst snd] in *.
      destruct (q_lintfile_leaves_evidence q); cbn [fst snd keep_evidence dry_rows dry_aux st_ev icache];
        (split; [exact H5|]); (split; [discriminate|]); intros _; repeat split; assumption.
  Qed.

  (* ---------- Theorem A: history independence ---------- *)
  Lemma step_clean q st fs o :
    q_dry_keeps_storage q = false ->
    (q_lintfile_leaves_evidence q = false \/ bare_single q o = false) ->
    clean st -> coherent (icache st) ->
    let r := step q (st, fs) o in
    clean (fst (fst r)) /\ coherent (icache (fst (fst r))) /\ snd r = fresh q fs o.
  Proof.
    intros D L (R1 & R2 & R3) C. unfold OrchHist.fresh.
    assert (Ci : coherent (icache init)) by apply coherent_nil.
    assert (FIN : forall entry ps, finalizes entry = true ->
               let r := run_entry q entry fs st ps in
               clean (fst r) /\ coherent (icache (fst r)) /\ snd r = snd (run_entry q entry fs init ps)).
    { intros entry ps F.
      pose proof (run_entry_finalizing V perfile rep_blocks rep_consts rep_st hard_excl ignored q entry fs st ps F C) as (H1 & H2 & H3 & H4 & H5).
      pose proof (run_entry_finalizing V perfile rep_blocks rep_consts rep_st hard_excl ignored q entry fs init ps F Ci) as (K1 & _).
      cbn zeta. rewrite H1, K1, R1, R2, R3. cbn [init dry_rows dry_aux st_ev app].
      split; [|split; [exact H5|reflexivity]]. unfold clean. rewrite H2, H3, H4, (rows_reset_when_off q D). repeat split. }
    assert (SGL : forall entry p,
               (q_lintfile_leaves_evidence q = false \/ finalizes entry = true) ->
               let r := run_single q entry fs st p in
               clean (fst r) /\ coherent (icache (fst r)) /\ snd r = snd (run_single q entry fs init p)).
    { intros entry p Hl.
      pose proof (run_single_char q entry fs st p C) as (H0 & Hf & Hp).
      pose proof (run_single_char q entry fs init p Ci) as (_ & Kf & Kp).
      cbn zeta. destruct (finalizes entry) eqn:F.
      - rewrite (Hf eq_refl), (Kf eq_refl). rewrite <- F in *. apply FIN. now rewrite F.
      - destruct Hl as [Hl|Hl]; [|discriminate].
        destruct (Hp eq_refl) as (H1 & H2 & H3 & H4). destruct (Kp eq_refl) as (K1 & _).
        rewrite H1, K1. split; [|split; [exact H0|reflexivity]].
        unfold clean. rewrite H2, H3, H4, Hl. repeat split; assumption. }
    destruct o as [p|ps|d l|[p|d l]|p c|p|p c]; cbn [OrchHist.step bare_single] in *.
    - specialize (SGL "lint_file" p). destruct (run_single q "lint_file" fs st p) as [s r].
      destruct (run_single q "lint_file" fs init p) as [s' r']. cbn [fst snd] in *. apply SGL.
      destruct L as [L|L]; [now left|discriminate].
    - specialize (FIN "lint_files" ps gen_lint_files_finalizes). destruct (run_entry q "lint_files" fs st ps) as [s r].
      destruct (run_entry q "lint_files" fs init ps) as [s' r']. exact FIN.
    - specialize (FIN "lint_directory" (walk in_dir fs d l) gen_lint_directory_finalizes).
      destruct (run_entry q "lint_directory" fs st _) as [s r]. destruct (run_entry q "lint_directory" fs init _) as [s' r']. exact FIN.
    - destruct (fs_get fs p).
      + specialize (SGL (api_file_entry q) p). destruct (run_single q (api_file_entry q) fs st p) as [s r].
        destruct (run_single q (api_file_entry q) fs init p) as [s' r']. cbn [fst snd] in *. apply SGL.
        destruct L as [L|L]; [now left|]. right. rewrite (api_entry_when_off q L). reflexivity.
      + cbn [fst snd]. repeat split; assumption.
    - specialize (FIN api_dir_entry (walk in_dir fs d l)). rewrite gen_api_dir_entry in *. specialize (FIN gen_lint_directory_finalizes).
      destruct (run_entry q "lint_directory" fs st _) as [s r]. destruct (run_entry q "lint_directory" fs init _) as [s' r']. exact FIN.
    - cbn [fst snd]. repeat split; assumption.
    - cbn [fst snd]. repeat split; assumption.
    - cbn [fst snd]. repeat split; assumption.
  Qed.

  Lemma run_clean q h : forall st fs,
    q_dry_keeps_storage q = false ->
    (q_lintfile_leaves_evidence q = false \/ forallb (fun o => negb (bare_single q o)) h = true) ->
    clean st -> coherent (icache st) ->
    let r := run q (st, fs) h in
    clean (fst (fst r)) /\ coherent (icache (fst (fst r))) /\ snd r = fresh_run q fs h.
  Proof.
    induction h as [|o r IH]; intros st fs D L K C; cbn [OrchHist.run fresh_run].
    - cbn [fst snd]. repeat split; try apply K. exact C.
    - assert (Lo : q_lintfile_leaves_evidence q = false \/ bare_single q o = false).
      { destruct L as [L|L]; [now left|]. right. cbn [forallb] in L. apply andb_true_iff in L. destruct L as [L _].
        now apply negb_true_iff in L. }
      assert (Lr : q_lintfile_leaves_evidence q = false \/ forallb (fun o => negb (bare_single q o)) r = true).
      { destruct L as [L|L]; [now left|]. right. cbn [forallb] in L. apply andb_true_iff in L. apply L. }
      pose proof (step_clean q st fs o D Lo K C) as (K1 & C1 & E1).
      pose proof (step_fs V perfile rep_blocks rep_consts rep_st hard_excl ignored in_dir q st fs o) as Hfs.
      destruct (step q (st, fs) o) as [[s1 f1] x]. cbn [fst snd] in K1, C1, E1, Hfs. subst f1 x.
      specialize (IH s1 (fs_step fs o) D Lr K1 C1). destruct (run q (s1, fs_step fs o) r) as [w2 xs].
      cbn [fst snd] in IH |- *. destruct IH as (K2 & C2 & E2). rewrite E2. repeat split; try apply K2. exact C2.
  Qed.

  (* every call of every history returns what a fresh object returns on the file system as it is then *)
  Theorem history_independent q fs0 h :
    q_dry_keeps_storage q = false -> q_lintfile_leaves_evidence q = false ->
    snd (run q (init, fs0) h) = fresh_run q fs0 h.
  Proof.
    intros D L. apply (run_clean q h init fs0 D (or_introl L) clean_init (coherent_nil ignored)).
  Qed.

  (* the same without bare single-file calls: only the DRY storage has to be reset *)
  Theorem history_independent_batch q fs0 h :
    q_dry_keeps_storage q = false -> forallb (fun o => negb (bare_single q o)) h = true ->
    snd (run q (init, fs0) h) = fresh_run q fs0 h.
  Proof.
    intros D L. apply (run_clean q h init fs0 D (or_intror L) clean_init (coherent_nil ignored)).
  Qed.

  (* "on its next call exactly what a fresh object would return" *)
  Corollary next_call_as_fresh q fs0 h o :
    q_dry_keeps_storage q = false -> q_lintfile_leaves_evidence q = false ->
    snd (step q (fst (run q (init, fs0) h)) o) = fresh q (fs_after fs0 h) o.
  Proof.
    intros D L.
    pose proof (run_clean q h init fs0 D (or_introl L) clean_init (coherent_nil ignored)) as (K & C & _).
    pose proof (run_fs V perfile rep_blocks rep_consts rep_st hard_excl ignored in_dir q h init fs0) as Hfs.
    destruct (run q (init, fs0) h) as [[s f] xs]. cbn [fst snd] in *. subst f.
    apply (step_clean q s (fs_after fs0 h) o D (or_introl L) K C).
  Qed.

  (* ---------- Theorem C: confinement — with only the DRY storage surviving, everything but the
     duplicate-code part of every call is what a fresh object returns ---------- *)
  Lemma step_semi q st fs o :
    q_lintfile_leaves_evidence q = false -> semi_clean st -> coherent (icache st) ->
    let r := step q (st, fs) o in let f := fresh q fs o in
    semi_clean (fst (fst r)) /\ coherent (icache (fst (fst r))) /\
    o_pf (snd r) = o_pf f /\ o_consts (snd r) = o_consts f /\ o_st (snd r) = o_st f /\
    o_blocks (snd r) = (if finalizing_op q o && negb (match o with ApiLint (TFile p) => match fs_get fs p with None => true | _ => false end | _ => false end)
                        then let e := evid fs (match o with
                                               | LintFiles ps => ps | LintDir d l => walk in_dir fs d l
                                               | ApiLint (TDir d l) => walk in_dir fs d l
                                               | ApiLint (TFile p) => [p] | LintFile p => [p] | _ => [] end) in
                             rep_blocks (dry_rows st ++ e) e
                        else []).
  Proof.
    intros L (R2 & R3) C. unfold OrchHist.fresh.
    assert (Ci : coherent (icache init)) by apply coherent_nil.
    assert (FIN : forall entry ps, finalizes entry = true ->
               let r := run_entry q entry fs st ps in let f := snd (run_entry q entry fs init ps) in
               semi_clean (fst r) /\ coherent (icache (fst r)) /\ o_pf (snd r) = o_pf f /\ o_consts (snd r) = o_consts f
               /\ o_st (snd r) = o_st f /\ o_blocks (snd r) = rep_blocks (dry_rows st ++ evid fs ps) (evid fs ps)).
    { intros entry ps F.
      pose proof (run_entry_finalizing V perfile rep_blocks rep_consts rep_st hard_excl ignored q entry fs st ps F C) as (H1 & H2 & H3 & H4 & H5).
      pose proof (run_entry_finalizing V perfile rep_blocks rep_consts rep_st hard_excl ignored q entry fs init ps F Ci) as (K1 & _).
      cbn zeta. rewrite H1, K1, R2, R3. cbn [init dry_rows dry_aux st_ev app o_pf o_blocks o_consts o_st].
      unfold semi_clean. rewrite H3, H4. repeat split. exact H5. }
    assert (SGL : forall entry p,
               let r := run_single q entry fs st p in let f := snd (run_single q entry fs init p) in
               semi_clean (fst r) /\ coherent (icache (fst r)) /\ o_pf (snd r) = o_pf f /\ o_consts (snd r) = o_consts f
               /\ o_st (snd r) = o_st f /\ o_blocks (snd r) = (if finalizes entry then rep_blocks (dry_rows st ++ evid fs [p]) (evid fs [p]) else [])).
    { intros entry p.
      pose proof (run_single_char q entry fs st p C) as (H0 & Hf & Hp).
      pose proof (run_single_char q entry fs init p Ci) as (_ & Kf & Kp).
      cbn zeta. destruct (finalizes entry) eqn:F.
      - rewrite (Hf eq_refl), (Kf eq_refl). apply FIN. exact F.
      - destruct (Hp eq_refl) as (H1 & H2 & H3 & H4). destruct (Kp eq_refl) as (K1 & _).
        rewrite H1, K1. cbn [o_pf o_blocks o_consts o_st]. unfold semi_clean. rewrite H3, H4, L. repeat split; assumption. }
    destruct o as [p|ps|d l|[p|d l]|p c|p|p c]; cbn [OrchHist.step finalizing_op andb negb] in *.
    - specialize (SGL "lint_file" p). rewrite gen_lint_file_no_finalize in SGL.
      destruct (run_single q "lint_file" fs st p) as [s r]. destruct (run_single q "lint_file" fs init p) as [s' r']. exact SGL.
    - specialize (FIN "lint_files" ps gen_lint_files_finalizes). destruct (run_entry q "lint_files" fs st ps) as [s r].
      destruct (run_entry q "lint_files" fs init ps) as [s' r']. exact FIN.
    - specialize (FIN "lint_directory" (walk in_dir fs d l) gen_lint_directory_finalizes).
      destruct (run_entry q "lint_directory" fs st _) as [s r]. destruct (run_entry q "lint_directory" fs init _) as [s' r']. exact FIN.
    - destruct (fs_get fs p).
      + specialize (SGL (api_file_entry q) p). rewrite andb_true_r.
        destruct (run_single q (api_file_entry q) fs st p) as [s r]; destruct (run_single q (api_file_entry q) fs init p) as [s' r'].
        exact SGL.
      + cbn [fst snd out_nil o_pf o_blocks o_consts o_st]. rewrite andb_false_r. repeat split; assumption.
    - specialize (FIN api_dir_entry (walk in_dir fs d l)). rewrite gen_api_dir_entry in *. specialize (FIN gen_lint_directory_finalizes).
      destruct (run_entry q "lint_directory" fs st _) as [s r]. destruct (run_entry q "lint_directory" fs init _) as [s' r']. exact FIN.
    - cbn [fst snd out_nil o_pf o_blocks o_consts o_st]. repeat split; assumption.
    - cbn [fst snd out_nil o_pf o_blocks o_consts o_st]. repeat split; assumption.
    - cbn [fst snd out_nil o_pf o_blocks o_consts o_st]. repeat split; assumption.
  Qed.

  Definition same_but_blocks (a b : out V) : Prop := o_pf a = o_pf b /\ o_consts a = o_consts b /\ o_st a = o_st b.

  Lemma run_semi q h : forall st fs,
    q_lintfile_leaves_evidence q = false -> semi_clean st -> coherent (icache st) ->
    Forall2 same_but_blocks (snd (run q (st, fs) h)) (fresh_run q fs h).
  Proof.
    induction h as [|o r IH]; intros st fs L K C; cbn [OrchHist.run fresh_run]; [constructor|].
    pose proof (step_semi q st fs o L K C) as (K1 & C1 & E1 & E2 & E3 & _).
    pose proof (step_fs V perfile rep_blocks rep_consts rep_st hard_excl ignored in_dir q st fs o) as Hfs.
    destruct (step q (st, fs) o) as [[s1 f1] x]. cbn [fst snd] in K1, C1, E1, E2, E3, Hfs. subst f1.
    specialize (IH s1 (fs_step fs o) L K1 C1). destruct (run q (s1, fs_step fs o) r) as [w2 xs].
    cbn [fst snd] in IH |- *. constructor; [|exact IH]. repeat split; assumption.
  Qed.

  Theorem stale_state_confined_to_blocks q fs0 h :
    q_lintfile_leaves_evidence q = false ->
    Forall2 same_but_blocks (snd (run q (init, fs0) h)) (fresh_run q fs0 h).
  Proof. intros L. apply run_semi; [exact L|split; reflexivity|apply coherent_nil]. Qed.

  (* ---------- Theorem D: lint operations leave the file system alone ---------- *)
  Theorem lint_ops_preserve_fs q st fs o : lint_op o = true -> snd (fst (step q (st, fs) o)) = fs.
  Proof.
    intros H. rewrite (step_fs V perfile rep_blocks rep_consts rep_st hard_excl ignored in_dir).
    destruct o; cbn [fs_step lint_op] in *; try reflexivity; discriminate.
  Qed.

  (* ---------- Theorem B: order independence ---------- *)
  Hypothesis rep_blocks_perm : forall l l' a a', Permutation l l' -> Permutation a a' -> Permutation (rep_blocks l a) (rep_blocks l' a').
  Hypothesis rep_st_perm : forall l l', Permutation l l' -> Permutation (rep_st l) (rep_st l').

  Definition out_perm (a b : out V) : Prop :=
    Permutation (o_pf a) (o_pf b) /\ Permutation (o_blocks a) (o_blocks b)
    /\ Permutation (o_consts a) (o_consts b) /\ Permutation (o_st a) (o_st b).

  Definition st_perm (a b : ostate) : Prop :=
    Permutation (dry_rows a) (dry_rows b) /\ Permutation (dry_aux a) (dry_aux b)
    /\ Permutation (st_ev a) (st_ev b) /\ coherent (icache a) /\ coherent (icache b).

  Inductive op_perm : op -> op -> Prop :=
  | OP_files ps ps' : Permutation ps ps' -> op_perm (LintFiles ps) (LintFiles ps')
  | OP_dir d l l' : Permutation l l' -> op_perm (LintDir d l) (LintDir d l')
  | OP_api d l l' : Permutation l l' -> op_perm (ApiLint (TDir d l)) (ApiLint (TDir d l'))
  | OP_same o : op_perm o o.

  Lemma out_perm_all a b : out_perm a b -> Permutation (out_all a) (out_all b).
  Proof. intros (H1 & H2 & H3 & H4). unfold out_all. repeat apply Permutation_app; assumption. Qed.

  Lemma out_perm_refl a : out_perm a a. Proof. repeat split; reflexivity. Qed.

  Lemma evid_perm fs ps ps' : Permutation ps ps' -> Permutation (evid fs ps) (evid fs ps').
  Proof. intros H. unfold OrchHistBase.evid. now apply Permutation_flat_map. Qed.
  Lemma pfout_perm fs ps ps' : Permutation ps ps' -> Permutation (pfout fs ps) (pfout fs ps').
  Proof. intros H. unfold OrchHistBase.pfout. now apply Permutation_flat_map. Qed.

  Lemma run_entry_perm q entry fs st st' ps ps' :
    q_consts_in_processing_order q = false -> st_perm st st' -> Permutation ps ps' ->
    let r := run_entry q entry fs st ps in let r' := run_entry q entry fs st' ps' in
    out_perm (snd r) (snd r') /\ st_perm (fst r) (fst r').
  Proof.
    intros O (P1 & P2 & P3 & C & C') P. cbn zeta.
    pose proof (evid_perm fs ps ps' P) as Pe. pose proof (pfout_perm fs ps ps' P) as Pp.
    destruct (finalizes entry) eqn:F.
    - pose proof (run_entry_finalizing V perfile rep_blocks rep_consts rep_st hard_excl ignored q entry fs st ps F C) as (H1 & H2 & H3 & H4 & H5).
      pose proof (run_entry_finalizing V perfile rep_blocks rep_consts rep_st hard_excl ignored q entry fs st' ps' F C') as (K1 & K2 & K3 & K4 & K5).
      rewrite H1, K1. split.
      + unfold out_perm. cbn [o_pf o_blocks o_consts o_st]. unfold consts_view. rewrite O. cbn [andb].
        split; [exact Pp|]. split; [apply rep_blocks_perm; now apply Permutation_app|].
        split; [|apply rep_st_perm; now apply Permutation_app].
        rewrite (fv_sort_perm_eq (dry_aux st ++ evid fs ps) (dry_aux st' ++ evid fs ps')); [reflexivity|now apply Permutation_app].
      + unfold st_perm. rewrite H2, H3, H4, K2, K3, K4.
        split; [destruct (rows_kept q); [now apply Permutation_app|constructor]|]. repeat split; try constructor; assumption.
    - pose proof (run_entry_plain V perfile rep_blocks rep_consts rep_st hard_excl ignored q entry fs st ps F C) as (H1 & H2 & H3 & H4 & H5).
      pose proof (run_entry_plain V perfile rep_blocks rep_consts rep_st hard_excl ignored q entry fs st' ps' F C') as (K1 & K2 & K3 & K4 & K5).
      rewrite H1, K1. split.
      + unfold out_perm. cbn [o_pf o_blocks o_consts o_st]. repeat split; try constructor. exact Pp.
      + unfold st_perm. rewrite H2, H3, H4, K2, K3, K4. repeat split; try assumption; now apply Permutation_app.
  Qed.

  Lemma run_single_perm q entry fs st st' p :
    q_consts_in_processing_order q = false -> st_perm st st' ->
    let r := run_single q entry fs st p in let r' := run_single q entry fs st' p in
    out_perm (snd r) (snd r') /\ st_perm (fst r) (fst r').
  Proof.
    intros O P. cbn zeta. pose proof (run_entry_perm q entry fs st st' [p] [p] O P (Permutation_refl _)) as (Ho & Hs).
    unfold OrchHist.run_single. destruct (run_entry q entry fs st [p]) as [s1 o1]. destruct (run_entry q entry fs st' [p]) as [s1' o1'].
    cbn [fst snd] in Ho, Hs. destruct (finalizes entry); [split; assumption|].
    destruct (q_lintfile_leaves_evidence q); cbn [fst snd]; [split; assumption|]. split; [exact Ho|].
    destruct P as (P1 & P2 & P3 & _ & _). destruct Hs as (_ & _ & _ & C1 & C1').
    unfold st_perm, keep_evidence. cbn [dry_rows dry_aux st_ev icache]. repeat split; assumption.
  Qed.

  Lemma step_perm q st st' fs o o' :
    q_consts_in_processing_order q = false -> st_perm st st' -> op_perm o o' ->
    let r := step q (st, fs) o in let r' := step q (st', fs) o' in
    out_perm (snd r) (snd r') /\ st_perm (fst (fst r)) (fst (fst r')) /\ snd (fst r) = snd (fst r').
  Proof.
    intros O P X. cbn zeta.
    assert (ENT : forall e a b, Permutation a b ->
              let r := run_entry q e fs st a in let r' := run_entry q e fs st' b in
              out_perm (snd (fst r, fs, snd r)) (snd (fst r', fs, snd r'))
              /\ st_perm (fst (fst (fst r, fs, snd r))) (fst (fst (fst r', fs, snd r')))
              /\ snd (fst (fst r, fs, snd r)) = snd (fst (fst r', fs, snd r'))).
    { intros e a b Hab. cbn zeta. pose proof (run_entry_perm q e fs st st' a b O P Hab) as (Ho & Hs).
      cbn [fst snd]. split; [exact Ho|split; [exact Hs|reflexivity]]. }
    assert (SGL : forall e a,
              let r := run_single q e fs st a in let r' := run_single q e fs st' a in
              out_perm (snd (fst r, fs, snd r)) (snd (fst r', fs, snd r'))
              /\ st_perm (fst (fst (fst r, fs, snd r))) (fst (fst (fst r', fs, snd r')))
              /\ snd (fst (fst r, fs, snd r)) = snd (fst (fst r', fs, snd r'))).
    { intros e a. cbn zeta. pose proof (run_single_perm q e fs st st' a O P) as (Ho & Hs).
      cbn [fst snd]. split; [exact Ho|split; [exact Hs|reflexivity]]. }
    assert (TRIV : forall f : fsys, out_perm (snd (st, f, @out_nil V)) (snd (st', f, @out_nil V))
              /\ st_perm (fst (fst (st, f, @out_nil V))) (fst (fst (st', f, @out_nil V)))
              /\ snd (fst (st, f, @out_nil V)) = snd (fst (st', f, @out_nil V))).
    { intros f. cbn [fst snd]. split; [apply out_perm_refl|]. split; [exact P|reflexivity]. }
    destruct X as [ps ps' Hp|d l l' Hp|d l l' Hp|o].
    - cbn [OrchHist.step]. specialize (ENT "lint_files" ps ps' Hp). cbn zeta in ENT.
      destruct (run_entry q "lint_files" fs st ps); destruct (run_entry q "lint_files" fs st' ps'). exact ENT.
    - cbn [OrchHist.step]. specialize (ENT "lint_directory" _ _ (filter_perm (fun p => in_dir d p && match fs_get fs p with Some _ => true | None => false end) l l' Hp)). cbn zeta in ENT. unfold walk.
      match goal with |- context [run_entry q ?e fs st ?a] => destruct (run_entry q e fs st a) end.
      match goal with |- context [run_entry q ?e fs st' ?a] => destruct (run_entry q e fs st' a) end. exact ENT.
    - cbn [OrchHist.step]. specialize (ENT api_dir_entry _ _ (filter_perm (fun p => in_dir d p && match fs_get fs p with Some _ => true | None => false end) l l' Hp)). cbn zeta in ENT. unfold walk.
      match goal with |- context [run_entry q ?e fs st ?a] => destruct (run_entry q e fs st a) end.
      match goal with |- context [run_entry q ?e fs st' ?a] => destruct (run_entry q e fs st' a) end. exact ENT.
    - destruct o as [p|ps|d l|[p|d l]|p c|p|p c]; cbn [OrchHist.step].
      + specialize (SGL "lint_file" p). cbn zeta in SGL.
        destruct (run_single q "lint_file" fs st p); destruct (run_single q "lint_file" fs st' p). exact SGL.
      + specialize (ENT "lint_files" ps ps (Permutation_refl _)). cbn zeta in ENT.
        destruct (run_entry q "lint_files" fs st ps); destruct (run_entry q "lint_files" fs st' ps). exact ENT.
      + specialize (ENT "lint_directory" (walk in_dir fs d l) _ (Permutation_refl _)). cbn zeta in ENT.
        destruct (run_entry q "lint_directory" fs st _); destruct (run_entry q "lint_directory" fs st' _). exact ENT.
      + destruct (fs_get fs p); [|apply TRIV].
        specialize (SGL (api_file_entry q) p). cbn zeta in SGL.
        destruct (run_single q (api_file_entry q) fs st p); destruct (run_single q (api_file_entry q) fs st' p). exact SGL.
      + specialize (ENT api_dir_entry (walk in_dir fs d l) _ (Permutation_refl _)). cbn zeta in ENT.
        destruct (run_entry q api_dir_entry fs st _); destruct (run_entry q api_dir_entry fs st' _). exact ENT.
      + apply TRIV.
      + apply TRIV.
      + apply TRIV.
  Qed.

  Lemma run_perm q h : forall h' st st' fs,
    q_consts_in_processing_order q = false -> st_perm st st' -> Forall2 op_perm h h' ->
    Forall2 out_perm (snd (run q (st, fs) h)) (snd (run q (st', fs) h')).
  Proof.
    induction h as [|o r IH]; intros h' st st' fs O P X; inversion X as [|o1 o' r1 r' Xo Xr]; subst; cbn [OrchHist.run]; [constructor|].
    pose proof (step_perm q st st' fs o o' O P Xo) as (Ho & Hs & Hf).
    destruct (step q (st, fs) o) as [[s1 f1] x]. destruct (step q (st', fs) o') as [[s1' f1'] x']. cbn [fst snd] in Ho, Hs, Hf. subst f1'.
    specialize (IH r' s1 s1' f1 O Hs Xr). destruct (run q (s1, f1) r) as [w2 xs]. destruct (run q (s1', f1) r') as [w2' xs'].
    cbn [fst snd] in IH |- *. constructor; assumption.
  Qed.

  Lemma st_perm_init : st_perm init init.
  Proof. unfold st_perm. cbn [init dry_rows dry_aux st_ev icache]. repeat split; try constructor; apply coherent_nil. Qed.

  (* permuting the file list of any call, and the order in which directories are walked, permutes the results *)
  Theorem order_independent q fs0 h h' :
    q_consts_in_processing_order q = false -> Forall2 op_perm h h' ->
    Forall2 out_perm (snd (run q (init, fs0) h)) (snd (run q (init, fs0) h')).
  Proof. intros O X. apply run_perm; [exact O|apply st_perm_init|exact X]. Qed.

  (* C08 as a whole: with the three flags off, every call of every history, in whatever order its files are
     passed or discovered, returns a permutation of what a fresh object returns for the canonical order *)
  Theorem results_depend_on_current_state_only q fs0 h h' :
    q_dry_keeps_storage q = false -> q_lintfile_leaves_evidence q = false -> q_consts_in_processing_order q = false ->
    Forall2 op_perm h h' ->
    Forall2 out_perm (snd (run q (init, fs0) h')) (fresh_run q fs0 h).
  Proof.
    intros D L O X. rewrite <- (history_independent q fs0 h D L).
    apply run_perm; [exact O|apply st_perm_init|].
    clear -X. induction X; constructor; [|assumption].
    match goal with H : op_perm _ _ |- _ => destruct H; constructor; now apply Permutation_sym end.
  Qed.
End Main.
