(* Proofs/MagicChars.v — elementary lemmas about the character-level functions of Model/MagicNum.v:
   membership with the Leibniz number equality, single-character search, suffix tests,
   alphabets, and the digit-run scanner span_d on rendered digit groups. *)
From Coq Require Import ZArith.
From TL Require Import Lib.Base Lib.GenTypes Gen.MagicGen Model.MagicNum.

(* ------------------------------------------------------------------ numbers *)
Lemma num_eqb_eq a b : num_eqb a b = true <-> a = b.
Proof.
  destruct a as [m1 e1], b as [m2 e2]. unfold num_eqb. cbn [fst snd].
  rewrite andb_true_iff, !Z.eqb_eq. split; [intros [-> ->]; reflexivity | intros E; inversion E; auto].
Qed.

Lemma num_eqb_refl a : num_eqb a a = true.
Proof. apply num_eqb_eq. reflexivity. Qed.

Lemma nmem_In v l : nmem v l = true <-> In v l.
Proof.
  induction l as [|x xs IH]; cbn [nmem In]; [split; [discriminate|tauto]|].
  rewrite orb_true_iff, IH, num_eqb_eq. split; (intros [H|H]; [left; congruence | right; exact H]).
Qed.

(* two lists with the same elements answer every membership question alike *)
Lemma nmem_same_set a b :
  forallb (fun x => nmem x b) a = true -> forallb (fun x => nmem x a) b = true ->
  forall v, nmem v a = nmem v b.
Proof.
  intros Hab Hba v. rewrite forallb_forall in Hab, Hba.
  destruct (nmem v a) eqn:Ea.
  - apply nmem_In in Ea. symmetry. apply Hab. exact Ea.
  - destruct (nmem v b) eqn:Eb; [|reflexivity].
    apply nmem_In in Eb. apply Hba in Eb. apply nmem_In in Eb. apply nmem_In in Eb. congruence.
Qed.

Lemma nmem_cons v a l : nmem v (a :: l) = num_eqb v a || nmem v l.
Proof. reflexivity. Qed.

(* ------------------------------------------------------------------ lists of characters *)
Lemma ascii_eqb_eq a b : Ascii.eqb a b = true <-> a = b.
Proof. apply Ascii.eqb_eq. Qed.

Lemma list_eqb_eq a b : list_eqb a b = true <-> a = b.
Proof.
  revert b. induction a as [|x xs IH]; intros [|y ys]; cbn [list_eqb]; try (split; [discriminate|discriminate]); [tauto|].
  rewrite andb_true_iff, Ascii.eqb_eq, IH. split; [intros [-> ->]; reflexivity | intros E; inversion E; auto].
Qed.

Lemma list_eqb_refl a : list_eqb a a = true.
Proof. apply list_eqb_eq. reflexivity. Qed.

Lemma contains_single c s : contains [c] s = existsb (Ascii.eqb c) s.
Proof.
  induction s as [|x xs IH]; cbn [contains prefix_l existsb]; [reflexivity|].
  rewrite IH. rewrite andb_true_r. reflexivity.
Qed.

Lemma existsb_false_forallb {A} (p : A -> bool) l : existsb p l = false <-> forallb (fun x => negb (p x)) l = true.
Proof.
  induction l as [|x xs IH]; cbn [existsb forallb]; [tauto|].
  rewrite orb_false_iff, andb_true_iff, negb_true_iff, IH. tauto.
Qed.

(* every character of s belongs to the alphabet al *)
Definition over (al s : list ascii) : bool := forallb (fun c => existsb (Ascii.eqb c) al) s.

Lemma over_app al a b : over al (a ++ b) = over al a && over al b.
Proof. apply forallb_app. Qed.

Lemma over_forall al s (P : ascii -> bool) :
  over al s = true -> forallb P al = true -> forallb P s = true.
Proof.
  unfold over. rewrite !forallb_forall. intros Hs Hal c Hc.
  specialize (Hs c Hc). apply existsb_exists in Hs. destruct Hs as [x [Hx E]].
  apply Ascii.eqb_eq in E. subst x. apply Hal. exact Hx.
Qed.

Lemma over_not_in al s c : over al s = true -> existsb (Ascii.eqb c) al = false -> existsb (Ascii.eqb c) s = false.
Proof.
  intros Hs Hc. apply existsb_false_forallb. apply (over_forall al); [exact Hs|].
  apply existsb_false_forallb. exact Hc.
Qed.

Lemma over_mono al al' s : over al s = true -> forallb (fun c => existsb (Ascii.eqb c) al') al = true -> over al' s = true.
Proof. intros Hs H. unfold over. apply (over_forall al); assumption. Qed.

Lemma over_In al s c : over al s = true -> In c s -> existsb (Ascii.eqb c) al = true.
Proof. unfold over. rewrite forallb_forall. auto. Qed.

(* ------------------------------------------------------------------ ends_with *)
Lemma ends_with_app_self suf x : ends_with suf (x ++ suf) = true.
Proof.
  induction x as [|c r IH]; cbn [app].
  - destruct suf; cbn [ends_with]; rewrite list_eqb_refl; reflexivity.
  - cbn [ends_with]. rewrite IH. apply orb_true_r.
Qed.

(* a suffix test only looks at tails: if no tail of x can start a match, x is irrelevant *)
Lemma ends_with_skip suf x s c r :
  suf = c :: r -> existsb (Ascii.eqb c) x = false -> ends_with suf (x ++ s) = ends_with suf s.
Proof.
  intros -> Hx. induction x as [|y ys IH]; [reflexivity|].
  cbn [existsb] in Hx. apply orb_false_iff in Hx. destruct Hx as [Hy Hys].
  cbn [app ends_with list_eqb]. rewrite Ascii.eqb_sym in Hy. rewrite Hy. cbn [andb orb]. apply IH. exact Hys.
Qed.

Lemma ends_with_length suf s : ends_with suf s = true -> List.length suf <= List.length s.
Proof.
  induction s as [|y ys IH]; cbn [ends_with].
  - rewrite orb_false_r. intros H. apply list_eqb_eq in H. subst. cbn. lia.
  - intros H. apply orb_true_iff in H. destruct H as [H|H].
    + apply list_eqb_eq in H. subst. lia.
    + specialize (IH H). cbn [List.length]. lia.
Qed.

Lemma ends_with_same_length suf s : ends_with suf s = true -> List.length s <= List.length suf -> s = suf.
Proof.
  destruct s as [|y ys]; cbn [ends_with].
  - rewrite orb_false_r. intros H _. apply list_eqb_eq in H. exact H.
  - intros H L. apply orb_true_iff in H. destruct H as [H|H]; [apply list_eqb_eq in H; exact H|].
    apply ends_with_length in H. cbn [List.length] in L. lia.
Qed.

Lemma ends_with_single_in c s : ends_with [c] s = true -> existsb (Ascii.eqb c) s = true.
Proof.
  induction s as [|y ys IH]; cbn [ends_with existsb]; [cbn; discriminate|].
  intros H. apply orb_true_iff in H. destruct H as [H|H].
  - apply list_eqb_eq in H. inversion H. subst. rewrite (proj2 (Ascii.eqb_eq c c) eq_refl). reflexivity.
  - rewrite (IH H). apply orb_true_r.
Qed.

Lemma firstn_app_exact {A} (a b : list A) : firstn (List.length (a ++ b) - List.length b) (a ++ b) = a.
Proof.
  rewrite app_length. replace (List.length a + List.length b - List.length b) with (List.length a) by lia.
  rewrite firstn_app, Nat.sub_diag, firstn_all. cbn [firstn]. apply app_nil_r.
Qed.

(* ------------------------------------------------------------------ digits *)
Lemma digit_char_lt10 up d : d < 10 -> digit_char up d = ascii_of_nat (48 + d).
Proof. intros H. unfold digit_char. apply Nat.ltb_lt in H. rewrite H. reflexivity. Qed.

Lemma digit_of_char base up d : d < base -> base <= 16 -> digit_of base (digit_char up d) = Some d.
Proof.
  intros Hd Hb. assert (H16 : d < 16) by lia.
  assert (E : forall b, digit_of b (digit_char up d) = if d <? b then Some d else None).
  { intros b. do 16 (destruct d as [|d]; [destruct up; reflexivity|]). lia. }
  rewrite E. apply Nat.ltb_lt in Hd. rewrite Hd. reflexivity.
Qed.

Lemma digit_of_us base : digit_of base c_us = None.
Proof. reflexivity. Qed.

Definition digit_alphabet (up : bool) (base : nat) : list ascii := map (digit_char up) (seq 0 base).

Lemma render_digits_over up base ds :
  forallb (fun d => d <? base) ds = true -> over (digit_alphabet up base) (render_digits up ds) = true.
Proof.
  intros H. unfold over, render_digits. rewrite forallb_forall. intros c Hc.
  apply in_map_iff in Hc. destruct Hc as [d [<- Hd]].
  rewrite forallb_forall in H. specialize (H d Hd). apply Nat.ltb_lt in H.
  apply existsb_exists. exists (digit_char up d). split; [|apply Ascii.eqb_eq; reflexivity].
  unfold digit_alphabet. apply in_map. apply in_seq. lia.
Qed.

(* a scan stops at `rest` *)
Definition stops (base : nat) (rest : list ascii) : Prop :=
  match rest with [] => True | c :: _ => digit_of base c = None /\ Ascii.eqb c c_us = false end.

Lemma span_d_stop base rest b : stops base rest -> span_d base rest b = ([], rest).
Proof.
  destruct rest as [|c r]; [reflexivity|]. cbn [stops]. intros [H1 H2].
  cbn [span_d]. rewrite H1, H2, andb_false_r. reflexivity.
Qed.

Lemma span_d_digits base up ds rest b :
  base <= 16 -> forallb (fun d => d <? base) ds = true -> stops base rest ->
  span_d base (render_digits up ds ++ rest) b = (ds, rest).
Proof.
  intros Hb. revert b. induction ds as [|d ds IH]; intros b Hds Hst.
  - apply span_d_stop. exact Hst.
  - cbn [forallb] in Hds. apply andb_prop in Hds. destruct Hds as [Hd Hds]. apply Nat.ltb_lt in Hd.
    cbn [render_digits map app span_d]. rewrite (digit_of_char base up d Hd Hb).
    change (map (digit_char up) ds) with (render_digits up ds). rewrite (IH true Hds Hst). reflexivity.
Qed.

(* digits, an underscore, then something that starts with a digit: the scan continues *)
Lemma span_d_us base up g t0 T :
  base <= 16 -> forallb (fun d => d <? base) g = true ->
  (exists d0, digit_of base t0 = Some d0) ->
  span_d base (render_digits up g ++ c_us :: t0 :: T) true
  = (g ++ fst (span_d base (t0 :: T) false), snd (span_d base (t0 :: T) false)).
Proof.
  intros Hb. induction g as [|d g IH]; intros Hg [d0 H0].
  - cbn [render_digits map app]. cbn [span_d]. rewrite digit_of_us. cbn [andb].
    replace (Ascii.eqb c_us c_us) with true by reflexivity. rewrite H0.
    destruct (span_d base T true) as [ds rest]. reflexivity.
  - cbn [forallb] in Hg. apply andb_prop in Hg. destruct Hg as [Hd Hg]. apply Nat.ltb_lt in Hd.
    cbn [render_digits map app span_d]. rewrite (digit_of_char base up d Hd Hb).
    change (map (digit_char up) g) with (render_digits up g).
    rewrite (IH Hg (ex_intro _ d0 H0)). reflexivity.
Qed.

Definition groups_ok (base : nat) (gs : list (list nat)) : bool :=
  match gs with [] => false | _ => forallb (fun g => match g with [] => false | _ => forallb (fun d => d <? base) g end) gs end.

Lemma span_d_groups base up gs rest b :
  base <= 16 -> groups_ok base gs = true -> stops base rest ->
  span_d base (render_groups up gs ++ rest) b = (List.concat gs, rest).
Proof.
  intros Hb. revert b. induction gs as [|g gs IH]; intros b Hgs Hst; [discriminate|].
  destruct gs as [|g2 gs'].
  - cbn [groups_ok forallb] in Hgs. rewrite andb_true_r in Hgs.
    destruct g as [|d g]; [discriminate|].
    cbn [render_groups List.concat]. rewrite app_nil_r. apply span_d_digits; assumption.
  - cbn [groups_ok] in Hgs. cbn [forallb] in Hgs. apply andb_prop in Hgs. destruct Hgs as [Hg Hrest].
    destruct g as [|d g]; [discriminate|].
    assert (Hgs2 : groups_ok base (g2 :: gs') = true) by exact Hrest.
    cbn [forallb] in Hrest. apply andb_prop in Hrest. destruct Hrest as [Hg2 _].
    destruct g2 as [|d2 g2]; [discriminate|].
    cbn [forallb] in Hg, Hg2. apply andb_prop in Hg. destruct Hg as [Hd Hg]. apply Nat.ltb_lt in Hd.
    apply andb_prop in Hg2. destruct Hg2 as [Hd2 Hg2]. apply Nat.ltb_lt in Hd2.
    specialize (IH false Hgs2 Hst).
    change (render_groups up ((d :: g) :: (d2 :: g2) :: gs'))
      with (render_digits up (d :: g) ++ c_us :: render_groups up ((d2 :: g2) :: gs')).
    rewrite <- app_assoc. cbn [app].
    assert (Hhead : exists t0 T, render_groups up ((d2 :: g2) :: gs') ++ rest = t0 :: T /\ digit_of base t0 = Some d2).
    { exists (digit_char up d2).
      destruct gs' as [|g3 gs'']; cbn [render_groups render_digits map app]; eexists; (split; [reflexivity|]);
        apply digit_of_char; assumption. }
    destruct Hhead as [t0 [T [ET H0]]]. rewrite ET in IH |- *.
    cbn [render_digits map app span_d]. rewrite (digit_of_char base up d Hd Hb).
    change (map (digit_char up) g) with (render_digits up g).
    rewrite (span_d_us base up g t0 T Hb Hg (ex_intro _ d2 H0)). rewrite IH. reflexivity.
Qed.
