(* Proofs/EmbedLocality.v — the generic locality theory of walker-shaped detectors (property C19).

   For ANY detector of the shape `detect` (Model/Embed.v) whose step/emit do not look at positions:
     decomposition   detectF s (plug c frag) = <context part> ++ moved (detectF <summary at the hole> frag) ++ <context part>
     locality        if the wrappers of c are inert (emit nothing, leave the summary alone):
                     detectF s (plug c frag) = ctx_pre c s ++ moved (detectF s frag) ++ ctx_post c s
                     and ctx_pre ++ ctx_post is exactly what the detector reports on the filler code alone
     copies          n copies give the n moved report lists
     renaming        a renaming the detector's leaf tests are invariant under commutes with detection *)
From Coq Require Import Permutation.
From TL Require Import Lib.Base Model.Embed.

(* ------------------------------------------------------------------ moving reports *)
Lemma shiftR_shiftR a b c d r : shiftR a b (shiftR c d r) = shiftR (a + c) (b + d) r.
Proof.
  destruct r as [[[l k] p] x]. cbn [shiftR].
  replace (l + c + a) with (l + (a + c)) by lia. replace (k + d + b) with (k + (b + d)) by lia. reflexivity.
Qed.

Lemma shiftRs_shiftRs a b c d l : shiftRs a b (shiftRs c d l) = shiftRs (a + c) (b + d) l.
Proof. unfold shiftRs. rewrite map_map. apply map_ext. intro r. apply shiftR_shiftR. Qed.

Lemma shiftR_0 r : shiftR 0 0 r = r.
Proof. destruct r as [[[l k] p] x]. cbn [shiftR]. now rewrite !Nat.add_0_r. Qed.

Lemma shiftRs_0 l : shiftRs 0 0 l = l.
Proof. unfold shiftRs. rewrite <- (map_id l) at 2. apply map_ext. exact shiftR_0. Qed.

Lemma shiftRs_app a b l1 l2 : shiftRs a b (l1 ++ l2) = shiftRs a b l1 ++ shiftRs a b l2.
Proof. apply map_app. Qed.

Lemma shiftRs_length a b l : List.length (shiftRs a b l) = List.length l.
Proof. apply map_length. Qed.

Lemma flat_map_mapped {A B} (h : list B -> list B) (f g : A -> list B) ks :
  (forall x y, h (x ++ y) = h x ++ h y) -> h [] = [] ->
  Forall (fun k => f k = h (g k)) ks -> flat_map f ks = h (flat_map g ks).
Proof.
  intros Happ Hnil. induction 1 as [|k ks Hk _ IH]; cbn [flat_map]; [now rewrite Hnil|].
  now rewrite Hk, IH, Happ.
Qed.

Lemma flat_map_flat_map {A B C} (f : B -> list C) (g : A -> list B) l :
  flat_map f (flat_map g l) = flat_map (fun x => flat_map f (g x)) l.
Proof. induction l as [|x xs IH]; cbn [flat_map]; [reflexivity|]. now rewrite flat_map_app, IH. Qed.

Lemma flat_map_map {A B C} (f : B -> list C) (g : A -> B) l : flat_map f (map g l) = flat_map (fun x => f (g x)) l.
Proof. induction l as [|x xs IH]; cbn [flat_map map]; [reflexivity|]. now rewrite IH. Qed.

Lemma shift_node dl dc i ks : shift dl dc (Node i ks) = Node (shift_info dl dc i) (map (shift dl dc) ks).
Proof. reflexivity. Qed.

Lemma rename_node sg i ks : rename sg (Node i ks) = Node (rename_info sg i) (map (rename sg) ks).
Proof. reflexivity. Qed.

Section Walker.
  Context {S : Type}.
  Variable step : S -> ast -> S.
  Variable emit : S -> ast -> list rep.
  Notation detect := (detect step emit).
  Notation detectF := (detectF step emit).

  Lemma detect_node s i ks :
    detect s (Node i ks) = emit s (Node i ks) ++ flat_map (detect (step s (Node i ks))) ks.
  Proof. reflexivity. Qed.

  Lemma detectF_app s a b : detectF s (a ++ b) = detectF s a ++ detectF s b.
  Proof. apply flat_map_app. Qed.

  Lemma detectF_one s t : detectF s [t] = detect s t.
  Proof. unfold Embed.detectF. cbn [flat_map]. apply app_nil_r. Qed.

  (* -------- position independence: the two hypotheses every concrete detector must discharge *)
  Section Moved.
    Hypothesis step_shift : forall dl dc s t, step s (shift dl dc t) = step s t.
    Hypothesis emit_shift : forall dl dc s t, emit s (shift dl dc t) = shiftRs dl dc (emit s t).

    Lemma detect_shift dl dc t : forall s, detect s (shift dl dc t) = shiftRs dl dc (detect s t).
    Proof.
      induction t as [i ks IH] using ast_ind'. intro s.
      rewrite shift_node, detect_node. rewrite <- shift_node.
      rewrite emit_shift, step_shift, detect_node, shiftRs_app. f_equal.
      rewrite flat_map_map.
      apply (flat_map_mapped (shiftRs dl dc)); [apply shiftRs_app|reflexivity|].
      eapply Forall_impl; [|exact IH]. intros k Hk. apply Hk.
    Qed.

    Lemma detectF_shift dl dc ts s : detectF s (shiftF dl dc ts) = shiftRs dl dc (detectF s ts).
    Proof.
      unfold Embed.detectF, shiftF. rewrite flat_map_map.
      apply (flat_map_mapped (shiftRs dl dc)); [apply shiftRs_app|reflexivity|].
      apply Forall_forall. intros k _. apply detect_shift.
    Qed.

    (* ---- decomposition: holds for every context, inert or not *)
    Theorem plug_decompose c frag : forall s,
      detectF s (plug c frag) =
      gen_pre step emit c frag s
      ++ shiftRs (off_l c) (off_c c) (detectF (hole_sum step c frag s) frag)
      ++ gen_post step emit c frag s.
    Proof.
      induction c as [|i pre post dl dc c' IH|pre dl c' IH post]; intro s.
      - cbn [plug gen_pre gen_post off_l off_c hole_sum]. now rewrite shiftRs_0, app_nil_r.
      - cbn [plug gen_pre gen_post off_l off_c hole_sum]. fold (wnode i pre post dl dc c' frag).
        set (w := wnode i pre post dl dc c' frag). rewrite detectF_one.
        unfold w at 1. unfold wnode. rewrite detect_node. fold (wnode i pre post dl dc c' frag). fold w.
        set (s' := step s w).
        change (flat_map (detect s')) with (detectF s').
        rewrite !detectF_app, detectF_shift, (IH s'), !shiftRs_app, shiftRs_shiftRs.
        now rewrite <- !app_assoc.
      - cbn [plug gen_pre gen_post off_l off_c hole_sum].
        rewrite !detectF_app, detectF_shift, (IH s), !shiftRs_app, shiftRs_shiftRs.
        rewrite Nat.add_0_l. now rewrite <- !app_assoc.
    Qed.

    (* ---- inert wrappers: emit nothing and leave the summary alone, whatever is put in the hole *)
    Definition inert_wrap (i : info) (pre post : list ast) : Prop :=
      forall s mid, emit s (Node i (pre ++ mid ++ post)) = [] /\ step s (Node i (pre ++ mid ++ post)) = s.
    Fixpoint inert (c : ctx) : Prop :=
      match c with
      | Hole => True
      | Wrap i pre post _ _ c' => inert_wrap i pre post /\ inert c'
      | Seq _ _ c' _ => inert c'
      end.

    Lemma inert_parts c frag : inert c -> forall s,
      hole_sum step c frag s = s /\ gen_pre step emit c frag s = ctx_pre step emit c s
      /\ gen_post step emit c frag s = ctx_post step emit c s.
    Proof.
      induction c as [|i pre post dl dc c' IH|pre dl c' IH post]; intros Hin s.
      - repeat split.
      - destruct Hin as [Hi Hc'].
        cbn [hole_sum gen_pre gen_post ctx_pre ctx_post]. unfold wnode.
        destruct (Hi s (shiftF dl dc (plug c' frag))) as [He Hs]. rewrite He, Hs.
        destruct (IH Hc' s) as (H1 & H2 & H3). now rewrite H1, H2, H3.
      - cbn [inert] in Hin. cbn [hole_sum gen_pre gen_post ctx_pre ctx_post].
        destruct (IH Hin s) as (H1 & H2 & H3). now rewrite H1, H2, H3.
    Qed.

    (* ---- wrappers whose own report and whose summary for their children do not depend on what is in the hole
            (weaker than inert: the wrapper may report something of its own and may change the summary) *)
    Fixpoint indep (c : ctx) (s : S) : Prop :=
      match c with
      | Hole => True
      | Wrap i pre post _ _ c' =>
        (forall mid, emit s (Node i (pre ++ mid ++ post)) = emit s (Node i (pre ++ [] ++ post))
                     /\ step s (Node i (pre ++ mid ++ post)) = step s (Node i (pre ++ [] ++ post)))
        /\ indep c' (step s (Node i (pre ++ [] ++ post)))
      | Seq _ _ c' _ => indep c' s
      end.

    Lemma indep_parts c frag : forall s, indep c s ->
      hole_sum step c frag s = hole_sum step c [] s
      /\ gen_pre step emit c frag s = gen_pre step emit c [] s
      /\ gen_post step emit c frag s = gen_post step emit c [] s.
    Proof.
      induction c as [|i pre post dl dc c' IH|pre dl c' IH post]; intros s Hin.
      - repeat split.
      - destruct Hin as [Hi Hc']. cbn [hole_sum gen_pre gen_post]. unfold wnode.
        destruct (Hi (shiftF dl dc (plug c' frag))) as [He Hs].
        destruct (Hi (shiftF dl dc (plug c' []))) as [He0 Hs0].
        rewrite He, Hs, He0, Hs0.
        destruct (IH _ Hc') as (H1 & H2 & H3). now rewrite H1, H2, H3.
      - cbn [indep] in Hin. cbn [hole_sum gen_pre gen_post].
        destruct (IH s Hin) as (H1 & H2 & H3). now rewrite H1, H2, H3.
    Qed.

    (* the fragment is analysed under the summary the (empty) context produces at its hole; everything else is what
       the detector reports on the context filled with nothing *)
    Theorem plug_indep c frag s : indep c s ->
      detectF s (plug c frag) =
      gen_pre step emit c [] s
      ++ shiftRs (off_l c) (off_c c) (detectF (hole_sum step c [] s) frag)
      ++ gen_post step emit c [] s.
    Proof.
      intro Hin. rewrite plug_decompose. destruct (indep_parts c frag s Hin) as (H1 & H2 & H3).
      now rewrite H1, H2, H3.
    Qed.

    (* ---- locality *)
    Theorem plug_local c frag s : inert c ->
      detectF s (plug c frag) =
      ctx_pre step emit c s ++ shiftRs (off_l c) (off_c c) (detectF s frag) ++ ctx_post step emit c s.
    Proof.
      intro Hin. rewrite plug_decompose. destruct (inert_parts c frag Hin s) as (H1 & H2 & H3).
      now rewrite H1, H2, H3.
    Qed.

    (* what the context contributes is exactly what the detector says about the filler code alone *)
    Lemma fillers_reports c : forall s,
      detectF s (fillers c) = ctx_pre step emit c s ++ ctx_post step emit c s.
    Proof.
      induction c as [|i pre post dl dc c' IH|pre dl c' IH post]; intro s.
      - reflexivity.
      - cbn [fillers ctx_pre ctx_post]. rewrite !detectF_app, detectF_shift, IH, shiftRs_app.
        now rewrite <- !app_assoc.
      - cbn [fillers ctx_pre ctx_post]. rewrite !detectF_app, detectF_shift, IH, shiftRs_app.
        now rewrite <- !app_assoc.
    Qed.

    Theorem plug_local_perm c frag s : inert c ->
      Permutation (detectF s (plug c frag))
                  (shiftRs (off_l c) (off_c c) (detectF s frag) ++ detectF s (fillers c)).
    Proof.
      intro Hin. rewrite (plug_local c frag s Hin), fillers_reports.
      rewrite app_assoc. rewrite (app_assoc _ (ctx_pre step emit c s)).
      apply Permutation_app_tail. apply Permutation_app_comm.
    Qed.

    (* ---- n copies *)
    Theorem copies_local s n h frag :
      detectF s (copies n h frag) = flat_map (fun k => shiftRs (k * h) 0 (detectF s frag)) (seq 0 n).
    Proof.
      unfold copies. unfold Embed.detectF at 1. rewrite flat_map_flat_map.
      apply flat_map_ext. intro k. apply detectF_shift.
    Qed.

    Corollary copies_count s n h frag :
      List.length (detectF s (copies n h frag)) = n * List.length (detectF s frag).
    Proof.
      rewrite copies_local. generalize (seq 0 n) (seq_length n 0). intros l. revert n.
      induction l as [|k l IH]; intros n Hn; cbn [flat_map List.length] in *.
      - now subst.
      - destruct n as [|n]; [discriminate|]. rewrite app_length, shiftRs_length, (IH n); [reflexivity|].
        now injection Hn.
    Qed.
  End Moved.

  (* -------- renaming *)
  Section Renamed.
    Variable sg : string -> string.
    Variable renS : S -> S.
    Variable renR : rep -> rep.
    Hypothesis step_ren : forall s t, step (renS s) (rename sg t) = renS (step s t).
    Hypothesis emit_ren : forall s t, emit (renS s) (rename sg t) = map renR (emit s t).

    Theorem rename_commutes t : forall s, detect (renS s) (rename sg t) = map renR (detect s t).
    Proof.
      induction t as [i ks IH] using ast_ind'. intro s.
      rewrite rename_node, detect_node. rewrite <- rename_node.
      rewrite emit_ren, step_ren, detect_node, map_app. f_equal.
      rewrite flat_map_map.
      apply (flat_map_mapped (map renR)); [apply map_app|reflexivity|].
      eapply Forall_impl; [|exact IH]. intros k Hk. apply Hk.
    Qed.

    Corollary renameF_commutes ts s : detectF (renS s) (renameF sg ts) = map renR (detectF s ts).
    Proof.
      unfold Embed.detectF, renameF. rewrite flat_map_map.
      apply (flat_map_mapped (map renR)); [apply map_app|reflexivity|].
      apply Forall_forall. intros k _. apply rename_commutes.
    Qed.
  End Renamed.
End Walker.
