(* Proofs/ContainWalk.v — the recursive tree walkers: they overflow exactly on trees deeper than the frames left (C11). *)
From TL Require Import Lib.Base Lib.GenTypes Model.ContainTypes Gen.ContainGen Model.ContainWalk.

Section TreeInd.
  Variable P : tree -> Prop.
  Hypothesis H : forall ty cs, Forall P cs -> P (Node ty cs).
  Fixpoint tree_ind' (t : tree) : P t :=
    match t with
    | Node ty cs =>
        H ty cs ((fix go (l : list tree) : Forall P l :=
                    match l with [] => Forall_nil _ | x :: xs => Forall_cons _ (tree_ind' x) (go xs) end) cs)
    end.
End TreeInd.

Lemma walker_is_recursive : walker_recursive = true.
Proof. reflexivity. Qed.

Lemma sum_opt_all ty f cs :
  Forall (fun c => forall fuel, depth c <= fuel -> walk fuel ty c = Some (count ty c)) cs ->
  maxl (map depth cs) <= f ->
  sum_opt (map (walk f ty) cs) = Some (fold_right (fun c n => count ty c + n) 0 cs).
Proof.
  induction 1 as [|c cs Hc _ IH]; intros M; [reflexivity|].
  cbn [map maxl] in M. cbn [map sum_opt fold_right].
  fold (sum_opt (map (walk f ty) cs)). rewrite IH by lia. rewrite (Hc f) by lia. reflexivity.
Qed.

Theorem walk_enough : forall t fuel ty, depth t <= fuel -> walk fuel ty t = Some (count ty t).
Proof.
  intros t fuel ty. revert fuel. induction t as [ty' cs IH] using tree_ind'. intros fuel D.
  cbn [depth] in D. destruct fuel as [|f]; [lia|]. cbn [walk count].
  rewrite (sum_opt_all ty f cs IH) by lia. reflexivity.
Qed.

Lemma sum_opt_none l : In None l -> sum_opt l = None.
Proof.
  induction l as [|o l IH]; intros I; [destruct I|]. cbn [sum_opt fold_right]. fold (sum_opt l).
  destruct I as [->|I]; [reflexivity|]. rewrite (IH I). destruct o; reflexivity.
Qed.

Lemma maxl_gt_exists l f : f < maxl l -> exists x, In x l /\ f < x.
Proof.
  induction l as [|y ys IH]; cbn [maxl]; intros H; [lia|].
  destruct (Nat.lt_ge_cases f y) as [L|G]; [exists y; split; [left; reflexivity|exact L]|].
  destruct IH as (x & I & L); [lia|]. exists x. split; [right; exact I|exact L].
Qed.

Theorem walk_short : forall t fuel ty, fuel < depth t -> walk fuel ty t = None.
Proof.
  intros t fuel ty. revert fuel. induction t as [ty' cs IH] using tree_ind'. intros fuel D.
  destruct fuel as [|f]; [reflexivity|]. cbn [depth] in D. cbn [walk].
  destruct (maxl_gt_exists (map depth cs) f) as (x & I & L); [lia|].
  apply in_map_iff in I. destruct I as (c & <- & Ic).
  rewrite Forall_forall in IH. rewrite (sum_opt_none (map (walk f ty) cs)); [reflexivity|].
  apply in_map_iff. exists c. split; [exact (IH c Ic f L)|exact Ic].
Qed.

(* the walker raises RecursionError exactly on the trees deeper than the frames left *)
Theorem walk_fails_iff t fuel ty : walk fuel ty t = None <-> fuel < depth t.
Proof.
  split.
  - intros H. destruct (Nat.lt_ge_cases fuel (depth t)) as [L|G]; [exact L|]. rewrite (walk_enough t fuel ty G) in H. discriminate.
  - apply walk_short.
Qed.

(* what C11 demands (flag off): total, and it finds every node of the type *)
Theorem walker_ideal_total q fuel ty t : q_walk_recursive q = false -> walker q fuel ty t = Some (count ty t).
Proof. intros H. unfold walker. rewrite H. reflexivity. Qed.

(* partial: the faithful walker is exact on every tree that fits into the frames left *)
Theorem walker_faithful_partial q fuel ty t : depth t <= fuel -> walker q fuel ty t = Some (count ty t).
Proof.
  intros D. unfold walker. destruct (q_walk_recursive q); [|reflexivity]. rewrite walker_is_recursive. exact (walk_enough t fuel ty D).
Qed.

Theorem walker_faithful_overflows q fuel ty t :
  q_walk_recursive q = true -> fuel < depth t -> walker q fuel ty t = None.
Proof. intros H D. unfold walker. rewrite H, walker_is_recursive. exact (walk_short t fuel ty D). Qed.

Lemma skel_depth d c : depth (skel d c) = S d.
Proof. revert c. induction d as [|d IH]; intros c; [reflexivity|]. cbn [skel depth map maxl]. rewrite IH. lia. Qed.
