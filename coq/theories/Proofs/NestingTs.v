(* Proofs/NestingTs.v — the tree-sitter depth visitor computes the documented depth.
   Generic in the node-name scheme, the nesting-type table, the start depth and the
   else-if treatment; instantiated for TypeScript/JavaScript and Rust in NestingMain.v. *)
From TL Require Import Lib.Base Lib.GenTypes Model.Skel Model.Nesting.

Section TsInd.
  Variable P : tsnode -> Prop.
  Hypothesis H : forall ty cs, Forall P cs -> P (N ty cs).
  Fixpoint tsnode_ind' (n : tsnode) : P n :=
    match n with
    | N ty cs =>
      H ty cs ((fix go (l : list tsnode) : Forall P l :=
                  match l with
                  | [] => Forall_nil P
                  | x :: xs => Forall_cons x (tsnode_ind' x) (go xs)
                  end) cs)
    end.
End TsInd.

(* well-formed skeletons: KElif/KElse occur only as children of a KIf, a KElse is the last branch *)
Fixpoint else_last (cs : list tree) : bool :=
  match cs with
  | [] => true
  | T KElse _ :: r => forallb (fun x => negb (is_branch (tkind x))) r
  | _ :: r => else_last r
  end.

Fixpoint wf (t : tree) : bool :=
  match t with
  | T k cs =>
    negb (is_branch k)
    && (match k with KIf => else_last cs | _ => true end)
    && forallb (fun c => match c with
                         | T ck ccs =>
                           if is_branch ck
                           then (match k with KIf => true | _ => false end) && forallb wf ccs
                           else wf c
                         end) cs
  end.

Section Generic.
  Variables (types : list string) (fix_ : bool) (nm : tsnames).
  Let nif := n_if nm.
  Let nelse := n_else nm.

  (* the height the visitor adds below a node *)
  Fixpoint th (n : tsnode) (pe : bool) : nat :=
    match n with
    | N ty cs =>
      let inc := smem ty types && negb (fix_ && pe && String.eqb ty nif) in
      maxl (map (fun c => b2n inc + th c (String.eqb ty nelse)) cs)
    end.

  Lemma ts_visit_shift n : forall d pe, ts_visit types fix_ nif nelse n d pe = d + th n pe.
  Proof.
    induction n as [ty cs IH] using tsnode_ind'. intros d pe. cbn [ts_visit th].
    set (inc := smem ty types && negb (fix_ && pe && String.eqb ty nif)).
    rewrite (max_shift _ (fun c => b2n inc + th c (String.eqb ty nelse)) d).
    - reflexivity.
    - apply Forall_forall. intros c Hc. rewrite Forall_forall in IH. rewrite (IH c Hc).
      destruct inc; cbn [b2n]; lia.
  Qed.

  (* node types that neither nest nor are the else clause: transparent *)
  Definition plain (s : string) : bool := negb (smem s types) && negb (String.eqb s nelse).

  Lemma th_plain w l pe : plain w = true -> th (N w l) pe = maxl (map (fun c => th c false) l).
  Proof.
    unfold plain. intros Hp. apply andb_prop in Hp. destruct Hp as [H1 H2].
    apply negb_true_iff in H1. apply negb_true_iff in H2.
    cbn [th]. rewrite H1. cbn [andb b2n]. fold nelse. rewrite H2. reflexivity.
  Qed.

  Hypothesis Hblock : plain (n_block nm) = true.
  Hypothesis Hopen : plain "{" = true.
  Hypothesis Hclose : plain "}" = true.

  Lemma th_blk l pe : th (blk (n_block nm) l) pe = maxl (map (fun c => th c false) l).
  Proof.
    unfold blk. rewrite th_plain by exact Hblock.
    cbn [map maxl]. rewrite map_app, maxl_app. cbn [map maxl].
    rewrite !th_plain by assumption. cbn [map maxl]. lia.
  Qed.

  Lemma th_wrap ws l :
    forallb plain ws = true ->
    maxl (map (fun c => th c false) (wrap_in ws l)) = maxl (map (fun c => th c false) l).
  Proof.
    induction ws as [|w ws IH]; cbn [wrap_in forallb]; [reflexivity|].
    intros Hw. apply andb_prop in Hw. destruct Hw as [Hw Hws].
    cbn [map maxl]. rewrite th_plain by exact Hw. rewrite IH by exact Hws. lia.
  Qed.

  (* facts about the naming scheme needed for a construct that is neither an if nor a branch *)
  Definition kind_facts (k : kind) : bool :=
    Bool.eqb (smem (n_of nm k) types) (counts k)
    && negb (String.eqb (n_of nm k) nelse)
    && negb (String.eqb (n_of nm k) nif)
    && forallb plain (n_wrap nm k)
    && (negb (counts k) || n_blocked nm k || negb (match n_wrap nm k with [] => true | _ => false end)).

  Lemma maxl_map_const_add (b : nat) (f : tsnode -> nat) l :
    l <> [] -> maxl (map (fun c => b + f c) l) = b + maxl (map f l).
  Proof.
    induction l as [|x xs IH]; [congruence|]. intros _. cbn [map maxl].
    destruct xs as [|y ys]; [cbn [map maxl]; lia|]. rewrite IH by discriminate. lia.
  Qed.

  Lemma wrap_in_nonempty ws l : ws <> [] -> wrap_in ws l <> [].
  Proof. destruct ws; [congruence|]. intros _. cbn [wrap_in]. discriminate. Qed.

  Lemma th_generic k (l : list tsnode) pe :
    kind_facts k = true ->
    th (N (n_of nm k) (body_of nm k l)) pe = b2n (counts k) + maxl (map (fun c => th c false) l).
  Proof.
    unfold kind_facts. intros Hf.
    repeat (apply andb_prop in Hf; destruct Hf as [Hf ?]).
    match goal with H : negb (String.eqb (n_of nm k) nif) = true |- _ => apply negb_true_iff in H; rename H into Hnif end.
    match goal with H : negb (String.eqb (n_of nm k) nelse) = true |- _ => apply negb_true_iff in H; rename H into Hnelse end.
    match goal with H : forallb plain (n_wrap nm k) = true |- _ => rename H into Hwrap end.
    match goal with H : (_ || _ || _) = true |- _ => rename H into Hne end.
    apply Bool.eqb_prop in Hf.
    cbn [th]. fold nif nelse. rewrite Hnif, Hnelse, Hf. rewrite !andb_false_r. cbn [negb]. rewrite andb_true_r.
    unfold body_of.
    destruct (counts k) eqn:Hc; cbn [b2n].
    - (* counting: the child list is non-empty *)
      cbn [negb orb] in Hne.
      rewrite maxl_map_const_add.
      + rewrite th_wrap by exact Hwrap. destruct (n_blocked nm k); [cbn [map maxl]; rewrite th_blk; lia | reflexivity].
      + destruct (n_blocked nm k) eqn:Hb.
        * destruct (n_wrap nm k); cbn [wrap_in]; discriminate.
        * cbn [orb] in Hne. apply wrap_in_nonempty. destruct (n_wrap nm k); [discriminate|discriminate].
    - rewrite (maxl_map_ext _ (fun c => th c false)) by (apply Forall_forall; intros; lia).
      rewrite th_wrap by exact Hwrap. destruct (n_blocked nm k); [cbn [map maxl]; rewrite th_blk; lia | reflexivity].
  Qed.

  (* ---------------- the if/else-if/else chain under the property's reading (fix_ = true) *)
  Variable okk : kind -> bool.
  Fixpoint tree_all (t : tree) : bool :=
    match t with T k cs => okk k && forallb tree_all cs end.

  Hypothesis Hfix : fix_ = true.
  Hypothesis Hif : smem nif types = true.
  Hypothesis Hifelse : String.eqb nif nelse = false.
  Hypothesis Helse : smem nelse types = false.
  Hypothesis Hok : forall k, okk k = true -> is_branch k = false -> k <> KIf -> kind_facts k = true.

  Definition wfb (t : tree) : bool :=
    match t with T k cs => if is_branch k then forallb wf cs else wf t end.

  Definition hgt (t : tree) : nat := th (to_ts nm t) false.

  Definition P (t : tree) : Prop :=
    wfb t = true -> tree_all t = true ->
    if is_branch (tkind t)
    then maxl (map hgt (tkids t)) = maxl (map nest (tkids t))
    else hgt t = nest t.

  Lemma wf_not_branch t : wf t = true -> is_branch (tkind t) = false.
  Proof.
    destruct t as [k cs]. cbn [wf tkind]. intros H.
    apply andb_prop in H. destruct H as [H _]. apply andb_prop in H. destruct H as [H _].
    now apply negb_true_iff in H.
  Qed.

  Lemma P_list l :
    Forall P l -> forallb wf l = true -> forallb tree_all l = true ->
    maxl (map hgt l) = maxl (map nest l).
  Proof.
    induction 1 as [|x xs Hx _ IH]; cbn [forallb map maxl]; [reflexivity|].
    intros Hw Ha. apply andb_prop in Hw. destruct Hw as [Hw Hws]. apply andb_prop in Ha. destruct Ha as [Ha Has].
    rewrite IH by assumption. f_equal.
    unfold P in Hx. rewrite (wf_not_branch _ Hw) in Hx. apply Hx; [|exact Ha].
    destruct x as [k cs]. unfold wfb. pose proof (wf_not_branch _ Hw) as Hb. cbn [tkind] in Hb. rewrite Hb. exact Hw.
  Qed.

  (* the else chain built by to_ts *)
  Definition chainF (c : tree) (acc : list tsnode) : list tsnode :=
    match c with
    | T KElif b => [N nelse [N nif (blk (n_block nm) (map (to_ts nm) b) :: acc)]]
    | T KElse b => [N nelse [blk (n_block nm) (map (to_ts nm) b)]]
    | _ => acc
    end.

  Definition branch_nest (c : tree) : nat := if is_branch (tkind c) then nest c else 0.
  Definition plain_nest (c : tree) : nat := if is_branch (tkind c) then 0 else nest c.

  Lemma to_ts_if cs :
    to_ts nm (T KIf cs) =
    N nif (blk (n_block nm) (flat_map (fun c => if is_branch (tkind c) then [] else [to_ts nm c]) cs)
           :: fold_right chainF [] cs).
  Proof. reflexivity. Qed.

  Lemma th_else_node (x : tsnode) : th (N nelse [x]) false = th x true.
  Proof.
    cbn [th]. fold nelse. rewrite Helse. cbn [andb b2n map maxl]. rewrite String.eqb_refl. lia.
  Qed.

  Lemma th_if_under_else l : th (N nif l) true = maxl (map (fun c => th c false) l).
  Proof.
    cbn [th]. fold nif nelse. rewrite Hfix, Hif, String.eqb_refl, Hifelse. cbn [andb negb b2n].
    apply maxl_map_ext. apply Forall_forall. intros; lia.
  Qed.

  Lemma chain_value cs :
    Forall P cs ->
    forallb (fun c => match c with T ck ccs => if is_branch ck then forallb wf ccs else wf c end) cs = true ->
    forallb tree_all cs = true ->
    else_last cs = true ->
    maxl (map (fun c => th c false) (fold_right chainF [] cs)) = maxl (map branch_nest cs).
  Proof.
    induction 1 as [|c cs Hc Hcs IH]; cbn [forallb fold_right map maxl]; [reflexivity|].
    intros Hw Ha Hl. apply andb_prop in Hw. destruct Hw as [Hw Hws]. apply andb_prop in Ha. destruct Ha as [Ha Has].
    destruct c as [k b]. unfold branch_nest at 1. cbn [tkind].
    assert (Hb : forall k', k = k' -> is_branch k' = true ->
                 maxl (map hgt b) = maxl (map nest b)).
    { intros k' -> Hbr. unfold P in Hc. cbn [tkind tkids] in Hc. rewrite Hbr in Hc. apply Hc; [|exact Ha].
      unfold wfb. rewrite Hbr. rewrite Hbr in Hw. exact Hw. }
    destruct k; cbn [chainF is_branch];
      try (cbn [else_last] in Hl; rewrite (IH Hws Has Hl); lia).
    - (* KElif *)
      cbn [else_last] in Hl. cbn [map maxl]. rewrite th_else_node, th_if_under_else.
      cbn [map maxl]. rewrite th_blk by assumption. rewrite map_map.
      specialize (Hb KElif eq_refl eq_refl). unfold hgt in Hb. rewrite Hb.
      rewrite (IH Hws Has Hl). cbn [nest counts b2n]. lia.
    - (* KElse: nothing after it is a branch *)
      cbn [else_last] in Hl. cbn [map maxl]. rewrite th_else_node. rewrite th_blk by assumption. rewrite map_map.
      specialize (Hb KElse eq_refl eq_refl). unfold hgt in Hb. rewrite Hb.
      assert (Hz : maxl (map branch_nest cs) = 0).
      { clear -Hl. induction cs as [|x xs IHx]; [reflexivity|]. cbn [forallb] in Hl.
        apply andb_prop in Hl. destruct Hl as [H1 H2]. cbn [map maxl]. rewrite (IHx H2).
        unfold branch_nest. apply negb_true_iff in H1. rewrite H1. reflexivity. }
      rewrite Hz. cbn [nest counts b2n]. lia.
  Qed.

  Lemma thens_value cs :
    Forall P cs ->
    forallb (fun c => match c with T ck ccs => if is_branch ck then forallb wf ccs else wf c end) cs = true ->
    forallb tree_all cs = true ->
    maxl (map (fun c => th c false) (flat_map (fun c => if is_branch (tkind c) then [] else [to_ts nm c]) cs))
    = maxl (map plain_nest cs).
  Proof.
    induction 1 as [|c cs Hc Hcs IH]; cbn [forallb flat_map map maxl]; [reflexivity|].
    intros Hw Ha. apply andb_prop in Hw. destruct Hw as [Hw Hws]. apply andb_prop in Ha. destruct Ha as [Ha Has].
    rewrite map_app, maxl_app, (IH Hws Has).
    destruct c as [k b]. change (plain_nest (T k b)) with (if is_branch k then 0 else nest (T k b)). cbn [tkind]. destruct (is_branch k) eqn:Hbr; cbn [map maxl]; [lia|].
    unfold P in Hc. cbn [tkind] in Hc. rewrite Hbr in Hc. unfold hgt in Hc. rewrite Hc; [lia| |exact Ha].
    unfold wfb. rewrite Hbr. exact Hw.
  Qed.

  Lemma split_nest cs : maxl (map nest cs) = Nat.max (maxl (map plain_nest cs)) (maxl (map branch_nest cs)).
  Proof.
    induction cs as [|c cs IH]; cbn [map maxl]; [reflexivity|]. rewrite IH.
    unfold plain_nest, branch_nest. destruct (is_branch (tkind c)); lia.
  Qed.

  Theorem hgt_is_nest t : P t.
  Proof.
    induction t as [k cs IH] using tree_ind'. unfold P. intros Hw Ha. cbn [tkind tkids].
    destruct (is_branch k) eqn:Hbr.
    - (* a branch node: statement about its children *)
      unfold wfb in Hw. rewrite Hbr in Hw. cbn [tree_all] in Ha. apply andb_prop in Ha. destruct Ha as [_ Ha].
      apply P_list; assumption.
    - unfold wfb in Hw. rewrite Hbr in Hw. cbn [wf] in Hw. rewrite Hbr in Hw. cbn [negb andb] in Hw.
      apply andb_prop in Hw. destruct Hw as [Hl Hw].
      cbn [tree_all] in Ha. apply andb_prop in Ha. destruct Ha as [Hk Ha].
      destruct (match k with KIf => true | _ => false end) eqn:Hisif.
      + (* the if statement *)
        assert (k = KIf) as -> by (destruct k; congruence).
        unfold hgt. rewrite to_ts_if. cbn [th]. fold nif nelse. rewrite Hif, Hifelse. cbn [andb negb b2n].
        rewrite maxl_map_const_add by discriminate. cbn [map maxl].
        rewrite th_blk by assumption.
        assert (Hw' : forallb (fun c => match c with T ck ccs => if is_branch ck then forallb wf ccs else wf c end) cs = true).
        { rewrite forallb_forall in Hw |- *. intros [ck ccs] Hin. specialize (Hw _ Hin). cbn beta iota in Hw.
          destruct (is_branch ck); [apply andb_prop in Hw; tauto | exact Hw]. }
        rewrite thens_value by assumption. rewrite chain_value by assumption.
        cbn [nest counts b2n]. rewrite split_nest. rewrite andb_false_r. cbn [andb negb b2n]. lia.
      + (* any other construct *)
        assert (Hne : k <> KIf) by (intros ->; discriminate).
        unfold hgt.
        assert (E : to_ts nm (T k cs) = N (n_of nm k) (body_of nm k (map (to_ts nm) cs))) by (destruct k; try reflexivity; congruence).
        rewrite E, th_generic by (try assumption; apply Hok; assumption).
        rewrite map_map. cbn [nest]. f_equal.
        apply P_list; [exact IH| |exact Ha].
        rewrite forallb_forall in Hw |- *. intros [ck ccs] Hin. specialize (Hw _ Hin). cbn beta iota in Hw.
        destruct (is_branch ck) eqn:Hb2; [|exact Hw].
        destruct k; cbn in Hw; try discriminate.
  Qed.

  (* calculate_max_depth on the node of a function with body `body`, for a start depth s *)
  Lemma calc_value (s : nat) (body_ty : string) fk name line col body :
    body_ty = n_block nm ->
    kind_facts (KFn fk name line col) = true ->
    n_blocked nm (KFn fk name line col) = true -> n_wrap nm (KFn fk name line col) = [] ->
    forallb wf body = true -> forallb tree_all body = true ->
    ts_calc_node types fix_ nm body_ty s (to_ts nm (T (KFn fk name line col) body)) = s + maxl (map nest body).
  Proof.
    intros -> Hf Hb Hwr Hw Ha.
    assert (E : to_ts nm (T (KFn fk name line col) body)
                = N (n_of nm (KFn fk name line col)) [blk (n_block nm) (map (to_ts nm) body)]).
    { cbn [to_ts]. unfold body_of. rewrite Hb, Hwr. reflexivity. }
    rewrite E. unfold ts_calc_node. cbn [nkids find blk nty]. rewrite String.eqb_refl. cbn [nkids].
    rewrite (maxl_map_ext _ (fun c => s + th c false)).
    2:{ apply Forall_forall. intros c _. fold nif nelse. apply ts_visit_shift. }
    rewrite maxl_map_const_add by (unfold blk; cbn [nkids]; discriminate). f_equal.
    unfold blk. cbn [nkids]. cbn [map maxl]. rewrite map_app, maxl_app. cbn [map maxl]. rewrite !th_plain by assumption. cbn [map maxl].
    rewrite map_map.
    assert (maxl (map hgt body) = maxl (map nest body)).
    { apply P_list; [|assumption|assumption]. apply Forall_forall. intros x _. apply hgt_is_nest. }
    unfold hgt in H. rewrite H. lia.
  Qed.
End Generic.
