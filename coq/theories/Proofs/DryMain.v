(* Proofs/DryMain.v — C03 main results.
   (1) Gen facts: what the translator read from src/linters/dry equals the hand-written reference leaf by
       leaf (proved by computation: editing the source breaks these).
   (2) Extensionality of the pipeline, hence  dry_model q = ref_report  whenever every flag of q is off
       or the input lies outside the flag's defect class (confinement).
   (3) The property clauses for ref_report (soundness, mutuality, completeness, exact count, no shared
       run => no violation), transported to dry_model. *)
From TL Require Import Lib.Base Lib.GenTypes Model.DryBase Model.DryPipe Gen.DryGen Model.Dry Model.DrySpec
     Proofs.DryGreedy Proofs.DryStageB Proofs.DryStageA.
From Coq Require Import Sorting.Sorted.

(* ------------------------------------------------------------------ (1) Gen facts *)
Lemma gen_markers : dry_comment_markers = ["#"; "//"].
Proof. reflexivity. Qed.
Lemma gen_norm_sep : dry_norm_sep = " ".
Proof. reflexivity. Qed.
Lemma gen_import_tables : dry_import_prefixes = ref_import_prefixes /\ dry_import_tokens = ref_brace_tokens.
Proof. split; reflexivity. Qed.
Lemma gen_skip : forall t st, dry_should_skip t st = ref_skip t st.
Proof. intros t st. reflexivity. Qed.
Lemma gen_py_analyzer : dry_py_first_line = 1 /\ dry_py_guard_cmp = CLt /\ dry_py_window_off = 1 /\ dry_py_snippet_sep = nl
                        /\ dry_py_win_start = WIdx 0 /\ dry_py_win_end = WFromEnd 0 /\ dry_py_line_sep = nl.
Proof. repeat split; reflexivity. Qed.
Lemma gen_ts_analyzer : dry_ts_first_line = 1 /\ dry_ts_guard_cmp = CLt /\ dry_ts_window_off = 1 /\ dry_ts_snippet_sep = nl
                        /\ dry_ts_win_start = WIdx 0 /\ dry_ts_win_end = WFromEnd 0 /\ dry_ts_line_sep = nl.
Proof. repeat split; reflexivity. Qed.
Lemma gen_languages : dry_languages = ["python"; "typescript"; "javascript"].
Proof. reflexivity. Qed.
Lemma gen_sql : dry_dup_cmp = CGe /\ dry_dup_min = 2 /\ dry_order_by = ["file_path"; "start_line"].
Proof. repeat split; reflexivity. Qed.
Lemma gen_sort_keys : dry_block_sort_key = "start_line" /\ dry_viol_sort_key = "line".
Proof. split; reflexivity. Qed.
Lemma gen_blocks_overlap : forall s1 e1 s2 e2, dry_blocks_overlap s1 e1 s2 e2 = (s1 <=? e2) && (s2 <=? e1).
Proof. reflexivity. Qed.
Lemma gen_meets : forall n k, dry_meets n k = negb (n =? 0) && (k <=? n).
Proof. intros n k. unfold dry_meets, dry_id_nat. destruct (n =? 0); reflexivity. Qed.
Lemma gen_line_count : forall s e, dry_line_count s e = e - s + 1.
Proof. reflexivity. Qed.
Lemma gen_column : dry_column = 1.
Proof. reflexivity. Qed.
Lemma gen_is_other : forall same ds de bs be, dry_is_other same ds de bs be = negb same || negb (ds =? bs).
Proof. reflexivity. Qed.
(* the overlap test of the violation filter as read from the source (repaired by fix f9c5945): a later violation
   overlaps a kept, earlier one iff it starts inside the EARLIER block's extent (count2) *)
Lemma gen_viol_overlap : forall l1 l2 c1 c2, dry_viol_overlap l1 l2 c1 c2 = (l1 <? l2 + c2).
Proof. reflexivity. Qed.
Lemma gen_extract_literals : dry_count_open = "(" /\ dry_count_open_off = 1 /\ dry_count_close = " lines".
Proof. repeat split; reflexivity. Qed.
Lemma gen_message_format :
  dry_msg_head = [DLit "Duplicate code ("; DLines; DLit " lines, "; DOcc; DLit " occurrences)"]
  /\ dry_msg_locs = [DLit ". Also found in: "; DLocs ", "]
  /\ dry_ref_format = [RPath; RLit ":"; RStart; RLit "-"; REnd].
Proof. repeat split; reflexivity. Qed.
Lemma gen_rule_id : dry_rule_id = "dry.duplicate-code".
Proof. reflexivity. Qed.
Lemma gen_config : dry_config_keys = ["dry"; "enabled"; "min_duplicate_lines"; "min_occurrences"; "storage_mode"]
                   /\ dry_default_min_lines = 3 /\ dry_default_min_occurrences = 2.
Proof. repeat split; reflexivity. Qed.

(* ------------------------------------------------------------------ (2) extensionality *)
Record aagree (P1 P2 : aparams) (ls : list aline) : Prop := {
  aa_norm : forall l, In l ls -> a_doc l = false -> p_norm P1 l = p_norm P2 l;
  aa_skip : forall t st, p_skip P1 t st = p_skip P2 t st;
  aa_first : p_first_line P1 = p_first_line P2;
  aa_guard : p_guard P1 = p_guard P2; aa_off : p_off P1 = p_off P2; aa_sep : p_sep P1 = p_sep P2;
  aa_ws : p_wstart P1 = p_wstart P2; aa_we : p_wend P1 = p_wend P2 }.

Lemma tokenize_from_ext P1 P2 : (forall t st, p_skip P1 t st = p_skip P2 t st) ->
  forall ls n st, (forall l, In l ls -> a_doc l = false -> p_norm P1 l = p_norm P2 l) -> tokenize_from P1 n st ls = tokenize_from P2 n st ls.
Proof.
  intros Hskip. induction ls as [|l rest IH]; intros n st Hn; [reflexivity|]. cbn [tokenize_from].
  assert (Hr : forall l0, In l0 rest -> a_doc l0 = false -> p_norm P1 l0 = p_norm P2 l0) by (intros l0 H0; apply Hn; right; exact H0).
  destruct (a_doc l) eqn:Ed; [apply IH; exact Hr|].
  rewrite (Hn l (or_introl eq_refl) Ed), Hskip. rewrite !(IH _ _ Hr). reflexivity.
Qed.

Lemma file_rows_ext P1 P2 W fi ls : aagree P1 P2 ls -> file_rows P1 W fi ls = file_rows P2 W fi ls.
Proof.
  intros [Hn Hs Hf Hg Ho Hsep Hws Hwe]. unfold file_rows, tokenize, window_list, mk_row.
  rewrite (tokenize_from_ext P1 P2 Hs ls _ _ Hn), Hf, Hg, Ho, Hsep, Hws, Hwe. reflexivity.
Qed.

Lemma all_rows_ext PA1 PA2 W files :
  (forall f, In f files -> aagree (PA1 (f_lang f)) (PA2 (f_lang f)) (f_lines f)) -> all_rows PA1 W files = all_rows PA2 W files.
Proof.
  unfold all_rows. generalize 0. induction files as [|f fs IH]; intros i H; [reflexivity|]. cbn [rows_from].
  rewrite (file_rows_ext _ _ W i _ (H f (or_introl eq_refl))). f_equal. apply IH. intros f' Hf'. apply H. right. exact Hf'.
Qed.

Record bagree (B1 B2 : bparams) : Prop := {
  ba_cmp : p_dup_cmp B1 = p_dup_cmp B2; ba_min : p_dup_min B1 = p_dup_min B2;
  ba_ovl : forall a b c d, p_blocks_overlap B1 a b c d = p_blocks_overlap B2 a b c d;
  ba_meets : forall n k, p_meets B1 n k = p_meets B2 n k;
  ba_lc : forall s e, p_line_count B1 s e = p_line_count B2 s e;
  ba_col : p_column B1 = p_column B2;
  ba_other : forall x a b c d, p_is_other B1 x a b c d = p_is_other B2 x a b c d }.

Lemma raw_viols_ext B1 B2 k rows : bagree B1 B2 -> raw_viols B1 k rows = raw_viols B2 k rows.
Proof.
  intros [Hc Hm Ho Hme Hlc Hcol Hot].
  assert (Hdup : dup_snips B1 rows = dup_snips B2 rows).
  { unfold dup_snips. do 2 f_equal. apply filter_ext. intros r. unfold is_dup. rewrite Hc, Hm. reflexivity. }
  assert (Hpl : forall s, places B1 s rows = places B2 s rows).
  { intros s. unfold places. apply greedy_ext. intros x y _ _. unfold blk_ovl. rewrite Ho. reflexivity. }
  unfold raw_viols. rewrite Hdup. apply flat_map_ext. intros s. unfold viols_of_snip. rewrite Hpl, Hme.
  destruct (p_meets B2 (List.length (places B2 s rows)) k); [|reflexivity].
  apply map_ext. intros b. unfold mk_viol. rewrite Hcol, Hlc. f_equal. f_equal. apply filter_ext. intros d. apply Hot.
Qed.

Lemma dedup_viols_ext B1 B2 raw :
  (forall v1 v2, In v1 raw -> In v2 raw -> v_ovl B1 v1 v2 = v_ovl B2 v1 v2) -> dedup_viols B1 raw = dedup_viols B2 raw.
Proof.
  intros H. unfold dedup_viols. apply flat_map_ext. intros f. unfold dedup_file. apply greedy_ext.
  assert (Hin : forall x, In x (isort v_line (filter (in_file f) raw)) -> In x raw).
  { intros x Hx. apply isort_In in Hx. apply filter_In in Hx. exact (proj1 Hx). }
  intros x y Hx [Hy|[]]. apply H; apply Hin; assumption.
Qed.

(* ------------------------------------------------------------------ defect classes (the complement of) *)
Definition code_plain (a : aline) : bool := negb (str_contains "#" (a_code a)) && negb (str_contains "//" (a_code a)).
Definition no_block (a : aline) : bool := match a_cmt a with CBlock _ => false | _ => true end.
Definition lines_ok (q : dquirks) (files : list afile) : Prop :=
  forall f a, In f files -> In a (f_lines f) ->
    (q_strip_in_code q = true -> a_doc a = false -> code_plain a = true) /\ (q_block_comment_kept q = true -> a_doc a = false -> no_block a = true).

(* --- textual comment stripping on a line whose code part holds no marker *)
Lemma strip_text_eq s : strip_text s = cut_at "//" (cut_at "#" s).
Proof. reflexivity. Qed.

Lemma cut_hash_app : forall a b, str_contains "#" a = false -> cut_at "#" (a ++ b) = (a ++ cut_at "#" b)%string.
Proof.
  induction a as [|c a IH]; intros b H; [reflexivity|].
  cbn [str_contains str_prefix] in H. rewrite andb_true_r in H. apply orb_false_iff in H. destruct H as [Hc Ha].
  cbn [String.append cut_at str_prefix]. rewrite andb_true_r, Hc. f_equal. exact (IH b Ha).
Qed.

Definition starts_slash (s : string) : bool := match s with String c _ => Ascii.eqb "/" c | EmptyString => false end.
Fixpoint ends_slash (s : string) : bool :=
  match s with EmptyString => false | String c EmptyString => Ascii.eqb "/" c | String _ s' => ends_slash s' end.

Lemma prefix_slashes c s : str_prefix "//" (String c s) = Ascii.eqb "/" c && starts_slash s.
Proof. cbn [str_prefix]. destruct s as [|d s]; cbn [starts_slash]; [rewrite andb_false_r; reflexivity|rewrite andb_true_r; reflexivity]. Qed.

Lemma cut_slashes_app : forall a b, str_contains "//" a = false -> (ends_slash a = false \/ starts_slash b = false) ->
  cut_at "//" (a ++ b) = (a ++ cut_at "//" b)%string.
Proof.
  induction a as [|c a IH]; intros b H Hb; [reflexivity|].
  change (str_contains "//" (String c a)) with (str_prefix "//" (String c a) || str_contains "//" a) in H.
  apply orb_false_iff in H. destruct H as [Hp Ha]. rewrite prefix_slashes in Hp.
  change ((String c a ++ b)%string) with (String c (a ++ b)).
  change (cut_at "//" (String c (a ++ b))) with (if str_prefix "//" (String c (a ++ b)) then EmptyString else String c (cut_at "//" (a ++ b))).
  rewrite prefix_slashes.
  assert (Hno : Ascii.eqb "/" c && starts_slash (a ++ b) = false).
  { destruct (Ascii.eqb "/" c) eqn:Ec; [|reflexivity]. cbn [andb] in *.
    destruct a as [|d a']; [|cbn [String.append starts_slash] in *; exact Hp].
    cbn [String.append]. destruct Hb as [Hb|Hb]; [cbn [ends_slash] in Hb; congruence|exact Hb]. }
  rewrite Hno. cbn [String.append]. f_equal. apply IH; [exact Ha|].
  destruct Hb as [Hb|Hb]; [|right; exact Hb]. left. destruct a as [|d a']; [reflexivity|exact Hb].
Qed.

Lemma cut_absent m : forall s, str_contains m s = false -> cut_at m s = s.
Proof.
  induction s as [|c s IH]; intros H; cbn [str_contains] in H; apply orb_false_iff in H; destruct H as [Hp Hs]; cbn [cut_at]; rewrite Hp; [reflexivity|].
  f_equal. exact (IH Hs).
Qed.

Lemma words_acc_trailing : forall s acc, words_acc acc (s ++ "  ") = words_acc acc s.
Proof.
  induction s as [|c s IH]; intros acc; [reflexivity|]. cbn [String.append words_acc]. destruct (is_ws c); rewrite IH; reflexivity.
Qed.

Lemma append_empty_r : forall s : string, (s ++ "")%string = s.
Proof. induction s as [|c s IH]; [reflexivity|]. cbn [String.append]. f_equal. exact IH. Qed.

Lemma append_assoc : forall a b c : string, ((a ++ b) ++ c)%string = (a ++ (b ++ c))%string.
Proof. induction a as [|x a IH]; intros b c; [reflexivity|]. cbn [String.append]. f_equal. apply IH. Qed.

Lemma norm_text_sep code : norm_text (code ++ cmt_sep code) = norm_text code.
Proof.
  unfold cmt_sep. destruct (str_empty code); [rewrite append_empty_r; reflexivity|].
  unfold norm_text, words. rewrite words_acc_trailing. reflexivity.
Qed.

Lemma contains_slashes_sep code : str_contains "//" code = false -> str_contains "//" (code ++ cmt_sep code) = false.
Proof.
  unfold cmt_sep. destruct (str_empty code); [rewrite append_empty_r; trivial|].
  induction code as [|c s IH]; intros H; [reflexivity|].
  change (str_contains "//" (String c s)) with (str_prefix "//" (String c s) || str_contains "//" s) in H.
  apply orb_false_iff in H. destruct H as [Hp Hs]. rewrite prefix_slashes in Hp.
  change ((String c s ++ "  ")%string) with (String c (s ++ "  ")).
  change (str_contains "//" (String c (s ++ "  "))) with (str_prefix "//" (String c (s ++ "  ")) || str_contains "//" (s ++ "  ")).
  rewrite (IH Hs), prefix_slashes, orb_false_r.
  destruct (Ascii.eqb "/" c); [|reflexivity]. cbn [andb] in *. destruct s; [reflexivity|exact Hp].
Qed.

Lemma strip_line_comment l code t : str_contains "#" code = false -> str_contains "//" code = false ->
  strip_text (code ++ render_cmt l code (CLine t)) = (code ++ cmt_sep code)%string.
Proof.
  intros Hh Hs. rewrite strip_text_eq. cbn [render_cmt]. rewrite (cut_hash_app code _ Hh).
  assert (Hsep : ends_slash (code ++ cmt_sep code) = false \/ forall x, starts_slash x = starts_slash x) by (right; reflexivity).
  destruct l; cbn [line_marker].
  - (* Python: `#` starts the comment *)
    assert (E : cut_at "#" (cmt_sep code ++ "#" ++ t) = cmt_sep code) by (unfold cmt_sep; destruct (str_empty code); reflexivity).
    rewrite E. apply cut_absent. apply contains_slashes_sep. exact Hs.
  - (* TS/JS: the comment text may hold a `#`; the `//` cut removes what is left of it *)
    assert (E : cut_at "#" (cmt_sep code ++ "//" ++ t) = (cmt_sep code ++ "//" ++ cut_at "#" t)%string)
      by (unfold cmt_sep; destruct (str_empty code); reflexivity).
    rewrite E. rewrite <- append_assoc. rewrite cut_slashes_app.
    + cbn [cut_at str_prefix String.append]. rewrite !Ascii.eqb_refl. cbn [andb]. rewrite append_empty_r. reflexivity.
    + apply contains_slashes_sep. exact Hs.
    + left. unfold cmt_sep. destruct code as [|c s]; [reflexivity|]. cbn [str_empty].
      clear. revert c. induction s as [|d s IH]; intros c; [reflexivity|]. cbn [String.append ends_slash] in *. apply IH.
Qed.

Lemma norm_confined q l a :
  (q_strip_in_code q = true -> code_plain a = true) -> (q_block_comment_kept q = true -> no_block a = true) ->
  norm q l a = ref_norm a.
Proof.
  intros Hs Hb. unfold norm, ref_norm. change (join " " (words (a_code a))) with (norm_text (a_code a)).
  destruct (q_strip_in_code q) eqn:Es.
  - specialize (Hs eq_refl). unfold code_plain in Hs. apply andb_true_iff in Hs. rewrite !negb_true_iff in Hs. destruct Hs as [Hh Hsl].
    assert (Hplain : strip_text (a_code a) = a_code a) by (rewrite strip_text_eq, (cut_absent "#" _ Hh), (cut_absent "//" _ Hsl); reflexivity).
    destruct (a_cmt a) as [|t|t] eqn:Ec.
    + cbn [render_cmt]. rewrite append_empty_r, Hplain. reflexivity.
    + rewrite (strip_line_comment l _ t Hh Hsl). apply norm_text_sep.
    + destruct (q_block_comment_kept q); [specialize (Hb eq_refl); unfold no_block in Hb; rewrite Ec in Hb; discriminate|].
      rewrite Hplain. reflexivity.
  - destruct (a_cmt a) as [|t|t] eqn:Ec; [reflexivity|reflexivity|].
    destruct (q_block_comment_kept q); [specialize (Hb eq_refl); unfold no_block in Hb; rewrite Ec in Hb; discriminate|reflexivity].
Qed.

(* ------------------------------------------------------------------ model = reference *)
Lemma model_rows_eq q W files : lines_ok q files -> dry_rows q W files = ref_rows W files.
Proof.
  intros Hok. unfold dry_rows, ref_rows. apply all_rows_ext. intros f Hf.
  assert (Hn : forall l a, In a (f_lines f) -> a_doc a = false -> norm q l a = ref_norm a).
  { intros l a Ha Hd. destruct (Hok f a Hf Ha) as [H1 H2]. apply norm_confined; intros E; [apply H1|apply H2]; assumption. }
  destruct (f_lang f); constructor; try reflexivity; try (intros; apply gen_skip); intros a Ha Hd; apply Hn; assumption.
Qed.

Lemma model_bagree q : bagree (model_bparams q) ref_bparams.
Proof.
  constructor; try reflexivity.
  - intros n k. apply gen_meets.
Qed.

(* No hypothesis on q_overlap_asym: with the flag on the model uses the overlap test of the source, which is the
   documented one (gen_viol_overlap). *)
Theorem model_eq_ref q W k files : lines_ok q files -> dry_model q W k files = ref_report W k files.
Proof.
  intros Hl. unfold dry_model, ref_report, pipeline. fold (dry_rows q W files). fold (ref_rows W files).
  rewrite (model_rows_eq q W files Hl). unfold report.
  rewrite (raw_viols_ext _ _ k (ref_rows W files) (model_bagree q)).
  apply dedup_viols_ext. intros v1 v2 _ _. unfold v_ovl. cbn [p_viol_overlap model_bparams ref_bparams].
  destruct (q_overlap_asym q); [apply gen_viol_overlap|reflexivity].
Qed.

Lemma lines_ok_off q files : q_strip_in_code q = false -> q_block_comment_kept q = false -> lines_ok q files.
Proof. intros H1 H2 f a _ _. rewrite H1, H2. split; intros; discriminate. Qed.

Theorem model_eq_ref_off q W k files :
  q_strip_in_code q = false -> q_block_comment_kept q = false -> dry_model q W k files = ref_report W k files.
Proof. intros H1 H2. apply model_eq_ref. exact (lines_ok_off q files H1 H2). Qed.

(* ------------------------------------------------------------------ (3) the property, for the reference *)
Section Property.
  Variables (W k : nat) (files : list afile).
  Hypothesis HW : 1 <= W.
  Hypothesis Hk : 2 <= k.
  Let rows := ref_rows W files.
  Let R := ref_report W k files.
  Let Hok : rows_ok rows := ref_rows_ok W files HW.

  Theorem ref_sound : sound files W R.
  Proof.
    intros v Hv. destruct (report_refs k rows Hok Hk v Hv) as [Hne Hrefs]. split; [exact Hne|].
    assert (Hblock : forall b, In b rows -> (r_file b, r_start b, r_end b) = (v_file v, v_line v, v_end v) ->
                     v_text files v = canon_range (nth_file files (r_file b)) (r_start b) (r_end b)).
    { intros b _ E. inversion E as [[E1 E2 E3]]. unfold v_text. rewrite E1, E2, E3. reflexivity. }
    split.
    - (* the block has exactly W code lines *)
      destruct (v_refs v) as [|[[f s] e] rest] eqn:Er; [contradiction|].
      destruct (Hrefs f s e (or_introl eq_refl)) as [_ [b [d [Hb [_ [_ [Eb _]]]]]]].
      rewrite (Hblock b Hb Eb). destruct (ref_row_text W files b HW Hb) as [Hl _]. cbn zeta in Hl. lia.
    - intros f s e Hin. destruct (Hrefs f s e Hin) as [Hneq [b [d [Hb [Hd [Hs [Eb Ed]]]]]]]. split; [exact Hneq|].
      rewrite (Hblock b Hb Eb). inversion Ed; subst f s e. apply (ref_rows_same_text W files d b HW Hd Hb Hs).
  Qed.

  Theorem ref_mutual : mutual R.
  Proof. exact (report_mutual k rows Hok Hk). Qed.

  Theorem ref_count : forall v, In v R -> count_ok rows v.
  Proof. exact (report_count k rows Hok Hk). Qed.

  Theorem ref_complete : complete rows k R.
  Proof. exact (report_complete k rows Hok Hk). Qed.

  Theorem ref_none : (forall a b, In a rows -> In b rows -> r_snip a = r_snip b -> a = b) -> R = [].
  Proof. intros H. exact (report_none k rows (rows_nodup rows Hok) H). Qed.

  (* two places (file j1 / offset of w1, file j2 / offset of w2) whose W code lines are equal one by one
     are two stored rows with the same snippet *)
  Theorem shared_run_rows j1 f1 pre1 w1 post1 j2 f2 pre2 w2 post2 :
    nth_error files j1 = Some f1 -> ref_stream f1 = pre1 ++ w1 ++ post1 -> List.length w1 = W ->
    nth_error files j2 = Some f2 -> ref_stream f2 = pre2 ++ w2 ++ post2 -> List.length w2 = W ->
    map snd w1 = map snd w2 ->
    exists b1 b2, In b1 rows /\ In b2 rows /\ r_snip b1 = r_snip b2 /\
      r_file b1 = j1 /\ r_start b1 = fst (hd (0, "") w1) /\ r_end b1 = fst (last w1 (0, "")) /\
      r_file b2 = j2 /\ r_start b2 = fst (hd (0, "") w2) /\ r_end b2 = fst (last w2 (0, "")).
  Proof.
    intros N1 S1 L1 N2 S2 L2 E.
    destruct (ref_rows_window W files j1 f1 pre1 w1 post1 HW N1 S1 L1) as [b1 [Hb1 [F1 [Sn1 [St1 En1]]]]].
    destruct (ref_rows_window W files j2 f2 pre2 w2 post2 HW N2 S2 L2) as [b2 [Hb2 [F2 [Sn2 [St2 En2]]]]].
    exists b1, b2. repeat split; try assumption. rewrite Sn1, Sn2, E. reflexivity.
  Qed.
End Property.

(* ------------------------------------------------------------------ the property, for the model *)
Theorem dry_property q W k files : 1 <= W -> 2 <= k ->
  lines_ok q files ->
  let R := dry_model q W k files in
  sound files W R /\ mutual R /\ (forall v, In v R -> count_ok (ref_rows W files) v) /\ complete (ref_rows W files) k R
  /\ ((forall a b, In a (ref_rows W files) -> In b (ref_rows W files) -> r_snip a = r_snip b -> a = b) -> R = []).
Proof.
  intros HW Hk Hl. cbn zeta. rewrite (model_eq_ref q W k files Hl).
  split; [exact (ref_sound W k files HW Hk)|]. split; [exact (ref_mutual W k files HW Hk)|].
  split; [exact (ref_count W k files HW Hk)|]. split; [exact (ref_complete W k files HW Hk)|exact (ref_none W k files HW)].
Qed.
