(* Proofs/PerfConcatRename.v — identifier renaming commutes with the string-concat detector (the two locality flags
   off): for a one-to-one renaming that keeps `str` apart and moves no name into or out of the name table in force
   (the documented names when q_concat_name_table = false, the code's longer table otherwise),  concat_reports q (renameF sg file) = map (renameR sg) (concat_reports q file). *)
From TL Require Import Lib.Base Lib.GenTypes Gen.EmbedGen Model.Embed Model.PrintStmt Model.PerfConcat
     Proofs.EmbedLocality Proofs.PrintStmtLocal Proofs.PerfConcatLocal.

Definition renS (sg : string -> string) (s : list entry) : list entry := map (fun e => (fst e, sg (snd e))) s.
Definition inj (sg : string -> string) : Prop := forall x y, sg x = sg y -> x = y.
Definition cc_sigma_ok (sg : string -> string) : Prop := inj sg /\ keeps sg sc_str_func.

Lemma ncls_rename sg t : ncls (rename sg t) = ncls t.
Proof. destruct t. reflexivity. Qed.
Lemma nkids_rename sg t : nkids (rename sg t) = map (rename sg) (nkids t).
Proof. destruct t. reflexivity. Qed.
Lemma loop_type_rename sg t : loop_type (rename sg t) = loop_type t.
Proof. unfold loop_type. now rewrite ncls_rename. Qed.
Lemma is_scope_rename sg t : is_scope (rename sg t) = is_scope t.
Proof. unfold is_scope. now rewrite ncls_rename. Qed.

Lemma eqb_inj sg x y : inj sg -> String.eqb (sg x) (sg y) = String.eqb x y.
Proof.
  intro H. destruct (String.eqb_spec x y) as [->|N]; [apply String.eqb_refl|].
  apply String.eqb_neq. intro E. apply N. now apply H.
Qed.

Lemma smem_map_inj sg x l : inj sg -> smem (sg x) (map sg l) = smem x l.
Proof. intro H. induction l as [|y ys IH]; cbn [map smem]; [reflexivity|]. now rewrite (eqb_inj sg x y H), IH. Qed.

Lemma in_strs_ren sg x s : inj sg -> in_strs (sg x) (renS sg s) = in_strs x s.
Proof.
  intro H. unfold in_strs, renS. induction s as [|[b y] s IH]; cbn [map existsb fst snd]; [reflexivity|].
  now rewrite (eqb_inj sg y x H), IH.
Qed.
Lemma in_nons_ren sg x s : inj sg -> in_nons (sg x) (renS sg s) = in_nons x s.
Proof.
  intro H. unfold in_nons, renS. induction s as [|[b y] s IH]; cbn [map existsb fst snd]; [reflexivity|].
  now rewrite (eqb_inj sg y x H), IH.
Qed.

Lemma renS_app sg a b : renS sg (a ++ b) = renS sg a ++ renS sg b.
Proof. apply map_app. Qed.

Lemma is_string_value_rename sg v : is_string_value (rename sg v) = is_string_value v.
Proof. unfold is_string_value. now rewrite !is_cls_rename, nckind_rename. Qed.
Lemma is_non_string_value_rename sg v : is_non_string_value (rename sg v) = is_non_string_value v.
Proof. unfold is_non_string_value. now rewrite ncls_rename, is_cls_rename, nckind_rename. Qed.

Lemma nsval_rename_ident sg c t :
  String.eqb c "Constant" = false -> is_cls c t = true -> nsval (rename sg t) = sg (nsval t).
Proof.
  intros Hc H. destruct t as [i ks]. unfold is_cls, ncls in H. cbn [ninfo] in H. apply String.eqb_eq in H.
  unfold nsval. cbn [rename ninfo rename_info sval]. rewrite H, Hc. reflexivity.
Qed.

Lemma name_targets_rename sg c ts :
  String.eqb c "Constant" = false -> name_targets c (map (rename sg) ts) = map sg (name_targets c ts).
Proof.
  intro Hc. unfold name_targets. induction ts as [|t ts IH]; cbn [map filter]; [reflexivity|].
  rewrite is_cls_rename. destruct (is_cls c t) eqn:E; cbn [map]; [|exact IH].
  now rewrite (nsval_rename_ident sg c t Hc E), IH.
Qed.

Definition ren_pair (sg : string -> string) (p : ast * list string) : ast * list string :=
  (rename sg (fst p), map sg (snd p)).

Lemma assigned_rename sg asg ann tc atc e :
  String.eqb tc "Constant" = false -> String.eqb atc "Constant" = false ->
  assigned asg ann tc atc (rename sg e) = option_map (ren_pair sg) (assigned asg ann tc atc e).
Proof.
  intros H1 H2. unfold assigned. rewrite !is_cls_rename, !field_rename.
  destruct (is_cls asg e).
  - destruct (field "value" e) as [|v [|v' r]]; cbn [map option_map]; try reflexivity.
    unfold ren_pair. cbn [fst snd]. now rewrite (name_targets_rename sg tc _ H1).
  - destruct (is_cls ann e); [|reflexivity].
    destruct (field "value" e) as [|v [|v' r]]; cbn [map option_map]; try reflexivity.
    destruct (field "target" e) as [|x [|x' r']]; cbn [map option_map]; try reflexivity.
    unfold ren_pair. cbn [fst snd]. now rewrite <- (name_targets_rename sg atc [x] H2).
Qed.

Lemma cl_node_rename sg t : cl_node (rename sg t) = renS sg (cl_node t).
Proof.
  unfold cl_node. rewrite !is_cls_rename, erase_rename.
  destruct (is_cls sc_assign_cls t || is_cls sc_annassign_cls t); [|reflexivity].
  rewrite (assigned_rename sg sc_assign_cls sc_annassign_cls sc_target_cls sc_target_cls (erase t) eq_refl eq_refl).
  destruct (assigned sc_assign_cls sc_annassign_cls sc_target_cls sc_target_cls (erase t)) as [[v xs]|]; [|reflexivity].
  cbn [option_map ren_pair fst snd]. rewrite is_string_value_rename, is_non_string_value_rename.
  unfold renS. destruct (is_string_value v); [now rewrite !map_map|].
  destruct (is_non_string_value v); [now rewrite !map_map|reflexivity].
Qed.

Lemma classify_sc_rename sg t : classify_sc (rename sg t) = renS sg (classify_sc t).
Proof.
  induction t as [i ks IH] using ast_ind'.
  rewrite rename_node, classify_sc_node. rewrite <- rename_node.
  rewrite is_scope_rename, cl_node_rename, classify_sc_node.
  destruct (is_scope (Node i ks)); [reflexivity|]. rewrite renS_app. f_equal.
  rewrite flat_map_map. apply (flat_map_mapped (renS sg)); [apply renS_app|reflexivity|exact IH].
Qed.

Lemma classify_scF_rename sg ts : classify_scF (renameF sg ts) = renS sg (classify_scF ts).
Proof.
  unfold classify_scF, renameF. rewrite flat_map_map.
  apply (flat_map_mapped (renS sg)); [apply renS_app|reflexivity|].
  apply Forall_forall. intros k _. apply classify_sc_rename.
Qed.

Lemma own_resets_rename sg t : own_resets (rename sg t) = map sg (own_resets t).
Proof.
  unfold own_resets. rewrite !is_cls_rename, erase_rename.
  destruct (is_cls sc_reset_assign_cls t || is_cls sc_reset_annassign_cls t); [|reflexivity].
  rewrite (assigned_rename sg _ _ sc_reset_target_cls sc_reset_ann_target_cls (erase t) eq_refl eq_refl).
  destruct (assigned sc_reset_assign_cls sc_reset_annassign_cls sc_reset_target_cls sc_reset_ann_target_cls (erase t)) as [[v xs]|]; [|reflexivity].
  cbn [option_map ren_pair fst snd]. rewrite is_string_value_rename. destruct (is_string_value v); reflexivity.
Qed.

Lemma csa_rename_strong sg t :
  csa (rename sg t) = map sg (csa t) /\ Forall (fun h => csa (rename sg h) = map sg (csa h)) (nkids t).
Proof.
  induction t as [i ks IH] using ast_ind'.
  assert (Hk : Forall (fun h => csa (rename sg h) = map sg (csa h)) ks).
  { eapply Forall_impl; [|exact IH]. intros k [H _]. exact H. }
  split; [|exact Hk].
  rewrite rename_node, csa_node. rewrite <- rename_node.
  rewrite own_resets_rename, !is_cls_rename, csa_node, map_app. f_equal.
  destruct (is_cls sc_if_cls (Node i ks)).
  - rewrite flat_map_map. apply (flat_map_mapped (map sg)); [apply map_app|reflexivity|].
    eapply Forall_impl; [|exact Hk]. intros k H. cbn beta. rewrite nrole_rename.
    destruct (smem (nrole k) sc_if_fields); [exact H|reflexivity].
  - destruct (is_cls sc_try_cls (Node i ks)); [|reflexivity].
    rewrite flat_map_map. apply (flat_map_mapped (map sg)); [apply map_app|reflexivity|].
    eapply Forall_impl; [|exact IH]. intros k [H1 H2]. cbn beta. rewrite nrole_rename.
    destruct (smem (nrole k) sc_try_fields); [exact H1|].
    destruct (String.eqb (nrole k) sc_try_handlers_field); [|reflexivity].
    rewrite nkids_rename, flat_map_map. apply (flat_map_mapped (map sg)); [apply map_app|reflexivity|].
    eapply Forall_impl; [|exact H2]. intros h Hh. cbn beta. rewrite nrole_rename.
    destruct (String.eqb (nrole h) sc_handler_body_field); [exact Hh|reflexivity].
Qed.

Lemma resets_rename sg t : resets (rename sg t) = map sg (resets t).
Proof.
  unfold resets. rewrite ncls_rename, field_rename.
  destruct (smem (ncls t) sc_reset_loop_classes); [|reflexivity].
  rewrite flat_map_map. apply (flat_map_mapped (map sg)); [apply map_app|reflexivity|].
  apply Forall_forall. intros k _. apply csa_rename_strong.
Qed.

Definition ren_aug (sg : string -> string) (p : string * ast) : string * ast := (sg (fst p), rename sg (snd p)).

Lemma aug_parts_rename sg e : aug_parts (rename sg e) = option_map (ren_aug sg) (aug_parts e).
Proof.
  unfold aug_parts. rewrite is_cls_rename, !field_rename.
  destruct (is_cls sc_aug_cls e); [|reflexivity].
  destruct (field "op" e) as [|o [|o' r]]; cbn [map option_map]; try reflexivity.
  destruct (field "target" e) as [|x [|x' r']]; cbn [map option_map]; try reflexivity.
  destruct (field "value" e) as [|v [|v' r'']]; cbn [map option_map]; try reflexivity.
  rewrite !is_cls_rename. destruct (is_cls sc_aug_op_cls o); cbn [andb option_map]; [|reflexivity].
  destruct (is_cls sc_aug_target_cls x) eqn:E; cbn [option_map]; [|reflexivity].
  unfold ren_aug. cbn [fst snd]. now rewrite (nsval_rename_ident sg sc_aug_target_cls x eq_refl E).
Qed.

Lemma is_str_call_rename sg v : keeps sg sc_str_func -> is_str_call (rename sg v) = is_str_call v.
Proof.
  intro H. unfold is_str_call. rewrite is_cls_rename, field_rename.
  destruct (field "func" v) as [|f [|f' r]]; cbn [map]; try reflexivity.
  now rewrite (named_rename_ident sg sc_call_func_cls sc_str_func f eq_refl H).
Qed.

Lemma is_string_binop_rename sg v : is_string_binop (rename sg v) = is_string_binop v.
Proof.
  unfold is_string_binop. rewrite is_cls_rename, !field_rename.
  destruct (field "op" v) as [|o [|o' r]]; cbn [map]; try reflexivity.
  destruct (field "left" v) as [|l [|l' r']]; cbn [map]; try reflexivity.
  destruct (field "right" v) as [|x [|x' r'']]; cbn [map]; try reflexivity.
  now rewrite is_cls_rename, !is_string_value_rename.
Qed.

Section Ren.
  Variables (q : cquirks) (sg : string -> string).
  (* the renaming moves no name into or out of the name table in force *)
  Hypothesis Hn : forall x, smem (lower (sg x)) (name_table q) = smem (lower x) (name_table q).
  Hypothesis Hs : cc_sigma_ok sg.

  Lemma likely_rename s x v : likely q (renS sg s) (sg x) (rename sg v) = likely q s x v.
  Proof.
    destruct Hs as [Hi Hk]. unfold likely. rewrite (in_nons_ren sg x s Hi), (in_strs_ren sg x s Hi).
    rewrite is_string_value_rename, (is_str_call_rename sg v Hk), is_string_binop_rename.
    now rewrite Hn.
  Qed.

  Lemma cand_here_rename s l r t :
    cand_here q (renS sg s) l (map sg r) (rename sg t) = map (renameR sg) (cand_here q s l r t).
  Proof.
    unfold cand_here. rewrite is_cls_rename, erase_rename, aug_parts_rename.
    destruct (is_cls sc_aug_cls t); [|reflexivity].
    destruct (aug_parts (erase t)) as [[x v]|]; [|reflexivity].
    cbn [option_map ren_aug fst snd]. rewrite likely_rename, (smem_map_inj sg x r (proj1 Hs)).
    destruct (negb (smem x r) && likely q s x v); destruct t as [i ks]; reflexivity.
  Qed.

  Lemma enter_rename s t : enter q (renS sg s) (rename sg t) = renS sg (enter q s t).
  Proof.
    unfold enter. destruct (q_concat_global_names q); [reflexivity|].
    rewrite is_scope_rename, nkids_rename. destruct (is_scope t); [|reflexivity]. apply classify_scF_rename.
  Qed.

  Lemma cw_rename l r t : forall s,
    cw q (renS sg s) l (map sg r) (rename sg t) = map (renameR sg) (cw q s l r t).
  Proof.
    induction t as [i ks IH] using ast_ind'. intro s.
    rewrite rename_node, cw_node. rewrite <- rename_node.
    rewrite loop_type_rename, enter_rename, cand_here_rename, cw_node.
    destruct (loop_type (Node i ks)); [reflexivity|]. rewrite map_app. f_equal.
    rewrite flat_map_map. apply (flat_map_mapped (map (renameR sg))); [apply map_app|reflexivity|].
    eapply Forall_impl; [|exact IH]. intros k Hk. apply Hk.
  Qed.

  Lemma nodup_name_rename l : forall seen,
    nodup_name (map sg seen) (map (renameR sg) l) = map (renameR sg) (nodup_name seen l).
  Proof.
    induction l as [|r rs IH]; intro seen; [reflexivity|]. cbn [map nodup_name].
    assert (E : snd (renameR sg r) = sg (snd r)) by (destruct r as [[[a b] p] x]; reflexivity).
    rewrite E, (smem_map_inj sg (snd r) seen (proj1 Hs)).
    destruct (smem (snd r) seen); [apply IH|]. cbn [map]. f_equal. apply (IH (snd r :: seen)).
  Qed.

  Lemma cl_step_rename s t : cl_step q (renS sg s) (rename sg t) = renS sg (cl_step q s t).
  Proof. apply enter_rename. Qed.

  Lemma cl_emit_rename s t : cl_emit q (renS sg s) (rename sg t) = map (renameR sg) (cl_emit q s t).
  Proof.
    unfold cl_emit. rewrite loop_type_rename, resets_rename, nkids_rename.
    destruct (loop_type t) as [l|]; [|reflexivity].
    rewrite <- (nodup_name_rename _ []). cbn [map]. f_equal. rewrite flat_map_map.
    apply (flat_map_mapped (map (renameR sg))); [apply map_app|reflexivity|].
    apply Forall_forall. intros k _. apply cw_rename.
  Qed.

  Theorem concat_rename file :
    q_concat_global_names q = false -> q_concat_dedup_by_name q = false ->
    concat_reports q (renameF sg file) = map (renameR sg) (concat_reports q file).
  Proof.
    intros Hg Hd. rewrite !(concat_reports_ideal q _ Hg Hd), classify_scF_rename.
    apply (renameF_commutes (cl_step q) (cl_emit q) sg (renS sg) (renameR sg) cl_step_rename cl_emit_rename).
  Qed.
End Ren.
