(* Proofs/CfgLocProofs.v — `config set / get / reset` without --config over the default-location chain (Model/CfgLoc.v):
   whatever stands at the locations (absent, unreadable, invalid, valid files in any combination), a rejected set and a get
   change no file at any location, an accepted set writes exactly the save location with a configuration that validates and
   holds the value, the next load finds it there (the save location is the first one searched - read from the source), and over
   every history the trace specification holds. *)
From TL Require Import Lib.Base Lib.GenTypes Model.CfgTypes Gen.CfgToolGen Model.CfgMerge Model.CfgCli Model.CfgLoc
     Proofs.CfgLines Proofs.CfgCliProofs.
From Coq Require Import ZArith NArith.

(* ------------------------------------------------------------------ literals of the source *)
(* save_config(None) writes the location load_config(None) looks at FIRST; the chain has the five documented places *)
Lemma gen_save_first : save_location_index = 0. Proof. reflexivity. Qed.
Lemma gen_locations :
  config_locations = [("cwd", "config.yaml"); ("cwd", "config.json"); ("home", ".config/{{PROJECT_NAME}}/config.yaml");
                      ("home", ".config/{{PROJECT_NAME}}/config.json"); ("abs", "/etc/{{PROJECT_NAME}}/config.yaml")].
Proof. reflexivity. Qed.

(* ------------------------------------------------------------------ the chain *)
Lemma load_chain_kept ls : kept (load_chain ls).
Proof.
  induction ls as [|a r IH]; [exact kept_default|]. destruct a as [| |kv]; cbn [load_chain]; try exact IH.
  destruct (valid (merge_cfg default_config (normalize kv))); [apply kept_loaded|exact IH].
Qed.

(* a kept, valid configuration written to the first location is what the next load yields (up to lookups) *)
Lemma load_chain_head c r : kept c -> valid c = true ->
  kept (load_chain (LFile c :: r)) /\ forall k, lookup k (load_chain (LFile c :: r)) = lookup k c.
Proof.
  intros Hk Hv. cbn [load_chain]. set (m := merge_cfg default_config (normalize c)).
  assert (Hm : valid m = true) by (rewrite (valid_ext m c); [exact Hv|intro k; now apply reload_lookup]).
  rewrite Hm. split; [apply kept_loaded|]. intro k. now apply reload_lookup.
Qed.

Lemma write_first x ls : exists r, write_loc save_location_index x ls = x :: r.
Proof. rewrite gen_save_first. destruct ls as [|a r]; [now exists []|now exists r]. Qed.

(* the other locations are not touched by a write *)
Lemma nth_write_other n x ls m : m <> n -> nth m (write_loc n x ls) LAbsent = nth m ls LAbsent.
Proof.
  revert ls m. induction n as [|n IH]; intros ls m Hm.
  - destruct ls as [|a r]; destruct m as [|m]; try congruence; cbn [write_loc nth]; [now destruct m|reflexivity].
  - destruct ls as [|a r]; destruct m as [|m]; cbn [write_loc nth]; try reflexivity.
    + rewrite IH by congruence. now destruct m.
    + apply IH. congruence.
Qed.

Lemma nth_write_same n x ls : nth n (write_loc n x ls) LAbsent = x.
Proof. revert ls. induction n as [|n IH]; intro ls; destruct ls as [|a r]; cbn [write_loc nth]; try reflexivity; apply IH. Qed.

(* ------------------------------------------------------------------ single steps *)
Theorem lrejected_set_leaves_files q ls k t :
  lo_rc (lstep q ls (CSet k t)) <> 0 -> lo_files (lstep q ls (CSet k t)) = ls.
Proof.
  unfold lstep. destruct (valid (upd (ckey_set q k) (convert t) (load_chain ls))); [cbn [lo_rc]; congruence|reflexivity].
Qed.

Theorem lget_leaves_files q ls k : lo_files (lstep q ls (CGet k)) = ls.
Proof. unfold lstep. now destruct (lookup (ckey_get q k) (load_chain ls)). Qed.

(* an accepted set writes the save location only, with a configuration that validates and holds the converted value *)
Theorem laccepted_set_writes q ls k t :
  lo_rc (lstep q ls (CSet k t)) = 0 ->
  exists c, nth save_location_index (lo_files (lstep q ls (CSet k t))) LAbsent = LFile c /\ valid c = true
            /\ lookup (norm k) c = Some (convert t)
            /\ forall m, m <> save_location_index -> nth m (lo_files (lstep q ls (CSet k t))) LAbsent = nth m ls LAbsent.
Proof.
  unfold lstep. rewrite (ckey_set_norm q k).
  destruct (valid (upd (norm k) (convert t) (load_chain ls))) eqn:Hv; [|cbn [lo_rc]; intro H; now destruct exit_codes as (_ & E & _)].
  intros _. cbn [lo_files]. eexists. split; [apply nth_write_same|]. split; [exact Hv|]. split.
  - now rewrite lookup_upd, String.eqb_refl.
  - intros m Hm. now apply nth_write_other.
Qed.

Theorem lset_then_get q ls k t :
  lo_rc (lstep q ls (CSet k t)) = 0 ->
  let ls' := lo_files (lstep q ls (CSet k t)) in
  lstep q ls' (CGet k) = Build_lobs 0 (Some (show (convert t))) ls'.
Proof.
  unfold lstep at 1 2. rewrite (ckey_set_norm q k).
  destruct (valid (upd (norm k) (convert t) (load_chain ls))) eqn:Hv; [|cbn [lo_rc]; intro H; now destruct exit_codes as (_ & E & _)].
  intros _. cbn [lo_files]. cbv zeta.
  destruct (write_first (LFile (upd (norm k) (convert t) (load_chain ls))) ls) as (r & ->).
  assert (Hk : kept (upd (norm k) (convert t) (load_chain ls))) by (apply kept_upd; [apply load_chain_kept|apply norm_idem]).
  destruct (load_chain_head _ r Hk Hv) as (_ & Hl).
  unfold lstep. rewrite (ckey_get_norm q k), Hl, lookup_upd, String.eqb_refl. reflexivity.
Qed.

(* ------------------------------------------------------------------ histories *)
Lemma lfile_eqb_refl a : lfile_eqb a a = true.
Proof. destruct a as [| |c]; try reflexivity. cbn [lfile_eqb]. apply (file_eqb_refl (Some c)). Qed.
Lemma lstate_eqb_refl ls : lstate_eqb ls ls = true.
Proof. unfold lstate_eqb. induction ls as [|a r IH]; [reflexivity|]. cbn [list_eqb]. now rewrite lfile_eqb_refl, IH. Qed.

Lemma changed_ok_refl k v ls : changed_ok k v ls ls = true.
Proof. induction ls as [|a r IH]; [reflexivity|]. cbn [changed_ok]. now rewrite lfile_eqb_refl, IH. Qed.

Lemma changed_ok_write k v x n ls : lstored_ok k v x = true -> changed_ok k v ls (write_loc n x ls) = true.
Proof.
  intro Hx. revert ls. induction n as [|n IH]; intro ls; destruct ls as [|a r]; cbn [write_loc changed_ok forallb].
  - now rewrite Hx, orb_true_r.
  - now rewrite Hx, orb_true_r, changed_ok_refl.
  - specialize (IH []). destruct (write_loc n x []) eqn:Hw; cbn [changed_ok] in IH; [reflexivity|]. exact IH.
  - now rewrite lfile_eqb_refl, IH.
Qed.

Lemma stored_write k v x n ls : lstored_ok k v x = true -> existsb (lstored_ok k v) (write_loc n x ls) = true.
Proof.
  intro Hx. revert ls. induction n as [|n IH]; intro ls; destruct ls as [|a r]; cbn [write_loc existsb].
  - now rewrite Hx.
  - now rewrite Hx.
  - now rewrite IH, orb_true_r.
  - now rewrite IH, orb_true_r.
Qed.

(* what an accepted set stores meets the documented validity and holds the value under the normalised key *)
Lemma stored_ok_upd conf k t : kept conf -> valid (upd (norm k) (convert t) conf) = true ->
  stored_ok k (convert t) (Some (upd (norm k) (convert t) conf)) = true.
Proof.
  intros Hkept Hv. set (conf' := upd (norm k) (convert t) conf) in *.
  assert (Hk' : kept conf') by (apply kept_upd; [exact Hkept|apply norm_idem]).
  unfold stored_ok. rewrite <- valid_is_documented. rewrite (valid_ext _ conf') by (intro x; now apply reload_lookup).
  rewrite Hv. destruct Hk' as (N1 & N2 & N3). rewrite (normalize_fixed conf' N1 N2).
  unfold conf'. rewrite lookup_upd, String.eqb_refl. apply cval_eqb_refl.
Qed.

(* what the expectation list promises about the next load *)
Definition lpromises (exp : list (string * string)) (ls : lstate) : Prop :=
  forall nk s, lookup nk exp = Some s -> exists v, lookup nk (load_chain ls) = Some v /\ show v = s.

Theorem lhistory_spec q : forall cs ls exp,
  lpromises exp ls ->
  forallb (fun b => b) (lspec_trace exp ls cs (lrun q ls cs)) = true.
Proof.
  destruct exit_code_tests as (T1 & T2 & T3 & T4 & T5 & T6).
  induction cs as [|c cr IH]; intros ls exp Hp; [reflexivity|].
  cbn [lrun lspec_trace]. pose proof (load_chain_kept ls) as Hkept.
  destruct c as [k t|k|].
  - (* set *)
    unfold lstep. rewrite (ckey_set_norm q k).
    destruct (valid (upd (norm k) (convert t) (load_chain ls))) eqn:Hv.
    + cbn [lo_rc lo_files Nat.eqb forallb]. rewrite <- (convert_is_documented t).
      assert (Hst : lstored_ok k (convert t) (LFile (upd (norm k) (convert t) (load_chain ls))) = true) by exact (stored_ok_upd _ k t Hkept Hv).
      rewrite (changed_ok_write k (convert t) _ save_location_index ls Hst), (stored_write k (convert t) _ save_location_index ls Hst).
      cbn [andb]. apply IH.
      intros nk s Hs. destruct (write_first (LFile (upd (norm k) (convert t) (load_chain ls))) ls) as (r & ->).
      assert (Hk' : kept (upd (norm k) (convert t) (load_chain ls))) by (apply kept_upd; [exact Hkept|apply norm_idem]).
      destruct (load_chain_head _ r Hk' Hv) as (_ & Hl). rewrite Hl. revert Hs. rewrite !lookup_upd.
      destruct (String.eqb (norm k) nk); intro Hs; [exists (convert t); split; [reflexivity|congruence]|].
      exact (Hp nk s Hs).
    + cbn [lo_rc lo_files]. rewrite T3. cbn [forallb]. rewrite lstate_eqb_refl. now apply IH.
  - (* get *)
    unfold lstep. rewrite (ckey_get_norm q k).
    destruct (lookup (norm k) (load_chain ls)) as [v|] eqn:Hlk.
    + cbn [lo_rc lo_files lo_out forallb]. rewrite lstate_eqb_refl. cbn [andb].
      destruct (lookup (norm k) exp) as [s|] eqn:Hexp.
      * destruct (Hp _ _ Hexp) as (v' & Hv' & Hs). rewrite Hlk in Hv'. injection Hv' as <-.
        cbn [Nat.eqb opt_str_eqb]. rewrite Hs, String.eqb_refl. cbn [andb]. now apply IH.
      * now apply IH.
    + cbn [lo_rc lo_files lo_out forallb]. rewrite lstate_eqb_refl. cbn [andb].
      destruct (lookup (norm k) exp) as [s|] eqn:Hexp.
      * destruct (Hp _ _ Hexp) as (v' & Hv' & _). congruence.
      * now apply IH.
  - (* reset *)
    unfold lstep. cbn [lo_rc lo_files forallb]. apply IH. intros nk s Hs. discriminate Hs.
Qed.

Corollary lhistory_spec_fresh q cs ls :
  forallb (fun b => b) (lspec_trace [] ls cs (lrun q ls cs)) = true.
Proof. apply lhistory_spec. intros nk s Hs. discriminate Hs. Qed.

(* ------------------------------------------------------------------ the single-file machine is the one-location instance *)
Definition lf (f : option cfg) : lfile := match f with Some kv => LFile kv | None => LAbsent end.

Lemma load_single f : load false f = Some (load_chain [lf f]).
Proof.
  destruct f as [kv|]; [|reflexivity]. cbn [lf load_chain load].
  now destruct (valid (merge_cfg default_config (normalize kv))).
Qed.

Theorem lstep_single q f c :
  let o := step q false f c in
  lstep q [lf f] c = Build_lobs (o_rc o) (o_out o) [lf (o_file o)].
Proof.
  cbv zeta. unfold step, lstep. rewrite load_single, gen_save_first. destruct c as [k t|k|].
  - now destruct (valid (upd (ckey_set q k) (convert t) (load_chain [lf f]))).
  - now destruct (lookup (ckey_get q k) (load_chain [lf f])).
  - reflexivity.
Qed.
