(* Proofs/MagicTs.v — C02 for TypeScript / JavaScript: the analyzer model reports exactly the literals
   the documentation demands, for every admissible file and configuration. *)
From Coq Require Import ZArith.
From TL Require Import Lib.Base Lib.GenTypes Gen.MagicGen Model.MagicNum Model.Magic Model.MagicSpec
     Proofs.MagicChars Proofs.MagicExtract Proofs.MagicFacts.

Arguments ts_upper_name : simpl never.
Arguments ts_const_name : simpl never.
Arguments spec_upper_name : simpl never.

(* outside the defect classes of the flags that are on *)
Definition ts_name_plain (q : mquirks) (name : string) : bool :=
  negb (q_ts_single_letter_const q) || negb (ts_upper_name name) || (2 <=? String.length name).

Definition ts_file_plain (q : mquirks) (f : file) : bool :=
  (negb (q_ts_test_marker_anywhere q) || Bool.eqb (ts_code_is_test (f_name f)) (ts_doc_is_test (f_name f)))
  && forallb (fun sc => forallb (fun s => ts_name_plain q (s_name s)) (sc_sites sc)) (f_scopes f).

Lemma ts_is_enum_app a b : ts_is_enum (a ++ b) = ts_is_enum a || ts_is_enum b.
Proof. apply existsb_app. Qed.

Lemma ts_scope_no_enum k : ts_is_enum (ts_scope_chain k) = false.
Proof. destruct k; reflexivity. Qed.

(* enum member or UPPER_CASE declaration, as the analyzer sees it = constant definition, as documented *)
Lemma ts_ctx_exempt q k c name :
  ctx_ok MTs k c = true -> name_ok MTs c name = true -> ts_name_plain q name = true ->
  ts_is_enum (ts_ctx_chain c name ++ ts_scope_chain k) || ts_is_const_def q (ts_ctx_chain c name ++ ts_scope_chain k)
  = ctx_is_const_def c.
Proof.
  intros Hc Hn Hp. rewrite ts_is_enum_app, ts_scope_no_enum, orb_false_r.
  assert (E := ts_const_spec q name Hp).
  unfold name_ok in Hn.
  destruct c; cbn [ctx_is_const_def] in *; try (cbn in Hc; discriminate);
    try (apply andb_prop in Hn; destruct Hn as [Hn _]; apply andb_prop in Hn; destruct Hn as [Hn _]; apply negb_true_iff in Hn);
    cbn [ts_ctx_chain ts_decl tnames tn map app ts_is_enum existsb ta_type ts_is_const_def ts_decl_parent ts_is_decl ta_ident];
    cbn;
    try rewrite E; try rewrite Hn; try reflexivity.
  all: destruct k; try (cbn in Hc; discriminate); reflexivity.
Qed.

Lemma ts_nonnumeric_type l : lit_is_numeric l = false -> String.eqb (ts_node_type l) ts_number_type = false.
Proof. destruct l as [| | [|] | |]; try discriminate; reflexivity. Qed.

Lemma lit_value_numeric l : lit_is_numeric l = false -> lit_value l = None.
Proof. destruct l; try discriminate; reflexivity. Qed.

Lemma lit_raw_numeric l : lit_is_numeric l = true -> exists raw, lit_raw l = Some raw.
Proof. destruct l; try discriminate; cbn [lit_raw]; eauto. Qed.

Lemma ts_numeric_type l : lit_is_numeric l = true -> ts_node_type l = "number".
Proof. destruct l; try discriminate; reflexivity. Qed.

Section Site.
  Variables (q : mquirks) (cfg : mconfig) (f : file) (sc : scope) (s : site).
  Hypothesis Hname : negb (q_ts_test_marker_anywhere q) || Bool.eqb (ts_code_is_test (f_name f)) (ts_doc_is_test (f_name f)) = true.
  Hypothesis Hsite : site_good MTs (sc_kind sc) s = true.
  Hypothesis Hnp : ts_name_plain q (s_name s) = true.

  Lemma ts_is_test_spec : ts_is_test q (f_name f) = spec_file_exempt MTs f.
  Proof.
    unfold spec_file_exempt, spec_is_test_file, ts_is_test. rewrite orb_false_r.
    destruct (q_ts_test_marker_anywhere q); [|reflexivity]. cbn [negb orb] in Hname. apply Bool.eqb_prop in Hname. exact Hname.
  Qed.

  Lemma ts_lit_exact l :
    In l (s_lits s) ->
    ts_site_report q cfg (ts_is_test q (f_name f))
      (mk_tssite (ts_node_type l) (lit_chars l) (ts_ctx_chain (s_ctx s) (s_name s) ++ ts_scope_chain (sc_kind sc)) (s_line s))
    = spec_lit MTs cfg (spec_file_exempt MTs f) sc s l.
  Proof.
    intros Hin. unfold site_good in Hsite.
    apply andb_prop in Hsite. destruct Hsite as [H123 Hlits]. apply andb_prop in H123. destruct H123 as [H123 _]. apply andb_prop in H123. destruct H123 as [H12 _].
    apply andb_prop in H12. destruct H12 as [Hctx Hnm].
    rewrite forallb_forall in Hlits. specialize (Hlits l Hin).
    unfold ts_site_report, spec_lit. cbn [t_type t_text t_anc t_line].
    destruct (lit_is_numeric l) eqn:Hnum.
    - rewrite (ts_numeric_type l Hnum). replace (String.eqb "number" ts_number_type) with true by reflexivity. cbn [negb].
      destruct (lit_raw_numeric l Hnum) as [raw Hr].
      rewrite (ts_lit_extract q l raw Hlits Hr). unfold lit_value. rewrite Hr. cbn [option_map].
      rewrite allowed_spec, ts_is_test_spec, (ts_ctx_exempt q _ _ _ Hctx Hnm Hnp).
      unfold spec_site_exempt. cbn [orb]. rewrite orb_false_r.
      destruct (nmem (norm raw) (spec_allowed cfg)), (spec_file_exempt MTs f), (ctx_is_const_def (s_ctx s)); reflexivity.
    - rewrite (ts_nonnumeric_type l Hnum). cbn [negb]. rewrite (lit_value_numeric l Hnum). reflexivity.
  Qed.

  Lemma ts_keyword_nothing t : In t (ts_keyword_nodes true (sc_kind sc) s) -> ts_site_report q cfg (ts_is_test q (f_name f)) t = [].
  Proof.
    unfold ts_keyword_nodes. destruct (s_ctx s); cbn [In]; try tauto. intros [<-|[]].
    unfold ts_site_report. cbn [t_type t_text]. replace (String.eqb "number" ts_number_type) with true by reflexivity. cbn [negb].
    rewrite ts_extract_keyword. reflexivity.
  Qed.

  Lemma ts_site_exact :
    flat_map (ts_site_report q cfg (ts_is_test q (f_name f))) (to_ts_site true (sc_kind sc) s)
    = flat_map (spec_lit MTs cfg (spec_file_exempt MTs f) sc s) (s_lits s).
  Proof.
    unfold to_ts_site. rewrite flat_map_app, (flat_map_nil _ _ ts_keyword_nothing). cbn [app].
    rewrite flat_map_map. apply flat_map_ext_in. intros l Hl. apply ts_lit_exact. exact Hl.
  Qed.
End Site.

(* Main theorem (TypeScript / JavaScript).  For every quirk vector, configuration and admissible file
   outside the defect classes of the flags that are on, the reports are exactly those demanded. *)
Theorem ts_report_guarded q cfg f :
  file_good MTs f = true -> ts_file_plain q f = true -> ts_report q cfg f = spec_report MTs cfg f.
Proof.
  intros Hg Hp. unfold ts_file_plain in Hp. apply andb_prop in Hp. destruct Hp as [Hname Hplain].
  unfold file_good in Hg. apply andb_prop in Hg. destruct Hg as [_ Hscopes].
  unfold ts_report, to_ts, spec_report. rewrite flat_map_flat_map. apply flat_map_ext_in. intros sc Hsc.
  rewrite flat_map_flat_map. apply flat_map_ext_in. intros s Hs.
  rewrite forallb_forall in Hscopes, Hplain. specialize (Hscopes sc Hsc). specialize (Hplain sc Hsc).
  unfold scope_good in Hscopes. apply andb_prop in Hscopes. destruct Hscopes as [Hsites _].
  rewrite forallb_forall in Hsites, Hplain.
  apply ts_site_exact; [exact Hname | apply Hsites; exact Hs | apply Hplain; exact Hs].
Qed.

(* the prefix test and the suffix stripping may be the source's own (flags on) or the property's (flags off) *)
Theorem ts_report_exact q cfg f :
  q_ts_test_marker_anywhere q = false -> q_ts_single_letter_const q = false ->
  file_good MTs f = true -> ts_report q cfg f = spec_report MTs cfg f.
Proof.
  intros H3 H4 Hg. apply ts_report_guarded; [exact Hg|]. unfold ts_file_plain, ts_name_plain. rewrite H3, H4. cbn [negb orb andb].
  rewrite forallb_forall. intros sc _. rewrite forallb_forall. intros s _. reflexivity.
Qed.
