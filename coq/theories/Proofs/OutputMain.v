(* Proofs/OutputMain.v — exit status, usage-error classes, syntax-error violations, format dispatch,
   and the agreement of the three renderings (C06). *)
From TL Require Import Lib.Base Model.OutputTypes Gen.OutputGen Model.Output
     Proofs.OutputStr Proofs.OutputJson Proofs.OutputText Proofs.OutputSan.
From Coq Require Import ZArith Lia.
Local Open Scope Z_scope.
Local Open Scope string_scope.

(* ---------- exit status of a run that was performed ---------- *)
(* Gen fact: every `sys.exit(A if violations else B)` found in src/cli/linters has A = 1, B = 0 *)
Lemma exit_table_ok : forallb (fun e => (fst (snd e) =? 1)%Z && (snd (snd e) =? 0)%Z) cli_exit_table = true.
Proof. reflexivity. Qed.

Lemma assoc_In {A} k (l : list (string * A)) x : assoc k l = Some x -> In (k, x) l.
Proof.
  induction l as [|[k' y] l IH]; cbn [assoc]; [discriminate|].
  destruct (String.eqb_spec k k') as [->|]; [intros [= ->]; now left|intros H; right; auto].
Qed.

Lemma assoc_some_of_In {A} k (l : list (string * A)) : In k (map fst l) -> exists x, assoc k l = Some x.
Proof.
  induction l as [|[k' y] l IH]; cbn [map fst In assoc]; [intros []|].
  destruct (String.eqb_spec k k') as [->|Hne]; [intros _; now exists y|].
  intros [E|H]; [congruence|auto].
Qed.

Definition commands : list string := map fst cli_exit_table.

Theorem exit_defined cmd vs : In cmd commands -> exists z, exit_performed cmd vs = Some z.
Proof.
  intros H. destruct (assoc_some_of_In _ _ H) as [[a b] E]. unfold exit_performed. rewrite E. eauto.
Qed.

Theorem exit_iff cmd vs z :
  exit_performed cmd vs = Some z -> (z = 0 <-> vs = []) /\ (z = 1 <-> vs <> []) /\ z <> 2.
Proof.
  unfold exit_performed. destruct (assoc cmd cli_exit_table) as [[a b]|] eqn:E; [|discriminate].
  apply assoc_In in E. pose proof exit_table_ok as T. rewrite forallb_forall in T. specialize (T _ E).
  cbn [fst snd] in T. apply andb_true_iff in T as [Ta Tb]. apply Z.eqb_eq in Ta, Tb. subst a b.
  destruct vs as [|v vs]; cbn [is_nonempty]; intros [= <-]; repeat split; intros; try congruence; try lia.
Qed.

(* ---------- usage-error classes ---------- *)
(* Gen fact (source as repaired by af4580b): _load_dry_config_file guards the loaded document with `or {}` *)
Lemma dry_guard_ok : dry_config_null_guard = true.
Proof. reflexivity. Qed.

(* Gen fact (source as repaired by d92455c): every linter command passes an existence check of the group-level --config, exit 2 *)
Lemma group_config_check_ok : group_config_missing_exit = Some 2.
Proof. reflexivity. Qed.

(* every usage class, every command, EVERY quirk vector (the faithful one included) *)
Theorem usage_exit_two q cmd c : usage_outcome q cmd c = spec_outcome c.
Proof.
  destruct c; cbn [usage_outcome spec_outcome]; rewrite ?dry_guard_ok, ?group_config_check_ok; cbn [negb];
    rewrite ?andb_false_r; cbn [andb]; try reflexivity.
  - destruct (String.eqb cmd "dry"); reflexivity.
  - destruct (q_group_missing_config_ignored q); reflexivity.
  - change threshold_min_valid with 1%Z. replace (v <? 1)%Z with (v <=? 0)%Z by (destruct (Z.leb_spec v 0), (Z.ltb_spec v 1); (reflexivity || lia)).
    destruct (v <=? 0)%Z; reflexivity.
Qed.

(* ---------- violations built for syntax errors ---------- *)
(* Gen fact: the column defaults are non-negative *)
Lemma syntax_defaults_ok : forallb (fun e => match snd e with (_, dc, _, _) => (0 <=? dc)%Z end) syntax_error_defaults = true.
Proof. reflexivity. Qed.

(* what CPython's SyntaxError carries: positive line numbers, non-negative offsets, or nothing *)
Definition lineno_ok (o : option Z) : Prop := match o with Some z => 0 <= z | None => True end.

(* Gen fact (source as repaired by f9c24d2): every builder's default line is 1-based *)
Lemma syntax_default_lines_ok : forallb (fun e => match snd e with (dl, _, _, _) => (1 <=? dl)%Z end) syntax_error_defaults = true.
Proof. reflexivity. Qed.

Theorem syntax_violation_positions q b rule file ln off msg :
  lineno_ok ln -> lineno_ok off ->
  pos_ok (realize q (VSyntax b rule file ln off msg)).
Proof.
  intros Hl Ho. unfold realize.
  assert (L : forall k, 1 <= k -> 1 <= pyor ln k).
  { intros k Hk. unfold pyor. destruct ln as [z|]; [|exact Hk]. cbn in Hl. destruct (Z.eqb_spec z 0); lia. }
  destruct (assoc b syntax_error_defaults) as [[[[dl dc] prefix] fixed]|] eqn:E.
  - apply assoc_In in E. pose proof syntax_defaults_ok as T. rewrite forallb_forall in T. specialize (T _ E).
    pose proof syntax_default_lines_ok as T1. rewrite forallb_forall in T1. specialize (T1 _ E).
    cbn [snd] in T, T1. apply Z.leb_le in T, T1. split; cbn [v_line v_col].
    + apply L. destruct (q_syntax_line_zero q); lia.
    + unfold pyor. destruct off as [z|]; [|exact T]. cbn in Ho. destruct (Z.eqb_spec z 0); lia.
  - split; cbn [v_line v_col]; [apply L; lia|]. unfold pyor. destruct off as [z|]; [|lia]. cbn in Ho. destruct (Z.eqb_spec z 0); lia.
Qed.

Definition src_ok (s : vsrc) : Prop :=
  match s with VPlain v => pos_ok v | VSyntax _ _ _ ln off _ => lineno_ok ln /\ lineno_ok off end.

Theorem sarif_wellformed_run q ver srcs :
  Forall src_ok srcs -> sarif_wf (render_sarif q ver (map (realize q) srcs)) = true.
Proof.
  intros H. apply sarif_wellformed. apply Forall_map. eapply Forall_impl; [|exact H].
  intros [v|b r f ln off m]; cbn [src_ok]; [intros Hv; exact Hv|intros [Hl Ho]; now apply syntax_violation_positions].
Qed.

(* ---------- dispatch ---------- *)
Theorem dispatch q ver vs :
  render q ver "json" vs = OutJson (render_json vs)
  /\ render q ver "sarif" vs = OutJson (render_sarif q ver vs)
  /\ render q ver "text" vs = OutText (text_output q vs)
  /\ format_choices = ["text"; "json"; "sarif"].
Proof. repeat split. Qed.

(* ---------- the three renderings describe the same list ---------- *)
Theorem renderings_agree q ver vs :
  q_text_omit_zero q = false -> q_text_raw_newline q = false ->
  forallb (fun v => rule_ok (v_rule v)) vs = true ->
  decode_json (render_json vs) = Some (map san_core vs, Z.of_nat (List.length (map san_core vs)))
  /\ decode_sarif (render_sarif q ver vs) = Some (map san_core vs)
  /\ parse_text q (text_output q vs) = Some (map san_core vs).
Proof.
  intros H2 H3 Hr. repeat split.
  - rewrite json_roundtrip. now rewrite map_length.
  - apply sarif_roundtrip_exact.
  - now apply text_roundtrip_ideal.
Qed.

(* the text layout as found in the code: the same statement on the inputs whose text layout is decodable *)
Theorem renderings_agree_actual_partial q ver vs :
  q_text_omit_zero q = true -> q_text_raw_newline q = true ->
  forallb (text_ok q) vs = true ->
  decode_json (render_json vs) = Some (map san_core vs, Z.of_nat (List.length (map san_core vs)))
  /\ decode_sarif (render_sarif q ver vs) = Some (map san_core vs)
  /\ parse_text q (text_output q vs) = Some (map san_core vs).
Proof.
  intros H2 H3 Ht. repeat split.
  - rewrite json_roundtrip. now rewrite map_length.
  - apply sarif_roundtrip_exact.
  - now apply text_roundtrip_actual_partial.
Qed.

(* exit status and renderings of one performed run *)
Theorem run_consistent cmd vs z :
  exit_performed cmd vs = Some z ->
  exists cs t, decode_json (render_json vs) = Some (cs, t) /\ t = Z.of_nat (List.length cs)
               /\ (z = 0 <-> cs = []) /\ (z = 1 <-> cs <> []).
Proof.
  intros H. exists (map san_core vs), (Z.of_nat (List.length vs)). rewrite json_roundtrip, map_length.
  destruct (exit_iff _ _ _ H) as (H0 & H1 & _). repeat split; try reflexivity.
  - intros Hz. apply H0 in Hz. now subst.
  - intros Hm. apply H0. now destruct vs.
  - intros Hz. apply H1 in Hz. now destruct vs.
  - intros Hm. apply H1. destruct vs; [now contradiction Hm|discriminate].
Qed.

(* every vector: one run, three renderings, one list - on the inputs whose text layout (as chosen by the vector) is decodable *)
Theorem renderings_agree_any q ver vs :
  forallb (text_ok q) vs = true ->
  decode_json (render_json vs) = Some (map san_core vs, Z.of_nat (List.length (map san_core vs)))
  /\ decode_sarif (render_sarif q ver vs) = Some (map san_core vs)
  /\ parse_text q (text_output q vs) = Some (map san_core vs).
Proof.
  intros Ht. repeat split.
  - rewrite json_roundtrip. now rewrite map_length.
  - apply sarif_roundtrip_exact.
  - now apply text_roundtrip_any.
Qed.

(* what the renderings show is the violation itself exactly when its path and message are well-formed UTF-8 *)
Theorem san_core_identity_iff v :
  san_core v = core_of v <-> utf8_valid (v_file v) = true /\ utf8_valid (v_msg v) = true.
Proof.
  unfold san_core, core_of. split.
  - intros [= Hf Hm]. split; now apply sanitize_fixpoint_iff.
  - intros [Hf Hm]. now rewrite (sanitize_valid_id _ Hf), (sanitize_valid_id _ Hm).
Qed.

(* the newline condition of text_ok can be read off the raw strings *)
Theorem text_newline_condition_raw v :
  no_nl (sanitize (v_file v)) && no_nl (sanitize (v_msg v)) = no_nl (v_file v) && no_nl (v_msg v).
Proof. now rewrite !sanitize_no_nl. Qed.

(* ---------- a rule that fails while a file is linted must not end the run ---------- *)
Theorem run_performed q files : q_valueerror_aborts_run q = false -> run_outcome q files = OPerformed.
Proof.
  intros H. unfold run_outcome, rule_failure_aborts. rewrite H.
  induction files as [|f r IH]; [reflexivity|]. cbn [existsb]. rewrite andb_false_r. exact IH.
Qed.

(* the policy found in the source: the run is performed whenever no file is one whose records the storage cannot hold *)
Theorem run_performed_partial q files : existsb storage_raises files = false -> run_outcome q files = OPerformed.
Proof.
  intros H. unfold run_outcome.
  assert (E : existsb (fun f => storage_raises f && rule_failure_aborts q EUnicodeEncode) files = false).
  { induction files as [|f r IH]; [reflexivity|]. cbn [existsb] in *. apply orb_false_iff in H as [H1 H2].
    now rewrite H1, (IH H2). }
  now rewrite E.
Qed.

(* the decodable domain of the text layout is a property of the violation itself (raw path / message), not of its sanitised image *)
Definition text_ok_raw (q : oquirks) (v : viol) : bool :=
  rule_ok (v_rule v)
  && (if q_text_raw_newline q then no_nl (v_file v) && no_nl (v_msg v) else true)
  && (if q_text_omit_zero q
      then ((0 <=? v_line v) && (0 <=? v_col v) && ((1 <=? v_line v) || (v_col v =? 0)))%Z
           && (((1 <=? v_line v) && (1 <=? v_col v))%Z || path_tail_ok (v_file v))
      else true).

Theorem text_ok_is_raw q v : text_ok q v = text_ok_raw q v.
Proof. unfold text_ok, text_ok_raw. now rewrite !sanitize_no_nl, path_tail_ok_sanitize. Qed.
