(* Proofs/ContainMain.v — failure containment of the orchestrator model (C11, the proved part).
   Facts about the `except` tables are proved by computation over the finite type of failure kinds,
   so they are re-checked against the tables regenerated from the source on every run. *)
From TL Require Import Lib.Base Lib.GenTypes Model.ContainTypes Gen.ContainGen Model.Contain.

(* ------------------------------------------------------------------ the except tables *)
Definition contained (q : cquirks) (e : exc) : bool :=
  match dispatch (check_handlers q) e with Some HReturnEmpty => true | _ => false end.

Definition value_family (e : exc) : bool := smem "ValueError" (mro e).

Lemma ideal_contains_all : forall q e, q_value_error_escapes q = false -> contained q e = true.
Proof. intros [v f] e H. cbn in H. subst v. destruct e; vm_compute; reflexivity. Qed.

(* the table found in the source lets exactly the ValueError family through *)
Lemma actual_contains_iff : forall q e, q_value_error_escapes q = true -> contained q e = negb (value_family e).
Proof. intros [v f] e H. cbn in H. subst v. destruct e; vm_compute; reflexivity. Qed.

Lemma non_value_contained : forall q e, value_family e = false -> contained q e = true.
Proof. intros [[|] f] e H; destruct e; vm_compute in H |- *; congruence. Qed.

Lemma escaping_is_value_family : forall q e, contained q e = false -> value_family e = true.
Proof. intros q e H. destruct (value_family e) eqn:V; [reflexivity|]. rewrite (non_value_contained q e V) in H. discriminate. Qed.

(* worker and future tables of the process pool: the ValueError family is re-raised by both, everything else is swallowed by the worker *)
Lemma pool_reraises_value_family : forall e, value_family e = true ->
  dispatch worker_handlers e = Some HReraise /\ dispatch future_handlers e = Some HReraise.
Proof. destruct e; vm_compute; intros H; try discriminate H; split; reflexivity. Qed.

Lemma pool_swallows_the_rest : forall e, value_family e = false -> dispatch worker_handlers e = Some HReturnEmpty.
Proof. destruct e; vm_compute; intros H; try discriminate H; reflexivity. Qed.

Lemma par_collects : par_parent_collects = true.
Proof. reflexivity. Qed.

(* the content readers turn an undecodable / unreadable file into "no content", never into a failure *)
Lemma content_readers_catch :
  forall e, In e [EUnicodeDecode; EOS; EFileNotFound; EPermission] ->
  dispatch file_content_handlers e = Some HReturnNone /\ dispatch shebang_handlers e = Some HReturnNone.
Proof. intros e H. cbn [In] in H. repeat destruct H as [<-|H]; try (vm_compute; split; reflexivity). destruct H. Qed.

(* a syntax error becomes a violation, not a failure *)
Lemma syntax_errors_reported :
  dispatch parse_python_handlers ESyntax = Some HViolation /\ dispatch parse_python_handlers EIndentation = Some HViolation.
Proof. vm_compute. split; reflexivity. Qed.

(* neither lint_file nor finalize() is wrapped in a try of its own in the sequential path *)
Lemma sequential_shape : lint_file_guarded = false /\ guard_of "lint_files" = false /\ guard_of "_finalize_rules" = false.
Proof. vm_compute. repeat split; reflexivity. Qed.

Lemma error_exit_is_two : cli_error_exit = 2 /\ cli_error_catches = ["Exception"].
Proof. vm_compute. split; reflexivity. Qed.

(* ------------------------------------------------------------------ one rule, one file *)
Definition cell_of (p : string) (r : rule) : cell := (p, r_id r, ok_or_nil (r_res r p)).
Definition log_of (p : string) (r : rule) : list logrec :=
  match r_res r p with Fail e => [("rule", r_id r, p, exc_name e)] | Ok _ => [] end.

Lemma safe_check_contained q r p :
  (forall e, r_res r p = Fail e -> contained q e = true) ->
  safe_check q r p = (Ok (ok_or_nil (r_res r p)), log_of p r).
Proof.
  intros H. unfold safe_check, log_of. destruct (r_res r p) as [vs|e] eqn:E; [reflexivity|].
  specialize (H e eq_refl). unfold contained in H.
  destruct (dispatch (check_handlers q) e) as [[]|]; try discriminate. reflexivity.
Qed.

Lemma safe_check_escape q r p e :
  r_res r p = Fail e -> contained q e = false -> safe_check q r p = (Fail e, []).
Proof.
  intros E H. unfold safe_check. rewrite E. unfold contained in H.
  destruct (dispatch (check_handlers q) e) as [[]|]; try reflexivity. discriminate.
Qed.

Lemma safe_check_cases q r p :
  (exists vs l, safe_check q r p = (Ok vs, l)) \/
  (exists e, safe_check q r p = (Fail e, []) /\ r_res r p = Fail e /\ contained q e = false).
Proof.
  unfold safe_check. destruct (r_res r p) as [vs|e]; [left; do 2 eexists; reflexivity|].
  destruct (dispatch (check_handlers q) e) as [[]|] eqn:D;
    first [ right; exists e; split; [reflexivity|split; [reflexivity|unfold contained; rewrite D; reflexivity]]
          | left; do 2 eexists; reflexivity ].
Qed.

(* ------------------------------------------------------------------ lint_file *)
Lemma lint_file_contained q rules p :
  (forall r e, In r rules -> r_res r p = Fail e -> contained q e = true) ->
  lint_file q rules p = (Ok (map (cell_of p) rules), flat_map (log_of p) rules).
Proof.
  induction rules as [|r rs IH]; intros H; [reflexivity|].
  cbn [lint_file map flat_map].
  rewrite (safe_check_contained q r p) by (intros e E; apply (H r e); [left; reflexivity|exact E]).
  rewrite IH by (intros r' e I E; apply (H r' e); [right; exact I|exact E]).
  reflexivity.
Qed.

Lemma lint_file_escape q rules p :
  (exists r e, In r rules /\ r_res r p = Fail e /\ contained q e = false) ->
  exists e' l, lint_file q rules p = (Fail e', l).
Proof.
  induction rules as [|r rs IH]; intros (r0 & e & I & E & C); [destruct I|].
  cbn [lint_file].
  destruct (safe_check_cases q r p) as [(vs & l & S)|(e1 & S & _ & _)].
  - rewrite S. destruct I as [<-|I].
    + rewrite (safe_check_escape q r p e E C) in S. discriminate.
    + destruct (IH (ex_intro _ r0 (ex_intro _ e (conj I (conj E C))))) as (e' & l' & L). rewrite L. eauto.
  - rewrite S. eauto.
Qed.

Lemma lint_file_fail_cause q rules p e l :
  lint_file q rules p = (Fail e, l) ->
  exists r, In r rules /\ r_res r p = Fail e /\ contained q e = false.
Proof.
  revert l. induction rules as [|r rs IH]; intros l H; [discriminate|].
  cbn [lint_file] in H.
  destruct (safe_check_cases q r p) as [(vs & l1 & S)|(e1 & S & E & C)]; rewrite S in H.
  - destruct (lint_file q rs p) as [[cs|e2] l2] eqn:L; [discriminate|].
    injection H as -> _. destruct (IH _ eq_refl) as (r' & I & E & C). exists r'. auto using in_cons.
  - injection H as -> _. exists r. split; [left; reflexivity|]. auto.
Qed.

Lemma lint_file_paths q rules p cs l :
  lint_file q rules p = (Ok cs, l) -> Forall (fun c => cell_path c = p) cs.
Proof.
  revert cs l. induction rules as [|r rs IH]; intros cs l H; cbn [lint_file] in H.
  - injection H as <- _. constructor.
  - destruct (safe_check q r p) as [[vs|e] l1]; [|discriminate].
    destruct (lint_file q rs p) as [[cs'|e] l2]; [|discriminate].
    injection H as <- _. constructor; [reflexivity|]. eapply IH. reflexivity.
Qed.

(* ------------------------------------------------------------------ all files *)
Lemma lint_all_contained q rules files :
  (forall r p e, In r rules -> In p files -> r_res r p = Fail e -> contained q e = true) ->
  lint_all q rules files = (Ok (spec_cells rules files), spec_log rules files).
Proof.
  induction files as [|p ps IH]; intros H; [reflexivity|].
  cbn [lint_all]. unfold spec_cells, spec_log. cbn [flat_map]. fold (spec_cells rules ps). fold (spec_log rules ps).
  rewrite (lint_file_contained q rules p) by (intros r e I E; apply (H r p e I); [left; reflexivity|exact E]).
  rewrite IH by (intros r p' e I I' E; apply (H r p' e I); [right; exact I'|exact E]).
  reflexivity.
Qed.

Lemma lint_all_escape q rules files :
  (exists r p e, In r rules /\ In p files /\ r_res r p = Fail e /\ contained q e = false) ->
  exists e' l, lint_all q rules files = (Fail e', l).
Proof.
  induction files as [|p ps IH]; intros (r & p0 & e & I & Ip & E & C); [destruct Ip|].
  cbn [lint_all]. destruct (lint_file q rules p) as [[cs|e1] l1] eqn:L; [|eauto].
  destruct Ip as [<-|Ip].
  - destruct (lint_file_escape q rules p (ex_intro _ r (ex_intro _ e (conj I (conj E C))))) as (e' & l' & L').
    rewrite L' in L. discriminate.
  - destruct (IH (ex_intro _ r (ex_intro _ p0 (ex_intro _ e (conj I (conj Ip (conj E C))))))) as (e' & l' & L').
    rewrite L'. eauto.
Qed.

Lemma lint_all_fail_cause q rules files e l :
  lint_all q rules files = (Fail e, l) ->
  exists r p, In r rules /\ In p files /\ r_res r p = Fail e /\ contained q e = false.
Proof.
  revert l. induction files as [|p ps IH]; intros l H; [discriminate|].
  cbn [lint_all] in H. destruct (lint_file q rules p) as [[cs|e1] l1] eqn:L.
  - destruct (lint_all q rules ps) as [[cs'|e2] l2] eqn:L2; [discriminate|].
    injection H as -> _. destruct (IH _ eq_refl) as (r & p' & I & I' & E & C).
    exists r, p'. auto using in_cons.
  - injection H as -> _. destruct (lint_file_fail_cause q rules p _ _ L) as (r & I & E & C).
    exists r, p. split; [exact I|]. split; [left; reflexivity|]. auto.
Qed.

(* ------------------------------------------------------------------ finalize *)
Definition is_okb {A} (o : outcome A) : bool := match o with Ok _ => true | Fail _ => false end.

Definition fins_of (rules : list rule) (stores : rule -> list evid) : list (string * list viol) :=
  map (fun r => (r_id r, ok_or_nil (r_final r (stores r)))) rules.

Lemma finalize_all_safe g rules stores :
  (forall r, In r rules -> is_okb (r_final r (stores r)) = true) ->
  finalize_all g rules stores = (Ok (fins_of rules stores), []).
Proof.
  induction rules as [|r rs IH]; intros H; [reflexivity|].
  cbn [finalize_all fins_of map].
  pose proof (H r (or_introl eq_refl)) as Hr.
  destruct (r_final r (stores r)) as [vs|e]; [|discriminate].
  rewrite IH by (intros r' I; apply H; right; exact I). reflexivity.
Qed.

Lemma finalize_all_guarded rules stores :
  fst (finalize_all true rules stores) = Ok (fins_of rules stores).
Proof.
  induction rules as [|r rs IH]; [reflexivity|].
  cbn [finalize_all fins_of map].
  destruct (finalize_all true rs stores) as [[fs|e] l]; cbn [fst] in IH; [|discriminate].
  injection IH as ->.
  destruct (r_final r (stores r)) as [vs|e]; reflexivity.
Qed.

Lemma finalize_all_fst g rules stores :
  g = true \/ (forall r, In r rules -> is_okb (r_final r (stores r)) = true) ->
  fst (finalize_all g rules stores) = Ok (fins_of rules stores).
Proof.
  intros [->|H]; [apply finalize_all_guarded|]. rewrite (finalize_all_safe g rules stores H). reflexivity.
Qed.

Lemma fin_guard_ideal q fn : q_finalize_unguarded q = false -> fin_guard q fn = true.
Proof. intros H. unfold fin_guard. rewrite H. reflexivity. Qed.

Lemma finalize_all_fail rules stores :
  (exists r, In r rules /\ is_okb (r_final r (stores r)) = false) ->
  exists e l, finalize_all false rules stores = (Fail e, l).
Proof.
  induction rules as [|r rs IH]; intros (r0 & I & F); [destruct I|].
  cbn [finalize_all]. destruct (r_final r (stores r)) as [vs|e] eqn:E; [|eauto].
  destruct I as [<-|I]; [rewrite E in F; discriminate|].
  destruct (IH (ex_intro _ r0 (conj I F))) as (e' & l' & L). rewrite L. eauto.
Qed.

(* ------------------------------------------------------------------ the whole run *)
Definition all_contained (q : cquirks) (rules : list rule) (files : list string) : Prop :=
  forall r p e, In r rules -> In p files -> r_res r p = Fail e -> contained q e = true.

Definition final_safe (rules : list rule) (files : list string) : Prop :=
  forall r, In r rules -> is_okb (r_final r (store_of r files)) = true.

Theorem run_exact q rules files :
  all_contained q rules files -> final_safe rules files ->
  run q rules files = (spec_run rules files, spec_log rules files).
Proof.
  intros C F. unfold run. rewrite (lint_all_contained q rules files C).
  rewrite (finalize_all_safe _ rules (fun r => store_of r files) F).
  rewrite app_nil_r. reflexivity.
Qed.

(* outcome and findings only: a failing finalize() is allowed when the finalize loop is guarded *)
Theorem run_exact_fst q rules files :
  all_contained q rules files -> fin_guard q "lint_files" = true \/ final_safe rules files ->
  fst (run q rules files) = spec_run rules files.
Proof.
  intros C G. unfold run. rewrite (lint_all_contained q rules files C).
  pose proof (finalize_all_fst (fin_guard q "lint_files") rules (fun r => store_of r files) G) as E.
  destruct (finalize_all (fin_guard q "lint_files") rules (fun r => store_of r files)) as [[fs|e] l]; cbn [fst] in E; [|discriminate].
  injection E as ->. reflexivity.
Qed.

(* with both flags off the model meets the specification on EVERY input: no hypothesis about finalize() is left *)
Theorem run_ideal_exact q rules files :
  q_value_error_escapes q = false -> q_finalize_unguarded q = false ->
  fst (run q rules files) = spec_run rules files.
Proof.
  intros H1 H2. apply run_exact_fst; [|left; apply fin_guard_ideal; exact H2].
  intros r p e _ _ _. apply ideal_contains_all. exact H1.
Qed.

(* the faithful model (any quirk vector) is exact as long as no rule fails with an exception of the ValueError family
   and no finalize() fails *)
Theorem run_actual_partial q rules files :
  (forall r p e, In r rules -> In p files -> r_res r p = Fail e -> value_family e = false) ->
  final_safe rules files ->
  run q rules files = (spec_run rules files, spec_log rules files).
Proof.
  intros H F. apply run_exact; [|exact F]. intros r p e I I' E. apply non_value_contained. exact (H r p e I I' E).
Qed.

(* ... and aborts as soon as one does (or, for any vector, as soon as one escapes the table) *)
Theorem escape_crashes q rules files :
  (exists r p e, In r rules /\ In p files /\ r_res r p = Fail e /\ contained q e = false) ->
  exists e', fst (run q rules files) = Crashed e'.
Proof.
  intros H. destruct (lint_all_escape q rules files H) as (e' & l & L).
  exists e'. unfold run. rewrite L. reflexivity.
Qed.

Theorem finalize_failure_crashes q rules files :
  q_finalize_unguarded q = true ->
  all_contained q rules files ->
  (exists r, In r rules /\ is_okb (r_final r (store_of r files)) = false) ->
  exists e', fst (run q rules files) = Crashed e'.
Proof.
  intros Q C H. unfold run. rewrite (lint_all_contained q rules files C).
  unfold fin_guard. rewrite Q. destruct sequential_shape as (_ & G & _). rewrite G.
  destruct (finalize_all_fail rules (fun r => store_of r files) H) as (e' & l & L). rewrite L. exists e'. reflexivity.
Qed.

Theorem crash_has_cause q rules files e :
  fst (run q rules files) = Crashed e ->
  (exists r p, In r rules /\ In p files /\ r_res r p = Fail e /\ contained q e = false)
  \/ (exists r, In r rules /\ is_okb (r_final r (store_of r files)) = false).
Proof.
  unfold run. destruct (lint_all q rules files) as [[cs|e1] l1] eqn:L.
  - destruct (finalize_all (fin_guard q "lint_files") rules (fun r => store_of r files)) as [[fs|e2] l2] eqn:Fz; [discriminate|].
    intros _. right.
    destruct (List.existsb (fun r => negb (is_okb (r_final r (store_of r files)))) rules) eqn:X.
    + apply existsb_exists in X. destruct X as (r & I & N). exists r. split; [exact I|].
      destruct (is_okb (r_final r (store_of r files))); [discriminate|reflexivity].
    + exfalso. rewrite (finalize_all_safe _ rules (fun r => store_of r files)) in Fz; [discriminate|].
      intros r I. destruct (is_okb (r_final r (store_of r files))) eqn:O; [reflexivity|].
      assert (List.existsb (fun r => negb (is_okb (r_final r (store_of r files)))) rules = true) as Y
        by (apply existsb_exists; exists r; rewrite O; auto).
      rewrite Y in X. discriminate.
  - cbn [fst]. intros H. injection H as ->. left. exact (lint_all_fail_cause q rules files _ _ L).
Qed.

(* ------------------------------------------------------------------ sibling isolation *)
Lemma filter_map_const {A} (g : string -> bool) (p : string) (f : A -> cell) (l : list A) :
  (forall a, cell_path (f a) = p) ->
  filter (fun c => g (cell_path c)) (map f l) = if g p then map f l else [].
Proof.
  intros H. induction l as [|a t IH]; cbn [map filter]; [destruct (g p); reflexivity|].
  rewrite H, IH. destruct (g p); reflexivity.
Qed.

Lemma filter_paths (g : string -> bool) p cs :
  Forall (fun c => cell_path c = p) cs -> filter (fun c => g (cell_path c)) cs = if g p then cs else [].
Proof.
  induction 1 as [|c cs Hc _ IH]; cbn [filter]; [destruct (g p); reflexivity|].
  rewrite Hc, IH. destruct (g p); reflexivity.
Qed.

Lemma filter_flat_map_paths (g : string -> bool) (F : string -> list cell) files :
  (forall p, Forall (fun c => cell_path c = p) (F p)) ->
  filter (fun c => g (cell_path c)) (flat_map F files) = flat_map F (filter g files).
Proof.
  intros H. induction files as [|p ps IH]; [reflexivity|].
  change (flat_map F (p :: ps)) with (F p ++ flat_map F ps).
  rewrite filter_app, IH, (filter_paths g p (F p) (H p)).
  change (filter g (p :: ps)) with (if g p then p :: filter g ps else filter g ps).
  destruct (g p); reflexivity.
Qed.

Lemma spec_cells_filter rules files (g : string -> bool) :
  filter (fun c => g (cell_path c)) (spec_cells rules files) = spec_cells rules (filter g files).
Proof.
  unfold spec_cells. apply filter_flat_map_paths.
  intros p. apply Forall_forall. intros c I. apply in_map_iff in I. destruct I as (r & <- & _). reflexivity.
Qed.

Lemma store_len_split r files (g : string -> bool) :
  List.length (store_of r files)
  = List.length (store_of r (filter g files)) + List.length (store_of r (filter (fun p => negb (g p)) files)).
Proof.
  unfold store_of. induction files as [|p ps IH]; [reflexivity|].
  cbn [map List.concat filter]. rewrite app_length, IH.
  destruct (g p); cbn [negb map List.concat]; rewrite ?app_length; lia.
Qed.

Lemma concat_nil_all {A} (ll : list (list A)) : List.concat ll = [] -> forall l, In l ll -> l = [].
Proof.
  induction ll as [|x xs IH]; intros H l I; [destruct I|].
  cbn [List.concat] in H. apply app_eq_nil in H. destruct H as [Hx Hxs].
  destruct I as [<-|I]; [exact Hx|exact (IH Hxs l I)].
Qed.

(* the precise condition under which removing files leaves a cross-file rule's store unchanged *)
Theorem store_filter_iff r files (bad : string -> bool) :
  store_of r files = store_of r (filter (fun p => negb (bad p)) files)
  <-> (forall p, In p files -> bad p = true -> r_contrib r p = []).
Proof.
  split.
  - intros E p I B.
    pose proof (store_len_split r files (fun p => negb (bad p))) as L.
    rewrite <- E in L.
    assert (store_of r (filter (fun p => negb (negb (bad p))) files) = []) as Z
      by (apply length_zero_iff_nil; lia).
    unfold store_of in Z. apply (concat_nil_all _ Z). apply in_map. apply filter_In. split; [exact I|].
    rewrite B. reflexivity.
  - intros H. unfold store_of. induction files as [|p ps IH]; [reflexivity|].
    cbn [map List.concat filter]. destruct (bad p) eqn:B; cbn [negb].
    + rewrite (H p (or_introl eq_refl) B). cbn [app]. apply IH. intros p' I. apply H. right. exact I.
    + cbn [map List.concat]. f_equal. apply IH. intros p' I. apply H. right. exact I.
Qed.

Lemma all_contained_filter q rules files g : all_contained q rules files -> all_contained q rules (filter g files).
Proof. intros H r p e I I' E. apply (H r p e I); [|exact E]. apply filter_In in I'. tauto. Qed.

(* Main theorem.  Whatever subset `bad` of the files is taken away - in particular the files on which some rule
   fails - the cells (file, rule, reported violations) of all other files are exactly those of the run without
   them; the cross-file findings (finalize) are the same provided the removed files left no evidence in the
   stores, and by store_filter_iff that condition is also necessary for the stores to coincide. *)
Theorem sibling_isolation_gen q rules files (bad : string -> bool) :
  all_contained q rules files ->
  fin_guard q "lint_files" = true \/ (final_safe rules files /\ final_safe rules (filter (fun p => negb (bad p)) files)) ->
  exists cells fins cells' fins',
    fst (run q rules files) = Completed cells fins /\
    fst (run q rules (filter (fun p => negb (bad p)) files)) = Completed cells' fins' /\
    filter (fun c => negb (bad (cell_path c))) cells = cells' /\
    cells = spec_cells rules files /\
    ((forall r p, In r rules -> In p files -> bad p = true -> r_contrib r p = []) -> fins = fins').
Proof.
  intros C G.
  exists (spec_cells rules files), (spec_fins rules files),
         (spec_cells rules (filter (fun p => negb (bad p)) files)), (spec_fins rules (filter (fun p => negb (bad p)) files)).
  rewrite (run_exact_fst q rules files C) by (destruct G as [G|[G _]]; [left|right]; exact G).
  rewrite (run_exact_fst q rules _ (all_contained_filter q rules files _ C)) by (destruct G as [G|[_ G]]; [left|right]; exact G).
  repeat split.
  - apply (spec_cells_filter rules files (fun p => negb (bad p))).
  - intros H. unfold spec_fins. apply map_ext_in. intros r I.
    rewrite (proj2 (store_filter_iff r files bad)); [reflexivity|]. intros p Ip B. exact (H r p I Ip B).
Qed.

Theorem sibling_isolation q rules files (bad : string -> bool) :
  all_contained q rules files ->
  final_safe rules files -> final_safe rules (filter (fun p => negb (bad p)) files) ->
  exists cells fins cells' fins',
    fst (run q rules files) = Completed cells fins /\
    fst (run q rules (filter (fun p => negb (bad p)) files)) = Completed cells' fins' /\
    filter (fun c => negb (bad (cell_path c))) cells = cells' /\
    cells = spec_cells rules files /\
    ((forall r p, In r rules -> In p files -> bad p = true -> r_contrib r p = []) -> fins = fins').
Proof. intros C F F'. apply sibling_isolation_gen; [exact C|right; split; assumption]. Qed.

(* Main theorem at full strength: both flags off, NO further hypothesis - rules are arbitrary partial functions, finalize() may fail *)
Theorem sibling_isolation_ideal q rules files (bad : string -> bool) :
  q_value_error_escapes q = false -> q_finalize_unguarded q = false ->
  exists cells fins cells' fins',
    fst (run q rules files) = Completed cells fins /\
    fst (run q rules (filter (fun p => negb (bad p)) files)) = Completed cells' fins' /\
    filter (fun c => negb (bad (cell_path c))) cells = cells' /\
    cells = spec_cells rules files /\
    ((forall r p, In r rules -> In p files -> bad p = true -> r_contrib r p = []) -> fins = fins').
Proof.
  intros H1 H2. apply sibling_isolation_gen; [|left; apply fin_guard_ideal; exact H2].
  intros r p e _ _ _. apply ideal_contains_all. exact H1.
Qed.

(* a failing finalize() costs, when guarded, exactly that rule's cross-file findings *)
Theorem guarded_finalize_failure_is_local q rules files :
  q_value_error_escapes q = false -> q_finalize_unguarded q = false ->
  exists cells, fst (run q rules files) = Completed cells (map (fun r => (r_id r, ok_or_nil (r_final r (store_of r files)))) rules).
Proof. intros H1 H2. exists (spec_cells rules files). exact (run_ideal_exact q rules files H1 H2). Qed.

(* a failing pair costs exactly its own cell: every other rule on the same file is unaffected *)
Theorem failing_pair_costs_its_own_cell q rules files r p :
  all_contained q rules files -> final_safe rules files -> In r rules -> In p files ->
  exists cells fins, fst (run q rules files) = Completed cells fins /\
    In (p, r_id r, ok_or_nil (r_res r p)) cells.
Proof.
  intros C F I Ip. exists (spec_cells rules files), (spec_fins rules files).
  rewrite (run_exact_fst q rules files C (or_intror F)). split; [reflexivity|].
  unfold spec_cells. apply in_flat_map. exists p. split; [exact Ip|]. apply in_map_iff. exists r. auto.
Qed.

(* ------------------------------------------------------------------ hook H1 sees every swallowed failure *)
Theorem log_complete q rules files :
  all_contained q rules files -> final_safe rules files ->
  snd (run q rules files) = spec_log rules files.
Proof. intros C F. rewrite (run_exact q rules files C F). reflexivity. Qed.

Theorem empty_log_means_no_failure q rules files :
  all_contained q rules files -> final_safe rules files ->
  snd (run q rules files) = [] ->
  forall r p, In r rules -> In p files -> exists vs, r_res r p = Ok vs.
Proof.
  intros C F L r p I Ip. rewrite (log_complete q rules files C F) in L.
  destruct (r_res r p) as [vs|e] eqn:E; [eauto|].
  exfalso. assert (In ("rule", r_id r, p, exc_name e) (spec_log rules files)) as X.
  { unfold spec_log. apply in_flat_map. exists p. split; [exact Ip|]. apply in_flat_map. exists r. split; [exact I|].
    rewrite E. left. reflexivity. }
  rewrite L in X. destruct X.
Qed.

(* ------------------------------------------------------------------ exit status *)
Theorem completed_exit_0_or_1 cells fins : exit_code (Completed cells fins) <= 1.
Proof. unfold exit_code. destruct (flat_viols cells fins); lia. Qed.

Theorem ideal_exit_0_or_1 q rules files :
  q_value_error_escapes q = false -> q_finalize_unguarded q = false -> exit_code (fst (run q rules files)) <= 1.
Proof. intros H1 H2. rewrite (run_ideal_exact q rules files H1 H2). apply completed_exit_0_or_1. Qed.

Theorem crash_exit_is_2 e : exit_code (Crashed e) = 2.
Proof. reflexivity. Qed.

(* ------------------------------------------------------------------ the parallel path *)
Lemma par_file_contained q rules p :
  (forall r e, In r rules -> r_res r p = Fail e -> contained q e = true) ->
  par_file q rules p = (Ok (map (cell_of p) rules), flat_map (log_of p) rules).
Proof. intros H. unfold par_file. rewrite (lint_file_contained q rules p H). reflexivity. Qed.

Lemma par_all_contained q rules files :
  all_contained q rules files -> par_all q rules files = (Ok (spec_cells rules files), spec_log rules files).
Proof.
  induction files as [|p ps IH]; intros H; [reflexivity|].
  cbn [par_all]. unfold spec_cells, spec_log. cbn [flat_map]. fold (spec_cells rules ps). fold (spec_log rules ps).
  rewrite (par_file_contained q rules p) by (intros r e I E; apply (H r p e I); [left; reflexivity|exact E]).
  rewrite IH by (intros r p' e I I' E; apply (H r p' e I); [right; exact I'|exact E]).
  reflexivity.
Qed.

(* an exception that escapes _safe_check_rule is re-raised by the worker and again when the future is read *)
Lemma par_file_escape q rules p :
  (exists r e, In r rules /\ r_res r p = Fail e /\ contained q e = false) ->
  exists e' l, par_file q rules p = (Fail e', l).
Proof.
  intros H. destruct (lint_file_escape q rules p H) as (e' & l & L).
  destruct (lint_file_fail_cause q rules p e' l L) as (r & _ & _ & C).
  destruct (pool_reraises_value_family e' (escaping_is_value_family q e' C)) as [W F].
  exists e', l. unfold par_file. rewrite L, W, F. reflexivity.
Qed.

Lemma par_all_escape q rules files :
  (exists r p e, In r rules /\ In p files /\ r_res r p = Fail e /\ contained q e = false) ->
  exists e' l, par_all q rules files = (Fail e', l).
Proof.
  induction files as [|p ps IH]; intros (r & p0 & e & I & Ip & E & C); [destruct Ip|].
  cbn [par_all]. destruct (par_file q rules p) as [[cs|e1] l1] eqn:L; [|eauto].
  destruct Ip as [<-|Ip].
  - destruct (par_file_escape q rules p (ex_intro _ r (ex_intro _ e (conj I (conj E C))))) as (e' & l' & L').
    rewrite L' in L. discriminate.
  - destruct (IH (ex_intro _ r (ex_intro _ p0 (ex_intro _ e (conj I (conj Ip (conj E C))))))) as (e' & l' & L').
    rewrite L'. eauto.
Qed.

Lemma wf_store_nil r files : r_cross r = false -> wf_rule r -> store_of r files = [].
Proof.
  intros X W. unfold store_of. induction files as [|p ps IH]; [reflexivity|].
  cbn [map List.concat]. rewrite (W X p), IH. reflexivity.
Qed.

Lemma par_store_eq r files : wf_rule r -> par_store r files = store_of r files.
Proof.
  intros W. unfold par_store. rewrite par_collects. destruct (r_cross r) eqn:X; [reflexivity|].
  cbn [andb]. symmetry. exact (wf_store_nil r files X W).
Qed.

Lemma all_contained_cross q rules files : all_contained q rules files -> all_contained q (filter r_cross rules) files.
Proof. intros H r p e I. apply (H r p e). apply filter_In in I. tauto. Qed.

(* With the parent re-running the cross-file rules, the parallel run is exact under the same conditions as the
   sequential one: same cells, same cross-file findings. *)
Theorem run_par_exact q rules files :
  all_contained q rules files -> fin_guard q "_finalize_rules" = true \/ final_safe rules files -> (forall r, In r rules -> wf_rule r) ->
  fst (run_par q rules files) = spec_run rules files.
Proof.
  intros C G W. unfold run_par. rewrite (par_all_contained q rules files C). rewrite par_collects.
  rewrite (lint_all_contained q (filter r_cross rules) files (all_contained_cross q rules files C)).
  assert (fst (finalize_all (fin_guard q "_finalize_rules") rules (fun r => par_store r files)) = Ok (fins_of rules (fun r => par_store r files))) as E.
  { apply finalize_all_fst. destruct G as [G|F]; [left; exact G|right]. intros r I. rewrite (par_store_eq r files (W r I)). exact (F r I). }
  destruct (finalize_all (fin_guard q "_finalize_rules") rules (fun r => par_store r files)) as [[fs|e] l]; cbn [fst] in E; [|discriminate].
  injection E as ->. cbn [fst]. unfold spec_run, spec_fins, fins_of. f_equal. apply map_ext_in. intros r I.
  rewrite (par_store_eq r files (W r I)). reflexivity.
Qed.

(* every failing pair is logged by the worker, and once more by the parent for the cross-file rules *)
Theorem run_par_log q rules files :
  all_contained q rules files -> final_safe rules files -> (forall r, In r rules -> wf_rule r) ->
  snd (run_par q rules files) = spec_log rules files ++ spec_log (filter r_cross rules) files.
Proof.
  intros C F W. unfold run_par. rewrite (par_all_contained q rules files C). rewrite par_collects.
  rewrite (lint_all_contained q (filter r_cross rules) files (all_contained_cross q rules files C)).
  rewrite (finalize_all_safe _ rules (fun r => par_store r files)).
  - cbn [snd]. rewrite app_nil_r. reflexivity.
  - intros r I. rewrite (par_store_eq r files (W r I)). exact (F r I).
Qed.

Theorem par_isolation q rules files (bad : string -> bool) :
  all_contained q rules files ->
  exists cells cells',
    fst (par_all q rules files) = Ok cells /\
    fst (par_all q rules (filter (fun p => negb (bad p)) files)) = Ok cells' /\
    filter (fun c => negb (bad (cell_path c))) cells = cells'.
Proof.
  intros C. exists (spec_cells rules files), (spec_cells rules (filter (fun p => negb (bad p)) files)).
  rewrite (par_all_contained q rules files C).
  rewrite (par_all_contained q rules _ (all_contained_filter q rules files _ C)).
  repeat split. apply (spec_cells_filter rules files (fun p => negb (bad p))).
Qed.

Theorem par_ideal_exact q rules files :
  q_value_error_escapes q = false -> fst (par_all q rules files) = Ok (spec_cells rules files).
Proof.
  intros H. rewrite (par_all_contained q rules files); [reflexivity|].
  intros r p e _ _ _. apply ideal_contains_all. exact H.
Qed.

(* an escaping exception aborts the parallel run too (it is re-raised by the worker and by the future reader) *)
Theorem par_escape_crashes q rules files :
  (exists r p e, In r rules /\ In p files /\ r_res r p = Fail e /\ contained q e = false) ->
  exists e', fst (run_par q rules files) = Crashed e'.
Proof.
  intros H. destruct (par_all_escape q rules files H) as (e' & l & L).
  exists e'. unfold run_par. rewrite L. reflexivity.
Qed.
