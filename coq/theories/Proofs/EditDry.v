(* Proofs/EditDry.v — C13, the DRY tokenizer (Model/DryPipe.v / Model/Dry.v: token_hasher.normalize_line,
   _tokenize_with_line_numbers, _rolling_hash_with_tracking) under the edits.
   1. generic in the leaf parameters: inserting a line that yields no token (docstring line, or a line whose
      normalisation is empty) moves every token, window and stored row by the line shift and changes nothing else;
   2. for the parameters read from the source, under EVERY quirk vector: blank lines and comment-only lines yield no
      token; normalize_line ignores trailing white space (a CR included) and the indentation;
   3. what is NOT invariant: the line count `end - start + 1` of a reported block, and the first line of a file that
      starts with U+FEFF. *)
From TL Require Import Lib.Base Lib.GenTypes Model.DryBase Model.DryPipe Gen.DryGen Model.Dry Actual.DryActual Model.Edit Proofs.EditList.

(* ------------------------------------------------------------------ 1. generic commutation *)
Section Generic.
  Variable P : aparams.

  Definition yields_no_token (x : aline) : bool := a_doc x || str_empty (p_norm P x).

  Definition tok_shift (f : nat -> nat) (t : nat * string) : nat * string := (f (fst t), snd t).

  Lemma tokenize_from_S : forall ls n st,
    tokenize_from P (S n) st ls = map (tok_shift S) (tokenize_from P n st ls).
  Proof.
    induction ls as [|l rest IH]; intros n st; [reflexivity|]. cbn [tokenize_from].
    destruct (a_doc l); [apply IH|]. destruct (str_empty (p_norm P l)); [apply IH|].
    destruct (snd (p_skip P (p_norm P l) st)); [apply IH|]. cbn [map tok_shift fst snd]. now rewrite IH.
  Qed.

  Lemma tokenize_from_ge : forall ls n st t, In t (tokenize_from P n st ls) -> n <= fst t.
  Proof.
    induction ls as [|l rest IH]; intros n st t H; [destruct H|]. cbn [tokenize_from] in H.
    assert (R : forall st', In t (tokenize_from P (S n) st' rest) -> n <= fst t) by (intros st' H'; specialize (IH _ _ _ H'); lia).
    destruct (a_doc l); [eapply R; exact H|]. destruct (str_empty (p_norm P l)); [eapply R; exact H|].
    destruct (snd (p_skip P (p_norm P l) st)); [eapply R; exact H|].
    destruct H as [<-|H]; [cbn [fst]; lia|eapply R; exact H].
  Qed.

  (* the scan is at line n; the new line becomes line n + k *)
  Definition shift_from (n k m : nat) : nat := if n + k <=? m then S m else m.

  Lemma tokenize_from_ins x : yields_no_token x = true -> forall ls k n st, k <= List.length ls ->
    tokenize_from P n st (ins k x ls) = map (tok_shift (shift_from n k)) (tokenize_from P n st ls).
  Proof.
    intros Hx. induction ls as [|l rest IH]; intros k n st Hk.
    - cbn [List.length] in Hk. assert (k = 0) by lia. subst k. cbn [ins tokenize_from map].
      unfold yields_no_token in Hx. destruct (a_doc x); [reflexivity|]. cbn [orb] in Hx. now rewrite Hx.
    - destruct k as [|k].
      + cbn [ins]. change (tokenize_from P n st (x :: l :: rest)) with
          (if a_doc x then tokenize_from P (S n) st (l :: rest)
           else if str_empty (p_norm P x) then tokenize_from P (S n) st (l :: rest)
           else if snd (p_skip P (p_norm P x) st) then tokenize_from P (S n) (fst (p_skip P (p_norm P x) st)) (l :: rest)
           else (n, p_norm P x) :: tokenize_from P (S n) (fst (p_skip P (p_norm P x) st)) (l :: rest)).
        assert (E : tokenize_from P (S n) st (l :: rest) = map (tok_shift (shift_from n 0)) (tokenize_from P n st (l :: rest))).
        { rewrite tokenize_from_S. apply map_ext_in. intros t Ht. apply tokenize_from_ge in Ht.
          unfold tok_shift, shift_from. rewrite Nat.add_0_r. now replace (n <=? fst t) with true by (symmetry; apply Nat.leb_le; lia). }
        unfold yields_no_token in Hx. destruct (a_doc x); [exact E|]. cbn [orb] in Hx. rewrite Hx. exact E.
      + cbn [List.length] in Hk. cbn [ins tokenize_from].
        assert (R : forall st', tokenize_from P (S n) st' (ins k x rest) = map (tok_shift (shift_from n (S k))) (tokenize_from P (S n) st' rest)).
        { intro st'. rewrite IH by lia. apply map_ext. intro t. unfold tok_shift, shift_from. now replace (S n + k) with (n + S k) by lia. }
        destruct (a_doc l); [apply R|]. destruct (str_empty (p_norm P l)); [apply R|].
        destruct (snd (p_skip P (p_norm P l) st)); [apply R|].
        cbn [map]. rewrite R. f_equal. unfold tok_shift, shift_from. cbn [fst snd].
        now replace (n + S k <=? n) with false by (symmetry; apply Nat.leb_gt; lia).
  Qed.

  Hypothesis first1 : p_first_line P = 1.

  Theorem tokenize_ins x ls k : yields_no_token x = true -> k <= List.length ls ->
    tokenize P (ins k x ls) = map (tok_shift (shift_ins k)) (tokenize P ls).
  Proof.
    intros Hx Hk. unfold tokenize. rewrite first1, (tokenize_from_ins x Hx ls k 1 false Hk).
    apply map_ext. intro t. unfold tok_shift, shift_from, shift_ins.
    destruct (Nat.leb_spec (1 + k) (fst t)), (Nat.ltb_spec k (fst t)); try reflexivity; lia.
  Qed.

  (* appended code: the tokens of the existing lines are a prefix of the tokens of the longer file *)
  Lemma tokenize_from_app : forall ls extra n st, exists st',
    tokenize_from P n st (ls ++ extra) = tokenize_from P n st ls ++ tokenize_from P (n + List.length ls) st' extra.
  Proof.
    induction ls as [|l rest IH]; intros extra n st.
    - exists st. cbn [app List.length tokenize_from]. now rewrite Nat.add_0_r.
    - cbn [app List.length tokenize_from]. replace (n + S (List.length rest)) with (S n + List.length rest) by lia.
      destruct (a_doc l); [apply IH|]. destruct (str_empty (p_norm P l)); [apply IH|].
      destruct (snd (p_skip P (p_norm P l) st)); [apply IH|].
      destruct (IH extra (S n) (fst (p_skip P (p_norm P l) st))) as [st' E]. exists st'. rewrite E. reflexivity.
  Qed.

  Theorem tokenize_append ls extra : exists more, tokenize P (ls ++ extra) = tokenize P ls ++ more.
  Proof. unfold tokenize. destruct (tokenize_from_app ls extra (p_first_line P) false) as [st' E]. eexists. exact E. Qed.

  (* windows and stored rows *)
  Variable f : nat -> nat.
  Hypothesis f0 : f 0 = 0.

  Lemma firstn_map {A B} (g : A -> B) : forall n l, firstn n (map g l) = map g (firstn n l).
  Proof. induction n as [|n IH]; intros [|y r]; cbn [firstn map]; try reflexivity. now rewrite IH. Qed.

  Lemma windows_from_map W : forall cnt s,
    windows_from W cnt (map (tok_shift f) s) = map (map (tok_shift f)) (windows_from W cnt s).
  Proof.
    induction cnt as [|c IH]; intro s; [reflexivity|]. cbn [windows_from map]. rewrite firstn_map. f_equal.
    destruct s as [|t r]; [apply (IH [])|]. cbn [tl map]. apply IH.
  Qed.

  Lemma window_list_map W s : window_list P W (map (tok_shift f) s) = map (map (tok_shift f)) (window_list P W s).
  Proof. unfold window_list. rewrite map_length. destruct (cmp_nat (p_guard P) (List.length s) W); [reflexivity|apply windows_from_map]. Qed.

  Definition row_shift (r : row) : row := {| r_file := r_file r; r_start := f (r_start r); r_end := f (r_end r); r_snip := r_snip r |}.

  Lemma win_pick_map w i : fst (win_pick (0, "") (map (tok_shift f) w) i) = f (fst (win_pick (0, "") w i)).
  Proof.
    assert (D : tok_shift f (0, "") = (0, "")) by (unfold tok_shift; cbn [fst snd]; now rewrite f0).
    destruct i as [n|n]; cbn [win_pick].
    - rewrite <- D at 1. rewrite map_nth. reflexivity.
    - rewrite <- map_rev. rewrite <- D at 1. rewrite map_nth. reflexivity.
  Qed.

  Lemma mk_row_map fi w : mk_row P fi (map (tok_shift f) w) = row_shift (mk_row P fi w).
  Proof.
    unfold mk_row, row_shift. cbn [r_file r_start r_end r_snip]. rewrite !win_pick_map. f_equal.
    rewrite map_map. reflexivity.
  Qed.

  Lemma rows_of_tokens W fi s :
    map (mk_row P fi) (window_list P W (map (tok_shift f) s)) = map row_shift (map (mk_row P fi) (window_list P W s)).
  Proof. rewrite window_list_map, !map_map. apply map_ext. intro w. apply mk_row_map. Qed.
End Generic.

(* every window, and every row stored for the file, is the old one moved by the line shift: same snippet (hence same
   hash), start and end line shifted *)
Theorem file_rows_ins P W fi x ls k : p_first_line P = 1 -> yields_no_token P x = true -> k <= List.length ls ->
  file_rows P W fi (ins k x ls) = map (row_shift (shift_ins k)) (file_rows P W fi ls).
Proof.
  intros F Hx Hk. unfold file_rows. rewrite (tokenize_ins P F x ls k Hx Hk). apply rows_of_tokens. reflexivity.
Qed.

(* lines that normalise alike give the same tokens (no shift) *)
Theorem tokenize_from_same_norm P : forall ls ls' n st,
  Forall2 (fun a b => a_doc a = a_doc b /\ p_norm P a = p_norm P b) ls ls' ->
  tokenize_from P n st ls = tokenize_from P n st ls'.
Proof.
  intros ls ls' n st H. revert n st. induction H as [|a b ra rb [Hd Hn] _ IH]; intros n st; [reflexivity|].
  cbn [tokenize_from]. rewrite Hd, Hn. destruct (a_doc b); [apply IH|]. destruct (str_empty (p_norm P b)); [apply IH|].
  destruct (snd (p_skip P (p_norm P b) st)); [apply IH|]. now rewrite IH.
Qed.

(* ------------------------------------------------------------------ 2. the parameters read from the source *)
Lemma gen_markers : dry_comment_markers = ["#"; "//"] /\ dry_norm_sep = " ".
Proof. split; reflexivity. Qed.

Lemma first_line_1 q l : p_first_line (model_aparams q l) = 1.
Proof. destruct l; reflexivity. Qed.

Definition ws_only (s : string) : bool := all_of is_ws s.

Lemma app_nil_r' s : (s ++ "")%string = s.
Proof. induction s as [|c r IH]; [reflexivity|]. cbn [append]. now rewrite IH. Qed.

Lemma app_assoc' a b c : ((a ++ b) ++ c)%string = (a ++ (b ++ c))%string.
Proof. induction a as [|x r IH]; [reflexivity|]. cbn [append]. now rewrite IH. Qed.

(* --- words / norm_text --- *)
Lemma flush_nil acc : flush acc (flush EmptyString []) = flush acc [].
Proof. reflexivity. Qed.

Lemma words_acc_ws : forall w acc, ws_only w = true -> words_acc acc w = flush acc [].
Proof.
  induction w as [|c r IH]; intros acc H; [reflexivity|].
  cbn [ws_only all_of] in H. apply andb_true_iff in H as [Hc H]. cbn [words_acc]. rewrite Hc.
  rewrite (IH EmptyString H). reflexivity.
Qed.

Lemma words_acc_app_ws : forall s w acc, ws_only w = true -> words_acc acc (s ++ w) = words_acc acc s.
Proof.
  induction s as [|c r IH]; intros w acc H.
  - cbn [append]. now apply words_acc_ws.
  - cbn [append words_acc]. destruct (is_ws c); now rewrite IH.
Qed.

Lemma words_acc_ws_app : forall w s, ws_only w = true -> words_acc EmptyString (w ++ s) = words_acc EmptyString s.
Proof.
  induction w as [|c r IH]; intros s H; [reflexivity|].
  cbn [ws_only all_of] in H. apply andb_true_iff in H as [Hc H]. cbn [append words_acc]. rewrite Hc.
  cbn [flush]. now apply IH.
Qed.

Lemma norm_text_app_ws s w : ws_only w = true -> norm_text (s ++ w) = norm_text s.
Proof. intro H. unfold norm_text, words. now rewrite words_acc_app_ws. Qed.

Lemma norm_text_ws_app w s : ws_only w = true -> norm_text (w ++ s) = norm_text s.
Proof. intro H. unfold norm_text, words. now rewrite words_acc_ws_app. Qed.

Lemma norm_text_ws w : ws_only w = true -> norm_text w = "".
Proof. intro H. unfold norm_text, words. now rewrite words_acc_ws. Qed.

(* --- cut_at / strip_text --- *)
(* a marker that starts with a non-white-space character *)
Definition solid (m : string) : bool := match m with String c _ => negb (is_ws c) | EmptyString => false end.

Lemma str_prefix_ws m c r : solid m = true -> is_ws c = true -> str_prefix m (String c r) = false.
Proof.
  destruct m as [|a m']; [discriminate|]. cbn [solid str_prefix]. intros Hs Hc.
  destruct (Ascii.eqb_spec a c) as [->|]; [|reflexivity]. rewrite Hc in Hs. discriminate.
Qed.

Lemma cut_at_ws_app m : solid m = true -> forall w s, ws_only w = true -> cut_at m (w ++ s) = (w ++ cut_at m s)%string.
Proof.
  intros Hm. induction w as [|c r IH]; intros s H; [reflexivity|].
  cbn [ws_only all_of] in H. apply andb_true_iff in H as [Hc H]. cbn [append cut_at].
  rewrite (str_prefix_ws m c _ Hm Hc). now rewrite IH.
Qed.

Lemma cut_at_ws m : solid m = true -> forall w, ws_only w = true -> cut_at m w = w.
Proof. intros Hm w H. rewrite <- (app_nil_r' w) at 1. rewrite (cut_at_ws_app m Hm w "" H). destruct m; [discriminate|]. cbn [cut_at str_prefix]. now rewrite app_nil_r'. Qed.

Lemma str_prefix_app_ws m : solid m = true -> forall s w, ws_only w = true ->
  all_of (fun c => negb (is_ws c)) m = true -> str_prefix m (s ++ w) = str_prefix m s.
Proof.
  intros _. induction m as [|a m' IH]; intros s w Hw Hm; [reflexivity|].
  cbn [all_of] in Hm. apply andb_true_iff in Hm as [Ha Hm].
  destruct s as [|c r].
  - cbn [append]. destruct w as [|c w']; [reflexivity|]. cbn [str_prefix].
    cbn [ws_only all_of] in Hw. apply andb_true_iff in Hw as [Hc _].
    destruct (Ascii.eqb_spec a c) as [->|]; [|reflexivity]. rewrite Hc in Ha. discriminate.
  - cbn [append str_prefix]. destruct (Ascii.eqb a c); [|reflexivity]. cbn [andb].
    destruct m' as [|b m'']; [reflexivity|]. apply IH; assumption.
Qed.

(* appending white space to a line appends white space (or nothing) to what the cut leaves *)
Lemma cut_at_app_ws m : solid m = true -> all_of (fun c => negb (is_ws c)) m = true -> forall s w, ws_only w = true ->
  exists w', ws_only w' = true /\ cut_at m (s ++ w) = (cut_at m s ++ w')%string.
Proof.
  intros Hs Hm. induction s as [|c r IH]; intros w Hw.
  - exists w. split; [exact Hw|]. cbn [append]. rewrite (cut_at_ws m Hs w Hw).
    destruct m; [discriminate|reflexivity].
  - cbn [cut_at]. change (String c r ++ w)%string with (String c (r ++ w)).
    assert (E : str_prefix m (String c (r ++ w)) = str_prefix m (String c r)) by apply (str_prefix_app_ws m Hs (String c r) w Hw Hm).
    cbn [cut_at]. rewrite E. destruct (str_prefix m (String c r)).
    + exists EmptyString. split; reflexivity.
    + destruct (IH w Hw) as (w' & Hw' & E'). exists w'. split; [exact Hw'|]. cbn [append]. now rewrite E'.
Qed.

Lemma strip_text_eq s : strip_text s = cut_at "//" (cut_at "#" s).
Proof. unfold strip_text. destruct gen_markers as [-> _]. reflexivity. Qed.

(* normalize_line = " ".join(_strip_comments(line).split()) *)
Definition normalize_line (s : string) : string := norm_text (strip_text s).

Theorem normalize_trailing_ws s w : ws_only w = true -> normalize_line (s ++ w) = normalize_line s.
Proof.
  intro Hw. unfold normalize_line. rewrite !strip_text_eq.
  destruct (cut_at_app_ws "#" eq_refl eq_refl s w Hw) as (w1 & H1 & E1). rewrite E1.
  destruct (cut_at_app_ws "//" eq_refl eq_refl (cut_at "#" s) w1 H1) as (w2 & H2 & E2). rewrite E2.
  now apply norm_text_app_ws.
Qed.

Corollary normalize_cr s : normalize_line (s ++ cr) = normalize_line s.
Proof. apply normalize_trailing_ws. reflexivity. Qed.

Theorem normalize_indent w1 w2 b : ws_only w1 = true -> ws_only w2 = true ->
  normalize_line (w1 ++ b) = normalize_line (w2 ++ b).
Proof.
  intros H1 H2. unfold normalize_line. rewrite !strip_text_eq.
  rewrite !(cut_at_ws_app "#" eq_refl _ b) by assumption.
  rewrite !(cut_at_ws_app "//" eq_refl _ (cut_at "#" b)) by assumption.
  now rewrite !norm_text_ws_app.
Qed.

(* spaces and tabs are white space for str.split *)
Lemma blank_ws w : all_of is_blank_char w = true -> ws_only w = true.
Proof.
  unfold ws_only. induction w as [|c r IH]; [reflexivity|]. cbn [all_of]. intro H. apply andb_true_iff in H as [Hc H].
  rewrite (IH H), andb_true_r. unfold is_blank_char, PyStr.is in Hc. apply orb_true_iff in Hc as [Hc|Hc]; apply Ascii.eqb_eq in Hc; subst c; reflexivity.
Qed.

Lemma body_split : forall s, exists w, all_of is_blank_char w = true /\ s = (w ++ body_of s)%string.
Proof.
  induction s as [|c r IH]; [exists EmptyString; split; reflexivity|]. cbn [body_of].
  destruct (is_blank_char c) eqn:E.
  - destruct IH as (w & Hw & Er). exists (String c w). split; [cbn [all_of]; now rewrite E, Hw|]. cbn [append]. now rewrite <- Er.
  - exists EmptyString. split; reflexivity.
Qed.

(* re-indentation in the sense of the edit algebra *)
Corollary normalize_set_indent w s : all_of is_blank_char w = true -> normalize_line (set_indent w s) = normalize_line s.
Proof.
  intro Hw. destruct (body_split s) as (w0 & H0 & E). rewrite E at 2. unfold set_indent.
  apply normalize_indent; now apply blank_ws.
Qed.

(* --- the model's leaf function is normalize_line on the rendered line, for every vector that cuts in code --- *)
Definition raw_aline (doc : bool) (s : string) : aline := {| a_doc := doc; a_indent := ""; a_code := s; a_cmt := CNone |}.

Lemma norm_raw q l doc s : q_strip_in_code q = true -> norm q l (raw_aline doc s) = normalize_line s.
Proof. intro H. unfold norm, raw_aline. cbn [a_code a_cmt]. rewrite H. unfold render_cmt. now rewrite app_nil_r'. Qed.

(* blank lines yield no token, under every quirk vector *)
Theorem blank_no_token q l ws : ws_only ws = true ->
  yields_no_token (model_aparams q l) {| a_doc := false; a_indent := ws; a_code := ""; a_cmt := CNone |} = true.
Proof.
  intros _. unfold yields_no_token. cbn [a_doc orb]. destruct l; cbn [model_aparams p_norm]; unfold norm; cbn [a_code a_cmt];
  destruct (q_strip_in_code q); reflexivity.
Qed.

(* comment-only lines yield no token, under every quirk vector *)
Theorem comment_no_token q l ws t :
  yields_no_token (model_aparams q l) {| a_doc := false; a_indent := ws; a_code := ""; a_cmt := CLine t |} = true.
Proof.
  unfold yields_no_token. cbn [a_doc orb].
  destruct l; cbn [model_aparams p_norm]; unfold norm; cbn [a_code a_cmt]; destruct (q_strip_in_code q); reflexivity.
Qed.

(* the same on the text of the line, as the code sees it: white space, then the comment marker *)
Theorem raw_comment_no_token q l ws t : q_strip_in_code q = true -> ws_only ws = true ->
  yields_no_token (model_aparams q l) (raw_aline false (ws ++ line_marker l ++ t)) = true.
Proof.
  intros Hq Hw. unfold yields_no_token. cbn [raw_aline a_doc orb].
  assert (E : p_norm (model_aparams q l) (raw_aline false (ws ++ line_marker l ++ t)) = normalize_line (ws ++ line_marker l ++ t))
    by (destruct l; apply (norm_raw q _ false _ Hq)).
  rewrite E. unfold normalize_line. rewrite strip_text_eq.
  rewrite (cut_at_ws_app "#" eq_refl ws _ Hw).
  destruct l; cbn [line_marker].
  - change (cut_at "#" ("#" ++ t)) with EmptyString. rewrite app_nil_r'.
    rewrite (cut_at_ws "//" eq_refl ws Hw). now rewrite (norm_text_ws ws Hw).
  - change ("//" ++ t)%string with (String "/" (String "/" t)). cbn [cut_at str_prefix Ascii.eqb Bool.eqb andb].
    rewrite (cut_at_ws_app "//" eq_refl ws _ Hw).
    change (cut_at "//" (String "/" (String "/" (cut_at "#" t)))) with EmptyString.
    rewrite app_nil_r'. now rewrite (norm_text_ws ws Hw).
Qed.

Theorem raw_blank_no_token q l ws : q_strip_in_code q = true -> ws_only ws = true ->
  yields_no_token (model_aparams q l) (raw_aline false ws) = true.
Proof.
  intros Hq Hw. unfold yields_no_token. cbn [raw_aline a_doc orb].
  assert (E : p_norm (model_aparams q l) (raw_aline false ws) = normalize_line ws) by (destruct l; apply (norm_raw q _ false _ Hq)).
  rewrite E. unfold normalize_line. rewrite strip_text_eq.
  rewrite (cut_at_ws "#" eq_refl ws Hw), (cut_at_ws "//" eq_refl ws Hw). now rewrite (norm_text_ws ws Hw).
Qed.

(* the DRY rows of a file under insertion of a blank or comment line, for the parameters read from the source *)
Theorem dry_rows_insert q l W fi x ls k :
  yields_no_token (model_aparams q l) x = true -> k <= List.length ls ->
  file_rows (model_aparams q l) W fi (ins k x ls) = map (row_shift (shift_ins k)) (file_rows (model_aparams q l) W fi ls).
Proof. intros Hx Hk. apply file_rows_ins; [apply first_line_1|exact Hx|exact Hk]. Qed.

(* trailing white space / CR / re-indentation of any lines leave the tokens, windows and rows of the file unchanged *)
Definition ws_variant (a b : string) : Prop :=
  (exists s w w', ws_only w = true /\ ws_only w' = true /\ a = (s ++ w)%string /\ b = (s ++ w')%string)
  \/ (exists w w' body, ws_only w = true /\ ws_only w' = true /\ a = (w ++ body)%string /\ b = (w' ++ body)%string).

Lemma ws_variant_norm a b : ws_variant a b -> normalize_line a = normalize_line b.
Proof.
  intros [(s & w & w' & H & H' & -> & ->)|(w & w' & body & H & H' & -> & ->)].
  - now rewrite !normalize_trailing_ws.
  - now apply normalize_indent.
Qed.

Theorem dry_rows_ws_variant q l W fi docs ls ls' : q_strip_in_code q = true ->
  Forall2 ws_variant ls ls' -> List.length docs = List.length ls ->
  file_rows (model_aparams q l) W fi (map (fun p => raw_aline (fst p) (snd p)) (combine docs ls))
  = file_rows (model_aparams q l) W fi (map (fun p => raw_aline (fst p) (snd p)) (combine docs ls')).
Proof.
  intros Hq H _. unfold file_rows, tokenize. f_equal. f_equal. apply tokenize_from_same_norm.
  revert docs. induction H as [|a b ra rb Hab _ IH]; intro docs; [destruct docs; constructor|].
  destruct docs as [|d docs]; [constructor|]. cbn [combine map]. constructor; [|apply IH].
  cbn [fst snd]. split; [reflexivity|]. destruct l; cbn [model_aparams p_norm]; rewrite !(norm_raw q _ d _ Hq); now apply ws_variant_norm.
Qed.

(* hence the whole DRY report of a project is unchanged by such edits of any of its files: equal rows, equal report *)
Lemma rows_from_same PA W : forall files files' i,
  Forall2 (fun f f' => DryPipe.f_lang f = DryPipe.f_lang f' /\
                       forall j, file_rows (PA (DryPipe.f_lang f)) W j (DryPipe.f_lines f) = file_rows (PA (DryPipe.f_lang f')) W j (DryPipe.f_lines f')) files files' ->
  rows_from PA W i files = rows_from PA W i files'.
Proof.
  intros files files' i H. revert i. induction H as [|f f' r r' [_ Hf] _ IH]; intro i; [reflexivity|].
  cbn [rows_from]. now rewrite Hf, IH.
Qed.

Definition raw_file (l : dlang) (docs : list bool) (ls : list string) : afile :=
  {| DryPipe.f_lang := l; DryPipe.f_lines := map (fun p => raw_aline (fst p) (snd p)) (combine docs ls) |}.

Theorem dry_report_ws_variant q W k files files' : q_strip_in_code q = true ->
  Forall2 (fun f f' => exists l docs ls ls', f = raw_file l docs ls /\ f' = raw_file l docs ls' /\
                       Forall2 ws_variant ls ls' /\ List.length docs = List.length ls) files files' ->
  dry_model q W k files = dry_model q W k files'.
Proof.
  intros Hq H. unfold dry_model, pipeline, all_rows. f_equal. apply rows_from_same.
  induction H as [|f f' r r' (l & docs & ls & ls' & -> & -> & Hv & Hl) _ IH]; constructor; [|exact IH].
  split; [reflexivity|]. intro j. cbn [raw_file DryPipe.f_lang DryPipe.f_lines]. now apply dry_rows_ws_variant.
Qed.

(* ------------------------------------------------------------------ 3. what is not invariant *)
(* the reported size of a block is its raw span: a blank line inside a 3-line duplicate makes it "4 lines" *)
Theorem dry_span_count_refuted : exists s e k, s <= k /\ k < e /\
  dry_line_count (shift_ins k s) (shift_ins k e) <> dry_line_count s e.
Proof. exists 3, 5, 3. repeat split; [lia|lia|vm_compute; discriminate]. Qed.

(* with the flag semantics of C03 (count = number of token lines of the window) nothing would change *)
Lemma span_count_outside s e k : (k < s \/ e <= k) -> dry_line_count (shift_ins k s) (shift_ins k e) = dry_line_count s e.
Proof.
  intro H. unfold dry_line_count, shift_ins.
  destruct (Nat.ltb_spec k s), (Nat.ltb_spec k e); try lia.
Qed.

(* U+FEFF is not white space for str.split and hides an import statement from the import filter: the tokens of a file
   change when a byte-order mark is put in front of it *)
Theorem dry_bom_refuted :
  let f := ["import os"; "x = 1"; "y = 2"] in
  tokenize (model_aparams dry_actual DPy) (map (raw_aline false) (apply AddBOM f))
  <> tokenize (model_aparams dry_actual DPy) (map (raw_aline false) f).
Proof. vm_compute. discriminate. Qed.
