(* Proofs/EditFilterP.v — the DRY block filters (Model/EditFilter.v) under the edits of property C13.
   A blank or comment-only line inserted anywhere in a file leaves the decision of every filter on every block unchanged
   (block and Call spans renumbered) once the two line-counting defects are off; for EVERY quirk vector the decision is
   unchanged when the new line falls outside the block, ImportGroupFilter and LoggerCallFilter are unchanged on blocks that
   start and end on code lines, and a blank line only disturbs the keyword-argument share.  White-space variants of the lines
   (trailing white space, CR, re-indentation) change no decision once `.+` may not be satisfied by trailing white space;
   re-indentation changes none under every vector. *)
From TL Require Import Lib.Base Lib.GenTypes Model.PyStr Model.DryBase Model.DryFilter Gen.DryGen Model.DryPipe Model.Dry Gen.EditGen
     Model.Edit Model.EditFilter.
From TL Require Model.SrpTypes.
From TL Require Import Proofs.EditSrp.

(* ------------------------------------------------------------------ lists *)
Lemma skipn_ins_le {A} : forall k n (x : A) l, k <= n -> skipn (S n) (ins k x l) = skipn n l.
Proof.
  induction k as [|k IH]; intros n x l H; [reflexivity|].
  destruct n as [|n]; [lia|]. destruct l as [|y r].
  - cbn [ins]. cbn [skipn]. now destruct n.
  - cbn [ins]. change (skipn (S (S n)) (y :: ins k x r)) with (skipn (S n) (ins k x r)). rewrite IH by lia. reflexivity.
Qed.

Lemma skipn_ins_gt {A} : forall n k (x : A) l, n < k -> n <= List.length l -> skipn n (ins k x l) = ins (k - n) x (skipn n l).
Proof.
  induction n as [|n IH]; intros k x l H Hl; [cbn [skipn]; now rewrite Nat.sub_0_r|].
  destruct k as [|k]; [lia|]. destruct l as [|y r]; [cbn [List.length] in Hl; lia|].
  cbn [ins skipn]. cbn [List.length] in Hl. rewrite IH by lia. reflexivity.
Qed.

Lemma firstn_ins_lt {A} : forall k m (x : A) l, k <= m -> firstn (S m) (ins k x l) = ins k x (firstn m l).
Proof.
  induction k as [|k IH]; intros m x l H; [reflexivity|].
  destruct m as [|m]; [lia|]. destruct l as [|y r].
  - cbn [ins firstn]. reflexivity.
  - cbn [ins]. change (firstn (S (S m)) (y :: ins k x r)) with (y :: firstn (S m) (ins k x r)). rewrite IH by lia. reflexivity.
Qed.

Lemma firstn_ins_ge {A} : forall m k (x : A) l, m <= k -> m <= List.length l -> firstn m (ins k x l) = firstn m l.
Proof.
  induction m as [|m IH]; intros k x l H Hl; [reflexivity|].
  destruct k as [|k]; [lia|]. destruct l as [|y r]; [cbn [List.length] in Hl; lia|].
  cbn [ins firstn]. cbn [List.length] in Hl. rewrite IH by lia. reflexivity.
Qed.

Lemma filter_ins {A} (p : A -> bool) : forall j x l, p x = false -> filter p (ins j x l) = filter p l.
Proof.
  induction j as [|j IH]; intros x l H; [cbn [ins filter]; now rewrite H|].
  destruct l as [|y r]; cbn [ins filter]; [now rewrite H|]. rewrite IH by exact H. reflexivity.
Qed.

Lemma filter_ins_len {A} (p : A -> bool) : forall j x l, List.length (filter p l) <= List.length (filter p (ins j x l)).
Proof.
  induction j as [|j IH]; intros x l.
  - cbn [ins filter]. destruct (p x); cbn [List.length]; lia.
  - destruct l as [|y r]; cbn [ins filter]; [cbn [List.length]; lia|]. specialize (IH x r). destruct (p y); cbn [List.length]; lia.
Qed.

Lemma forallb_ins {A} (p : A -> bool) : forall j x l, forallb p (ins j x l) = p x && forallb p l.
Proof.
  induction j as [|j IH]; intros x l; [reflexivity|].
  destruct l as [|y r]; cbn [ins forallb]; [reflexivity|]. rewrite IH. destruct (p y), (p x); reflexivity.
Qed.

Lemma map_ins {A B} (f : A -> B) : forall j x l, map f (ins j x l) = ins j (f x) (map f l).
Proof.
  induction j as [|j IH]; intros x l; [reflexivity|]. destruct l as [|y r]; cbn [ins map]; [reflexivity|]. now rewrite IH.
Qed.

(* ------------------------------------------------------------------ the slice of the block after an insertion *)
Lemma slice_length raw s e : 1 <= s -> s <= e -> e <= List.length raw -> List.length (slice_lines raw s e) = e - (s - 1).
Proof. intros H1 H2 H3. unfold slice_lines. rewrite firstn_length, skipn_length. lia. Qed.

Theorem slice_ins raw s e k x : 1 <= s -> s <= e -> e <= List.length raw ->
  slice_lines (ins k x raw) (shift_ins k s) (shift_ins k e)
  = if (s <=? k) && (k <? e) then ins (k - (s - 1)) x (slice_lines raw s e) else slice_lines raw s e.
Proof.
  intros H1 H2 H3. unfold slice_lines, shift_ins.
  destruct (Nat.ltb_spec k s) as [Hks|Hks]; destruct (Nat.ltb_spec k e) as [Hke|Hke]; try lia.
  - (* the whole block moves *)
    replace (s <=? k) with false by (symmetry; apply Nat.leb_gt; lia). cbn [andb].
    destruct s as [|s']; [lia|]. replace (S (S s') - 1) with (S s') by lia. replace (S s' - 1) with s' by lia.
    rewrite skipn_ins_le by lia. replace (S e - S s') with (e - s') by lia. reflexivity.
  - (* strictly inside *)
    replace (s <=? k) with true by (symmetry; apply Nat.leb_le; lia). cbn [andb].
    rewrite skipn_ins_gt by lia. replace (S e - (s - 1)) with (S (e - (s - 1))) by lia.
    rewrite firstn_ins_lt by lia. reflexivity.
  - (* below the block *)
    replace (s <=? k) with true by (symmetry; apply Nat.leb_le; lia). cbn [andb].
    rewrite skipn_ins_gt by lia. rewrite firstn_ins_ge; [reflexivity|lia|]. rewrite skipn_length. lia.
Qed.

(* ------------------------------------------------------------------ facts read from the source *)
Lemma gen_filter_facts :
  flt_logger_cmp = CEq /\ flt_logger_count = 1 /\ flt_reraise_cmp = CNe /\ flt_reraise_count = 2 /\
  flt_registry = ["keyword_argument_filter"; "import_group_filter"; "logger_call_filter"; "exception_reraise_filter"] /\
  (forall a b s e, dry_call_contains a b s e = call_contains_ref a b s e).
Proof. repeat split; reflexivity. Qed.

Lemma shift_ins_mono k a b : a < b <-> shift_ins k a < shift_ins k b.
Proof. unfold shift_ins. destruct (Nat.ltb_spec k a), (Nat.ltb_spec k b); lia. Qed.

Lemma contains_renumber (F : nat -> nat) : (forall a b, a < b <-> F a < F b) -> forall a b s e,
  dry_call_contains (F a) (F b) (F s) (F e) = dry_call_contains a b s e.
Proof.
  intros HF a b s e. destruct gen_filter_facts as (_ & _ & _ & _ & _ & Hc). rewrite !Hc. unfold call_contains_ref.
  assert (Hlt : forall u v, (F u <? F v) = (u <? v)).
  { intros u v. destruct (Nat.ltb_spec u v) as [H|H]; [apply Nat.ltb_lt; exact (proj1 (HF u v) H)|].
    apply Nat.ltb_ge. destruct (Nat.lt_ge_cases (F u) (F v)) as [H'|H']; [apply (proj2 (HF u v)) in H'; lia|exact H']. }
  assert (Hle : forall u v, (F u <=? F v) = (u <=? v)).
  { intros u v. rewrite !Nat.leb_antisym, Hlt. reflexivity. }
  now rewrite Hlt, !Hle.
Qed.

Lemma calls_renumber k calls s e :
  existsb (fun c => dry_call_contains (fst c) (snd c) (shift_ins k s) (shift_ins k e)) (calls_ins k calls)
  = existsb (fun c => dry_call_contains (fst c) (snd c) s e) calls.
Proof.
  unfold calls_ins. induction calls as [|c r IH]; [reflexivity|]. cbn [map existsb fst snd].
  rewrite (contains_renumber (shift_ins k) (shift_ins_mono k)), IH. reflexivity.
Qed.

(* ------------------------------------------------------------------ one filter, the lines of the block fixed *)
Lemma kwarg_on_renumber km ls k calls s e :
  kwarg_on km ls (calls_ins k calls) (shift_ins k s) (shift_ins k e) = kwarg_on km ls calls s e.
Proof. unfold kwarg_on. destruct ls; [reflexivity|]. now rewrite calls_renumber. Qed.

Lemma decisions_on_renumber q marker lm ls k calls s e :
  decisions_on q marker lm ls (calls_ins k calls) (shift_ins k s) (shift_ins k e) = decisions_on q marker lm ls calls s e.
Proof. unfold decisions_on. apply map_ext. intro name. unfold filter_on. now rewrite kwarg_on_renumber. Qed.

(* ------------------------------------------------------------------ one filter, a line inserted into the block *)
Definition blank (s : string) : bool := str_empty (strip s).

Lemma blank_skippable marker x : blank x = true -> skippable marker x = true.
Proof. unfold blank, skippable. intro H. now rewrite H. Qed.

Lemma meaningful_ins marker j x ls : skippable marker x = true ->
  meaningful false marker (ins j x ls) = meaningful false marker ls.
Proof. intro H. unfold meaningful. apply filter_ins. now rewrite H. Qed.

Lemma nonempty_ins_blank j x ls : blank x = true -> nonempty_stripped (ins j x ls) = nonempty_stripped ls.
Proof. intro H. unfold nonempty_stripped. rewrite map_ins. apply filter_ins. unfold blank in H. now rewrite H. Qed.

Lemma import_ins j x ls : import_ok x = true \/ import_on ls = false -> import_on (ins j x ls) = import_on ls.
Proof.
  unfold import_on. rewrite forallb_ins. intros [H|H]; [now rewrite H|]. rewrite H. apply andb_false_r.
Qed.

Lemma blank_import_ok x : blank x = true -> import_ok x = true.
Proof. unfold blank, import_ok. intro H. now rewrite H. Qed.

Lemma code_line_facts marker l : code_line marker l = true -> blank l = false /\ import_ok l = false.
Proof.
  unfold code_line, skippable, blank, import_ok. intro H. apply andb_true_iff in H. destruct H as [H1 H2].
  apply negb_true_iff in H1, H2. apply orb_false_iff in H1. destruct H1 as [H1 _]. rewrite H1, H2. split; reflexivity.
Qed.

Lemma ends_code_import marker ls : ends_code marker ls = true -> import_on ls = false.
Proof.
  unfold ends_code. intro H. apply andb_true_iff in H. destruct H as [H _]. destruct ls as [|a r].
  - cbn [hd] in H. unfold code_line, skippable in H. cbn in H. discriminate.
  - cbn [hd] in H. apply code_line_facts in H. destruct H as [_ H]. unfold import_on. cbn [forallb]. now rewrite H.
Qed.

Lemma last_nonblank r d : r <> [] -> blank (last r d) = false -> 1 <= List.length (nonempty_stripped r).
Proof.
  induction r as [|a r IH]; intros Hn H; [congruence|]. destruct r as [|b r'].
  - cbn [last] in H. unfold nonempty_stripped. cbn [map filter]. unfold blank in H. rewrite H. cbn [negb List.length]. lia.
  - change (last (a :: b :: r') d) with (last (b :: r') d) in H. specialize (IH ltac:(discriminate) H).
    unfold nonempty_stripped in *. cbn [map filter] in *. destruct (negb (str_empty (strip a))); cbn [List.length]; lia.
Qed.

Lemma ends_code_two marker ls : 2 <= List.length ls -> ends_code marker ls = true -> 2 <= List.length (nonempty_stripped ls).
Proof.
  intros Hl H. unfold ends_code in H. apply andb_true_iff in H. destruct H as [Ha Hb].
  destruct ls as [|a r]; [cbn [List.length] in Hl; lia|]. cbn [hd] in Ha.
  destruct r as [|b r']; [cbn [List.length] in Hl; lia|].
  change (last (a :: b :: r') "") with (last (b :: r') "") in Hb.
  apply code_line_facts in Ha, Hb. destruct Ha as [Ha _]. destruct Hb as [Hb _].
  pose proof (last_nonblank (b :: r') "" ltac:(discriminate) Hb) as H1.
  unfold nonempty_stripped in *. cbn [map filter] in *. unfold blank in Ha. rewrite Ha. cbn [negb List.length]. lia.
Qed.

Lemma logger_many lm ls : 2 <= List.length (nonempty_stripped ls) -> logger_on lm ls = false.
Proof.
  intro H. unfold logger_on. destruct (nonempty_stripped ls) as [|t r] eqn:E; [reflexivity|].
  destruct gen_filter_facts as (Hc & Hn & _). rewrite Hc, Hn. cbn [cmp_nat]. cbn [List.length] in *.
  replace (S (List.length r) =? 1) with false by (symmetry; apply Nat.eqb_neq; lia). reflexivity.
Qed.

Lemma logger_ins lm j x ls : blank x = true \/ 2 <= List.length (nonempty_stripped ls) ->
  logger_on lm (ins j x ls) = logger_on lm ls.
Proof.
  intros [H|H]; [unfold logger_on; now rewrite nonempty_ins_blank|].
  rewrite (logger_many lm ls H). apply logger_many. unfold nonempty_stripped in *. rewrite map_ins.
  pose proof (filter_ins_len (fun t => negb (str_empty t)) j (strip x) (map strip ls)). lia.
Qed.

Lemma reraise_ins q marker j x ls :
  (f_reraise_counts_comments q = false /\ skippable marker x = true) \/ blank x = true ->
  reraise_on q marker (ins j x ls) = reraise_on q marker ls.
Proof.
  intros [[Hq Hx]|Hx]; unfold reraise_on.
  - rewrite Hq. now rewrite meaningful_ins.
  - destruct (f_reraise_counts_comments q).
    + unfold meaningful. now rewrite nonempty_ins_blank.
    + rewrite meaningful_ins; [reflexivity|now apply blank_skippable].
Qed.

(* every registered filter at once: the lines of the block with one skippable line inserted strictly inside *)
Theorem decisions_on_ins q marker lm ls calls s e j x :
  f_kwarg_raw_lines q = false -> (f_reraise_counts_comments q = false \/ blank x = true) ->
  skippable marker x = true -> 2 <= List.length ls -> ends_code marker ls = true ->
  decisions_on q marker lm (ins j x ls) calls s e = decisions_on q marker lm ls calls s e.
Proof.
  intros Hk Hr Hx Hl He. unfold decisions_on. apply map_ext. intro name. unfold filter_on.
  rewrite Hk, meaningful_ins by exact Hx.
  rewrite (import_ins j x ls (or_intror (ends_code_import marker ls He))).
  rewrite (logger_ins lm j x ls (or_intror (ends_code_two marker ls Hl He))).
  rewrite (reraise_ins q marker j x ls); [reflexivity|]. destruct Hr as [Hr|Hr]; [left; now split|now right].
Qed.

(* ------------------------------------------------------------------ the file level *)
Lemma block_ok_facts marker raw s e : block_ok marker raw s e = true ->
  1 <= s /\ s <= e /\ e <= List.length raw /\ ends_code marker (slice_lines raw s e) = true.
Proof.
  unfold block_ok. rewrite !andb_true_iff, !Nat.leb_le. tauto.
Qed.

(* the main statement: a blank or comment-only line inserted before index k of the file, for every position k *)
Theorem decisions_insert q marker lm raw calls s e k x :
  f_kwarg_raw_lines q = false -> (f_reraise_counts_comments q = false \/ blank x = true) ->
  skippable marker x = true -> block_ok marker raw s e = true ->
  decisions q marker lm (ins k x raw) (calls_ins k calls) (shift_ins k s) (shift_ins k e) = decisions q marker lm raw calls s e.
Proof.
  intros Hk Hr Hx Hb. destruct (block_ok_facts _ _ _ _ Hb) as (H1 & H2 & H3 & He).
  unfold decisions. rewrite slice_ins by assumption. rewrite decisions_on_renumber.
  destruct ((s <=? k) && (k <? e)) eqn:Hin; [|reflexivity].
  apply andb_true_iff in Hin. destruct Hin as [Ha Hc]. apply Nat.leb_le in Ha. apply Nat.ltb_lt in Hc.
  apply decisions_on_ins; try assumption. rewrite slice_length by assumption. lia.
Qed.

Theorem registry_insert q marker lm raw calls s e k x :
  f_kwarg_raw_lines q = false -> (f_reraise_counts_comments q = false \/ blank x = true) ->
  skippable marker x = true -> block_ok marker raw s e = true ->
  registry q marker lm (ins k x raw) (calls_ins k calls) (shift_ins k s) (shift_ins k e) = registry q marker lm raw calls s e.
Proof. intros. unfold registry. now rewrite decisions_insert. Qed.

(* for EVERY quirk vector and ANY new line (code included): an insertion outside the block changes no decision *)
Theorem decisions_insert_outside q marker lm raw calls s e k x :
  1 <= s -> s <= e -> e <= List.length raw -> (k < s \/ e <= k) ->
  decisions q marker lm (ins k x raw) (calls_ins k calls) (shift_ins k s) (shift_ins k e) = decisions q marker lm raw calls s e.
Proof.
  intros H1 H2 H3 Hk. unfold decisions. rewrite slice_ins by assumption. rewrite decisions_on_renumber.
  replace ((s <=? k) && (k <? e)) with false; [reflexivity|]. symmetry. apply andb_false_iff.
  destruct Hk as [Hk|Hk]; [left; apply Nat.leb_gt; lia|right; apply Nat.ltb_ge; lia].
Qed.

(* for EVERY quirk vector: ImportGroupFilter and LoggerCallFilter do not see a skippable line inside a block that starts and ends
   on code lines (these two filters carry no defect of this kind), and a blank line does not disturb ExceptionReraiseFilter *)
Theorem import_logger_insert marker lm ls j x : 2 <= List.length ls -> ends_code marker ls = true ->
  import_on (ins j x ls) = import_on ls /\ logger_on lm (ins j x ls) = logger_on lm ls.
Proof.
  intros Hl He. split.
  - apply import_ins. right. exact (ends_code_import marker ls He).
  - apply logger_ins. right. exact (ends_code_two marker ls Hl He).
Qed.

Theorem reraise_blank_insert q marker ls j x : blank x = true -> reraise_on q marker (ins j x ls) = reraise_on q marker ls.
Proof. intro H. apply reraise_ins. now right. Qed.

(* ------------------------------------------------------------------ white-space variants of the lines *)
(* b is a with other leading / trailing white space (trailing spaces, tabs, CR, form feed; any re-indentation) *)
Definition ws_var (a b : string) : Prop := strip a = strip b.

Lemma Forall2_firstn {A} (R : A -> A -> Prop) : forall n l l', Forall2 R l l' -> Forall2 R (firstn n l) (firstn n l').
Proof. induction n as [|n IH]; intros l l' H; [constructor|]. destruct H; cbn [firstn]; [constructor|]. constructor; [assumption|now apply IH]. Qed.
Lemma Forall2_skipn {A} (R : A -> A -> Prop) : forall n l l', Forall2 R l l' -> Forall2 R (skipn n l) (skipn n l').
Proof. induction n as [|n IH]; intros l l' H; [exact H|]. destruct H; cbn [skipn]; [constructor|]. now apply IH. Qed.

Lemma Forall2_weaken {A} (R R' : A -> A -> Prop) : (forall a b, R a b -> R' a b) -> forall l l', Forall2 R l l' -> Forall2 R' l l'.
Proof. intros HR l l' H. induction H; constructor; auto. Qed.

Lemma Forall2_len {A} (R : A -> A -> Prop) l l' : Forall2 R l l' -> List.length l = List.length l'.
Proof. intro H. induction H; cbn [List.length]; congruence. Qed.

Lemma Forall2_filter_len {A} (R : A -> A -> Prop) (p : A -> bool) : (forall a b, R a b -> p a = p b) ->
  forall l l', Forall2 R l l' -> List.length (filter p l) = List.length (filter p l').
Proof.
  intros Hp l l' H. induction H as [|a b l l' Hab _ IH]; [reflexivity|]. cbn [filter]. rewrite (Hp a b Hab).
  destruct (p b); cbn [List.length]; now rewrite IH.
Qed.

Lemma Forall2_filter {A} (R : A -> A -> Prop) (p : A -> bool) : (forall a b, R a b -> p a = p b) ->
  forall l l', Forall2 R l l' -> Forall2 R (filter p l) (filter p l').
Proof.
  intros Hp l l' H. induction H as [|a b l l' Hab _ IH]; [constructor|]. cbn [filter]. rewrite (Hp a b Hab).
  destruct (p b); [constructor; assumption|assumption].
Qed.

Lemma ws_var_map_strip l l' : Forall2 ws_var l l' -> map strip l = map strip l'.
Proof. intro H. induction H as [|a b l l' Hab _ IH]; [reflexivity|]. cbn [map]. now rewrite Hab, IH. Qed.

Lemma ws_var_forallb (p : string -> bool) : (forall a b, ws_var a b -> p a = p b) -> forall l l', Forall2 ws_var l l' -> forallb p l = forallb p l'.
Proof. intros Hp l l' H. induction H as [|a b l l' Hab _ IH]; [reflexivity|]. cbn [forallb]. now rewrite (Hp a b Hab), IH. Qed.

(* R refines ws_var and the keyword-argument matcher does not tell the two lines apart *)
Lemma decisions_on_variant (R : string -> string -> Prop) q marker lm calls s e :
  (forall a b, R a b -> ws_var a b) -> (forall a b, R a b -> kw_match q a = kw_match q b) ->
  forall ls ls', Forall2 R ls ls' -> decisions_on q marker lm ls calls s e = decisions_on q marker lm ls' calls s e.
Proof.
  intros HR Hkw ls ls' H. unfold decisions_on. apply map_ext. intro name. unfold filter_on.
  assert (Hws : Forall2 ws_var ls ls') by (exact (Forall2_weaken R ws_var HR ls ls' H)).
  assert (Hskip : forall a b, R a b -> negb (skippable marker a) = negb (skippable marker b)).
  { intros a b Hab. unfold skippable. now rewrite (HR a b Hab). }
  assert (Hm : forall f, Forall2 R (meaningful f marker ls) (meaningful f marker ls')).
  { intro f. unfold meaningful. destruct f; [exact H|]. now apply Forall2_filter. }
  assert (Hm' : forall f, Forall2 ws_var (meaningful f marker ls) (meaningful f marker ls')).
  { intro f. exact (Forall2_weaken R ws_var HR _ _ (Hm f)). }
  assert (Hk : forall f, kwarg_on (kw_match q) (meaningful f marker ls) calls s e = kwarg_on (kw_match q) (meaningful f marker ls') calls s e).
  { intro f. specialize (Hm f). unfold kwarg_on. rewrite (Forall2_filter_len R (kw_match q) Hkw _ _ Hm), (Forall2_len R _ _ Hm).
    destruct Hm; reflexivity. }
  assert (Hi : import_on ls = import_on ls').
  { unfold import_on. apply ws_var_forallb; [|exact Hws]. intros a b Hab. unfold import_ok. now rewrite Hab. }
  assert (Hn : forall l l', Forall2 ws_var l l' -> nonempty_stripped l = nonempty_stripped l').
  { intros l l' Hl. unfold nonempty_stripped. now rewrite (ws_var_map_strip l l' Hl). }
  rewrite Hk, Hi. unfold logger_on, reraise_on. rewrite (Hn ls ls' Hws), (Hn _ _ (Hm' (f_reraise_counts_comments q))). reflexivity.
Qed.

Lemma slice_variant (R : string -> string -> Prop) raw raw' s e : Forall2 R raw raw' -> Forall2 R (slice_lines raw s e) (slice_lines raw' s e).
Proof. intro H. unfold slice_lines. apply Forall2_firstn. now apply Forall2_skipn. Qed.

(* trailing white space, CR, re-indentation of ANY lines: no decision changes once f_kwarg_trailing_ws is off *)
Theorem decisions_ws_variant q marker lm raw raw' calls s e : f_kwarg_trailing_ws q = false -> Forall2 ws_var raw raw' ->
  decisions q marker lm raw calls s e = decisions q marker lm raw' calls s e.
Proof.
  intros Hq H. unfold decisions. apply (decisions_on_variant ws_var); [auto| |now apply slice_variant].
  intros a b Hab. unfold kw_match. rewrite Hq. now rewrite Hab.
Qed.

(* re-indentation of ANY lines: no decision changes, for EVERY quirk vector *)
Definition reindented (a b : string) : Prop :=
  exists w w' body, ws_all w = true /\ ws_all w' = true /\ a = (w ++ body)%string /\ b = (w' ++ body)%string.

Lemma skip_ws_app w body : ws_all w = true -> DryFilter.skip_ws (w ++ body) = DryFilter.skip_ws body.
Proof.
  induction w as [|c r IH]; intro H; [reflexivity|]. unfold ws_all in *. cbn [all_of] in H. apply andb_true_iff in H. destruct H as [Hc Hr].
  cbn [String.append DryFilter.skip_ws]. change (DryBase.is_ws c) with (SrpTypes.is_ws c). rewrite Hc. now apply IH.
Qed.

Lemma kwarg_line_indent w body : ws_all w = true -> kwarg_line (w ++ body) = kwarg_line body.
Proof. intro H. unfold kwarg_line. now rewrite skip_ws_app. Qed.

Theorem decisions_reindent q marker lm raw raw' calls s e : Forall2 reindented raw raw' ->
  decisions q marker lm raw calls s e = decisions q marker lm raw' calls s e.
Proof.
  intro H. unfold decisions. apply (decisions_on_variant reindented); [| |now apply slice_variant].
  - intros a b (w & w' & body & Hw & Hw' & -> & ->). unfold ws_var, strip. now rewrite !strip_leading_ws.
  - intros a b (w & w' & body & Hw & Hw' & -> & ->). unfold kw_match. destruct (f_kwarg_trailing_ws q).
    + now rewrite !kwarg_line_indent.
    + unfold strip. now rewrite !strip_leading_ws.
Qed.

(* ------------------------------------------------------------------ non-vacuity and the refuted steps *)
Definition fq_ideal : fquirks := {| f_kwarg_raw_lines := false; f_kwarg_trailing_ws := false; f_reraise_counts_comments := false |}.

Definition kw_file : list string :=
  ["r = make("; "    alpha=1,"; "    beta=2,"; "    gamma=3,"; "    delta=4,"; ")"].

Example block_ok_example : block_ok "#" kw_file 2 5 = true /\ skippable "#" "    # the defaults" = true /\
  decisions fq_ideal "#" logger_match kw_file [(1, 6)] 2 5 = [true; false; false; false].
Proof. vm_compute. repeat split; reflexivity. Qed.

(* the keyword-argument filter of this model under the claimed vector is C03's model of it (Model/Dry.v model_kwarg_filter, tied
   to the implementation by C03's correspondence stream as well) *)
Theorem kwarg_is_c03 raw calls s e :
  filter_on fq_actual "#" logger_match (slice_lines raw s e) calls s e "keyword_argument_filter" = model_kwarg_filter raw calls s e.
Proof. reflexivity. Qed.
