(* Proofs/OrchParSched.v — every execution of the pool machine (Model/OrchParSched.v) IS a run of Model/OrchParPool.v:
   the log of the machine gives the assignment of the tasks to the workers and the completion order, the completion order
   is a permutation of the tasks, and the result is par_run_pooled on those two lists.  With Proofs/OrchParPool.v: whatever
   the interleaving of starts and completions, the number of workers and the worker each task lands on, the parallel run
   reports what the sequential run reports. *)
From Coq Require Import Permutation.
From TL Require Import Lib.Base Lib.GenTypes Model.OrchParTypes Gen.OrchParGen Model.OrchPar Model.OrchParPool Model.OrchParSched
     Proofs.OrchParDict Proofs.OrchParMain Proofs.OrchParPool.

Section SchedProofs.
  Variables file evidence wstate : Type.
  Variable step : wstate -> file -> option (list violation) * wstate.
  Variable init : wstate.
  Variable collect : file -> evidence.
  Variable report : list evidence -> list violation.
  Variable parent_sees : file -> bool.

  Local Notation pstate := (pstate file wstate).
  Local Notation pool_results := (pool_results file wstate step).
  Local Notation pool_state := (pool_state file wstate step).
  Local Notation mstep := (mstep file wstate step).
  Local Notation mrun := (mrun file wstate step).
  Local Notation upd := (upd wstate).

  (* serving one more task: the results and the worker states of the run over the longer lists *)
  Lemma pool_snoc q f w : forall fs st assign,
    List.length assign = List.length fs ->
    pool_results q st (assign ++ [w]) (fs ++ [f])
    = pool_results q st assign fs ++ [worker_result q (fst (step (pool_state st assign fs w) f))]
    /\ pool_state st (assign ++ [w]) (fs ++ [f])
       = upd (pool_state st assign fs) w (snd (step (pool_state st assign fs w) f)).
  Proof.
    induction fs as [|f0 fs IH]; intros st assign L.
    - destruct assign; [|discriminate L]. cbn [app OrchParPool.pool_results OrchParSched.pool_state hd tl].
      destruct (step (st w) f) as [r s']. split; reflexivity.
    - destruct assign as [|a assign]; [discriminate L|]. injection L as L.
      cbn [app OrchParPool.pool_results OrchParSched.pool_state hd tl].
      destruct (step (st a) f0) as [r0 s0] eqn:E. cbn [snd].
      destruct (IH (upd st a s0) assign L) as [R S]. rewrite R, S. split; reflexivity.
  Qed.

  Lemma take_task_perm t : forall r r', take_task t r = Some r' -> Permutation (map snd r) (t :: map snd r').
  Proof.
    induction r as [|p r IH]; intros r' H; cbn [take_task] in H; [discriminate H|].
    destruct (snd p =? t) eqn:E.
    - injection H as <-. apply Nat.eqb_eq in E. cbn [map]. now rewrite E.
    - destruct (take_task t r) as [r0|]; [|discriminate H]. injection H as <-.
      cbn [map]. rewrite (IH r0 eq_refl). apply perm_swap.
  Qed.

  (* what holds in every state the machine reaches from p_init files *)
  Definition inv (q : pquirks) (files : list file) (st : pstate) : Prop :=
    exists started,
      files = started ++ p_queue _ _ st
      /\ p_next _ _ st = List.length started
      /\ List.length (p_assign _ _ st) = List.length started
      /\ p_res _ _ st = pool_results q (fun _ => init) (p_assign _ _ st) started
      /\ p_wst _ _ st = pool_state (fun _ => init) (p_assign _ _ st) started
      /\ Permutation (p_done _ _ st ++ map snd (p_running _ _ st)) (seq 0 (p_next _ _ st)).

  Lemma inv_init q files : inv q files (p_init file wstate init files).
  Proof. exists []. cbn. repeat split; auto. Qed.

  Lemma inv_step q k files ev st st' : inv q files st -> mstep q k ev st = Some st' -> inv q files st'.
  Proof.
    intros (started & F & N & LA & R & W & P) H. destruct ev as [w|t]; cbn [OrchParSched.mstep] in H.
    - destruct ((w <? k) && negb (busy w (p_running _ _ st))); [|discriminate H].
      destruct (p_queue _ _ st) as [|f rest] eqn:Q; [discriminate H|].
      destruct (step (p_wst _ _ st w) f) as [r s'] eqn:E. injection H as <-.
      exists (started ++ [f]). cbn [p_queue p_next p_running p_wst p_assign p_res p_done].
      destruct (pool_snoc q f w started (fun _ => init) (p_assign _ _ st) LA) as [RS WS].
      rewrite <- W in RS, WS. rewrite E in RS, WS. cbn [fst snd] in RS, WS.
      rewrite !app_length. cbn [List.length]. repeat split.
      + now rewrite <- app_assoc.
      + rewrite N. now rewrite Nat.add_1_r.
      + rewrite LA. reflexivity.
      + now rewrite RS, R.
      + now rewrite WS.
      + cbn [map snd]. rewrite seq_S. cbn [plus].
        apply Permutation_trans with (p_next _ _ st :: (p_done _ _ st ++ map snd (p_running _ _ st))).
        * apply Permutation_sym, Permutation_middle.
        * apply Permutation_trans with (p_next _ _ st :: seq 0 (p_next _ _ st)); [now apply perm_skip|apply Permutation_cons_append].
    - destruct (take_task t (p_running _ _ st)) as [r'|] eqn:T; [|discriminate H]. injection H as <-.
      exists started. cbn [p_queue p_next p_running p_wst p_assign p_res p_done]. repeat split; auto.
      rewrite <- app_assoc. cbn [app].
      apply Permutation_trans with (p_done _ _ st ++ map snd (p_running _ _ st)); [|exact P].
      apply Permutation_app_head, Permutation_sym, take_task_perm, T.
  Qed.

  Lemma inv_run q k files : forall trace st st', inv q files st -> mrun q k trace st = Some st' -> inv q files st'.
  Proof.
    induction trace as [|ev tr IH]; intros st st' I H; cbn [OrchParSched.mrun] in H.
    - now injection H as <-.
    - destruct (mstep q k ev st) as [st1|] eqn:E; [|discriminate H]. exact (IH st1 st' (inv_step q k files ev st st1 I E) H).
  Qed.

  Lemma machine_unfold q mw cpu trace f fs :
    machine_par_run file evidence wstate step init collect report parent_sees q mw cpu trace (f :: fs)
    = if below_threshold file mw cpu (f :: fs)
      then Some (seq_run file evidence (fresh_perfile file wstate step init) collect report (f :: fs))
      else match mrun q (effective_workers mw cpu) trace (p_init file wstate init (f :: fs)) with
           | None => None
           | Some st =>
             if terminal file wstate st
             then Some (match all_some (p_res _ _ st) with
                        | None => None
                        | Some futs => Some (List.concat (apply_sched (p_done _ _ st) (map extract futs))
                                             ++ parent_finalize file evidence collect report parent_sees q (f :: fs))
                        end)
             else None
           end.
  Proof. reflexivity. Qed.

  Lemma pooled_unfold q mw cpu assign sched f fs :
    par_run_pooled file evidence wstate step init collect report parent_sees q mw cpu assign sched (f :: fs)
    = if below_threshold file mw cpu (f :: fs)
      then seq_run file evidence (fresh_perfile file wstate step init) collect report (f :: fs)
      else match all_some (pool_results q (fun _ => init) assign (f :: fs)) with
           | None => None
           | Some futs => Some (List.concat (apply_sched sched (map extract futs))
                                ++ parent_finalize file evidence collect report parent_sees q (f :: fs))
           end.
  Proof. reflexivity. Qed.

  (* 1. every execution of the machine is a pooled run: its log is an assignment of the tasks to the workers and a
        completion order that is a permutation of the tasks *)
  Theorem machine_is_pooled q mw cpu trace files out :
    machine_par_run file evidence wstate step init collect report parent_sees q mw cpu trace files = Some out ->
    exists assign sched,
      Permutation sched (seq 0 (List.length files)) /\ List.length assign = List.length files
      /\ out = par_run_pooled file evidence wstate step init collect report parent_sees q mw cpu assign sched files.
  Proof.
    destruct files as [|f0 fs]; intros H.
    - cbn in H. injection H as <-. exists [], []. repeat split; constructor.
    - rewrite machine_unfold in H.
      destruct (below_threshold file mw cpu (f0 :: fs)) eqn:B.
      + injection H as <-. exists (map (fun _ => 0) (f0 :: fs)), (seq 0 (List.length (f0 :: fs))).
        repeat split; [apply Permutation_refl|apply map_length|]. now rewrite pooled_unfold, B.
      + destruct (mrun q (effective_workers mw cpu) trace (p_init file wstate init (f0 :: fs))) as [st|] eqn:M; [|discriminate H].
        destruct (terminal file wstate st) eqn:T; [|discriminate H]. injection H as <-.
        destruct (inv_run q _ (f0 :: fs) trace _ st (inv_init q (f0 :: fs)) M) as (started & F & N & LA & R & _ & P).
        unfold terminal in T. destruct (p_queue _ _ st); [|discriminate T]. destruct (p_running _ _ st); [|discriminate T].
        rewrite app_nil_r in F. subst started. cbn [map] in P. rewrite app_nil_r, N in P.
        exists (p_assign _ _ st), (p_done _ _ st). repeat split; [exact P|exact LA|].
        now rewrite pooled_unfold, B, <- R.
  Qed.

  (* the machine is never stuck for good: from every state in which no task is running, a pool with at least one worker
     has an execution that serves the whole queue (worker 0 takes the tasks one after the other) *)
  Lemma machine_can_finish q k : forall l (st : pstate),
    0 < k -> p_queue _ _ st = l -> p_running _ _ st = [] ->
    exists trace st', mrun q k trace st = Some st' /\ terminal file wstate st' = true.
  Proof.
    induction l as [|f rest IH]; intros st K Q R.
    - exists [], st. split; [reflexivity|]. unfold terminal. now rewrite Q, R.
    - destruct (step (p_wst _ _ st 0) f) as [r s'] eqn:E.
      set (st1 := {| p_queue := rest; p_next := S (p_next _ _ st); p_running := (0, p_next _ _ st) :: [];
                     p_wst := upd (p_wst _ _ st) 0 s'; p_assign := p_assign _ _ st ++ [0];
                     p_res := p_res _ _ st ++ [worker_result q r]; p_done := p_done _ _ st |}).
      set (st2 := {| p_queue := rest; p_next := S (p_next _ _ st); p_running := [];
                     p_wst := upd (p_wst _ _ st) 0 s'; p_assign := p_assign _ _ st ++ [0];
                     p_res := p_res _ _ st ++ [worker_result q r]; p_done := p_done _ _ st ++ [p_next _ _ st] |}).
      destruct (IH st2 K eq_refl eq_refl) as (tr & st' & M & T).
      exists (EStart 0 :: EFinish (p_next _ _ st) :: tr), st'. split; [|exact T].
      assert (S1 : mstep q k (EStart 0) st = Some st1).
      { unfold OrchParSched.mstep. rewrite R, Q, E. cbn [busy existsb negb andb].
        destruct k; [inversion K|]. reflexivity. }
      assert (S2 : mstep q k (EFinish (p_next _ _ st)) st1 = Some st2).
      { unfold OrchParSched.mstep, st1. cbn [p_running take_task snd]. now rewrite Nat.eqb_refl. }
      cbn [OrchParSched.mrun]. now rewrite S1, S2.
  Qed.

  (* 3. and there always is an execution (the statements 1 and 2 are not vacuous for any input) *)
  Theorem machine_has_execution q mw cpu files :
    0 < effective_workers mw cpu ->
    exists trace out, machine_par_run file evidence wstate step init collect report parent_sees q mw cpu trace files = Some out.
  Proof.
    intros K. destruct files as [|f0 fs]; [exists [], (Some []); reflexivity|].
    destruct (below_threshold file mw cpu (f0 :: fs)) eqn:B.
    - exists []. eexists. rewrite machine_unfold, B. reflexivity.
    - destruct (machine_can_finish q (effective_workers mw cpu) (f0 :: fs) (p_init file wstate init (f0 :: fs)) K eq_refl eq_refl)
        as (trace & st' & M & T).
      exists trace. eexists. rewrite machine_unfold, B, M, T. reflexivity.
  Qed.

  (* 2. hence, when what lint_file returns does not depend on the process-level state of the worker: whatever the
        interleaving of starts and completions and whichever worker takes which task, the parallel run over the machine
        reports the multiset the sequential run reports (and raises iff it raises) *)
  Hypothesis state_irrelevant : forall s f, fst (step s f) = fst (step init f).
  Hypothesis perfile_wf : forall f vs, fresh_perfile file wstate step init f = Some vs -> forallb wf_violation vs = true.
  Hypothesis report_nil : report [] = [].

  Theorem machine_equals_seq q mw cpu trace files out :
    machine_par_run file evidence wstate step init collect report parent_sees q mw cpu trace files = Some out ->
    out_equiv out (seq_run file evidence (fresh_perfile file wstate step init) collect report files).
  Proof.
    intros H. destruct (machine_is_pooled q mw cpu trace files out H) as (assign & sched & P & _ & ->).
    exact (pooled_equals_seq file evidence wstate step init collect report parent_sees state_irrelevant perfile_wf report_nil
             q mw cpu assign sched files P).
  Qed.
End SchedProofs.

(* the machine runs: two workers, four tasks; worker 1 finishes first and takes the third task, worker 0 the fourth, the
   last two futures complete in reverse order.  And a trace that is not an execution (worker 0 is busy) is rejected. *)
Definition sch_v (n : nat) : violation :=
  [("rule_id", VStr "r"); ("file_path", VStr "a.py"); ("line", VInt false n); ("column", VInt false 0);
   ("message", VStr "m"); ("severity", VEnum "Severity" "ERROR"); ("suggestion", VNone)].
Definition sch_step (s : nat) (f : nat) : option (list violation) * nat := (Some [sch_v f], S s).

Example machine_runs :
  machine_par_run nat nat nat sch_step 0 (fun f => f) (fun _ => []) (fun _ => true) ideal (Some 2) 16
    [EStart 0; EStart 1; EFinish 1; EStart 1; EFinish 0; EStart 0; EFinish 3; EFinish 2] [10; 11; 12; 13]
  = Some (Some (map sch_v [11; 10; 13; 12]))
  /\ machine_par_run nat nat nat sch_step 0 (fun f => f) (fun _ => []) (fun _ => true) ideal (Some 2) 16
       [EStart 0; EStart 0; EFinish 0; EFinish 1; EStart 0; EFinish 2; EStart 1; EFinish 3] [10; 11; 12; 13] = None
  /\ machine_par_run nat nat nat sch_step 0 (fun f => f) (fun _ => []) (fun _ => true) ideal (Some 2) 16
       [EStart 0; EStart 1; EFinish 1; EFinish 0] [10; 11; 12; 13] = None.
Proof. vm_compute. repeat split; reflexivity. Qed.
