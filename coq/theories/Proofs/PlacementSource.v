(* Proofs/PlacementSource.v — the resolution of the rule-set source computes its specification (C18). *)
From Coq Require Import ZArith.
From TL Require Import Lib.Base Lib.GenTypes Model.PlacementTypes Gen.PlacementGen Model.Placement Model.PlacementSource
     Proofs.PlacementStrings Proofs.PlacementMain.

Lemma gen_facts_source :
  fp_wrapped_keys = ["file-placement"; "file_placement"] /\
  fp_unwrapped_keys = ["directories"; "global_allow"; "global_deny"; "global_patterns"] /\
  fp_layout_keys = ["file-placement"; "file_placement"] /\ fp_unwrap_keys = ["file-placement"; "file_placement"] /\
  fp_layout_files = [".thailint.yaml"; ".thailint.json"] /\ fp_rules_merge_method = "update" /\
  fp_norm_from = "-"%char /\ fp_norm_to = "_"%char.
Proof. repeat split; reflexivity. Qed.

Lemma not_present_empty c : config_present c = false -> c = empty_cfg.
Proof. destruct c as [[d|] [g|] [p|]]; cbn; intros H; try discriminate; reflexivity. Qed.

Lemma wrapped_of_cfg_entries c : wrapped_of (cfg_entries c) = None.
Proof. destruct c as [[d|] [g|] [p|]]; reflexivity. Qed.

Lemma unwrapped_of_cfg_entries c : unwrapped_of (cfg_entries c) = c.
Proof. destruct c as [[d|] [g|] [p|]]; reflexivity. Qed.

(* a config selected when present, else itself again *)
Lemma present_or_same c : (if config_present c then c else c) = c.
Proof. destruct (config_present c); reflexivity. Qed.

Lemma section_key_cases k : section_key_ok k = true -> k = "file-placement" \/ k = "file_placement".
Proof.
  unfold section_key_ok. intros H. apply orb_true_iff in H. destruct H as [H|H]; apply String.eqb_eq in H; tauto.
Qed.

(* the file alone (no inline rules): its rules, whatever the quirk vector *)
Lemma resolve_file_only q f : src_ok {| s_file := f; s_rules := None |} = true ->
  resolve q {| s_file := f; s_rules := None |} = spec_resolve {| s_file := f; s_rules := None |}.
Proof.
  unfold src_ok, resolve, eff_file, spec_resolve. cbn [s_file s_rules is_some andb rules_entries app].
  rewrite andb_false_r. rewrite andb_true_r. destruct f as [[k c|c]|]; intros Hk.
  - destruct (section_key_cases k Hk) as [->| ->]; cbn [file_entries file_cfg];
      (change (wrapped_of _) with (Some c); cbn [layout_of]; change (smem _ fp_layout_keys) with true;
       destruct (config_present c); reflexivity).
  - cbn [file_entries file_cfg layout_of]. rewrite wrapped_of_cfg_entries, unwrapped_of_cfg_entries. apply present_or_same.
  - reflexivity.
Qed.

(* inline rules alone (no config file), not in the top-level form: the inline rules, whatever the quirk vector *)
Lemma resolve_rules_only q r :
  src_ok {| s_file := None; s_rules := Some r |} = true -> (forall x, r <> RToplevel x) ->
  resolve q {| s_file := None; s_rules := Some r |} = spec_resolve {| s_file := None; s_rules := Some r |}.
Proof.
  unfold src_ok, resolve, eff_file, spec_resolve. cbn [s_file s_rules is_some andb].
  assert (Ef : (if negb (q_rules_do_not_override_file q) && true then None else @None file_form) = None)
    by (destruct (negb (q_rules_do_not_override_file q) && true); reflexivity).
  rewrite Ef. cbn [file_entries layout_of]. rewrite app_nil_r. destruct r as [k c|c|x]; intros Hk Hnt.
  - destruct (section_key_cases k Hk) as [->| ->]; cbn [rules_entries];
      (change (wrapped_of _) with (Some c); cbv beta iota; destruct (config_present c) eqn:E; [reflexivity|symmetry; apply not_present_empty; exact E]).
  - cbn [rules_entries]. rewrite wrapped_of_cfg_entries, unwrapped_of_cfg_entries.
    destruct (config_present c) eqn:E; [reflexivity|symmetry; apply not_present_empty; exact E].
  - exfalso. exact (Hnt x eq_refl).
Qed.

(* main statement: with both source quirks off, for every source in the domain *)
Theorem resolve_exact q s :
  q_rules_toplevel_ignored q = false -> q_rules_do_not_override_file q = false -> src_ok s = true ->
  resolve q s = spec_resolve s.
Proof.
  intros H1 H2 Hok. destruct s as [f r]. destruct r as [r|].
  - (* inline rules given: the file is out of the picture *)
    unfold resolve, eff_file, spec_resolve. cbn [s_file s_rules is_some]. rewrite H2. cbn [negb andb file_entries layout_of].
    rewrite app_nil_r. unfold src_ok in Hok. cbn [s_file s_rules] in Hok. apply andb_true_iff in Hok. destruct Hok as [_ Hk].
    destruct r as [k c|c|x].
    + destruct (section_key_cases k Hk) as [->| ->]; cbn [rules_entries];
        (change (wrapped_of _) with (Some c); cbv beta iota; destruct (config_present c) eqn:E; [reflexivity|symmetry; apply not_present_empty; exact E]).
    + cbn [rules_entries]. rewrite wrapped_of_cfg_entries, unwrapped_of_cfg_entries.
      destruct (config_present c) eqn:E; [reflexivity|symmetry; apply not_present_empty; exact E].
    + cbn [rules_entries]. rewrite H1. reflexivity.
  - apply resolve_file_only. exact Hok.
Qed.

(* confinement: the faithful resolution (any flags) is exact when no inline rules are given, or when there is no
   config file and the inline rules are not in the top-level form *)
Theorem resolve_exact_outside_defects q s :
  src_ok s = true ->
  (s_rules s = None \/ (s_file s = None /\ forall x, s_rules s <> Some (RToplevel x))) ->
  resolve q s = spec_resolve s.
Proof.
  intros Hok [E|[E1 E2]]; destruct s as [f r]; cbn [s_file s_rules] in *.
  - subst r. apply resolve_file_only. exact Hok.
  - subst f. destruct r as [r|].
    + apply resolve_rules_only; [exact Hok|]. intros x Ex. apply (E2 x). now rewrite Ex.
    + apply resolve_file_only. exact Hok.
Qed.

Section Engine.
  Variable valid : string -> bool.
  Variable matches : string -> string -> bool.

  (* the whole pipeline: source resolution, validation, verdict *)
  Theorem run_src_exact q sq s f :
    q_global_on_covered q = false -> q_trailing_slash_depth q = false -> q_backslash_separator q = false ->
    q_rules_toplevel_ignored sq = false -> q_rules_do_not_override_file sq = false ->
    src_ok s = true -> cfg_ok (spec_resolve s) = true ->
    forget (run_src valid matches q sq s f) = spec_src valid matches s f.
  Proof.
    intros H1 H5 H6 S1 S2 Hs Hc. unfold run_src, spec_src. rewrite (resolve_exact sq s S1 S2 Hs).
    apply run_exact; assumption.
  Qed.

  Theorem run_src_exact_outside_defects q sq s f :
    src_ok s = true -> cfg_ok (spec_resolve s) = true ->
    (s_rules s = None \/ (s_file s = None /\ forall x, s_rules s <> Some (RToplevel x))) ->
    no_trailing_slash (spec_resolve s) = true ->
    (spec_rule (relpath f) (dirs_of (spec_resolve s)) = None \/ (c_gdeny (spec_resolve s) = None /\ c_gpat (spec_resolve s) = None)) ->
    no_backslash (relpath f) = true ->
    forget (run_src valid matches q sq s f) = spec_src valid matches s f.
  Proof.
    intros Hs Hc Hd Ht Hg Hb. unfold run_src, spec_src. rewrite (resolve_exact_outside_defects sq s Hs Hd).
    apply run_exact_outside_defects; assumption.
  Qed.
End Engine.
