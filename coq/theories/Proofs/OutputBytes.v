(* Proofs/OutputBytes.v — the byte level of the JSON / SARIF renderings (C06): what click.echo(json.dumps(doc, indent=K))
   writes is pure ASCII (hence well-formed UTF-8 under every stdout encoding), and the specification's reader of the JSON
   grammar reads the document back from it, for every JSON value (every byte string as a str, every integer). *)
From TL Require Import Lib.Base Model.OutputTypes Gen.OutputGen Model.Output Model.OutputBytes Proofs.OutputStr.
From Coq Require Import ZArith Lia.
Local Open Scope string_scope.

Lemma length_app (a b : string) : String.length (a ++ b) = (String.length a + String.length b)%nat.
Proof. induction a as [|x a IH]; cbn [append String.length]; [reflexivity|]. now rewrite IH. Qed.

(* ------------------------------------------------------------------ hexadecimal *)
Lemma unnib_nibc b0 b1 b2 b3 : unnib (nibc b0 b1 b2 b3) = Some (b0, b1, b2, b3).
Proof. destruct b0, b1, b2, b3; reflexivity. Qed.

Lemma unhex2_hex2 a X : exists c1 c2, (hex2 a ++ X) = String c1 (String c2 X) /\ unhex2 c1 c2 = Some a.
Proof.
  destruct a as [b0 b1 b2 b3 b4 b5 b6 b7]. exists (nibc b4 b5 b6 b7), (nibc b0 b1 b2 b3). split; [reflexivity|].
  unfold unhex2. now rewrite !unnib_nibc.
Qed.

Lemma read_u_esc h l X : read_u ((hex2 h ++ hex2 l) ++ X) = Some (h, l, X).
Proof.
  rewrite OutputStr.app_assoc.
  destruct (unhex2_hex2 h (hex2 l ++ X)) as (c1 & c2 & E1 & U1). destruct (unhex2_hex2 l X) as (c3 & c4 & E2 & U2).
  rewrite E1, E2. cbn [read_u]. now rewrite U1, U2.
Qed.

Lemma esc_u_app h l X : esc_u h l ++ X = String bsl (String "u"%char ((hex2 h ++ hex2 l) ++ X)).
Proof. reflexivity. Qed.

(* reading one \uXXXX *)
Lemma read_chunk_single h l b X : is_high h = false -> unit_bytes h l = Some b -> read_chunk (esc_u h l ++ X) = Some (b, X).
Proof.
  intros Hh Hb. rewrite esc_u_app. unfold read_chunk. change (Ascii.eqb bsl bsl) with true. change (Ascii.eqb "u"%char "u"%char) with true.
  cbv iota. rewrite read_u_esc, Hh, Hb. reflexivity.
Qed.

Lemma read_chunk_pair h1 l1 h2 l2 X : is_high h1 = true -> is_low h2 = true ->
  read_chunk ((esc_u h1 l1 ++ esc_u h2 l2) ++ X) = Some (pair_bytes h1 l1 h2 l2, X).
Proof.
  intros H1 H2. rewrite OutputStr.app_assoc, esc_u_app. unfold read_chunk. change (Ascii.eqb bsl bsl) with true. change (Ascii.eqb "u"%char "u"%char) with true.
  cbv iota. rewrite read_u_esc, H1. rewrite esc_u_app. change (Ascii.eqb bsl bsl) with true. change (Ascii.eqb "u"%char "u"%char) with true.
  cbn [andb]. cbv iota. rewrite read_u_esc, H2. reflexivity.
Qed.

Definition bit7 (a : ascii) : bool := match a with Ascii _ _ _ _ _ _ _ b => b end.

Lemma read_chunk_ascii a X : bit7 a = false -> read_chunk (esc_ascii a ++ X) = Some (String a EmptyString, X).
Proof.
  destruct a as [b0 b1 b2 b3 b4 b5 b6 b7]. cbn [bit7]. intros ->.
  destruct b0, b1, b2, b3, b4, b5, b6; reflexivity.
Qed.

Lemma lone_bytes a : bit7 a = true -> is_high xDC = false /\ unit_bytes xDC a = Some (String a EmptyString).
Proof. destruct a as [b0 b1 b2 b3 b4 b5 b6 b7]. cbn [bit7]. intros ->. split; reflexivity. Qed.

(* ------------------------------------------------------------------ the code points of a byte string *)
Definition chunk_spec (s : string) (c : chunk) (r : string) : Prop :=
  match c with
  | CAscii a => s = String a r /\ bit7 a = false
  | CUnit h l => is_high h = false /\ exists b, unit_bytes h l = Some b /\ s = b ++ r
  | CPair h1 l1 h2 l2 => is_high h1 = true /\ is_low h2 = true /\ s = pair_bytes h1 l1 h2 l2 ++ r
  | CLone a => s = String a r /\ bit7 a = true
  end.

Ltac split_hyp H :=
  repeat (match type of H with
          | context [cont ?x] => is_var x; destruct x
          | context [match ?x with _ => _ end] => is_var x; destruct x
          | context [if ?x then _ else _] => is_var x; destruct x
          | context [andb ?x _] => is_var x; destruct x
          | context [orb ?x _] => is_var x; destruct x
          | context [negb ?x] => is_var x; destruct x
          | context [xorb ?x _] => is_var x; destruct x
          end; cbn in H; try discriminate H).
Ltac split_goal :=
  repeat (cbn; match goal with
               | |- context [match ?x with _ => _ end] => is_var x; destruct x
               | |- context [if ?x then _ else _] => is_var x; destruct x
               | |- context [andb ?x _] => is_var x; destruct x
               | |- context [orb ?x _] => is_var x; destruct x
               | |- context [negb ?x] => is_var x; destruct x
               | |- context [xorb ?x _] => is_var x; destruct x
               end).

Lemma next_chunk_spec s c r : next_chunk s = Some (c, r) -> chunk_spec s c r.
Proof.
  intros H. unfold next_chunk in H. split_hyp H;
    injection H as <- <-; unfold chunk_spec; split_goal;
    repeat match goal with |- _ /\ _ => split | |- exists _, _ => eexists end; reflexivity.
Qed.

Ltac split_goal' :=
  repeat (cbn; match goal with
               | |- context [cont ?x] => is_var x; destruct x
               | |- context [match ?x with _ => _ end] => is_var x; destruct x
               | |- context [if ?x then _ else _] => is_var x; destruct x
               | |- context [andb ?x _] => is_var x; destruct x
               | |- context [orb ?x _] => is_var x; destruct x
               | |- context [negb ?x] => is_var x; destruct x
               | |- context [xorb ?x _] => is_var x; destruct x
               end).

Lemma next_chunk_some a r : exists c r', next_chunk (String a r) = Some (c, r').
Proof. unfold next_chunk. split_goal'; eexists; eexists; reflexivity. Qed.

Lemma unit_bytes_len h l b : unit_bytes h l = Some b -> (1 <= String.length b <= 3)%nat.
Proof.
  destruct h as [h0 h1 h2 h3 h4 h5 h6 h7], l as [l0 l1 l2 l3 l4 l5 l6 l7]. unfold unit_bytes.
  repeat match goal with |- context [if ?x then _ else _] => destruct x end; intros E; try discriminate E;
    injection E as <-; cbn [String.length]; lia.
Qed.

Lemma pair_bytes_len h1 l1 h2 l2 : String.length (pair_bytes h1 l1 h2 l2) = 4%nat.
Proof.
  destruct h1, l1, h2, l2. unfold pair_bytes. match goal with |- context [inc4 ?a ?b ?c ?d] => destruct (inc4 a b c d) as [[[[? ?] ?] ?] ?] end.
  reflexivity.
Qed.

Lemma esc_u_len h l : String.length (esc_u h l) = 6%nat.
Proof. destruct h, l. reflexivity. Qed.

Lemma esc_chunk_head c : exists a t, esc_chunk c = String a t /\ Ascii.eqb a dq = false.
Proof.
  destruct c as [a|h l|h1 l1 h2 l2|a]; try (eexists; eexists; split; reflexivity).
  destruct a as [b0 b1 b2 b3 b4 b5 b6 b7]. destruct b0, b1, b2, b3, b4, b5, b6, b7; eexists; eexists; split; reflexivity.
Qed.

Lemma next_chunk_shorter s c r : next_chunk s = Some (c, r) -> (String.length r < String.length s)%nat.
Proof.
  intros H. apply next_chunk_spec in H. destruct c; cbn [chunk_spec] in H.
  - destruct H as [-> _]. cbn [String.length]. lia.
  - destruct H as (_ & b & Hb & ->). apply unit_bytes_len in Hb. rewrite length_app. lia.
  - destruct H as (_ & _ & ->). rewrite length_app, pair_bytes_len. lia.
  - destruct H as [-> _]. cbn [String.length]. lia.
Qed.

(* the reader undoes the escaper, one code point at a time *)
Lemma chunk_read s c r X : next_chunk s = Some (c, r) -> exists b, read_chunk (esc_chunk c ++ X) = Some (b, X) /\ s = b ++ r.
Proof.
  intros H. apply next_chunk_spec in H. destruct c; cbn [chunk_spec esc_chunk] in *.
  - destruct H as [-> Ha]. exists (String a EmptyString). split; [now apply read_chunk_ascii|reflexivity].
  - destruct H as (Hh & b & Hb & ->). exists b. split; [now apply read_chunk_single|reflexivity].
  - destruct H as (H1 & H2 & ->). eexists. split; [now apply read_chunk_pair|reflexivity].
  - destruct H as [-> Ha]. destruct (lone_bytes a Ha) as [L1 L2]. exists (String a EmptyString). split; [now apply read_chunk_single|reflexivity].
Qed.

Lemma chunk_len s c r : next_chunk s = Some (c, r) -> (String.length s <= String.length (esc_chunk c) + String.length r)%nat.
Proof.
  intros H. apply next_chunk_spec in H. destruct (esc_chunk_head c) as (a0 & t & Ec & _). destruct c; cbn [chunk_spec] in H.
  - destruct H as [-> _]. rewrite Ec. cbn [String.length]. lia.
  - destruct H as (_ & b & Hb & ->). apply unit_bytes_len in Hb. cbn [esc_chunk]. rewrite length_app, esc_u_len. lia.
  - destruct H as (_ & _ & ->). cbn [esc_chunk]. rewrite !length_app, pair_bytes_len, !esc_u_len. lia.
  - destruct H as [-> _]. cbn [esc_chunk]. rewrite esc_u_len. cbn [String.length]. lia.
Qed.

Lemma esc_go_len n : forall s, (String.length s <= n)%nat -> (String.length s <= String.length (esc_go n s))%nat.
Proof.
  induction n as [|n IH]; intros s Hn; [destruct s; [cbn; lia|cbn in Hn; lia]|].
  destruct s as [|a s']; [cbn; lia|]. destruct (next_chunk_some a s') as (c & r & E). cbn [esc_go]. rewrite E.
  pose proof (chunk_len _ _ _ E) as H1. pose proof (next_chunk_shorter _ _ _ E) as H2. rewrite length_app.
  assert (String.length r <= n)%nat as Hr by (cbn [String.length] in *; lia). specialize (IH r Hr). lia.
Qed.

Lemma read_str_step f s a t b r' : s = String a t -> Ascii.eqb a dq = false -> read_chunk s = Some (b, r') ->
  read_str (S f) s = match read_str f r' with Some (bs, r'') => Some (b ++ bs, r'') | None => None end.
Proof. intros -> Hq Hr. cbn [read_str]. now rewrite Hq, Hr. Qed.

Theorem read_str_esc n : forall s X fuel, (String.length s <= n)%nat -> (String.length s < fuel)%nat ->
  read_str fuel (esc_go n s ++ String dq X) = Some (s, X).
Proof.
  induction n as [|n IH]; intros s X fuel Hn Hf.
  - destruct s; [|cbn in Hn; lia]. destruct fuel; [lia|]. reflexivity.
  - destruct s as [|a s'].
    + destruct fuel; [lia|]. reflexivity.
    + destruct (next_chunk_some a s') as (c & r & E). cbn [esc_go]. rewrite E.
      destruct (chunk_read _ _ _ (esc_go n r ++ String dq X) E) as (b & Hr & Hs).
      pose proof (next_chunk_shorter _ _ _ E) as Hlen.
      destruct fuel as [|f]; [lia|].
      rewrite OutputStr.app_assoc.
      destruct (esc_chunk_head c) as (a0 & t & Ec & Hq).
      rewrite (read_str_step f (esc_chunk c ++ esc_go n r ++ String dq X) a0 (t ++ esc_go n r ++ String dq X) b (esc_go n r ++ String dq X)); [|now rewrite Ec|exact Hq|exact Hr].
      rewrite IH; [now rewrite Hs| |]; cbn [String.length] in *; lia.
Qed.

(* json.dumps of a str, then the reader: the str, for EVERY byte string (lone surrogates of surrogateescape included) *)
Theorem json_quote_read s X : exists r, json_quote s ++ X = String dq r /\ read_str (S (String.length r)) r = Some (s, X).
Proof.
  exists (esc_go (String.length s) s ++ String dq X). split.
  - unfold json_quote. cbn [append]. now rewrite OutputStr.app_assoc.
  - apply read_str_esc; [lia|]. rewrite length_app. pose proof (esc_go_len (String.length s) s (le_n _)). cbn [String.length]. lia.
Qed.

(* ------------------------------------------------------------------ ASCII *)
Lemma ascii_bytes_app a b : ascii_bytes (a ++ b) = ascii_bytes a && ascii_bytes b.
Proof. induction a as [|x a IH]; [reflexivity|]. destruct x. cbn [append ascii_bytes]. now rewrite IH, andb_assoc. Qed.

Lemma hex2_ascii a : ascii_bytes (hex2 a) = true.
Proof. destruct a as [b0 b1 b2 b3 b4 b5 b6 b7]. destruct b0, b1, b2, b3, b4, b5, b6, b7; reflexivity. Qed.

Lemma esc_u_ascii h l : ascii_bytes (esc_u h l) = true.
Proof. unfold esc_u. cbn [ascii_bytes bsl]. cbn. now rewrite ascii_bytes_app, !hex2_ascii. Qed.

Lemma esc_chunk_ascii c : ascii_bytes (esc_chunk c) = true.
Proof.
  destruct c as [a|h l|h1 l1 h2 l2|a]; cbn [esc_chunk]; try apply esc_u_ascii.
  - destruct a as [b0 b1 b2 b3 b4 b5 b6 b7]. destruct b0, b1, b2, b3, b4, b5, b6, b7; reflexivity.
  - now rewrite ascii_bytes_app, !esc_u_ascii.
Qed.

Lemma esc_go_ascii n : forall s, ascii_bytes (esc_go n s) = true.
Proof.
  induction n as [|n IH]; intros s; [reflexivity|]. cbn [esc_go]. destruct (next_chunk s) as [[c r]|]; [|reflexivity].
  now rewrite ascii_bytes_app, esc_chunk_ascii, IH.
Qed.

Theorem json_quote_ascii s : ascii_bytes (json_quote s) = true.
Proof. unfold json_quote. cbn [ascii_bytes dq]. cbn. now rewrite ascii_bytes_app, esc_go_ascii. Qed.

(* ASCII bytes are well-formed UTF-8 (Model.Output.utf8_valid, the recogniser compared with CPython's strict decoder) *)
Theorem ascii_bytes_utf8 s : ascii_bytes s = true -> utf8_valid s = true.
Proof.
  unfold utf8_valid. induction s as [|a s IH]; [reflexivity|]. destruct a as [b0 b1 b2 b3 b4 b5 b6 b7]. cbn [ascii_bytes]. intros H.
  apply andb_true_iff in H as [H1 H2]. destruct b7; [discriminate H1|]. cbn [utf8_valid_go].
  replace (nat_of_ascii (Ascii b0 b1 b2 b3 b4 b5 b6 false) <? 128)%nat with true by (destruct b0, b1, b2, b3, b4, b5, b6; reflexivity).
  now apply IH.
Qed.

(* ================================================================== documents *)
Fixpoint json_ind' (P : json -> Prop) (Hnull : P JNull) (Hbool : forall b, P (JBool b)) (Hnum : forall z, P (JNum z))
         (Hstr : forall s, P (JStr s)) (Harr : forall l, Forall P l -> P (JArr l))
         (Hobj : forall l, Forall (fun kv => P (snd kv)) l -> P (JObj l)) (j : json) {struct j} : P j :=
  match j with
  | JNull => Hnull
  | JBool b => Hbool b
  | JNum z => Hnum z
  | JStr s => Hstr s
  | JArr l => Harr l ((fix go (l : list json) : Forall P l :=
                         match l with
                         | [] => Forall_nil P
                         | x :: r => Forall_cons x (json_ind' P Hnull Hbool Hnum Hstr Harr Hobj x) (go r)
                         end) l)
  | JObj l => Hobj l ((fix go (l : list (string * json)) : Forall (fun kv => P (snd kv)) l :=
                         match l with
                         | [] => Forall_nil _
                         | kv :: r => Forall_cons kv (match kv as kv0 return P (snd kv0) with
                                                      | (k, x) => json_ind' P Hnull Hbool Hnum Hstr Harr Hobj x
                                                      end) (go r)
                         end) l)
  end.

(* ---------- the layout of arrays and objects as top-level functions ---------- *)
Fixpoint atail (lvl : nat) (l : list json) : string :=
  match l with
  | [] => EmptyString
  | y :: r => json_dumps_item_sep ++ ind (S lvl) ++ dumps_at (S lvl) y ++ atail lvl r
  end.
Fixpoint mtail (lvl : nat) (l : list (string * json)) : string :=
  match l with
  | [] => EmptyString
  | (k, y) :: r => json_dumps_item_sep ++ ind (S lvl) ++ json_quote k ++ json_dumps_key_sep ++ dumps_at (S lvl) y ++ mtail lvl r
  end.

Lemma dumps_arr lvl x r :
  dumps_at lvl (JArr (x :: r)) = String "["%char (ind (S lvl) ++ dumps_at (S lvl) x ++ atail lvl r ++ ind lvl ++ "]").
Proof.
  cbn [dumps_at]. change ("[" ++ ?X) with (String "["%char X). do 4 f_equal.
  induction r as [|y r IH]; [reflexivity|]. cbn [atail]. now rewrite <- IH.
Qed.

Lemma dumps_obj lvl k x r :
  dumps_at lvl (JObj ((k, x) :: r)) =
  String "{"%char (ind (S lvl) ++ json_quote k ++ json_dumps_key_sep ++ dumps_at (S lvl) x ++ mtail lvl r ++ ind lvl ++ "}").
Proof.
  cbn [dumps_at]. change ("{" ++ ?X) with (String "{"%char X). do 6 f_equal.
  induction r as [|[k' y] r IH]; [reflexivity|]. cbn [mtail]. now rewrite <- IH.
Qed.

(* ---------- ASCII ---------- *)
Fixpoint all_num (s : string) : bool := match s with EmptyString => true | String a r => num_char a && all_num r end.

Lemma only_digits_all_num s : only_digits s = true -> all_num s = true.
Proof.
  induction s as [|a s IH]; [reflexivity|]. cbn [only_digits all_num]. intros H. apply andb_true_iff in H as [H1 H2].
  unfold num_char. now rewrite H1, IH.
Qed.

Lemma show_Z_all_num z : all_num (show_Z z) = true.
Proof.
  destruct z as [|p|p]; [reflexivity| |].
  - destruct (show_Z_nonneg (Zpos p)) as (d & _ & -> & _); [lia|]. apply only_digits_all_num, only_digits_uint.
  - rewrite show_Z_neg. cbn [all_num]. destruct (show_Z_nonneg (Zpos p)) as (d & _ & -> & _); [lia|].
    now rewrite only_digits_all_num by apply only_digits_uint.
Qed.

Lemma show_Z_head z : exists c t, show_Z z = String c t /\ num_char c = true.
Proof.
  pose proof (show_Z_all_num z) as H. destruct z as [|p|p].
  - eexists; eexists; split; reflexivity.
  - destruct (show_Z_pos_first p) as (a & r & E & _). rewrite E in *. exists a, r. split; [reflexivity|].
    cbn [all_num] in H. now apply andb_true_iff in H as [H _].
  - rewrite show_Z_neg. eexists; eexists; split; reflexivity.
Qed.

Lemma num_char_bit7 a : num_char a = true -> bit7 a = false.
Proof. destruct a as [b0 b1 b2 b3 b4 b5 b6 b7]. destruct b7; [|reflexivity]. destruct b0, b1, b2, b3, b4, b5, b6; intros H; discriminate H. Qed.

Lemma all_num_ascii s : all_num s = true -> ascii_bytes s = true.
Proof.
  induction s as [|a s IH]; [reflexivity|]. cbn [all_num]. intros H. apply andb_true_iff in H as [H1 H2].
  apply num_char_bit7 in H1. destruct a. cbn [bit7] in H1. subst. cbn [ascii_bytes]. now rewrite IH.
Qed.

Lemma spaces_ascii n : ascii_bytes (spaces n) = true.
Proof. induction n; [reflexivity|]. cbn [spaces]. unfold sp. cbn. exact IHn. Qed.

Lemma ind_ascii lvl : ascii_bytes (ind lvl) = true.
Proof. unfold ind. unfold nl. cbn. apply spaces_ascii. Qed.

Lemma seps_ascii : ascii_bytes json_dumps_item_sep = true /\ ascii_bytes json_dumps_key_sep = true.
Proof. split; reflexivity. Qed.

Theorem dumps_ascii j : forall lvl, ascii_bytes (dumps_at lvl j) = true.
Proof.
  destruct seps_ascii as [Si Sk].
  induction j using json_ind'; intros lvl; try reflexivity.
  - destruct b; reflexivity.
  - apply all_num_ascii, show_Z_all_num.
  - apply json_quote_ascii.
  - destruct l as [|x r]; [reflexivity|]. rewrite dumps_arr. inversion H as [|? ? Hx Hr]; subst.
    change (ascii_bytes (String "["%char ?X)) with (ascii_bytes X). rewrite !ascii_bytes_app, !ind_ascii, Hx.
    assert (T : ascii_bytes (atail lvl r) = true).
    { clear Hx H. induction Hr as [|y r Hy _ IH]; [reflexivity|]. cbn [atail]. now rewrite !ascii_bytes_app, Si, ind_ascii, Hy, IH. }
    now rewrite T.
  - destruct l as [|[k x] r]; [reflexivity|]. rewrite dumps_obj. inversion H as [|? ? Hx Hr]; subst. cbn [snd] in Hx.
    change (ascii_bytes (String "{"%char ?X)) with (ascii_bytes X). rewrite !ascii_bytes_app, !ind_ascii, json_quote_ascii, Sk, Hx.
    assert (T : ascii_bytes (mtail lvl r) = true).
    { clear Hx H. induction Hr as [|[k' y] r Hy _ IH]; [reflexivity|]. cbn [mtail snd] in *.
      now rewrite !ascii_bytes_app, Si, ind_ascii, json_quote_ascii, Sk, Hy, IH. }
    now rewrite T.
Qed.

(* stdout of the JSON and SARIF renderings is ASCII, hence well-formed UTF-8 whatever the encoding of stdout *)
Theorem stdout_ascii j : ascii_bytes (stdout_of j) = true.
Proof. unfold stdout_of, dumps. now rewrite ascii_bytes_app, dumps_ascii. Qed.

Theorem stdout_utf8 j : utf8_valid (stdout_of j) = true.
Proof. apply ascii_bytes_utf8, stdout_ascii. Qed.

(* ---------- the reader on what the model wrote ---------- *)
Definition delim (X : string) : bool := match X with EmptyString => true | String a _ => negb (num_char a) end.
Definition val_start (c : ascii) : bool :=
  num_char c || Ascii.eqb c "n"%char || Ascii.eqb c "t"%char || Ascii.eqb c "f"%char || Ascii.eqb c dq
  || Ascii.eqb c "["%char || Ascii.eqb c "{"%char.

Lemma val_start_facts c : val_start c = true ->
  is_ws c = false /\ Ascii.eqb c "]"%char = false /\ Ascii.eqb c "}"%char = false.
Proof.
  destruct c as [b0 b1 b2 b3 b4 b5 b6 b7]. destruct b0, b1, b2, b3, b4, b5, b6, b7; intros H; try discriminate H; repeat split.
Qed.

Lemma num_char_facts c : num_char c = true ->
  Ascii.eqb c "n"%char = false /\ Ascii.eqb c "t"%char = false /\ Ascii.eqb c "f"%char = false /\ Ascii.eqb c dq = false
  /\ Ascii.eqb c "["%char = false /\ Ascii.eqb c "{"%char = false.
Proof.
  destruct c as [b0 b1 b2 b3 b4 b5 b6 b7]. destruct b0, b1, b2, b3, b4, b5, b6, b7; intros H; try discriminate H; repeat split.
Qed.

Lemma span_num_app p X : all_num p = true -> delim X = true -> span_num (p ++ X) = (p, X).
Proof.
  intros Hp HX. induction p as [|a p IH].
  - destruct X as [|x X]; [reflexivity|]. cbn [append span_num]. cbn [delim] in HX. apply negb_true_iff in HX. now rewrite HX.
  - cbn [all_num] in Hp. apply andb_true_iff in Hp as [H1 H2]. cbn [append span_num]. now rewrite H1, (IH H2).
Qed.

Lemma read_number_show z X : delim X = true -> read_number (show_Z z ++ X) = Some (JNum z, X).
Proof.
  intros HX. unfold read_number. rewrite span_num_app by (exact HX || apply show_Z_all_num).
  now rewrite read_int_show, String.eqb_refl.
Qed.

Lemma skip_ws_start c t : is_ws c = false -> skip_ws (String c t) = String c t.
Proof. intros H. cbn [skip_ws]. now rewrite H. Qed.

Lemma skip_ws_spaces n Y : skip_ws (spaces n ++ Y) = skip_ws Y.
Proof. induction n as [|n IH]; [reflexivity|]. cbn [spaces append skip_ws]. change (is_ws sp) with true. exact IH. Qed.

Lemma skip_ws_ind lvl Y : skip_ws (ind lvl ++ Y) = skip_ws Y.
Proof. unfold ind. cbn [append skip_ws]. change (is_ws nl) with true. apply skip_ws_spaces. Qed.

Lemma delim_ind lvl Y : delim (ind lvl ++ Y) = true.
Proof. reflexivity. Qed.

Lemma dumps_head lvl j : exists c t, dumps_at lvl j = String c t /\ val_start c = true.
Proof.
  destruct j as [|b|z|s|l|l].
  - eexists; eexists; split; reflexivity.
  - destruct b; eexists; eexists; split; reflexivity.
  - destruct (show_Z_head z) as (c & t & E & Hc). exists c, t. split; [exact E|]. unfold val_start. now rewrite Hc.
  - eexists; eexists; split; reflexivity.
  - destruct l as [|x r]; [eexists; eexists; split; reflexivity|]. rewrite dumps_arr. eexists; eexists; split; reflexivity.
  - destruct l as [|[k x] r]; [eexists; eexists; split; reflexivity|]. rewrite dumps_obj. eexists; eexists; split; reflexivity.
Qed.

Lemma skip_ws_dumps lvl j Y : skip_ws (dumps_at lvl j ++ Y) = dumps_at lvl j ++ Y.
Proof.
  destruct (dumps_head lvl j) as (c & t & E & Hc). rewrite E. cbn [append]. apply skip_ws_start. now apply val_start_facts in Hc.
Qed.

(* fuel: one unit per value and per list cell *)
Fixpoint jsize (j : json) : nat :=
  match j with
  | JArr l => S ((fix es (l : list json) : nat := match l with [] => 0 | x :: r => S (jsize x + es r) end) l)
  | JObj l => S ((fix ms (l : list (string * json)) : nat := match l with [] => 0 | (_, x) :: r => S (jsize x + ms r) end) l)
  | _ => 1
  end.
Fixpoint esize (l : list json) : nat := match l with [] => 0 | x :: r => S (jsize x + esize r) end.
Fixpoint msize (l : list (string * json)) : nat := match l with [] => 0 | (_, x) :: r => S (jsize x + msize r) end.
Lemma jsize_arr l : jsize (JArr l) = S (esize l).
Proof. reflexivity. Qed.
Lemma jsize_obj l : jsize (JObj l) = S (msize l).
Proof. reflexivity. Qed.

Definition reads_back (y : json) : Prop :=
  forall lvl X fuel, delim X = true -> (jsize y <= fuel)%nat -> parse_val fuel (dumps_at lvl y ++ X) = Some (y, X).

Lemma parse_elems_ok lvl X : forall l x fuel, reads_back x -> Forall reads_back l -> (esize (x :: l) <= fuel)%nat ->
  parse_elems fuel (dumps_at (S lvl) x ++ atail lvl l ++ ind lvl ++ String "]"%char X) = Some (x :: l, X).
Proof.
  induction l as [|y l IH]; intros x fuel Hx Hl Hf; cbn [esize] in Hf; (destruct fuel as [|f]; [lia|]); cbn [parse_elems].
  - cbn [atail append]. rewrite Hx by (apply delim_ind || lia). rewrite skip_ws_ind, skip_ws_start by reflexivity.
    change (Ascii.eqb "]"%char ","%char) with false. change (Ascii.eqb "]"%char "]"%char) with true. reflexivity.
  - inversion Hl as [|? ? Hy Hl']; subst. cbn [atail]. change json_dumps_item_sep with ",". cbn [append].
    rewrite Hx by (reflexivity || lia). rewrite skip_ws_start by reflexivity.
    change (Ascii.eqb ","%char ","%char) with true. cbv iota.
    rewrite !OutputStr.app_assoc. rewrite skip_ws_ind, skip_ws_dumps.
    rewrite (IH y f Hy Hl'); [reflexivity|]. cbn [esize]. lia.
Qed.

Lemma parse_members_ok lvl X : forall l k x fuel, reads_back x -> Forall (fun kv => reads_back (snd kv)) l ->
  (msize ((k, x) :: l) <= fuel)%nat ->
  parse_members fuel (json_quote k ++ json_dumps_key_sep ++ dumps_at (S lvl) x ++ mtail lvl l ++ ind lvl ++ String "}"%char X)
  = Some ((k, x) :: l, X).
Proof.
  induction l as [|[k' y] l IH]; intros k x fuel Hx Hl Hf; cbn [msize] in Hf; (destruct fuel as [|f]; [lia|]).
  - match goal with |- parse_members _ (json_quote k ++ ?R) = _ => destruct (json_quote_read k R) as (r0 & E & Hr) end.
    rewrite E. cbn [parse_members]. change (Ascii.eqb dq dq) with true. cbv iota. rewrite Hr.
    change json_dumps_key_sep with ": ". cbn [append]. rewrite skip_ws_start by reflexivity. cbn [expect].
    change (Ascii.eqb ":"%char ":"%char) with true. cbv iota. cbn [skip_ws]. change (is_ws " "%char) with true. cbv iota.
    rewrite skip_ws_dumps. cbn [mtail append]. rewrite Hx by (apply delim_ind || lia). rewrite skip_ws_ind, skip_ws_start by reflexivity.
    change (Ascii.eqb "}"%char ","%char) with false. change (Ascii.eqb "}"%char "}"%char) with true. reflexivity.
  - inversion Hl as [|? ? Hy Hl']; subst. cbn [snd] in Hy.
    match goal with |- parse_members _ (json_quote k ++ ?R) = _ => destruct (json_quote_read k R) as (r0 & E & Hr) end.
    rewrite E. cbn [parse_members]. change (Ascii.eqb dq dq) with true. cbv iota. rewrite Hr.
    change json_dumps_key_sep with ": ". cbn [append]. rewrite skip_ws_start by reflexivity. cbn [expect].
    change (Ascii.eqb ":"%char ":"%char) with true. cbv iota. cbn [skip_ws]. change (is_ws " "%char) with true. cbv iota.
    rewrite skip_ws_dumps. cbn [mtail]. change json_dumps_item_sep with ",". change json_dumps_key_sep with ": ". cbn [append].
    rewrite Hx by (reflexivity || lia). rewrite skip_ws_start by reflexivity.
    change (Ascii.eqb ","%char ","%char) with true. cbv iota.
    rewrite !OutputStr.app_assoc. rewrite skip_ws_ind.
    destruct (json_quote_read k' EmptyString) as (rq & Eq & _). rewrite OutputStr.app_nil_r in Eq.
    rewrite Eq at 1. cbn [append]. rewrite skip_ws_start by reflexivity.
    change (String dq (rq ++ ?Z)) with (String dq rq ++ Z). rewrite <- Eq.
    change (String ":"%char (String " "%char ?Z)) with (json_dumps_key_sep ++ Z).
    rewrite !OutputStr.app_assoc. rewrite (IH k' y f Hy Hl'); [reflexivity|]. cbn [msize]. lia.
Qed.

(* the reader reads back every document the model writes, at every nesting level, whatever follows it *)
Theorem parse_dumps j : reads_back j.
Proof.
  induction j using json_ind'; intros lvl X fuel HX Hf; (destruct fuel as [|f]; [cbn in Hf; lia|]).
  - reflexivity.
  - destruct b; reflexivity.
  - destruct (show_Z_head z) as (c & t & E & Hc). cbn [dumps_at]. rewrite E. cbn [append parse_val].
    destruct (num_char_facts c Hc) as (F1 & F2 & F3 & F4 & F5 & F6). rewrite F1, F2, F3, F4, F5, F6.
    change (String c (t ++ X)) with (String c t ++ X). rewrite <- E. now apply read_number_show.
  - destruct (json_quote_read s X) as (r & E & Hr). cbn [dumps_at]. rewrite E. cbn [parse_val].
    change (Ascii.eqb dq "n"%char) with false. change (Ascii.eqb dq "t"%char) with false. change (Ascii.eqb dq "f"%char) with false.
    change (Ascii.eqb dq dq) with true. cbv iota. now rewrite Hr.
  - destruct l as [|x r]; [reflexivity|]. rewrite dumps_arr. rewrite jsize_arr in Hf. inversion H as [|? ? Hx Hr]; subst.
    cbn [append parse_val].
    change (Ascii.eqb "["%char "n"%char) with false. change (Ascii.eqb "["%char "t"%char) with false. change (Ascii.eqb "["%char "f"%char) with false.
    change (Ascii.eqb "["%char dq) with false. change (Ascii.eqb "["%char "["%char) with true. cbv iota.
    rewrite !OutputStr.app_assoc. cbn [append]. rewrite skip_ws_ind, skip_ws_dumps.
    destruct (dumps_head (S lvl) x) as (c & t & E & Hc). destruct (val_start_facts c Hc) as (_ & G1 & _).
    rewrite E. cbn [append]. rewrite G1.
    match goal with |- context [String c (t ++ ?Z)] => change (String c (t ++ Z)) with (String c t ++ Z) end. rewrite <- E.
    rewrite (parse_elems_ok lvl X r x f Hx Hr); [reflexivity|lia].
  - destruct l as [|[k x] r]; [reflexivity|]. rewrite dumps_obj. rewrite jsize_obj in Hf. inversion H as [|? ? Hx Hr]; subst. cbn [snd] in Hx.
    cbn [append parse_val].
    change (Ascii.eqb "{"%char "n"%char) with false. change (Ascii.eqb "{"%char "t"%char) with false. change (Ascii.eqb "{"%char "f"%char) with false.
    change (Ascii.eqb "{"%char dq) with false. change (Ascii.eqb "{"%char "["%char) with false. change (Ascii.eqb "{"%char "{"%char) with true. cbv iota.
    rewrite !OutputStr.app_assoc. cbn [append]. rewrite skip_ws_ind.
    destruct (json_quote_read k EmptyString) as (rq & Eq & _). rewrite OutputStr.app_nil_r in Eq.
    rewrite Eq at 1. cbn [append]. rewrite skip_ws_start by reflexivity. change (Ascii.eqb dq "}"%char) with false. cbv iota.
    change (String dq (rq ++ ?Z)) with (String dq rq ++ Z). rewrite <- Eq.
    rewrite (parse_members_ok lvl X r k x f Hx Hr); [reflexivity|lia].
Qed.

(* ---------- enough fuel: the length of the text ---------- *)
Lemma ind_len lvl : (1 <= String.length (ind lvl))%nat.
Proof. unfold ind. cbn [String.length]. lia. Qed.

Lemma jsize_le_length j : forall lvl, (jsize j <= String.length (dumps_at lvl j))%nat.
Proof.
  induction j using json_ind'; intros lvl.
  - cbn. lia.
  - destruct b; cbn; lia.
  - destruct (show_Z_head z) as (c & t & E & _). cbn [dumps_at jsize]. rewrite E. cbn [String.length]. lia.
  - cbn [dumps_at jsize]. unfold json_quote. cbn [String.length]. lia.
  - destruct l as [|x r]; [cbn; lia|]. rewrite dumps_arr, jsize_arr. inversion H as [|? ? Hx Hr]; subst.
    cbn [String.length esize]. rewrite !length_app. pose proof (ind_len (S lvl)). pose proof (ind_len lvl). specialize (Hx (S lvl)).
    assert (T : (esize r <= String.length (atail lvl r))%nat).
    { clear Hx H. induction Hr as [|y r Hy _ IH]; [cbn; lia|]. cbn [atail esize]. rewrite !length_app.
      pose proof (ind_len (S lvl)). specialize (Hy (S lvl)). lia. }
    lia.
  - destruct l as [|[k x] r]; [cbn; lia|]. rewrite dumps_obj, jsize_obj. inversion H as [|? ? Hx Hr]; subst. cbn [snd] in Hx.
    cbn [String.length msize]. rewrite !length_app. pose proof (ind_len (S lvl)). pose proof (ind_len lvl). specialize (Hx (S lvl)).
    assert (T : (msize r <= String.length (mtail lvl r))%nat).
    { clear Hx H. induction Hr as [|[k' y] r Hy _ IH]; [cbn; lia|]. cbn [mtail msize snd] in *. rewrite !length_app.
      pose proof (ind_len (S lvl)). specialize (Hy (S lvl)). lia. }
    lia.
Qed.

(* what click.echo(json.dumps(doc, indent=K)) writes is a JSON text, and it denotes the document *)
Theorem loads_stdout j : loads (stdout_of j) = Some j.
Proof.
  unfold loads, stdout_of, dumps. rewrite skip_ws_dumps.
  rewrite (parse_dumps j 0%nat nls); [reflexivity|reflexivity|].
  rewrite length_app. pose proof (jsize_le_length j 0%nat). lia.
Qed.

Theorem loads_dumps j : loads (dumps j) = Some j.
Proof.
  unfold loads, dumps. rewrite <- (OutputStr.app_nil_r (dumps_at 0 j)). rewrite skip_ws_dumps.
  rewrite (parse_dumps j 0%nat EmptyString); [reflexivity|reflexivity|].
  rewrite OutputStr.app_nil_r. pose proof (jsize_le_length j 0%nat). lia.
Qed.

(* the serialisation is injective: two documents with the same stdout are the same document *)
Theorem stdout_injective j1 j2 : stdout_of j1 = stdout_of j2 -> j1 = j2.
Proof. intros H. pose proof (loads_stdout j1) as H1. rewrite H, loads_stdout in H1. now injection H1. Qed.

(* ---------- from the bytes of stdout to the violations ---------- *)
Definition wellformed_json_text (out : string) : bool :=
  utf8_valid out && match loads out with Some _ => true | None => false end.

Theorem stdout_wellformed j : wellformed_json_text (stdout_of j) = true.
Proof. unfold wellformed_json_text. now rewrite stdout_utf8, loads_stdout. Qed.
