(* Proofs/OutputBytes.v — the byte level of the JSON / SARIF renderings (C06): what click.echo(json.dumps(doc, indent=K))
   writes is pure ASCII (hence well-formed UTF-8 under every stdout encoding), and the specification's reader of the JSON
   grammar reads the document back from it, for every JSON value (every byte string as a str, every integer). *)
From TL Require Import Lib.Base Model.OutputTypes Gen.OutputGen Model.Output Model.OutputBytes Proofs.OutputStr Proofs.OutputSan.
From Coq Require Import ZArith Lia.
Local Open Scope string_scope.

(* the json.dumps arguments found in the source are the ones the layout theorems are about *)
Lemma json_ser_facts : json_dumps_ensure_ascii = true /\ json_dumps_sort_keys = false /\ json_dumps_item_sep = ","
                       /\ json_dumps_key_sep = ": " /\ (1 <= json_dumps_indent)%nat.
Proof. repeat split; try reflexivity. vm_compute. lia. Qed.

Lemma length_app (a b : string) : String.length (a ++ b) = (String.length a + String.length b)%nat.
Proof. induction a as [|x a IH]; cbn [append String.length]; [reflexivity|]. now rewrite IH. Qed.

(* ------------------------------------------------------------------ hexadecimal *)
Lemma unnib_nibc b0 b1 b2 b3 : unnib (nibc b0 b1 b2 b3) = Some (b0, b1, b2, b3).
Proof. destruct b0, b1, b2, b3; reflexivity. Qed.

Lemma unhex2_hex2 a X : exists c1 c2, (hex2 a ++ X) = String c1 (String c2 X) /\ unhex2 c1 c2 = Some a.
Proof.
  destruct a as [b0 b1 b2 b3 b4 b5 b6 b7]. exists (nibc b4 b5 b6 b7), (nibc b0 b1 b2 b3). split; [reflexivity|].
  unfold unhex2. now rewrite !unnib_nibc.
Qed.

Lemma read_u_esc h l X : read_u ((hex2 h ++ hex2 l) ++ X) = Some (h, l, X).
Proof.
  rewrite OutputStr.app_assoc.
  destruct (unhex2_hex2 h (hex2 l ++ X)) as (c1 & c2 & E1 & U1). destruct (unhex2_hex2 l X) as (c3 & c4 & E2 & U2).
  rewrite E1, E2. cbn [read_u]. now rewrite U1, U2.
Qed.

Lemma esc_u_app h l X : esc_u h l ++ X = String bsl (String "u"%char ((hex2 h ++ hex2 l) ++ X)).
Proof. reflexivity. Qed.

(* reading one \uXXXX *)
Lemma read_chunk_single h l b X : is_high h = false -> unit_bytes h l = Some b -> read_chunk (esc_u h l ++ X) = Some (b, X).
Proof.
  intros Hh Hb. rewrite esc_u_app. unfold read_chunk. change (Ascii.eqb bsl bsl) with true. change (Ascii.eqb "u"%char "u"%char) with true.
  cbv iota. rewrite read_u_esc, Hh, Hb. reflexivity.
Qed.

Lemma read_chunk_pair h1 l1 h2 l2 X : is_high h1 = true -> is_low h2 = true ->
  read_chunk ((esc_u h1 l1 ++ esc_u h2 l2) ++ X) = Some (pair_bytes h1 l1 h2 l2, X).
Proof.
  intros H1 H2. rewrite OutputStr.app_assoc, esc_u_app. unfold read_chunk. change (Ascii.eqb bsl bsl) with true. change (Ascii.eqb "u"%char "u"%char) with true.
  cbv iota. rewrite read_u_esc, H1. rewrite esc_u_app. change (Ascii.eqb bsl bsl) with true. change (Ascii.eqb "u"%char "u"%char) with true.
  cbn [andb]. cbv iota. rewrite read_u_esc, H2. reflexivity.
Qed.

Definition bit7 (a : ascii) : bool := match a with Ascii _ _ _ _ _ _ _ b => b end.

Lemma read_chunk_ascii a X : bit7 a = false -> read_chunk (esc_ascii a ++ X) = Some (String a EmptyString, X).
Proof.
  destruct a as [b0 b1 b2 b3 b4 b5 b6 b7]. cbn [bit7]. intros ->.
  destruct b0, b1, b2, b3, b4, b5, b6; reflexivity.
Qed.

Lemma lone_bytes a : bit7 a = true -> is_high xDC = false /\ unit_bytes xDC a = Some (String a EmptyString).
Proof. destruct a as [b0 b1 b2 b3 b4 b5 b6 b7]. cbn [bit7]. intros ->. split; reflexivity. Qed.

(* ------------------------------------------------------------------ the code points of a byte string *)
Definition chunk_spec (s : string) (c : chunk) (r : string) : Prop :=
  match c with
  | CAscii a => s = String a r /\ bit7 a = false
  | CUnit h l => is_high h = false /\ exists b, unit_bytes h l = Some b /\ s = b ++ r
  | CPair h1 l1 h2 l2 => is_high h1 = true /\ is_low h2 = true /\ s = pair_bytes h1 l1 h2 l2 ++ r
  | CLone a => s = String a r /\ bit7 a = true
  end.

Ltac split_hyp H :=
  repeat (match type of H with
          | context [cont ?x] => is_var x; destruct x
          | context [match ?x with _ => _ end] => is_var x; destruct x
          | context [if ?x then _ else _] => is_var x; destruct x
          | context [andb ?x _] => is_var x; destruct x
          | context [orb ?x _] => is_var x; destruct x
          | context [negb ?x] => is_var x; destruct x
          | context [xorb ?x _] => is_var x; destruct x
          end; cbn in H; try discriminate H).
Ltac split_goal :=
  repeat (cbn; match goal with
               | |- context [match ?x with _ => _ end] => is_var x; destruct x
               | |- context [if ?x then _ else _] => is_var x; destruct x
               | |- context [andb ?x _] => is_var x; destruct x
               | |- context [orb ?x _] => is_var x; destruct x
               | |- context [negb ?x] => is_var x; destruct x
               | |- context [xorb ?x _] => is_var x; destruct x
               end).

Lemma next_chunk_spec s c r : next_chunk s = Some (c, r) -> chunk_spec s c r.
Proof.
  intros H. unfold next_chunk in H. split_hyp H;
    injection H as <- <-; unfold chunk_spec; split_goal;
    repeat match goal with |- _ /\ _ => split | |- exists _, _ => eexists end; reflexivity.
Qed.
