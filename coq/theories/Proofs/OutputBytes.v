(* Proofs/OutputBytes.v — the byte level of the JSON / SARIF renderings (C06): what click.echo(json.dumps(doc, indent=K))
   writes is pure ASCII (hence well-formed UTF-8 under every stdout encoding), and the specification's reader of the JSON
   grammar reads the document back from it, for every JSON value (every byte string as a str, every integer). *)
From TL Require Import Lib.Base Model.OutputTypes Gen.OutputGen Model.Output Model.OutputBytes Proofs.OutputStr Proofs.OutputSan.
From Coq Require Import ZArith Lia.
Local Open Scope string_scope.

(* the json.dumps arguments found in the source are the ones the layout theorems are about *)
Lemma json_ser_facts : json_dumps_ensure_ascii = true /\ json_dumps_sort_keys = false /\ json_dumps_item_sep = ","
                       /\ json_dumps_key_sep = ": " /\ (1 <= json_dumps_indent)%nat.
Proof. repeat split; try reflexivity. vm_compute. lia. Qed.

Lemma length_app (a b : string) : String.length (a ++ b) = (String.length a + String.length b)%nat.
Proof. induction a as [|x a IH]; cbn [append String.length]; [reflexivity|]. now rewrite IH. Qed.

(* ------------------------------------------------------------------ hexadecimal *)
Lemma unnib_nibc b0 b1 b2 b3 : unnib (nibc b0 b1 b2 b3) = Some (b0, b1, b2, b3).
Proof. destruct b0, b1, b2, b3; reflexivity. Qed.

Lemma unhex2_hex2 a X : exists c1 c2, (hex2 a ++ X) = String c1 (String c2 X) /\ unhex2 c1 c2 = Some a.
Proof.
  destruct a as [b0 b1 b2 b3 b4 b5 b6 b7]. exists (nibc b4 b5 b6 b7), (nibc b0 b1 b2 b3). split; [reflexivity|].
  unfold unhex2. now rewrite !unnib_nibc.
Qed.

Lemma read_u_esc h l X : read_u ((hex2 h ++ hex2 l) ++ X) = Some (h, l, X).
Proof.
  rewrite OutputStr.app_assoc.
  destruct (unhex2_hex2 h (hex2 l ++ X)) as (c1 & c2 & E1 & U1). destruct (unhex2_hex2 l X) as (c3 & c4 & E2 & U2).
  rewrite E1, E2. cbn [read_u]. now rewrite U1, U2.
Qed.

Lemma esc_u_app h l X : esc_u h l ++ X = String bsl (String "u"%char ((hex2 h ++ hex2 l) ++ X)).
Proof. reflexivity. Qed.

(* reading one \uXXXX *)
Lemma read_chunk_single h l b X : is_high h = false -> unit_bytes h l = Some b -> read_chunk (esc_u h l ++ X) = Some (b, X).
Proof.
  intros Hh Hb. rewrite esc_u_app. unfold read_chunk. change (Ascii.eqb bsl bsl) with true. change (Ascii.eqb "u"%char "u"%char) with true.
  cbv iota. rewrite read_u_esc, Hh, Hb. reflexivity.
Qed.

Lemma read_chunk_pair h1 l1 h2 l2 X : is_high h1 = true -> is_low h2 = true ->
  read_chunk ((esc_u h1 l1 ++ esc_u h2 l2) ++ X) = Some (pair_bytes h1 l1 h2 l2, X).
Proof.
  intros H1 H2. rewrite OutputStr.app_assoc, esc_u_app. unfold read_chunk. change (Ascii.eqb bsl bsl) with true. change (Ascii.eqb "u"%char "u"%char) with true.
  cbv iota. rewrite read_u_esc, H1. rewrite esc_u_app. change (Ascii.eqb bsl bsl) with true. change (Ascii.eqb "u"%char "u"%char) with true.
  cbn [andb]. cbv iota. rewrite read_u_esc, H2. reflexivity.
Qed.

Definition bit7 (a : ascii) : bool := match a with Ascii _ _ _ _ _ _ _ b => b end.

Lemma read_chunk_ascii a X : bit7 a = false -> read_chunk (esc_ascii a ++ X) = Some (String a EmptyString, X).
Proof.
  destruct a as [b0 b1 b2 b3 b4 b5 b6 b7]. cbn [bit7]. intros ->.
  destruct b0, b1, b2, b3, b4, b5, b6; reflexivity.
Qed.

Lemma lone_bytes a : bit7 a = true -> is_high xDC = false /\ unit_bytes xDC a = Some (String a EmptyString).
Proof. destruct a as [b0 b1 b2 b3 b4 b5 b6 b7]. cbn [bit7]. intros ->. split; reflexivity. Qed.

(* ------------------------------------------------------------------ the code points of a byte string *)
Definition chunk_spec (s : string) (c : chunk) (r : string) : Prop :=
  match c with
  | CAscii a => s = String a r /\ bit7 a = false
  | CUnit h l => is_high h = false /\ exists b, unit_bytes h l = Some b /\ s = b ++ r
  | CPair h1 l1 h2 l2 => is_high h1 = true /\ is_low h2 = true /\ s = pair_bytes h1 l1 h2 l2 ++ r
  | CLone a => s = String a r /\ bit7 a = true
  end.

Ltac split_hyp H :=
  repeat (match type of H with
          | context [cont ?x] => is_var x; destruct x
          | context [match ?x with _ => _ end] => is_var x; destruct x
          | context [if ?x then _ else _] => is_var x; destruct x
          | context [andb ?x _] => is_var x; destruct x
          | context [orb ?x _] => is_var x; destruct x
          | context [negb ?x] => is_var x; destruct x
          | context [xorb ?x _] => is_var x; destruct x
          end; cbn in H; try discriminate H).
Ltac split_goal :=
  repeat (cbn; match goal with
               | |- context [match ?x with _ => _ end] => is_var x; destruct x
               | |- context [if ?x then _ else _] => is_var x; destruct x
               | |- context [andb ?x _] => is_var x; destruct x
               | |- context [orb ?x _] => is_var x; destruct x
               | |- context [negb ?x] => is_var x; destruct x
               | |- context [xorb ?x _] => is_var x; destruct x
               end).

Lemma next_chunk_spec s c r : next_chunk s = Some (c, r) -> chunk_spec s c r.
Proof.
  intros H. unfold next_chunk in H. split_hyp H;
    injection H as <- <-; unfold chunk_spec; split_goal;
    repeat match goal with |- _ /\ _ => split | |- exists _, _ => eexists end; reflexivity.
Qed.

Ltac split_goal' :=
  repeat (cbn; match goal with
               | |- context [cont ?x] => is_var x; destruct x
               | |- context [match ?x with _ => _ end] => is_var x; destruct x
               | |- context [if ?x then _ else _] => is_var x; destruct x
               | |- context [andb ?x _] => is_var x; destruct x
               | |- context [orb ?x _] => is_var x; destruct x
               | |- context [negb ?x] => is_var x; destruct x
               | |- context [xorb ?x _] => is_var x; destruct x
               end).

Lemma next_chunk_some a r : exists c r', next_chunk (String a r) = Some (c, r').
Proof. unfold next_chunk. split_goal'; eexists; eexists; reflexivity. Qed.

Lemma unit_bytes_len h l b : unit_bytes h l = Some b -> (1 <= String.length b <= 3)%nat.
Proof.
  destruct h as [h0 h1 h2 h3 h4 h5 h6 h7], l as [l0 l1 l2 l3 l4 l5 l6 l7]. unfold unit_bytes.
  repeat match goal with |- context [if ?x then _ else _] => destruct x end; intros E; try discriminate E;
    injection E as <-; cbn [String.length]; lia.
Qed.

Lemma pair_bytes_len h1 l1 h2 l2 : String.length (pair_bytes h1 l1 h2 l2) = 4%nat.
Proof.
  destruct h1, l1, h2, l2. unfold pair_bytes. match goal with |- context [inc4 ?a ?b ?c ?d] => destruct (inc4 a b c d) as [[[[? ?] ?] ?] ?] end.
  reflexivity.
Qed.

Lemma esc_u_len h l : String.length (esc_u h l) = 6%nat.
Proof. destruct h, l. reflexivity. Qed.

Lemma esc_chunk_head c : exists a t, esc_chunk c = String a t /\ Ascii.eqb a dq = false.
Proof.
  destruct c as [a|h l|h1 l1 h2 l2|a]; try (eexists; eexists; split; reflexivity).
  destruct a as [b0 b1 b2 b3 b4 b5 b6 b7]. destruct b0, b1, b2, b3, b4, b5, b6, b7; eexists; eexists; split; reflexivity.
Qed.

Lemma next_chunk_shorter s c r : next_chunk s = Some (c, r) -> (String.length r < String.length s)%nat.
Proof.
  intros H. apply next_chunk_spec in H. destruct c; cbn [chunk_spec] in H.
  - destruct H as [-> _]. cbn [String.length]. lia.
  - destruct H as (_ & b & Hb & ->). apply unit_bytes_len in Hb. rewrite length_app. lia.
  - destruct H as (_ & _ & ->). rewrite length_app, pair_bytes_len. lia.
  - destruct H as [-> _]. cbn [String.length]. lia.
Qed.

(* the reader undoes the escaper, one code point at a time *)
Lemma chunk_read s c r X : next_chunk s = Some (c, r) -> exists b, read_chunk (esc_chunk c ++ X) = Some (b, X) /\ s = b ++ r.
Proof.
  intros H. apply next_chunk_spec in H. destruct c; cbn [chunk_spec esc_chunk] in *.
  - destruct H as [-> Ha]. exists (String a EmptyString). split; [now apply read_chunk_ascii|reflexivity].
  - destruct H as (Hh & b & Hb & ->). exists b. split; [now apply read_chunk_single|reflexivity].
  - destruct H as (H1 & H2 & ->). eexists. split; [now apply read_chunk_pair|reflexivity].
  - destruct H as [-> Ha]. destruct (lone_bytes a Ha) as [L1 L2]. exists (String a EmptyString). split; [now apply read_chunk_single|reflexivity].
Qed.

Lemma chunk_len s c r : next_chunk s = Some (c, r) -> (String.length s <= String.length (esc_chunk c) + String.length r)%nat.
Proof.
  intros H. apply next_chunk_spec in H. destruct (esc_chunk_head c) as (a0 & t & Ec & _). destruct c; cbn [chunk_spec] in H.
  - destruct H as [-> _]. rewrite Ec. cbn [String.length]. lia.
  - destruct H as (_ & b & Hb & ->). apply unit_bytes_len in Hb. cbn [esc_chunk]. rewrite length_app, esc_u_len. lia.
  - destruct H as (_ & _ & ->). cbn [esc_chunk]. rewrite !length_app, pair_bytes_len, !esc_u_len. lia.
  - destruct H as [-> _]. cbn [esc_chunk]. rewrite esc_u_len. cbn [String.length]. lia.
Qed.

Lemma esc_go_len n : forall s, (String.length s <= n)%nat -> (String.length s <= String.length (esc_go n s))%nat.
Proof.
  induction n as [|n IH]; intros s Hn; [destruct s; [cbn; lia|cbn in Hn; lia]|].
  destruct s as [|a s']; [cbn; lia|]. destruct (next_chunk_some a s') as (c & r & E). cbn [esc_go]. rewrite E.
  pose proof (chunk_len _ _ _ E) as H1. pose proof (next_chunk_shorter _ _ _ E) as H2. rewrite length_app.
  assert (String.length r <= n)%nat as Hr by (cbn [String.length] in *; lia). specialize (IH r Hr). lia.
Qed.

Lemma read_str_step f s a t b r' : s = String a t -> Ascii.eqb a dq = false -> read_chunk s = Some (b, r') ->
  read_str (S f) s = match read_str f r' with Some (bs, r'') => Some (b ++ bs, r'') | None => None end.
Proof. intros -> Hq Hr. cbn [read_str]. now rewrite Hq, Hr. Qed.

Theorem read_str_esc n : forall s X fuel, (String.length s <= n)%nat -> (String.length s < fuel)%nat ->
  read_str fuel (esc_go n s ++ String dq X) = Some (s, X).
Proof.
  induction n as [|n IH]; intros s X fuel Hn Hf.
  - destruct s; [|cbn in Hn; lia]. destruct fuel; [lia|]. reflexivity.
  - destruct s as [|a s'].
    + destruct fuel; [lia|]. reflexivity.
    + destruct (next_chunk_some a s') as (c & r & E). cbn [esc_go]. rewrite E.
      destruct (chunk_read _ _ _ (esc_go n r ++ String dq X) E) as (b & Hr & Hs).
      pose proof (next_chunk_shorter _ _ _ E) as Hlen.
      destruct fuel as [|f]; [lia|].
      rewrite OutputStr.app_assoc.
      destruct (esc_chunk_head c) as (a0 & t & Ec & Hq).
      rewrite (read_str_step f (esc_chunk c ++ esc_go n r ++ String dq X) a0 (t ++ esc_go n r ++ String dq X) b (esc_go n r ++ String dq X)); [|now rewrite Ec|exact Hq|exact Hr].
      rewrite IH; [now rewrite Hs| |]; cbn [String.length] in *; lia.
Qed.

(* json.dumps of a str, then the reader: the str, for EVERY byte string (lone surrogates of surrogateescape included) *)
Theorem json_quote_read s X : exists r, json_quote s ++ X = String dq r /\ read_str (S (String.length r)) r = Some (s, X).
Proof.
  exists (esc_go (String.length s) s ++ String dq X). split.
  - unfold json_quote. cbn [append]. now rewrite OutputStr.app_assoc.
  - apply read_str_esc; [lia|]. rewrite length_app. pose proof (esc_go_len (String.length s) s (le_n _)). cbn [String.length]. lia.
Qed.

(* ------------------------------------------------------------------ ASCII *)
Lemma ascii_bytes_app a b : ascii_bytes (a ++ b) = ascii_bytes a && ascii_bytes b.
Proof. induction a as [|x a IH]; [reflexivity|]. destruct x. cbn [append ascii_bytes]. now rewrite IH, andb_assoc. Qed.

Lemma hex2_ascii a : ascii_bytes (hex2 a) = true.
Proof. destruct a as [b0 b1 b2 b3 b4 b5 b6 b7]. destruct b0, b1, b2, b3, b4, b5, b6, b7; reflexivity. Qed.

Lemma esc_u_ascii h l : ascii_bytes (esc_u h l) = true.
Proof. unfold esc_u. cbn [ascii_bytes bsl]. cbn. now rewrite ascii_bytes_app, !hex2_ascii. Qed.

Lemma esc_chunk_ascii c : ascii_bytes (esc_chunk c) = true.
Proof.
  destruct c as [a|h l|h1 l1 h2 l2|a]; cbn [esc_chunk]; try apply esc_u_ascii.
  - destruct a as [b0 b1 b2 b3 b4 b5 b6 b7]. destruct b0, b1, b2, b3, b4, b5, b6, b7; reflexivity.
  - now rewrite ascii_bytes_app, !esc_u_ascii.
Qed.

Lemma esc_go_ascii n : forall s, ascii_bytes (esc_go n s) = true.
Proof.
  induction n as [|n IH]; intros s; [reflexivity|]. cbn [esc_go]. destruct (next_chunk s) as [[c r]|]; [|reflexivity].
  now rewrite ascii_bytes_app, esc_chunk_ascii, IH.
Qed.

Theorem json_quote_ascii s : ascii_bytes (json_quote s) = true.
Proof. unfold json_quote. cbn [ascii_bytes dq]. cbn. now rewrite ascii_bytes_app, esc_go_ascii. Qed.

Lemma bit7_is_ascii a : bit7 a = false -> is_ascii a = true.
Proof. destruct a as [b0 b1 b2 b3 b4 b5 b6 b7]. cbn [bit7]. intros ->. destruct b0, b1, b2, b3, b4, b5, b6; reflexivity. Qed.

Lemma ascii_bytes_only s : ascii_bytes s = true -> ascii_only s = true.
Proof.
  induction s as [|a s IH]; [reflexivity|]. destruct a as [b0 b1 b2 b3 b4 b5 b6 b7]. cbn [ascii_bytes ascii_only]. intros H.
  apply andb_true_iff in H as [H1 H2]. rewrite IH by exact H2. rewrite bit7_is_ascii; [reflexivity|]. cbn [bit7]. now destruct b7.
Qed.

Theorem ascii_bytes_utf8 s : ascii_bytes s = true -> utf8_valid s = true.
Proof. intros H. now apply ascii_valid, ascii_bytes_only. Qed.

(* ================================================================== documents *)
Fixpoint json_ind' (P : json -> Prop) (Hnull : P JNull) (Hbool : forall b, P (JBool b)) (Hnum : forall z, P (JNum z))
         (Hstr : forall s, P (JStr s)) (Harr : forall l, Forall P l -> P (JArr l))
         (Hobj : forall l, Forall (fun kv => P (snd kv)) l -> P (JObj l)) (j : json) {struct j} : P j :=
  match j with
  | JNull => Hnull
  | JBool b => Hbool b
  | JNum z => Hnum z
  | JStr s => Hstr s
  | JArr l => Harr l ((fix go (l : list json) : Forall P l :=
                         match l with
                         | [] => Forall_nil P
                         | x :: r => Forall_cons x (json_ind' P Hnull Hbool Hnum Hstr Harr Hobj x) (go r)
                         end) l)
  | JObj l => Hobj l ((fix go (l : list (string * json)) : Forall (fun kv => P (snd kv)) l :=
                         match l with
                         | [] => Forall_nil _
                         | kv :: r => Forall_cons kv (match kv as kv0 return P (snd kv0) with
                                                      | (k, x) => json_ind' P Hnull Hbool Hnum Hstr Harr Hobj x
                                                      end) (go r)
                         end) l)
  end.

(* ---------- the layout of arrays and objects as top-level functions ---------- *)
Fixpoint atail (lvl : nat) (l : list json) : string :=
  match l with
  | [] => EmptyString
  | y :: r => json_dumps_item_sep ++ ind (S lvl) ++ dumps_at (S lvl) y ++ atail lvl r
  end.
Fixpoint mtail (lvl : nat) (l : list (string * json)) : string :=
  match l with
  | [] => EmptyString
  | (k, y) :: r => json_dumps_item_sep ++ ind (S lvl) ++ json_quote k ++ json_dumps_key_sep ++ dumps_at (S lvl) y ++ mtail lvl r
  end.

Lemma dumps_arr lvl x r :
  dumps_at lvl (JArr (x :: r)) = String "["%char (ind (S lvl) ++ dumps_at (S lvl) x ++ atail lvl r ++ ind lvl ++ "]").
Proof.
  cbn [dumps_at]. change ("[" ++ ?X) with (String "["%char X). do 4 f_equal.
  induction r as [|y r IH]; [reflexivity|]. cbn [atail]. now rewrite <- IH.
Qed.

Lemma dumps_obj lvl k x r :
  dumps_at lvl (JObj ((k, x) :: r)) =
  String "{"%char (ind (S lvl) ++ json_quote k ++ json_dumps_key_sep ++ dumps_at (S lvl) x ++ mtail lvl r ++ ind lvl ++ "}").
Proof.
  cbn [dumps_at]. change ("{" ++ ?X) with (String "{"%char X). do 6 f_equal.
  induction r as [|[k' y] r IH]; [reflexivity|]. cbn [mtail]. now rewrite <- IH.
Qed.

(* ---------- ASCII ---------- *)
Fixpoint all_num (s : string) : bool := match s with EmptyString => true | String a r => num_char a && all_num r end.

Lemma only_digits_all_num s : only_digits s = true -> all_num s = true.
Proof.
  induction s as [|a s IH]; [reflexivity|]. cbn [only_digits all_num]. intros H. apply andb_true_iff in H as [H1 H2].
  unfold num_char. now rewrite H1, IH.
Qed.

Lemma show_Z_all_num z : all_num (show_Z z) = true.
Proof.
  destruct z as [|p|p]; [reflexivity| |].
  - destruct (show_Z_nonneg (Zpos p)) as (d & _ & -> & _); [lia|]. apply only_digits_all_num, only_digits_uint.
  - rewrite show_Z_neg. cbn [all_num]. destruct (show_Z_nonneg (Zpos p)) as (d & _ & -> & _); [lia|].
    now rewrite only_digits_all_num by apply only_digits_uint.
Qed.

Lemma show_Z_head z : exists c t, show_Z z = String c t /\ num_char c = true.
Proof.
  pose proof (show_Z_all_num z) as H. destruct z as [|p|p].
  - eexists; eexists; split; reflexivity.
  - destruct (show_Z_pos_first p) as (a & r & E & _). rewrite E in *. exists a, r. split; [reflexivity|].
    cbn [all_num] in H. now apply andb_true_iff in H as [H _].
  - rewrite show_Z_neg. eexists; eexists; split; reflexivity.
Qed.

Lemma num_char_bit7 a : num_char a = true -> bit7 a = false.
Proof. destruct a as [b0 b1 b2 b3 b4 b5 b6 b7]. destruct b7; [|reflexivity]. destruct b0, b1, b2, b3, b4, b5, b6; intros H; discriminate H. Qed.

Lemma all_num_ascii s : all_num s = true -> ascii_bytes s = true.
Proof.
  induction s as [|a s IH]; [reflexivity|]. cbn [all_num]. intros H. apply andb_true_iff in H as [H1 H2].
  apply num_char_bit7 in H1. destruct a. cbn [bit7] in H1. subst. cbn [ascii_bytes]. now rewrite IH.
Qed.

Lemma spaces_ascii n : ascii_bytes (spaces n) = true.
Proof. induction n; [reflexivity|]. cbn [spaces]. unfold sp. cbn. exact IHn. Qed.

Lemma ind_ascii lvl : ascii_bytes (ind lvl) = true.
Proof. unfold ind. unfold nl. cbn. apply spaces_ascii. Qed.

Lemma seps_ascii : ascii_bytes json_dumps_item_sep = true /\ ascii_bytes json_dumps_key_sep = true.
Proof. split; reflexivity. Qed.

Theorem dumps_ascii j : forall lvl, ascii_bytes (dumps_at lvl j) = true.
Proof.
  destruct seps_ascii as [Si Sk].
  induction j using json_ind'; intros lvl; try reflexivity.
  - destruct b; reflexivity.
  - apply all_num_ascii, show_Z_all_num.
  - apply json_quote_ascii.
  - destruct l as [|x r]; [reflexivity|]. rewrite dumps_arr. inversion H as [|? ? Hx Hr]; subst.
    change (ascii_bytes (String "["%char ?X)) with (ascii_bytes X). rewrite !ascii_bytes_app, !ind_ascii, Hx.
    assert (T : ascii_bytes (atail lvl r) = true).
    { clear Hx H. induction Hr as [|y r Hy _ IH]; [reflexivity|]. cbn [atail]. now rewrite !ascii_bytes_app, Si, ind_ascii, Hy, IH. }
    now rewrite T.
  - destruct l as [|[k x] r]; [reflexivity|]. rewrite dumps_obj. inversion H as [|? ? Hx Hr]; subst. cbn [snd] in Hx.
    change (ascii_bytes (String "{"%char ?X)) with (ascii_bytes X). rewrite !ascii_bytes_app, !ind_ascii, json_quote_ascii, Sk, Hx.
    assert (T : ascii_bytes (mtail lvl r) = true).
    { clear Hx H. induction Hr as [|[k' y] r Hy _ IH]; [reflexivity|]. cbn [mtail snd] in *.
      now rewrite !ascii_bytes_app, Si, ind_ascii, json_quote_ascii, Sk, Hy, IH. }
    now rewrite T.
Qed.

(* stdout of the JSON and SARIF renderings is ASCII, hence well-formed UTF-8 whatever the encoding of stdout *)
Theorem stdout_ascii j : ascii_bytes (stdout_of j) = true.
Proof. unfold stdout_of, dumps. now rewrite ascii_bytes_app, dumps_ascii. Qed.

Theorem stdout_utf8 j : utf8_valid (stdout_of j) = true.
Proof. apply ascii_bytes_utf8, stdout_ascii. Qed.
