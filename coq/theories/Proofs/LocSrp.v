(* Proofs/LocSrp.v — C12 for the SRP model (Model/Srp.v): every violation the model emits, for any quirk
   vector, configuration and file, carries the recorded header position (line of the `class` / `struct`
   keyword, its column) of a class / struct of the file, and its message quotes that unit's name. *)
From TL Require Import Lib.Base Lib.GenTypes Model.SrpTypes Gen.SrpGen Model.SrpSpec Model.Srp Proofs.SrpEval.

Lemma spec_unit_rep_at name line col mm ml check mc loc kw r :
  In r (spec_unit_rep name line col mm ml check mc loc kw) -> exists issues, r = (line, col, spec_message name issues).
Proof.
  unfold spec_unit_rep. destruct (spec_issues mm ml check mc loc kw) as [|i is]; [intros []|].
  intros [<-|[]]. now exists (i :: is).
Qed.

(* the unit a report belongs to: header line, header column, quoted name *)
Definition at_unit (line col : nat) (name : string) (r : rep) : Prop := exists issues, r = (line, col, spec_message name issues).

Definition lines_one_based (f : sfile) : Prop :=
  (forall c, In c (f_classes f) -> 1 <= c_line c) /\ (forall s, In s (f_structs f) -> 1 <= s_line s).

Lemma py_report_at q cfg f r : In r (py_report q cfg f) -> exists c, In c (f_classes f) /\ at_unit (c_line c) (c_col c) (c_name c) r.
Proof.
  unfold py_report. intros H. apply in_flat_map in H. destruct H as [c [Hc Hr]].
  apply filter_In in Hc. destruct Hc as [Hc _]. exists c. split; [exact Hc|].
  unfold py_class_rep in Hr. rewrite class_rep_py in Hr. now apply spec_unit_rep_at in Hr.
Qed.

Lemma ts_report_at q cfg f r : lines_one_based f -> In r (ts_report q cfg f) ->
  exists c, In c (f_classes f) /\ at_unit (c_line c) (c_col c) (ts_class_name c) r.
Proof.
  intros [L _]. unfold ts_report. intros H. apply in_flat_map in H. destruct H as [c [Hc Hr]].
  apply filter_In in Hc. destruct Hc as [Hc _]. exists c. split; [exact Hc|].
  unfold ts_class_rep in Hr. rewrite class_rep_ts in Hr. apply spec_unit_rep_at in Hr.
  specialize (L c Hc). now replace (c_line c - 1 + 1) with (c_line c) in Hr by lia.
Qed.

Lemma rs_report_at q cfg f r : lines_one_based f -> In r (rs_report q cfg f) ->
  exists s, In s (f_structs f) /\ at_unit (s_line s) (s_col s) (rs_struct_name s) r.
Proof.
  intros [_ L]. unfold rs_report. intros H. apply in_flat_map in H. destruct H as [s [Hs Hr]].
  apply filter_In in Hs. destruct Hs as [Hs _]. exists s. split; [exact Hs|].
  unfold rs_struct_rep in Hr. rewrite class_rep_rs in Hr. apply spec_unit_rep_at in Hr.
  specialize (L s Hs). now replace (s_line s - 1 + 1) with (s_line s) in Hr by lia.
Qed.

Theorem srp_location_recorded q c f r : lines_one_based f -> In r (report q c f) ->
  (exists cl, In cl (f_classes f) /\ (at_unit (c_line cl) (c_col cl) (c_name cl) r \/ at_unit (c_line cl) (c_col cl) (ts_class_name cl) r))
  \/ (exists st, In st (f_structs f) /\ at_unit (s_line st) (s_col st) (rs_struct_name st) r).
Proof.
  intros L. unfold report, report_sec.
  destruct (lookup (f_ext f) srp_ext_lang) as [lname|]; [|intros []].
  destruct (lookup lname srp_dispatch) as [h|]; [|intros []].
  unfold report_conf. destruct (negb _); [intros []|].
  destruct (String.eqb h "python").
  { intros H. left. destruct (py_report_at _ _ _ _ H) as [cl [Hc Hat]]. exists cl. auto. }
  destruct (String.eqb h "typescript").
  { intros H. left. destruct (ts_report_at _ _ _ _ L H) as [cl [Hc Hat]]. exists cl. auto. }
  destruct (String.eqb h "rust"); [|intros []].
  intros H. right. destruct (rs_report_at _ _ _ _ L H) as [st [Hs Hat]]. exists st. auto.
Qed.

(* the quoted name is the recorded name when the grammar's name node types are the expected ones (generated facts) *)
Lemma names_are_source_names : (forall c, ts_class_name c = c_name c) /\ (forall s, rs_struct_name s = s_name s).
Proof. split; intros; reflexivity. Qed.

(* the conversion inside the metrics dictionaries: Python passes lineno on, Rust adds 1 to the row of the struct node,
   TypeScript adds 1 to the row of the `class` / `abstract` keyword child of the class node (since 147bf8d: decorators
   precede the keyword inside the node) *)
Lemma srp_line_tags :
  lookup "line" py_metrics_dict = Some (TLine 0) /\ lookup "line" ts_metrics_dict = Some (THLine 1) /\ lookup "line" rs_metrics_dict = Some (TLine 1)
  /\ srp_position_keys = ("line", "column").
Proof. repeat split; reflexivity. Qed.
