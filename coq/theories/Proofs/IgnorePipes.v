(* Proofs/IgnorePipes.v — the per-linter pipeline table claimed in Actual/IgnoreActual.v agrees with the generated list of
   linter packages that reference the shared parser. *)
From TL Require Import Lib.Base Gen.IgnoreGen Model.PyStr Model.Ignore Actual.IgnoreActual.

Lemma pipeline_table_consistent :
  forallb (fun p => smem p linter_packages && negb (smem p shared_parser_users)) (no_inline_support ++ own_line_check_only) = true
  /\ forallb (fun p => smem p shared_parser_users) ["magic_numbers"; "print_statements"; "nesting"; "srp"; "performance"; "collection_pipeline"; "stateless_class"] = true
  /\ forallb (fun p => uses_shared (pipeline_of p "py") && uses_shared (pipeline_of p "ts") && uses_shared (pipeline_of p "rs"))
             ["magic_numbers"; "print_statements"; "nesting"; "srp"; "performance"; "collection_pipeline"; "stateless_class"] = true
  /\ forallb (fun p => negb (uses_shared (pipeline_of p "py"))) (no_inline_support ++ own_line_check_only) = true.
Proof. vm_compute. repeat split; reflexivity. Qed.
