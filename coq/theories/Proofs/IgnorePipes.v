(* Proofs/IgnorePipes.v — the per-linter pipelines claimed in Actual/IgnoreActual.v:
   (1) the table agrees with the generated list of linter packages that reference the shared parser;
   (2) a linter whose pipeline is the shared parser alone (nesting, srp, performance, dry, stringly-typed) suppresses exactly what
       the specification says, on every file of the domain;
   (3) file-header: violations found in an existing header are suppressed exactly as the specification says (the linter's own
       file-level test and its custom needles add nothing on files of the domain); the "no header at all" violation honours the
       file-level directives and nothing else;
   (4) magic-numbers and print-statements in files with `#` comments (shared parser, then their generic same-line test or `# noqa`):
       exactly the specification on every file of the domain that does not contain the word "noqa";
   (5) collection-pipeline and stateless-class (shared parser, plus their own file-level and same-line tests over the lowered text):
       exactly the specification on every file of the domain;
   (6) magic-numbers and print-statements in files with `//` comments: exactly the specification on noqa-free files of the domain, for
       the rules their own bracket needle names; method-property's own line test: any same-line directive, whatever it names. *)
From TL Require Import Lib.Base Lib.GenTypes Gen.IgnoreGen Model.PyStr Model.Ignore Model.IgnoreSpec Actual.IgnoreActual
     Proofs.IgnoreStr Proofs.IgnoreStr2 Proofs.IgnoreLines Proofs.IgnoreFeat Proofs.IgnoreFeat2 Proofs.IgnoreMain Proofs.IgnoreRules.

From TL Require Model.IgnorePat Actual.IgnorePatActual.

(* which matcher kind the generated table Gen.linter_matchers assigns to each linter of the pattern stream *)
Lemma linter_matcher_kinds :
  forallb (fun p => match IgnorePatActual.matcher_of p with IgnorePat.MPathOrSub => true | _ => false end)
          ["magic_numbers"; "print_statements"; "method_property"; "collection_pipeline"] = true
  /\ forallb (fun p => match IgnorePatActual.matcher_of p with IgnorePat.MSub => true | _ => false end)
             ["srp"; "unwrap_abuse"; "clone_abuse"; "blocking_async"] = true
  /\ forallb (fun p => match IgnorePatActual.matcher_of p with IgnorePat.MNever => true | _ => false end)
             ["nesting"; "performance"; "lbyl"; "stateless_class"] = true.
Proof. vm_compute. repeat split; reflexivity. Qed.

Lemma pipeline_table_consistent :
  forallb (fun p => smem p linter_packages && negb (smem p shared_parser_users)) (no_inline_support ++ own_line_check_only) = true
  /\ forallb (fun p => smem p shared_parser_users) ["magic_numbers"; "print_statements"; "nesting"; "srp"; "performance"; "collection_pipeline"; "stateless_class"] = true
  /\ forallb (fun p => uses_shared (pipeline_of p "py") && uses_shared (pipeline_of p "ts") && uses_shared (pipeline_of p "rs"))
             ["magic_numbers"; "print_statements"; "nesting"; "srp"; "performance"; "collection_pipeline"; "stateless_class"] = true
  /\ forallb (fun p => negb (uses_shared (pipeline_of p "py"))) (no_inline_support ++ own_line_check_only) = true.
Proof. vm_compute. repeat split; reflexivity. Qed.

(* ---------- (2) shared parser only ---------- *)
Lemma suppressed_shared q content v r : suppressed q PShared content v r = should_ignore q false content v r.
Proof. unfold suppressed, suppressed_pre, should_ignore, should_ignore_lines. cbn [uses_shared extra_check andb orb]. apply orb_false_r. Qed.

Theorem shared_pipeline_exact q a v r :
  file_ok a = true -> target_ok a v = true -> nonempty r = true -> avoids q a = true ->
  suppressed q PShared (render a) v r = spec false a v r.
Proof. intros H T Hr A. rewrite suppressed_shared. now apply should_ignore_exact. Qed.

(* the table: these packages are on the shared parser alone, whatever the language; all of them reference the shared parser in
   the source; the two cross-file linters whose violation filters the translator shape-checks are among them *)
Lemma shared_only_table :
  forallb (fun p => smem p shared_parser_users) shared_only = true
  /\ forallb (fun p => smem p shared_only) xfile_shared_filters = true.
Proof. vm_compute. split; reflexivity. Qed.

Lemma shared_only_pipeline pkg lang : In pkg shared_only -> pipeline_of pkg lang = PShared.
Proof.
  unfold shared_only. cbn [In]. intros [E|[E|[E|[E|[E|[]]]]]]; subst pkg; reflexivity.
Qed.

Theorem shared_only_linters_exact q pkg lang a v r : In pkg shared_only ->
  file_ok a = true -> target_ok a v = true -> nonempty r = true -> avoids q a = true ->
  suppressed q (pipeline_of pkg lang) (render a) v r = spec false a v r.
Proof. intros Hin. rewrite (shared_only_pipeline pkg lang Hin). apply shared_pipeline_exact. Qed.

(* ---------- (3) file-header ---------- *)
(* the single occurrence, seen from the left: a needle x ++ k ++ y can only sit where x ends the text before the key word *)
Lemma unique_occ_at k y q : forall p x, count_occ k (p ++ k ++ q) = 1 ->
  prefixb (x ++ k ++ y) (p ++ k ++ q) = true -> p = x.
Proof.
  induction p as [|c p IH]; intros x Hc H.
  - destruct x as [|d x]; [reflexivity|]. exfalso. cbn [append] in *.
    assert (Htail : match (k ++ q)%string with EmptyString => 0 | String _ r => count_occ k r end = 0).
    { rewrite count_occ_unfold in Hc. rewrite prefixb_app in Hc. lia. }
    cbn [prefixb] in H. destruct (k ++ q)%string as [|e r] eqn:E; [discriminate|].
    apply andb_true_iff in H as [_ H]. apply prefixb_sub in H. apply contains_count_pos in H. lia.
  - cbn [append] in *. rewrite count_occ_unfold in Hc.
    assert (Hpos : 1 <= count_occ k (p ++ k ++ q)) by (apply contains_count_pos, containsb_mid).
    destruct (prefixb k (String c (p ++ k ++ q))) eqn:Ep; [lia|]. cbn [plus] in Hc.
    destruct x as [|d x].
    + cbn [append] in H. apply (prefixb_app_inv k y) in H. congruence.
    + cbn [append prefixb] in H. apply andb_true_iff in H as [E H]. apply Ascii.eqb_eq in E. subst d. f_equal. now apply IH.
Qed.

Lemma unique_occ_prefix k y q : forall p x, count_occ k (p ++ k ++ q) = 1 ->
  containsb (x ++ k ++ y) (p ++ k ++ q) = true -> exists p0, p = (p0 ++ x)%string.
Proof.
  induction p as [|c p IH]; intros x Hc H.
  - rewrite containsb_unfold in H. apply orb_true_iff in H as [H|H].
    + exists EmptyString. cbn [append]. exact (unique_occ_at k y q EmptyString x Hc H).
    + exfalso. cbn [append] in *.
      assert (Htail : match (k ++ q)%string with EmptyString => 0 | String _ r => count_occ k r end = 0).
      { rewrite count_occ_unfold in Hc. rewrite prefixb_app in Hc. lia. }
      destruct (k ++ q)%string as [|e r] eqn:E; [discriminate|].
      apply containsb_sub in H. apply contains_count_pos in H. lia.
  - rewrite containsb_unfold in H. apply orb_true_iff in H as [H|H].
    + exists EmptyString. cbn [append]. exact (unique_occ_at k y q (String c p) x Hc H).
    + cbn [append] in H, Hc. rewrite count_occ_unfold in Hc.
      assert (Hpos : 1 <= count_occ k (p ++ k ++ q)) by (apply contains_count_pos, containsb_mid).
      destruct (prefixb k (String c (p ++ k ++ q))) eqn:Ep; [lia|]. cbn [plus] in Hc.
      destruct (IH x Hc H) as [p0 E]. exists (String c p0). cbn [append]. now rewrite E.
Qed.

(* a needle x ++ "ignore" ++ y is absent from a directive line unless x ends the text before its key word *)
Lemma needle_absent_pre l x y : line_ok l = true -> directive l = true ->
  suffixb x (lower (pre_of l)) = false -> containsb (x ++ K ++ y) (lower (render_line l)) = false.
Proof.
  intros H D Hx. rewrite (lower_render l D).
  destruct (containsb (x ++ K ++ y) (lower (pre_of l) ++ K ++ lower (post_of l))) eqn:E; [|reflexivity].
  apply unique_occ_prefix in E; [|now apply once]. destruct E as [p0 E]. rewrite E, suffixb_app in Hx. discriminate.
Qed.

(* the text before the key word of a rendered directive ends with "thailint: ", never with "thailint-" *)
Lemma pre_no_dash l : line_ok l = true -> directive l = true -> suffixb "# thailint-" (lower (pre_of l)) = false.
Proof.
  intros H D. rewrite (lower_pre l H).
  destruct l as [c|c st n|ind st n|ind st br n|ind st|st n]; try discriminate; unfold suffixb, tagged;
    rewrite ?srev_app_distr; destruct st; reflexivity.
Qed.

(* none of file-header's custom needles occurs on a line of the domain *)
Lemma fh_custom_absent l y : line_ok l = true -> containsb ("# thailint-" ++ K ++ y) (lower (render_line l)) = false.
Proof.
  intro H. destruct (directive l) eqn:D.
  - apply needle_absent_pre; [exact H|exact D|now apply pre_no_dash].
  - destruct l; try discriminate. cbn [line_ok] in H. unfold code_ok in H. apply andb_true_iff in H as [Hk _].
    cbn [render_line]. now apply plain_no_needle.
Qed.

Lemma fh_needles_keyed :
  nth_str 0 fh_needles = ("# thailint-" ++ K ++ "-file:")%string /\ nth_str 1 fh_needles = ("# thailint-" ++ K ++ "")%string
  /\ nth_str 2 fh_needles = ("# thailint-" ++ K ++ "-line:")%string.
Proof. repeat split; reflexivity. Qed.

Lemma general_ignore_named st t : check_general_ignore (render_line (LFile st (Names t))) = false.
Proof.
  unfold check_general_ignore. change general_ignore_needle with "ignore-file[". apply negb_false_iff.
  cbn [render_line names_br]. apply containsb_app_r.
  change (" thailint: ignore-file" ++ "[" ++ t ++ "]")%string with (" thailint: " ++ "ignore-file[" ++ (t ++ "]"))%string.
  apply containsb_mid.
Qed.

(* FileHeaderRule's file-level test on one line of the domain: a file-level directive naming the rule, nothing else *)
Lemma fh_line_feature q l r : line_ok l = true -> nonempty r = true ->
  fh_file_line q fh_needles (render_line l) r = match l with LFile _ n => named (bracket_rules n) r | _ => false end.
Proof.
  intros H Hr. unfold fh_file_line. destruct fh_needles_keyed as (E0 & E1 & _). rewrite E0, E1.
  rewrite !(fh_custom_absent l _ H), !orb_false_r, (file_marker_feature q l H).
  destruct l as [c|c st n|ind st n|ind st br n|ind st|st n]; try reflexivity.
  cbn [andb]. cbn [line_ok] in H. rewrite (file_rules_feature q st n r H).
  destruct n as [|t]; [reflexivity|]. rewrite general_ignore_named. apply orb_false_r.
Qed.

Lemma fh_file_level_exact q a r : file_ok a = true -> nonempty r = true ->
  fh_file_level q fh_needles (map (prepare q) (map render_line a)) r = spec_file a r.
Proof.
  intros H Hr. unfold fh_file_level, spec_file. change header_scan_lines with 10. change documented_header_lines with 10.
  rewrite !firstn_map. pose proof (forallb_firstn line_ok 10 a H) as H'.
  induction (firstn 10 a) as [|l ls IH]; [reflexivity|].
  cbn [forallb] in H'. apply andb_true_iff in H' as [Hl H'].
  cbn [map existsb prepare pl_text]. rewrite (fh_line_feature q l r Hl Hr), (IH H'). reflexivity.
Qed.

(* the custom same-line needle never occurs on the violation's line *)
Lemma fh_line_needle_absent q a v : file_ok a = true ->
  match line_lower (map (prepare q) (map render_line a)) v with Some l => containsb (nth_str 2 fh_needles) l | None => false end = false.
Proof.
  intro H. unfold line_lower. destruct ((v =? 0) || (List.length (map (prepare q) (map render_line a)) <? v)); [reflexivity|].
  rewrite nth_error_prepared. destruct (nth_error a (v - 1)) as [l|] eqn:E; [|reflexivity].
  cbn [option_map prepare pl_text]. destruct fh_needles_keyed as (_ & _ & E2). rewrite E2.
  apply fh_custom_absent. exact (forallb_nth line_ok a (v - 1) l H E).
Qed.

(* the "no header at all" violation: file-level directives in the header window, and nothing else, whatever line it is reported on *)
Theorem file_header_missing_exact q a v r :
  file_ok a = true -> nonempty r = true -> avoids q a = true ->
  suppressed q (PFileHeader fh_needles false) (render a) v r = spec_file a r.
Proof.
  intros H Hr A. unfold suppressed, suppressed_pre. cbn [uses_shared andb orb extra_check].
  unfold avoids in A. rewrite (lines_of_render q a H A), (fh_file_level_exact q a r H Hr). apply orb_false_r.
Qed.

(* violations found in an existing header: exactly the specification *)
Theorem file_header_filtered_exact q a v r :
  file_ok a = true -> target_ok a v = true -> nonempty r = true -> avoids q a = true ->
  suppressed q (PFileHeader fh_needles true) (render a) v r = spec false a v r.
Proof.
  intros H T Hr A. pose proof (should_ignore_exact q false a v r H T Hr A) as S.
  unfold should_ignore, should_ignore_lines in S. cbn [orb] in S.
  unfold suppressed, suppressed_pre. cbn [uses_shared andb extra_check]. rewrite S.
  unfold avoids in A. rewrite (lines_of_render q a H A), (fh_file_level_exact q a r H Hr), (fh_line_needle_absent q a v H).
  unfold spec. cbn [orb]. destruct (spec_file a r); [now rewrite ?orb_true_r|]. cbn [orb]. now rewrite orb_false_r.
Qed.

Lemma file_header_table lang :
  pipeline_of "file_header" lang = PFileHeader fh_needles true /\ pipeline_of "file_header_missing" lang = PFileHeader fh_needles false.
Proof. split; reflexivity. Qed.

(* ---------- (4) magic-numbers / print-statements in `#` files: the generic same-line test ---------- *)
Lemma after_first_none n s : containsb n s = false -> after_first n s = None.
Proof.
  induction s as [|c s IH]; intro H; rewrite containsb_unfold in H; apply orb_false_iff in H as [H1 H2]; cbn [after_first]; rewrite H1.
  - reflexivity.
  - now apply IH.
Qed.

(* the text after the first occurrence of x ++ k, when k occurs once and x ends the text before it *)
Lemma after_first_unique k q x : forall p0, count_occ k ((p0 ++ x) ++ k ++ q) = 1 ->
  after_first (x ++ k) ((p0 ++ x) ++ k ++ q) = Some q.
Proof.
  induction p0 as [|c p0 IH]; intro Hc.
  - cbn [append].
    assert (P : prefixb (x ++ k) (x ++ k ++ q) = true) by (rewrite <- sapp_assoc; apply prefixb_app).
    destruct (x ++ k ++ q)%string as [|d r] eqn:E.
    + cbn [after_first]. rewrite P. destruct x; destruct k; cbn in E; try discriminate. destruct q; [reflexivity|discriminate].
    + cbn [after_first]. rewrite P. rewrite <- E, <- sapp_assoc. now rewrite sdrop_app.
  - cbn [append] in *. cbn [after_first].
    assert (N : prefixb (x ++ k) (String c ((p0 ++ x) ++ k ++ q)) = false).
    { destruct (prefixb (x ++ k) (String c ((p0 ++ x) ++ k ++ q))) eqn:E; [|reflexivity]. exfalso.
      assert (E' : prefixb (x ++ k ++ "") (String c (p0 ++ x) ++ k ++ q) = true) by (rewrite sapp_nil_r; exact E).
      apply (unique_occ_at k "" q (String c (p0 ++ x)) x Hc) in E'.
      apply (f_equal String.length) in E'. cbn [String.length] in E'. rewrite slen_app in E'. lia. }
    rewrite N. apply IH.
    rewrite count_occ_unfold in Hc.
    assert (Hpos : 1 <= count_occ k ((p0 ++ x) ++ k ++ q)) by (apply contains_count_pos, containsb_mid).
    destruct (prefixb k (String c ((p0 ++ x) ++ k ++ q))); [lia|]. exact Hc.
Qed.

Lemma suffix_split x p : suffixb x p = true -> exists p0, p = (p0 ++ x)%string.
Proof.
  unfold suffixb. intro Hx.
  exists (srev (sdrop (String.length (srev x)) (srev p))).
  rewrite <- (srev_involutive x) at 2. rewrite <- srev_app_distr.
  rewrite <- (srev_involutive p) at 1. f_equal.
  rewrite <- (stake_sdrop (String.length (srev x)) (srev p)) at 1. f_equal.
  revert Hx. generalize (srev x) as a, (srev p) as b. clear.
  induction a as [|c a IH]; intros b H; [reflexivity|].
  destruct b as [|d b]; cbn [prefixb] in H; [discriminate|]. apply andb_true_iff in H as [E H].
  apply Ascii.eqb_eq in E. subst d. cbn [String.length stake]. now rewrite (IH b H).
Qed.

Lemma after_first_directive l x : line_ok l = true -> directive l = true ->
  after_first (x ++ K) (lower (render_line l)) = if suffixb x (lower (pre_of l)) then Some (lower (post_of l)) else None.
Proof.
  intros H D. destruct (suffixb x (lower (pre_of l))) eqn:Hx.
  - rewrite (lower_render l D). destruct (suffix_split _ _ Hx) as [p0 E]. pose proof (once l H D) as O. rewrite E in *.
    now apply after_first_unique.
  - apply after_first_none. rewrite <- (sapp_nil_r (x ++ K)), sapp_assoc. now apply needle_absent_pre.
Qed.

(* files without the word "noqa" (the linters' other, non-thailint suppression comment) *)
Definition noqa_free (a : list aline) : bool := forallb (fun l => negb (containsb "noqa" (lower (render_line l)))) a.

Lemma noqa_absent a k l x : noqa_free a = true -> nth_error a k = Some l -> containsb (x ++ "noqa") (lower (render_line l)) = false.
Proof.
  intros N E. pose proof (forallb_nth _ a k l N E) as Hl. cbn beta in Hl. apply negb_true_iff in Hl.
  rewrite <- (sapp_nil_r (x ++ "noqa")), sapp_assoc. now apply containsb_false_sub.
Qed.

(* what the generic `#` test of magic-numbers / print-statements says on a line of the domain: a bare same-line `#` directive *)
Definition generic_line (l : aline) : bool := match l with LSame _ Hash Bare => true | _ => false end.

Lemma tagged_suffix X st : suffixb "# thailint: " (X ++ tagged st) = match st with Hash => true | Slashes => false end.
Proof.
  destruct st.
  - exact (suffixb_app X "# thailint: ").
  - unfold suffixb, tagged. rewrite srev_app_distr. reflexivity.
Qed.

Lemma generic_hash_feature a k l : noqa_free a = true -> nth_error a k = Some l -> line_ok l = true -> is_code l = true ->
  generic_hash magic_generic_hash noqa_hash (lower (render_line l)) = generic_line l.
Proof.
  intros N E H C. unfold generic_hash.
  change (nth_str 0 magic_generic_hash) with ("# thailint: " ++ K)%string. change (nth_str 1 magic_generic_hash) with "#".
  change (nth_str 2 magic_generic_hash) with "[". change noqa_hash with ("# " ++ "noqa")%string.
  rewrite (noqa_absent a k l "# " N E).
  destruct l as [c|c st n|ind st n|ind st br n|ind st|st n]; try discriminate.
  - cbn [line_ok] in H. unfold code_ok in H. apply andb_true_iff in H as [Hk _]. cbn [render_line generic_line].
    rewrite after_first_none; [reflexivity|]. rewrite <- (sapp_nil_r ("# thailint: " ++ K)), sapp_assoc. now apply plain_no_needle.
  - rewrite (after_first_directive _ "# thailint: " H eq_refl), (lower_pre _ H), tagged_suffix.
    destruct st; [|reflexivity]. rewrite lower_post, lower_names_br. destruct n as [|t]; reflexivity.
Qed.

(* the pipeline of magic-numbers and print-statements in files with `#` comments *)
Lemma generic_tables lang : String.eqb lang "ts" = false ->
  pipeline_of "magic_numbers" lang = PSharedGeneric magic_generic_hash /\ pipeline_of "print_statements" lang = PSharedGeneric print_generic_hash /\ print_generic_hash = magic_generic_hash.
Proof. intro E. unfold pipeline_of. cbn [String.eqb Ascii.eqb Bool.eqb andb]. rewrite E. repeat split; reflexivity. Qed.

Theorem generic_hash_pipeline_exact q a v r :
  file_ok a = true -> target_ok a v = true -> nonempty r = true -> avoids q a = true -> noqa_free a = true ->
  suppressed q (PSharedGeneric magic_generic_hash) (render a) v r = spec false a v r.
Proof.
  intros H T Hr A N. pose proof (should_ignore_exact q false a v r H T Hr A) as Sx.
  unfold should_ignore, should_ignore_lines in Sx. cbn [orb] in Sx.
  unfold suppressed, suppressed_pre. cbn [uses_shared andb extra_check]. rewrite Sx.
  unfold avoids in A. rewrite (lines_of_render q a H A).
  unfold target_ok in T. destruct v as [|k]; [discriminate|]. destruct (nth_error a k) as [l|] eqn:E; [|discriminate].
  assert (Lk : k < List.length a) by (apply nth_error_Some; congruence).
  unfold line_lower. rewrite !map_length.
  change (S k =? 0) with false. assert (E1 : (List.length a <? S k) = false) by (apply Nat.ltb_ge; lia). rewrite E1. cbn [orb].
  cbn [Nat.sub]. rewrite Nat.sub_0_r, nth_error_prepared, E. cbn [option_map prepare pl_text].
  rewrite (generic_hash_feature a k l N E (forallb_nth _ _ _ _ H E) T).
  destruct (generic_line l) eqn:G; [|apply orb_false_r].
  destruct l as [c|c st n|ind st n|ind st br n|ind st|st n]; try discriminate. destruct st; try discriminate. destruct n; try discriminate.
  unfold spec, spec_same. rewrite E. cbn [bracket_rules named]. now rewrite !orb_true_r.
Qed.

(* ---------- (5) collection-pipeline / stateless-class: their own file-level and same-line tests ---------- *)
(* str.lower touches the ASCII capitals only: every byte test of the string runtime is blind to it *)
Ltac bytes c := destruct c as [[] [] [] [] [] [] [] []]; reflexivity.
Lemma ws1_lower c : ws1 (lower_ascii c) = ws1 c. Proof. bytes c. Qed.
Lemma ws_e280_lower c : ws_e280 (lower_ascii c) = ws_e280 c. Proof. bytes c. Qed.
Lemma is_lower_const c :
  forallb (fun k => Bool.eqb (is k (lower_ascii c)) (is k c)) [c10; c13; c44; c93; c128; c129; c133; c154; c159; c160; c194; c225; c226; c227] = true.
Proof. bytes c. Qed.
Lemma is_lower k c : In k [c10; c13; c44; c93; c128; c129; c133; c154; c159; c160; c194; c225; c226; c227] -> is k (lower_ascii c) = is k c.
Proof. intro H. pose proof (is_lower_const c) as F. rewrite forallb_forall in F. apply F in H. now apply eqb_prop in H. Qed.
Ltac isl := rewrite ?ws1_lower, ?ws_e280_lower, ?(is_lower c10), ?(is_lower c13), ?(is_lower c44), ?(is_lower c93), ?(is_lower c128), ?(is_lower c129),
  ?(is_lower c133), ?(is_lower c154), ?(is_lower c159), ?(is_lower c160), ?(is_lower c194), ?(is_lower c225), ?(is_lower c226), ?(is_lower c227) by (cbn; tauto).

Lemma ws_len_lower s : ws_len (lower s) = ws_len s.
Proof. destruct s as [|c [|d [|e r]]]; cbn [lower ws_len]; isl; reflexivity. Qed.
Lemma ws_len_rev_lower s : ws_len_rev (lower s) = ws_len_rev s.
Proof. destruct s as [|c [|d [|e r]]]; cbn [lower ws_len_rev]; isl; reflexivity. Qed.

Lemma lstrip_fuel_lower : forall fuel s, lstrip_fuel fuel (lower s) = lower (lstrip_fuel fuel s).
Proof.
  induction fuel as [|f IH]; intro s; cbn [lstrip_fuel]; [reflexivity|]. rewrite ws_len_lower.
  destruct (ws_len s); [reflexivity|]. now rewrite <- lower_sdrop, IH.
Qed.
Lemma lstrip_rev_fuel_lower : forall fuel s, lstrip_rev_fuel fuel (lower s) = lower (lstrip_rev_fuel fuel s).
Proof.
  induction fuel as [|f IH]; intro s; cbn [lstrip_rev_fuel]; [reflexivity|]. rewrite ws_len_rev_lower.
  destruct (ws_len_rev s); [reflexivity|]. now rewrite <- lower_sdrop, IH.
Qed.
Lemma lower_srev_app : forall s acc, lower (srev_app s acc) = srev_app (lower s) (lower acc).
Proof. induction s as [|c s IH]; intro acc; cbn [srev_app lower]; [reflexivity|]. now rewrite IH. Qed.
Lemma lower_srev s : lower (srev s) = srev (lower s).
Proof. unfold srev. now rewrite lower_srev_app. Qed.
Lemma strip_lower s : strip (lower s) = lower (strip s).
Proof.
  unfold strip, rstrip, lstrip. rewrite !lower_length, lstrip_fuel_lower, lower_length.
  now rewrite <- lower_srev, lstrip_rev_fuel_lower, lower_srev.
Qed.

Lemma split_char_aux_lower : forall s cur, split_char_aux c44 (lower s) (lower cur) = map lower (split_char_aux c44 s cur).
Proof.
  induction s as [|c s IH]; intro cur; cbn [lower split_char_aux map].
  - now rewrite lower_srev.
  - change (Ascii.eqb (lower_ascii c) c44) with (is c44 (lower_ascii c)). change (Ascii.eqb c c44) with (is c44 c). isl.
    destruct (is c44 c); cbn [map].
    + rewrite lower_srev. f_equal. exact (IH EmptyString).
    + exact (IH (String c cur)).
Qed.
Lemma split_comma_lower s : split_on "," (lower s) = map lower (split_on "," s).
Proof. exact (split_char_aux_lower s EmptyString). Qed.

Lemma all_chars_lower (p : ascii -> bool) t : (forall c, p (lower_ascii c) = p c) -> all_chars p (lower t) = all_chars p t.
Proof. intro Hp. induction t as [|c t IH]; cbn [lower all_chars]; [reflexivity|]. now rewrite Hp, IH. Qed.

Lemma names_ok_lower t : names_ok (Names t) = true -> names_ok (Names (lower t)) = true.
Proof.
  cbn [names_ok]. unfold kfree, no_newline. rewrite lower_idem.
  rewrite (all_chars_lower (fun c => negb (is c10 c) && negb (is c13 c))) by (intro c; isl; reflexivity).
  rewrite (all_chars_lower (fun c => negb (is c93 c))) by (intro c; isl; reflexivity).
  destruct t; [discriminate|]. exact (fun H => H).
Qed.
Lemma code_ok_lower c : code_ok c = true -> code_ok (lower c) = true.
Proof.
  unfold code_ok, kfree, no_newline. rewrite lower_idem.
  now rewrite (all_chars_lower (fun c => negb (is c10 c) && negb (is c13 c))) by (intro x; isl; reflexivity).
Qed.

(* the lowered entries of a lowered bracket list name what the entries of the list name *)
Lemma tl_entries_named t r :
  existsb (fun x => rule_matches r (lower (strip x))) (split_on "," (lower t)) = named (bracket_rules (Names t)) r.
Proof.
  unfold named, bracket_rules. rewrite split_comma_lower, !existsb_map.
  induction (split_on "," t) as [|x L IH]; [reflexivity|]. cbn [existsb]. rewrite IH. f_equal.
  rewrite strip_lower, lower_idem. apply rule_matches_any_case; [reflexivity|apply lower_idem].
Qed.

(* --- the file-level test on one line of the domain --- *)
Lemma suffixb_nil s : suffixb "" s = true.
Proof. unfold suffixb. apply prefixb_nil. Qed.

Lemma tl_needles_keyed :
  nth_str 0 tl_needles = ("thailint: " ++ K ++ "-file")%string /\ nth_str 1 tl_needles = ("" ++ K ++ "-file[")%string
  /\ nth_str 2 tl_needles = "ignore-file" /\ nth_str 3 tl_needles = "thailint:" /\ nth_str 4 tl_needles = ("" ++ K ++ "")%string
  /\ nth_str 5 tl_needles = ("" ++ K ++ "[")%string /\ nth_str 6 tl_needles = "ignore".
Proof. repeat split; reflexivity. Qed.

Lemma tag_suffix X st : suffixb "thailint: " (X ++ tagged st) = true.
Proof.
  destruct st.
  - change (X ++ tagged Hash)%string with (X ++ "# " ++ "thailint: ")%string. rewrite <- sapp_assoc. apply suffixb_app.
  - change (X ++ tagged Slashes)%string with (X ++ "// " ++ "thailint: ")%string. rewrite <- sapp_assoc. apply suffixb_app.
Qed.

Lemma pre_tag l : line_ok l = true -> directive l = true -> suffixb "thailint: " (lower (pre_of l)) = true.
Proof.
  intros H D. rewrite (lower_pre l H).
  destruct l as [c|c st n|ind st n|ind st br n|ind st|st n]; try discriminate; try apply tag_suffix.
  exact (tag_suffix "" st).
Qed.

(* collection-pipeline's / stateless-class's file-level test on one line of the domain *)
Lemma tl_file_feature l r : line_ok l = true ->
  tl_file_directive tl_needles (render_line l) r = match l with LFile _ n => named (bracket_rules n) r | _ => false end.
Proof.
  intro H. unfold tl_file_directive. cbv zeta. destruct tl_needles_keyed as (E0 & E1 & E2 & _). rewrite E0, E1, E2.
  destruct (directive l) eqn:D.
  2:{ destruct l; try discriminate. cbn [line_ok] in H. unfold code_ok in H. apply andb_true_iff in H as [Hk _]. cbn [render_line].
      now rewrite (plain_no_needle _ "thailint: " "-file" Hk). }
  destruct l as [c|c st n|ind st n|ind st br n|ind st|st n]; try discriminate.
  1-4: rewrite needle_absent; [reflexivity|assumption|reflexivity|post_head].
  rewrite (needle_present (LFile st n) "thailint: " "-file" eq_refl (pre_tag (LFile st n) H eq_refl)) by (rewrite lower_post; apply prefixb_app).
  cbn [andb]. destruct n as [|t].
  - rewrite needle_absent; [reflexivity|assumption|reflexivity|post_head].
  - rewrite (needle_present (LFile st (Names t)) "" "-file[" eq_refl (suffixb_nil _)) by (rewrite lower_post, lower_names_br; reflexivity).
    cbn [negb orb]. unfold tl_rules_match.
    cbn [line_ok] in H. pose proof (names_ok_lower t H) as H'.
    assert (L : lower (render_line (LFile st (Names t))) = render_line (LFile st (Names (lower t)))).
    { cbn [render_line names_br]. rewrite !lower_app, lower_cm. reflexivity. }
    rewrite L, (bracket_at (LFile st (Names (lower t))) false "ignore-file" H' eq_refl eq_refl).
    destruct (names_parts _ H') as (Hne & _ & Hb).
    change ("ignore" ++ post_of (LFile st (Names (lower t))))%string with ("ignore-file" ++ "[" ++ lower t ++ "]")%string.
    rewrite (bracket_hit false "ignore-file" (lower t) eq_refl Hne Hb). apply tl_entries_named.
Qed.

(* ... and their same-line test on a (lowered) code line of the domain *)
Lemma tl_line_feature l r : line_ok l = true -> is_code l = true ->
  tl_line_directive tl_needles (lower (render_line l)) r = match l with LSame _ _ n => named (bracket_rules n) r | _ => false end.
Proof.
  intros H C. unfold tl_line_directive. destruct tl_needles_keyed as (_ & _ & _ & E3 & E4 & E5 & E6). rewrite E3, E4, E5, E6.
  destruct l as [c|c st n|ind st n|ind st br n|ind st|st n]; try discriminate.
  - cbn [line_ok] in H. unfold code_ok in H. apply andb_true_iff in H as [Hk _]. cbn [render_line].
    now rewrite (plain_no_needle _ "" "" Hk), andb_false_r.
  - assert (T : containsb "thailint:" (lower (render_line (LSame c st n))) = true).
    { cbn [render_line]. rewrite !lower_app, lower_cm. apply containsb_app_r, containsb_app_r, containsb_app_r.
      apply containsb_app_l. change (lower " thailint: ignore") with (" " ++ "thailint:" ++ " ignore")%string. apply containsb_mid. }
    rewrite T, (needle_present (LSame c st n) "" "" eq_refl (suffixb_nil _) (prefixb_nil _)). cbn [andb].
    destruct n as [|t].
    + rewrite needle_absent; [reflexivity|assumption|reflexivity|post_head].
    + rewrite (needle_present (LSame c st (Names t)) "" "[" eq_refl (suffixb_nil _)) by (rewrite lower_post, lower_names_br; reflexivity).
      cbn [negb orb]. unfold tl_rules_match.
      cbn [line_ok] in H. apply andb_true_iff in H as [Hc Hn]. pose proof (names_ok_lower t Hn) as Hn'.
      assert (H' : line_ok (LSame (lower c) st (Names (lower t))) = true) by (cbn [line_ok]; now rewrite (code_ok_lower c Hc), Hn').
      assert (L : lower (render_line (LSame c st (Names t))) = render_line (LSame (lower c) st (Names (lower t)))).
      { cbn [render_line names_br]. rewrite !lower_app, lower_cm. reflexivity. }
      rewrite L, (bracket_at _ false "ignore" H' eq_refl eq_refl).
      destruct (names_parts _ Hn') as (Hne & _ & Hb).
      change ("ignore" ++ post_of (LSame (lower c) st (Names (lower t))))%string with ("ignore" ++ "[" ++ lower t ++ "]")%string.
      rewrite (bracket_hit false "ignore" (lower t) eq_refl Hne Hb). apply tl_entries_named.
Qed.

Lemma tl_file_level_exact q a r : file_ok a = true ->
  existsb (fun l => tl_file_directive tl_needles (pl_text l) r) (firstn header_scan_lines (map (prepare q) (map render_line a))) = spec_file a r.
Proof.
  intros H. unfold spec_file. change header_scan_lines with 10. change documented_header_lines with 10.
  rewrite !firstn_map. pose proof (forallb_firstn line_ok 10 a H) as H'.
  induction (firstn 10 a) as [|l ls IH]; [reflexivity|].
  cbn [forallb] in H'. apply andb_true_iff in H' as [Hl H'].
  cbn [map existsb prepare pl_text]. rewrite (tl_file_feature l r Hl), (IH H'). reflexivity.
Qed.

Theorem tl_pipeline_exact q a v r :
  file_ok a = true -> target_ok a v = true -> nonempty r = true -> avoids q a = true ->
  suppressed q (PSharedTl tl_needles) (render a) v r = spec false a v r.
Proof.
  intros H T Hr A. pose proof (should_ignore_exact q false a v r H T Hr A) as Sx.
  unfold should_ignore, should_ignore_lines in Sx. cbn [orb] in Sx.
  unfold suppressed, suppressed_pre. cbn [uses_shared andb extra_check]. rewrite Sx.
  unfold avoids in A. rewrite (lines_of_render q a H A), (tl_file_level_exact q a r H).
  unfold target_ok in T. destruct v as [|k]; [discriminate|]. destruct (nth_error a k) as [l|] eqn:E; [|discriminate].
  assert (Lk : k < List.length a) by (apply nth_error_Some; congruence).
  unfold line_lower. rewrite !map_length.
  change (S k =? 0) with false. assert (E1 : (List.length a <? S k) = false) by (apply Nat.ltb_ge; lia). rewrite E1. cbn [orb].
  cbn [Nat.sub]. rewrite Nat.sub_0_r, nth_error_prepared, E. cbn [option_map prepare pl_text].
  rewrite (tl_line_feature l r (forallb_nth _ _ _ _ H E) T).
  unfold spec, spec_same. rewrite E. cbn [orb].
  destruct (spec_file a r); cbn [orb]; [now rewrite ?orb_true_r|].
  destruct l as [c|c st n|ind st n|ind st br n|ind st|st n]; try discriminate; [now rewrite !orb_false_r|].
  destruct (named (bracket_rules n) r); [now rewrite !orb_true_r|now rewrite !orb_false_r].
Qed.

Lemma tl_table lang : pipeline_of "collection_pipeline" lang = PSharedTl tl_needles /\ pipeline_of "stateless_class" lang = PSharedTl tl_needles.
Proof. split; reflexivity. Qed.

(* ---------- (6) magic-numbers / print-statements in `//` files; method-property's own line test ---------- *)
Definition no_rb (s : string) : bool := all_chars (fun c => negb (is c93 c)) s.

(* a bracket-free text that starts a closed bracket list whose content is bracket-free too is that content *)
Lemma closed_prefix_eq : forall L u, no_rb L = true -> no_rb u = true -> prefixb (L ++ "]") (u ++ "]") = true -> u = L.
Proof.
  induction L as [|c L IH]; intros u HL Hu P.
  - destruct u as [|d u]; [reflexivity|]. exfalso. cbn [append prefixb] in P. apply andb_true_iff in P as [E _].
    apply Ascii.eqb_eq in E. subst d. cbn [no_rb all_chars] in Hu. discriminate.
  - cbn [no_rb all_chars] in HL. apply andb_true_iff in HL as [Hc HL].
    destruct u as [|d u].
    + exfalso. cbn [append prefixb] in P. apply andb_true_iff in P as [E _]. apply Ascii.eqb_eq in E. subst c. discriminate.
    + cbn [append prefixb] in P. apply andb_true_iff in P as [E P]. apply Ascii.eqb_eq in E. subst d.
      cbn [no_rb all_chars] in Hu. apply andb_true_iff in Hu as [_ Hu]. f_equal. now apply IH.
Qed.

Lemma tagged_suffix_slash X st : suffixb "// thailint: " (X ++ tagged st) = match st with Hash => false | Slashes => true end.
Proof.
  destruct st.
  - unfold suffixb, tagged. rewrite srev_app_distr. reflexivity.
  - exact (suffixb_app X "// thailint: ").
Qed.

(* the generic `//` test on a (lowered) code line of the domain, for a linter whose own bracket needle names L *)
Definition generic_ts_line (L : string) (l : aline) : bool :=
  match l with
  | LSame _ Slashes Bare => true
  | LSame _ Slashes (Names t) => String.eqb (lower t) L
  | _ => false
  end.

Lemma generic_ts_feature L a k l : no_rb L = true -> noqa_free a = true -> nth_error a k = Some l -> line_ok l = true -> is_code l = true ->
  generic_ts [("// thailint: " ++ K ++ "[" ++ L ++ "]")%string; ("// thailint: " ++ K)%string; "//"; "["] noqa_slash (lower (render_line l)) = generic_ts_line L l.
Proof.
  intros HL N E H C. unfold generic_ts. cbn [nth_str nth].
  change noqa_slash with ("// " ++ "noqa")%string. rewrite (noqa_absent a k l "// " N E), orb_false_r.
  destruct l as [c|c st n|ind st n|ind st br n|ind st|st n]; try discriminate.
  - cbn [line_ok] in H. unfold code_ok in H. apply andb_true_iff in H as [Hk _]. cbn [render_line generic_ts_line].
    rewrite (plain_no_needle c "// thailint: " ("[" ++ L ++ "]") Hk).
    rewrite after_first_none; [reflexivity|]. rewrite <- (sapp_nil_r ("// thailint: " ++ K)), sapp_assoc. now apply plain_no_needle.
  - rewrite (after_first_directive _ "// thailint: " H eq_refl), (lower_pre _ H), tagged_suffix_slash.
    destruct st.
    + rewrite (needle_absent_pre _ "// thailint: " ("[" ++ L ++ "]") H eq_refl); [reflexivity|].
      now rewrite (lower_pre _ H), tagged_suffix_slash.
    + cbn [generic_ts_line]. rewrite lower_post, lower_names_br. destruct n as [|t].
      * cbn [before_first prefixb containsb negb]. apply orb_true_r.
      * assert (B : negb (containsb "[" (before_first "//" ("[" ++ lower t ++ "]"))) = false) by reflexivity.
        rewrite B, orb_false_r.
        destruct (String.eqb (lower t) L) eqn:EL.
        -- apply String.eqb_eq in EL.
           apply (needle_present (LSame c Slashes (Names t)) "// thailint: " ("[" ++ L ++ "]") eq_refl).
           ++ rewrite (lower_pre _ H). now rewrite tagged_suffix_slash.
           ++ rewrite lower_post, lower_names_br, EL. apply prefixb_refl.
        -- destruct (containsb ("// thailint: " ++ K ++ "[" ++ L ++ "]") (lower (render_line (LSame c Slashes (Names t))))) eqn:P; [|reflexivity].
           exfalso. rewrite (lower_render _ (eq_refl : directive (LSame c Slashes (Names t)) = true)) in P.
           apply unique_occ_suffix in P; [|now apply once].
           rewrite lower_post, lower_names_br in P. cbn [append prefixb] in P. rewrite Ascii.eqb_refl in P. cbn [andb] in P.
           cbn [line_ok] in H. apply andb_true_iff in H as [_ Hn]. destruct (names_parts _ (names_ok_lower t Hn)) as (_ & _ & Hb).
           apply (closed_prefix_eq L (lower t) HL Hb) in P. apply String.eqb_neq in EL. congruence.
Qed.

Theorem generic_ts_pipeline_exact L q a v r : no_rb L = true -> named (bracket_rules (Names L)) r = true ->
  file_ok a = true -> target_ok a v = true -> nonempty r = true -> avoids q a = true -> noqa_free a = true ->
  suppressed q (PSharedGenericTs [("// thailint: " ++ K ++ "[" ++ L ++ "]")%string; ("// thailint: " ++ K)%string; "//"; "["]) (render a) v r = spec false a v r.
Proof.
  intros HL HR H T Hr A N. pose proof (should_ignore_exact q false a v r H T Hr A) as Sx.
  unfold should_ignore, should_ignore_lines in Sx. cbn [orb] in Sx.
  unfold suppressed, suppressed_pre. cbn [uses_shared andb extra_check]. rewrite Sx.
  unfold avoids in A. rewrite (lines_of_render q a H A).
  unfold target_ok in T. destruct v as [|k]; [discriminate|]. destruct (nth_error a k) as [l|] eqn:E; [|discriminate].
  assert (Lk : k < List.length a) by (apply nth_error_Some; congruence).
  unfold line_lower. rewrite !map_length.
  change (S k =? 0) with false. assert (E1 : (List.length a <? S k) = false) by (apply Nat.ltb_ge; lia). rewrite E1. cbn [orb].
  cbn [Nat.sub]. rewrite Nat.sub_0_r, nth_error_prepared, E. cbn [option_map prepare pl_text].
  rewrite (generic_ts_feature L a k l HL N E (forallb_nth _ _ _ _ H E) T).
  destruct (generic_ts_line L l) eqn:G; [|apply orb_false_r].
  assert (Sp : spec_same a (S k) r = true).
  { unfold spec_same. rewrite E.
    destruct l as [c|c st n|ind st n|ind st br n|ind st|st n]; try discriminate. destruct st; try discriminate. destruct n as [|t]; [reflexivity|].
    cbn [generic_ts_line] in G. apply String.eqb_eq in G.
    assert (LL : lower L = L) by (rewrite <- G; apply lower_idem).
    rewrite <- (tl_entries_named t r), G, <- LL. rewrite (tl_entries_named L r). exact HR. }
  unfold spec. now rewrite Sp, !orb_true_r.
Qed.

(* the two instances of the tree *)
Lemma generic_ts_tables :
  pipeline_of "magic_numbers" "ts" = PSharedGenericTs [("// thailint: " ++ K ++ "[" ++ "magic-numbers" ++ "]")%string; ("// thailint: " ++ K)%string; "//"; "["]
  /\ pipeline_of "print_statements" "ts" = PSharedGenericTs [("// thailint: " ++ K ++ "[" ++ "print-statements" ++ "]")%string; ("// thailint: " ++ K)%string; "//"; "["].
Proof. split; reflexivity. Qed.

Lemma named_single L r : map strip (split_on "," L) = [L] -> named (bracket_rules (Names L)) r = rule_matches r L.
Proof. intro E. unfold named, bracket_rules. rewrite E. cbn [existsb]. apply orb_false_r. Qed.

Theorem magic_ts_pipeline_exact q a v r : rule_matches r "magic-numbers" = true ->
  file_ok a = true -> target_ok a v = true -> nonempty r = true -> avoids q a = true -> noqa_free a = true ->
  suppressed q (pipeline_of "magic_numbers" "ts") (render a) v r = spec false a v r.
Proof.
  intro HR. destruct generic_ts_tables as [E _]. rewrite E. apply generic_ts_pipeline_exact; [reflexivity|].
  rewrite (named_single "magic-numbers" r eq_refl). exact HR.
Qed.

Theorem print_ts_pipeline_exact q a v r : rule_matches r "print-statements" = true ->
  file_ok a = true -> target_ok a v = true -> nonempty r = true -> avoids q a = true -> noqa_free a = true ->
  suppressed q (pipeline_of "print_statements" "ts") (render a) v r = spec false a v r.
Proof.
  intro HR. destruct generic_ts_tables as [_ E]. rewrite E. apply generic_ts_pipeline_exact; [reflexivity|].
  rewrite (named_single "print-statements" r eq_refl). exact HR.
Qed.

(* method-property (no shared parser, its own line test): on files without "noqa" it honours ANY same-line directive, whatever it
   names, and nothing else - the exact extent of the finding own_line_check_only[method_property] *)
Theorem own_line_pipeline_exact q a v r :
  file_ok a = true -> target_ok a v = true -> avoids q a = true -> noqa_free a = true ->
  suppressed q (POwnLine method_property_needles) (render a) v r =
  match nth_error a (v - 1) with Some (LSame _ _ _) => true | _ => false end.
Proof.
  intros H T A N. unfold suppressed, suppressed_pre. cbn [uses_shared andb orb extra_check].
  unfold avoids in A. rewrite (lines_of_render q a H A).
  unfold target_ok in T. destruct v as [|k]; [discriminate|]. destruct (nth_error a k) as [l|] eqn:E; [|discriminate].
  assert (Lk : k < List.length a) by (apply nth_error_Some; congruence).
  unfold line_lower. rewrite !map_length.
  change (S k =? 0) with false. assert (E1 : (List.length a <? S k) = false) by (apply Nat.ltb_ge; lia). rewrite E1. cbn [orb].
  cbn [Nat.sub]. rewrite Nat.sub_0_r, nth_error_prepared, E. cbn [option_map prepare pl_text].
  change (nth_str 0 method_property_needles) with "thailint:". change (nth_str 1 method_property_needles) with ("" ++ K ++ "")%string.
  change (nth_str 2 method_property_needles) with ("# " ++ "noqa")%string.
  rewrite (noqa_absent a k l "# " N E), orb_false_r.
  pose proof (forallb_nth _ _ _ _ H E) as Hl.
  destruct l as [c|c st n|ind st n|ind st br n|ind st|st n]; try discriminate.
  - cbn [line_ok] in Hl. unfold code_ok in Hl. apply andb_true_iff in Hl as [Hk _]. cbn [render_line].
    now rewrite (plain_no_needle _ "" "" Hk), andb_false_r.
  - rewrite (needle_present (LSame c st n) "" "" eq_refl (suffixb_nil _) (prefixb_nil _)), andb_true_r.
    cbn [render_line]. rewrite !lower_app, lower_cm. apply containsb_app_r, containsb_app_r, containsb_app_r.
    apply containsb_app_l. change (lower " thailint: ignore") with (" " ++ "thailint:" ++ " ignore")%string. apply containsb_mid.
Qed.

(* the linters without any inline suppression: nothing is ever suppressed, whatever the text says *)
Theorem no_inline_never q pkg lang content v r : In pkg no_inline_support -> suppressed q (pipeline_of pkg lang) content v r = false.
Proof.
  unfold no_inline_support. cbn [In]. intros [E|[E|[E|[E|[E|[]]]]]]; subst pkg; reflexivity.
Qed.
