(* Proofs/SrpParse.v — the counts can be read back from a message: a parser for the issue list of an SRP message
   and the theorem that parsing the text built from (count, limit) pairs returns exactly those numbers
   (hence the texts are injective in the counts). *)
From Coq Require Import DecimalNat DecimalString Decimal.
From TL Require Import Lib.Base Model.SrpTypes Model.SrpSpec Proofs.SrpBase.

Definition is_digit (c : ascii) : bool :=
  match c with
  | "0" | "1" | "2" | "3" | "4" | "5" | "6" | "7" | "8" | "9" => true
  | _ => false
  end%char.

(* longest prefix of decimal digits, and the rest *)
Fixpoint split_digits (s : string) : string * string :=
  match s with
  | EmptyString => ("", "")
  | String c r => if is_digit c then let (d, rest) := split_digits r in (String c d, rest) else ("", s)
  end.

Definition starts_digit (s : string) : bool := match s with String c _ => is_digit c | EmptyString => false end.

Definition read_nat (s : string) : option (nat * string) :=
  let (d, rest) := split_digits s in
  match NilEmpty.uint_of_string d with Some u => Some (Nat.of_uint u, rest) | None => None end.

Lemma split_digits_uint d rest :
  starts_digit rest = false -> split_digits (NilEmpty.string_of_uint d ++ rest) = (NilEmpty.string_of_uint d, rest).
Proof.
  intros Hr. induction d; cbn [NilEmpty.string_of_uint String.append split_digits is_digit]; try (rewrite IHd; reflexivity).
  destruct rest as [|c r]; [reflexivity|]. cbn [starts_digit] in Hr. cbn [split_digits]. now rewrite Hr.
Qed.

(* reading back the decimal rendering of n gives n (stdlib round trips: NilEmpty.usu, Unsigned.of_to) *)
Lemma read_show n rest : starts_digit rest = false -> read_nat (show_nat n ++ rest) = Some (n, rest).
Proof. intros Hr. unfold read_nat, show_nat. now rewrite (split_digits_uint _ _ Hr), NilEmpty.usu, Unsigned.of_to. Qed.

Fixpoint expect (lit s : string) : option string :=
  match lit with
  | EmptyString => Some s
  | String a lit' => match s with String b s' => if Ascii.eqb a b then expect lit' s' else None | EmptyString => None end
  end.

Lemma expect_app lit rest : expect lit (lit ++ rest) = Some rest.
Proof. induction lit as [|a l IH]; cbn [expect String.append]; [reflexivity|]. now rewrite Ascii.eqb_refl. Qed.

Lemma sapp_assoc (a b c : string) : ((a ++ b) ++ c = a ++ (b ++ c))%string.
Proof. induction a as [|x a IH]; cbn [String.append]; [reflexivity | now rewrite IH]. Qed.

(* "<count> <word> (max: <limit>)" *)
Definition parse_threshold (word s : string) : option (nat * nat * string) :=
  match read_nat s with
  | None => None
  | Some (n, r) =>
    match expect (" " ++ word ++ " (max: ") r with
    | None => None
    | Some r' =>
      match read_nat r' with
      | None => None
      | Some (m, r'') => match expect ")" r'' with Some r3 => Some (n, m, r3) | None => None end
      end
    end
  end.

Definition threshold_text (word : string) (n m : nat) : string := sconcat [show_nat n; " "; word; " (max: "; show_nat m; ")"].

Lemma threshold_texts mc mm loc ml :
  methods_text mc mm = threshold_text "methods" mc mm /\ lines_text loc ml = threshold_text "lines" loc ml.
Proof.
  unfold methods_text, lines_text, threshold_text, sconcat. cbn [fold_right]. split; f_equal.
Qed.

Lemma parse_threshold_text word n m rest :
  parse_threshold word (threshold_text word n m ++ rest) = Some (n, m, rest).
Proof.
  unfold parse_threshold, threshold_text, sconcat. cbn [fold_right].
  rewrite !sapp_assoc. rewrite read_show by reflexivity.
  change (" " ++ word ++ " (max: " ++ show_nat m ++ ")" ++ "" ++ rest)%string
    with (String " " (word ++ " (max: " ++ show_nat m ++ ")" ++ "" ++ rest))%string.
  replace (String " " (word ++ " (max: " ++ show_nat m ++ ")" ++ "" ++ rest))%string
    with ((" " ++ word ++ " (max: ") ++ (show_nat m ++ ")" ++ rest))%string
    by (cbn [String.append]; rewrite !sapp_assoc; reflexivity).
  rewrite expect_app. rewrite read_show by reflexivity. cbn [String.append expect]. rewrite Ascii.eqb_refl. reflexivity.
Qed.

(* the other word is rejected: a methods text is not a lines text and vice versa *)
Lemma parse_threshold_other n m rest :
  parse_threshold "methods" (threshold_text "lines" n m ++ rest) = None
  /\ parse_threshold "lines" (threshold_text "methods" n m ++ rest) = None.
Proof.
  unfold parse_threshold, threshold_text, sconcat. cbn [fold_right]. rewrite !sapp_assoc.
  split; rewrite read_show by reflexivity; reflexivity.
Qed.

Lemma parse_threshold_keyword word rest : parse_threshold word (keyword_text ++ rest) = None.
Proof. reflexivity. Qed.
Lemma parse_threshold_empty word : parse_threshold word "" = None.
Proof. reflexivity. Qed.

Definition after_sep (s : string) : string := match expect ", " s with Some r => r | None => s end.

(* the issue list of a message: (methods: count, limit)?, (lines: count, limit)?, keyword criterion *)
Definition parse_issues (s : string) : option (option (nat * nat) * option (nat * nat) * bool) :=
  let '(om, s1) := match parse_threshold "methods" s with Some (n, m, r) => (Some (n, m), after_sep r) | None => (None, s) end in
  let '(ol, s2) := match parse_threshold "lines" s1 with Some (n, m, r) => (Some (n, m), after_sep r) | None => (None, s1) end in
  if String.eqb s2 keyword_text then Some (om, ol, true) else if String.eqb s2 "" then Some (om, ol, false) else None.

Lemma sapp_nil_r (a : string) : (a ++ "")%string = a.
Proof. induction a as [|x a IH]; cbn [String.append]; [reflexivity | now rewrite IH]. Qed.

Lemma parse_threshold_text_end word n m : parse_threshold word (threshold_text word n m) = Some (n, m, "").
Proof. rewrite <- (sapp_nil_r (threshold_text word n m)). apply parse_threshold_text. Qed.

Lemma parse_threshold_other_end n m :
  parse_threshold "methods" (threshold_text "lines" n m) = None /\ parse_threshold "lines" (threshold_text "methods" n m) = None.
Proof. rewrite <- (sapp_nil_r (threshold_text "lines" n m)), <- (sapp_nil_r (threshold_text "methods" n m)). apply parse_threshold_other. Qed.

Lemma after_sep_app x : after_sep (", " ++ x) = x.
Proof. reflexivity. Qed.

(* parse-back: the numbers read from the issue list are the counts and the limits in force *)
Theorem issues_parse_back mm ml ck mc loc kw :
  parse_issues (join ", " (spec_issues mm ml ck mc loc kw))
  = Some (if mm <? mc then Some (mc, mm) else None, if ml <? loc then Some (loc, ml) else None, ck && kw).
Proof.
  unfold spec_issues. destruct (threshold_texts mc mm loc ml) as [-> ->].
  pose proof (parse_threshold_text "methods" mc mm) as PM. pose proof (parse_threshold_text "lines" loc ml) as PL.
  pose proof (parse_threshold_text_end "methods" mc mm) as PMe. pose proof (parse_threshold_text_end "lines" loc ml) as PLe.
  pose proof (fun rest => proj1 (parse_threshold_other loc ml rest)) as OL. pose proof (proj1 (parse_threshold_other_end loc ml)) as OLe.
  pose proof (parse_threshold_keyword "methods" "") as KM. pose proof (parse_threshold_keyword "lines" "") as KL.
  rewrite sapp_nil_r in KM, KL.
  unfold parse_issues.
  destruct (mm <? mc), (ml <? loc), (ck && kw); cbn [app join].
  - rewrite PM. rewrite after_sep_app. rewrite PL. rewrite after_sep_app. reflexivity.
  - rewrite PM. rewrite after_sep_app. rewrite PLe. reflexivity.
  - rewrite PM. rewrite after_sep_app. rewrite KL. reflexivity.
  - rewrite PMe. reflexivity.
  - rewrite OL, PL. rewrite after_sep_app. reflexivity.
  - rewrite OLe, PLe. reflexivity.
  - rewrite KM, KL. reflexivity.
  - reflexivity.
Qed.

(* consequently the issue texts determine the counts and the limits *)
Corollary issues_injective mm ml ck mc loc kw mm' ml' ck' mc' loc' kw' :
  join ", " (spec_issues mm ml ck mc loc kw) = join ", " (spec_issues mm' ml' ck' mc' loc' kw') ->
  (if mm <? mc then Some (mc, mm) else None) = (if mm' <? mc' then Some (mc', mm') else None)
  /\ (if ml <? loc then Some (loc, ml) else None) = (if ml' <? loc' then Some (loc', ml') else None)
  /\ ck && kw = ck' && kw'.
Proof.
  intros E. pose proof (issues_parse_back mm ml ck mc loc kw) as P1. pose proof (issues_parse_back mm' ml' ck' mc' loc' kw') as P2.
  rewrite E in P1. rewrite P1 in P2. injection P2 as -> -> ->. repeat split.
Qed.

Lemma sapp_cancel_l (a x y : string) : (a ++ x = a ++ y)%string -> x = y.
Proof. induction a as [|c a IH]; cbn [String.append]; [tauto|]. intros H. injection H as H. now apply IH. Qed.

(* ... and so does the whole message of a class (same class name) *)
Corollary message_injective name is1 is2 : spec_message name is1 = spec_message name is2 -> join ", " is1 = join ", " is2.
Proof.
  unfold spec_message, sconcat. cbn [fold_right]. intros H.
  apply sapp_cancel_l in H. apply sapp_cancel_l in H. apply sapp_cancel_l in H.
  rewrite !sapp_nil_r in H. exact H.
Qed.
