(* Proofs/CfgMergeMain.v — the structure theorem of the init-config merge (Model/CfgMerge.v):
   for a block document E and well-formed template sections, the merged file is again a block
   document whose entries are E's entries, unchanged and in order, with the entries of the missing
   sections spliced in at an entry boundary.  Everything C20 says about init-config follows. *)
From TL Require Import Lib.Base Lib.GenTypes Model.CfgTypes Gen.CfgToolGen Model.CfgMerge Proofs.CfgLines.
From Coq Require Import NArith.

(* ------------------------------------------------------------------ entries *)
Lemma letter_line_facts c r : is_letter c = true ->
  is_cont (String c r) = false /\ prefix "{" (String c r) = false /\ String.eqb (String c r) docstart = false.
Proof.
  destruct c as [[|] [|] [|] [|] [|] [|] [|] [|]]; vm_compute; intro H; try discriminate H; repeat split; reflexivity.
Qed.

Lemma take_key_cons c r :
  take_key (String c r) = if is_key_char c then (String c (fst (take_key r)), snd (take_key r)) else (EmptyString, String c r).
Proof. cbn [take_key]. destruct (is_key_char c); [|reflexivity]. now destruct (take_key r). Qed.

Lemma quote_line_facts c r : is_quote c = true ->
  is_cont (String c r) = false /\ prefix "{" (String c r) = false /\ String.eqb (String c r) docstart = false.
Proof.
  destruct c as [[|] [|] [|] [|] [|] [|] [|] [|]]; vm_compute; intro H; try discriminate H; repeat split; reflexivity.
Qed.

Lemma after_key_key k r k' v : after_key k r = Some (k', v) -> k' = k.
Proof.
  unfold after_key. destruct r as [|c r1]; [discriminate|]. destruct (Ascii.eqb c ":"); [|discriminate].
  destruct r1 as [|d w]; [now intros [= <- _]|]. destruct (Ascii.eqb d " "); [|discriminate]. now intros [= <- _].
Qed.

Lemma parse_entry_line l b e : parse_entry (l, b) = Some e ->
  toplevel l = true /\ prefix "{" l = false /\ String.eqb l docstart = false.
Proof.
  unfold parse_entry. cbn [fst snd]. destruct (key_split l) as [[[k v] qd]|] eqn:Hk; [|discriminate].
  destruct (key_admissible k qd && rest_ok v) eqn:Hok; [|discriminate]. intros _.
  apply andb_true_iff in Hok as [Hok _].
  destruct l as [|c r]; [discriminate Hk|]. unfold key_split in Hk.
  destruct (is_quote c) eqn:Hq.
  - unfold toplevel. destruct (quote_line_facts c r Hq) as (-> & -> & ->). now repeat split.
  - destruct (take_key (String c r)) as [k0 r1] eqn:Ht.
    destruct (after_key k0 r1) as [[k' v']|] eqn:Ha; [|discriminate Hk]. cbn [option_map] in Hk.
    injection Hk as -> -> <-. apply after_key_key in Ha. subst k.
    rewrite take_key_cons in Ht. destruct (is_key_char c); [|injection Ht as <- _; discriminate Hok].
    injection Ht as <- _. cbn [key_admissible key_ok] in Hok. apply andb_true_iff in Hok as [Hl _].
    unfold toplevel. destruct (letter_line_facts c r Hl) as (-> & -> & ->). now repeat split.
Qed.

Lemma parse_entry_body l b b' k v :
  parse_entry (l, b) = Some (k, v, b) -> parse_entry (l, b') = Some (k, v, b').
Proof.
  unfold parse_entry. cbn [fst snd]. destruct (key_split l) as [[[k0 v0] qd]|]; [|discriminate].
  destruct (key_admissible k0 qd && rest_ok v0); [|discriminate]. now intros [= -> ->].
Qed.

Lemma parse_entries_app a b :
  parse_entries (a ++ b) =
  match parse_entries a, parse_entries b with Some x, Some y => Some (x ++ y) | _, _ => None end.
Proof.
  induction a as [|g a IH]; cbn [app parse_entries].
  - now destruct (parse_entries b).
  - rewrite IH. destruct (parse_entry g); [|reflexivity].
    destruct (parse_entries a); [|reflexivity]. now destruct (parse_entries b).
Qed.

Lemma strip_docstart_app g G X : strip_docstart ((g :: G) ++ X) = strip_docstart (g :: G) ++ X.
Proof.
  destruct g as [l [|b0 b]]; [|reflexivity]. cbn [app strip_docstart]. now destruct (String.eqb l docstart).
Qed.

Lemma strip_docstart_keep l o G : String.eqb l docstart = false -> strip_docstart ((l, o) :: G) = (l, o) :: G.
Proof. intro H. cbn [strip_docstart]. destruct o; [now rewrite H|reflexivity]. Qed.

(* ------------------------------------------------------------------ analyse: introduction and inversion *)
Lemma toplevel_indent0 l : toplevel l = true -> (0 <? indent_of l) = false.
Proof.
  destruct l as [|c r]; [reflexivity|]. cbn [indent_of]. destruct (Ascii.eqb_spec c " ") as [->|]; [discriminate|reflexivity].
Qed.

Lemma group_no_orphans_head l r gs : group (l :: r) = (gs, []) -> toplevel l = true.
Proof. cbn [group]. destruct (group r) as [g o]. destruct (toplevel l); [reflexivity|discriminate]. Qed.

Lemma docstart_facts : toplevel docstart = true /\ forall b, parse_entry (docstart, b) = None.
Proof. split; reflexivity. Qed.

(* a document that parses as a column-0 block mapping is not an indented one *)
Lemma indented_none S gs es : group S = (gs, []) -> parse_entries (strip_docstart gs) = Some es -> indented S = None.
Proof.
  intros Hg Hp. destruct S as [|l r]; [reflexivity|]. unfold indented.
  destruct (String.eqb_spec l docstart) as [->|Hne].
  - destruct r as [|l2 r2]; [reflexivity|].
    assert (Ht : toplevel l2 = true).
    { cbn [group] in Hg. destruct (group r2) as [g o]. destruct (toplevel l2) eqn:Ht; [reflexivity|].
      destruct docstart_facts as [Hd Hpe]. rewrite Hd in Hg. injection Hg as <-.
      cbn [strip_docstart] in Hp. cbn [parse_entries] in Hp. now rewrite Hpe in Hp. }
    now rewrite (toplevel_indent0 _ Ht).
  - now rewrite (toplevel_indent0 _ (group_no_orphans_head _ _ _ Hg)).
Qed.

Lemma analyse_block_intro E gs es :
  forallb line_clean E = true -> group (sig_lines E) = (gs, []) ->
  parse_entries (strip_docstart gs) = Some es -> analyse E = RBlock es.
Proof.
  intros Hc Hg Hp. unfold analyse. rewrite Hc, (indented_none _ _ _ Hg Hp). cbn [negb]. unfold analyse_sig. rewrite Hg.
  destruct (strip_docstart gs) as [|[l b] r] eqn:Hs.
  - cbn [parse_entries] in Hp. now injection Hp as <-.
  - assert (Hl : prefix "{" l = false).
    { cbn [parse_entries] in Hp. destruct (parse_entry (l, b)) as [e|] eqn:He; [|discriminate Hp].
      now destruct (parse_entry_line _ _ _ He) as (_ & H & _). }
    rewrite Hl, Hp. reflexivity.
Qed.

Lemma analyse_block_inv E es : analyse E = RBlock es ->
  forallb line_clean E = true /\ exists gs, group (sig_lines E) = (gs, []) /\ parse_entries (strip_docstart gs) = Some es.
Proof.
  unfold analyse. destruct (forallb line_clean E); cbn [negb]; [|discriminate].
  destruct (indented (sig_lines E)) as [D|]; [destruct (analyse_sig D); discriminate|].
  unfold analyse_sig.
  destruct (group (sig_lines E)) as [gs [|o orph]]; [|discriminate].
  intro H. split; [reflexivity|]. exists gs. split; [reflexivity|].
  destruct (strip_docstart gs) as [|[l b] r].
  - now injection H as <-.
  - destruct (prefix "{" l).
    + destruct b; [destruct r; [destruct (flow_keys l)|]|]; discriminate H.
    + destruct (parse_entries ((l, b) :: r)); [now injection H as <-|discriminate H].
Qed.

(* ------------------------------------------------------------------ well-formed template sections *)
Definition sec_body (s : string * list string) : list string := tl (sig_lines (snd s)).
Definition sec_key_line (s : string * list string) : string := (fst s ++ ":")%string.
Definition sec_group (s : string * list string) : string * list string := (sec_key_line s, sec_body s).
Definition sec_entry (s : string * list string) : entry := (fst s, EmptyString, sec_body s).

Definition sec_wf (s : string * list string) : bool :=
  match snd s with t0 :: _ => String.eqb t0 marker_line1 | [] => false end
  && forallb line_clean (snd s)
  && match sig_lines (snd s) with kl :: b => String.eqb kl (sec_key_line s) && forallb is_cont b | [] => false end
  && match parse_entry (sec_key_line s, []) with Some e => entry_eqb e (fst s, EmptyString, []) | None => false end.

Lemma entry_eqb_eq a b : entry_eqb a b = true -> a = b.
Proof.
  destruct a as [[k v] body], b as [[k' v'] body']. unfold entry_eqb, ekey. cbn [fst snd].
  intro H. apply andb_true_iff in H as [H H3]. apply andb_true_iff in H as [H1 H2].
  apply String.eqb_eq in H1, H2. apply lines_eqb_eq in H3. now subst.
Qed.

Lemma sec_wf_facts s : sec_wf s = true ->
  (exists tr, snd s = marker_line1 :: tr) /\ forallb line_clean (snd s) = true /\
  sig_lines (snd s) = sec_key_line s :: sec_body s /\ forallb is_cont (sec_body s) = true /\
  parse_entry (sec_group s) = Some (sec_entry s).
Proof.
  unfold sec_wf, sec_group, sec_entry, sec_body. intro H.
  apply andb_true_iff in H as [H H4]. apply andb_true_iff in H as [H H3]. apply andb_true_iff in H as [H1 H2].
  split; [|split; [exact H2|]].
  - destruct (snd s) as [|t0 tr]; [discriminate H1|]. apply String.eqb_eq in H1. subst. now exists tr.
  - destruct (sig_lines (snd s)) as [|kl b]; [discriminate H3|].
    apply andb_true_iff in H3 as [Hk Hb]. apply String.eqb_eq in Hk. subst kl. cbn [tl].
    split; [reflexivity|]. split; [exact Hb|].
    destruct (parse_entry (sec_key_line s, [])) as [e|] eqn:He; [|discriminate H4].
    apply entry_eqb_eq in H4. subst e.
    now apply (parse_entry_body _ [] b).
Qed.

Definition secs_sig (ms : list (string * list string)) : list string := List.concat (map (fun s => sig_lines (snd s)) ms).

Lemma group_sections ms Z : forallb sec_wf ms = true -> snd (group Z) = [] ->
  group (secs_sig ms ++ Z) = (map sec_group ms ++ fst (group Z), []).
Proof.
  intros Hwf HZ. induction ms as [|s ms IH].
  - cbn [secs_sig map List.concat app]. destruct (group Z) as [g o]. cbn [snd] in HZ. now subst.
  - cbn [forallb] in Hwf. apply andb_true_iff in Hwf as [Hs Hms]. specialize (IH Hms).
    destruct (sec_wf_facts s Hs) as (_ & _ & Hsig & Hcont & Hpe).
    unfold secs_sig in *. cbn [map List.concat]. rewrite Hsig, <- app_assoc.
    change ((sec_key_line s :: sec_body s) ++ ?x) with (sec_key_line s :: (sec_body s ++ x)).
    cbn [group]. rewrite (group_cont _ _ Hcont), IH. cbn [fst snd].
    destruct (parse_entry_line _ _ _ Hpe) as (Ht & _). unfold sec_group in Ht. cbn [fst] in Ht.
    rewrite Ht, app_nil_r. reflexivity.
Qed.

Lemma parse_sections ms : forallb sec_wf ms = true -> parse_entries (map sec_group ms) = Some (map sec_entry ms).
Proof.
  induction ms as [|s ms IH]; [reflexivity|]. cbn [forallb]. intro H. apply andb_true_iff in H as [Hs Hms].
  cbn [map parse_entries]. destruct (sec_wf_facts s Hs) as (_ & _ & _ & _ & Hpe). now rewrite Hpe, (IH Hms).
Qed.

(* ------------------------------------------------------------------ the splice *)
Definition starts_entry (S2 : list string) : bool :=
  match S2 with [] => true | l :: _ => toplevel l && negb (String.eqb l docstart) end.

Lemma analyse_splice E es S1 S2 ms R :
  analyse E = RBlock es -> sig_lines E = S1 ++ S2 -> starts_entry S2 = true ->
  ms <> [] -> forallb sec_wf ms = true ->
  forallb line_clean R = true -> sig_lines R = S1 ++ secs_sig ms ++ S2 ->
  exists es1 es2, es = es1 ++ es2 /\ analyse R = RBlock (es1 ++ map sec_entry ms ++ es2).
Proof.
  intros HE HS Hb Hne Hwf HcR HR.
  destruct (analyse_block_inv _ _ HE) as (_ & gs & Hg & Hp).
  assert (HZ : snd (group S2) = []).
  { destruct S2 as [|l S2]; [reflexivity|]. cbn [starts_entry] in Hb. apply andb_true_iff in Hb as [Ht _]. now apply group_head_top. }
  rewrite HS, (group_app _ _ HZ) in Hg. destruct (group S1) as [G1 o1] eqn:HG1. cbn [fst snd] in Hg.
  injection Hg as Hgs Ho1. subst gs o1.
  assert (HgR : group (sig_lines R) = (G1 ++ map sec_group ms ++ fst (group S2), [])).
  { rewrite HR. rewrite group_app; rewrite (group_sections _ _ Hwf HZ); [|reflexivity]. now rewrite HG1. }
  (* the head of the groups that follow S1 is not a document start *)
  assert (Hkeep2 : strip_docstart (fst (group S2)) = fst (group S2)).
  { destruct S2 as [|l S2]; [reflexivity|]. cbn [starts_entry] in Hb. apply andb_true_iff in Hb as [Ht Hd].
    destruct (group_head_fst l S2 Ht) as [o Ho]. rewrite Ho. apply strip_docstart_keep. now destruct (String.eqb l docstart). }
  assert (HkeepT : forall X, strip_docstart (map sec_group ms ++ X) = map sec_group ms ++ X).
  { intro X. destruct ms as [|s ms]; [contradiction|]. cbn [forallb] in Hwf. apply andb_true_iff in Hwf as [Hs _].
    destruct (sec_wf_facts s Hs) as (_ & _ & _ & _ & Hpe). destruct (parse_entry_line _ _ _ Hpe) as (_ & _ & Hd).
    cbn [map app]. unfold sec_group at 1. apply strip_docstart_keep. exact Hd. }
  pose proof (parse_sections ms Hwf) as HpT.
  destruct G1 as [|g G1].
  - cbn [app] in Hp, HgR. rewrite Hkeep2 in Hp.
    exists [], es. split; [reflexivity|]. cbn [app].
    apply (analyse_block_intro R _ _ HcR HgR). rewrite HkeepT, parse_entries_app, HpT, Hp. reflexivity.
  - rewrite strip_docstart_app, parse_entries_app in Hp.
    destruct (parse_entries (strip_docstart (g :: G1))) as [es1|] eqn:H1; [|discriminate Hp].
    destruct (parse_entries (fst (group S2))) as [es2|] eqn:H2; [|discriminate Hp].
    injection Hp as <-. exists es1, es2. split; [reflexivity|].
    apply (analyse_block_intro R _ _ HcR HgR).
    rewrite strip_docstart_app, !parse_entries_app, H1, HpT, H2. reflexivity.
Qed.
