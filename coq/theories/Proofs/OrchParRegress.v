(* Proofs/OrchParRegress.v — the witnesses of the two repaired findings of C07, as regression theorems:
   the faithful model (Actual/OrchParActual.v, which follows the generated layer) now meets the specification on them. *)
From Coq Require Import Permutation.
From TL Require Import Lib.Base Lib.GenTypes Model.OrchParTypes Gen.OrchParGen Model.OrchPar Actual.OrchParActual.

Definition dup (f : nat) : violation :=
  [("rule_id", VStr "dry.duplicate-code"); ("file_path", VStr "m.py"); ("line", VInt false (2 + f)); ("column", VInt false 1);
   ("message", VStr "Duplicate code (3 lines, 4 occurrences)"); ("severity", VEnum "Severity" "ERROR"); ("suggestion", VNone)].
Definition w_report (ev : list nat) : list violation := match ev with [] => [] | _ => map dup ev end.
Definition all_seen (f : nat) : bool := true.
Definition none_seen (f : nat) : bool := false.

(* ---- repaired: regression theorems on the old witnesses ---- *)
(* old witness of q_par_crossfile_lost (corpus dry_4files_2workers): the worker pool is used and the duplicates are reported *)
Theorem crossfile_regression :
  par_run nat nat (fun _ => Some []) (fun f => f) w_report all_seen orchpar_actual (Some 2) 16 [3;1;0;2] [0;1;2;3]
  = seq_run nat nat (fun _ => Some []) (fun f => f) w_report [0;1;2;3]
  /\ seq_run nat nat (fun _ => Some []) (fun f => f) w_report [0;1;2;3] = Some (map dup [0;1;2;3])
  /\ crossfile_lost orchpar_actual = false.
Proof. repeat split; reflexivity. Qed.

(* old witness of q_worker_swallows_errors (corpus invalid_config_1worker): both runs raise; exit status 2 both ways *)
Theorem errors_regression :
  par_run nat nat (fun _ => None) (fun f => f) (fun _ => []) all_seen orchpar_actual (Some 1) 16 [1;0] [0;1] = None
  /\ seq_run nat nat (fun _ => None) (fun f => f) (fun _ => []) [0;1] = None
  /\ exit_code (FStartsWith "dry.", 1, 0) (par_run nat nat (fun _ => None) (fun f => f) (fun _ => []) all_seen orchpar_actual (Some 1) 16 [1;0] [0;1]) = 2
  /\ swallows orchpar_actual = false.
Proof. repeat split; reflexivity. Qed.

(* old witness of q_parent_evidence_raw_path (corpus dry_under_build_abs_2workers): the raw-path test would let no file
   through, but the parent loop now uses lint_file's test, so the table is not consulted and the duplicates are reported *)
Theorem parent_evidence_regression :
  par_run nat nat (fun _ => Some []) (fun f => f) w_report none_seen orchpar_actual (Some 2) 16 [3;1;0;2] [0;1;2;3]
  = seq_run nat nat (fun _ => Some []) (fun f => f) w_report [0;1;2;3]
  /\ parent_restricts orchpar_actual = false.
Proof. split; reflexivity. Qed.
