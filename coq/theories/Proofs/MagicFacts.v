(* Proofs/MagicFacts.v — what the proofs need from the generated layer (each fact is checked by
   computation against Gen/MagicGen.v, so an edit of a table, threshold, operator or key in the
   source breaks it), lemmas about names, and the literal-level value lemmas per language. *)
From Coq Require Import ZArith.
From TL Require Import Lib.Base Lib.GenTypes Gen.MagicGen Model.MagicNum Model.Magic Model.MagicSpec
     Proofs.MagicChars Proofs.MagicExtract.

(* ------------------------------------------------------------------ generated constants *)
Lemma gen_py_types :
  (py_numeric_types, py_range_value_types, py_enumerate_value_types, py_strrep_value_types, def_numeric_types, def_int_key_types)
  = (["int"; "float"], ["int"], ["int"], ["int"], ["int"; "float"], ["int"]).
Proof. reflexivity. Qed.

(* booleans are excluded where the source decides what a numeric constant / an integer key is *)
Lemma gen_py_excluded : (py_numeric_excluded, def_numeric_excluded, def_int_key_excluded) = (["bool"], ["bool"], ["bool"]).
Proof. reflexivity. Qed.

Lemma excl_fact b : excl b py_numeric_excluded = ["bool"] /\ excl b def_numeric_excluded = ["bool"] /\ excl b def_int_key_excluded = ["bool"].
Proof. destruct b; repeat split; reflexivity. Qed.

Lemma gen_py_bounds :
  (py_range_lo, py_range_lo_cmp, py_range_hi_cmp, py_enumerate_lo, py_enumerate_lo_cmp, py_enumerate_hi_cmp)
  = (0%Z, CLe, CLe, 0%Z, CLe, CLe).
Proof. reflexivity. Qed.

Lemma gen_py_names : (py_range_name, py_enumerate_name, py_test_prefix, py_test_infix) = ("range", "enumerate", "test_", "_test.py").
Proof. reflexivity. Qed.

Lemma gen_py_const : (py_const_len_cmp, py_const_len, py_const_parent_types, py_strrep_parent_types, py_strrep_op_types)
                     = (CGt, 1, ["Assign"], ["BinOp"], ["Mult"]).
Proof. reflexivity. Qed.

Lemma gen_defaults : default_max_small_integer = doc_default_max_small /\ forallb (Z.eqb default_max_small_integer) max_small_fallbacks = true.
Proof. split; reflexivity. Qed.

Lemma gen_config_keys : (cfg_key_allowed, cfg_key_max_small) = ("allowed_numbers", "max_small_integer") /\ smem "magic-numbers" cfg_section_keys = true.
Proof. split; reflexivity. Qed.

Lemma gen_def : (def_min_upper, def_min_upper_cmp, def_min_dict, def_min_dict_cmp, def_const_regex, def_const_short_cmp, def_const_short_len)
                = (10, CGe, 5, CGe, "^[A-Z][A-Z0-9_]*$", CLt, 2).
Proof. reflexivity. Qed.

Lemma gen_def_patterns : def_name_patterns = [(true, "_codes.py"); (false, "constants.py"); (true, "_constants.py")].
Proof. reflexivity. Qed.

Lemma gen_ts : (ts_number_type, ts_enum_type, ts_decl_types, ts_ident_types)
               = ("number", "enum_declaration", ["variable_declarator"; "lexical_declaration"; "pair"], ["identifier"; "property_identifier"]).
Proof. reflexivity. Qed.

Lemma gen_rs : (rs_numeric_types, rs_const_types, rs_test_attr_needle, rs_cfg_test_needle, rs_test_fn_type, rs_test_mod_type)
               = (["integer_literal"; "float_literal"], ["const_item"; "static_item"], "test", "cfg(test)", "function_item", "mod_item").
Proof. reflexivity. Qed.

Lemma gen_messages :
  (py_msg_prefix, py_msg_suffix, ts_msg_prefix, ts_msg_suffix, rs_msg_prefix, rs_msg_suffix)
  = ("Magic number ", " should be a named constant", "Magic number ", " should be a named constant", "Magic number ", " should be a named constant")
  /\ prefix_l (chars "magic-numbers") (chars magic_rule_id) = true.
Proof. split; reflexivity. Qed.

(* the default allowed set is the documented one *)
Lemma default_allowed_doc v : nmem v (map norm default_allowed_numbers) = nmem v (map norm doc_default_allowed).
Proof. apply nmem_same_set; vm_compute; reflexivity. Qed.

(* the fallback chains read from MagicNumberConfig.from_dict: language section, then top level, then default *)
Lemma gen_chains :
  (cfg_allowed_chain_lang, cfg_max_small_chain_lang, cfg_allowed_chain_top, cfg_max_small_chain_top)
  = (["lang"; "top"; "default"], ["lang"; "top"; "default"], ["top"; "default"], ["top"; "default"])
  /\ cfg_language_keys = ["python"; "typescript"; "javascript"; "rust"].
Proof. split; reflexivity. Qed.

Lemma raw_allowed_pick cfg :
  raw_allowed cfg = spec_pick (match c_lang cfg with Some (la, _) => la | None => None end) (c_allowed cfg) default_allowed_numbers.
Proof.
  unfold raw_allowed, spec_pick. replace cfg_allowed_chain_lang with ["lang"; "top"; "default"] by reflexivity.
  replace cfg_allowed_chain_top with ["top"; "default"] by reflexivity.
  destruct (c_lang cfg) as [[[la|] lm]|], (c_allowed cfg); reflexivity.
Qed.

Lemma allowed_spec cfg v : nmem v (allowed cfg) = nmem v (spec_allowed cfg).
Proof.
  unfold allowed, spec_allowed. rewrite raw_allowed_pick. unfold spec_pick.
  destruct (c_lang cfg) as [[[la|] lm]|], (c_allowed cfg); try reflexivity; apply default_allowed_doc.
Qed.

Lemma max_small_spec cfg : max_small cfg = spec_max_small cfg.
Proof.
  unfold max_small, spec_max_small, spec_pick. replace cfg_max_small_chain_lang with ["lang"; "top"; "default"] by reflexivity.
  replace cfg_max_small_chain_top with ["top"; "default"] by reflexivity.
  destruct (c_lang cfg) as [[la [lm|]]|], (c_max_small cfg); reflexivity.
Qed.

(* ------------------------------------------------------------------ names *)
Lemma upper_not_lower c : is_upper_char c = true -> is_lower_char c = false.
Proof.
  unfold is_upper_char, is_lower_char. intros H. apply andb_prop in H. destruct H as [_ H]. apply Nat.leb_le in H.
  apply andb_false_iff. left. apply Nat.leb_gt. lia.
Qed.

Lemma const_char_not_lower c : is_const_name_char c = true -> is_lower_char c = false.
Proof.
  unfold is_const_name_char. intros H. apply orb_true_iff in H. destruct H as [H|H].
  - apply orb_true_iff in H. destruct H as [H|H]; [apply upper_not_lower; exact H|].
    unfold is_digit_char, is_lower_char in *. apply andb_prop in H. destruct H as [_ H]. apply Nat.leb_le in H.
    apply andb_false_iff. left. apply Nat.leb_gt. lia.
  - apply Ascii.eqb_eq in H. subst c. reflexivity.
Qed.

Lemma length_chars s : List.length (chars s) = String.length s.
Proof. induction s as [|c s IH]; [reflexivity|]. cbn [chars list_ascii_of_string List.length String.length]. f_equal. exact IH. Qed.

(* the three name predicates of the sources against the documented convention *)
Lemma py_const_spec name : py_const_name name = spec_upper_name name.
Proof.
  unfold py_const_name, spec_upper_name, py_isupper. replace py_const_len_cmp with CGt by reflexivity. replace py_const_len with 1 by reflexivity.
  reflexivity.
Qed.

Lemma def_const_doc name : def_const_name name = doc_upper_name name.
Proof.
  unfold def_const_name, doc_upper_name. replace def_const_short_cmp with CLt by reflexivity. replace def_const_short_len with 2 by reflexivity.
  cbn [cmp_nat]. rewrite andb_comm. f_equal.
  destruct (Nat.ltb_spec (String.length name) 2); destruct (Nat.leb_spec 2 (String.length name)); try reflexivity; lia.
Qed.

Lemma forallb_const_no_lower r : forallb is_const_name_char r = true -> existsb is_lower_char r = false.
Proof.
  intros H. apply existsb_false_forallb. rewrite forallb_forall in *. intros x Hx. rewrite (const_char_not_lower x (H x Hx)). reflexivity.
Qed.

(* ^[A-Z][A-Z0-9_]+$ names are UPPER_CASE names *)
Lemma doc_upper_spec name : doc_upper_name name = true -> spec_upper_name name = true.
Proof.
  unfold doc_upper_name, spec_upper_name, re_const_name. intros H. apply andb_prop in H. destruct H as [H1 H2]. rewrite H2, andb_true_r.
  destruct (chars name) as [|c r]; [discriminate|]. apply andb_prop in H1. destruct H1 as [Hc Hr].
  cbn [existsb]. rewrite Hc, (upper_not_lower c Hc), (forallb_const_no_lower r Hr). reflexivity.
Qed.

Lemma spec_not_upper_def name : spec_upper_name name = false -> def_const_name name = false.
Proof.
  intros H. rewrite def_const_doc. destruct (doc_upper_name name) eqn:E; [|reflexivity]. rewrite (doc_upper_spec name E) in H. discriminate.
Qed.

(* letters-only upper case = some upper-case letter and no lower-case letter *)
Lemma letters_upper (s : list ascii) :
  match filter (fun c => is_upper_char c || is_lower_char c) s with [] => false | letters => forallb is_upper_char letters end
  = existsb is_upper_char s && negb (existsb is_lower_char s).
Proof.
  assert (G : forall s, forallb is_upper_char (filter (fun c => is_upper_char c || is_lower_char c) s) = negb (existsb is_lower_char s)).
  { induction s0 as [|x xs IH]; [reflexivity|]. cbn [filter existsb]. destruct (is_upper_char x) eqn:U.
    - cbn [orb forallb]. rewrite U, (upper_not_lower x U), IH. reflexivity.
    - cbn [orb]. destruct (is_lower_char x) eqn:L; [cbn [forallb]; rewrite U; reflexivity | exact IH]. }
  induction s as [|x xs IH]; [reflexivity|]. cbn [filter existsb]. destruct (is_upper_char x) eqn:U.
  - cbn [orb]. cbn [forallb]. rewrite U, (upper_not_lower x U), G. reflexivity.
  - cbn [orb]. destruct (is_lower_char x) eqn:L.
    + cbn [forallb]. rewrite U. cbn [negb]. rewrite andb_false_r. reflexivity.
    + exact IH.
Qed.

Lemma ts_upper_spec name : ts_upper_name name && (2 <=? String.length name) = spec_upper_name name.
Proof. unfold ts_upper_name, spec_upper_name. rewrite letters_upper. reflexivity. Qed.

(* the TypeScript predicate with the length requirement (flag off), or on a name that is not a single upper-case letter *)
Lemma ts_const_spec q name :
  (negb (q_ts_single_letter_const q) || negb (ts_upper_name name) || (2 <=? String.length name)) = true ->
  ts_const_name q name = spec_upper_name name.
Proof.
  intros H. rewrite <- ts_upper_spec. unfold ts_const_name.
  destruct (q_ts_single_letter_const q); [|reflexivity]. cbn [negb orb] in *.
  destruct (ts_upper_name name); [|reflexivity]. cbn [negb orb] in H. rewrite H. reflexivity.
Qed.

(* ------------------------------------------------------------------ lit_ok unpacked *)
Lemma lit_ok_int lg r gs up sfx :
  lit_ok lg (LInt r gs up sfx) = true -> groups_ok (base_of r) gs = true /\ dec_ok r gs = true.
Proof.
  cbn [lit_ok]. intros H. apply andb_prop in H. destruct H as [H _]. apply andb_prop in H. destruct H as [Hg Hz].
  split; [exact Hg | destruct r; exact Hz].
Qed.

Lemma lit_ok_float lg ip fp ex sfx :
  lit_ok lg (LFloat ip fp ex sfx) = true ->
  fdigits_ok ip = true /\ nonempty ip || nonempty fp = true /\ fdigits_ok fp = true /\ ex_ok ex = true /\ float_shape fp ex = true
  /\ (lg = MRs -> nonempty ip = true).
Proof.
  cbn [lit_ok]. intros H. repeat (apply andb_prop in H; destruct H as [H ?]).
  assert (Hfp : fdigits_ok fp = true).
  { destruct fp as [|f fp']; [reflexivity|]. match goal with X : digits_ok 10 (f :: fp') = true |- _ => exact X end. }
  destruct ip as [|i ip'].
  - destruct fp as [|f fp']; [destruct lg; discriminate|].
    repeat split; try assumption; try reflexivity. intros ->. discriminate.
  - unfold digits_ok in H. repeat split; try assumption; try reflexivity.
Qed.

(* ------------------------------------------------------------------ TypeScript: value of a literal *)
Lemma ts_lit_extract q l raw :
  lit_ok MTs l = true -> lit_raw l = Some raw ->
  ts_extract (q_ts_hex_e_float q) (q_ts_bigint_dropped q) (lit_chars l) = Some raw.
Proof.
  intros Hok Hr. destruct l as [r gs up sfx | ip fp ex sfx | b | s | s]; try discriminate.
  - cbn [lit_raw] in Hr. inversion Hr. subst raw.
    destruct (lit_ok_int _ _ _ _ _ Hok) as [Hg Hz].
    apply ts_extract_int; try assumption.
    cbn [lit_ok] in Hok. apply andb_prop in Hok. destruct Hok as [_ Hs]. exact Hs.
  - cbn [lit_raw] in Hr. inversion Hr. subst raw.
    destruct (lit_ok_float _ _ _ _ _ Hok) as [Hi [Hn [Hf [He [Hs _]]]]].
    assert (E : sfx = "").
    { cbn [lit_ok] in Hok. apply andb_prop in Hok. destruct Hok as [_ Hx]. apply String.eqb_eq. exact Hx. }
    subst sfx. apply ts_extract_float; assumption.
Qed.

(* ------------------------------------------------------------------ Rust: value of a literal *)
Lemma suffix_in_split sfx table : String.eqb sfx "" || suffix_in sfx table = true -> exists us s, sfx_split sfx table = Some (us, s).
Proof.
  intros H. unfold sfx_split. destruct (String.eqb sfx ""); [eauto|]. cbn [orb] in H.
  unfold suffix_in in H. destruct (smem sfx table); [eauto|]. cbn [orb] in H.
  apply existsb_exists in H. destruct H as [s [Hin He]].
  destruct (find (fun s0 => String.eqb sfx ("_" ++ s0)) table) eqn:F; [eauto|].
  exfalso. apply (find_none _ _ F) in Hin. cbn beta in Hin. congruence.
Qed.

Lemma suffix_in_app sfx a b : suffix_in sfx (a ++ b) = suffix_in sfx a || suffix_in sfx b.
Proof.
  unfold suffix_in. rewrite existsb_app.
  assert (M : smem sfx (a ++ b) = smem sfx a || smem sfx b).
  { induction a as [|x xs IH]; [reflexivity|]. cbn [app smem]. destruct (String.eqb sfx x); [reflexivity | exact IH]. }
  rewrite M. destruct (smem sfx a), (smem sfx b), (existsb _ a), (existsb _ b); reflexivity.
Qed.

Lemma rs_lit_extract q l raw :
  lit_ok MRs l = true -> lit_raw l = Some raw ->
  rs_extract (q_rs_hex_suffix_clash q) (rs_node_type l) (lit_chars l) = Some raw.
Proof.
  intros Hok Hr. rewrite rs_extract_code. destruct l as [r gs up sfx | ip fp ex sfx | b | s | s]; try discriminate.
  - cbn [lit_raw] in Hr. inversion Hr. subst raw.
    destruct (lit_ok_int _ _ _ _ _ Hok) as [Hg Hz].
    cbn [lit_ok] in Hok. apply andb_prop in Hok. destruct Hok as [_ Hs]. apply andb_prop in Hs. destruct Hs as [Hrad Hs].
    assert (S : exists us s, sfx_split sfx (rs_int_sfx_table r) = Some (us, s)).
    { apply suffix_in_split. destruct r; try discriminate; cbn [rs_int_sfx_table]; [rewrite suffix_in_app|..];
        destruct (String.eqb sfx ""), (suffix_in sfx int_suffixes); cbn in *; try reflexivity; try exact Hs; try discriminate. }
    destruct S as [us [s S]]. cbn [rs_node_type]. apply (rs_extract_int r up gs sfx us s); assumption.
  - cbn [lit_raw] in Hr. inversion Hr. subst raw.
    destruct (lit_ok_float _ _ _ _ _ Hok) as [Hi [_ [Hf [He [_ Hn]]]]]. specialize (Hn eq_refl).
    cbn [lit_ok] in Hok. apply andb_prop in Hok. destruct Hok as [_ Hs].
    destruct (suffix_in_split sfx float_suffixes Hs) as [us [s S]].
    cbn [rs_node_type]. apply (rs_extract_float ip fp ex sfx us s); assumption.
Qed.

(* ------------------------------------------------------------------ flat_map *)
Lemma flat_map_flat_map {A B C} (f : B -> list C) (g : A -> list B) l :
  flat_map f (flat_map g l) = flat_map (fun x => flat_map f (g x)) l.
Proof. induction l as [|x xs IH]; [reflexivity|]. cbn [flat_map]. rewrite flat_map_app, IH. reflexivity. Qed.

Lemma flat_map_ext_in {A B} (f g : A -> list B) l : (forall x, In x l -> f x = g x) -> flat_map f l = flat_map g l.
Proof.
  induction l as [|x xs IH]; intros H; [reflexivity|]. cbn [flat_map].
  rewrite (H x (or_introl eq_refl)), IH; [reflexivity|]. intros y Hy. apply H. right. exact Hy.
Qed.

Lemma flat_map_map {A B C} (f : B -> list C) (g : A -> B) l : flat_map f (map g l) = flat_map (fun x => f (g x)) l.
Proof. induction l as [|x xs IH]; [reflexivity|]. cbn [map flat_map]. rewrite IH. reflexivity. Qed.

Lemma flat_map_nil {A B} (f : A -> list B) l : (forall x, In x l -> f x = []) -> flat_map f l = [].
Proof. induction l as [|x xs IH]; intros H; [reflexivity|]. cbn [flat_map]. rewrite (H x (or_introl eq_refl)), IH; [reflexivity|]. intros y Hy. apply H. right. exact Hy. Qed.
