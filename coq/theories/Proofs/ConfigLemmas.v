(* Proofs/ConfigLemmas.v - dictionaries, key normalisation, section lookup, CLI overrides:
   the general lemmas behind the C05 theorems (arbitrary documents, arbitrary values). *)
From TL Require Import Lib.Base Lib.GenTypes Model.ConfigTypes Gen.ConfigGen Model.Config.
From Coq Require Import ZArith.

(* ------------------------------------------------------------------ dictionaries *)
Lemma get_set_same k v d : get k (dict_set k v d) = Some v.
Proof.
  induction d as [|[k' v'] r IH]; cbn [dict_set get].
  - now rewrite String.eqb_refl.
  - destruct (String.eqb k k') eqn:E; cbn [get]; [now rewrite String.eqb_refl|]. now rewrite E.
Qed.

Lemma get_set_other k k' v d : k <> k' -> get k (dict_set k' v d) = get k d.
Proof.
  intros N. induction d as [|[k2 v2] r IH]; cbn [dict_set get].
  - destruct (String.eqb_spec k k'); [contradiction|reflexivity].
  - destruct (String.eqb_spec k' k2) as [->|N2]; cbn [get].
    + destruct (String.eqb_spec k k2); [contradiction|reflexivity].
    + destruct (String.eqb_spec k k2); [reflexivity|exact IH].
Qed.

Lemma get_set k k' v d : get k (dict_set k' v d) = if String.eqb k k' then Some v else get k d.
Proof.
  destruct (String.eqb_spec k k') as [->|N]; [apply get_set_same|now apply get_set_other].
Qed.

(* ------------------------------------------------------------------ normalisation *)
Lemma norm_char_idem c : norm_char (norm_char c) = norm_char c.
Proof.
  unfold norm_char. cbn [norm_from norm_to].
  destruct (Ascii.eqb_spec c "-"%char) as [->|N]; [reflexivity|].
  destruct (Ascii.eqb_spec c "-"%char); [contradiction|reflexivity].
Qed.

Lemma norm_key_idem s : norm_key (norm_key s) = norm_key s.
Proof. induction s as [|c r IH]; cbn [norm_key]; [reflexivity|]. now rewrite norm_char_idem, IH. Qed.

Lemma get_fold_norm d : forall acc k,
  get k (fold_left norm_step d acc)
  = match find_last (fun kv => String.eqb (norm_key (fst kv)) k) d with Some v => Some v | None => get k acc end.
Proof.
  induction d as [|[k0 v0] r IH]; intros acc k; cbn [fold_left find_last]; [reflexivity|].
  rewrite IH. destruct (find_last _ r); [reflexivity|].
  unfold norm_step. cbn [fst snd]. rewrite get_set.
  rewrite (String.eqb_sym k). destruct (String.eqb (norm_key k0) k); reflexivity.
Qed.

Lemma get_normalize k raw :
  get k (normalize_top raw) = find_last (fun kv => String.eqb (norm_key (fst kv)) k) raw.
Proof. unfold normalize_top. rewrite get_fold_norm. now destruct (find_last _ raw). Qed.

Lemma find_last_some {A} (f : string * A -> bool) l v :
  find_last f l = Some v -> exists kv, In kv l /\ f kv = true.
Proof.
  revert v. induction l as [|kv r IH]; intros v; cbn [find_last]; [discriminate|].
  destruct (find_last f r) as [a|] eqn:E.
  - intros _. destruct (IH a eq_refl) as [x [Hin Hf]]. exists x. split; [now right|exact Hf].
  - destruct (f kv) eqn:F; [|discriminate]. intros _. exists kv. split; [now left|exact F].
Qed.

(* a dict none of whose keys changes under normalisation *)
Definition normal_dict (d : dict) : Prop := forall k, norm_key k <> k -> get k d = None.

Lemma normalize_normal raw : normal_dict (normalize_top raw).
Proof.
  intros k N. rewrite get_normalize.
  destruct (find_last _ raw) eqn:E; [|reflexivity].
  destruct (find_last_some _ _ _ E) as [kv [_ F]].
  apply String.eqb_eq in F. exfalso. apply N. rewrite <- F. apply norm_key_idem.
Qed.

Lemma normal_set k v d : normal_dict d -> norm_key k = k -> normal_dict (dict_set k v d).
Proof.
  intros Hd Hk k' N. rewrite get_set_other; [now apply Hd|]. intros ->. contradiction.
Qed.

(* ------------------------------------------------------------------ section lookup *)
Lemma first_present_rest rest cfg nk :
  normal_dict cfg -> get nk cfg = None ->
  forallb (fun k' => String.eqb k' nk || negb (String.eqb (norm_key k') k')) rest = true ->
  first_present rest false cfg = None.
Proof.
  intros Hn Hnk. induction rest as [|k r IH]; cbn [forallb first_present]; [reflexivity|].
  intros H. apply andb_true_iff in H. destruct H as [Hk Hr].
  assert (G : get k cfg = None).
  { apply orb_true_iff in Hk. destruct Hk as [E|E].
    - apply String.eqb_eq in E. now subst.
    - apply Hn. intros C. rewrite C, String.eqb_refl in E. discriminate. }
  rewrite G. now apply IH.
Qed.

Lemma find_section_good nk (r : lrow) cfg :
  normal_dict cfg ->
  (let '(s, ks, w) := r in row_good nk (s, ks, false) = true /\ w = false) ->
  match find_section r cfg with Some s => s | None => [] end = as_map (get nk cfg).
Proof.
  intros Hn. destruct r as [[s ks] w]. intros [G ->].
  destruct ks as [|k rest]; [destruct s; discriminate|].
  cbn [row_good] in G. apply andb_true_iff in G. destruct G as [G Hrest].
  apply andb_true_iff in G. destruct G as [Hs Hk]. apply String.eqb_eq in Hk. subst k.
  assert (F : find_section (s, nk :: rest, false) cfg = first_present (nk :: rest) false cfg).
  { destruct s; cbn [find_section meta_src] in *; try reflexivity; discriminate. }
  rewrite F. cbn [first_present].
  destruct (get nk cfg) eqn:E; [reflexivity|].
  now rewrite (first_present_rest rest cfg nk Hn E Hrest).
Qed.

(* ------------------------------------------------------------------ CLI overrides *)
Lemma get_set_lang_other k opt z s lang : k <> lang -> get k (set_lang opt z s lang) = get k s.
Proof.
  intros N. unfold set_lang. destruct (get lang s) as [[| | | |ls]|]; try reflexivity. now apply get_set_other.
Qed.

Lemma get_set_lang_same opt z s lang :
  get lang (set_lang opt z s lang)
  = match get lang s with Some (VMap ls) => Some (VMap (dict_set opt (VInt z) ls)) | x => x end.
Proof.
  unfold set_lang. destruct (get lang s) as [[| | | |ls]|] eqn:E; try exact E. apply get_set_same.
Qed.

Definition set_all_langs (opt : string) (z : Z) (s : dict) : dict := fold_left (set_lang opt z) all_languages s.

Lemma get_all_langs_other k opt z s : ~ In k all_languages -> get k (set_all_langs opt z s) = get k s.
Proof.
  intros N. unfold set_all_langs, all_languages in *. cbn [fold_left].
  repeat (rewrite get_set_lang_other; [|intros ->; apply N; cbn [In]; tauto]). reflexivity.
Qed.

Lemma get_all_langs_lang lang opt z s : In lang all_languages ->
  get lang (set_all_langs opt z s)
  = match get lang s with Some (VMap ls) => Some (VMap (dict_set opt (VInt z) ls)) | x => x end.
Proof.
  unfold set_all_langs, all_languages. cbn [fold_left In].
  intros [<-|[<-|[<-|[<-|[]]]]].
  - do 3 (rewrite get_set_lang_other; [|discriminate]). apply get_set_lang_same.
  - do 2 (rewrite get_set_lang_other; [|discriminate]). rewrite get_set_lang_same.
    rewrite get_set_lang_other; [reflexivity|discriminate].
  - rewrite get_set_lang_other; [|discriminate]. rewrite get_set_lang_same.
    do 2 (rewrite get_set_lang_other; [|discriminate]). reflexivity.
  - rewrite get_set_lang_same. do 3 (rewrite get_set_lang_other; [|discriminate]). reflexivity.
Qed.

(* the section after writing option [o] := z at the top and into every language sub-section *)
Definition overridden (o : string) (z : Z) (sect : dict) : dict := set_all_langs o z (dict_set o (VInt z) sect).

Lemma lookup_overridden lopts o z sect lang opt :
  In lang all_languages -> ~ In o all_languages -> ~ In opt all_languages ->
  opt_lookup lopts (overridden o z sect) lang opt
  = if String.eqb opt o then Some (VInt z) else opt_lookup lopts sect lang opt.
Proof.
  intros Hl Ho Hopt. unfold opt_lookup, overridden.
  rewrite (get_all_langs_other opt) by exact Hopt.
  rewrite (get_all_langs_lang lang) by exact Hl.
  rewrite (get_set_other lang o) by (intros ->; contradiction).
  rewrite !get_set.
  destruct (smem opt lopts); [|reflexivity].
  destruct (get lang sect) as [[| | | |ls]|]; try reflexivity.
  rewrite get_set. destruct (String.eqb opt o); [reflexivity|reflexivity].
Qed.
