(* Proofs/DryOracle.v — the executable clauses the judge evaluates on the IMPLEMENTATION's output
   (Model/DrySpec.v sound_b, mutual_b, count_b, complete_b) are sound checkers of the property clauses:
   whenever the judge accepts a reported list, the list satisfies the Prop-level clause. *)
From TL Require Import Lib.Base Lib.GenTypes Model.DryBase Model.DryPipe Model.DrySpec Proofs.DryGreedy Proofs.DryStageB.

Lemma range_of_canon files f s e : range_of (map ref_stream files) f s e = canon_range (nth_file files f) s e.
Proof.
  unfold range_of, canon_range, nth_file. change (@nil (nat * string)) with (ref_stream no_file). rewrite map_nth. reflexivity.
Qed.

Lemma list_eqb_string_eq : forall a b, list_eqb String.eqb a b = true -> a = b.
Proof.
  induction a as [|x xs IH]; intros [|y ys] H; cbn [list_eqb] in H; try discriminate; [reflexivity|].
  apply andb_true_iff in H. destruct H as [H1 H2]. apply String.eqb_eq in H1. subst y. f_equal. exact (IH ys H2).
Qed.

Theorem sound_b_sound files W R : sound_b files W R = true -> sound files W R.
Proof.
  intros H v Hv. unfold sound_b in H. cbn zeta in H. rewrite forallb_forall in H. specialize (H v Hv).
  rewrite range_of_canon in H. fold (v_text files v) in H.
  destruct (v_refs v) as [|r0 rest] eqn:Er; cbn [is_nil] in H; [discriminate|].
  destruct (W <=? List.length (v_text files v)) eqn:EW; [|discriminate]. apply Nat.leb_le in EW.
  unfold sound_v. rewrite Er. split; [discriminate|]. split; [exact EW|].
  intros f s e Hin. rewrite forallb_forall in H. specialize (H (f, s, e) Hin). cbn beta iota in H.
  destruct ((f =? v_file v) && (s =? v_line v)) eqn:Es; [discriminate|].
  rewrite range_of_canon in H. apply list_eqb_string_eq in H. split; [|exact H].
  intros E. inversion E; subst. rewrite !Nat.eqb_refl in Es. discriminate.
Qed.

Lemma covered_b_covered R f s e : covered_b R f s e = true <-> covered R f s e.
Proof. unfold covered_b, covered. rewrite existsb_exists. reflexivity. Qed.

Theorem mutual_b_mutual R : mutual_b R = true -> mutual R.
Proof.
  intros H v Hv f s e Hin. unfold mutual_b in H. rewrite forallb_forall in H. specialize (H v Hv).
  rewrite forallb_forall in H. specialize (H (f, s, e) Hin). cbn beta iota in H. apply covered_b_covered. exact H.
Qed.

Theorem count_b_ok rows R : rows_ok rows -> count_b rows R = true -> forall v, In v R -> count_ok rows v.
Proof.
  intros Hok H v Hv. unfold count_b in H. rewrite forallb_forall in H. specialize (H v Hv).
  apply existsb_exists in H. destruct H as [b [Hb H]].
  destruct ((r_file b =? v_file v) && (r_start b =? v_line v) && (r_end b =? v_end v)) eqn:E; [|discriminate].
  rewrite !andb_true_iff, !Nat.eqb_eq in E. destruct E as [[E1 E2] E3]. apply Nat.eqb_eq in H.
  exists b. repeat split; try assumption.
  - exists (places ref_bparams (r_snip b) rows). split; [exact (places_disjoint _ rows Hok)|symmetry; exact H].
  - intros ps Hps. rewrite H. exact (places_optimal _ rows ps Hok Hps).
Qed.

Theorem complete_b_complete rows k R : rows_ok rows -> 2 <= k -> complete_b rows k R = true -> complete rows k R.
Proof.
  intros Hok Hk H s ps Hps Hlen r Hr Hs.
  pose proof (places_optimal s rows ps Hok Hps) as Hopt.
  destruct (places_dom s rows r Hok Hr Hs) as [p [Hp [Hf [H1 H2]]]].
  destruct (places_incl s rows p Hp) as [Hpr Hpss].
  assert (Hdup : In s (dup_snips ref_bparams rows)).
  { apply dup_snips_in. split; [exists r; auto|]. destruct Hps as [Hnd [Hocc _]].
    unfold snip_count. apply (Nat.le_trans _ (List.length ps)); [lia|].
    apply NoDup_incl_length; [exact Hnd|]. intros x Hx. apply blocks_of_in. exact (Hocc x Hx). }
  unfold complete_b in H. rewrite forallb_forall in H. specialize (H s Hdup). cbn zeta in H.
  destruct (k <=? List.length (places ref_bparams s rows)) eqn:Ek; [|apply Nat.leb_gt in Ek; lia].
  rewrite forallb_forall in H. specialize (H p Hp). apply covered_b_covered in H.
  exists p. repeat split; [exact Hpr|exact Hpss|exact Hf| |exact H2|exact H].
  pose proof (ro_range _ Hok r Hr). lia.
Qed.

(* ------------------------------------------------------------------ rows_okb is a sound checker of rows_ok *)
From Coq Require Import Sorting.Sorted Relations.Relation_Definitions Classes.RelationClasses.

Definition row_step (a b : row) : Prop :=
  r_file a < r_file b \/ (r_file a = r_file b /\ r_start a < r_start b /\ r_end a < r_end b).

Lemma row_step_trans : Transitive row_step.
Proof. intros a b c H1 H2. unfold row_step in *. lia. Qed.

Lemma chainb_sorted : forall l, chainb l = true -> Sorted row_step l.
Proof.
  induction l as [|a [|b t] IH]; intros H; [constructor|constructor; constructor|].
  cbn [chainb] in H. destruct (row_stepb a b) eqn:E; [|discriminate].
  constructor; [exact (IH H)|]. constructor. unfold row_stepb in E. unfold row_step.
  rewrite orb_true_iff, !andb_true_iff, !Nat.ltb_lt, Nat.eqb_eq in E. tauto.
Qed.

Theorem rows_okb_ok rows : rows_okb rows = true -> rows_ok rows.
Proof.
  unfold rows_okb. destruct (forallb (fun r => r_start r <=? r_end r) rows) eqn:Er; [|discriminate]. intros Hc.
  pose proof (Sorted_StronglySorted row_step_trans (chainb_sorted rows Hc)) as Hss.
  rewrite forallb_forall in Er.
  assert (Hlt : StronglySorted row_lt rows).
  { clear -Hss. induction Hss as [|x l Hs IH Hall]; constructor; [exact IH|].
    rewrite Forall_forall in *. intros y Hy. specialize (Hall y Hy). unfold row_step in Hall. unfold row_lt. lia. }
  constructor; [exact Hlt| |].
  - intros r Hr. apply Nat.leb_le. exact (Er r Hr).
  - intros a b Ha Hb Hf Hs.
    assert (Hpair : forall l, StronglySorted row_step l -> In a l -> In b l -> r_end a < r_end b).
    { induction 1 as [|x l Hsl IH Hall]; intros Ha' Hb'; [contradiction|]. rewrite Forall_forall in Hall.
      destruct Ha' as [<-|Ha'], Hb' as [<-|Hb']; [lia| | |exact (IH Ha' Hb')].
      - specialize (Hall b Hb'). unfold row_step in Hall. lia.
      - specialize (Hall a Ha'). unfold row_step in Hall. lia. }
    exact (Hpair rows Hss Ha Hb).
Qed.
