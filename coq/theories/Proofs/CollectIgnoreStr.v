(* Proofs/CollectIgnoreStr.v — path-level facts behind the ignore matching of C14: joined paths versus
   their components (prefix directories, the last component, a component in the middle), Path.parts and
   str(Path(..)) of a normalised relative path, rstrip("/"), strip(). *)
From TL Require Import Lib.Base Model.CollectStr Model.Glob Model.Collect Model.CollectSpec Proofs.CollectStrFacts Proofs.GlobFacts.

(* ------------------------------------------------------------------ components *)
Lemma has_char_In c s : has_char c s = true <-> In c (la s).
Proof. apply amem_In. Qed.

Lemma comp_ok_props n : comp_ok n = true -> la n <> [] /\ no_slash (la n) /\ is_dot (la n) = false.
Proof.
  unfold comp_ok. rewrite !andb_true_iff, !negb_true_iff. intros [[H1 H2] H3]. repeat split.
  - destruct n; [discriminate|discriminate].
  - intro H. apply has_char_In in H. congruence.
  - destruct (is_dot (la n)) eqn:E; [|reflexivity]. exfalso.
    destruct (la n) as [|c [|d r]] eqn:L; try discriminate. cbn in E. apply aeqb_eq in E. subst c.
    assert (n = "."%string) by (apply la_inj; exact L). subst n. discriminate.
Qed.

Definition comps_ok (comps : list string) : Prop := comps <> [] /\ forallb comp_ok comps = true.

Lemma comps_ok_plain comps : forallb comp_ok comps = true -> comps_plain (map la comps).
Proof.
  intro H. rewrite forallb_forall in H. apply Forall_forall. intros x Hx. apply in_map_iff in Hx.
  destruct Hx as [n [<- Hn]]. now destruct (comp_ok_props n (H n Hn)) as [_ [? _]].
Qed.

Lemma la_pjoin comps : la (pjoin comps) = ljoin (map la comps).
Proof. apply la_sa. Qed.

Lemma map_sa_la l : map sa (map la l) = l.
Proof. induction l as [|x l IH]; [reflexivity|]. cbn. now rewrite sa_la, IH. Qed.

Lemma ljoin_head_char x r c l : la x = c :: l -> exists l', ljoin (map la (x :: r)) = c :: l'.
Proof.
  intro E. cbn [map]. destruct (map la r) eqn:R.
  - cbn. rewrite E. now exists l.
  - rewrite ljoin_cons by discriminate. rewrite E. cbn. eexists. reflexivity.
Qed.

Lemma filter_id {A} (f : A -> bool) l : (forall x, In x l -> f x = true) -> filter f l = l.
Proof.
  induction l as [|x l IH]; [reflexivity|]. intro H. cbn [filter]. rewrite (H x) by now left.
  f_equal. apply IH. intros y Hy. apply H. now right.
Qed.

(* Path(p).parts of a joined, normalised relative path gives the components back *)
Lemma path_parts_pjoin comps : comps_ok comps -> path_parts (pjoin comps) = comps.
Proof.
  intros [Hne Hok]. unfold path_parts. rewrite la_pjoin.
  assert (P := comps_ok_plain _ Hok).
  destruct comps as [|x r]; [congruence|].
  assert (Hx : comp_ok x = true) by (cbn in Hok; now apply andb_true_iff in Hok).
  destruct (comp_ok_props _ Hx) as [Hxne [Hxs _]].
  destruct (la x) as [|c l] eqn:Lx; [congruence|].
  destruct (ljoin_head_char x r c l Lx) as [l' E]. rewrite E.
  assert (Hc : aeqb c slash = false).
  { apply aeqb_neq. intros ->. apply Hxs. now left. }
  rewrite Hc. cbn [app]. rewrite <- E. rewrite lsplit_ljoin; [|discriminate|exact P].
  rewrite filter_id; [apply map_sa_la|].
  intros y Hy. apply in_map_iff in Hy. destruct Hy as [n [<- Hn]]. rewrite forallb_forall in Hok.
  destruct (comp_ok_props n (Hok n Hn)) as [H1 [_ H3]]. rewrite H3. destruct (la n); [congruence|reflexivity].
Qed.

Lemma path_norm_pjoin comps : comps_ok comps -> path_norm (pjoin comps) = pjoin comps.
Proof.
  intro H. unfold path_norm. rewrite path_parts_pjoin by exact H. destruct H as [Hne Hok].
  destruct comps as [|x r]; [congruence|].
  destruct (String.eqb_spec x "/") as [->|Hx]; [cbn in Hok; discriminate|].
  destruct x as [|c x]; [reflexivity|]. destruct c as [[] [] [] [] [] [] [] []]; try reflexivity.
  destruct x; [congruence|reflexivity].
Qed.

Lemma last_map_la comps : last (map la comps) [] = la (last comps "").
Proof.
  induction comps as [|x r IH]; [reflexivity|]. destruct r as [|y r]; [reflexivity|].
  change (last (map la (x :: y :: r)) []) with (last (map la (y :: r)) []). rewrite IH. reflexivity.
Qed.

(* ------------------------------------------------------------------ a slash-free suffix : the file name *)
Lemma suffix_of_path comps s :
  comps_ok comps -> no_slash (la s) ->
  (exists a, la (pjoin comps) = a ++ la s) <-> ends_with (last comps "") s = true.
Proof.
  intros [Hne Hok] Hs. rewrite la_pjoin, ends_with_spec, <- last_map_la.
  apply ljoin_suffix_last; [destruct comps; [congruence|discriminate]|exact Hs].
Qed.

(* ------------------------------------------------------------------ a directory prefix *)
Lemma proper_prefix_nil p : proper_prefix [] p = negb (lnil_s p).
Proof. destruct p; reflexivity. Qed.

Lemma prefix_of_path d : forall comps,
  d <> [] -> forallb comp_ok d = true -> forallb comp_ok comps = true ->
  (exists b, ljoin (map la comps) = ljoin (map la d) ++ slash :: b) <-> proper_prefix d comps = true.
Proof.
  induction d as [|x d IH]; [congruence|]. intros comps _ Hd Hc.
  cbn [forallb] in Hd. apply andb_true_iff in Hd. destruct Hd as [Hx Hd].
  destruct (comp_ok_props _ Hx) as [_ [Hxs _]].
  assert (Pc := comps_ok_plain _ Hc).
  destruct d as [|y d].
  - cbn [map ljoin]. split.
    + intros [b E]. destruct (ljoin_first _ _ _ Pc Hxs E) as [rest [Er [Hr _]]].
      destruct comps as [|z p]; [discriminate|]. cbn [map] in Er. injection Er as Ez Ep.
      apply la_inj in Ez. subst z. cbn [proper_prefix]. rewrite String.eqb_refl.
      destruct p; [cbn in Ep; congruence|reflexivity].
    + destruct comps as [|z p]; [discriminate|]. cbn [proper_prefix]. rewrite andb_true_iff, String.eqb_eq.
      intros [-> Hp]. destruct p as [|w p]; [discriminate|]. exists (ljoin (map la (w :: p))).
      cbn [map]. now rewrite ljoin_cons by discriminate.
  - change (map la (x :: y :: d)) with (la x :: map la (y :: d)). rewrite ljoin_cons by discriminate. split.
    + intros [b E]. rewrite <- app_assoc in E. cbn [app] in E.
      destruct (ljoin_first _ _ _ Pc Hxs E) as [rest [Er [Hr Eb]]].
      destruct comps as [|z p]; [discriminate|]. cbn [map] in Er. injection Er as Ez Ep.
      apply la_inj in Ez. subst z rest. cbn [proper_prefix]. rewrite String.eqb_refl. cbn [andb].
      cbn [forallb] in Hc. apply andb_true_iff in Hc. destruct Hc as [_ Hp].
      apply (IH p); [discriminate|exact Hd|exact Hp|]. exists b. now symmetry.
    + destruct comps as [|z p]; [discriminate|]. cbn [proper_prefix]. rewrite andb_true_iff, String.eqb_eq. intros [-> Hp].
      cbn [forallb] in Hc. apply andb_true_iff in Hc. destruct Hc as [_ Hpc].
      apply (IH p) in Hp; [|discriminate|exact Hd|exact Hpc]. destruct Hp as [b E].
      exists b. cbn [map]. assert (Hne : map la p <> []).
      { destruct p; [|discriminate]. exfalso. change (ljoin (map la [])) with (@nil ascii) in E. destruct (ljoin (map la (y :: d))); discriminate E. }
      rewrite ljoin_cons by exact Hne. rewrite E, <- app_assoc. reflexivity.
Qed.

(* ------------------------------------------------------------------ a component in the middle *)
Lemma mid_component n : forall comps a c,
  forallb comp_ok comps = true -> no_slash (la n) ->
  ljoin (map la comps) = a ++ slash :: la n ++ slash :: c -> In n (removelast comps).
Proof.
  induction comps as [|x r IH]; intros a c Hok Hn E.
  - cbn in E. destruct a; discriminate.
  - cbn [forallb] in Hok. apply andb_true_iff in Hok. destruct Hok as [Hx Hr].
    destruct (comp_ok_props _ Hx) as [_ [Hxs _]].
    destruct r as [|y r].
    + cbn in E. exfalso. apply Hxs. rewrite E. apply in_or_app. right. now left.
    + change (map la (x :: y :: r)) with (la x :: map la (y :: r)) in E. rewrite ljoin_cons in E by discriminate.
      assert (Hfirst : forall R, ljoin (map la (y :: r)) = la n ++ slash :: R -> In n (removelast (x :: y :: r))).
      { intros R ER. destruct (ljoin_first _ _ _ (comps_ok_plain _ Hr) Hn ER) as [rest [Erest [Hne _]]].
        cbn [map] in Erest. injection Erest as Ey Er. apply la_inj in Ey. subst y.
        change (removelast (x :: n :: r)) with (x :: removelast (n :: r)). right.
        destruct r; [cbn in Er; congruence|]. now left. }
      apply app_eq_app in E. destruct E as [l [[E1 E2]|[E1 E2]]].
      * destruct l as [|c0 l].
        -- cbn [app] in E2. injection E2 as E2. apply (Hfirst c). now symmetry.
        -- cbn [app] in E2. injection E2 as <- _. exfalso. apply Hxs. rewrite E1. apply in_or_app. right. now left.
      * destruct l as [|c0 l].
        -- cbn [app] in E2. injection E2 as E2. now apply (Hfirst c).
        -- cbn [app] in E2. injection E2 as <- E2.
           change (removelast (x :: y :: r)) with (x :: removelast (y :: r)). right.
           apply (IH l c Hr Hn E2).
Qed.

(* ------------------------------------------------------------------ rstrip("/") and endswith("/") *)
Lemma ldropwhile_stop f c r : f c = false -> ldropwhile f (c :: r) = c :: r.
Proof. intro H. cbn. now rewrite H. Qed.

Lemma rstrip_slash u v : v <> [] -> no_slash v -> rstrip_chars (sa (u ++ v ++ [slash])) "/" = sa (u ++ v).
Proof.
  intros Hne Hv. unfold rstrip_chars. rewrite la_sa. f_equal.
  rewrite app_assoc, rev_unit. cbn [ldropwhile]. change (amem slash (la "/")) with true. cbn iota.
  rewrite rev_app_distr. destruct (rev v) as [|c r] eqn:R.
  - apply (f_equal (@List.length ascii)) in R. rewrite rev_length in R. destruct v; [congruence|discriminate].
  - cbn [app]. rewrite ldropwhile_stop.
    + change (c :: r ++ rev u) with ((c :: r) ++ rev u). rewrite <- R, <- rev_app_distr. apply rev_involutive.
    + cbn. rewrite orb_false_r. apply aeqb_neq. intros ->. apply Hv. apply in_rev. rewrite R. now left.
Qed.

Lemma ends_with_slash_no s u v : la s = u ++ v -> v <> [] -> no_slash v -> ends_with s "/" = false.
Proof.
  intros E Hne Hv. destruct (ends_with s "/") eqn:H; [|reflexivity]. exfalso.
  apply ends_with_spec in H. destruct H as [r H]. rewrite E in H. change (la "/") with [slash] in H.
  apply (f_equal (@rev ascii)) in H. rewrite !rev_app_distr in H. cbn [rev app] in H.
  destruct (rev v) as [|c l] eqn:R.
  - apply (f_equal (@List.length ascii)) in R. rewrite rev_length in R. destruct v; [congruence|discriminate].
  - cbn in H. injection H as -> _. apply Hv. apply in_rev. rewrite R. now left.
Qed.

Lemma ends_with_slash_yes s u : la s = u ++ [slash] -> ends_with s "/" = true.
Proof. intro E. apply ends_with_spec. now exists u. Qed.

(* ------------------------------------------------------------------ "**/" at the front *)
Lemma not_dstar_plain_head pat c r : la pat = c :: r -> special c = false -> starts_with pat "**/" = false.
Proof.
  intros E Hc. destruct (starts_with pat "**/") eqn:H; [|reflexivity]. exfalso.
  apply starts_with_spec in H. destruct H as [r' H]. rewrite E in H. cbn in H. injection H as -> _. discriminate.
Qed.

Lemma not_dstar_star_plain pat c r : la pat = c_star :: c :: r -> special c = false -> starts_with pat "**/" = false.
Proof.
  intros E Hc. destruct (starts_with pat "**/") eqn:H; [|reflexivity]. exfalso.
  apply starts_with_spec in H. destruct H as [r' H]. rewrite E in H. cbn in H. injection H as -> _. discriminate.
Qed.

Lemma dstar_yes pat r : la pat = c_star :: c_star :: slash :: r -> starts_with pat "**/" = true /\ sdrop 3 pat = sa r.
Proof.
  intro E. split.
  - apply starts_with_spec. exists r. exact E.
  - unfold sdrop. now rewrite E.
Qed.

(* ------------------------------------------------------------------ plain text *)
Lemma no_special_plain s : no_special s = true -> plain (la s).
Proof.
  unfold no_special. rewrite negb_true_iff. intro H. apply Forall_forall. intros c Hc.
  destruct (special c) eqn:E; [|reflexivity]. exfalso.
  assert (existsb special (la s) = true) by (apply existsb_exists; now exists c). congruence.
Qed.

Lemma slash_plain : special slash = false.
Proof. reflexivity. Qed.

Lemma plain_app a b : plain a -> plain b -> plain (a ++ b).
Proof. intros. now apply Forall_app. Qed.

Lemma lit_ok_props n : lit_ok n = true -> comp_ok n = true /\ plain (la n).
Proof. unfold lit_ok. rewrite andb_true_iff. intros [H1 H2]. split; [exact H1|now apply no_special_plain]. Qed.

Lemma plain_ljoin d : forallb lit_ok d = true -> plain (ljoin (map la d)).
Proof.
  induction d as [|x d IH]; [constructor|]. cbn [forallb]. rewrite andb_true_iff. intros [Hx Hd].
  destruct (lit_ok_props _ Hx) as [_ Px]. destruct d as [|y d]; [exact Px|].
  change (map la (x :: y :: d)) with (la x :: map la (y :: d)). rewrite ljoin_cons by discriminate.
  apply plain_app; [exact Px|]. constructor; [reflexivity|now apply IH].
Qed.

Lemma lit_comps_ok d : forallb lit_ok d = true -> forallb comp_ok d = true.
Proof.
  rewrite !forallb_forall. intros H x Hx. now destruct (lit_ok_props _ (H x Hx)).
Qed.
