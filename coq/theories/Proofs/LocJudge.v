(* Proofs/LocJudge.v — C12: the executable clauses that judge the IMPLEMENTATION's output (Model/LocRun.v) are sound
   checkers of the property: an accepted report satisfies every clause of the property statement. *)
From TL Require Import Lib.Base Lib.GenTypes Model.LocTypes Gen.LocGen Model.Loc Model.LocRun Proofs.LocBase.

Lemma sprefix_spec p s : sprefix p s = true <-> exists b, s = (p ++ b)%string.
Proof.
  revert s. induction p as [|a p IH]; intros s; cbn [sprefix String.append].
  - split; [intros _; now exists s|reflexivity].
  - destruct s as [|c s]; [split; [discriminate|intros [b Hb]; discriminate]|].
    rewrite Bool.andb_true_iff, IH. split.
    + intros [Hac [b ->]]. apply Ascii.eqb_eq in Hac. subst. now exists b.
    + intros [b [= -> ->]]. split; [apply Ascii.eqb_refl|now exists b].
Qed.

(* `occurs n h` is Python's `n in h` *)
Theorem occurs_spec n h : occurs n h = true <-> exists a b, h = (a ++ n ++ b)%string.
Proof.
  induction h as [|c h IH]; cbn [occurs].
  - rewrite Bool.orb_false_r, sprefix_spec. split.
    + intros [b Hb]. now exists EmptyString, b.
    + intros [a [b Hb]]. destruct a; cbn [String.append] in Hb; [now exists b|discriminate].
  - rewrite Bool.orb_true_iff, sprefix_spec, IH. split.
    + intros [[b Hb]|[a [b Hb]]]; [now exists EmptyString, b|]. exists (String c a), b. cbn [String.append]. now rewrite Hb.
    + intros [a [b Hb]]. destruct a as [|x a]; cbn [String.append] in Hb; [left; now exists b|].
      right. injection Hb as -> ->. now exists a, b.
Qed.

Theorem spec_ok_sound f cs r : spec_ok f cs r = true ->
  1 <= r_line r <= nlines f
  /\ r_col r <= String.length (line_text f (r_line r))
  /\ (forall s, In s (r_quoted r) -> exists a b, line_text f (r_line r) = (a ++ s ++ b)%string)
  /\ (r_hdrs r <> [] -> exists h, In h (r_hdrs r) /\ occurs h (line_text f (r_line r)) = true)
  /\ (r_recorded r = true -> exists c, In c cs /\ k_builder c = r_builder r /\ (r_key r = "" \/ k_key c = r_key r) /\ r_line r = k_hrow c + 1).
Proof.
  unfold spec_ok, generic_ok. rewrite !Bool.andb_true_iff. intros [[[[HL HC] HQ] HH] HR].
  split; [now apply line_ok_spec|]. split; [now apply col_ok_spec|]. split; [|split].
  - intros s Hs. rewrite forallb_forall in HQ. apply occurs_spec. now apply HQ.
  - intros Hne. destruct (r_hdrs r) as [|h hs]; [congruence|]. apply existsb_exists in HH. exact HH.
  - intros Hrec. rewrite Hrec in HR. cbn [negb orb] in HR. apply existsb_exists in HR. destruct HR as [c [Hc Hl]].
    unfold cands in Hc. apply filter_In in Hc. destruct Hc as [Hc Hm]. unfold match_c in Hm.
    apply Bool.andb_true_iff in Hm. destruct Hm as [Hb Hk]. apply String.eqb_eq in Hb. apply Nat.eqb_eq in Hl.
    exists c. split; [exact Hc|]. split; [exact Hb|]. split; [|exact Hl].
    apply Bool.orb_true_iff in Hk. destruct Hk as [Hk|Hk]; apply String.eqb_eq in Hk; auto.
Qed.

(* a report that sits exactly where the ideal model puts a well-formed matching construct satisfies the
   positional clauses *)
Theorem model_hit_ideal_ok f cs r : model_hit loc_ideal f cs r = true -> forallb (wf_construct f) (cands r cs) = true ->
  exists c, In c cs /\ loc_ok f c (r_line r) (r_col r) = true.
Proof.
  unfold model_hit. intros H Hwf. apply existsb_exists in H. destruct H as [c [Hc Hp]].
  apply Bool.andb_true_iff in Hp. destruct Hp as [Hl Hcol]. apply Nat.eqb_eq in Hl. apply Nat.eqb_eq in Hcol.
  rewrite forallb_forall in Hwf. specialize (Hwf c Hc). unfold cands in Hc. apply filter_In in Hc.
  exists c. split; [exact (proj1 Hc)|]. rewrite Hl, Hcol. now apply model_ideal_ok.
Qed.
