(* Proofs/CfgConvert.v — what `config get` prints denotes the value that was accepted:
   convert (show (convert t)) = convert t for every text t (Model/CfgCli.v). *)
From TL Require Import Lib.Base Lib.GenTypes Model.CfgTypes Gen.CfgToolGen Model.CfgMerge Model.CfgCli Proofs.CfgCliProofs.
From Coq Require Import ZArith NArith DecimalString DecimalN DecimalPos Lia.

(* ------------------------------------------------------------------ decimal digits *)
Fixpoint uint_val (d : Decimal.uint) (acc : Z) : Z :=
  match d with
  | Decimal.Nil => acc
  | Decimal.D0 l => uint_val l (acc * 10 + 0) | Decimal.D1 l => uint_val l (acc * 10 + 1)
  | Decimal.D2 l => uint_val l (acc * 10 + 2) | Decimal.D3 l => uint_val l (acc * 10 + 3)
  | Decimal.D4 l => uint_val l (acc * 10 + 4) | Decimal.D5 l => uint_val l (acc * 10 + 5)
  | Decimal.D6 l => uint_val l (acc * 10 + 6) | Decimal.D7 l => uint_val l (acc * 10 + 7)
  | Decimal.D8 l => uint_val l (acc * 10 + 8) | Decimal.D9 l => uint_val l (acc * 10 + 9)
  end%Z.

Lemma digits_val_uint d acc : digits_val (NilEmpty.string_of_uint d) acc = uint_val d acc.
Proof. revert acc. induction d; intro acc; [reflexivity|..]; cbn [NilEmpty.string_of_uint uint_val]; rewrite <- IHd; reflexivity. Qed.

Lemma all_digits_uint d : all_digits (NilEmpty.string_of_uint d) = true.
Proof. induction d; [reflexivity|..]; cbn [NilEmpty.string_of_uint]; exact IHd. Qed.

Lemma uint_val_acc d (p : positive) : uint_val d (Zpos p) = Zpos (Pos.of_uint_acc d p).
Proof.
  revert p. induction d; intro p; [reflexivity|..]; cbn [uint_val Pos.of_uint_acc]; rewrite <- IHd; f_equal; lia.
Qed.

Lemma uint_val_of_uint d : uint_val d 0 = Z.of_N (N.of_uint d).
Proof.
  unfold N.of_uint. induction d; [reflexivity|exact IHd|..]; cbn [uint_val Pos.of_uint];
    change (0 * 10 + ?k)%Z with k; rewrite uint_val_acc; reflexivity.
Qed.

Lemma show_abs_value z : digits_val (show_abs z) 0 = Z.abs z.
Proof.
  unfold show_abs. rewrite digits_val_uint, uint_val_of_uint, DecimalN.Unsigned.of_to, Z2N.id; [reflexivity|apply Z.abs_nonneg].
Qed.

Lemma show_abs_digits z : all_digits (show_abs z) = true.
Proof. apply all_digits_uint. Qed.

Lemma show_abs_nonempty z : nonempty (show_abs z) = true.
Proof.
  unfold show_abs. destruct (Z.to_N (Z.abs z)) as [|p]; [reflexivity|]. cbn [N.to_uint].
  pose proof (DecimalPos.Unsigned.to_uint_nonnil p) as H. destruct (Pos.to_uint p); [contradiction|..]; reflexivity.
Qed.

(* a non-empty all-digit string starts with a digit: no sign to split off, no boolean word, no dot *)
Lemma digit_head s : nonempty s = true -> all_digits s = true -> exists c r, s = String c r /\ is_digit c = true.
Proof. destruct s as [|c r]; [discriminate|]. cbn [all_digits]. intros _ H. apply andb_true_iff in H as [H _]. now exists c, r. Qed.

Lemma digit_char_facts c : is_digit c = true ->
  Ascii.eqb c "-" = false /\ Ascii.eqb c "+" = false /\ Ascii.eqb c "." = false /\ lower_char c = c /\
  Ascii.eqb c "t" = false /\ Ascii.eqb c "f" = false.
Proof.
  destruct c as [[|] [|] [|] [|] [|] [|] [|] [|]]; vm_compute; intro H; try discriminate H; repeat split; reflexivity.
Qed.

Lemma split_sign_digit s c r : s = String c r -> is_digit c = true -> split_sign s = (false, s).
Proof.
  intros -> H. destruct (digit_char_facts c H) as (H1 & H2 & _). unfold split_sign.
  destruct c as [[|] [|] [|] [|] [|] [|] [|] [|]]; try reflexivity; discriminate.
Qed.

Lemma conv_int_show z : conv_int (show_Z z) = Some z.
Proof.
  unfold conv_int, show_Z. destruct (Z.ltb_spec z 0) as [Hn|Hp].
  - cbn [split_sign String.append]. rewrite show_abs_nonempty, show_abs_digits, show_abs_value. cbn [andb]. f_equal. lia.
  - destruct (digit_head _ (show_abs_nonempty z) (show_abs_digits z)) as (c & r & Hs & Hc).
    rewrite (split_sign_digit _ c r Hs Hc), show_abs_nonempty, show_abs_digits, show_abs_value. cbn [andb]. f_equal. lia.
Qed.

(* texts that do not start with a letter are no boolean words *)
Lemma not_bool_word s c r : s = String c r -> Ascii.eqb (lower_char c) "t" = false -> Ascii.eqb (lower_char c) "f" = false ->
  smem (lower s) ["true"; "false"] = false.
Proof.
  intros -> Ht Hf. cbn [lower smem String.eqb]. rewrite Ht, Hf. reflexivity.
Qed.

Lemma show_Z_head z : exists c r, show_Z z = String c r /\ Ascii.eqb (lower_char c) "t" = false /\ Ascii.eqb (lower_char c) "f" = false.
Proof.
  unfold show_Z. destruct (Z.ltb z 0).
  - exists "-"%char, (show_abs z). repeat split; reflexivity.
  - destruct (digit_head _ (show_abs_nonempty z) (show_abs_digits z)) as (c & r & Hs & Hc).
    exists c, r. destruct (digit_char_facts c Hc) as (_ & _ & _ & -> & Ht & Hf). now repeat split.
Qed.

Theorem convert_show_int z : convert_doc (show (VInt z)) = VInt z.
Proof.
  cbn [show]. unfold convert_doc. destruct (show_Z_head z) as (c & r & Hs & Ht & Hf).
  rewrite (not_bool_word _ c r Hs Ht Hf). cbn [conv_by String.eqb Ascii.eqb Bool.eqb]. now rewrite conv_int_show.
Qed.

(* ------------------------------------------------------------------ decimals *)
Lemma strip_zeros_zero r : strip_zeros (String "0" r) = strip_zeros r. Proof. reflexivity. Qed.
Lemma strip_zeros_nonzero c r : Ascii.eqb c "0" = false -> strip_zeros (String c r) = String c r.
Proof. destruct c as [[|] [|] [|] [|] [|] [|] [|] [|]]; try reflexivity; discriminate. Qed.

Lemma strip_zeros_idem x : strip_zeros (strip_zeros x) = strip_zeros x.
Proof.
  induction x as [|c r IH]; [reflexivity|]. destruct (Ascii.eqb_spec c "0") as [->|Hne].
  - now rewrite strip_zeros_zero.
  - assert (H : Ascii.eqb c "0" = false) by (destruct (Ascii.eqb_spec c "0"); congruence).
    now rewrite !(strip_zeros_nonzero c r H).
Qed.

Lemma strip_zeros_or0 x : strip_zeros (or0 (strip_zeros x)) = strip_zeros x.
Proof. pose proof (strip_zeros_idem x) as H. destruct (strip_zeros x); [reflexivity|exact H]. Qed.

Lemma all_digits_strip x : all_digits x = true -> all_digits (strip_zeros x) = true.
Proof.
  induction x as [|c r IH]; [reflexivity|]. intro H. destruct (Ascii.eqb_spec c "0") as [->|Hne].
  - rewrite strip_zeros_zero. apply IH. cbn [all_digits] in H. now apply andb_true_iff in H as [_ H].
  - assert (H0 : Ascii.eqb c "0" = false) by (destruct (Ascii.eqb_spec c "0"); congruence). now rewrite (strip_zeros_nonzero c r H0).
Qed.

Lemma rstrip_zeros_cons c r :
  rstrip_zeros (String c r) = match rstrip_zeros r with
                              | EmptyString => if Ascii.eqb c "0" then EmptyString else String c EmptyString
                              | String d r' => String c (String d r')
                              end.
Proof. reflexivity. Qed.

Lemma rstrip_zeros_idem x : rstrip_zeros (rstrip_zeros x) = rstrip_zeros x.
Proof.
  induction x as [|c r IH]; [reflexivity|]. rewrite rstrip_zeros_cons. destruct (rstrip_zeros r) as [|d r'] eqn:Hr.
  - destruct (Ascii.eqb c "0") eqn:Hc; [reflexivity|]. rewrite rstrip_zeros_cons. cbn [rstrip_zeros]. now rewrite Hc.
  - rewrite rstrip_zeros_cons, IH. reflexivity.
Qed.

Lemma rstrip_zeros_or0 x : rstrip_zeros (or0 (rstrip_zeros x)) = rstrip_zeros x.
Proof. pose proof (rstrip_zeros_idem x) as H. destruct (rstrip_zeros x); [reflexivity|exact H]. Qed.

Lemma all_digits_rstrip x : all_digits x = true -> all_digits (rstrip_zeros x) = true.
Proof.
  induction x as [|c r IH]; [reflexivity|]. cbn [all_digits]. intro H. apply andb_true_iff in H as [Hc Hr].
  rewrite rstrip_zeros_cons. specialize (IH Hr). destruct (rstrip_zeros r) as [|d r'].
  - destruct (Ascii.eqb c "0"); [reflexivity|]. cbn [all_digits]. now rewrite Hc.
  - change (is_digit c && all_digits (String d r') = true). now rewrite Hc.
Qed.

Lemma all_digits_or0 x : all_digits x = true -> all_digits (or0 x) = true.
Proof. destruct x; [reflexivity|trivial]. Qed.
Lemma nonempty_or0 x : nonempty (or0 x) = true.
Proof. destruct x; reflexivity. Qed.

Lemma split_dot_digit c r : is_digit c = true ->
  split_dot (String c r) = match split_dot r with Some (a, b) => Some (String c a, b) | None => None end.
Proof. destruct c as [[|] [|] [|] [|] [|] [|] [|] [|]]; vm_compute; intro H; try discriminate H; reflexivity. Qed.

Lemma split_dot_join a b : all_digits a = true -> split_dot (a ++ String "." b) = Some (a, b).
Proof.
  induction a as [|c r IH]; [reflexivity|]. cbn [all_digits String.append]. intro H. apply andb_true_iff in H as [Hc Hr].
  now rewrite (split_dot_digit c _ Hc), (IH Hr).
Qed.

Lemma all_digits_dot a b : all_digits (a ++ String "." b) = false.
Proof. induction a as [|c r IH]; [reflexivity|]. cbn [String.append all_digits]. rewrite IH. apply andb_false_r. Qed.

(* the decimals conv_float produces *)
Definition float_cond (ip' fp' : string) : bool :=
  (String.length ip' + String.length fp' <=? 15) && (nonempty ip' || negb (nonempty fp') || (leading_zeros fp' <=? 3)).

Lemma conv_float_form t v : conv_float t = Some v ->
  exists neg ip0 fp0, all_digits ip0 = true /\ all_digits fp0 = true /\
    float_cond (strip_zeros ip0) (rstrip_zeros fp0) = true /\
    v = VFloat neg (or0 (strip_zeros ip0)) (or0 (rstrip_zeros fp0)).
Proof.
  unfold conv_float. destruct (split_sign t) as [neg d]. destruct (split_dot d) as [[ip fp]|]; [|discriminate].
  destruct (nonempty ip && nonempty fp && all_digits ip && all_digits fp) eqn:H1; [|discriminate].
  fold (float_cond (strip_zeros ip) (rstrip_zeros fp)).
  destruct (float_cond (strip_zeros ip) (rstrip_zeros fp)) eqn:H2; [|discriminate]. intros [= <-].
  apply andb_true_iff in H1 as [H1 Hf]. apply andb_true_iff in H1 as [_ Hi].
  now exists neg, ip, fp.
Qed.

Lemma conv_float_show neg ip0 fp0 :
  all_digits ip0 = true -> all_digits fp0 = true -> float_cond (strip_zeros ip0) (rstrip_zeros fp0) = true ->
  let v := VFloat neg (or0 (strip_zeros ip0)) (or0 (rstrip_zeros fp0)) in
  convert_doc (show v) = v.
Proof.
  intros Hi Hf Hc v. set (ip := or0 (strip_zeros ip0)). set (fp := or0 (rstrip_zeros fp0)).
  assert (Hip : all_digits ip = true) by (apply all_digits_or0, all_digits_strip, Hi).
  assert (Hfp : all_digits fp = true) by (apply all_digits_or0, all_digits_rstrip, Hf).
  destruct (digit_head ip (nonempty_or0 _) Hip) as (c & r & Hs & Hd).
  destruct (digit_char_facts c Hd) as (_ & _ & _ & Hlow & Ht & Hfl).
  set (body := (ip ++ String "." fp)%string).
  assert (Hbody : body = String c (r ++ String "." fp)%string) by (unfold body; now rewrite Hs).
  (* the printed text, its sign and its remainder *)
  assert (Hshow : exists c0 r0, show v = String c0 r0 /\ Ascii.eqb (lower_char c0) "t" = false /\ Ascii.eqb (lower_char c0) "f" = false
                                /\ split_sign (show v) = (neg, body) /\ all_digits (snd (split_sign (show v))) = false).
  { unfold v. cbn [show]. fold ip fp. destruct neg.
    - exists "-"%char, body. unfold body. cbn [String.append split_sign snd]. repeat split; try reflexivity. apply all_digits_dot.
    - exists c, (r ++ String "." fp)%string. cbn [String.append]. fold body. rewrite Hbody, Hlow. repeat split; try assumption.
      + apply (split_sign_digit _ c _ eq_refl Hd).
      + rewrite (split_sign_digit _ c _ eq_refl Hd). cbn [snd]. rewrite <- Hbody. apply all_digits_dot. }
  destruct Hshow as (c0 & r0 & Hsv & Ht0 & Hf0 & Hsign & Hnd).
  unfold convert_doc. rewrite (not_bool_word _ c0 r0 Hsv Ht0 Hf0). cbn [conv_by String.eqb Ascii.eqb Bool.eqb].
  assert (Hint : conv_int (show v) = None).
  { unfold conv_int. rewrite Hsign in *. cbn [snd] in Hnd. rewrite Hnd. now rewrite andb_false_r. }
  rewrite Hint. unfold conv_float. rewrite Hsign. unfold body. rewrite (split_dot_join ip fp Hip).
  unfold ip at 1 2, fp at 1 2. rewrite !nonempty_or0. fold ip fp. rewrite Hip, Hfp. cbn [andb].
  unfold ip, fp. rewrite strip_zeros_or0, rstrip_zeros_or0. fold (float_cond (strip_zeros ip0) (rstrip_zeros fp0)). rewrite Hc. reflexivity.
Qed.

(* ------------------------------------------------------------------ the round trip *)
Theorem convert_show_roundtrip t : convert_doc (show (convert_doc t)) = convert_doc t.
Proof.
  unfold convert_doc at 2 3. destruct (smem (lower t) ["true"; "false"]) eqn:Hb.
  - destruct (String.eqb (lower t) "true"); reflexivity.
  - cbn [conv_by String.eqb Ascii.eqb Bool.eqb]. destruct (conv_int t) as [z|] eqn:Hi; [apply convert_show_int|].
    destruct (conv_float t) as [v|] eqn:Hf.
    + destruct (conv_float_form t v Hf) as (neg & ip0 & fp0 & H1 & H2 & H3 & ->). now apply conv_float_show.
    + cbn [show]. unfold convert_doc. rewrite Hb. cbn [conv_by String.eqb Ascii.eqb Bool.eqb]. now rewrite Hi, Hf.
Qed.

Corollary get_prints_the_accepted_value t : convert (show (convert t)) = convert t.
Proof. rewrite !convert_is_documented. apply convert_show_roundtrip. Qed.
