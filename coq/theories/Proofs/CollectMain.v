(* Proofs/CollectMain.v — C14 main theorems: which files reach the rules.
   One general theorem (the model under a quirk vector q equals the specification whenever every
   flag of q is either off or cannot matter on the input), with two corollaries: all flags off =>
   exact on every input (full strength); any vector, in particular the faithful one => exact on
   every input outside the listed defect classes (confinement). *)
From TL Require Import Lib.Base Model.CollectStr Model.Glob Gen.CollectGen Model.Collect Model.CollectSpec
     Actual.CollectActual
     Proofs.CollectStrFacts Proofs.GlobFacts Proofs.CollectTables Proofs.CollectIgnoreStr Proofs.CollectWalk Proofs.CollectIgnore.

(* ------------------------------------------------------------------ .thailintignore lines *)
Lemma ldropwhile_all f l r : forallb f l = true -> ldropwhile f (l ++ r) = ldropwhile f r.
Proof. induction l as [|c l IH]; [reflexivity|]. cbn [forallb app ldropwhile]. rewrite andb_true_iff. intros [-> H]. now apply IH. Qed.

Lemma ldropwhile_snoc f l c : f c = false -> ldropwhile f (l ++ [c]) = ldropwhile f l ++ [c].
Proof.
  intro H. induction l as [|d l IH]; cbn [app ldropwhile]; [now rewrite H|]. destruct (f d); [exact IH|reflexivity].
Qed.

Lemma la_spaces_ws n : forallb is_ws (la (spaces n)) = true.
Proof. induction n as [|n IH]; [reflexivity|]. cbn [spaces]. rewrite la_cons. cbn [forallb]. now rewrite IH. Qed.

Lemma forallb_rev {A} (f : A -> bool) l : forallb f (rev l) = forallb f l.
Proof.
  induction l as [|x l IH]; [reflexivity|]. cbn [rev forallb]. rewrite forallb_app, IH. cbn. rewrite andb_true_r. apply andb_comm.
Qed.

Lemma strip_padded a b s : line_safe s = true -> strip_ws (spaces a ++ s ++ spaces b) = s.
Proof.
  unfold line_safe, first_is, last_is. rewrite !andb_true_iff, !negb_true_iff. intros [[[Hne Hf] Hl] _].
  unfold strip_ws. rewrite !la_app. rewrite ldropwhile_all by apply la_spaces_ws.
  destruct (la s) as [|c r] eqn:L; [destruct s; discriminate|].
  cbn [app]. rewrite ldropwhile_stop by exact Hf.
  change (c :: r ++ la (spaces b)) with ((c :: r) ++ la (spaces b)). rewrite rev_app_distr.
  rewrite ldropwhile_all by (rewrite forallb_rev; apply la_spaces_ws).
  destruct (rev (c :: r)) as [|c' r'] eqn:R.
  - apply (f_equal (@List.length ascii)) in R. rewrite rev_length in R. discriminate.
  - rewrite ldropwhile_stop by exact Hl. rewrite <- R, rev_involutive, <- L. apply sa_la.
Qed.

Lemma strip_comment s : starts_with (strip_ws ("#" ++ s)) "#" = true.
Proof.
  unfold strip_ws. change (la ("#" ++ s)) with ("#"%char :: la s). rewrite ldropwhile_stop by reflexivity.
  cbn [rev]. rewrite ldropwhile_snoc by reflexivity. rewrite rev_unit. apply starts_with_spec.
  rewrite la_sa. eexists. reflexivity.
Qed.

Lemma strip_blank n : strip_ws (spaces n) = ""%string.
Proof.
  unfold strip_ws. rewrite <- (app_nil_r (la (spaces n))). rewrite ldropwhile_all by apply la_spaces_ws. reflexivity.
Qed.

Lemma line_safe_keep s : line_safe s = true -> nonempty s && negb (starts_with s "#") = true.
Proof. unfold line_safe. rewrite !andb_true_iff. intros [[[H1 _] _] H4]. now split. Qed.

Lemma pat_ok_line_safe p : pat_ok p = true -> line_safe (render p) = true.
Proof. unfold pat_ok. rewrite andb_true_iff. now intros [H _]. Qed.

Lemma extract_render ls :
  forallb line_ok ls = true -> extract_patterns_gen (map render_line ls) = map render (flat_map line_pats ls).
Proof.
  rewrite extract_patterns_gen_spec. induction ls as [|l ls IH]; [reflexivity|]. cbn [forallb]. rewrite andb_true_iff. intros [Hl Hls].
  cbn [map filter flat_map]. rewrite map_app, <- IH by exact Hls. destruct l as [a b p|s|n]; cbn [render_line line_pats map app].
  - cbn [line_ok] in Hl. rewrite strip_padded by now apply pat_ok_line_safe.
    now rewrite line_safe_keep by now apply pat_ok_line_safe.
  - rewrite strip_comment. now rewrite andb_false_r.
  - now rewrite strip_blank.
Qed.

(* ------------------------------------------------------------------ where the patterns come from *)
Lemma opt_list_map {A} (f : A -> string) o : opt_list (option_map (map f) o) = map f (opt_pats o).
Proof. now destruct o. Qed.

Definition json_clear (q : cquirks) (S : tsources) : Prop :=
  q_json_ignore_unused q = false \/ opt_pats (t_json S) = [].
Definition ti_clear (q : cquirks) (S : tsources) : Prop :=
  q_ti_shadows_config q = false \/ t_ti S = None \/ (opt_pats (t_yaml S) = [] /\ opt_pats (t_json S) = []).

Lemma names_all : ignore_config_names = [".thailint.yaml"; ".thailint.json"]%string.
Proof. reflexivity. Qed.

Lemma names_nojson : filter (fun n => negb (String.eqb n ".thailint.json")) ignore_config_names = [".thailint.yaml"]%string.
Proof. reflexivity. Qed.

Lemma config_patterns_spec q S : json_clear q S -> one_config S = true ->
  config_patterns q (render_sources S) = map render (opt_pats (t_yaml S) ++ opt_pats (t_json S)).
Proof.
  intros H H1. unfold config_patterns, json_clear, one_config in *. rewrite names_nojson, names_all.
  assert (Ey : source_of (render_sources S) ".thailint.yaml" = option_map (map render) (t_yaml S)) by reflexivity.
  assert (Ej : source_of (render_sources S) ".thailint.json" = option_map (map render) (t_json S)) by reflexivity.
  destruct (t_yaml S) as [y|], (t_json S) as [j|]; try discriminate H1; cbn [opt_pats option_map] in *.
  - destruct (q_json_ignore_unused q); cbn [first_config]; rewrite Ey; now rewrite app_nil_r.
  - destruct (q_json_ignore_unused q); cbn [first_config]; rewrite ?Ey, ?Ej; cbn [app].
    + destruct H as [H|H]; [discriminate|]. now rewrite H.
    + reflexivity.
  - destruct (q_json_ignore_unused q); cbn [first_config]; rewrite ?Ey, ?Ej; reflexivity.
Qed.

Lemma load_patterns_spec q S : json_clear q S -> ti_clear q S -> one_config S = true -> forallb line_ok (opt_pats (t_ti S)) = true ->
  load_patterns q (render_sources S) = map render (spec_pats S).
Proof.
  intros Hj Ht H1 Hl. unfold load_patterns, spec_pats. rewrite (config_patterns_spec q S Hj H1).
  change (s_ti (render_sources S)) with (option_map (map render_line) (t_ti S)).
  destruct (t_ti S) as [ls|] eqn:Eti; cbn [option_map opt_pats flat_map app].
  - cbn [opt_pats] in Hl. rewrite extract_render by exact Hl.
    rewrite (map_app render (flat_map line_pats ls)). f_equal.
    change (negb load_combines_sources) with false. rewrite orb_false_r.
    destruct Ht as [-> | [Ht | [H2 H3]]]; [reflexivity|congruence|].
    rewrite H2, H3. cbn. now destruct (q_ti_shadows_config q).
  - reflexivity.
Qed.

(* ------------------------------------------------------------------ gate 2 *)
Lemma existsb_map {A B} (f : B -> bool) (g : A -> B) l : existsb f (map g l) = existsb (fun x => f (g x)) l.
Proof. induction l as [|x l IH]; [reflexivity|]. cbn. now rewrite IH. Qed.

Lemma existsb_ext_in {A} (f g : A -> bool) l : (forall x, In x l -> f x = g x) -> existsb f l = existsb g l.
Proof.
  induction l as [|x l IH]; [reflexivity|]. intro H. cbn. rewrite (H x) by now left. f_equal. apply IH. intros y Hy. apply H. now right.
Qed.

Definition pats_clear (q : cquirks) (S : tsources) : Prop :=
  glob_ideal q \/ forallb simple_form (spec_pats S) = true.

Lemma spec_pats_ok S : tsources_ok S = true -> forall p, In p (spec_pats S) -> pat_ok p = true.
Proof.
  unfold tsources_ok, spec_pats. rewrite !andb_true_iff. intros [[[H1 H2] H3] _] p Hp.
  rewrite !in_app_iff in Hp. rewrite !forallb_forall in *. destruct Hp as [Hp|[Hp|Hp]]; [|now apply H2|now apply H3].
  apply in_flat_map in Hp. destruct Hp as [l [Hl Hp]]. specialize (H1 _ Hl). destruct l; try destruct Hp as [<-|[]]; try destruct Hp. exact H1.
Qed.

Lemma is_ignored_spec q S p : pats_clear q S -> tsources_ok S = true -> comps_ok p ->
  is_ignored q (map render (spec_pats S)) p = spec_ignored S p.
Proof.
  intros Hq HS Hp. unfold is_ignored, spec_ignored. rewrite is_ignored_core_spec, existsb_map.
  apply existsb_ext_in. intros pt Hpt. destruct Hq as [Hq|Hq].
  - apply matches_spec; [exact Hq|now apply (spec_pats_ok S)|exact Hp].
  - rewrite forallb_forall in Hq. apply matches_spec_simple; [now apply Hq|now apply (spec_pats_ok S)|exact Hp].
Qed.

(* ------------------------------------------------------------------ gate 1 *)
Lemma existsb_hx l : existsb hx_part_cond l = existsb spec_excluded_dir l.
Proof. apply existsb_ext_in. intros x _. apply hx_part_cond_spec. Qed.

Lemma gate_hard_unfold q abs p : p <> [] ->
  gate_hard q (q_excl_above_root q) abs p
  = spec_compiled (last p "")
    || (existsb spec_excluded_dir (if q_excl_above_root q then abs else [])
        || existsb spec_excluded_dir (if q_excl_filename q then p else removelast p)).
Proof.
  intro Hne. unfold gate_hard. destruct (q_excl_above_root q), (q_excl_filename q); cbn [andb negb];
    rewrite ?is_hardcoded_excluded_shape, !hx_suffix_spec, !existsb_hx, ?existsb_app; reflexivity.
Qed.

Definition abs_clear (q : cquirks) (abs : list string) : Prop :=
  q_excl_above_root q = false \/ existsb spec_excluded_dir abs = false.
Definition name_clear (q : cquirks) (p : list string) : Prop :=
  q_excl_filename q = false \/ spec_excluded_dir (last p "") = false.

Lemma gate_hard_spec q abs p : abs_clear q abs -> name_clear q p -> p <> [] -> gate_hard q (q_excl_above_root q) abs p = negb (hard_ok p).
Proof.
  intros Ha Hn Hne. rewrite gate_hard_unfold by exact Hne. unfold hard_ok. rewrite negb_andb, !negb_involutive.
  assert (E1 : existsb spec_excluded_dir (if q_excl_above_root q then abs else []) = false).
  { destruct Ha as [-> | Ha]; [reflexivity|]. now destruct (q_excl_above_root q). }
  assert (E2 : existsb spec_excluded_dir (if q_excl_filename q then p else removelast p) = existsb spec_excluded_dir (removelast p)).
  { destruct Hn as [-> | Hn]; [reflexivity|]. destruct (q_excl_filename q); [|reflexivity].
    rewrite (app_removelast_last "" Hne) at 1. rewrite existsb_app. cbn [existsb]. rewrite Hn. now rewrite !orb_false_r. }
  rewrite E1, E2. cbn [orb]. apply orb_comm.
Qed.

(* ------------------------------------------------------------------ lint_file *)
Lemma linted_unfold q abs pats cp p : linted q abs pats cp p = negb (gate_hard q (q_excl_above_root q) abs p) && negb (is_ignored q pats (cp p)).
Proof. unfold linted. rewrite lint_gates_spec. cbn [existsb gate_fires]. now rewrite orb_false_r, negb_orb. Qed.

Lemma spec_ok_unfold S p : spec_ok S p = hard_ok p && negb (spec_ignored S p).
Proof. reflexivity. Qed.

Lemma path_ok_comps p : path_ok p = true -> comps_ok p.
Proof. unfold path_ok. rewrite andb_true_iff, negb_true_iff. intros [H1 H2]. split; [now destruct p|exact H2]. Qed.

(* the spelling of the target cannot matter: the flag is off, or the target is spelled absolutely, or relative to the project root *)
Definition spell_clear (q : cquirks) (sp : spelling) : Prop :=
  q_ignore_cwd_spelling q = false \/ sp = SAbs \/ sp = SInside [].

Lemma relpath_nil p : relpath [] p = p.
Proof. now destruct p. Qed.

Lemma skipn_length_app {A} (l l' : list A) : skipn (List.length l) (l ++ l') = l'.
Proof. induction l as [|x l IH]; [reflexivity|exact IH]. Qed.

Lemma chk_file_id q sp p : spell_clear q sp -> chk_file q sp p = p.
Proof.
  unfold chk_file, cwd_spelling_matters. intros [-> | [-> | ->]]; [reflexivity| |];
    destruct (q_ignore_cwd_spelling q && negb ignore_rerooted); try reflexivity; cbn [spelled]; apply relpath_nil.
Qed.

Lemma chk_dir_id q sp rel below : spell_clear q sp -> chk_dir q sp rel (rel ++ below) = rel ++ below.
Proof.
  unfold chk_dir, cwd_spelling_matters. intros [-> | [-> | ->]]; [reflexivity| |];
    destruct (q_ignore_cwd_spelling q && negb ignore_rerooted); try reflexivity; cbn [spelled]; now rewrite relpath_nil, skipn_length_app.
Qed.

Record clear (q : cquirks) (abs : list string) (S : tsources) : Prop := {
  cl_abs : abs_clear q abs;
  cl_pats : pats_clear q S;
  cl_json : json_clear q S;
  cl_ti : ti_clear q S }.

Lemma tsources_lines_ok S : tsources_ok S = true -> forallb line_ok (opt_pats (t_ti S)) = true.
Proof. unfold tsources_ok. rewrite !andb_true_iff. now intros [[[H _] _] _]. Qed.

Lemma tsources_one_config S : tsources_ok S = true -> one_config S = true.
Proof. unfold tsources_ok. rewrite !andb_true_iff. now intros [_ H]. Qed.

(* a file named explicitly reaches the rules iff the specification says it should; cp p = the path the ignore patterns see *)
Theorem linted_exact_gen2 q abs S cp p :
  clear q abs S -> name_clear q p -> tsources_ok S = true -> path_ok p = true ->
  comps_ok (cp p) -> spec_ignored S (cp p) = spec_ignored S p ->
  linted q abs (load_patterns q (render_sources S)) cp p = spec_ok S p.
Proof.
  intros [Ha Hp Hj Ht] Hn HS Hpo Hcc Hcp. assert (Hc := path_ok_comps _ Hpo).
  rewrite linted_unfold, spec_ok_unfold, load_patterns_spec; [|exact Hj|exact Ht|now apply tsources_one_config|now apply tsources_lines_ok].
  rewrite is_ignored_spec by assumption. rewrite Hcp. rewrite gate_hard_spec; [|exact Ha|exact Hn|exact (proj1 Hc)].
  now rewrite negb_involutive.
Qed.

Theorem linted_exact_gen q abs S cp p :
  clear q abs S -> name_clear q p -> tsources_ok S = true -> path_ok p = true -> cp p = p ->
  linted q abs (load_patterns q (render_sources S)) cp p = spec_ok S p.
Proof.
  intros Hcl Hn HS Hpo Hcp. apply linted_exact_gen2; try assumption; rewrite Hcp; [now apply path_ok_comps|reflexivity].
Qed.

Theorem run_files_exact_gen q abs sp S ps :
  clear q abs S -> spell_clear q sp -> (forall p, In p ps -> name_clear q p) -> tsources_ok S = true -> forallb path_ok ps = true ->
  run_files q abs sp (render_sources S) ps = spec_files S ps.
Proof.
  intros Hcl Hsp Hn HS Hps. unfold run_files, spec_files. apply filter_ext_in. intros p Hp.
  rewrite forallb_forall in Hps. apply linted_exact_gen; [exact Hcl|now apply Hn|exact HS|now apply Hps|now apply chk_file_id].
Qed.

(* a directory target *)
Theorem run_dir_exact_gen q rec abs sp rel t S :
  clear q abs S -> spell_clear q sp -> (forall p, In p (all_files rec rel t) -> name_clear q p) ->
  rel_ok rel = true -> target_ok t = true -> tsources_ok S = true ->
  run_dir q rec abs sp rel t (render_sources S) = spec_dir rec rel t S.
Proof.
  intros Hcl Hsp Hn Hrel Ht HS. unfold run_dir, spec_dir. rewrite seq_collect_recursive_spec. unfold rel_ok in Hrel. apply andb_true_iff in Hrel.
  destruct Hrel as [Hrc Hre]. apply negb_true_iff in Hre.
  rewrite walk_filter by exact Hre. rewrite filter_filter. apply filter_ext_in. intros p Hp.
  destruct (all_files_shape _ _ _ _ Hp) as [below [Hb Ep]].
  assert (Hpo : path_ok p = true).
  { unfold path_ok. rewrite (all_files_comps _ _ _ _ Hrc Ht Hp), andb_true_r. subst p. destruct rel, below; try reflexivity. congruence. }
  rewrite (linted_exact_gen q abs S _ p Hcl (Hn p Hp) HS Hpo); [|subst p; now apply chk_dir_id].
  rewrite spec_ok_unfold. now destruct (hard_ok p).
Qed.

(* ------------------------------------------------------------------ confinement of q_ignore_cwd_spelling *)
(* patterns that look at the file name only are decided identically on any spelling of the path *)
Definition name_only (p : pat) : bool := match p with PSuffix _ | PAnySuffix _ => true | _ => false end.

Lemma spec_ignored_name_only S pre pre' below :
  forallb name_only (spec_pats S) = true -> below <> [] -> spec_ignored S (pre ++ below) = spec_ignored S (pre' ++ below).
Proof.
  intros H Hb. unfold spec_ignored. apply existsb_ext_in. intros pt Hin. rewrite forallb_forall in H. specialize (H pt Hin).
  destruct pt; try discriminate H; cbn [spec_match]; now rewrite !last_app_ne by exact Hb.
Qed.

(* whatever the working directory and the spelling of the target: with name-only patterns the directory run is exact
   (q_ignore_cwd_spelling may be on) *)
Theorem run_dir_exact_name_only q rec abs sp rel t S :
  clear q abs S -> (forall p, In p (all_files rec rel t) -> name_clear q p) ->
  forallb name_only (spec_pats S) = true -> forallb comp_ok (spelled sp rel) = true ->
  rel_ok rel = true -> target_ok t = true -> tsources_ok S = true ->
  run_dir q rec abs sp rel t (render_sources S) = spec_dir rec rel t S.
Proof.
  intros Hcl Hn Hno Hsc Hrel Ht HS. unfold run_dir, spec_dir. rewrite seq_collect_recursive_spec. unfold rel_ok in Hrel. apply andb_true_iff in Hrel.
  destruct Hrel as [Hrc Hre]. apply negb_true_iff in Hre.
  rewrite walk_filter by exact Hre. rewrite filter_filter. apply filter_ext_in. intros p Hp.
  destruct (all_files_shape _ _ _ _ Hp) as [below [Hb Ep]].
  assert (Hpc := all_files_comps _ _ _ _ Hrc Ht Hp).
  assert (Hpo : path_ok p = true).
  { unfold path_ok. rewrite Hpc, andb_true_r. subst p. destruct rel, below; try reflexivity. congruence. }
  assert (Hbc : forallb comp_ok below = true) by (subst p; rewrite forallb_app in Hpc; now apply andb_true_iff in Hpc).
  rewrite (linted_exact_gen2 q abs S _ p Hcl (Hn p Hp) HS Hpo).
  - rewrite spec_ok_unfold. now destruct (hard_ok p).
  - subst p. unfold chk_dir. destruct (cwd_spelling_matters q); [|now apply path_ok_comps].
    destruct sp; [now apply path_ok_comps| |]; rewrite skipn_length_app; (split; [destruct (spelled _ rel), below; try discriminate; congruence|]);
      rewrite forallb_app, Hsc, Hbc; reflexivity.
  - subst p. unfold chk_dir. destruct (cwd_spelling_matters q); [|reflexivity].
    destruct sp; [reflexivity| |]; rewrite skipn_length_app; now apply spec_ignored_name_only.
Qed.

(* the parallel entry point lints what the sequential one lints *)
Lemma run_dir_par_eq q rec abs sp rel t s : run_dir_par q rec abs sp rel t s = run_dir q rec abs sp rel t s.
Proof. unfold run_dir_par, run_dir. now rewrite seq_collect_recursive_spec, par_collect_recursive_spec. Qed.

(* ------------------------------------------------------------------ corollary 1: all flags off, every input *)
Definition flags_off (q : cquirks) : Prop :=
  q_excl_above_root q = false /\ q_excl_filename q = false /\ q_dirpat_prefix q = false /\ q_dirpat_filename q = false
  /\ q_doublestar_needs_dir q = false /\ q_ti_shadows_config q = false /\ q_json_ignore_unused q = false
  /\ q_ignore_cwd_spelling q = false.

Lemma flags_off_clear q abs S : flags_off q -> clear q abs S.
Proof.
  intros [H1 [H2 [H3 [H4 [H5 [H6 [H7 H8]]]]]]]. split; [now left|left; now repeat split|now left|now left].
Qed.

Lemma flags_off_spell q sp : flags_off q -> spell_clear q sp.
Proof. intro H. left. apply H. Qed.

Theorem run_dir_exact q rec abs sp rel t S :
  flags_off q -> rel_ok rel = true -> target_ok t = true -> tsources_ok S = true ->
  run_dir q rec abs sp rel t (render_sources S) = spec_dir rec rel t S.
Proof.
  intros Hq. apply run_dir_exact_gen; [now apply flags_off_clear|now apply flags_off_spell|]. intros p _. left. apply Hq.
Qed.

Theorem run_dir_par_exact q rec abs sp rel t S :
  flags_off q -> rel_ok rel = true -> target_ok t = true -> tsources_ok S = true ->
  run_dir_par q rec abs sp rel t (render_sources S) = spec_dir rec rel t S.
Proof. rewrite run_dir_par_eq. apply run_dir_exact. Qed.

Theorem run_files_exact q abs sp S ps :
  flags_off q -> tsources_ok S = true -> forallb path_ok ps = true ->
  run_files q abs sp (render_sources S) ps = spec_files S ps.
Proof.
  intros Hq. apply run_files_exact_gen; [now apply flags_off_clear|now apply flags_off_spell|]. intros p _. left. apply Hq.
Qed.

Definition dirs_ok (dirs : list (list string * tree)) : bool :=
  forallb (fun d => rel_ok (fst d) && target_ok (snd d)) dirs.

(* several targets in one run (execute_linting_on_paths), sequential or parallel *)
Theorem run_paths_exact q rec par abs sp S files dirs :
  flags_off q -> tsources_ok S = true -> forallb path_ok files = true -> dirs_ok dirs = true ->
  run_paths q rec par abs sp (render_sources S) files dirs = spec_paths rec S files dirs.
Proof.
  intros Hq HS Hf Hd. unfold run_paths, spec_paths. rewrite run_files_exact by assumption. f_equal.
  unfold dirs_ok in Hd. rewrite forallb_forall in Hd. apply flat_map_ext_Forall. apply Forall_forall. intros d Hin.
  specialize (Hd d Hin). apply andb_true_iff in Hd. destruct Hd as [H1 H2].
  destruct par; [now apply run_dir_par_exact|now apply run_dir_exact].
Qed.

(* the vector claimed for the current tree: only q_ignore_cwd_spelling is on, so the statements hold for it whenever the
   target is spelled absolutely or relative to the project root (no other guard) *)
Definition plain_spelling (sp : spelling) : Prop := sp = SAbs \/ sp = SInside [].

Lemma actual_clear abs S : clear collect_actual abs S.
Proof. split; [now left|left; now repeat split|now left|now left]. Qed.

Theorem run_dir_exact_actual rec abs sp rel t S :
  plain_spelling sp -> rel_ok rel = true -> target_ok t = true -> tsources_ok S = true ->
  run_dir collect_actual rec abs sp rel t (render_sources S) = spec_dir rec rel t S.
Proof. intro Hsp. apply run_dir_exact_gen; [apply actual_clear|now right|]. intros p _. now left. Qed.

Theorem run_dir_par_exact_actual rec abs sp rel t S :
  plain_spelling sp -> rel_ok rel = true -> target_ok t = true -> tsources_ok S = true ->
  run_dir_par collect_actual rec abs sp rel t (render_sources S) = spec_dir rec rel t S.
Proof. rewrite run_dir_par_eq. apply run_dir_exact_actual. Qed.

Theorem run_files_exact_actual abs sp S ps :
  plain_spelling sp -> tsources_ok S = true -> forallb path_ok ps = true ->
  run_files collect_actual abs sp (render_sources S) ps = spec_files S ps.
Proof. intro Hsp. apply run_files_exact_gen; [apply actual_clear|now right|]. intros p _. now left. Qed.

(* an excluded or ignored file never reaches the rules, under a directory target or named explicitly *)
Theorem excluded_never_linted q rec abs sp rel t S ps p :
  flags_off q -> rel_ok rel = true -> target_ok t = true -> tsources_ok S = true -> forallb path_ok ps = true ->
  spec_ok S p = false ->
  ~ In p (run_dir q rec abs sp rel t (render_sources S)) /\ ~ In p (run_files q abs sp (render_sources S) ps).
Proof.
  intros Hq Hrel Ht HS Hps Hp. rewrite run_dir_exact, run_files_exact by assumption.
  unfold spec_dir, spec_files. rewrite !filter_In. split; intros [_ H]; congruence.
Qed.

(* every other regular file beneath the target reaches the rules *)
Theorem others_linted q abs sp rel t S below :
  flags_off q -> rel_ok rel = true -> target_ok t = true -> tsources_ok S = true ->
  file_at t below -> spec_ok S (rel ++ below) = true ->
  In (rel ++ below) (run_dir q true abs sp rel t (render_sources S)).
Proof.
  intros Hq Hrel Ht HS Hf Hp. rewrite run_dir_exact by assumption. unfold spec_dir. apply filter_In. split; [|exact Hp].
  apply all_files_In. now exists below.
Qed.

(* with --no-recursive only direct children are candidates *)
Theorem flat_only_children q abs sp rel t S p :
  flags_off q -> rel_ok rel = true -> target_ok t = true -> tsources_ok S = true ->
  In p (run_dir q false abs sp rel t (render_sources S)) <->
  exists n, p = rel ++ [n] /\ In (File n) (children t) /\ spec_ok S p = true.
Proof.
  intros Hq Hrel Ht HS. rewrite run_dir_exact by assumption. unfold spec_dir. rewrite filter_In.
  destruct t as [m|m cs]; cbn [all_files children].
  - split; [intros [[] _]|intros [n [_ [[] _]]]].
  - rewrite app_nil_r, in_flat_map. split.
    + intros [[c [Hc H]] Hs]. destruct c as [n|n cs']; [|destruct H]. destruct H as [<-|[]]. now exists n.
    + intros [n [-> [Hin Hs]]]. split; [|exact Hs]. exists (File n). split; [exact Hin|now left].
Qed.

(* ------------------------------------------------------------------ corollary 2: any vector, outside the defect classes *)
(* (in particular the faithful vector): no always-excluded name above the project root, no regular
   file bearing an always-excluded directory name, only suffix / under / exact / raw patterns,
   not both a .thailintignore and a config ignore list, no ignore list in a JSON config *)
Definition outside_defect_classes (abs : list string) (files : list (list string)) (S : tsources) : Prop :=
  existsb spec_excluded_dir abs = false
  /\ forallb (fun p => negb (spec_excluded_dir (last p ""))) files = true
  /\ forallb simple_form (spec_pats S) = true
  /\ (t_ti S = None \/ (opt_pats (t_yaml S) = [] /\ opt_pats (t_json S) = []))
  /\ opt_pats (t_json S) = [].

Theorem run_dir_exact_partial q rec abs sp rel t S :
  outside_defect_classes abs (all_files rec rel t) S -> plain_spelling sp ->
  rel_ok rel = true -> target_ok t = true -> tsources_ok S = true ->
  run_dir q rec abs sp rel t (render_sources S) = spec_dir rec rel t S.
Proof.
  intros [H1 [H2 [H3 [H4 H5]]]] Hsp. apply run_dir_exact_gen.
  - split; [now right|now right|now right|right; exact H4].
  - now right.
  - intros p Hp. right. rewrite forallb_forall in H2. specialize (H2 _ Hp). now apply negb_true_iff in H2.
Qed.

Theorem run_files_exact_partial q abs sp S ps :
  outside_defect_classes abs ps S -> plain_spelling sp -> tsources_ok S = true -> forallb path_ok ps = true ->
  run_files q abs sp (render_sources S) ps = spec_files S ps.
Proof.
  intros [H1 [H2 [H3 [H4 H5]]]] Hsp. apply run_files_exact_gen.
  - split; [now right|now right|now right|right; exact H4].
  - now right.
  - intros p Hp. right. rewrite forallb_forall in H2. specialize (H2 _ Hp). now apply negb_true_iff in H2.
Qed.
