(* Proofs/MagicExtract.v — the text-level extraction functions return the value of every literal of
   the documented grammar:  int(text, 0) / float(text) on rendered literals, then
   _extract_numeric_value of the TypeScript and the Rust analyzer (C02, theorem extract_total). *)
From Coq Require Import ZArith.
From TL Require Import Lib.Base Lib.GenTypes Gen.MagicGen Model.MagicNum Model.Magic Model.MagicSpec Proofs.MagicChars.

(* ------------------------------------------------------------------ alphabets of rendered literals *)
(* digit characters for an explicit set of digit values *)
Definition dchars (up : bool) (ds : list nat) : list ascii := map (digit_char up) ds.

Definition nmemb (d : nat) (l : list nat) : bool := existsb (Nat.eqb d) l.

Lemma render_digits_over_set up allowed ds :
  forallb (fun d => nmemb d allowed) ds = true -> over (dchars up allowed) (render_digits up ds) = true.
Proof.
  intros H. unfold over, render_digits. rewrite forallb_forall. intros c Hc.
  apply in_map_iff in Hc. destruct Hc as [d [<- Hd]].
  rewrite forallb_forall in H. specialize (H d Hd). unfold nmemb in H. apply existsb_exists in H.
  destruct H as [d' [Hd' E]]. apply Nat.eqb_eq in E. subst d'.
  apply existsb_exists. exists (digit_char up d). split; [|apply Ascii.eqb_eq; reflexivity].
  unfold dchars. apply in_map. exact Hd'.
Qed.

Definition groups_in (allowed : list nat) (gs : list (list nat)) : bool :=
  forallb (fun g => forallb (fun d => nmemb d allowed) g) gs.

Lemma render_groups_over up allowed gs :
  groups_in allowed gs = true -> over (c_us :: dchars up allowed) (render_groups up gs) = true.
Proof.
  assert (M : forall s, over (dchars up allowed) s = true -> over (c_us :: dchars up allowed) s = true).
  { intros s Hs. unfold over in *. rewrite forallb_forall in *. intros c Hc. specialize (Hs c Hc).
    cbn [existsb]. rewrite Hs. apply orb_true_r. }
  induction gs as [|g gs IH]; intros H; [reflexivity|].
  unfold groups_in in H. cbn [forallb] in H. apply andb_prop in H. destruct H as [Hg Hgs].
  destruct gs as [|g2 gs'].
  - cbn [render_groups]. apply M. apply render_digits_over_set. exact Hg.
  - change (render_groups up (g :: g2 :: gs')) with (render_digits up g ++ c_us :: render_groups up (g2 :: gs')).
    rewrite over_app. rewrite (M _ (render_digits_over_set up allowed g Hg)). cbn [andb].
    change (c_us :: render_groups up (g2 :: gs')) with ([c_us] ++ render_groups up (g2 :: gs')).
    rewrite over_app. rewrite (IH Hgs). rewrite andb_true_r. reflexivity.
Qed.

Lemma groups_ok_in base gs : groups_ok base gs = true -> groups_in (seq 0 base) gs = true.
Proof.
  unfold groups_ok, groups_in. destruct gs as [|g0 gs0]; [discriminate|]. intros H.
  rewrite forallb_forall in *. intros g Hg. specialize (H g Hg). destruct g as [|d g']; [reflexivity|].
  rewrite forallb_forall in *. intros x Hx. specialize (H x Hx). apply Nat.ltb_lt in H.
  unfold nmemb. apply existsb_exists. exists x. split; [apply in_seq; lia | apply Nat.eqb_refl].
Qed.

Lemma groups_ok_concat base gs : groups_ok base gs = true ->
  (exists d t, List.concat gs = d :: t) /\ forallb (fun d => d <? base) (List.concat gs) = true.
Proof.
  intros H. split.
  - destruct gs as [|g gs]; [discriminate|]. cbn [groups_ok forallb] in H. apply andb_prop in H. destruct H as [Hg _].
    destruct g as [|d g]; [discriminate|]. cbn [List.concat app]. eauto.
  - unfold groups_ok in H. destruct gs as [|g0 gs0]; [discriminate|].
    rewrite forallb_forall in *. intros x Hx. apply in_concat in Hx. destruct Hx as [g [Hg Hx]].
    specialize (H g Hg). destruct g as [|d g']; [destruct Hx|]. rewrite forallb_forall in H. apply H. exact Hx.
Qed.

(* the body of an integer literal is written over: the digits of `allowed`, the underscore, the base prefix *)
Definition int_alpha (r : radix) (up : bool) (allowed : list nat) : list ascii := prefix_of r ++ c_us :: dchars up allowed.

Lemma int_body_over r up allowed gs :
  groups_in allowed gs = true -> over (int_alpha r up allowed) (prefix_of r ++ render_groups up gs) = true.
Proof.
  intros H. unfold int_alpha. rewrite over_app. apply andb_true_iff. split.
  - unfold over. rewrite forallb_forall. intros c Hc. apply existsb_exists. exists c. split; [apply in_or_app; left; exact Hc | apply Ascii.eqb_eq; reflexivity].
  - apply (over_mono (c_us :: dchars up allowed)); [apply render_groups_over; exact H|].
    rewrite forallb_forall. intros c Hc. apply existsb_exists. exists c. split; [apply in_or_app; right; exact Hc | apply Ascii.eqb_eq; reflexivity].
Qed.

Definition float_alpha : list ascii := chars ".eE-" ++ dchars false (seq 0 10).

Definition fdigits_ok (ds : list nat) : bool := forallb (fun d => d <? 10) ds.

Lemma fdigits_over ds : fdigits_ok ds = true -> over float_alpha (render_digits false ds) = true.
Proof.
  intros H. apply (over_mono (dchars false (seq 0 10))).
  - apply render_digits_over_set. unfold fdigits_ok in H. rewrite forallb_forall in *. intros d Hd. specialize (H d Hd).
    apply Nat.ltb_lt in H. unfold nmemb. apply existsb_exists. exists d. split; [apply in_seq; lia | apply Nat.eqb_refl].
  - rewrite forallb_forall. intros c Hc. apply existsb_exists. exists c. split; [|apply Ascii.eqb_eq; reflexivity].
    unfold float_alpha. apply in_or_app. right. exact Hc.
Qed.

Definition ex_ok (ex : option ((bool * bool) * list nat)) : bool :=
  match ex with Some (_, ds) => match ds with [] => false | _ => fdigits_ok ds end | None => true end.

Lemma float_body_over ip fp ex :
  fdigits_ok ip = true -> fdigits_ok fp = true -> ex_ok ex = true -> over float_alpha (float_body ip fp ex) = true.
Proof.
  intros Hi Hf He. unfold float_body. rewrite !over_app. rewrite (fdigits_over ip Hi). cbn [andb].
  apply andb_true_iff. split.
  - destruct fp as [|f fp']; [reflexivity|]. change (c_dot :: render_digits false (f :: fp')) with ([c_dot] ++ render_digits false (f :: fp')).
    rewrite over_app, (fdigits_over _ Hf). reflexivity.
  - destruct ex as [[[neg eup] ds]|]; [|reflexivity]. cbn [ex_ok] in He.
    assert (Hd : fdigits_ok ds = true) by (destruct ds; [discriminate | exact He]).
    change ((if eup then "E"%char else "e"%char) :: (if neg then ["-"%char] else []) ++ render_digits false ds)
      with ([if eup then "E"%char else "e"%char] ++ (if neg then ["-"%char] else []) ++ render_digits false ds).
    rewrite !over_app, (fdigits_over _ Hd). destruct neg, eup; reflexivity.
Qed.

(* ------------------------------------------------------------------ int(text, 0) *)
Lemma all_digits_groups base up gs lead :
  base <= 16 -> groups_ok base gs = true -> all_digits base (render_groups up gs) lead = Some (List.concat gs).
Proof.
  intros Hb Hg. unfold all_digits. rewrite <- (app_nil_r (render_groups up gs)).
  rewrite (span_d_groups base up gs [] lead Hb Hg I).
  destruct (groups_ok_concat base gs Hg) as [[d [t E]] _]. rewrite E. reflexivity.
Qed.

Lemma int_decimal_groups up gs :
  groups_ok 10 gs = true -> no_leading_zero (List.concat gs) = true ->
  int_decimal (render_groups up gs) = Some (digits_val 10 0 (List.concat gs)).
Proof.
  intros Hg Hz. unfold int_decimal. rewrite (all_digits_groups 10 up gs false) by (try lia; exact Hg).
  destruct (List.concat gs) as [|d t]; [reflexivity|].
  destruct d as [|d]; [|reflexivity]. destruct t; [reflexivity | discriminate].
Qed.

Definition base_letters : list ascii := chars "xXoObB".

Lemma py_int0_decimal al s :
  over al s = true -> forallb (fun c => negb (existsb (Ascii.eqb c) al)) base_letters = true ->
  py_int0 s = int_decimal s.
Proof.
  intros Hs Hal. destruct s as [|z [|x body]]; [reflexivity|reflexivity|].
  cbn [py_int0]. destruct (Ascii.eqb z c_0); [|reflexivity].
  assert (Hx : existsb (Ascii.eqb x) al = true).
  { apply (over_In al (z :: x :: body)); [exact Hs | right; left; reflexivity]. }
  assert (N : forall c, In c base_letters -> Ascii.eqb x c = false).
  { intros c Hc. rewrite forallb_forall in Hal. specialize (Hal c Hc). apply negb_true_iff in Hal.
    destruct (Ascii.eqb x c) eqn:E; [|reflexivity]. apply Ascii.eqb_eq in E. subst c. congruence. }
  unfold is_one_of.
  rewrite (N "x"%char), (N "X"%char), (N "o"%char), (N "O"%char), (N "b"%char), (N "B"%char); cbn; tauto.
Qed.

Lemma int_prefixed_groups base up gs :
  base <= 16 -> groups_ok base gs = true ->
  int_prefixed base (render_groups up gs) = Some (digits_val (Z.of_nat base) 0 (List.concat gs)).
Proof. intros Hb Hg. unfold int_prefixed. rewrite (all_digits_groups base up gs true Hb Hg). reflexivity. Qed.

Definition dec_ok (r : radix) (gs : list (list nat)) : bool :=
  match r with RDec => no_leading_zero (List.concat gs) | _ => true end.

(* int(text, 0) on the body of an integer literal gives its value *)
Lemma py_int0_body r up gs :
  groups_ok (base_of r) gs = true -> dec_ok r gs = true ->
  py_int0 (prefix_of r ++ render_groups up gs) = Some (digits_val (Z.of_nat (base_of r)) 0 (List.concat gs)).
Proof.
  intros Hg Hz. destruct r.
  - cbn [prefix_of app base_of] in *.
    rewrite (py_int0_decimal (int_alpha RDec up (seq 0 10))).
    + apply int_decimal_groups; assumption.
    + apply (int_body_over RDec). apply groups_ok_in. exact Hg.
    + destruct up; reflexivity.
  - change (py_int0 (prefix_of RHex ++ render_groups up gs)) with (int_prefixed 16 (render_groups up gs)).
    apply int_prefixed_groups; [cbn; lia | exact Hg].
  - change (py_int0 (prefix_of ROct ++ render_groups up gs)) with (int_prefixed 8 (render_groups up gs)).
    apply int_prefixed_groups; [cbn; lia | exact Hg].
  - change (py_int0 (prefix_of RBin ++ render_groups up gs)) with (int_prefixed 2 (render_groups up gs)).
    apply int_prefixed_groups; [cbn; lia | exact Hg].
  - change (py_int0 (prefix_of RHexU ++ render_groups up gs)) with (int_prefixed 16 (render_groups up gs)).
    apply int_prefixed_groups; [cbn; lia | exact Hg].
  - change (py_int0 (prefix_of ROctU ++ render_groups up gs)) with (int_prefixed 8 (render_groups up gs)).
    apply int_prefixed_groups; [cbn; lia | exact Hg].
  - change (py_int0 (prefix_of RBinU ++ render_groups up gs)) with (int_prefixed 2 (render_groups up gs)).
    apply int_prefixed_groups; [cbn; lia | exact Hg].
Qed.

(* ------------------------------------------------------------------ float(text) *)
Lemma digit_char_not_sign d : d < 10 ->
  Ascii.eqb (digit_char false d) "-"%char = false /\ Ascii.eqb (digit_char false d) "+"%char = false.
Proof. intros H. do 10 (destruct d as [|d]; [split; reflexivity|]). lia. Qed.

Definition nonempty {A} (l : list A) : bool := match l with [] => false | _ => true end.

Definition exp_chars (ex : option ((bool * bool) * list nat)) : list ascii :=
  match ex with
  | None => []
  | Some ((neg, eup), ds) => (if eup then "E"%char else "e"%char) :: (if neg then ["-"%char] else []) ++ render_digits false ds
  end.

Lemma float_exp_part_ok m e0 ex :
  ex_ok ex = true -> float_exp_part m e0 (exp_chars ex) = Some (m, (e0 + exp_val ex)%Z).
Proof.
  intros He. assert (L10 : 10 <= 16) by lia.
  destruct ex as [[[neg eup] ds]|]; [|cbn [exp_chars float_exp_part exp_val]; rewrite Z.add_0_r; reflexivity].
  cbn [ex_ok] in He. destruct ds as [|d ds]; [discriminate|].
  assert (Hd : d < 10). { cbn [fdigits_ok forallb] in He. apply andb_prop in He. destruct He as [He _]. apply Nat.ltb_lt. exact He. }
  cbn [exp_chars float_exp_part].
  replace (is_one_of (if eup then "E"%char else "e"%char) "e"%char "E"%char) with true by (destruct eup; reflexivity). cbv iota.
  destruct neg.
  - cbn [app float_sign_part]. change (Ascii.eqb "-"%char "-"%char) with true. cbv iota.
    rewrite <- (app_nil_r (render_digits false (d :: ds))).
    rewrite (span_d_digits 10 false (d :: ds) [] false L10 He I). reflexivity.
  - cbn [app render_digits map float_sign_part]. destruct (digit_char_not_sign d Hd) as [E1 E2]. rewrite E1, E2.
    change (digit_char false d :: map (digit_char false) ds) with (render_digits false (d :: ds)).
    rewrite <- (app_nil_r (render_digits false (d :: ds))).
    rewrite (span_d_digits 10 false (d :: ds) [] false L10 He I). reflexivity.
Qed.

Lemma stops_exp ex : stops 10 (exp_chars ex).
Proof. destruct ex as [[[neg eup] ds]|]; cbn [exp_chars stops]; [destruct eup; split; reflexivity | exact I]. Qed.

Lemma float_frac_exp ex : float_frac_part (exp_chars ex) = ([], exp_chars ex).
Proof. destruct ex as [[[neg [|]] ds]|]; reflexivity. Qed.

Lemma py_float_body ip fp ex :
  fdigits_ok ip = true -> nonempty ip || nonempty fp = true -> fdigits_ok fp = true -> ex_ok ex = true ->
  py_float (float_body ip fp ex)
  = Some (digits_val 10 0 (ip ++ fp), (- Z.of_nat (List.length fp) + exp_val ex)%Z).
Proof.
  intros Hi Hn Hf He. unfold py_float, float_body. fold (exp_chars ex).
  assert (L10 : 10 <= 16) by lia.
  destruct ip as [|i ip'].
  - (* .5 : no integer part *)
    destruct fp as [|f fp']; [discriminate|].
    change (render_digits false [] ++ (c_dot :: render_digits false (f :: fp')) ++ exp_chars ex)
      with (c_dot :: render_digits false (f :: fp') ++ exp_chars ex).
    rewrite (span_d_stop 10 (c_dot :: render_digits false (f :: fp') ++ exp_chars ex) false) by (split; reflexivity).
    cbn [float_frac_part]. change (Ascii.eqb c_dot c_dot) with true. cbv iota.
    rewrite (span_d_digits 10 false (f :: fp') (exp_chars ex) false L10 Hf (stops_exp ex)).
    cbn [app]. apply float_exp_part_ok. exact He.
  - destruct fp as [|f fp'].
    + cbn [app]. rewrite (span_d_digits 10 false (i :: ip') (exp_chars ex) false L10 Hi (stops_exp ex)).
      rewrite float_frac_exp. rewrite !app_nil_r. apply float_exp_part_ok. exact He.
    + rewrite (span_d_digits 10 false (i :: ip') ((c_dot :: render_digits false (f :: fp')) ++ exp_chars ex) false L10 Hi).
      2:{ cbn [app stops]. split; reflexivity. }
      cbn [app float_frac_part]. change (Ascii.eqb c_dot c_dot) with true. cbv iota.
      rewrite (span_d_digits 10 false (f :: fp') (exp_chars ex) false L10 Hf (stops_exp ex)).
      cbn [app]. apply float_exp_part_ok. exact He.
Qed.

(* ------------------------------------------------------------------ TypeScript *)
Lemma existsb_map_char (p : ascii -> bool) (g : ascii -> ascii) s : existsb p (map g s) = existsb (fun c => p (g c)) s.
Proof. induction s as [|x xs IH]; cbn [map existsb]; [reflexivity|]. rewrite IH. reflexivity. Qed.

Lemma ts_int_path_needles_fact : ts_int_path_needles = [(".", false); ("e", true)].
Proof. reflexivity. Qed.

Lemma ts_int_path_eq text :
  ts_int_path text = negb (existsb (Ascii.eqb c_dot) text) && negb (existsb (fun c => Ascii.eqb "e"%char (lower_char c)) text).
Proof.
  unfold ts_int_path. rewrite ts_int_path_needles_fact. cbn [forallb]. rewrite andb_true_r.
  change (chars ".") with [c_dot]. change (chars "e") with ["e"%char].
  rewrite !contains_single, existsb_map_char. reflexivity.
Qed.

Definition no_dot_e (al : list ascii) : bool :=
  forallb (fun c => negb (Ascii.eqb c_dot c) && negb (Ascii.eqb "e"%char (lower_char c))) al.

Lemma ts_int_path_over al text : over al text = true -> no_dot_e al = true -> ts_int_path text = true.
Proof.
  intros Ho Ha. rewrite ts_int_path_eq.
  assert (H := over_forall al text _ Ho Ha). rewrite forallb_forall in H.
  apply andb_true_iff. split; apply negb_true_iff; apply existsb_false_forallb; rewrite forallb_forall; intros c Hc;
    specialize (H c Hc); apply andb_prop in H; tauto.
Qed.

Lemma strip_bigint_none al text :
  over al text = true -> existsb (Ascii.eqb "n"%char) al = false -> strip_bigint text = text.
Proof.
  intros Ho Ha. unfold strip_bigint. destruct (ends_with ["n"%char] text) eqn:E; [|reflexivity].
  apply ends_with_single_in in E. rewrite (over_not_in al text _ Ho Ha) in E. discriminate.
Qed.

Lemma strip_bigint_n body : strip_bigint (body ++ ["n"%char]) = body.
Proof. unfold strip_bigint. rewrite ends_with_app_self. apply removelast_last. Qed.

(* the tables the repaired source carries *)
Lemma ts_tables_fact : ts_int_prefixes = ["0x"; "0o"; "0b"] /\ ts_bigint_suffixes = ["n"].
Proof. split; reflexivity. Qed.

Lemma strip_suffix_code_none al text :
  over al text = true -> existsb (Ascii.eqb "n"%char) al = false -> strip_suffix_code text = text.
Proof.
  intros Ho Ha. unfold strip_suffix_code. rewrite (proj2 ts_tables_fact). change (chars "n") with ["n"%char].
  destruct (ends_with ["n"%char] text) eqn:E; [|reflexivity].
  apply ends_with_single_in in E. rewrite (over_not_in al text _ Ho Ha) in E. discriminate.
Qed.

Lemma strip_suffix_code_n body : strip_suffix_code (body ++ ["n"%char]) = body.
Proof.
  unfold strip_suffix_code. rewrite (proj2 ts_tables_fact). change (chars "n") with ["n"%char].
  rewrite ends_with_app_self. apply firstn_app_exact.
Qed.

Definition ts_sfx_ok (sfx : string) : bool := String.eqb sfx "" || String.eqb sfx "n".

(* extract_total (TypeScript, integers): every integer literal of the documented grammar is read as its value, whether the
   prefix test / suffix stripping are the property's (flags false) or those found in the source (flags true) *)
Lemma ts_extract_int pq bq r up gs sfx :
  groups_ok (base_of r) gs = true -> dec_ok r gs = true -> ts_sfx_ok sfx = true ->
  ts_extract pq bq (lit_chars (LInt r gs up sfx)) = Some (digits_val (Z.of_nat (base_of r)) 0 (List.concat gs), 0%Z).
Proof.
  intros Hg Hz Hs. unfold lit_chars. cbn [lit_body lit_suffix].
  set (body := prefix_of r ++ render_groups up gs).
  assert (Hover : over (int_alpha r up (seq 0 (base_of r))) body = true) by (apply int_body_over, groups_ok_in, Hg).
  assert (Hn : existsb (Ascii.eqb "n"%char) (int_alpha r up (seq 0 (base_of r))) = false) by (destruct r, up; reflexivity).
  assert (CORE : (if ts_int_path body || (if pq then code_int_prefixed body else is_hex_prefixed body)
                  then option_map (fun z => (z, 0%Z)) (py_int0 body) else py_float body)
                 = Some (digits_val (Z.of_nat (base_of r)) 0 (List.concat gs), 0%Z)).
  { assert (P : ts_int_path body || (if pq then code_int_prefixed body else is_hex_prefixed body) = true).
    { destruct r.
      - rewrite (ts_int_path_over _ body Hover) by (destruct up; reflexivity). reflexivity.
      - replace (if pq then code_int_prefixed body else is_hex_prefixed body) with true by (destruct pq; reflexivity).
        apply orb_true_r.
      - rewrite (ts_int_path_over _ body Hover) by (destruct up; reflexivity). reflexivity.
      - rewrite (ts_int_path_over _ body Hover) by (destruct up; reflexivity). reflexivity.
      - replace (if pq then code_int_prefixed body else is_hex_prefixed body) with true by (destruct pq; reflexivity).
        apply orb_true_r.
      - rewrite (ts_int_path_over _ body Hover) by (destruct up; reflexivity). reflexivity.
      - rewrite (ts_int_path_over _ body Hover) by (destruct up; reflexivity). reflexivity. }
    rewrite P. unfold body. rewrite (py_int0_body r up gs Hg Hz). reflexivity. }
  unfold ts_sfx_ok in Hs. apply orb_true_iff in Hs. destruct Hs as [Hs|Hs].
  - apply String.eqb_eq in Hs. subst sfx. change (chars "") with (@nil ascii). rewrite app_nil_r.
    unfold ts_extract. destruct bq; [rewrite (strip_suffix_code_none _ body Hover Hn) | rewrite (strip_bigint_none _ body Hover Hn)]; exact CORE.
  - apply String.eqb_eq in Hs. subst sfx. change (chars "n") with ["n"%char].
    unfold ts_extract. destruct bq; [rewrite strip_suffix_code_n | rewrite strip_bigint_n]; exact CORE.
Qed.

Lemma is_hex_prefixed_over al s :
  over al s = true -> existsb (Ascii.eqb "x"%char) al = false -> existsb (Ascii.eqb "X"%char) al = false ->
  is_hex_prefixed s = false.
Proof.
  intros Ho H1 H2. destruct s as [|z [|x body]]; [reflexivity|reflexivity|].
  cbn [is_hex_prefixed]. unfold is_one_of.
  assert (Hx : existsb (Ascii.eqb x) al = true) by (apply (over_In al (z :: x :: body)); [exact Ho | right; left; reflexivity]).
  assert (N : forall c, existsb (Ascii.eqb c) al = false -> Ascii.eqb x c = false).
  { intros c Hc. destruct (Ascii.eqb x c) eqn:E; [|reflexivity]. apply Ascii.eqb_eq in E. subst c. congruence. }
  rewrite (N _ H1), (N _ H2). apply andb_false_r.
Qed.

Definition float_shape (fp : list nat) (ex : option ((bool * bool) * list nat)) : bool :=
  match fp, ex with [], None => false | _, _ => true end.

Lemma code_int_prefixed_over al s :
  over al s = true -> forallb (fun c => negb (existsb (Ascii.eqb (lower_char c)) (chars "xob"))) al = true ->
  code_int_prefixed s = false.
Proof.
  intros Ho Ha. unfold code_int_prefixed. rewrite (proj1 ts_tables_fact).
  destruct s as [|z [|x body]]; [reflexivity | cbn; rewrite !andb_false_r; reflexivity |].
  assert (Hx : existsb (Ascii.eqb x) al = true) by (apply (over_In al (z :: x :: body)); [exact Ho | right; left; reflexivity]).
  apply existsb_exists in Hx. destruct Hx as [x' [Hin E]]. apply Ascii.eqb_eq in E. subst x'.
  rewrite forallb_forall in Ha. specialize (Ha x Hin). apply negb_true_iff in Ha.
  cbn [chars list_ascii_of_string existsb] in Ha. apply orb_false_iff in Ha. destruct Ha as [A1 Ha].
  apply orb_false_iff in Ha. destruct Ha as [A2 Ha]. apply orb_false_iff in Ha. destruct Ha as [A3 _].
  cbn [existsb map prefix_l chars list_ascii_of_string].
  rewrite (Ascii.eqb_sym "x"%char), (Ascii.eqb_sym "o"%char), (Ascii.eqb_sym "b"%char), A1, A2, A3.
  rewrite !andb_false_r. reflexivity.
Qed.

(* extract_total (TypeScript, floats) *)
Lemma ts_extract_float pq bq ip fp ex :
  fdigits_ok ip = true -> nonempty ip || nonempty fp = true -> fdigits_ok fp = true -> ex_ok ex = true -> float_shape fp ex = true ->
  ts_extract pq bq (lit_chars (LFloat ip fp ex ""))
  = Some (digits_val 10 0 (ip ++ fp), (- Z.of_nat (List.length fp) + exp_val ex)%Z).
Proof.
  intros Hi Hn Hf He Hs. unfold lit_chars. cbn [lit_body lit_suffix]. change (chars "") with (@nil ascii). rewrite app_nil_r.
  assert (Hover := float_body_over ip fp ex Hi Hf He).
  unfold ts_extract.
  assert (T : (if bq then strip_suffix_code (float_body ip fp ex) else strip_bigint (float_body ip fp ex)) = float_body ip fp ex).
  { destruct bq; [apply (strip_suffix_code_none float_alpha) | apply (strip_bigint_none float_alpha)]; try exact Hover; reflexivity. }
  rewrite T.
  assert (P : ts_int_path (float_body ip fp ex) = false).
  { rewrite ts_int_path_eq. unfold float_body. destruct fp as [|f fp'].
    - destruct ex as [[[neg eup] ds]|]; [|discriminate]. cbn [app].
      apply andb_false_iff. right. apply negb_false_iff. rewrite existsb_app. cbn [existsb].
      replace (Ascii.eqb "e"%char (lower_char (if eup then "E"%char else "e"%char))) with true by (destruct eup; reflexivity).
      cbn [orb]. apply orb_true_r.
    - apply andb_false_iff. left. apply negb_false_iff. rewrite !existsb_app. cbn [existsb].
      change (Ascii.eqb c_dot c_dot) with true. cbn [orb]. apply orb_true_r. }
  rewrite P. cbn [orb].
  replace (if pq then code_int_prefixed (float_body ip fp ex) else is_hex_prefixed (float_body ip fp ex)) with false.
  2:{ destruct pq; symmetry; [apply (code_int_prefixed_over float_alpha _ Hover); reflexivity
                             | apply (is_hex_prefixed_over float_alpha _ Hover); reflexivity]. }
  apply py_float_body; assumption.
Qed.

(* the keyword `number` of a type annotation is a node of type "number" whose text is no number *)
Lemma ts_extract_keyword hq bq : ts_extract hq bq (chars "number") = None.
Proof. destruct hq, bq; reflexivity. Qed.

(* ------------------------------------------------------------------ Rust *)
Definition heads_avoid (table : list string) (al : list ascii) : bool :=
  forallb (fun t => match chars t with c :: _ => negb (existsb (Ascii.eqb c) al) | [] => false end) table.

Lemma strip_suffix_exact table al body s :
  heads_avoid table al = true -> over al body = true -> strip_suffix table s = [] ->
  strip_suffix table (body ++ s) = body.
Proof.
  induction table as [|t table IH]; intros Hh Ho Hs.
  - cbn [strip_suffix] in *. subst s. apply app_nil_r.
  - cbn [heads_avoid forallb] in Hh. apply andb_prop in Hh. destruct Hh as [Ht Hh].
    destruct (chars t) as [|c r] eqn:Et; [discriminate|]. apply negb_true_iff in Ht.
    cbn [strip_suffix] in *. rewrite Et in *.
    rewrite (ends_with_skip (c :: r) body s c r eq_refl (over_not_in al body c Ho Ht)).
    destruct (ends_with (c :: r) s) eqn:E.
    + assert (L1 := ends_with_length _ _ E).
      assert (L2 : List.length s <= List.length (c :: r)).
      { destruct (List.length s - List.length (c :: r)) eqn:D; [lia|].
        destruct s as [|x xs]; [cbn in D; discriminate | cbn [firstn] in Hs; discriminate]. }
      assert (Es := ends_with_same_length _ _ E L2). subst s. apply firstn_app_exact.
    + apply IH; assumption.
Qed.

Lemma rs_suffixes_fact : rs_suffixes = int_suffixes ++ float_suffixes.
Proof. reflexivity. Qed.

Lemma rs_float_type_fact : rs_float_type = "float_literal".
Proof. reflexivity. Qed.

Lemma remove_us_over al s : over al s = true -> existsb (Ascii.eqb c_us) al = false -> remove_us s = s.
Proof.
  intros Ho Ha. unfold remove_us. induction s as [|x xs IH]; [reflexivity|].
  unfold over in Ho. cbn [forallb] in Ho. apply andb_prop in Ho. destruct Ho as [Hx Ho].
  cbn [filter]. destruct (Ascii.eqb x c_us) eqn:E.
  - apply Ascii.eqb_eq in E. subst x. congruence.
  - cbn [negb]. rewrite (IH Ho). reflexivity.
Qed.

Lemma remove_us_app a b : remove_us (a ++ b) = remove_us a ++ remove_us b.
Proof. apply filter_app. Qed.

Lemma dchars_no_us up allowed : forallb (fun d => d <? 16) allowed = true -> existsb (Ascii.eqb c_us) (dchars up allowed) = false.
Proof.
  intros H. apply existsb_false_forallb. rewrite forallb_forall. intros c Hc. unfold dchars in Hc.
  apply in_map_iff in Hc. destruct Hc as [d [<- Hd]]. rewrite forallb_forall in H. specialize (H d Hd). apply Nat.ltb_lt in H.
  do 16 (destruct d as [|d]; [destruct up; reflexivity|]). lia.
Qed.

Lemma remove_us_digits up ds : forallb (fun d => d <? 16) ds = true -> remove_us (render_digits up ds) = render_digits up ds.
Proof.
  intros H. apply (remove_us_over (dchars up ds)).
  - apply render_digits_over_set. rewrite forallb_forall. intros d Hd. unfold nmemb. apply existsb_exists. exists d. split; [exact Hd | apply Nat.eqb_refl].
  - apply dchars_no_us. exact H.
Qed.

Lemma remove_us_groups up gs :
  forallb (fun g => forallb (fun d => d <? 16) g) gs = true ->
  remove_us (render_groups up gs) = render_digits up (List.concat gs).
Proof.
  induction gs as [|g gs IH]; intros H; [reflexivity|].
  cbn [forallb] in H. apply andb_prop in H. destruct H as [Hg Hgs].
  destruct gs as [|g2 gs'].
  - cbn [render_groups List.concat]. rewrite app_nil_r. apply remove_us_digits. exact Hg.
  - change (render_groups up (g :: g2 :: gs')) with (render_digits up g ++ [c_us] ++ render_groups up (g2 :: gs')).
    rewrite !remove_us_app, (remove_us_digits up g Hg), (IH Hgs).
    change (remove_us [c_us]) with (@nil ascii). cbn [app].
    change (List.concat (g :: g2 :: gs')) with (g ++ List.concat (g2 :: gs')). unfold render_digits. rewrite map_app. reflexivity.
Qed.

Lemma groups_ok_lt16 base gs : base <= 16 -> groups_ok base gs = true -> forallb (fun g => forallb (fun d => d <? 16) g) gs = true.
Proof.
  intros Hb H. unfold groups_ok in H. destruct gs as [|g0 gs0]; [reflexivity|].
  rewrite forallb_forall in *. intros g Hg. specialize (H g Hg). destruct g as [|d g']; [reflexivity|].
  rewrite forallb_forall in *. intros x Hx. specialize (H x Hx). apply Nat.ltb_lt in H. apply Nat.ltb_lt. lia.
Qed.

Lemma base_le16 r : base_of r <= 16.
Proof. destruct r; cbn; lia. Qed.

(* a literal suffix: nothing, a suffix of the table, or an underscore and a suffix of the table *)
Definition sfx_split (sfx : string) (table : list string) : option (bool * string) :=
  if String.eqb sfx "" then Some (false, "")
  else if smem sfx table then Some (false, sfx)
  else match find (fun s => String.eqb sfx ("_" ++ s)) table with Some s => Some (true, s) | None => None end.

Lemma sfx_split_chars sfx table us s :
  sfx_split sfx table = Some (us, s) ->
  chars sfx = (if us then [c_us] else []) ++ chars s /\ (s = "" \/ In s table).
Proof.
  unfold sfx_split. destruct (String.eqb_spec sfx "") as [->|_].
  - intros E. inversion E. subst. split; [reflexivity | left; reflexivity].
  - destruct (smem sfx table) eqn:M.
    + intros E. inversion E. subst. split; [reflexivity | right; apply smem_In; exact M].
    + destruct (find _ table) as [s'|] eqn:F; [|discriminate]. intros E. inversion E. subst.
      apply find_some in F. destruct F as [Hin Heq]. apply String.eqb_eq in Heq. subst sfx.
      split; [reflexivity | right; exact Hin].
Qed.

Definition strip_self (table : list string) : bool :=
  forallb (fun s => match strip_suffix table (chars s) with [] => true | _ => false end) table.

Lemma strip_self_In table s : strip_self table = true -> s = "" \/ In s table ->
  heads_avoid table [] = true -> strip_suffix table (chars s) = [].
Proof.
  intros H [->|Hin] Hne.
  - change (chars "") with (@nil ascii). rewrite <- (app_nil_l []) at 1.
    apply (strip_suffix_exact table []); [exact Hne | reflexivity|].
    clear H. induction table as [|t table IH]; [reflexivity|].
    cbn [heads_avoid forallb] in Hne. apply andb_prop in Hne. destruct Hne as [Ht Hne].
    cbn [strip_suffix]. destruct (chars t) as [|c r]; [discriminate|]. cbn [ends_with list_eqb orb]. apply IH. exact Hne.
  - unfold strip_self in H. rewrite forallb_forall in H. specialize (H s Hin).
    destruct (strip_suffix table (chars s)); [reflexivity | discriminate].
Qed.

Lemma heads_avoid_nil table al : heads_avoid table al = true -> heads_avoid table [] = true.
Proof.
  unfold heads_avoid. rewrite !forallb_forall. intros H t Ht. specialize (H t Ht). destruct (chars t); [discriminate | reflexivity].
Qed.

(* stripping the type suffix of  body [_] suffix  gives  body [_] *)
Lemma strip_suffix_lit table al body us s :
  heads_avoid table al = true -> strip_self table = true -> existsb (Ascii.eqb c_us) al = true \/ us = false ->
  over al body = true -> s = "" \/ In s table ->
  strip_suffix table (body ++ (if us then [c_us] else []) ++ chars s) = body ++ (if us then [c_us] else []).
Proof.
  intros Hh Hself Hus Ho Hs. rewrite app_assoc.
  apply (strip_suffix_exact table al); [exact Hh | | apply strip_self_In; [exact Hself | exact Hs | apply (heads_avoid_nil _ al Hh)]].
  rewrite over_app, Ho. destruct us; [|reflexivity]. destruct Hus as [Hus|Hus]; [|discriminate].
  unfold over. cbn [forallb]. rewrite Hus. reflexivity.
Qed.

Lemma is_prefixed_over al s :
  over al s = true -> forallb (fun c => negb (existsb (Ascii.eqb c) al)) base_letters = true -> is_prefixed s = false.
Proof.
  intros Ho Hal. destruct s as [|z [|x body]]; [reflexivity|reflexivity|].
  cbn [is_prefixed]. unfold is_one_of.
  assert (Hx : existsb (Ascii.eqb x) al = true) by (apply (over_In al (z :: x :: body)); [exact Ho | right; left; reflexivity]).
  assert (N : forall c, In c base_letters -> Ascii.eqb x c = false).
  { intros c Hc. rewrite forallb_forall in Hal. specialize (Hal c Hc). apply negb_true_iff in Hal.
    destruct (Ascii.eqb x c) eqn:E; [|reflexivity]. apply Ascii.eqb_eq in E. subst c. congruence. }
  rewrite (N "x"%char), (N "X"%char), (N "o"%char), (N "O"%char), (N "b"%char), (N "B"%char); cbn; try tauto.
  apply andb_false_r.
Qed.

(* the characters type suffixes are written with *)
Definition suffix_alpha : list ascii := chars "_uisizef0123456789".

Lemma suffix_chars_over (table : list string) (us : bool) (s : string) :
  forallb (fun t => over suffix_alpha (chars t)) table = true -> s = "" \/ In s table ->
  over suffix_alpha ((if us then [c_us] else []) ++ chars s) = true.
Proof.
  intros H Hs. rewrite over_app. apply andb_true_iff. split; [destruct us; reflexivity|].
  destruct Hs as [->|Hin]; [reflexivity|]. rewrite forallb_forall in H. apply H. exact Hin.
Qed.

(* the suffix selection found in the repaired source is the property's *)
Lemma rs_tables_fact : rs_prefixed_markers = ["0x"; "0o"; "0b"] /\ rs_prefixed_skip = ["f"].
Proof. split; reflexivity. Qed.

Lemma lower_is_0 c : Ascii.eqb (lower_char c) "0"%char = Ascii.eqb c "0"%char.
Proof. destruct c as [[] [] [] [] [] [] [] []]; reflexivity. Qed.
Lemma lower_is_x c : Ascii.eqb (lower_char c) "x"%char = is_one_of c "x"%char "X"%char.
Proof. destruct c as [[] [] [] [] [] [] [] []]; reflexivity. Qed.
Lemma lower_is_o c : Ascii.eqb (lower_char c) "o"%char = is_one_of c "o"%char "O"%char.
Proof. destruct c as [[] [] [] [] [] [] [] []]; reflexivity. Qed.
Lemma lower_is_b c : Ascii.eqb (lower_char c) "b"%char = is_one_of c "b"%char "B"%char.
Proof. destruct c as [[] [] [] [] [] [] [] []]; reflexivity. Qed.

Lemma code_prefixed_eq text : code_prefixed text = is_prefixed text.
Proof.
  unfold code_prefixed. rewrite (proj1 rs_tables_fact). destruct text as [|z [|x r]]; [reflexivity | cbn; rewrite !andb_false_r; reflexivity |].
  cbn [firstn map existsb list_eqb chars list_ascii_of_string is_prefixed].
  rewrite lower_is_0, lower_is_x, lower_is_o, lower_is_b. unfold c_0.
  destruct (Ascii.eqb z "0"%char), (is_one_of x "x"%char "X"%char), (is_one_of x "o"%char "O"%char), (is_one_of x "b"%char "B"%char); reflexivity.
Qed.

Lemma rs_suffix_table_code text : rs_suffix_table true text = rs_suffix_table false text.
Proof.
  unfold rs_suffix_table. rewrite code_prefixed_eq. destruct (is_prefixed text); [|reflexivity].
  unfold code_skipped. rewrite (proj2 rs_tables_fact). reflexivity.
Qed.

Lemma rs_extract_code tbl ty text : rs_extract tbl ty text = rs_extract false ty text.
Proof. destruct tbl; [|reflexivity]. unfold rs_extract. rewrite rs_suffix_table_code. reflexivity. Qed.

Definition rs_int_sfx_table (r : radix) : list string :=
  match r with RDec => int_suffixes ++ float_suffixes | _ => int_suffixes end.

(* extract_total (Rust, integers), for the property's suffix selection; rs_extract_code carries it to the source's *)
Definition rs_radix_ok (r : radix) : bool := match r with RHexU | ROctU | RBinU => false | _ => true end.

Lemma rs_extract_int r up gs sfx us s :
  rs_radix_ok r = true -> groups_ok (base_of r) gs = true -> dec_ok r gs = true ->
  sfx_split sfx (rs_int_sfx_table r) = Some (us, s) ->
  rs_extract false "integer_literal" (lit_chars (LInt r gs up sfx))
  = Some (digits_val (Z.of_nat (base_of r)) 0 (List.concat gs), 0%Z).
Proof.
  intros Hr Hg Hz Hs. unfold lit_chars. cbn [lit_body lit_suffix].
  destruct (sfx_split_chars _ _ _ _ Hs) as [Ec Hin]. rewrite Ec.
  set (body := prefix_of r ++ render_groups up gs).
  set (tail := (if us then [c_us] else []) ++ chars s).
  assert (L16 := base_le16 r).
  assert (CLEAN : remove_us (body ++ (if us then [c_us] else [])) = prefix_of r ++ render_groups up [List.concat gs]).
  { unfold body. rewrite !remove_us_app. rewrite (remove_us_groups up gs (groups_ok_lt16 _ gs L16 Hg)).
    cbn [render_groups]. replace (remove_us (prefix_of r)) with (prefix_of r) by (destruct r; reflexivity).
    replace (remove_us (if us then [c_us] else [])) with (@nil ascii) by (destruct us; reflexivity).
    rewrite app_nil_r. reflexivity. }
  assert (VAL : py_int0 (prefix_of r ++ render_groups up [List.concat gs]) = Some (digits_val (Z.of_nat (base_of r)) 0 (List.concat gs))).
  { destruct (groups_ok_concat _ _ Hg) as [[d [t E]] Hall].
    rewrite (py_int0_body r up [List.concat gs]).
    - cbn [List.concat]. rewrite app_nil_r. reflexivity.
    - cbn [groups_ok forallb]. rewrite E. rewrite <- E. rewrite Hall. reflexivity.
    - destruct r; try reflexivity. cbn [dec_ok List.concat] in *. rewrite app_nil_r. exact Hz. }
  unfold rs_extract. rewrite rs_float_type_fact. change (String.eqb "integer_literal" "float_literal") with false. cbv iota.
  assert (HinAll : s = "" \/ In s (int_suffixes ++ float_suffixes)).
  { destruct Hin as [->|Hin]; [left; reflexivity | right]. destruct r; try discriminate; cbn [rs_int_sfx_table] in Hin; [exact Hin | | | ]; apply in_or_app; left; exact Hin. }
  assert (STRIP : strip_suffix (rs_suffix_table false (body ++ tail)) (body ++ tail) = body ++ (if us then [c_us] else [])).
  { unfold tail. unfold rs_suffix_table. rewrite rs_suffixes_fact.
    destruct r; try discriminate.
    - assert (NP : is_prefixed (body ++ (if us then [c_us] else []) ++ chars s) = false).
      { apply (is_prefixed_over (int_alpha RDec up (seq 0 10) ++ suffix_alpha)).
        - rewrite over_app. apply andb_true_iff. split.
          + apply (over_mono (int_alpha RDec up (seq 0 10))); [apply int_body_over, groups_ok_in, Hg | destruct up; reflexivity].
          + apply (over_mono suffix_alpha); [apply (suffix_chars_over (int_suffixes ++ float_suffixes)); [reflexivity | exact HinAll] | destruct up; reflexivity].
        - destruct up; reflexivity. }
      rewrite NP.
      apply (strip_suffix_lit _ (int_alpha RDec up (seq 0 10))); [destruct up; reflexivity | reflexivity | left; destruct up; reflexivity | apply int_body_over, groups_ok_in, Hg | exact HinAll].
    - assert (P : is_prefixed (body ++ (if us then [c_us] else []) ++ chars s) = true) by reflexivity. rewrite P.
      cbn [rs_int_sfx_table] in Hin.
      change (filter (fun s0 => negb (is_float_suffix s0)) (int_suffixes ++ float_suffixes)) with int_suffixes.
      apply (strip_suffix_lit _ (int_alpha RHex up (seq 0 16))); [destruct up; reflexivity | reflexivity | left; destruct up; reflexivity | apply int_body_over, groups_ok_in, Hg | exact Hin].
    - assert (P : is_prefixed (body ++ (if us then [c_us] else []) ++ chars s) = true) by reflexivity. rewrite P.
      cbn [rs_int_sfx_table] in Hin.
      change (filter (fun s0 => negb (is_float_suffix s0)) (int_suffixes ++ float_suffixes)) with int_suffixes.
      apply (strip_suffix_lit _ (int_alpha ROct up (seq 0 8))); [destruct up; reflexivity | reflexivity | left; destruct up; reflexivity | apply int_body_over, groups_ok_in, Hg | exact Hin].
    - assert (P : is_prefixed (body ++ (if us then [c_us] else []) ++ chars s) = true) by reflexivity. rewrite P.
      cbn [rs_int_sfx_table] in Hin.
      change (filter (fun s0 => negb (is_float_suffix s0)) (int_suffixes ++ float_suffixes)) with int_suffixes.
      apply (strip_suffix_lit _ (int_alpha RBin up (seq 0 2))); [destruct up; reflexivity | reflexivity | left; destruct up; reflexivity | apply int_body_over, groups_ok_in, Hg | exact Hin]. }
  fold tail. rewrite STRIP, CLEAN, VAL. reflexivity.
Qed.

(* extract_total (Rust, floats) *)
Lemma rs_extract_float ip fp ex sfx us s :
  fdigits_ok ip = true -> nonempty ip = true -> fdigits_ok fp = true -> ex_ok ex = true ->
  sfx_split sfx float_suffixes = Some (us, s) ->
  rs_extract false "float_literal" (lit_chars (LFloat ip fp ex sfx))
  = Some (digits_val 10 0 (ip ++ fp), (- Z.of_nat (List.length fp) + exp_val ex)%Z).
Proof.
  intros Hi Hn Hf He Hs. unfold lit_chars. cbn [lit_body lit_suffix].
  destruct (sfx_split_chars _ _ _ _ Hs) as [Ec Hin]. rewrite Ec.
  assert (Hover := float_body_over ip fp ex Hi Hf He).
  assert (HinAll : s = "" \/ In s (int_suffixes ++ float_suffixes)).
  { destruct Hin as [->|Hin]; [left; reflexivity | right; apply in_or_app; right; exact Hin]. }
  unfold rs_extract. rewrite rs_float_type_fact. change (String.eqb "float_literal" "float_literal") with true. cbv iota.
  assert (NP : is_prefixed (float_body ip fp ex ++ (if us then [c_us] else []) ++ chars s) = false).
  { apply (is_prefixed_over (float_alpha ++ suffix_alpha)); [|reflexivity].
    rewrite over_app. apply andb_true_iff. split.
    - apply (over_mono float_alpha); [exact Hover | reflexivity].
    - apply (over_mono suffix_alpha); [apply (suffix_chars_over (int_suffixes ++ float_suffixes)); [reflexivity | exact HinAll] | reflexivity]. }
  unfold rs_suffix_table. rewrite NP, rs_suffixes_fact.
  rewrite (strip_suffix_lit (int_suffixes ++ float_suffixes) (c_us :: float_alpha) (float_body ip fp ex) us s);
    [ | reflexivity | reflexivity | left; reflexivity | apply (over_mono float_alpha); [exact Hover | reflexivity] | exact HinAll].
  rewrite remove_us_app. rewrite (remove_us_over float_alpha _ Hover) by reflexivity.
  replace (remove_us (if us then [c_us] else [])) with (@nil ascii) by (destruct us; reflexivity).
  rewrite app_nil_r. apply py_float_body; try assumption. rewrite Hn. reflexivity.
Qed.
