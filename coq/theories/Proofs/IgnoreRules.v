(* Proofs/IgnoreRules.v — the documented rule-name spellings (C04 theorem 1): over the registry of rule ids found
   in the source, every spelling of a rule names it and the spellings of other linters do not; in general the
   match ignores letter case. *)
From TL Require Import Lib.Base Lib.GenTypes Gen.IgnoreGen Model.PyStr Model.Ignore Proofs.IgnoreStr.

(* ---------- letter case, in general ---------- *)
Lemma rule_matches_lower r x : rule_matches (lower r) (lower x) = rule_matches r x.
Proof. unfold rule_matches, matches_pattern_directly, matches_via_alias. now rewrite !lower_idem. Qed.

Theorem rule_matches_any_case r r' x x' : lower r = lower r' -> lower x = lower x' -> rule_matches r x = rule_matches r' x'.
Proof. intros Er Ex. rewrite <- (rule_matches_lower r x), <- (rule_matches_lower r' x'). now rewrite Er, Ex. Qed.

(* ---------- the registry ---------- *)
Definition upper_ascii (c : ascii) : ascii :=
  match c with
  | Ascii b0 b1 b2 b3 b4 b5 b6 b7 =>
      if negb b7 && b6 && b5 && (b0 || b1 || b2 || b3 || b4) && negb (b4 && b3 && (b2 || (b1 && b0)))
      then Ascii b0 b1 b2 b3 b4 false b6 b7 else c
  end.
Fixpoint upper (s : string) : string :=
  match s with EmptyString => EmptyString | String c r => String (upper_ascii c) (upper r) end.
(* aLtErNaTiNg case *)
Fixpoint mixed (flip : bool) (s : string) : string :=
  match s with EmptyString => EmptyString | String c r => String (if flip then upper_ascii c else c) (mixed (negb flip) r) end.

Definition linter_of (r : string) : string := first_field "." r.
Definition dotted (r : string) : bool := containsb "." r.

(* the ways of writing rule r that C04 lists: full id, linter prefix, prefix.* (for dotted ids), each deprecated
   alias of r with its prefix forms; every one of them also in upper and in mixed case *)
Definition base_spellings (r : string) : list string :=
  [r; linter_of r] ++ (if dotted r then [(linter_of r ++ ".*")%string] else [])
  ++ flat_map (fun kv => if String.eqb (snd kv) r then [fst kv; linter_of (fst kv); (linter_of (fst kv) ++ ".*")%string] else []) rule_id_aliases.
Definition spellings (r : string) : list string :=
  flat_map (fun x => [x; upper x; mixed true x]) (base_spellings r).

Theorem rule_spellings_match :
  forallb (fun r => forallb (rule_matches r) (spellings r)) registry_rule_ids = true.
Proof. vm_compute. reflexivity. Qed.

(* naming another linter (its id, its prefix, its prefix.*, in any of the three cases) never names r;
   the deprecated alias of a rule names only that rule *)
Definition unrelated (r r' : string) : bool :=
  negb (String.eqb (linter_of r) (linter_of r'))
  && negb (existsb (fun kv => String.eqb (linter_of (fst kv)) (linter_of r') || String.eqb (linter_of (fst kv)) (linter_of r)) rule_id_aliases).

Theorem other_linters_do_not_match :
  forallb (fun r => forallb (fun r' => negb (unrelated r r') || forallb (fun x => negb (rule_matches r x)) (spellings r'))
                            registry_rule_ids) registry_rule_ids = true.
Proof. vm_compute. reflexivity. Qed.

(* the alias names exactly its canonical rule among the registry *)
Theorem alias_names_only_its_rule :
  forallb (fun kv => forallb (fun r => Bool.eqb (rule_matches r (fst kv)) (String.eqb r (snd kv))) registry_rule_ids) rule_id_aliases = true.
Proof. vm_compute. reflexivity. Qed.

(* the wildcard alone names everything *)
Theorem star_names_all r : rule_matches r "*" = true.
Proof. reflexivity. Qed.

Example spellings_nonvacuous :
  smem "IMPROPER-LOGGING.*" (spellings "improper-logging.print-statement") && smem "print-statements" (spellings "improper-logging.print-statement")
  && smem "NeStInG" (spellings "nesting.excessive-depth") && (30 <=? List.length registry_rule_ids) = true.
Proof. vm_compute. reflexivity. Qed.
