(* Proofs/CfgEntryProofs.v — the merge does not depend on how the preset was chosen: for every way of entering init-config
   (flag or prompt, any answers) on an existing file without --force the result IS init_config for the chosen preset, so the
   whole merge specification carries over; with --force or without a file the text is the fresh file of the chosen preset; the
   prompt only ever yields the default or one of the presets. *)
From TL Require Import Lib.Base Lib.GenTypes Model.CfgTypes Gen.CfgToolGen Model.CfgMerge Model.CfgEntry
     Proofs.CfgLines Proofs.CfgMergeMain Proofs.CfgMergeText Proofs.CfgMergeSpec Proofs.CfgInitMain.

Lemma gen_prompt_offers_presets : prompt_choices = map fst presets /\ init_entry_shape_ok = true. Proof. split; reflexivity. Qed.

Lemma prompt_choice_sound d ans p : prompt_choice d ans = Some p -> p = d \/ In p (map fst presets).
Proof.
  destruct gen_prompt_offers_presets as (<- & _). induction ans as [|a r IH]; [discriminate|]. cbn [prompt_choice].
  destruct (String.eqb a EmptyString); [intros [= <-]; now left|].
  destruct (smem a prompt_choices) eqn:Hm; [intros [= <-]; right; now apply smem_In|exact IH].
Qed.

Theorem entry_merge_is_init_config q ni d ans E p :
  entry_preset ni d ans = Some p -> init_entry q ni d ans false (Some E) = EMerge (init_config q p E).
Proof. intro H. unfold init_entry. now rewrite H. Qed.

Theorem entry_fresh_is_template q ni d ans force existing p reps :
  entry_preset ni d ans = Some p -> lookup p presets = Some reps -> (force = true \/ existing = None) ->
  init_entry q ni d ans force existing = EFresh (gen_content reps).
Proof.
  intros H Hl Hc. unfold init_entry. rewrite H. destruct existing as [E|]; [|now rewrite Hl].
  destruct Hc as [->|Hc]; [now rewrite Hl|discriminate].
Qed.

Theorem entry_abort_only_without_answer q d ans force existing :
  init_entry q false d ans force existing = EAbort -> prompt_choice d ans = None.
Proof.
  unfold init_entry, entry_preset. destruct (prompt_choice d ans) as [p|]; [|reflexivity].
  destruct existing as [E|]; [destruct force|]; try discriminate; destruct (lookup p presets); discriminate.
Qed.

(* the merge specification for every entry point *)
Theorem init_entry_spec q ni d ans p reps E :
  q_append_to_flow_root q = false \/ is_block E = true -> q_insert_mid_entry q = false \/ marker_ok E = true ->
  entry_preset ni d ans = Some p -> lookup p presets = Some reps -> struct_r (analyse E) = true ->
  exists r, init_entry q ni d ans false (Some E) = EMerge r /\
            let R := result_file E r in
            forall r2, init_entry q ni d ans false (Some R) = EMerge r2 -> spec_ok reps E R (result_file R r2) = true.
Proof.
  intros H2 H3 Hp Hl Hs. exists (init_config q p E). split; [now apply entry_merge_is_init_config|].
  cbv zeta. intros r2 Hr2. rewrite (entry_merge_is_init_config q ni d ans _ p Hp) in Hr2. injection Hr2 as <-.
  exact (init_config_spec q p reps E Hl Hs H2 H3).
Qed.
