(* Proofs/OrchConsts.v — the grouping of near-equal constant names (Model/OrchConsts.v) computes exactly the connected
   components of the match graph, for every list of names, every symmetric match predicate and both directions of union;
   hence the partition does not depend on the order in which the names (files) reach the rule. *)
From Coq Require Import Permutation.
From TL Require Import Lib.Base Lib.GenTypes Gen.OrchHistGen Model.OrchConsts.

Definition dom (l : roots) : list cname := map fst l.

Lemma dom_relabel from to l : dom (relabel from to l) = dom l.
Proof.
  unfold dom, relabel. rewrite map_map. apply map_ext. intros [n r]. cbn [fst snd].
  destruct (r =? from); reflexivity.
Qed.

Lemma find_relabel from to l z : In z (dom l) ->
  uf_find (relabel from to l) z = if uf_find l z =? from then to else uf_find l z.
Proof.
  unfold relabel, dom.
  induction l as [|[n r] t IH]; cbn [map In fst snd uf_find]; [tauto|].
  intros H.
  destruct (n =? z) eqn:Enz.
  - destruct (r =? from) eqn:Er; cbn [uf_find]; rewrite Enz; reflexivity.
  - assert (Hz : In z (map fst t)).
    { destruct H as [H|H]; [apply Nat.eqb_neq in Enz; congruence|exact H]. }
    destruct (r =? from) eqn:Er; cbn [uf_find]; rewrite Enz; exact (IH Hz).
Qed.

Lemma dom_union dir l x y : dom (uf_union dir l x y) = dom l.
Proof.
  unfold uf_union. destruct (uf_find l x =? uf_find l y); [reflexivity|].
  destruct dir; apply dom_relabel.
Qed.

Lemma find_union dir l x y z : In z (dom l) ->
  uf_find (uf_union dir l x y) z =
  if uf_find l x =? uf_find l y then uf_find l z
  else if dir then (if uf_find l z =? uf_find l x then uf_find l y else uf_find l z)
       else (if uf_find l z =? uf_find l y then uf_find l x else uf_find l z).
Proof.
  intros Hz. unfold uf_union. destruct (uf_find l x =? uf_find l y); [reflexivity|].
  destruct dir; apply find_relabel; exact Hz.
Qed.

Lemma union_keeps_eq dir l x y a b : In a (dom l) -> In b (dom l) ->
  uf_find l a = uf_find l b -> uf_find (uf_union dir l x y) a = uf_find (uf_union dir l x y) b.
Proof. intros Ha Hb E. rewrite (find_union dir l x y a Ha), (find_union dir l x y b Hb), E. reflexivity. Qed.

Lemma union_joins dir l x y : In x (dom l) -> In y (dom l) ->
  uf_find (uf_union dir l x y) x = uf_find (uf_union dir l x y) y.
Proof.
  intros Hx Hy. rewrite (find_union dir l x y x Hx), (find_union dir l x y y Hy).
  destruct (uf_find l x =? uf_find l y) eqn:E; [apply Nat.eqb_eq; exact E|].
  destruct dir.
  - rewrite Nat.eqb_refl. destruct (uf_find l y =? uf_find l x); reflexivity.
  - rewrite Nat.eqb_refl. reflexivity.
Qed.

Lemma find_init names z : uf_find (uf_init names) z = z.
Proof.
  unfold uf_init. induction names as [|n t IH]; cbn [map uf_find]; [reflexivity|].
  destruct (n =? z) eqn:E; [apply Nat.eqb_eq; exact E|exact IH].
Qed.

Lemma dom_init names : dom (uf_init names) = names.
Proof. unfold dom, uf_init. rewrite map_map. cbn [fst]. apply map_id. Qed.

Lemma comb_in l a b : In (a, b) (combinations2 l) -> In a l /\ In b l.
Proof.
  induction l as [|x t IH]; cbn [combinations2 In]; [tauto|].
  intros H. apply in_app_or in H. destruct H as [H|H].
  - apply in_map_iff in H. destruct H as [y [E Hy]]. inversion E; subst. split; [left; reflexivity|right; exact Hy].
  - destruct (IH H) as [Ha Hb]. split; right; assumption.
Qed.

Lemma comb_complete l a b : In a l -> In b l -> a <> b ->
  In (a, b) (combinations2 l) \/ In (b, a) (combinations2 l).
Proof.
  induction l as [|x t IH]; cbn [combinations2 In]; [tauto|].
  intros [Ha|Ha] [Hb|Hb] Hne.
  - exfalso. apply Hne. congruence.
  - left. apply in_or_app. left. apply in_map_iff. exists b. subst x. split; [reflexivity|exact Hb].
  - right. apply in_or_app. left. apply in_map_iff. exists a. subst x. split; [reflexivity|exact Ha].
  - destruct (IH Ha Hb Hne) as [H|H]; [left|right]; apply in_or_app; right; exact H.
Qed.

Section Conn.
  Variable m : cname -> cname -> bool.
  Variable names : list cname.

  (* the match graph on the names of the run, and its reflexive-symmetric-transitive closure *)
  Definition edge (a b : cname) : Prop := In a names /\ In b names /\ m a b = true.
  Inductive conn : cname -> cname -> Prop :=
  | c_base a b : edge a b -> conn a b
  | c_refl a : conn a a
  | c_sym a b : conn a b -> conn b a
  | c_trans a b c : conn a b -> conn b c -> conn a c.

  Definition sound (l : roots) : Prop := forall z, In z names -> conn z (uf_find l z).
  Definition pairs_in (ps : list (cname * cname)) : Prop := forall p, In p ps -> In (fst p) names /\ In (snd p) names.

  Lemma sound_union dir l x y : dom l = names -> sound l -> In x names -> In y names -> m x y = true ->
    sound (uf_union dir l x y).
  Proof.
    intros Hd Hs Hx Hy Hm z Hz.
    rewrite find_union by (rewrite Hd; exact Hz).
    destruct (uf_find l x =? uf_find l y); [apply Hs; exact Hz|].
    assert (Exy : conn x y) by (apply c_base; repeat split; assumption).
    destruct dir.
    - destruct (uf_find l z =? uf_find l x) eqn:E; [|apply Hs; exact Hz].
      apply Nat.eqb_eq in E.
      apply c_trans with (uf_find l x); [rewrite <- E; apply Hs; exact Hz|].
      apply c_trans with x; [apply c_sym; apply Hs; exact Hx|].
      apply c_trans with y; [exact Exy|apply Hs; exact Hy].
    - destruct (uf_find l z =? uf_find l y) eqn:E; [|apply Hs; exact Hz].
      apply Nat.eqb_eq in E.
      apply c_trans with (uf_find l y); [rewrite <- E; apply Hs; exact Hz|].
      apply c_trans with y; [apply c_sym; apply Hs; exact Hy|].
      apply c_trans with x; [apply c_sym; exact Exy|apply Hs; exact Hx].
  Qed.

  Lemma dom_step dir l p : dom (union_step dir m l p) = dom l.
  Proof. unfold union_step. destruct (m (fst p) (snd p)); [apply dom_union|reflexivity]. Qed.

  Lemma pairs_sound dir ps : forall l, dom l = names -> sound l -> pairs_in ps ->
    sound (union_pairs dir m l ps) /\ dom (union_pairs dir m l ps) = names.
  Proof.
    unfold union_pairs.
    induction ps as [|p ps IH]; intros l Hd Hs Hin; cbn [fold_left]; [split; assumption|].
    apply IH.
    - rewrite dom_step. exact Hd.
    - unfold union_step. destruct (m (fst p) (snd p)) eqn:Hm; [|exact Hs].
      destruct (Hin p (or_introl eq_refl)) as [Hx Hy]. apply sound_union; assumption.
    - intros p' Hp'. apply Hin. right. exact Hp'.
  Qed.

  Lemma pairs_keep_eq dir ps : forall l a b, dom l = names -> In a names -> In b names ->
    uf_find l a = uf_find l b -> uf_find (union_pairs dir m l ps) a = uf_find (union_pairs dir m l ps) b.
  Proof.
    unfold union_pairs.
    induction ps as [|p ps IH]; intros l a b Hd Ha Hb E; cbn [fold_left]; [exact E|].
    apply IH; [rewrite dom_step; exact Hd|exact Ha|exact Hb|].
    unfold union_step. destruct (m (fst p) (snd p)); [|exact E].
    apply union_keeps_eq; [rewrite Hd; exact Ha|rewrite Hd; exact Hb|exact E].
  Qed.

  Lemma pairs_join dir ps : forall l, dom l = names -> pairs_in ps ->
    forall a b, In (a, b) ps -> m a b = true ->
    uf_find (union_pairs dir m l ps) a = uf_find (union_pairs dir m l ps) b.
  Proof.
    induction ps as [|p ps IH]; intros l Hd Hin a b Hab Hm; [destruct Hab|].
    destruct (Hin (a, b) Hab) as [Ha Hb]. cbn [fst snd] in Ha, Hb.
    destruct Hab as [->|Hab].
    - change (union_pairs dir m l ((a, b) :: ps)) with (union_pairs dir m (union_step dir m l (a, b)) ps).
      apply pairs_keep_eq; [rewrite dom_step; exact Hd|exact Ha|exact Hb|].
      unfold union_step. cbn [fst snd]. rewrite Hm.
      apply union_joins; rewrite Hd; assumption.
    - change (union_pairs dir m l (p :: ps)) with (union_pairs dir m (union_step dir m l p) ps).
      apply IH; [rewrite dom_step; exact Hd| |exact Hab|exact Hm].
      intros p' Hp'. apply Hin. right. exact Hp'.
  Qed.

  Lemma comb_pairs_in : pairs_in (combinations2 names).
  Proof. intros [a b] H. cbn [fst snd]. apply comb_in. exact H. Qed.

  (* find_constant_groups puts two names into one group exactly when they are connected in the match graph *)
  Theorem same_root_iff_connected dir : (forall a b, m a b = m b a) ->
    forall a b, In a names -> In b names ->
    (uf_find (uf_run dir m names) a = uf_find (uf_run dir m names) b <-> conn a b).
  Proof.
    intros Msym a b Ha Hb. unfold uf_run. split.
    - intros E.
      destruct (pairs_sound dir (combinations2 names) (uf_init names) (dom_init names)) as [Hs _].
      + intros z _. rewrite find_init. apply c_refl.
      + exact comb_pairs_in.
      + apply c_trans with (uf_find (union_pairs dir m (uf_init names) (combinations2 names)) a); [apply Hs; exact Ha|].
        rewrite E. apply c_sym. apply Hs. exact Hb.
    - intros C. clear Ha Hb.
      induction C as [a b [Ha [Hb Hm]]|a|a b _ IH|a b c _ IH1 _ IH2].
      + destruct (Nat.eq_dec a b) as [->|Hne]; [reflexivity|].
        destruct (comb_complete names a b Ha Hb Hne) as [H|H].
        * apply (pairs_join dir (combinations2 names) (uf_init names) (dom_init names) comb_pairs_in a b H Hm).
        * symmetry. apply (pairs_join dir (combinations2 names) (uf_init names) (dom_init names) comb_pairs_in b a H).
          rewrite Msym. exact Hm.
      + reflexivity.
      + symmetry. exact IH.
      + rewrite IH1. exact IH2.
  Qed.
End Conn.

Lemma conn_mono m names names' : (forall x, In x names -> In x names') ->
  forall a b, conn m names a b -> conn m names' a b.
Proof.
  intros Hsub a b C.
  induction C as [a b [Ha [Hb Hm]]|a|a b _ IH|a b c _ IH1 _ IH2].
  - apply c_base. repeat split; [apply Hsub; exact Ha|apply Hsub; exact Hb|exact Hm].
  - apply c_refl.
  - apply c_sym. exact IH.
  - apply c_trans with b; assumption.
Qed.

(* the partition into groups is the same for every order of the names (and for either direction of union) *)
Theorem grouping_order_independent dir dir' m names names' :
  (forall a b, m a b = m b a) -> Permutation names names' ->
  forall a b, In a names -> In b names ->
  (uf_find (uf_run dir m names) a = uf_find (uf_run dir m names) b
   <-> uf_find (uf_run dir' m names') a = uf_find (uf_run dir' m names') b).
Proof.
  intros Msym P a b Ha Hb.
  assert (Ha' : In a names') by (apply (Permutation_in _ P); exact Ha).
  assert (Hb' : In b names') by (apply (Permutation_in _ P); exact Hb).
  rewrite (same_root_iff_connected m names dir Msym a b Ha Hb).
  rewrite (same_root_iff_connected m names' dir' Msym a b Ha' Hb').
  split; apply conn_mono; intros x Hx.
  - apply (Permutation_in _ P). exact Hx.
  - apply (Permutation_in _ (Permutation_sym P)). exact Hx.
Qed.

(* the generated layer: the source unites over itertools.combinations(names, 2) and bounds the edit distance by the documented 2
   (docs/dry-linter.md: Levenshtein distance <= 2); the direction of union is free - the theorems hold for both *)
Lemma gen_const_grouping : uf_pairs_source = "combinations(names, 2)" /\ const_max_edit_distance = 2.
Proof. split; reflexivity. Qed.

(* the run-time table predicate is symmetric by construction *)
Lemma tbl_match_sym tbl a b : tbl_match tbl a b = tbl_match tbl b a.
Proof.
  unfold tbl_match. rewrite (Nat.eqb_sym a b). f_equal.
  induction tbl as [|e t IH]; cbn [existsb]; [reflexivity|]. rewrite IH. f_equal. apply orb_comm.
Qed.

(* ---------- _build_merged_groups: the group keyed by a root holds exactly the names with that root, in list order ---------- *)
Fixpoint gfind (r : cname) (gs : list (cname * list cname)) : option (list cname) :=
  match gs with [] => None | (r', ms) :: t => if r' =? r then Some ms else gfind r t end.
Definition nonempty (l : list cname) : option (list cname) := match l with [] => None | _ => Some l end.

Lemma gfind_add root n gs r :
  gfind r (add_member root n gs) =
  if r =? root then Some (match gfind root gs with Some ms => ms ++ [n] | None => [n] end) else gfind r gs.
Proof.
  induction gs as [|[r' ms] t IH]; cbn [add_member gfind].
  - rewrite (Nat.eqb_sym root r). destruct (r =? root); reflexivity.
  - destruct (r' =? root) eqn:E1; cbn [gfind].
    + apply Nat.eqb_eq in E1. subst r'. rewrite (Nat.eqb_sym root r). destruct (r =? root); reflexivity.
    + destruct (r' =? r) eqn:E2.
      * apply Nat.eqb_eq in E2. subst r'. rewrite E1. reflexivity.
      * exact IH.
Qed.

Lemma groups_fold (f : cname -> cname) (todo : list cname) : forall gs done,
  (forall r, gfind r gs = nonempty (filter (fun n => f n =? r) done)) ->
  forall r, gfind r (fold_left (fun gs n => add_member (f n) n gs) todo gs) = nonempty (filter (fun n => f n =? r) (done ++ todo)).
Proof.
  induction todo as [|n t IH]; intros gs done Inv r; cbn [fold_left].
  - rewrite app_nil_r. apply Inv.
  - replace (done ++ n :: t) with ((done ++ [n]) ++ t) by (rewrite <- app_assoc; reflexivity).
    apply IH. clear r. intros r. rewrite gfind_add, filter_app. cbn [filter].
    destruct (r =? f n) eqn:E.
    + apply Nat.eqb_eq in E. subst r. rewrite Nat.eqb_refl, Inv.
      destruct (filter (fun n0 => f n0 =? f n) done); reflexivity.
    + rewrite (Nat.eqb_sym (f n) r), E, app_nil_r. apply Inv.
Qed.

Theorem merged_group_members dir m names r :
  gfind r (merged_groups dir m names) = nonempty (filter (fun n => uf_find (uf_run dir m names) n =? r) names).
Proof.
  unfold merged_groups.
  apply (groups_fold (uf_find (uf_run dir m names)) names [] []). intros r'. reflexivity.
Qed.
