(* Proofs/LocLazy.v — C12: the lazy-ignores line scanner (Model/LocLazy.v).

   For ALL texts and ALL per-line oracles `find`:
     lazy_go_spec          what the scanner reports, for any line list: exactly the hits of the lines that no triple-quoted region
                           covers, numbered from the start value;
     state_after_parity    the region state is the parity of the number of unescaped triple quotes on the lines before;
     lazy_ideal_exact      with the file's own lines (flag off): report = (index + 1, match start + 1, text) of a hit on an existing
                           line outside every region - and every such hit is reported;
     lazy_ideal_ok         hence the property (line exists, column within the line, quoted text on the line) whenever the oracle
                           only returns matches that lie on the line it was given;
     splitlines_only_lf    str.splitlines and the file's lines coincide on texts whose only line boundary is LF, hence
     lazy_confined         the faithful scanner equals the ideal one there (confinement of the listed deviation);
     lazy_faithful_lines   under ANY flag the reports are hits of lines of the list the scanner enumerates. *)
From TL Require Import Lib.Base Lib.GenTypes Model.LocTypes Gen.LocGen Model.Loc Model.LocLazyTypes Gen.LocLazyGen Model.LocLazy
     Proofs.LocBase Proofs.LocJudge.

(* ------------------------------------------------------------------ facts read from the source *)
Lemma lazy_facts : lazy_start = 1 /\ lazy_col_off = 1 /\ lazy_orphan_pos = (1, 0).
Proof. repeat split; reflexivity. Qed.

(* ------------------------------------------------------------------ region state = parity *)
Fixpoint zipx (quotes : list string) (st : list bool) (g : string -> bool) : list bool :=
  match quotes, st with
  | q :: qs, b :: bs => xorb b (g q) :: zipx qs bs g
  | _, _ => []
  end.

Lemma toggle_zipx quotes : forall st l, toggle_state quotes st l = zipx quotes st (fun q => Nat.odd (count_unesc q l)).
Proof.
  induction quotes as [|q qs IH]; intros [|b bs] l; cbn [toggle_state zipx]; try reflexivity.
  now rewrite IH.
Qed.

Lemma zipx_zipx quotes : forall st g1 g2, zipx quotes (zipx quotes st g1) g2 = zipx quotes st (fun q => xorb (g1 q) (g2 q)).
Proof.
  induction quotes as [|q qs IH]; intros [|b bs] g1 g2; cbn [zipx]; try reflexivity.
  rewrite IH. now rewrite Bool.xorb_assoc.
Qed.

Lemma zipx_ext quotes : forall st g1 g2, (forall q, g1 q = g2 q) -> zipx quotes st g1 = zipx quotes st g2.
Proof.
  induction quotes as [|q qs IH]; intros [|b bs] g1 g2 H; cbn [zipx]; try reflexivity.
  rewrite (H q). now rewrite (IH bs g1 g2 H).
Qed.

Lemma zipx_false quotes : forall st, zipx quotes st (fun _ => false) = firstn (List.length quotes) st.
Proof.
  induction quotes as [|q qs IH]; intros [|b bs]; cbn [zipx firstn List.length]; try reflexivity.
  rewrite IH. now rewrite Bool.xorb_false_r.
Qed.

Lemma zipx_init quotes g : zipx quotes (init_state quotes) g = map g quotes.
Proof.
  unfold init_state. induction quotes as [|q qs IH]; cbn [zipx map]; [reflexivity|].
  rewrite Bool.xorb_false_l. now rewrite IH.
Qed.

Definition state_after (quotes : list string) (st : list bool) (ls : list string) : list bool :=
  fold_left (toggle_state quotes) ls st.

Lemma state_after_zipx quotes : forall ls st, List.length st = List.length quotes ->
  state_after quotes st ls = zipx quotes st (fun q => Nat.odd (total_count q ls)).
Proof.
  unfold state_after. induction ls as [|l r IH]; intros st Hlen; cbn [fold_left total_count].
  - rewrite (zipx_ext quotes st _ (fun _ => false)) by (intros; reflexivity).
    rewrite zipx_false, <- Hlen. now rewrite firstn_all.
  - rewrite IH.
    + rewrite toggle_zipx, zipx_zipx. apply zipx_ext. intros q. now rewrite Nat.odd_add.
    + rewrite toggle_zipx. clear IH. revert st Hlen. induction quotes as [|q qs IHq]; intros [|b bs] Hlen; cbn [zipx List.length] in *; try reflexivity; try discriminate.
      f_equal. apply IHq. now injection Hlen.
Qed.

Theorem state_after_parity quotes ls :
  state_after quotes (init_state quotes) ls = map (fun q => Nat.odd (total_count q ls)) quotes.
Proof.
  rewrite state_after_zipx by (unfold init_state; now rewrite map_length).
  apply zipx_init.
Qed.

Lemma in_region_parity quotes ls i :
  in_region (state_after quotes (init_state quotes) (firstn i ls)) = inside_region quotes ls i.
Proof.
  rewrite state_after_parity. unfold in_region, inside_region.
  generalize (firstn i ls). intros pre. induction quotes as [|q qs IH]; cbn [map existsb]; [reflexivity|now rewrite IH].
Qed.

(* ------------------------------------------------------------------ the scanner over any line list *)
Lemma lazy_go_spec find quotes : forall ls n st r,
  In r (lazy_go find quotes n st ls) <->
  exists i l h, nth_error ls i = Some l /\ In h (find l) /\ in_region (state_after quotes st (firstn i ls)) = false
                /\ r = (n + i, fst h + lazy_col_off, snd h).
Proof.
  induction ls as [|l0 rest IH]; intros n st r; cbn [lazy_go].
  - split; [intros []|]. intros (i & l & h & Hn & _). destruct i; discriminate.
  - rewrite in_app_iff, IH. split.
    + intros [H | (i & l & h & Hn & Hh & Hreg & ->)].
      * destruct (in_region st) eqn:Hreg; [destruct H|].
        apply in_map_iff in H. destruct H as (h & <- & Hh).
        exists 0, l0, h. cbn [nth_error firstn]. unfold state_after. cbn [fold_left].
        repeat split; trivial. now rewrite Nat.add_0_r.
      * exists (S i), l, h. cbn [nth_error firstn]. unfold state_after in *. cbn [fold_left].
        repeat split; trivial. f_equal. f_equal. lia.
    + intros (i & l & h & Hn & Hh & Hreg & ->). destruct i as [|i].
      * left. cbn [nth_error] in Hn. injection Hn as ->. cbn [firstn] in Hreg. unfold state_after in Hreg. cbn [fold_left] in Hreg.
        rewrite Hreg. apply in_map_iff. exists h. split; trivial. now rewrite Nat.add_0_r.
      * right. exists i, l, h. cbn [nth_error firstn] in *. unfold state_after in *. cbn [fold_left] in Hreg.
        repeat split; trivial. f_equal. f_equal. lia.
Qed.

(* under any flag: a report is a hit of a line of the list the scanner enumerates, outside every region of that list *)
Theorem lazy_faithful_lines q find text r : In r (lazy_scan q find text) <->
  exists i l h, nth_error (lazy_lines q text) i = Some l /\ In h (find l) /\ inside_region lazy_quotes (lazy_lines q text) i = false
                /\ r = (i + 1, fst h + 1, snd h).
Proof.
  unfold lazy_scan. rewrite lazy_go_spec. destruct lazy_facts as (Hs & Hc & _). rewrite Hs, Hc.
  split; intros (i & l & h & Hn & Hh & Hreg & ->); exists i, l, h; repeat split; trivial.
  - now rewrite <- in_region_parity.
  - f_equal. f_equal. lia.
  - now rewrite in_region_parity.
  - f_equal. f_equal. lia.
Qed.

Theorem lazy_ideal_exact find text r : In r (lazy_scan false find text) <->
  exists i l h, nth_error (lines_of text) i = Some l /\ In h (find l) /\ inside_region lazy_quotes (lines_of text) i = false
                /\ r = (i + 1, fst h + 1, snd h).
Proof. exact (lazy_faithful_lines false find text r). Qed.

(* the oracle only returns matches that lie on the line it was given: the match starts inside the line and its text is a
   piece of the line (a regex match / the rest of the line, stripped) *)
Definition find_sound (find : string -> list hit) : Prop :=
  forall l h, In h (find l) -> fst h < String.length l /\ occurs (snd h) l = true.

Theorem lazy_ideal_ok find text r : find_sound find -> In r (lazy_scan false find text) -> lrep_ok (lines_of text) r = true.
Proof.
  intros Hf Hr. apply lazy_ideal_exact in Hr. destruct Hr as (i & l & h & Hn & Hh & _ & ->).
  destruct (Hf l h Hh) as [Hlt Hocc].
  assert (Hi : i < List.length (lines_of text)) by (apply nth_error_Some; congruence).
  assert (Hl : line_text (lines_of text) (i + 1) = l).
  { rewrite line_text_row. now apply nth_error_nth. }
  unfold lrep_ok. rewrite !Bool.andb_true_iff. repeat split.
  - apply line_ok_spec. unfold nlines. lia.
  - apply col_ok_spec. rewrite Hl. lia.
  - now rewrite Hl.
Qed.

Theorem lrep_ok_means f l c t : lrep_ok f (l, c, t) = true ->
  1 <= l <= nlines f /\ c <= String.length (line_text f l) /\ exists a b, line_text f l = (a ++ t ++ b)%string.
Proof.
  unfold lrep_ok. rewrite !Bool.andb_true_iff. intros [[H1 H2] H3].
  apply line_ok_spec in H1. apply col_ok_spec in H2. apply occurs_spec in H3. auto.
Qed.

(* ------------------------------------------------------------------ confinement: texts whose only line boundary is LF *)
Lemma byte_is_lf c : byte_is c 10 = Ascii.eqb c lf.
Proof.
  unfold byte_is, lf. destruct (Ascii.eqb c (ascii_of_nat 10)) eqn:E.
  - apply Ascii.eqb_eq in E. subst c. reflexivity.
  - apply Nat.eqb_neq. intros H. apply Ascii.eqb_neq in E. apply E.
    rewrite <- (ascii_nat_embedding c). now rewrite H.
Qed.

Lemma splitlines_go_only_lf : forall s acc, only_lf s = true -> splitlines_go 0 acc s = lines_acc acc s.
Proof.
  induction s as [|c r IH]; intros acc H; [reflexivity|].
  cbn [only_lf] in H. apply Bool.andb_true_iff in H. destruct H as [Hc Hr].
  cbn [splitlines_go lines_acc]. rewrite <- byte_is_lf.
  destruct (byte_is c 10) eqn:E.
  - cbn [sep_len]. rewrite E. now rewrite IH.
  - cbn [orb] in Hc. apply Nat.eqb_eq in Hc. rewrite Hc. now apply IH.
Qed.

Theorem splitlines_only_lf s : only_lf s = true -> py_splitlines s = lines_of s.
Proof. intros H. unfold py_splitlines, lines_of. now apply splitlines_go_only_lf. Qed.

Theorem lazy_confined find text : only_lf text = true -> lazy_scan true find text = lazy_scan false find text.
Proof.
  intros H. unfold lazy_scan, lazy_lines. destruct lazy_splitter; cbn [split_with]; [reflexivity|].
  now rewrite splitlines_only_lf.
Qed.

Theorem lazy_actual_ok_partial find text r : find_sound find -> only_lf text = true ->
  In r (lazy_scan true find text) -> lrep_ok (lines_of text) r = true.
Proof. intros Hf Ht. rewrite lazy_confined by exact Ht. now apply lazy_ideal_ok. Qed.

(* ------------------------------------------------------------------ the orphaned-suppression violation: file level *)
Theorem lazy_orphan_position f : f <> [] -> lazy_orphan_ok f = true.
Proof.
  intros Hf. unfold lazy_orphan_ok. destruct lazy_facts as (_ & _ & ->). cbn [fst snd].
  apply Bool.andb_true_iff. split.
  - apply line_ok_spec. unfold nlines. destruct f; [contradiction|cbn [List.length]; lia].
  - apply col_ok_spec. lia.
Qed.

(* ------------------------------------------------------------------ the judge *)
Lemma lrep_eqb_eq a b : lrep_eqb a b = true <-> a = b.
Proof.
  destruct a as [[l1 c1] t1], b as [[l2 c2] t2]. unfold lrep_eqb.
  rewrite !Bool.andb_true_iff, !Nat.eqb_eq, String.eqb_eq. split.
  - intros [[-> ->] ->]. reflexivity.
  - intros H. injection H as -> -> ->. auto.
Qed.

Lemma lreps_eqb_eq : forall a b, lreps_eqb a b = true <-> a = b.
Proof.
  unfold lreps_eqb. induction a as [|x a IH]; intros [|y b]; cbn [List.length combine forallb Nat.eqb]; split; intros H;
    try reflexivity; try discriminate.
  - apply Bool.andb_true_iff in H. destruct H as [Hlen H]. cbn [fst snd] in H. apply Bool.andb_true_iff in H. destruct H as [Hxy H].
    apply lrep_eqb_eq in Hxy. subst y. f_equal. apply IH. now rewrite Hlen, H.
  - injection H as -> ->. specialize (proj2 (IH b) eq_refl) as H. apply Bool.andb_true_iff in H. destruct H as [Hlen H].
    rewrite Hlen, H. cbn [fst snd]. now rewrite (proj2 (lrep_eqb_eq y y) eq_refl).
Qed.

(* what the bits of judge_lazy mean *)
Theorem judge_lazy_sound tbl text impl b1 b2 b3 b4 : judge_lazy tbl text impl = [b1; b2; b3; b4] ->
  (b1 = true -> impl = lazy_scan true (table_find tbl) text)
  /\ (b2 = true -> impl = lazy_scan false (table_find tbl) text)
  /\ (b3 = true -> forall r, In r impl -> lrep_ok (lines_of text) r = true).
Proof.
  unfold judge_lazy. intros H. injection H as <- <- <- <-. repeat split.
  - apply lreps_eqb_eq.
  - apply lreps_eqb_eq.
  - intros H r Hr. rewrite forallb_forall in H. now apply H.
Qed.
