(* Proofs/OrchParMain.v — lint_files_parallel against lint_files, for arbitrary rules:
   schedule / worker-count independence, equality with the sequential run for the ideal vector,
   and the exact characterisation of when the faithful model equals the sequential run. *)
From Coq Require Import Permutation.
From TL Require Import Lib.Base Lib.GenTypes Model.OrchParTypes Gen.OrchParGen Model.OrchPar Proofs.OrchParDict.

(* results up to the order of the violations; None = the run raises *)
Definition out_equiv (a b : option (list violation)) : Prop :=
  match a, b with
  | None, None => True
  | Some x, Some y => Permutation x y
  | _, _ => False
  end.

Lemma out_equiv_refl a : out_equiv a a.
Proof. destruct a; cbn; auto. Qed.

Lemma out_equiv_sym a b : out_equiv a b -> out_equiv b a.
Proof. destruct a, b; cbn; auto using Permutation_sym. Qed.

Lemma out_equiv_trans a b c : out_equiv a b -> out_equiv b c -> out_equiv a c.
Proof. destruct a, b, c; cbn; try tauto. apply Permutation_trans. Qed.

(* ---------- literals of the source this development relies on ---------- *)
Lemma orch_facts :
  par_threshold_cmp = CLt /\ par_threshold_factor = 2 /\ par_fallback_is_lint_files = true /\ par_empty_returns_nil = true
  /\ worker_catches = "Exception" /\ worker_error_result_empty = true
  /\ extract_catches = "Exception" /\ extract_error_result_empty = true
  /\ check_reraises = ["ValueError"]
  /\ dir_parallel_collects_then_lint_files_parallel = true /\ parent_language_like_lint_file = true
  /\ seq_entry_points = [("lint_files", false); ("lint_directory", true)]
  /\ work_item = ["file_path"; "self.project_root"; "self.config"] /\ worker_builds_fresh_orchestrator_with_item_config = true
  /\ cli_dispatch = [("files", "lint_files_parallel", "lint_files"); ("dir", "lint_directory_parallel", "lint_directory")].
Proof. repeat split; reflexivity. Qed.

Lemma effective_workers_explicit n cpu : effective_workers (Some (S n)) cpu = S n.
Proof. reflexivity. Qed.

Lemma effective_workers_default cpu : effective_workers None cpu = Nat.min default_max_workers cpu.
Proof. reflexivity. Qed.

Lemma effective_workers_zero cpu : effective_workers (Some 0) cpu = Nat.min default_max_workers cpu.
Proof. reflexivity. Qed.

(* ---------- lists ---------- *)
Lemma mapM_length {A B} (f : A -> option B) l r : mapM f l = Some r -> List.length r = List.length l.
Proof.
  revert r. induction l as [|x xs IH]; intros r H; cbn [mapM] in H.
  - injection H as <-. reflexivity.
  - destruct (f x); [|discriminate H]. destruct (mapM f xs) as [ys|]; [|discriminate H].
    injection H as <-. cbn [List.length]. now rewrite (IH ys eq_refl).
Qed.

Lemma map_nth_seq {A} (l : list A) d : map (fun i => nth i l d) (seq 0 (List.length l)) = l.
Proof.
  induction l as [|x xs IH]; [reflexivity|].
  cbn [List.length seq map nth]. f_equal. rewrite <- seq_shift, map_map. exact IH.
Qed.

Lemma Permutation_concat {A} (l1 l2 : list (list A)) : Permutation l1 l2 -> Permutation (List.concat l1) (List.concat l2).
Proof.
  induction 1 as [|x l l' _ IH|x y l|l l' l'' _ IH1 _ IH2]; cbn [List.concat].
  - apply perm_nil.
  - now apply Permutation_app_head.
  - rewrite !app_assoc. apply Permutation_app_tail. apply Permutation_app_comm.
  - exact (Permutation_trans IH1 IH2).
Qed.

Lemma apply_sched_perm {A} (sched : list nat) (l : list (list A)) :
  Permutation sched (seq 0 (List.length l)) -> Permutation (apply_sched sched l) l.
Proof.
  intros H. unfold apply_sched.
  apply Permutation_trans with (map (fun i => nth i l []) (seq 0 (List.length l))).
  - now apply Permutation_map.
  - rewrite map_nth_seq. apply Permutation_refl.
Qed.

Lemma Permutation_filter {A} (p : A -> bool) l1 l2 : Permutation l1 l2 -> Permutation (filter p l1) (filter p l2).
Proof.
  induction 1 as [|x l l' _ IH|x y l|l l' l'' _ IH1 _ IH2]; cbn [filter].
  - apply perm_nil.
  - destruct (p x); [now apply perm_skip|exact IH].
  - destruct (p x), (p y); try apply Permutation_refl. apply perm_swap.
  - exact (Permutation_trans IH1 IH2).
Qed.

Section OrchProofs.
  Variables file evidence : Type.
  Variable perfile : file -> option (list violation).
  Variable collect : file -> evidence.
  Variable report : list evidence -> list violation.
  Variable parent_sees : file -> bool.

  (* domain: what the rules report are Violation objects; no evidence, no cross-file finding *)
  Hypothesis perfile_wf : forall f vs, perfile f = Some vs -> forallb wf_violation vs = true.
  Hypothesis report_nil : report [] = [].

  Let seq_run := seq_run file evidence perfile collect report.
  Let par_run := par_run file evidence perfile collect report parent_sees.
  Let parent_finalize := parent_finalize file evidence collect report parent_sees.
  Let worker := worker file perfile.
  Let below := below_threshold file.

  Lemma below_spec mw cpu files :
    below mw cpu files = true <-> List.length files < effective_workers mw cpu * 2.
  Proof.
    unfold below, below_threshold. destruct orch_facts as (-> & -> & _). cbn [cmp_nat]. apply Nat.ltb_lt.
  Qed.

  (* the violations of one task survive the process boundary unchanged *)
  Lemma transport' vs : forallb wf_violation vs = true -> exists ds, mapM to_dict vs = Some ds /\ mapM from_dict ds = Some vs.
  Proof.
    induction vs as [|v vs IH]; intros H.
    - exists []. split; reflexivity.
    - cbn [forallb] in H. apply andb_prop in H as [Hv Hvs].
      destruct (IH Hvs) as (ds & E1 & E2). destruct (roundtrip_split v Hv) as (d & T & F).
      exists (d :: ds). split; cbn [mapM]; [now rewrite T, E1|now rewrite F, E2].
  Qed.

  Lemma worker_ok q f vs : perfile f = Some vs -> exists ds, worker q f = Some ds /\ extract ds = vs.
  Proof.
    intros P. destruct (transport' vs (perfile_wf f vs P)) as (ds & T & F).
    exists ds. unfold worker, OrchPar.worker, worker_result. rewrite P, T. split; [reflexivity|].
    unfold extract. now rewrite F.
  Qed.

  (* every task delivered: the futures carry exactly the per-file results *)
  Lemma workers_ok q files vss :
    mapM perfile files = Some vss -> exists futs, mapM (worker q) files = Some futs /\ map extract futs = vss.
  Proof.
    revert vss. induction files as [|f fs IH]; intros vss H; cbn [mapM] in H.
    - injection H as <-. exists []. split; reflexivity.
    - destruct (perfile f) as [vs|] eqn:P; [|discriminate H].
      destruct (mapM perfile fs) as [vss'|] eqn:M; [|discriminate H]. injection H as <-.
      destruct (IH vss' eq_refl) as (futs & W & E). destruct (worker_ok q f vs P) as (ds & Wf & Ef).
      exists (ds :: futs). split; cbn [mapM map]; [now rewrite Wf, W|now rewrite Ef, E].
  Qed.

  (* without the swallowing handler an error in any task surfaces, as in the sequential run *)
  Lemma workers_err q files :
    swallows q = false -> mapM perfile files = None -> mapM (worker q) files = None.
  Proof.
    intros Q. induction files as [|f fs IH]; intros H; cbn [mapM] in H; [discriminate H|].
    cbn [mapM]. destruct (perfile f) as [vs|] eqn:P.
    - destruct (worker_ok q f vs P) as (ds & Wf & _). rewrite Wf.
      destruct (mapM perfile fs); [discriminate H|]. now rewrite (IH eq_refl).
    - unfold worker, OrchPar.worker, worker_result. now rewrite P, Q.
  Qed.

  (* with the handler every task returns; an erring task returns nothing *)
  Lemma workers_swallow q files :
    swallows q = true ->
    exists futs, mapM (worker q) files = Some futs
                 /\ List.length futs = List.length files
                 /\ (forall vss, mapM perfile files = Some vss -> map extract futs = vss).
  Proof.
    intros Q. induction files as [|f fs (futs & W & L & E)].
    - exists []. repeat split. intros vss H. now injection H as <-.
    - destruct (perfile f) as [vs|] eqn:P.
      + destruct (worker_ok q f vs P) as (ds & Wf & Ef). exists (ds :: futs). split; [|split].
        * cbn [mapM]. now rewrite Wf, W.
        * cbn [List.length]. now rewrite L.
        * intros vss H. cbn [mapM] in H. rewrite P in H.
          destruct (mapM perfile fs) as [vss'|]; [|discriminate H]. injection H as <-.
          cbn [map]. now rewrite Ef, (E vss' eq_refl).
      + exists ([] :: futs). split; [|split].
        * cbn [mapM]. unfold worker at 1, OrchPar.worker, worker_result. now rewrite P, Q, W.
        * cbn [List.length]. now rewrite L.
        * intros vss H. cbn [mapM] in H. rewrite P in H. discriminate H.
  Qed.

  Lemma par_unfold q mw cpu sched f fs :
    par_run q mw cpu sched (f :: fs) =
    if below mw cpu (f :: fs) then seq_run (f :: fs)
    else match mapM (worker q) (f :: fs) with
         | None => None
         | Some futs => Some (List.concat (apply_sched sched (map extract futs)) ++ parent_finalize q (f :: fs))
         end.
  Proof. reflexivity. Qed.

  Lemma filter_all {A} (p : A -> bool) l : (forall x, In x l -> p x = true) -> filter p l = l.
  Proof.
    induction l as [|x xs IH]; intros H; cbn [filter]; [reflexivity|].
    rewrite (H x (or_introl eq_refl)). f_equal. apply IH. intros y Hy. apply H. now right.
  Qed.

  (* when the parent gathers the evidence of every file, its finalize reports what the sequential finalize reports *)
  Lemma parent_finalize_full q files :
    crossfile_lost q = false ->
    (parent_restricts q = false \/ forall f, In f files -> parent_sees f = true) ->
    parent_finalize q files = report (map collect files).
  Proof.
    intros Q1 Hs. unfold parent_finalize, OrchPar.parent_finalize, parent_evidence_files. rewrite Q1.
    destruct (parent_restricts q); [|reflexivity].
    destruct Hs as [Hs|Hs]; [discriminate Hs|]. now rewrite (filter_all _ _ Hs).
  Qed.

  (* 2. MAIN (general form): the parallel run reports the multiset the sequential run reports (and raises
        iff it raises) for all worker counts, core counts, completion orders and file counts, as soon as
        the parent gathers the evidence of every file and errors surface *)
  Theorem par_equals_seq q mw cpu sched files :
    crossfile_lost q = false -> swallows q = false ->
    (parent_restricts q = false \/ forall f, In f files -> parent_sees f = true) ->
    Permutation sched (seq 0 (List.length files)) ->
    out_equiv (par_run q mw cpu sched files) (seq_run files).
  Proof.
    intros Q1 Q2 Hs S. destruct files as [|f fs].
    - unfold par_run, seq_run, OrchPar.par_run, OrchPar.seq_run. cbn [mapM map List.concat app]. rewrite report_nil. apply Permutation_refl.
    - rewrite par_unfold. destruct (below mw cpu (f :: fs)); [apply out_equiv_refl|].
      unfold seq_run, OrchPar.seq_run. destruct (mapM perfile (f :: fs)) as [vss|] eqn:M.
      + destruct (workers_ok q _ _ M) as (futs & W & E). rewrite W, E. cbn [out_equiv].
        rewrite (parent_finalize_full q _ Q1 Hs). apply Permutation_app_tail, Permutation_concat, apply_sched_perm.
        now rewrite (mapM_length _ _ _ M).
      + now rewrite (workers_err q _ Q2 M).
  Qed.

  (* the repaired source: the parent gathers evidence and both handlers re-raise what _safe_check_rule re-raises.
     Proved from the generated layer, so these two facts hold for EVERY quirk vector, the faithful one included. *)
  Lemma crossfile_kept_by_source q : crossfile_lost q = false.
  Proof. unfold crossfile_lost. destruct (q_par_crossfile_lost q); reflexivity. Qed.

  Lemma errors_surface_by_source q : swallows q = false.
  Proof. unfold swallows. destruct (q_worker_swallows_errors q); reflexivity. Qed.

  Lemma parent_unrestricted_by_source q : parent_restricts q = false.
  Proof. unfold parent_restricts. destruct (q_parent_evidence_raw_path q); reflexivity. Qed.

  (* 2''. MAIN for the faithful model, no side condition: the repaired source gathers the evidence in the parent, decides
          exclusion there on the same path expression as lint_file, and lets configuration errors surface (three facts
          read from the generated layer), so for EVERY quirk vector parallel = sequential *)
  Theorem par_equals_seq_source q mw cpu sched files :
    Permutation sched (seq 0 (List.length files)) ->
    out_equiv (par_run q mw cpu sched files) (seq_run files).
  Proof.
    apply par_equals_seq; [apply crossfile_kept_by_source|apply errors_surface_by_source|left; apply parent_unrestricted_by_source].
  Qed.

  (* 2'. MAIN for the faithful model: no hypothesis on the cross-file flag or the error flag any more.  What
         remains is the residual defect: the parent's evidence loop decides exclusion on the raw path. *)
  Theorem par_equals_seq_faithful q mw cpu sched files :
    (parent_restricts q = false \/ forall f, In f files -> parent_sees f = true) ->
    Permutation sched (seq 0 (List.length files)) ->
    out_equiv (par_run q mw cpu sched files) (seq_run files).
  Proof. apply par_equals_seq; [apply crossfile_kept_by_source|apply errors_surface_by_source]. Qed.

  Corollary par_equals_seq_flag_off q mw cpu sched files :
    q_parent_evidence_raw_path q = false ->
    Permutation sched (seq 0 (List.length files)) ->
    out_equiv (par_run q mw cpu sched files) (seq_run files).
  Proof. intros Q. apply par_equals_seq_faithful. left. unfold parent_restricts. now rewrite Q. Qed.

  (* 3. schedule independence for EVERY quirk vector, the faithful one included: two completion
        orders give the same multiset *)
  Theorem par_schedule_independent q mw cpu s1 s2 files :
    Permutation s1 (seq 0 (List.length files)) -> Permutation s2 (seq 0 (List.length files)) ->
    out_equiv (par_run q mw cpu s1 files) (par_run q mw cpu s2 files).
  Proof.
    intros S1 S2. destruct files as [|f fs]; [apply Permutation_refl|].
    rewrite !par_unfold. destruct (below mw cpu (f :: fs)); [apply out_equiv_refl|].
    destruct (mapM (worker q) (f :: fs)) as [futs|] eqn:W; [|exact I].
    cbn [out_equiv]. apply Permutation_app_tail, Permutation_concat.
    pose proof (mapM_length _ _ _ W) as L.
    apply Permutation_trans with (map extract futs).
    - apply apply_sched_perm. now rewrite map_length, L.
    - apply Permutation_sym, apply_sched_perm. now rewrite map_length, L.
  Qed.

  (* every per-file finding is reported exactly once, whatever the worker count and the order *)
  Theorem par_perfile_complete q mw cpu sched files vss :
    Permutation sched (seq 0 (List.length files)) -> mapM perfile files = Some vss ->
    exists rest, out_equiv (par_run q mw cpu sched files) (Some (List.concat vss ++ rest)).
  Proof.
    intros S M. destruct files as [|f fs].
    - injection M as <-. exists []. apply Permutation_refl.
    - rewrite par_unfold. destruct (below mw cpu (f :: fs)).
      + exists (report (map collect (f :: fs))). unfold seq_run, OrchPar.seq_run. rewrite M. apply Permutation_refl.
      + destruct (workers_ok q _ _ M) as (futs & W & E). rewrite W, E.
        exists (parent_finalize q (f :: fs)). cbn [out_equiv].
        apply Permutation_app_tail, Permutation_concat, apply_sched_perm. now rewrite (mapM_length _ _ _ M).
  Qed.

  (* 4. (about a source whose evidence loop decides exclusion on another path expression than lint_file; kept for
        the reverting patch) when the evidence loop restricts itself, the
        parallel run agrees with the sequential run iff the sequential fallback was taken, or some file raises
        (both raise), or the report over the files the loop visits is the report over all files *)
  Theorem par_restricted_equals_seq_iff q mw cpu sched files :
    parent_restricts q = true ->
    Permutation sched (seq 0 (List.length files)) ->
    (out_equiv (par_run q mw cpu sched files) (seq_run files)
     <-> (List.length files < effective_workers mw cpu * 2
          \/ mapM perfile files = None
          \/ Permutation (report (map collect (filter parent_sees files))) (report (map collect files)))).
  Proof.
    intros Q S. pose proof (crossfile_kept_by_source q) as Q1. pose proof (errors_surface_by_source q) as Q2.
    destruct files as [|f fs].
    - unfold par_run, seq_run, OrchPar.par_run, OrchPar.seq_run. cbn [mapM map List.concat app filter]. rewrite report_nil. split.
      + intros _. right. right. apply Permutation_refl.
      + intros _. apply Permutation_refl.
    - rewrite par_unfold. rewrite <- below_spec. destruct (below mw cpu (f :: fs)).
      + split; [intros _; now left|intros _; apply out_equiv_refl].
      + unfold seq_run, OrchPar.seq_run. destruct (mapM perfile (f :: fs)) as [vss|] eqn:M.
        * destruct (workers_ok q _ _ M) as (futs & W & E). rewrite W, E. cbn [out_equiv].
          unfold parent_finalize, OrchPar.parent_finalize, parent_evidence_files. rewrite Q1, Q.
          assert (P : Permutation (List.concat (apply_sched sched vss)) (List.concat vss)).
          { apply Permutation_concat, apply_sched_perm. now rewrite (mapM_length _ _ _ M). }
          split.
          -- intros H. right. right.
             apply (Permutation_app_inv_l (List.concat vss)).
             apply Permutation_trans with (2 := H). now apply Permutation_app_tail, Permutation_sym.
          -- intros [H|[H|H]]; [discriminate H|discriminate H|].
             apply Permutation_trans with (List.concat vss ++ report (map collect (filter parent_sees (f :: fs)))).
             ++ now apply Permutation_app_tail.
             ++ now apply Permutation_app_head.
        * rewrite (workers_err q _ Q2 M). cbn [out_equiv]. split; [intros _; right; now left|trivial].
  Qed.

  (* ---- the source before the repairs (kept for the reverting patches: these statements speak about generated
          layers in which the parent does not gather evidence / the handlers swallow) ---- *)
  Theorem par_crossfile_lost_iff q mw cpu sched files vss :
    crossfile_lost q = true -> mapM perfile files = Some vss ->
    Permutation sched (seq 0 (List.length files)) ->
    (out_equiv (par_run q mw cpu sched files) (seq_run files)
     <-> (List.length files < effective_workers mw cpu * 2 \/ report (map collect files) = [])).
  Proof.
    intros Q1 M S. destruct files as [|f fs].
    - injection M as <-. unfold par_run, seq_run, OrchPar.par_run, OrchPar.seq_run. cbn [mapM map List.concat app]. rewrite report_nil. split.
      + intros _. now right.
      + intros _. apply Permutation_refl.
    - rewrite par_unfold. rewrite <- below_spec. destruct (below mw cpu (f :: fs)).
      + split; [intros _; now left|intros _; apply out_equiv_refl].
      + destruct (workers_ok q _ _ M) as (futs & W & E). rewrite W, E.
        unfold parent_finalize, OrchPar.parent_finalize. rewrite Q1, report_nil, app_nil_r.
        unfold seq_run, OrchPar.seq_run. rewrite M. cbn [out_equiv].
        assert (P : Permutation (List.concat (apply_sched sched vss)) (List.concat vss)).
        { apply Permutation_concat, apply_sched_perm. now rewrite (mapM_length _ _ _ M). }
        split.
        * intros H. right.
          pose proof (Permutation_length (Permutation_trans (Permutation_sym P) H)) as Len.
          rewrite app_length in Len.
          destruct (report (map collect (f :: fs))); [reflexivity|]. cbn [List.length] in Len. lia.
        * intros [H|H]; [discriminate H|]. rewrite H, app_nil_r. exact P.
  Qed.

  Theorem par_swallows_errors q mw cpu sched files :
    swallows q = true -> mapM perfile files = None ->
    effective_workers mw cpu * 2 <= List.length files ->
    seq_run files = None /\ par_run q mw cpu sched files <> None.
  Proof.
    intros Q2 M T. split; [unfold seq_run, OrchPar.seq_run; now rewrite M|].
    destruct files as [|f fs]; [discriminate M|]. rewrite par_unfold.
    destruct (below mw cpu (f :: fs)) eqn:B; [apply below_spec in B; lia|].
    destruct (workers_swallow q (f :: fs) Q2) as (futs & W & _). rewrite W. discriminate.
  Qed.
  (* several targets: every group on its own schedule; the command output is the same multiset, and it fails iff the sequential one fails *)
  Lemma concat_opt_cons_equiv a b la lb :
    out_equiv a b -> out_equiv (concat_opt la) (concat_opt lb) -> out_equiv (concat_opt (a :: la)) (concat_opt (b :: lb)).
  Proof.
    intros H1 H2. cbn [concat_opt]. destruct a as [x|], b as [y|]; cbn [out_equiv] in H1; try tauto.
    destruct (concat_opt la) as [xs|], (concat_opt lb) as [ys|]; cbn [out_equiv] in H2 |- *; try tauto.
    now apply Permutation_app.
  Qed.

  Theorem groups_par_equals_groups_seq q mw cpu scheds groups :
    Forall2 (fun s g => Permutation s (seq 0 (List.length g))) scheds groups ->
    out_equiv (groups_par_run file evidence perfile collect report parent_sees q mw cpu scheds groups)
              (groups_seq_run file evidence perfile collect report groups).
  Proof.
    unfold groups_par_run, groups_seq_run. induction 1 as [|s g ss gs Hs _ IH]; [apply Permutation_refl|].
    cbn [combine map fst snd]. apply concat_opt_cons_equiv; [|exact IH].
    now apply par_equals_seq_source.
  Qed.

  (* the directory entry points: same statement on whatever the walk yields, recursive or not *)
  Theorem dir_par_equals_dir_seq (dir : Type) (walk : dir -> bool -> list file) q mw cpu sched d recursive :
    Permutation sched (seq 0 (List.length (walk d recursive))) ->
    out_equiv (dir_par_run file evidence dir perfile collect report parent_sees walk q mw cpu sched d recursive)
              (dir_seq_run file evidence dir perfile collect report walk d recursive).
  Proof. apply par_equals_seq_source. Qed.
End OrchProofs.

(* 5. equal multisets give equal command output and equal exit status, for every command filter *)
Theorem cli_view_equiv cmd a b : out_equiv a b -> out_equiv (cli_view cmd a) (cli_view cmd b).
Proof.
  destruct a as [x|], b as [y|]; cbn [out_equiv cli_view option_map]; try tauto. apply Permutation_filter.
Qed.

Theorem exit_code_equiv cmd a b : out_equiv a b -> exit_code cmd a = exit_code cmd b.
Proof.
  intros H. apply (cli_view_equiv cmd) in H. unfold exit_code.
  destruct (cli_view cmd a) as [x|], (cli_view cmd b) as [y|]; cbn [out_equiv] in H; try tauto.
  apply Permutation_length in H. destruct x, y; cbn [List.length] in H; try reflexivity; discriminate H.
Qed.

Lemma exit_codes_facts :
  cli_error_exit = 2
  /\ assoc "dry" cli_commands = Some (FStartsWith "dry.", 1, 0)
  /\ assoc "stringly-typed" cli_commands = Some (FContains "stringly-typed", 1, 0).
Proof. repeat split; reflexivity. Qed.
