(* Proofs/RustSafetyCtx.v — the parent-chain walks of the model compute the lexical context of the
   specification.  Invariant R between a parent chain (list of frames) and a specification context,
   established by every descent (push_R).  Facts about literals of the Python source (node-type
   names, tables) are consumed through the small `ty_*` lemmas, proved by computation on
   Gen/RustSafetyGen.v: an edit of the source that changes one of them breaks these proofs. *)
From TL Require Import Lib.Base Lib.GenTypes Model.RustSafetyTypes Model.RustSafetySpec Gen.RustSafetyGen
     Model.RustSafety Proofs.RustSafetyWalk.

(* ------------------------------------------------------------------ guard: where a quirk cannot matter *)
Record gctx := { g_macro : bool; g_forhdr : bool; g_mwrap : bool }.
Definition g0 : gctx := {| g_macro := false; g_forhdr := false; g_mwrap := false |}.
Definition is_mwrap (k : kind) : bool := match k with KMethod _ _ _ name => smem name wrapper_names | _ => false end.
Definition is_macro (k : kind) : bool := match k with KMacro _ => true | _ => false end.
Definition gpush (q : rquirks) (g : gctx) (k : kind) (i : nat) : gctx :=
  {| g_macro := g_macro g || (q_macro_opaque q && is_macro k);
     g_forhdr := g_forhdr g || (q_for_header_in_loop q && match k with KLoop LFor _ => i <? 1 | _ => false end);
     g_mwrap := g_mwrap g || (q_wrapper_method_form q && is_mwrap k) |}.

Inductive linter := LUnwrap | LClone | LBlocking.

(* calls the given linter may report *)
Definition risky (w : linter) (k : kind) : bool :=
  match k, w with
  | KMethod _ _ _ name, LUnwrap => smem name ["unwrap"; "expect"]
  | KMethod _ _ _ name, LClone => String.eqb name "clone"
  | KCall _ _ path, LBlocking => match classify_path spec_blocking_classes path with Some _ => true | None => false end
  | _, _ => false
  end.

Definition ostr_eqb (a b : option string) : bool :=
  match a, b with Some x, Some y => String.eqb x y | None, None => true | _, _ => false end.

(* node-local conditions under which the faithful model and the specification agree at this node:
   - no reportable call inside a macro invocation the model does not enter,
   - the code's attribute walk judges the item's attributes as the specification does,
   - a method call sits on the line where its receiver chain starts (or the quirk is off),
   - no clone in the iterator expression of a `for` (or the quirk is off),
   - the code's call-path table classifies the path as the documentation does,
   - no documented blocking call inside a method-form wrapper (or the quirk is off),
   - no documented blocking call at all while the message quirk is on (its message always differs). *)
Definition gok (w : linter) (q : rquirks) (g : gctx) (k : kind) (cs : list node) : bool :=
  (negb (g_macro g) || negb (risky w k)) &&
  match k with
  | KFn pre _ _ =>
    Bool.eqb (sib_walk (run_types q test_attr_run_types) test_attr_sibling_type
                      (attr_hit test_attr_needle attr_marks_test_fn (q_test_attr_substring q)) (rev pre)) (fn_is_test pre)
  | KMod pre =>
    Bool.eqb (sib_walk (run_types q cfg_attr_run_types) cfg_attr_sibling_type
                      (attr_hit cfg_attr_needle attr_is_cfg_test (q_cfg_test_literal q)) (rev pre)) (mod_is_test pre)
  | KMethod sl sc ml name =>
    match w with
    | LUnwrap => negb (q_chain_start_line q) || (sl =? ml)
    | LClone => (negb (q_chain_start_line q) || (sl =? ml)) && (negb (g_forhdr g) || negb (String.eqb name "clone"))
    | LBlocking => true
    end
  | KCall _ _ path =>
    match w with
    | LBlocking => ostr_eqb (classify_path (blocking_classes_of q) path) (classify_path spec_blocking_classes path)
                   && (negb (g_mwrap g) || negb (risky LBlocking k))
                   && (negb (q_blocking_msg_line q) || negb (risky LBlocking k))
    | _ => true
    end
  | _ => true
  end.

Definition rguard (w : linter) (q : rquirks) : gctx -> node -> bool := guard (gpush q) (gok w q).
Definition file_guard (w : linter) (q : rquirks) (file : list node) : bool := forallb (rguard w q g0) file.

(* ------------------------------------------------------------------ facts about the source's literals *)
Definition is_fn (k : kind) : bool := match k with KFn _ _ _ => true | _ => false end.
Definition is_mod (k : kind) : bool := match k with KMod _ => true | _ => false end.
Definition is_loop (k : kind) : bool := match k with KLoop _ _ => true | _ => false end.
Definition is_callk (k : kind) : bool := match k with KMethod _ _ _ _ | KCall _ _ _ => true | _ => false end.
Definition is_block (k : kind) : bool := match k with KBlock => true | _ => false end.
Definition is_let (k : kind) : bool := match k with KLet _ => true | _ => false end.

Ltac by_kind k := destruct k as [pre|pre a nm| |b| |x| |nm| |sl sc ml nm|sl sc p|p| |lk pat| | |nm]; try destruct lk; reflexivity.

Lemma ty_ctx_fn k : String.eqb (node_type k) ctx_fn_type = is_fn k. Proof. by_kind k. Qed.
Lemma ty_ctx_mod k : String.eqb (node_type k) ctx_mod_type = is_mod k. Proof. by_kind k. Qed.
Lemma ty_loop k : smem (node_type k) loop_node_types = is_loop k. Proof. by_kind k. Qed.
Lemma ty_async_fn k : String.eqb (node_type k) async_fn_type = is_fn k. Proof. by_kind k. Qed.
Lemma ty_wrapper_call k : String.eqb (node_type k) wrapper_call_type = is_callk k. Proof. by_kind k. Qed.
Lemma ty_block k : String.eqb (node_type k) let_block_type = is_block k. Proof. by_kind k. Qed.
Lemma ty_let k : String.eqb (node_type k) let_node_type = is_let k. Proof. by_kind k. Qed.
Lemma ty_stop k : smem (node_type k) let_walk_stops = is_fn k || is_block k. Proof. by_kind k. Qed.
Lemma ty_unwrap_call k : String.eqb (node_type k) unwrap_call_type = is_callk k. Proof. by_kind k. Qed.
Lemma ty_clone_call k : String.eqb (node_type k) clone_call_type = is_callk k. Proof. by_kind k. Qed.
Lemma ty_chain_recv k : String.eqb (node_type k) clone_chain_receiver_type = is_callk k. Proof. by_kind k. Qed.
Lemma ty_blocking_call k : String.eqb (node_type k) blocking_call_type = is_callk k. Proof. by_kind k. Qed.

(* the two frames that are not a node's own frame *)
Definition blkf (rest : list node) : frame :=
  {| f_type := block_type; f_pre := []; f_async := false; f_callee := None; f_mname := ""; f_after := after_of rest |}.
Definition forv : frame := fr for_value_type.

Lemma wrappers_documented : async_wrapper_functions = wrapper_names. Proof. reflexivity. Qed.

(* ------------------------------------------------------------------ one step of every upward walk *)
Definition fT (q : rquirks) (f : frame) : bool := is_test_context q f.
Definition fL (f : frame) : bool := smem (f_type f) loop_node_types.
Definition fA (f : frame) : bool := String.eqb (f_type f) async_fn_type && f_async f.
Definition fW (q : rquirks) (f : frame) : bool := is_wrapper_call q f.
Definition fB (f : frame) : bool := String.eqb (f_type f) let_block_type.
Definition fLet (f : frame) : bool := String.eqb (f_type f) let_node_type.
Definition fStop (f : frame) : bool := smem (f_type f) let_walk_stops.

Definition nearest_after (anc : list frame) : option (list string) :=
  match find_block anc with Some b => Some (f_after b) | None => None end.

Lemma nearest_after_cons f anc : nearest_after (f :: anc) = if fB f then Some (f_after f) else nearest_after anc.
Proof. unfold nearest_after, fB. cbn [find_block]. now destruct (String.eqb (f_type f) let_block_type). Qed.

Lemma let_after_cons f anc :
  let_after (f :: anc) = if fLet f then nearest_after anc else if fStop f then None else let_after anc.
Proof.
  unfold let_after, fLet, fStop, nearest_after. cbn [find_let].
  destruct (String.eqb (f_type f) let_node_type); [reflexivity|].
  now destruct (smem (f_type f) let_walk_stops).
Qed.

(* ------------------------------------------------------------------ the invariant *)
Definition R (q : rquirks) (g : gctx) (anc : list frame) (c : ctx) : Prop :=
  inside_test q anc = in_test c /\
  (g_forhdr g = false -> inside_loop anc = in_loop c) /\
  in_async_context anc = in_async c /\
  (g_mwrap g = false -> inside_wrapper q anc = in_wrap c) /\
  nearest_after anc = later c /\
  let_after anc = in_let c.

Lemma R_init q : R q g0 [] ctx0.
Proof. repeat split. Qed.

(* pushing one frame *)
Lemma R_cons q g g' anc c f c' :
  R q g anc c ->
  in_test c' = fT q f || in_test c ->
  (g_forhdr g' = false -> g_forhdr g = false /\ in_loop c' = fL f || in_loop c) ->
  in_async c' = fA f || in_async c ->
  (g_mwrap g' = false -> g_mwrap g = false /\ in_wrap c' = fW q f || in_wrap c) ->
  later c' = (if fB f then Some (f_after f) else later c) ->
  in_let c' = (if fLet f then later c else if fStop f then None else in_let c) ->
  R q g' (f :: anc) c'.
Proof.
  intros (RT & RL & RA & RW & RB & RLet) ET EL EA EW EB ELet.
  unfold R. rewrite nearest_after_cons, let_after_cons.
  unfold inside_test, inside_loop, in_async_context, inside_wrapper in *. cbn [existsb].
  rewrite RT, RA, RB, RLet.
  repeat split; try (symmetry; assumption).
  - intros Hg. destruct (EL Hg) as [Hg0 E]. rewrite (RL Hg0). symmetry. exact E.
  - intros Hg. destruct (EW Hg) as [Hg0 E]. rewrite (RW Hg0). symmetry. exact E.
Qed.

(* ------------------------------------------------------------------ classification of the pushed frames *)
Definition own_of (q : rquirks) (k : kind) (i : nat) : frame :=
  match k with
  | KLoop LFor _ => if (i <? 1) && negb (q_for_header_in_loop q) then forv else own_frame k
  | _ => own_frame k
  end.

Lemma push_m_eq q anc k i rest :
  push_m q anc k i rest =
  match k with
  | KMacro _ => if q_macro_opaque q then None else Some (own_frame k :: anc)
  | KBlock => Some (blkf rest :: anc)
  | _ => if stmt_pos k i then Some (blkf rest :: own_of q k i :: anc) else Some (own_of q k i :: anc)
  end.
Proof. destruct k as [pre|pre a nm| |b| |x| |nm| |sl sc ml nm|sl sc p|p| |lk pat| | |nm]; try destruct lk; reflexivity. Qed.

Lemma blkf_cls q rest :
  fT q (blkf rest) = false /\ fL (blkf rest) = false /\ fA (blkf rest) = false /\ fW q (blkf rest) = false /\
  fB (blkf rest) = true /\ fLet (blkf rest) = false /\ fStop (blkf rest) = true /\ f_after (blkf rest) = flat_map (idents false) rest.
Proof. repeat split. Qed.

Lemma forv_cls q :
  fT q forv = false /\ fL forv = false /\ fA forv = false /\ fW q forv = false /\ fB forv = false /\ fLet forv = false /\ fStop forv = false.
Proof. repeat split. Qed.

Lemma eqb_true_eq a b : Bool.eqb a b = true -> a = b.
Proof. destruct a, b; cbn; congruence. Qed.

Lemma fT_own w q g k cs : gok w q g k cs = true ->
  fT q (own_frame k) = match k with KMod pre => mod_is_test pre | KFn pre _ _ => fn_is_test pre | _ => false end.
Proof.
  intros G. unfold fT, is_test_context. cbn [f_type own_frame]. rewrite ty_ctx_fn, ty_ctx_mod.
  unfold gok in G. apply andb_true_iff in G as [_ G].
  destruct k as [pre|pre a nm| |b| |x| |nm| |sl sc ml nm|sl sc p|p| |lk pat| | |nm]; cbn [is_fn is_mod f_pre own_frame]; try reflexivity.
  - exact (eqb_true_eq _ _ G).
  - exact (eqb_true_eq _ _ G).
Qed.

Lemma fA_own k : fA (own_frame k) = match k with KFn _ a _ => a | _ => false end.
Proof. unfold fA. cbn [f_type own_frame]. rewrite ty_async_fn. now destruct k. Qed.

Lemma fW_own q k :
  fW q (own_frame k) = match k with
                       | KCall _ _ path => smem (last path "") wrapper_names
                       | KMethod _ _ _ name => negb (q_wrapper_method_form q) && smem name wrapper_names
                       | _ => false
                       end.
Proof.
  unfold fW, is_wrapper_call. cbn [f_type own_frame]. rewrite ty_wrapper_call, wrappers_documented.
  destruct k as [pre|pre a nm| |b| |x| |nm| |sl sc ml nm|sl sc p|p| |lk pat| | |nm]; cbn [is_callk f_callee f_mname own_frame andb]; try reflexivity.
  destruct p as [|s [|s' r]]; reflexivity.
Qed.

(* unless the descent enters a method-form wrapper the code does not see, the frame's wrapper test is the documented one *)
Lemma fW_own_spec q g k i : g_mwrap (gpush q g k i) = false ->
  fW q (own_frame k) = match k with
                       | KCall _ _ path => smem (last path "") wrapper_names
                       | KMethod _ _ _ name => smem name wrapper_names
                       | _ => false
                       end.
Proof.
  rewrite fW_own. cbn [gpush g_mwrap]. intros H. apply orb_false_iff in H as [_ H].
  destruct k; try reflexivity. cbn [is_mwrap] in H.
  destruct (q_wrapper_method_form q); cbn [negb andb] in *; [now rewrite H|reflexivity].
Qed.

Lemma fL_own k : fL (own_frame k) = is_loop k.
Proof. unfold fL. cbn [f_type own_frame]. apply ty_loop. Qed.
Lemma fB_own k : fB (own_frame k) = is_block k.
Proof. unfold fB. cbn [f_type own_frame]. apply ty_block. Qed.
Lemma fLet_own k : fLet (own_frame k) = is_let k.
Proof. unfold fLet. cbn [f_type own_frame]. apply ty_let. Qed.
Lemma fStop_own k : fStop (own_frame k) = is_fn k || is_block k.
Proof. unfold fStop. cbn [f_type own_frame]. apply ty_stop. Qed.

Lemma own_of_not_for q k i : (forall pat, k <> KLoop LFor pat) -> own_of q k i = own_frame k.
Proof. destruct k as [pre|pre a nm| |b| |x| |nm| |sl sc ml nm|sl sc p|p| |lk pat| | |nm]; try reflexivity. destruct lk; try reflexivity. intros H. now contradiction (H pat). Qed.

(* the frame a node contributes to the chain of its child i, in terms of the specification's context *)
Lemma own_of_cls w q g k cs i : gok w q g k cs = true -> is_block k = false ->
  let f := own_of q k i in
  fT q f = match k with KMod pre => mod_is_test pre | KFn pre _ _ => fn_is_test pre | _ => false end /\
  (g_forhdr (gpush q g k i) = false ->
   fL f = match k with KLoop LFor _ => 1 <=? i | KLoop _ _ => true | _ => false end) /\
  fA f = match k with KFn _ a _ => a | _ => false end /\
  (g_mwrap (gpush q g k i) = false ->
   fW q f = match k with
            | KCall _ _ path => smem (last path "") wrapper_names
            | KMethod _ _ _ name => smem name wrapper_names
            | _ => false
            end) /\
  fB f = false /\
  fLet f = is_let k /\
  fStop f = is_fn k.
Proof.
  intros G NB.
  assert (D : (forall pat, k <> KLoop LFor pat) \/ exists pat, k = KLoop LFor pat).
  { destruct k as [pre|pre a nm| |b| |x| |nm| |sl sc ml nm|sl sc p|p| |lk pat| | |nm]; try (left; intros pat0; discriminate).
    destruct lk; try (left; intros pat0; discriminate). right. now exists pat. }
  destruct D as [D|[pat ->]].
  - cbv zeta. rewrite (own_of_not_for q k i D).
    rewrite (fT_own w q g k cs G), fA_own, fL_own, fB_own, fLet_own, fStop_own, NB, orb_false_r.
    repeat split.
    + intros _. destruct k as [pre|pre a nm| |b| |x| |nm| |sl sc ml nm|sl sc p|p| |lk pat| | |nm]; try reflexivity.
      destruct lk; try reflexivity. now contradiction (D pat).
    + exact (fW_own_spec q g k i).
  - cbv zeta. unfold own_of.
    destruct ((i <? 1) && negb (q_for_header_in_loop q)) eqn:E.
    + apply andb_true_iff in E as [Ei Eq]. apply negb_true_iff in Eq.
      destruct (forv_cls q) as (T & L & A & W & B & Le & St). rewrite T, L, A, W, B, Le, St.
      repeat split. intros _. apply Nat.ltb_lt in Ei. symmetry. apply Nat.leb_gt. exact Ei.
    + rewrite (fT_own w q g _ cs G), fA_own, fL_own, fB_own, fLet_own, fStop_own.
      repeat split. cbn [gpush g_forhdr]. intros Hg. apply orb_false_iff in Hg as [_ Hg].
      cbn [is_loop]. destruct (i <? 1) eqn:Ei.
      * cbn [andb] in E. apply negb_false_iff in E. rewrite E in Hg. discriminate.
      * apply Nat.ltb_ge in Ei. symmetry. apply Nat.leb_le. exact Ei.
Qed.

(* ------------------------------------------------------------------ every descent re-establishes R *)
Lemma gforhdr_mono q g k i : g_forhdr (gpush q g k i) = false -> g_forhdr g = false.
Proof. cbn [gpush g_forhdr]. intros H. now apply orb_false_iff in H as [H _]. Qed.

Lemma stmt_pos_false_block k i : is_block k = false -> is_fn k = true -> stmt_pos k i = true.
Proof. destruct k; try discriminate. intros _ _. reflexivity. Qed.

Lemma gmwrap_mono q g k i : g_mwrap (gpush q g k i) = false -> g_mwrap g = false.
Proof. cbn [gpush g_mwrap]. intros H. now apply orb_false_iff in H as [H _]. Qed.

Definition wrap_of (k : kind) : bool :=
  match k with
  | KCall _ _ path => smem (last path "") wrapper_names
  | KMethod _ _ _ name => smem name wrapper_names
  | _ => false
  end.
Definition loop_of (k : kind) (i : nat) : bool :=
  match k with KLoop LFor _ => 1 <=? i | KLoop _ _ => true | _ => false end.

Lemma push_R w q g anc c k cs i rest : R q g anc c -> gok w q g k cs = true ->
  match spec_push c k i rest with
  | None => False
  | Some c' => match push_m q anc k i rest with
               | Some anc' => R q (gpush q g k i) anc' c'
               | None => g_macro (gpush q g k i) = true
               end
  end.
Proof.
  intros HR G. unfold spec_push. fold (wrap_of k). fold (loop_of k i). rewrite push_m_eq.
  destruct (is_block k) eqn:NB.
  { (* a block expression: one block frame *)
    destruct k; try discriminate. cbn [stmt_pos has_block hdr Nat.leb andb wrap_of loop_of].
    destruct (blkf_cls q rest) as (T & L & A & W & B & Le & St & Af).
    eapply R_cons; [exact HR|..]; cbn [in_test in_loop in_async in_wrap later in_let];
      rewrite ?T, ?L, ?A, ?W, ?B, ?Le, ?St, ?Af, ?orb_false_r; try reflexivity.
    - intros Hg. split; [exact (gforhdr_mono q g _ i Hg)|reflexivity].
    - intros Hg. split; [exact (gmwrap_mono q g _ i Hg)|reflexivity]. }
  destruct (own_of_cls w q g k cs i G NB) as (T & L & A & W & B & Le & St). cbv zeta in *.
  fold (wrap_of k) in W. fold (loop_of k i) in L.
  destruct (is_macro k) eqn:M.
  { destruct k; try discriminate. destruct (q_macro_opaque q) eqn:Q.
    - cbn [gpush g_macro is_macro]. rewrite Q. apply orb_true_r.
    - cbn [stmt_pos has_block andb].
      eapply R_cons; [exact HR|..]; cbn [in_test in_loop in_async in_wrap later in_let own_of wrap_of loop_of] in *;
        rewrite ?T, ?A, ?B, ?Le, ?St, ?orb_false_r; try reflexivity.
      + intros Hg. split; [exact (gforhdr_mono q g _ i Hg)|]. now rewrite (L Hg).
      + intros Hg. split; [exact (gmwrap_mono q g _ i Hg)|]. now rewrite (W Hg). }
  assert (E : match k with
              | KMacro _ => if q_macro_opaque q then None else Some (own_frame k :: anc)
              | KBlock => Some (blkf rest :: anc)
              | _ => if stmt_pos k i then Some (blkf rest :: own_of q k i :: anc) else Some (own_of q k i :: anc)
              end = if stmt_pos k i then Some (blkf rest :: own_of q k i :: anc) else Some (own_of q k i :: anc)).
  { destruct k; try reflexivity; discriminate. }
  rewrite E. clear E.
  (* the context after the node's own frame *)
  set (c1 := {| in_test := fT q (own_of q k i) || in_test c;
                in_loop := in_loop c || loop_of k i;
                in_async := fA (own_of q k i) || in_async c;
                in_wrap := in_wrap c || wrap_of k;
                later := later c;
                in_let := if is_let k then later c else if is_fn k then None else in_let c |}).
  assert (R1 : R q (gpush q g k i) (own_of q k i :: anc) c1).
  { eapply R_cons; [exact HR|..]; subst c1; cbn [in_test in_loop in_async in_wrap later in_let];
      rewrite ?B, ?Le, ?St; try reflexivity.
    - intros Hg. split; [exact (gforhdr_mono q g _ i Hg)|]. rewrite (L Hg). apply orb_comm.
    - intros Hg. split; [exact (gmwrap_mono q g _ i Hg)|]. rewrite (W Hg). apply orb_comm. }
  destruct (stmt_pos k i) eqn:SP.
  - destruct (blkf_cls q rest) as (T' & L' & A' & W' & B' & Le' & St' & Af').
    eapply R_cons; [exact R1|..]; subst c1; cbn [in_test in_loop in_async in_wrap later in_let];
      rewrite ?T', ?L', ?A', ?W', ?B', ?Le', ?St', ?Af', ?T, ?A; cbn [orb]; try reflexivity.
    + apply orb_comm.
    + intros Hg. split; [exact Hg|reflexivity].
    + apply orb_comm.
    + intros Hg. split; [exact Hg|reflexivity].
  - assert (NF : is_fn k = false).
    { destruct (is_fn k) eqn:F; [|reflexivity]. rewrite (stmt_pos_false_block k i NB F) in SP. discriminate. }
    destruct HR as (RT & RL & RA & RW & RB & RLet). destruct R1 as (RT1 & RL1 & RA1 & RW1 & RB1 & RLet1).
    subst c1. cbn [in_test in_loop in_async in_wrap later in_let] in *.
    unfold R. cbn [in_test in_loop in_async in_wrap later in_let].
    rewrite RT1, RA1, RB1, RLet1, T, A, NF.
    repeat split; try apply orb_comm.
    + exact RL1.
    + exact RW1.
    + destruct k; reflexivity.
Qed.
