(* Proofs/OrchParRules.v — the rule-instance level orchestrator (Model/OrchParRules.v) refines the table level one
   (Model/OrchPar.v): with the tables r_perfile / r_report computed from the rules, rseq_run IS seq_run and rpar_run IS
   par_run, provided what check() REPORTS for a file does not depend on the state of the instance (what it STORES may).
   Hence --parallel = sequential for every registry of stateful rules; and the hypothesis is necessary. *)
From Coq Require Import Permutation.
From TL Require Import Lib.Base Lib.GenTypes Model.OrchParTypes Gen.OrchParGen Model.OrchPar Model.OrchParRules
     Proofs.OrchParDict Proofs.OrchParMain.

Lemma rules_facts :
  lint_file_skip_tests = ["hardcoded_excluded"; "ignored"] /\ lint_file_runs_all_rules = true /\ execute_rules_in_order = true
  /\ base_finalize_result = [] /\ finalize_rules_over_registry = true
  /\ (parent_rule_selection = SelOverridesFinalize \/ parent_rule_selection = SelAll)
  /\ check_reraises = ["ValueError"] /\ check_swallows = ["Exception"]
  /\ forallb (fun c : string * bool => snd c) crossfile_checks_silent = true
  /\ map fst crossfile_checks_silent = ["DRYRule"; "StringlyTypedRule"].
Proof. repeat split; try reflexivity. destruct parent_rule_selection; auto. Qed.

Section RulesProofs.
  Variables file rstate : Type.
  Variable excluded ignored : file -> bool.
  Variable rules : list (rule file rstate).
  Variable parent_sees : file -> bool.

  Local Notation rule := (rule file rstate).
  Local Notation inst := (inst file rstate).
  Local Notation all := (all_rules file rstate).
  Local Notation sel := (selected file rstate).
  Local Notation vis := (visible file excluded ignored).
  Local Notation exec_rules := (exec_rules file rstate).
  Local Notation rules_out := (rules_out file rstate).
  Local Notation step_inst := (step_inst file rstate).
  Local Notation feed := (feed file rstate).
  Local Notation fresh := (fresh file rstate).
  Local Notation finalize_all := (finalize_all file rstate).
  Local Notation fin_inst := (fin_inst file rstate).
  Local Notation lint_file := (lint_file file rstate excluded ignored rules).
  Local Notation lint_loop := (lint_loop file rstate excluded ignored rules).
  Local Notation registry := (registry file rstate).
  Local Notation ensure := (ensure file rstate rules).
  Local Notation list_all := (list_all file rstate).
  Local Notation r_perfile := (r_perfile file rstate excluded ignored rules).
  Local Notation r_report := (r_report file rstate excluded ignored rules).
  Local Notation rseq_run := (rseq_run file rstate excluded ignored rules).
  Local Notation rpar_run := (rpar_run file rstate excluded ignored rules parent_sees).
  Local Notation rworker := (rworker file rstate excluded ignored rules).
  Local Notation evidence_loop := (evidence_loop file rstate excluded ignored parent_sees).
  Local Notation parent_phase := (parent_phase file rstate excluded ignored rules parent_sees).
  Local Notation parent_visits := (parent_visits file excluded ignored parent_sees).

  (* what check() reports (or raises) for a file is the same whatever the instance has seen before *)
  Definition report_local (r : rule) : Prop := forall s f, fst (r_check _ _ r s f) = fst (r_check _ _ r (r_init _ _ r) f).

  (* a rule whose check() reports nothing on any path (it only stores: every class that overrides finalize, by the
     generated census crossfile_checks_silent) is local whatever it stores *)
  Lemma silent_rule_local (r : rule) : (forall s f, fst (r_check _ _ r s f) = COk []) -> report_local r.
  Proof. intros H s f. now rewrite !H. Qed.

  Lemma map_fst_step s f (is : list inst) : map fst (map (step_inst s f) is) = map fst is.
  Proof.
    induction is as [|[r st] rest IH]; [reflexivity|]. cbn [map]. rewrite IH. f_equal.
    unfold OrchParRules.step_inst. cbn [fst snd]. now destruct (s r).
  Qed.

  Lemma map_fst_fresh rs : map fst (fresh rs) = rs.
  Proof. unfold OrchParRules.fresh. rewrite map_map. cbn [fst]. apply map_id. Qed.

  (* _execute_rules: the reported list is that of new instances, every picked instance takes its step *)
  Lemma exec_rules_spec s (is : list inst) f :
    Forall report_local (map fst is) ->
    exec_rules s is f = match rules_out s (map fst is) f with
                        | None => None
                        | Some vs => Some (vs, map (step_inst s f) is)
                        end.
  Proof.
    induction is as [|[r st] rest IH]; intros HF; [reflexivity|].
    cbn [map fst] in HF. inversion HF as [|? ? Hr Hrest]; subst.
    cbn [OrchParRules.exec_rules OrchParRules.rules_out map fst]. rewrite (IH Hrest).
    assert (ST : step_inst s f (r, st) = if s r then (r, snd (r_check file rstate r st f)) else (r, st)) by reflexivity.
    rewrite ST. clear ST.
    destruct (s r) eqn:S.
    - destruct (r_check file rstate r st f) as [o st'] eqn:E.
      assert (O : fst (r_check file rstate r (r_init file rstate r) f) = o) by (rewrite <- (Hr st f), E; reflexivity).
      rewrite O. cbn [snd]. destruct (raises o); [reflexivity|].
      destruct (rules_out s (map fst rest) f); reflexivity.
    - destruct (rules_out s (map fst rest) f); reflexivity.
  Qed.

  Hypothesis rules_local : Forall report_local rules.

  (* a registry, discovered or not, holds (will hold) one instance per rule class, in order *)
  Definition reg_ok (o : registry) : Prop := map fst (ensure o) = rules.

  Lemma reg_ok_none : reg_ok None.
  Proof. exact (map_fst_fresh rules). Qed.

  Definition step_reg (o : registry) (f : file) : registry :=
    if vis f then Some (map (step_inst all f) (ensure o)) else o.

  Lemma step_reg_ok o f : reg_ok o -> reg_ok (step_reg o f).
  Proof.
    unfold step_reg, reg_ok. intros M. destruct (vis f); [|exact M]. cbn [OrchParRules.ensure]. now rewrite map_fst_step.
  Qed.

  Lemma lint_file_spec (o : registry) f :
    reg_ok o ->
    lint_file o f = match r_perfile f with
                    | None => None
                    | Some vs => Some (vs, step_reg o f)
                    end.
  Proof.
    intros M. unfold OrchParRules.lint_file, OrchParRules.r_perfile, step_reg, OrchParRules.visible.
    destruct (excluded f); [reflexivity|]. destruct (ignored f); [reflexivity|]. cbn [orb negb].
    rewrite exec_rules_spec by (rewrite M; exact rules_local). rewrite M.
    now destruct (rules_out all rules f).
  Qed.

  Definition feed_reg (o : registry) (files : list file) : registry := fold_left step_reg files o.

  Lemma lint_loop_spec files : forall o : registry,
    reg_ok o ->
    lint_loop o files = match mapM r_perfile files with
                        | None => None
                        | Some vss => Some (List.concat vss, feed_reg o files)
                        end.
  Proof.
    induction files as [|f fs IH]; intros o M; [reflexivity|].
    cbn [OrchParRules.lint_loop mapM]. rewrite (lint_file_spec o f M).
    destruct (r_perfile f) as [vs|]; [|reflexivity].
    rewrite (IH _ (step_reg_ok o f M)). unfold feed_reg. cbn [fold_left].
    now destruct (mapM r_perfile fs).
  Qed.

  Lemma feed_reg_some files : forall is : list inst, feed_reg (Some is) files = Some (feed all vis is files).
  Proof.
    induction files as [|f fs IH]; intros is; [reflexivity|].
    unfold feed_reg, OrchParRules.feed. cbn [fold_left]. unfold step_reg at 2. cbn [OrchParRules.ensure].
    destruct (vis f); apply IH.
  Qed.

  (* no file got as far as the rules: the registry is still empty, and instances fed those files are new instances *)
  Lemma feed_reg_none files :
    feed_reg None files = if existsb vis files then Some (feed all vis (fresh rules) files) else None.
  Proof.
    induction files as [|f fs IH]; [reflexivity|].
    unfold feed_reg, OrchParRules.feed. cbn [fold_left existsb]. unfold step_reg at 2. cbn [OrchParRules.ensure].
    destruct (vis f); cbn [orb]; [apply feed_reg_some|exact IH].
  Qed.

  Lemma feed_invisible s files : forall is : list inst, existsb vis files = false -> feed s vis is files = is.
  Proof.
    induction files as [|f fs IH]; intros is H; [reflexivity|]. cbn [existsb] in H.
    apply orb_false_elim in H as [V H]. unfold OrchParRules.feed. cbn [fold_left]. rewrite V. apply IH, H.
  Qed.

  (* a new registry reports nothing from finalize *)
  Hypothesis fresh_finalize_nil : forall r g, In r rules -> r_finalize _ _ r = Some g -> g (r_init _ _ r) = [].

  Lemma finalize_fresh_nil : finalize_all (fresh rules) = [].
  Proof.
    unfold OrchParRules.finalize_all, OrchParRules.fresh. rewrite map_map.
    assert (H : forall rs, (forall r, In r rs -> In r rules) ->
                           List.concat (map (fun r : rule => fin_inst (r, r_init file rstate r)) rs) = []).
    { induction rs as [|r rest IH]; intros Sub; [reflexivity|]. cbn [map List.concat].
      rewrite IH by (intros x Hx; apply Sub; now right).
      unfold OrchParRules.fin_inst. cbn [fst snd]. destruct (r_finalize file rstate r) as [g|] eqn:G.
      - now rewrite (fresh_finalize_nil r g (Sub r (or_introl eq_refl)) G).
      - destruct rules_facts as (_ & _ & _ & -> & _). reflexivity. }
    apply H. auto.
  Qed.

  (* 1. the sequential run of stateful rule instances (lazy discovery included) IS the table-level sequential run *)
  Theorem rseq_refines files :
    rseq_run files = seq_run file file r_perfile (fun f => f) r_report files.
  Proof.
    unfold OrchParRules.rseq_run, seq_run. rewrite (lint_loop_spec files None reg_ok_none).
    destruct (mapM r_perfile files); [|reflexivity]. rewrite map_id. do 2 f_equal.
    unfold OrchParRules.r_report. rewrite feed_reg_none. destruct (existsb vis files) eqn:E; [reflexivity|].
    cbn [OrchParRules.list_all]. rewrite (feed_invisible all files (fresh rules) E), finalize_fresh_nil. reflexivity.
  Qed.

  Lemma rworker_is_worker q f : rworker q f = worker file r_perfile q f.
  Proof.
    unfold OrchParRules.rworker, worker. f_equal.
    rewrite (lint_file_spec None f reg_ok_none). now destruct (r_perfile f).
  Qed.

  Lemma mapM_ext {A B} (g h : A -> option B) l : (forall x, g x = h x) -> mapM g l = mapM h l.
  Proof. intros E. induction l as [|x xs IH]; [reflexivity|]. cbn [mapM]. now rewrite E, IH. Qed.

  (* the picked rules raise only if some rule raises *)
  Lemma rules_out_sel_some s rs f vs : rules_out all rs f = Some vs -> exists ws, rules_out s rs f = Some ws.
  Proof.
    revert vs. induction rs as [|r rest IH]; intros vs H; [now exists []|].
    cbn [OrchParRules.rules_out] in *. unfold OrchParRules.all_rules in H at 1.
    destruct (raises (fst (r_check file rstate r (r_init file rstate r) f))); [discriminate H|].
    destruct (rules_out all rest f) as [vs'|]; [|discriminate H]. destruct (IH vs' eq_refl) as (ws & W).
    destruct (s r); rewrite W; cbn [option_map]; eauto.
  Qed.

  Lemma evidence_loop_spec q files : forall is : list inst,
    map fst is = rules ->
    evidence_loop q is files
    = match mapM (fun f => if parent_visits q f then rules_out sel rules f else Some []) files with
      | None => None
      | Some _ => Some (feed sel (parent_visits q) is files)
      end.
  Proof.
    induction files as [|f fs IH]; intros is M; [reflexivity|].
    cbn [OrchParRules.evidence_loop mapM]. unfold OrchParRules.feed. cbn [fold_left].
    destruct (parent_visits q f).
    - rewrite exec_rules_spec by (rewrite M; exact rules_local). rewrite M.
      destruct (rules_out sel rules f) as [ws|]; [|reflexivity].
      rewrite (IH (map (step_inst sel f) is)) by now rewrite map_fst_step.
      now destruct (mapM _ fs).
    - rewrite (IH is M). now destruct (mapM _ fs).
  Qed.

  (* instances fed through the selection agree with instances fed by every rule, as far as finalize can tell *)
  Definition agree (a b : inst) : Prop := fst a = fst b /\ (sel (fst a) = true -> snd a = snd b).

  Lemma sel_of_overrides (r : rule) g : r_finalize _ _ r = Some g -> sel r = true.
  Proof. intros E. unfold OrchParRules.selected, overrides. rewrite E. now destruct parent_rule_selection. Qed.

  Lemma agree_step f (a b : list inst) :
    Forall2 agree a b -> Forall2 agree (map (step_inst sel f) a) (map (step_inst all f) b).
  Proof.
    induction 1 as [|[r s] [r' s'] a b [E S] _ IH]; cbn [map]; constructor; [|exact IH].
    cbn [fst snd] in E, S. subst r'. unfold OrchParRules.step_inst, agree. cbn [fst snd].
    unfold OrchParRules.all_rules. destruct (sel r) eqn:SR; cbn [fst snd]; split; auto.
    - intros _. now rewrite (S eq_refl).
    - intros C. rewrite SR in C. discriminate C.
  Qed.

  Lemma agree_feed v files : forall a b : list inst,
    Forall2 agree a b -> Forall2 agree (feed sel v a files) (feed all v b files).
  Proof.
    induction files as [|f fs IH]; intros a b H; [exact H|].
    unfold OrchParRules.feed. cbn [fold_left]. destruct (v f); apply IH; [now apply agree_step|exact H].
  Qed.

  Lemma agree_finalize (a b : list inst) : Forall2 agree a b -> finalize_all a = finalize_all b.
  Proof.
    unfold OrchParRules.finalize_all. induction 1 as [|[r s] [r' s'] a b [E S] _ IH]; [reflexivity|].
    cbn [map List.concat]. rewrite IH. f_equal. cbn [fst snd] in E, S. subst r'.
    unfold OrchParRules.fin_inst. cbn [fst snd]. destruct (r_finalize file rstate r) as [g|] eqn:G; [|reflexivity].
    now rewrite (S (sel_of_overrides r g G)).
  Qed.

  Lemma agree_refl (a : list inst) : Forall2 agree a a.
  Proof. induction a; constructor; [split; auto|assumption]. Qed.

  (* the rules report Violation objects *)
  Hypothesis rules_wf : forall r f vs, In r rules -> fst (r_check _ _ r (r_init _ _ r) f) = COk vs -> forallb wf_violation vs = true.

  Lemma rules_out_wf rs f vs : (forall r, In r rs -> In r rules) -> rules_out all rs f = Some vs -> forallb wf_violation vs = true.
  Proof.
    revert vs. induction rs as [|r rest IH]; intros vs Sub H; cbn [OrchParRules.rules_out] in H.
    - now injection H as <-.
    - unfold OrchParRules.all_rules in H at 1.
      destruct (fst (r_check file rstate r (r_init file rstate r) f)) as [ws| |] eqn:O; cbn [raises vs_of] in H; try discriminate H.
      + destruct (rules_out all rest f) as [vs'|]; [|discriminate H]. injection H as <-.
        rewrite forallb_app, (rules_wf r f ws (Sub r (or_introl eq_refl)) O). cbn [andb].
        apply IH; [intros x Hx; apply Sub; now right|reflexivity].
      + destruct (rules_out all rest f) as [vs'|]; [|discriminate H]. injection H as <-. cbn [app].
        apply IH; [intros x Hx; apply Sub; now right|reflexivity].
  Qed.

  Lemma r_perfile_wf f vs : r_perfile f = Some vs -> forallb wf_violation vs = true.
  Proof.
    unfold OrchParRules.r_perfile. destruct (vis f); [|now intros [= <-]]. apply rules_out_wf. auto.
  Qed.

  Lemma mapM_some_each {A B} (g : A -> option B) l r x : mapM g l = Some r -> In x l -> exists y, g x = Some y.
  Proof.
    revert r. induction l as [|a l IH]; intros r H I; [destruct I|]. cbn [mapM] in H.
    destruct (g a) as [y|] eqn:G; [|discriminate H]. destruct (mapM g l) as [ys|]; [|discriminate H].
    destruct I as [<-|I]; [eauto|exact (IH ys eq_refl I)].
  Qed.

  Lemma mapM_each_some {A B} (g : A -> option B) l : (forall x, In x l -> exists y, g x = Some y) -> exists r, mapM g l = Some r.
  Proof.
    induction l as [|a l IH]; intros H; [now exists []|]. cbn [mapM].
    destruct (H a (or_introl eq_refl)) as (y & ->). destruct IH as (r & ->); [intros x I; apply H; now right|]. eauto.
  Qed.

  (* 2. the parallel run of stateful rule instances IS the table-level parallel run, as soon as errors surface
        (a swallowing worker would hide an error that the parent's evidence loop then raises) and the parent's loop
        uses lint_file's skip test *)
  Theorem rpar_refines q mw cpu sched files :
    swallows q = false -> parent_restricts q = false ->
    rpar_run q mw cpu sched files
    = par_run file file r_perfile (fun f => f) r_report parent_sees q mw cpu sched files.
  Proof.
    intros Q2 Q3. destruct files as [|f0 fs]; [reflexivity|]. set (files := f0 :: fs).
    unfold OrchParRules.rpar_run, par_run. fold files.
    destruct (below_threshold file mw cpu files); [apply rseq_refines|].
    rewrite (mapM_ext (rworker q) (worker file r_perfile q) files (rworker_is_worker q)).
    destruct (mapM (worker file r_perfile q) files) as [futs|] eqn:W; [|reflexivity].
    assert (P : OrchParRules.parent_phase file rstate excluded ignored rules parent_sees q files
                = Some (parent_finalize file file (fun f => f) r_report parent_sees q files)).
    { unfold OrchParRules.parent_phase, parent_finalize, parent_evidence_files. rewrite Q3.
      destruct (crossfile_lost q); [reflexivity|]. rewrite map_id.
      rewrite (evidence_loop_spec q files (fresh rules) (map_fst_fresh rules)).
      destruct (mapM r_perfile files) as [vss|] eqn:M.
      - destruct (mapM_each_some (fun f => if parent_visits q f then rules_out sel rules f else Some []) files) as (r & ->).
        + intros x I. unfold OrchParRules.parent_visits. rewrite Q3.
          destruct (mapM_some_each _ _ _ x M I) as (y & Y). unfold OrchParRules.r_perfile in Y.
          destruct (vis x); [|eauto]. exact (rules_out_sel_some sel rules x y Y).
        + cbn [option_map]. f_equal. unfold OrchParRules.r_report.
          apply agree_finalize.
          replace (feed sel (parent_visits q) (fresh rules) files) with (feed sel vis (fresh rules) files).
          * apply agree_feed, agree_refl.
          * unfold OrchParRules.feed. f_equal. unfold OrchParRules.parent_visits. now rewrite Q3.
      - rewrite (workers_err file r_perfile r_perfile_wf q files Q2 M) in W. discriminate W. }
    now rewrite P.
  Qed.

  Lemma r_report_nil : r_report [] = [].
  Proof. unfold OrchParRules.r_report, OrchParRules.feed. cbn [fold_left]. exact finalize_fresh_nil. Qed.

  (* 3. MAIN at the level of rule instances: for EVERY registry of stateful rules whose reports are local, every quirk
        vector, worker count, core count, completion order and file list, lint_files_parallel on a new Orchestrator
        yields the multiset lint_files yields (and raises iff it raises) *)
  Theorem rules_par_equals_seq q mw cpu sched files :
    Permutation sched (seq 0 (List.length files)) ->
    out_equiv (rpar_run q mw cpu sched files) (rseq_run files).
  Proof.
    intros S.
    rewrite (rpar_refines q mw cpu sched files
               (errors_surface_by_source q) (parent_unrestricted_by_source q)), rseq_refines.
    exact (par_equals_seq_source file file r_perfile (fun f => f) r_report parent_sees r_perfile_wf r_report_nil q mw cpu sched files S).
  Qed.
End RulesProofs.

(* ---------- the locality hypothesis is necessary ---------- *)
(* a rule that reports, in check(), every file its instance has ALREADY seen with the same content key ("duplicate of an
   earlier file"): the sequential run reports the second file, no worker does, and finalize has nothing to add *)
Definition seen_v (f : nat) : violation :=
  [("rule_id", VStr "dup.seen-before"); ("file_path", VStr "b.py"); ("line", VInt false f); ("column", VInt false 0);
   ("message", VStr "same content as an earlier file"); ("severity", VEnum "Severity" "ERROR"); ("suggestion", VNone)].
Definition seen_rule : rule nat (list nat) :=
  {| r_init := [];
     r_check := fun s f => (COk (if existsb (Nat.eqb f) s then [seen_v f] else []), f :: s);
     r_finalize := None |}.

Example nonlocal_rule_breaks_parallel :
  rseq_run nat (list nat) (fun _ => false) (fun _ => false) [seen_rule] [7; 7] = Some [seen_v 7]
  /\ rpar_run nat (list nat) (fun _ => false) (fun _ => false) [seen_rule] (fun _ => true) ideal (Some 1) 16 [0; 1] [7; 7] = Some [].
Proof. vm_compute. split; reflexivity. Qed.

(* non-vacuity: a per-file rule, a cross-file rule that stores in check() and reports in finalize(), a rule that raises a
   swallowed exception; two files are skipped (one excluded, one ignored); three workers, seven files *)
Definition pf_v (f : nat) : violation :=
  [("rule_id", VStr "nesting.excessive-depth"); ("file_path", VStr "a.py"); ("line", VInt false f); ("column", VInt false 0);
   ("message", VStr "m"); ("severity", VEnum "Severity" "ERROR"); ("suggestion", VStr "s")].
Definition cf_v (f : nat) : violation :=
  [("rule_id", VStr "dry.duplicate-code"); ("file_path", VStr "a.py"); ("line", VInt false f); ("column", VInt false 1);
   ("message", VStr "d"); ("severity", VEnum "Severity" "ERROR"); ("suggestion", VNone)].
Definition ex_rules : list (rule nat (list nat)) :=
  [ {| r_init := []; r_check := fun s f => (COk [pf_v f], s); r_finalize := None |};
    {| r_init := []; r_check := fun s f => (COk [], s ++ [f]); r_finalize := Some (fun s => match s with [] | [_] => [] | _ => map cf_v s end) |};
    {| r_init := []; r_check := fun s f => (CRaiseOther, f :: s); r_finalize := None |} ].

Example rules_nonvacuous :
  rseq_run nat (list nat) (Nat.eqb 2) (Nat.eqb 4) ex_rules [0;1;2;3;4;5;6]
  = Some (map pf_v [0;1;3;5;6] ++ map cf_v [0;1;3;5;6])
  /\ rpar_run nat (list nat) (Nat.eqb 2) (Nat.eqb 4) ex_rules (fun _ => true) ideal (Some 3) 16 [6;5;4;3;2;1;0] [0;1;2;3;4;5;6]
     = Some (map pf_v [6;5;3;1;0] ++ map cf_v [0;1;3;5;6])
  /\ below_threshold nat (Some 3) 16 [0;1;2;3;4;5;6] = false.
Proof. vm_compute. repeat split; reflexivity. Qed.
