(* Proofs/PlacementOrder.v — what the choice of "the most specific directory rule containing the file" does NOT depend
   on (C18): rules for directories that do not contain the file, and the order in which the rules are listed (as long as
   no directory is listed twice, e.g. as `lib` and `lib/`).  Stated on the specification and, through the exactness
   theorem, on the checker model with the remaining quirk flags off. *)
From Coq Require Import ZArith Permutation.
From TL Require Import Lib.Base Lib.GenTypes Model.PlacementTypes Gen.PlacementGen Model.Placement
     Proofs.PlacementStrings Proofs.PlacementMain.

Notation contains := Placement.contains.

(* ---------------------------------------------------------------- rules of other directories are irrelevant *)
Definition containing (p : string) (dirs : list (string * drule)) : list (string * drule) :=
  filter (fun dr => contains (fst dr) p) dirs.

Lemma spec_rule_loop_containing p dirs : forall best,
  spec_rule_loop p (containing p dirs) best = spec_rule_loop p dirs best.
Proof.
  induction dirs as [|[d r] rest IH]; intros best; [reflexivity|].
  cbn [containing filter fst]. fold (containing p rest). cbn [spec_rule_loop].
  destruct (contains d p) eqn:Ec.
  - cbn [spec_rule_loop]. rewrite Ec. destruct best as [[b rb]|].
    + destruct (String.length (rstrip_slash b) <? String.length (rstrip_slash d)); apply IH.
    + apply IH.
  - apply IH.
Qed.

Theorem spec_rule_containing p dirs : spec_rule p (containing p dirs) = spec_rule p dirs.
Proof. apply spec_rule_loop_containing. Qed.

(* ---------------------------------------------------------------- the order of the rules is irrelevant *)
Definition dir_of (dr : string * drule) : string := rstrip_slash (fst dr).
(* no directory is listed twice (keys are compared without their trailing slashes) *)
Definition distinct_dirs (dirs : list (string * drule)) : Prop := NoDup (map dir_of dirs).

Lemma nodup_map_in_eq {A B} (f : A -> B) (l : list A) x y :
  NoDup (map f l) -> In x l -> In y l -> f x = f y -> x = y.
Proof.
  induction l as [|a l IH]; intros Hn Hx Hy E; [destruct Hx|].
  cbn [map] in Hn. inversion Hn as [|b m Hnotin Hn']; subst.
  destruct Hx as [->|Hx]; destruct Hy as [->|Hy].
  - reflexivity.
  - exfalso. apply Hnotin. rewrite E. apply in_map. exact Hy.
  - exfalso. apply Hnotin. rewrite <- E. apply in_map. exact Hx.
  - apply IH; assumption.
Qed.

Lemma starts_with_length a b : starts_with a b = true -> String.length a <= String.length b.
Proof.
  intros H. destruct (starts_with_inv a b H) as [rest ->]. rewrite length_append. lia.
Qed.

Theorem spec_rule_order_independent p dirs dirs' :
  distinct_dirs dirs -> Permutation dirs dirs' -> spec_rule p dirs' = spec_rule p dirs.
Proof.
  intros Hn Hp.
  destruct (spec_rule p dirs) as [[d r]|] eqn:E1.
  - destruct (spec_rule p dirs') as [[d2 r2]|] eqn:E2.
    + destruct (spec_rule_most_specific p dirs d r E1) as [Hin1 [Hc1 Hm1]].
      destruct (spec_rule_most_specific p dirs' d2 r2 E2) as [Hin2 [Hc2 Hm2]].
      assert (Hin2' : In (d2, r2) dirs) by (apply (Permutation_in _ (Permutation_sym Hp)); exact Hin2).
      assert (Hin1' : In (d, r) dirs') by (apply (Permutation_in _ Hp); exact Hin1).
      assert (Ek : rstrip_slash d2 = rstrip_slash d).
      { destruct (Hm1 d2 r2 Hin2' Hc2) as [E|Ha]; [exact E|].
        destruct (Hm2 d r Hin1' Hc1) as [E|Hb]; [symmetry; exact E|].
        apply starts_with_length in Ha. apply starts_with_length in Hb. rewrite length_append in Ha, Hb.
        cbn [String.length] in Ha, Hb. lia. }
      f_equal. apply (nodup_map_in_eq dir_of dirs (d2, r2) (d, r) Hn Hin2' Hin1). exact Ek.
    + exfalso. pose proof (proj1 (spec_rule_none p dirs') E2) as N2. destruct (spec_rule_In p dirs d r E1) as [Hin Hc].
      rewrite (N2 d r (Permutation_in _ Hp Hin)) in Hc. discriminate.
  - apply (proj2 (spec_rule_none p dirs')). pose proof (proj1 (spec_rule_none p dirs) E1) as N1. intros d r Hin.
    apply (N1 d r). apply (Permutation_in _ (Permutation_sym Hp)). exact Hin.
Qed.

Section Engine.
  Variable matches : string -> string -> bool.

  Definition with_dirs (c : config) (dirs : list (string * drule)) : config :=
    {| c_dirs := Some dirs; c_gdeny := c_gdeny c; c_gpat := c_gpat c |}.

  Lemma spec_report_by_rule c c' p :
    spec_rule p (dirs_of c') = spec_rule p (dirs_of c) -> c_gdeny c' = c_gdeny c -> c_gpat c' = c_gpat c ->
    spec_report matches c' p = spec_report matches c p.
  Proof. intros E1 E2 E3. unfold spec_report. rewrite E1, E2, E3. reflexivity. Qed.

  Lemma cfg_ok_with_dirs c dirs :
    (forall dr, In dr dirs -> In dr (dirs_of c)) -> cfg_ok c = true -> cfg_ok (with_dirs c dirs) = true.
  Proof.
    unfold cfg_ok. intros Hsub H. rewrite forallb_forall in *. intros dr Hin. apply H. apply Hsub. exact Hin.
  Qed.

  (* the reported list for a file is the same when the directory rules are listed in another order *)
  Theorem report_order_independent q c dirs' p :
    q_global_on_covered q = false -> q_trailing_slash_depth q = false ->
    cfg_ok c = true -> distinct_dirs (dirs_of c) -> Permutation (dirs_of c) dirs' ->
    check_all matches q p (with_dirs c dirs') = check_all matches q p c.
  Proof.
    intros H1 H5 Hok Hn Hp.
    rewrite (report_exact matches q (with_dirs c dirs') p H1 H5), (report_exact matches q c p H1 H5 Hok).
    - apply spec_report_by_rule; [|reflexivity|reflexivity]. cbn [with_dirs dirs_of c_dirs].
      apply spec_rule_order_independent; assumption.
    - apply cfg_ok_with_dirs; [|exact Hok]. intros dr Hin. apply (Permutation_in _ (Permutation_sym Hp)). exact Hin.
  Qed.

  (* ... and when every rule for a directory that does not contain the file is removed *)
  Theorem report_other_directories_irrelevant q c p :
    q_global_on_covered q = false -> q_trailing_slash_depth q = false ->
    cfg_ok c = true ->
    check_all matches q p (with_dirs c (containing p (dirs_of c))) = check_all matches q p c.
  Proof.
    intros H1 H5 Hok.
    rewrite (report_exact matches q (with_dirs c (containing p (dirs_of c))) p H1 H5), (report_exact matches q c p H1 H5 Hok).
    - apply spec_report_by_rule; [|reflexivity|reflexivity]. cbn [with_dirs dirs_of c_dirs]. apply spec_rule_containing.
    - apply cfg_ok_with_dirs; [|exact Hok]. intros dr Hin. unfold containing in Hin. apply filter_In in Hin. apply Hin.
  Qed.
End Engine.
