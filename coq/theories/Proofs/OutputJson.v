(* Proofs/OutputJson.v — JSON and SARIF renderers of C06: the documents produced from the generated
   templates (shape lemmas, by computation on Gen/OutputGen.v), decode . render = the violations,
   total = length, SARIF well-formedness (1-based positions, every ruleId declared once). *)
From TL Require Import Lib.Base Model.OutputTypes Gen.OutputGen Model.Output.
From Coq Require Import ZArith Lia.
Local Open Scope Z_scope.
Local Open Scope string_scope.

(* ---------- the documents, written out ---------- *)
(* the strings SARIF shows for the path and the message of a violation, read off the generated
   `_create_result` / `_create_location` templates by computation (raw attribute, or passed through the
   sanitiser - by the quirk patch when the flag is off, or by the source itself once it is fixed) *)
Definition sarif_doc_strings (q : oquirks) (v : viol) : string * string :=
  match decode_sarif_result (interp 24 q "" [] v "" (TCallOne "_create_result")) with
  | Some (_, f, _, _, m) => (f, m)
  | None => ("", "")
  end.
Definition suri (q : oquirks) (v : viol) : string := fst (sarif_doc_strings q v).
Definition smsg (q : oquirks) (v : viol) : string := snd (sarif_doc_strings q v).
Definition sarif_core (q : oquirks) (v : viol) : core := (v_rule v, suri q v, v_line v, v_col v, smsg q v).

Definition json_viol_doc (v : viol) : json :=
  JObj [("rule_id", JStr (v_rule v)); ("file_path", JStr (sanitize (v_file v))); ("line", JNum (v_line v));
        ("column", JNum (v_col v)); ("message", JStr (sanitize (v_msg v))); ("severity", JStr "ERROR")].

Definition rule_json (v : viol) : json :=
  JObj [("id", JStr (v_rule v)); ("shortDescription", JObj [("text", JStr (description v))])].

Definition result_json (q : oquirks) (v : viol) : json :=
  JObj [("ruleId", JStr (v_rule v)); ("level", JStr "error"); ("message", JObj [("text", JStr (smsg q v))]);
        ("locations", JArr [JObj [("physicalLocation",
            JObj [("artifactLocation", JObj [("uri", JStr (suri q v))]);
                  ("region", JObj [("startLine", JNum (v_line v)); ("startColumn", JNum (v_col v + 1))])])]])].

(* Gen facts: these two equalities hold by computation on the generated templates; a changed key,
   dropped field, swapped attribute or changed column offset in the source breaks them *)
Lemma json_shape vs :
  render_json vs = JObj [("violations", JArr (map json_viol_doc vs)); ("total", JNum (Z.of_nat (List.length vs)))].
Proof. reflexivity. Qed.

Lemma sarif_shape q ver vs :
  render_sarif q ver vs =
  JObj [("version", JStr "2.1.0"); ("$schema", JStr sarif_schema_2_1_0);
        ("runs", JArr [JObj [("tool", JObj [("driver", JObj [("name", JStr "thai-lint"); ("version", JStr ver);
                                  ("informationUri", JStr "https://github.com/be-wise-be-kind/thai-lint");
                                  ("rules", JArr (map rule_json (first_occ [] vs)))])]);
                             ("results", JArr (map (result_json q) vs))]])].
Proof. destruct q as [[] b c d e f g]; reflexivity. Qed.

(* ---------- generic ---------- *)
Lemma all_some_map {A B} (f : A -> option B) (g : A -> B) l :
  (forall x, f x = Some (g x)) -> all_some (map f l) = Some (map g l).
Proof. intros H. induction l as [|x l IH]; cbn [map all_some]; [reflexivity|]. now rewrite H, IH. Qed.

(* ---------- JSON ---------- *)
Lemma decode_json_viol_doc v : decode_json_viol (json_viol_doc v) = Some (san_core v).
Proof. reflexivity. Qed.

Theorem json_roundtrip vs :
  decode_json (render_json vs) = Some (map san_core vs, Z.of_nat (List.length vs)).
Proof.
  rewrite json_shape. unfold decode_json.
  change (get_arr "violations" (JObj [("violations", JArr (map json_viol_doc vs)); ("total", JNum (Z.of_nat (List.length vs)))]))
    with (Some (map json_viol_doc vs)).
  cbn [bind]. rewrite map_map. rewrite (all_some_map _ san_core) by (intro; apply decode_json_viol_doc).
  reflexivity.
Qed.

Corollary json_total_is_length vs cs t :
  decode_json (render_json vs) = Some (cs, t) -> t = Z.of_nat (List.length cs) /\ List.length cs = List.length vs.
Proof. rewrite json_roundtrip. intros [= <- <-]. rewrite map_length. split; reflexivity. Qed.

(* ---------- SARIF: round trip ---------- *)
Lemma decode_result_json q v : decode_sarif_result (result_json q v) = Some (sarif_core q v).
Proof. unfold sarif_core. cbn -[suri smsg]. now rewrite Z.add_simpl_r. Qed.

Theorem sarif_roundtrip q ver vs :
  decode_sarif (render_sarif q ver vs) = Some (map (sarif_core q) vs).
Proof.
  rewrite sarif_shape. unfold decode_sarif. cbn [get_one get assoc String.eqb Ascii.eqb Bool.eqb bind get_arr].
  rewrite map_map. apply all_some_map. intro; apply decode_result_json.
Qed.

Lemma sarif_core_ideal q v : q_sarif_unsanitized q = false -> sarif_core q v = san_core v.
Proof. destruct q as [a b c d e f g]. cbn [q_sarif_unsanitized]. intros ->. reflexivity. Qed.

(* a string the sanitiser leaves alone (valid UTF-8: no undecodable byte) *)
Definition clean (s : string) : Prop := sanitize s = s.
Definition viol_clean (v : viol) : Prop := clean (v_file v) /\ clean (v_msg v).

(* Gen fact (source as repaired by d9a5951): the SARIF templates pass path and message through the sanitiser themselves,
   so the document shows the same strings as JSON / text for EVERY quirk vector, the faithful one included *)
Lemma sarif_core_source q v : sarif_core q v = san_core v.
Proof. destruct q as [[] b c d e f g]; reflexivity. Qed.

Theorem sarif_roundtrip_exact q ver vs :
  decode_sarif (render_sarif q ver vs) = Some (map san_core vs).
Proof. rewrite sarif_roundtrip. f_equal. apply map_ext. intro. apply sarif_core_source. Qed.

Lemma sarif_core_clean q v : viol_clean v -> sarif_core q v = san_core v.
Proof.
  intros [Hf Hm]. unfold clean in Hf, Hm. destruct q as [[] b c d e f g]; unfold sarif_core, suri, smsg, san_core; cbn;
    now rewrite ?Hf, ?Hm.
Qed.

Theorem sarif_roundtrip_clean_partial q ver vs :
  Forall viol_clean vs -> decode_sarif (render_sarif q ver vs) = Some (map san_core vs).
Proof.
  intros H. rewrite sarif_roundtrip. f_equal. apply map_ext_in. intros v Hv.
  rewrite Forall_forall in H. now apply sarif_core_clean, H.
Qed.

(* JSON and SARIF describe the same list *)
Theorem json_sarif_agree q ver vs :
  decode_sarif (render_sarif q ver vs) = option_map fst (decode_json (render_json vs)).
Proof. now rewrite sarif_roundtrip_exact, json_roundtrip. Qed.

(* ---------- SARIF: rules ---------- *)
Lemma nodup_str_NoDup l : NoDup l -> nodup_str l = true.
Proof.
  induction 1 as [|x l Hx _ IH]; cbn [nodup_str]; [reflexivity|]. rewrite IH, andb_true_r.
  apply negb_true_iff. destruct (smem x l) eqn:E; [|reflexivity]. apply smem_In in E. contradiction.
Qed.

Lemma first_occ_spec vs : forall seen,
  NoDup (map v_rule (first_occ seen vs))
  /\ (forall r, In r (map v_rule (first_occ seen vs)) -> ~ In r seen)
  /\ (forall v, In v vs -> In (v_rule v) seen \/ In (v_rule v) (map v_rule (first_occ seen vs))).
Proof.
  induction vs as [|v vs IH]; intros seen; cbn [first_occ].
  - repeat split; [constructor|intros r []|intros v []].
  - destruct (smem (v_rule v) seen) eqn:E.
    + destruct (IH seen) as (N & D & C). repeat split; [exact N|exact D|].
      intros w [<-|Hw]; [left; now apply smem_In|now apply C].
    + destruct (IH (v_rule v :: seen)) as (N & D & C). cbn [map]. repeat split.
      * constructor; [|exact N]. intros Hin. apply (D _ Hin). now left.
      * intros r [<-|Hr].
        -- intros Hin. apply smem_In in Hin. congruence.
        -- intros Hin. apply (D _ Hr). now right.
      * intros w [<-|Hw]; [right; now left|].
        destruct (C w Hw) as [[<-|Hs]|Hr]; [right; now left|now left|right; now right].
Qed.

Lemma rule_ids_of_shape q ver vs :
  sarif_rule_ids (render_sarif q ver vs) = Some (map v_rule (first_occ [] vs)).
Proof.
  rewrite sarif_shape. unfold sarif_rule_ids. cbn [get_one get assoc String.eqb Ascii.eqb Bool.eqb bind get_arr].
  rewrite map_map. apply all_some_map. reflexivity.
Qed.

Theorem sarif_rules_declared_once q ver vs :
  exists ids, sarif_rule_ids (render_sarif q ver vs) = Some ids /\ NoDup ids /\ forall v, In v vs -> In (v_rule v) ids.
Proof.
  exists (map v_rule (first_occ [] vs)). destruct (first_occ_spec vs []) as (N & _ & C).
  repeat split; [apply rule_ids_of_shape|exact N|]. intros v Hv. destruct (C v Hv) as [[]|H]; exact H.
Qed.

Lemma sarif_rules_ok_render q ver vs : sarif_rules_ok (render_sarif q ver vs) = true.
Proof.
  unfold sarif_rules_ok. rewrite rule_ids_of_shape, sarif_roundtrip.
  destruct (first_occ_spec vs []) as (N & _ & C).
  rewrite (nodup_str_NoDup _ N). cbn [andb]. apply forallb_forall. intros c Hc.
  apply in_map_iff in Hc as (v & <- & Hv). unfold sarif_core. apply smem_In.
  destruct (C v Hv) as [[]|H]; exact H.
Qed.

(* ---------- SARIF: header and positions ---------- *)
Lemma sarif_header_ok_render q ver vs : sarif_header_ok (render_sarif q ver vs) = true.
Proof. rewrite sarif_shape. reflexivity. Qed.

(* a violation as the rules are documented to construct it: 1-based line, 0-based column *)
Definition pos_ok (v : viol) : Prop := 1 <= v_line v /\ 0 <= v_col v.

Lemma sarif_result_ok_json q v : pos_ok v -> sarif_result_ok (result_json q v) = true.
Proof.
  intros [Hl Hc]. unfold sarif_result_ok, result_json.
  cbn -[suri smsg Z.leb Z.add].
  apply andb_true_iff. split; apply Z.leb_le; lia.
Qed.

Lemma sarif_positions_ok_render q ver vs : Forall pos_ok vs -> sarif_positions_ok (render_sarif q ver vs) = true.
Proof.
  intros H. rewrite sarif_shape. unfold sarif_positions_ok.
  cbn [get_one get assoc String.eqb Ascii.eqb Bool.eqb bind get_arr].
  apply forallb_forall. intros j Hj. apply in_map_iff in Hj as (v & <- & Hv).
  rewrite Forall_forall in H. now apply sarif_result_ok_json, H.
Qed.

Theorem sarif_wellformed q ver vs : Forall pos_ok vs -> sarif_wf (render_sarif q ver vs) = true.
Proof.
  intros H. unfold sarif_wf.
  now rewrite sarif_header_ok_render, sarif_rules_ok_render, sarif_positions_ok_render.
Qed.

(* the region is the violation's position with the generated column offset: 1-based as soon as the column is 0-based *)
Theorem sarif_region_one_based q v l c :
  get_num "startLine" (JObj [("startLine", JNum (v_line v)); ("startColumn", JNum (v_col v + 1))]) = Some l ->
  get_num "startColumn" (JObj [("startLine", JNum (v_line v)); ("startColumn", JNum (v_col v + 1))]) = Some c ->
  pos_ok v -> decode_sarif_result (result_json q v) = Some (sarif_core q v) /\ 1 <= l /\ 1 <= c /\ c = v_col v + 1.
Proof.
  cbn -[suri smsg decode_sarif_result Z.add]. intros [= <-] [= <-] [Hl Hc]. repeat split; [apply decode_result_json|lia|lia].
Qed.
