(* Proofs/LocNesting.v — C12 for the nesting linter model (Model/Nesting.v): every violation the model
   emits, in any language, under any quirk vector and any limit, carries the recorded header position and
   the name of a function-like node of the file; the message quotes that name. *)
From TL Require Import Lib.Base Lib.GenTypes Gen.NestingGen Model.Skel Model.Nesting.

Definition at_header (f : fninfo) (r : nrep) : Prop :=
  match r with (line, col, name, _) => line = fn_line f /\ col = fn_col f /\ name = fn_name f end.

Lemma report_fn_at found skip depth limit f r : In r (report_fn found skip depth limit f) -> at_header f r.
Proof.
  unfold report_fn. destruct found; [|intros []]. destruct (cmp_nat skip depth limit); [intros []|].
  intros [<-|[]]. cbn. auto.
Qed.

Theorem nesting_location_recorded l q limit file r :
  In r (report l q limit file) -> exists f, In f (file_functions file) /\ at_header f r.
Proof.
  destruct l; cbn [report]; unfold py_report, ts_report, rs_report; intros H;
    apply in_flat_map in H; destruct H as [f [Hf Hr]]; exists f; (split; [exact Hf|]); eapply report_fn_at; exact Hr.
Qed.

(* the recorded header of a function is a KFn node of the file: (line, col, name) are what the renderer wrote
   into that node *)
Fixpoint has_fn (line col : nat) (name : string) (t : tree) : Prop :=
  match t with
  | T k cs => (match k with KFn _ n l c => n = name /\ l = line /\ c = col | _ => False end)
              \/ (fix any (l : list tree) : Prop := match l with [] => False | x :: xs => has_fn line col name x \/ any xs end) cs
  end.

Lemma functions_of_has_fn : forall t f, In f (functions_of t) -> has_fn (fn_line f) (fn_col f) (fn_name f) t.
Proof.
  induction t as [k cs IH] using tree_ind'. intros f H. cbn [functions_of] in H. apply in_app_or in H.
  cbn [has_fn]. destruct H as [H|H].
  - left. destruct k; try (destruct H; fail). destruct H as [<-|[]]. cbn. auto.
  - right. induction cs as [|x xs IHxs]; [destruct H|].
    cbn [flat_map] in H. apply in_app_or in H. inversion IH as [|? ? Hx Hxs]; subst.
    destruct H as [H|H]; [left; now apply Hx|right; now apply IHxs].
Qed.

Theorem nesting_location_is_a_function_node l q limit file line col name d :
  In (line, col, name, d) (report l q limit file) -> exists t, In t file /\ has_fn line col name t.
Proof.
  intros H. destruct (nesting_location_recorded _ _ _ _ _ H) as [f [Hf [-> [-> ->]]]].
  unfold file_functions in Hf. apply in_flat_map in Hf. destruct Hf as [t [Ht Hin]].
  exists t. split; [exact Ht|]. now apply functions_of_has_fn.
Qed.

(* the message names the function whose header is reported *)
Theorem nesting_message_quotes_name l line col name d :
  message l (line, col, name, d) = sconcat ["Function '"; name; "' has excessive nesting depth ("; show_nat d; ")"].
Proof. destruct l; reflexivity. Qed.
