(* Proofs/IgnoreMain.v — the main theorem of C04: on every abstract file of the domain, under every quirk vector
   whose defect classes the file avoids (in particular under every vector with all flags off), the model of
   should_ignore_violation suppresses exactly what the directives in scope name. *)
From TL Require Import Lib.Base Lib.GenTypes Gen.IgnoreGen Model.PyStr Model.Ignore Model.IgnoreSpec
     Proofs.IgnoreStr Proofs.IgnoreStr2 Proofs.IgnoreLines Proofs.IgnoreFeat Proofs.IgnoreFeat2.

(* ---------- the text splits back into the rendered lines ---------- *)
Lemma no_newline_app a b : no_newline (a ++ b) = no_newline a && no_newline b.
Proof. apply all_chars_app. Qed.

Lemma indent_no_newline ind : indent_ok ind = true -> no_newline ind = true.
Proof.
  induction ind as [|c ind IH]; intro H; [reflexivity|].
  cbn [indent_ok all_chars] in H. apply andb_true_iff in H as [Hc H]. cbn [no_newline all_chars].
  fold (no_newline ind). rewrite (IH H), andb_true_r.
  unfold is in Hc. apply orb_true_iff in Hc as [Hc|Hc]; apply Ascii.eqb_eq in Hc; subst c; reflexivity.
Qed.

Lemma names_br_no_newline n : names_ok n = true -> no_newline (names_br n) = true.
Proof.
  destruct n as [|t]; intro H; [reflexivity|].
  cbn [names_ok] in H. apply andb_true_iff in H as [H _]. apply andb_true_iff in H as [_ Hn].
  cbn [names_br]. rewrite !no_newline_app, Hn. reflexivity.
Qed.

Lemma start_tail_no_newline br n : start_names_ok br n = true -> no_newline (start_tail br n) = true.
Proof.
  intro H. unfold start_names_ok in H. apply andb_true_iff in H as [Hn _].
  destruct n as [|t]; [reflexivity|]. destruct br; [exact (names_br_no_newline (Names t) Hn)|].
  cbn [names_ok] in Hn. apply andb_true_iff in Hn as [Hn _]. apply andb_true_iff in Hn as [_ Hn].
  cbn [start_tail]. rewrite no_newline_app, Hn. reflexivity.
Qed.

Lemma cm_no_newline st : no_newline (cm st) = true.
Proof. destruct st; reflexivity. Qed.

Lemma render_no_newline l : line_ok l = true -> no_newline (render_line l) = true.
Proof.
  destruct l as [c|c st n|ind st n|ind st br n|ind st|st n]; cbn [line_ok render_line]; intro H.
  - unfold code_ok in H. now apply andb_true_iff in H as [_ H].
  - apply andb_true_iff in H as [Hc Hn]. unfold code_ok in Hc. apply andb_true_iff in Hc as [_ Hc].
    rewrite !no_newline_app, Hc, cm_no_newline, (names_br_no_newline n Hn). reflexivity.
  - apply andb_true_iff in H as [Hi Hn].
    rewrite !no_newline_app, (indent_no_newline ind Hi), cm_no_newline, (names_br_no_newline n Hn). reflexivity.
  - apply andb_true_iff in H as [Hi Hn].
    rewrite !no_newline_app, (indent_no_newline ind Hi), cm_no_newline.
    change (match n with Bare => "" | Names t => if br then ("[" ++ t ++ "]")%string else (" " ++ t)%string end) with (start_tail br n).
    rewrite (start_tail_no_newline br n Hn). reflexivity.
  - rewrite !no_newline_app, (indent_no_newline ind H), cm_no_newline. reflexivity.
  - rewrite !no_newline_app, cm_no_newline, (names_br_no_newline n H). reflexivity.
Qed.

Lemma forallb_map {A B} (f : A -> B) (p : B -> bool) l : forallb p (map f l) = forallb (fun x => p (f x)) l.
Proof. induction l as [|x l IH]; cbn [map forallb]; [reflexivity|now rewrite IH]. Qed.

Lemma forallb_impl {A} (p p' : A -> bool) l : (forall x, p x = true -> p' x = true) -> forallb p l = true -> forallb p' l = true.
Proof.
  intro I. induction l as [|x l IH]; cbn [forallb]; [reflexivity|]. intro H. apply andb_true_iff in H as [H1 H2].
  now rewrite (I x H1), (IH H2).
Qed.

Lemma lines_of_render q a : file_ok a = true -> forallb (line_avoids q) a = true ->
  lines_of q (render a) = map render_line a.
Proof.
  intros H A. unfold lines_of, render.
  assert (N : forallb no_newline (map render_line a) = true).
  { rewrite forallb_map. apply (forallb_impl line_ok); [apply render_no_newline|exact H]. }
  destruct (q_splitlines_unicode q) eqn:Q.
  - apply splitlines_join; [exact N|]. rewrite forallb_map.
    apply (forallb_impl (line_avoids q)); [|exact A]. intros l Hl. unfold line_avoids in Hl. rewrite Q in Hl.
    now apply andb_true_iff in Hl as [Hl _].
  - now apply split_newlines_join.
Qed.

(* ---------- file level ---------- *)
Lemma firstn_map {A B} (f : A -> B) n l : firstn n (map f l) = map f (firstn n l).
Proof. revert l. induction n as [|n IH]; intros [|x l]; cbn [firstn map]; try reflexivity. now rewrite IH. Qed.

Lemma forallb_firstn {A} (p : A -> bool) n l : forallb p l = true -> forallb p (firstn n l) = true.
Proof.
  revert l. induction n as [|n IH]; intros [|x l] H; cbn [firstn forallb] in *; try reflexivity.
  apply andb_true_iff in H as [H1 H2]. now rewrite H1, (IH l H2).
Qed.

Lemma file_level_exact q a r : file_ok a = true -> forallb (line_avoids q) a = true -> nonempty r = true ->
  file_ignore_among q (header_candidates q (map render_line a)) r = spec_file a r.
Proof.
  intros H A Hr. unfold file_ignore_among, header_candidates, spec_file.
  change header_scan_lines with 10. change documented_header_lines with 10.
  rewrite firstn_map, Hr.
  pose proof (forallb_firstn line_ok 10 a H) as H'. pose proof (forallb_firstn (line_avoids q) 10 a A) as A'.
  induction (firstn 10 a) as [|l ls IH]; [reflexivity|].
  cbn [forallb] in H', A'. apply andb_true_iff in H' as [Hl H']. apply andb_true_iff in A' as [Al A'].
  cbn [map filter existsb]. rewrite (file_marker_feature q l Hl).
  destruct l as [c|c st n|ind st n|ind st br n|ind st|st n]; try (cbn [orb]; now apply IH).
  cbn [existsb]. cbn [line_ok] in Hl. rewrite (file_rules_feature q st n r Hl). now rewrite (IH H' A').
Qed.

(* ---------- block scan ---------- *)
Definition bl_of (q : iquirks) (l : aline) : bline := classify q (render_line l).

Definition state_rel (r : string) (in_block : bool) (rules : list string) (cur : option (option (list string))) : Prop :=
  match cur with
  | None => in_block = false
  | Some rs => in_block = true /\ rules_match_violation rules r = named rs r
  end.

Lemma scan_past q r v : forall a i in_block rules,
  forallb line_ok a = true -> v < i ->
  block_scan q (map (bl_of q) a) i v r in_block rules = false.
Proof.
  induction a as [|l a IH]; intros i in_block rules H L; [reflexivity|].
  cbn [forallb] in H. apply andb_true_iff in H as [Hl H].
  cbn [map block_scan]. unfold bl_of at 1. rewrite (classify_feature q l Hl).
  assert (Ne : (i =? v) = false) by (apply Nat.eqb_neq; lia).
  change block_end_cmp with (@None cmp).
  destruct l as [c|c st n|ind st n|ind st br n|ind st|st n]; rewrite ?Ne; cbn [andb]; apply IH; try exact H; lia.
Qed.

Lemma scan_exact q r v : forall a i in_block rules cur,
  forallb line_ok a = true -> forallb (line_avoids q) a = true -> state_rel r in_block rules cur ->
  block_scan q (map (bl_of q) a) i v r in_block rules =
  match open_block a i v cur with Some rs => named rs r | None => false end.
Proof.
  induction a as [|l a IH]; intros i in_block rules cur H A St; [reflexivity|].
  cbn [forallb] in H, A. apply andb_true_iff in H as [Hl H]. apply andb_true_iff in A as [Al A].
  cbn [map block_scan open_block]. unfold bl_of at 1. rewrite (classify_feature q l Hl).
  change block_end_cmp with (@None cmp).
  assert (Other :
     (if (i =? v) && in_block then rules_match_violation rules r else block_scan q (map (bl_of q) a) (S i) v r in_block rules) =
     match (if i =? v then cur else open_block a (S i) v cur) with Some rs => named rs r | None => false end).
  { destruct (i =? v) eqn:E; cbn [andb].
    - apply Nat.eqb_eq in E. subst i. destruct cur as [rs|]; cbn [state_rel] in St.
      + destruct St as [-> St]. exact St.
      + subst in_block. apply scan_past; [exact H|lia].
    - apply IH; assumption. }
  destruct l as [c|c st n|ind st n|ind st br n|ind st|st n]; try exact Other.
  - (* start *)
    apply IH; [exact H|exact A|].
    cbn [state_rel]. split; [reflexivity|]. now apply start_rules_feature.
  - (* end *)
    apply IH; [exact H|exact A|reflexivity].
Qed.

(* ---------- previous line, current line ---------- *)
Lemma nth_error_prepared q a k :
  nth_error (map (prepare q) (map render_line a)) k = option_map (fun l => prepare q (render_line l)) (nth_error a k).
Proof. rewrite map_map. revert k. induction a as [|l a IH]; intros [|k]; cbn [map nth_error option_map]; try reflexivity. apply IH. Qed.

Lemma forallb_nth {A} (p : A -> bool) l k x : forallb p l = true -> nth_error l k = Some x -> p x = true.
Proof. intros H E. apply nth_error_In in E. rewrite forallb_forall in H. now apply H. Qed.

Lemma prev_exact q a v r : file_ok a = true -> forallb (line_avoids q) a = true ->
  check_prev_line_ignore q (map (prepare q) (map render_line a)) v r = spec_next a v r.
Proof.
  intros H A. unfold check_prev_line_ignore, get_prev_line, spec_next.
  change prev_min_cmp with CLe. change prev_min with 1. change prev_offset with 2. cbn [cmp_nat].
  destruct v as [|[|k]]; [reflexivity|reflexivity|].
  change (S (S k) <=? 1) with false. change (S (S k) <? 2) with false. cbn [Nat.sub]. rewrite Nat.sub_0_r.
  rewrite nth_error_prepared. destruct (nth_error a k) as [l|] eqn:E; [|reflexivity]. cbn [option_map pl_next pl_text prepare].
  pose proof (forallb_nth _ _ _ _ H E) as Hl. pose proof (forallb_nth _ _ _ _ A E) as Al.
  rewrite (next_marker_feature q l Hl).
  destruct l as [c|c st n|ind st n|ind st br n|ind st|st n]; try reflexivity.
  now apply next_rules_feature.
Qed.

Lemma cur_exact q a v r : file_ok a = true -> forallb (line_avoids q) a = true -> target_ok a v = true -> nonempty r = true ->
  check_current_line_ignore q (map (prepare q) (map render_line a)) v r = spec_same a v r.
Proof.
  intros H A T Hr. unfold check_current_line_ignore, spec_same, target_ok in *.
  change cur_lo_cmp with CLe. change cur_lo with 0. change cur_hi_cmp with CGt. change cur_offset with 1. cbn [cmp_nat].
  destruct v as [|k]; [discriminate|].
  rewrite !map_length. destruct (nth_error a k) as [l|] eqn:E; [|discriminate].
  assert (Lk : k < List.length a) by (apply nth_error_Some; congruence).
  change (S k <=? 0) with false. cbn [orb].
  assert (E1 : (List.length a <? S k) = false) by (apply Nat.ltb_ge; lia). rewrite E1.
  change (S k <? 1) with false. cbn [Nat.sub]. rewrite Nat.sub_0_r.
  rewrite nth_error_prepared, E. cbn [option_map pl_line pl_text prepare]. rewrite Hr.
  pose proof (forallb_nth _ _ _ _ H E) as Hl. pose proof (forallb_nth _ _ _ _ A E) as Al.
  destruct l as [c|c st n|ind st n|ind st br n|ind st|st n]; try discriminate.
  - cbn [line_ok] in Hl. cbn [render_line]. now rewrite (line_marker_plain c Hl).
  - rewrite (line_marker_same c st n Hl). now apply same_rules_feature.
Qed.

Lemma block_exact q a v r : file_ok a = true -> forallb (line_avoids q) a = true -> target_ok a v = true ->
  check_block_ignore q (map pl_block (map (prepare q) (map render_line a))) v r = spec_block a v r.
Proof.
  intros H A T. unfold check_block_ignore, spec_block, is_valid_line_range.
  change valid_lo_cmp with CLt. change valid_lo with 0. change valid_hi_cmp with CLe. change block_first_line with 1. cbn [cmp_nat].
  rewrite !map_length.
  unfold target_ok in T. destruct v as [|k]; [discriminate|]. destruct (nth_error a k) as [l|] eqn:E; [|discriminate].
  assert (Lk : k < List.length a) by (apply nth_error_Some; congruence).
  change (0 <? S k) with true. assert (E1 : (S k <=? List.length a) = true) by (apply Nat.leb_le; lia). rewrite E1. cbn [andb].
  rewrite !map_map. change (fun x : aline => pl_block (prepare q (render_line x))) with (bl_of q).
  apply scan_exact; try assumption. reflexivity.
Qed.

(* ---------- main theorem ---------- *)
Theorem should_ignore_exact q repo a v r :
  file_ok a = true -> target_ok a v = true -> nonempty r = true -> avoids q a = true ->
  should_ignore q repo (render a) v r = spec repo a v r.
Proof.
  intros H T Hr A. unfold avoids in A.
  unfold should_ignore, spec, should_ignore_lines, should_ignore_pre, is_ignored_in_lines.
  rewrite (lines_of_render q a H A).
  rewrite (file_level_exact q a r H A Hr), (prev_exact q a v r H A), (cur_exact q a v r H A T Hr).
  rewrite (block_exact q a v r H A T). now rewrite !orb_assoc.
Qed.

(* the two flags whose source variants still deviate; every other flag may have either value *)
Lemma off_avoids q a :
  q_splitlines_unicode q = false -> q_start_rules_from_code q = false -> avoids q a = true.
Proof.
  intros Q0 Q6. unfold avoids. apply forallb_forall. intros l _. unfold line_avoids. rewrite Q0, Q6. cbn [negb orb andb].
  destruct l; reflexivity.
Qed.

Theorem should_ignore_exact_ideal q repo a v r :
  q_splitlines_unicode q = false -> q_start_rules_from_code q = false ->
  file_ok a = true -> target_ok a v = true -> nonempty r = true ->
  should_ignore q repo (render a) v r = spec repo a v r.
Proof.
  intros Q0 Q6 H T Hr. apply should_ignore_exact; try assumption. now apply off_avoids.
Qed.
