(* Proofs/RustSafetyEmit.v — at a node whose parent chain is related (R) to the specification's
   context, each linter's model reports exactly what the specification reports.  The literals of the
   Python source (method names, skip rules, option keys and defaults, classifier order, rule ids,
   line/column offsets) enter through lemmas proved by computation on Gen/RustSafetyGen.v. *)
From TL Require Import Lib.Base Lib.GenTypes Model.RustSafetyTypes Model.RustSafetySpec Gen.RustSafetyGen
     Model.RustSafety Proofs.RustSafetyWalk Proofs.RustSafetyCtx.

Lemma row_ok q sl ml : negb (q_chain_start_line q) || (sl =? ml) = true -> report_row q sl ml = ml.
Proof.
  unfold report_row. destruct (q_chain_start_line q); cbn [negb orb]; intros H; [|reflexivity].
  now apply Nat.eqb_eq in H.
Qed.
Lemma line_ok q sl ml : negb (q_chain_start_line q) || (sl =? ml) = true -> report_line q 1 sl ml = S ml.
Proof. intros H. unfold report_line. rewrite (row_ok q sl ml H). lia. Qed.

(* ------------------------------------------------------------------ unwrap-abuse *)
Lemma unwrap_skip_eq o t name :
  skipped unwrap_skip_rules unwrap_cfg o t name false =
  (t && opt o "allow_in_tests" true) || (String.eqb name "expect" && opt o "allow_expect" true).
Proof.
  unfold skipped, unwrap_skip_rules. cbn [existsb forallb atom_holds].
  change (getcfg unwrap_cfg o "allow_in_tests") with (opt o "allow_in_tests" true).
  change (getcfg unwrap_cfg o "allow_expect") with (opt o "allow_expect" true).
  now rewrite !andb_true_r, orb_false_r.
Qed.

Lemma unwrap_methods_eq name : smem name unwrap_methods = String.eqb name "unwrap" || String.eqb name "expect".
Proof. unfold unwrap_methods. cbn [smem]. destruct (String.eqb name "unwrap"), (String.eqb name "expect"); reflexivity. Qed.

Lemma emit_unwrap_eq q g ls o anc c k cs : R q g anc c -> gok LUnwrap q g k cs = true ->
  emit_unwrap q ls o anc k cs = spec_unwrap ls o c k cs.
Proof.
  intros (RT & _) G. destruct k as [pre|pre a nm| |b| |x| |nm| |sl sc ml name|sl sc p|p| |lk pat| | |nm]; try reflexivity.
  unfold gok in G. apply andb_true_iff in G as [_ G].
  unfold emit_unwrap, spec_unwrap. rewrite ty_unwrap_call. cbn [is_callk andb].
  rewrite unwrap_methods_eq, unwrap_skip_eq, RT.
  change unwrap_line_offset with 1. change unwrap_col_offset with 0. rewrite (line_ok q sl ml G), (row_ok q sl ml G), Nat.add_0_r.
  change unwrap_builder_method with "unwrap". change unwrap_rule_then with "unwrap-abuse.unwrap-call".
  change unwrap_rule_else with "unwrap-abuse.expect-call".
  change unwrap_msg_then with ".unwrap() call may panic at runtime: ". change unwrap_msg_else with ".expect() call may panic at runtime: ".
  change (context_of ls ml) with (quoted ls ml).
  destruct (String.eqb_spec name "unwrap") as [->|NU].
  - cbn [String.eqb Ascii.eqb Bool.eqb andb orb]. rewrite orb_false_r.
    destruct (in_test c && opt o "allow_in_tests" true); reflexivity.
  - cbn [orb]. destruct (String.eqb name "expect"); cbn [andb orb].
    + destruct (in_test c && opt o "allow_in_tests" true), (opt o "allow_expect" true); reflexivity.
    + destruct (in_test c && opt o "allow_in_tests" true); reflexivity.
Qed.

Lemma smem2_false name : smem name ["unwrap"; "expect"] = false -> String.eqb name "unwrap" = false /\ String.eqb name "expect" = false.
Proof. cbn [smem]. destruct (String.eqb name "unwrap"), (String.eqb name "expect"); intros; try discriminate; split; reflexivity. Qed.

Lemma spec_unwrap_silent q g ls o c k cs : g_macro g = true -> gok LUnwrap q g k cs = true -> spec_unwrap ls o c k cs = [].
Proof.
  intros M G. unfold gok in G. apply andb_true_iff in G as [G _]. rewrite M in G. cbn [negb orb] in G.
  apply negb_true_iff in G.
  destruct k; try reflexivity. cbn [risky] in G. destruct (smem2_false _ G) as [E1 E2].
  unfold spec_unwrap. rewrite E1, E2. cbn [andb]. now destruct (in_test c && opt o "allow_in_tests" true).
Qed.

(* ------------------------------------------------------------------ clone-abuse *)
Lemma clone_skip_eq o t name poff :
  skipped clone_skip_rules clone_cfg o t name poff = (t && opt o "allow_in_tests" true) || poff.
Proof.
  unfold skipped, clone_skip_rules. cbn [existsb forallb atom_holds].
  change (getcfg clone_cfg o "allow_in_tests") with (opt o "allow_in_tests" true).
  now rewrite !andb_true_r, orb_false_r.
Qed.

Lemma clone_off_chain o : pattern_off clone_pattern_keys clone_cfg o "clone-chain" = negb (opt o "detect_clone_chain" true).
Proof. reflexivity. Qed.
Lemma clone_off_loop o : pattern_off clone_pattern_keys clone_cfg o "clone-in-loop" = negb (opt o "detect_clone_in_loop" true).
Proof. reflexivity. Qed.
Lemma clone_off_unn o : pattern_off clone_pattern_keys clone_cfg o "unnecessary-clone" = negb (opt o "detect_unnecessary_clone" true).
Proof. reflexivity. Qed.

Lemma classify_clone_eq q o anc cs :
  classify_clone q o anc cs clone_classify_order =
  if chained cs && (q_clone_first_pattern q || negb (pattern_off clone_pattern_keys clone_cfg o "clone-chain")) then Some "clone-chain"
  else if inside_loop anc && (q_clone_first_pattern q || negb (pattern_off clone_pattern_keys clone_cfg o "clone-in-loop")) then Some "clone-in-loop"
  else if unnecessary anc cs && (q_clone_first_pattern q || negb (pattern_off clone_pattern_keys clone_cfg o "unnecessary-clone")) then Some "unnecessary-clone"
  else None.
Proof. reflexivity. Qed.

Lemma chained_eq cs : chained cs = match cs with r :: _ => is_clone_call r | [] => false end.
Proof.
  destruct cs as [|[rk rcs] rest]; [reflexivity|]. unfold chained, is_clone_call. rewrite ty_chain_recv.
  change clone_chain_method with "clone".
  destruct rk; reflexivity.
Qed.

Lemma unnecessary_eq q g anc c cs : R q g anc c ->
  unnecessary anc cs = match in_let c, cs with Some l, N (KId y) _ :: _ => negb (smem y l) | _, _ => false end.
Proof.
  intros (_ & _ & _ & _ & _ & RLet). unfold unnecessary. rewrite RLet.
  destruct (in_let c) as [l|]; [|reflexivity].
  destruct cs as [|[rk rcs] rest]; [reflexivity|]. destruct rk; reflexivity.
Qed.

Definition clone_switches_on (o : options) : bool :=
  opt o "detect_clone_chain" true && opt o "detect_clone_in_loop" true && opt o "detect_unnecessary_clone" true.

Lemma emit_clone_eq q g ls o anc c k cs :
  q_clone_first_pattern q = false \/ clone_switches_on o = true ->
  R q g anc c -> gok LClone q g k cs = true ->
  emit_clone q ls o anc k cs = spec_clone ls o c k cs.
Proof.
  intros HQ HR G. destruct k as [pre|pre a nm| |b| |x| |nm| |sl sc ml name|sl sc p|p| |lk pat| | |nm]; try reflexivity.
  unfold gok in G. apply andb_true_iff in G as [_ G]. apply andb_true_iff in G as [GL GF].
  unfold emit_clone, spec_clone. rewrite ty_clone_call. cbn [is_callk andb]. change clone_method with "clone".
  destruct (String.eqb name "clone") eqn:EN; [|reflexivity].
  cbn [negb] in GF. rewrite orb_false_r in GF. apply negb_true_iff in GF.
  rewrite classify_clone_eq, clone_off_chain, clone_off_loop, clone_off_unn, !negb_involutive.
  rewrite chained_eq, (unnecessary_eq q g anc c cs HR).
  destruct HR as (RT & RL & _). rewrite (RL GF), RT.
  change clone_line_offset with 1. change clone_col_offset with 0. rewrite (line_ok q sl ml GL), (row_ok q sl ml GL), Nat.add_0_r.
  change (context_of ls ml) with (quoted ls ml).
  set (ch := match cs with r :: _ => is_clone_call r | [] => false end).
  set (un := match in_let c, cs with Some l, N (KId y) _ :: _ => negb (smem y l) | _, _ => false end).
  set (tt := in_test c && opt o "allow_in_tests" true).
  assert (K : forall pat, (if skipped clone_skip_rules clone_cfg o (in_test c) name (pattern_off clone_pattern_keys clone_cfg o pat)
                          then [] else [(rule_of clone_pattern_rules clone_default_rule pat, S ml, sc,
                                         (rule_of clone_pattern_msgs clone_default_msg pat ++ quoted ls ml)%string)]) =
                         (if tt || pattern_off clone_pattern_keys clone_cfg o pat then []
                          else [(rule_of clone_pattern_rules clone_default_rule pat, S ml, sc,
                                 (rule_of clone_pattern_msgs clone_default_msg pat ++ quoted ls ml)%string)])).
  { intros pat0. now rewrite clone_skip_eq. }
  destruct HQ as [HQ|HS].
  - rewrite HQ. cbn [orb].
    destruct (ch && opt o "detect_clone_chain" true) eqn:E1.
    { rewrite K, clone_off_chain. apply andb_true_iff in E1 as [_ E1]. rewrite E1. cbn [negb]. rewrite orb_false_r.
      destruct tt; reflexivity. }
    destruct (in_loop c && opt o "detect_clone_in_loop" true) eqn:E2.
    { rewrite K, clone_off_loop. apply andb_true_iff in E2 as [_ E2]. rewrite E2. cbn [negb]. rewrite orb_false_r.
      destruct tt; reflexivity. }
    destruct (un && opt o "detect_unnecessary_clone" true) eqn:E3.
    { rewrite K, clone_off_unn. apply andb_true_iff in E3 as [_ E3]. rewrite E3. cbn [negb]. rewrite orb_false_r.
      destruct tt; reflexivity. }
    destruct tt; reflexivity.
  - unfold clone_switches_on in HS. apply andb_true_iff in HS as [HS H3]. apply andb_true_iff in HS as [H1 H2].
    rewrite H1, H2, H3, !orb_true_r, !andb_true_r.
    destruct ch.
    { rewrite K, clone_off_chain, H1. cbn [negb]. rewrite orb_false_r. destruct tt; reflexivity. }
    destruct (in_loop c).
    { rewrite K, clone_off_loop, H2. cbn [negb]. rewrite orb_false_r. destruct tt; reflexivity. }
    destruct un.
    { rewrite K, clone_off_unn, H3. cbn [negb]. rewrite orb_false_r. destruct tt; reflexivity. }
    destruct tt; reflexivity.
Qed.

Lemma spec_clone_silent q g ls o c k cs : g_macro g = true -> gok LClone q g k cs = true -> spec_clone ls o c k cs = [].
Proof.
  intros M G. unfold gok in G. apply andb_true_iff in G as [G _]. rewrite M in G. cbn [negb orb] in G.
  apply negb_true_iff in G.
  destruct k; try reflexivity. cbn [risky] in G. unfold spec_clone. now rewrite G.
Qed.

(* ------------------------------------------------------------------ blocking-async *)
Lemma blocking_skip_eq o t poff :
  skipped blocking_skip_rules blocking_cfg o t "" poff = (t && opt o "allow_in_tests" true) || poff.
Proof.
  unfold skipped, blocking_skip_rules. cbn [existsb forallb atom_holds].
  change (getcfg blocking_cfg o "allow_in_tests") with (opt o "allow_in_tests" true).
  now rewrite !andb_true_r, orb_false_r.
Qed.

Lemma short_path_unclassified path : List.length path <? 2 = true -> classify_path spec_blocking_classes path = None.
Proof. destruct path as [|a [|b r]]; [reflexivity|reflexivity|discriminate]. Qed.

Lemma classify_names path cl : classify_path spec_blocking_classes path = Some cl ->
  cl = "fs-in-async" \/ cl = "sleep-in-async" \/ cl = "net-in-async".
Proof.
  unfold spec_blocking_classes. cbn [classify_path].
  repeat match goal with |- context [if ?b then _ else _] => destruct b end; intros H; inversion H; auto.
Qed.

Lemma blocking_class_facts o cl : cl = "fs-in-async" \/ cl = "sleep-in-async" \/ cl = "net-in-async" ->
  rule_of blocking_pattern_rules blocking_default_rule cl = blocking_rule cl /\
  pattern_off blocking_pattern_keys blocking_cfg o cl = negb (opt o (blocking_switch cl) true) /\
  forall path, (rule_of blocking_pattern_msgs blocking_default_msg cl ++ path_text path)%string = blocking_message cl path.
Proof. intros [->|[->| ->]]; repeat split; reflexivity. Qed.

Lemma ostr_eqb_eq a b : ostr_eqb a b = true -> a = b.
Proof.
  destruct a as [x|], b as [y|]; cbn [ostr_eqb]; try discriminate; [|reflexivity].
  intros H. apply String.eqb_eq in H. now subst.
Qed.

Lemma emit_blocking_eq q g ls o anc c k cs : R q g anc c -> gok LBlocking q g k cs = true ->
  emit_blocking q ls o anc k cs = spec_blocking ls o c k cs.
Proof.
  intros (RT & _ & RA & RW & _) G. destruct k as [pre|pre a nm| |b| |x| |nm| |sl sc ml name|sl sc path|p| |lk pat| | |nm]; try reflexivity.
  unfold gok in G. apply andb_true_iff in G as [_ G]. apply andb_true_iff in G as [G GM]. apply andb_true_iff in G as [G GW].
  apply ostr_eqb_eq in G.
  unfold emit_blocking, spec_blocking. rewrite ty_blocking_call. cbn [is_callk andb]. rewrite RA, RT, G.
  change blocking_line_offset with 1. change blocking_col_offset with 0. rewrite Nat.add_0_r, Nat.add_1_r.
  destruct (in_async c); [|reflexivity]. cbn [andb].
  destruct (List.length path <? 2) eqn:EL.
  { rewrite (short_path_unclassified path EL). now destruct (negb (in_wrap c) && negb (in_test c && opt o "allow_in_tests" true)). }
  cbn [risky] in GW, GM.
  destruct (classify_path spec_blocking_classes path) as [cl|] eqn:EC.
  - cbn [negb] in GW, GM. rewrite orb_false_r in GW, GM. apply negb_true_iff in GW, GM. rewrite (RW GW), GM.
    destruct (blocking_class_facts o cl (classify_names path cl EC)) as (E1 & E2 & E3).
    rewrite blocking_skip_eq, E1, E2, E3.
    destruct (in_wrap c); [reflexivity|]. cbn [negb andb].
    destruct (in_test c && opt o "allow_in_tests" true); [reflexivity|]. cbn [negb orb].
    destruct (opt o (blocking_switch cl) true); reflexivity.
  - now destruct (negb (in_wrap c) && negb (in_test c && opt o "allow_in_tests" true)).
Qed.

Lemma spec_blocking_silent q g ls o c k cs : g_macro g = true -> gok LBlocking q g k cs = true -> spec_blocking ls o c k cs = [].
Proof.
  intros M G. unfold gok in G. apply andb_true_iff in G as [G _]. rewrite M in G. cbn [negb orb] in G.
  apply negb_true_iff in G.
  destruct k; try reflexivity. cbn [risky] in G. unfold spec_blocking.
  destruct (classify_path spec_blocking_classes path); [discriminate|].
  now destruct (in_async c && negb (in_wrap c) && negb (in_test c && opt o "allow_in_tests" true)).
Qed.
