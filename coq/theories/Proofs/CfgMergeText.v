(* Proofs/CfgMergeText.v — what merge_lines does to the text: in both modes (append, insert before the
   GLOBAL SETTINGS marker) the significant lines of the result are those of the old file with the
   significant lines of the missing sections spliced in at an entry boundary; the non-blank lines of the
   old file survive in order; the result has no control characters. *)
From TL Require Import Lib.Base Lib.GenTypes Model.CfgTypes Gen.CfgToolGen Model.CfgMerge Proofs.CfgLines Proofs.CfgMergeMain.
From Coq Require Import NArith.

(* facts about the literals of the source, re-checked whenever Gen changes *)
Lemma gen_join_newlines : section_join_newlines = 1. Proof. reflexivity. Qed.
Lemma gen_append_shape : append_sep_newlines = 2 /\ append_tail_newlines = 1 /\ insert_sep_newlines = 2. Proof. repeat split; reflexivity. Qed.
Lemma marker_insignificant : insignificant marker_line1 = true. Proof. reflexivity. Qed.
Lemma marker_clean : line_clean marker_line1 = true. Proof. reflexivity. Qed.
Lemma marker_nonblank : String.eqb (rstrip marker_line1) EmptyString = false. Proof. reflexivity. Qed.

Lemma join_texts_concat ts : ts <> [] -> join_texts section_join_newlines ts = List.concat ts.
Proof.
  rewrite gen_join_newlines. induction ts as [|t r IH]; [contradiction|]. intros _.
  destruct r as [|t' r].
  - cbn [join_texts List.concat]. now rewrite app_nil_r.
  - change (join_texts 1 (t :: t' :: r)) with (glue 1 t (join_texts 1 (t' :: r))).
    rewrite IH by discriminate. reflexivity.
Qed.

Lemma append_text_eq E T : append_text E T = rstrip_doc E ++ [EmptyString] ++ T ++ [EmptyString].
Proof.
  unfold append_text. destruct gen_append_shape as (-> & -> & _). cbn [glue repeat app].
  now rewrite <- !app_assoc.
Qed.

Lemma insert_text_eq E t0 tr i p :
  insert_text E (t0 :: tr) i p = firstn i E ++ [(p ++ t0)%string] ++ tr ++ [EmptyString] ++ marker_line1 :: skipn (S i) E.
Proof.
  unfold insert_text. destruct gen_append_shape as (_ & _ & ->). cbn [glue repeat].
  rewrite removelast_last, last_last. cbn [app]. now rewrite <- !app_assoc.
Qed.

Definition marker_ok (E : list string) : bool :=
  match find_marker E 0 with Some (i, _, _) => boundary_ok (skipn (S i) E) | None => true end.

Lemma secs_sig_concat ms : sig_lines (List.concat (map snd ms)) = secs_sig ms.
Proof. rewrite sig_lines_concat, map_map. reflexivity. Qed.

Lemma forallb_concat {A} (f : A -> bool) ts : forallb (forallb f) ts = true -> forallb f (List.concat ts) = true.
Proof. induction ts as [|t r IH]; [reflexivity|]. cbn [forallb List.concat]. intro H. apply andb_true_iff in H as [H1 H2]. rewrite forallb_app, H1. now apply IH. Qed.

Lemma secs_clean ms : forallb sec_wf ms = true -> forallb line_clean (List.concat (map snd ms)) = true.
Proof.
  intro H. apply forallb_concat. rewrite forallb_forall in *. intros t Ht. apply in_map_iff in Ht as (s & <- & Hs).
  now destruct (sec_wf_facts s (H s Hs)) as (_ & Hc & _).
Qed.

Lemma forallb_firstn_skipn {A} (f : A -> bool) n l : forallb f l = true ->
  forallb f (firstn n l) = true /\ forallb f (skipn n l) = true.
Proof. intro H. rewrite <- (firstn_skipn n l), forallb_app in H. now apply andb_true_iff in H. Qed.
Lemma forallb_firstn {A} (f : A -> bool) n l : forallb f l = true -> forallb f (firstn n l) = true.
Proof. intro H. now destruct (forallb_firstn_skipn f n l H). Qed.
Lemma forallb_skipn {A} (f : A -> bool) n l : forallb f l = true -> forallb f (skipn n l) = true.
Proof. intro H. now destruct (forallb_firstn_skipn f n l H). Qed.

(* the shape of the merged text, common to both modes *)
Inductive spliced (E R : list string) (ms : list (string * list string)) : Prop :=
| Spliced (S1 S2 N1 N2 X : list string)
    (sp_sigE : sig_lines E = S1 ++ S2)
    (sp_start : starts_entry S2 = true)
    (sp_sigR : sig_lines R = S1 ++ secs_sig ms ++ S2)
    (sp_nbE : nonblank E = N1 ++ N2)
    (sp_nbR : nonblank R = N1 ++ X ++ N2) : spliced E R ms.

Lemma append_spliced E ms : ms <> [] ->
  spliced E (append_text E (join_texts section_join_newlines (map snd ms))) ms.
Proof.
  intro Hne. assert (Hne' : map snd ms <> []) by (destruct ms; [contradiction|discriminate]).
  rewrite (join_texts_concat _ Hne'), append_text_eq.
  apply (Spliced _ _ _ (sig_lines E) [] (nonblank E) [] (nonblank (List.concat (map snd ms)))).
  - now rewrite app_nil_r.
  - reflexivity.
  - rewrite !sig_lines_app, sig_rstrip_doc, secs_sig_concat. cbn. now rewrite !app_nil_r.
  - now rewrite app_nil_r.
  - rewrite !nonblank_app, nonblank_rstrip_doc. cbn. now rewrite !app_nil_r.
Qed.

Lemma insert_spliced E ms i pos p :
  find_marker E 0 = Some (i, pos, p) -> boundary_ok (skipn (S i) E) = true ->
  ms <> [] -> forallb sec_wf ms = true ->
  spliced E (insert_text E (join_texts section_join_newlines (map snd ms)) i p) ms.
Proof.
  intros Hf Hb Hne Hwf. assert (Hne' : map snd ms <> []) by (destruct ms; [contradiction|discriminate]).
  rewrite (join_texts_concat _ Hne').
  pose proof (secs_sig_concat ms) as Hsig.
  destruct ms as [|s ms]; [contradiction|]. cbn [forallb] in Hwf. apply andb_true_iff in Hwf as [Hs _].
  destruct (sec_wf_facts s Hs) as ((tr & Ht) & _). cbn [map List.concat] in *. rewrite Ht in *.
  change ((marker_line1 :: tr) ++ ?x) with (marker_line1 :: (tr ++ x)) in *.
  set (trest := tr ++ List.concat (map snd ms)) in *.
  rewrite insert_text_eq.
  pose proof (find_marker_spec _ _ _ _ _ Hf) as Hn. destruct (nth_error_split _ _ _ Hn) as [H1 H2].
  set (E1 := firstn (S i) E) in *. set (E2 := skipn (S i) E) in *.
  assert (HR : firstn i E ++ [(p ++ marker_line1)%string] ++ trest ++ [EmptyString] ++ marker_line1 :: E2
               = E1 ++ trest ++ [EmptyString; marker_line1] ++ E2).
  { rewrite H1. now rewrite <- !app_assoc. }
  rewrite HR.
  rewrite sig_lines_cons, marker_insignificant in Hsig. cbn [app] in Hsig.
  apply (Spliced _ _ _ (sig_lines E1) (sig_lines E2) (nonblank E1) (nonblank E2) (nonblank (trest ++ [EmptyString; marker_line1]))).
  - rewrite H2 at 1. now rewrite sig_lines_app.
  - exact Hb.
  - rewrite !sig_lines_app, Hsig. cbn. reflexivity.
  - rewrite H2 at 1. now rewrite nonblank_app.
  - rewrite !nonblank_app. now rewrite <- !app_assoc.
Qed.

Lemma merge_spliced q E ms :
  q_insert_mid_entry q = false \/ marker_ok E = true ->
  ms <> [] -> forallb sec_wf ms = true ->
  spliced E (merge_lines q E (join_texts section_join_newlines (map snd ms))) ms.
Proof.
  intros Hq Hne Hwf. unfold merge_lines. unfold marker_ok in Hq.
  destruct (find_marker E 0) as [[[i pos] p]|] eqn:Hf; [|now apply append_spliced].
  destruct (cmp_nat insert_pos_cmp pos insert_pos_bound && (q_insert_mid_entry q || boundary_ok (skipn (S i) E))) eqn:Hc;
    [|now apply append_spliced].
  apply andb_true_iff in Hc as [_ Hc].
  assert (Hb : boundary_ok (skipn (S i) E) = true).
  { destruct Hq as [Hq|Hq]; [rewrite Hq in Hc; exact Hc|exact Hq]. }
  now apply (insert_spliced E ms i pos p).
Qed.

Lemma merge_clean q E ms :
  forallb line_clean E = true -> ms <> [] -> forallb sec_wf ms = true ->
  forallb line_clean (merge_lines q E (join_texts section_join_newlines (map snd ms))) = true.
Proof.
  intros HE Hne Hwf. assert (Hne' : map snd ms <> []) by (destruct ms; [contradiction|discriminate]).
  rewrite (join_texts_concat _ Hne'). pose proof (secs_clean ms Hwf) as HT.
  assert (Happ : forallb line_clean (append_text E (List.concat (map snd ms))) = true).
  { rewrite append_text_eq, !forallb_app, (line_clean_rstrip_doc _ HE), HT. reflexivity. }
  unfold merge_lines. destruct (find_marker E 0) as [[[i pos] p]|] eqn:Hf; [|exact Happ].
  destruct (cmp_nat insert_pos_cmp pos insert_pos_bound && _); [|exact Happ].
  destruct (List.concat (map snd ms)) as [|t0 tr] eqn:HC.
  { destruct ms as [|s ms]; [contradiction|]. cbn [forallb] in Hwf. apply andb_true_iff in Hwf as [Hs _].
    destruct (sec_wf_facts s Hs) as ((tr & Ht) & _). cbn [map List.concat] in HC. rewrite Ht in HC. discriminate HC. }
  rewrite insert_text_eq. cbn [forallb] in HT. apply andb_true_iff in HT as [Ht0 Htr].
  pose proof (find_marker_spec _ _ _ _ _ Hf) as Hn.
  assert (Hp : line_clean (p ++ t0) = true).
  { assert (Hpl : line_clean (p ++ marker_line1) = true).
    { rewrite forallb_forall in HE. apply HE. eapply nth_error_In; eauto. }
    clear -Hpl Ht0. induction p as [|c p IH]; [exact Ht0|]. cbn [String.append line_clean] in *.
    apply andb_true_iff in Hpl as [-> Hpl]. now apply IH. }
  rewrite !forallb_app. cbn [forallb]. rewrite (forallb_firstn _ _ _ HE), Hp, Htr, marker_clean, (forallb_skipn _ _ _ HE). reflexivity.
Qed.

(* ------------------------------------------------------------------ byte level: nothing of the old file is rewritten *)
(* Whatever the file contains (block scalars, quoted text, anything - no YAML assumption at all): the merged text is the old
   text with new lines put in at ONE place; every old line is byte-identical, except that in append mode the white space at the
   end of the file (trailing blank lines, trailing spaces of the last line) is removed. *)
Inductive raw_spliced (E R : list string) : Prop :=
| RawAppend ins : R = rstrip_doc E ++ ins -> raw_spliced E R
| RawInsert pre ins post : E = pre ++ post -> R = pre ++ ins ++ post -> raw_spliced E R.

Lemma merge_raw_spliced q E ms : ms <> [] -> forallb sec_wf ms = true ->
  raw_spliced E (merge_lines q E (join_texts section_join_newlines (map snd ms))).
Proof.
  intros Hne Hwf. assert (Hne' : map snd ms <> []) by (destruct ms; [contradiction|discriminate]).
  rewrite (join_texts_concat _ Hne').
  assert (Happ : raw_spliced E (append_text E (List.concat (map snd ms)))).
  { rewrite append_text_eq. now apply (RawAppend _ _ ([EmptyString] ++ List.concat (map snd ms) ++ [EmptyString])). }
  unfold merge_lines. destruct (find_marker E 0) as [[[i pos] p]|] eqn:Hf; [|exact Happ].
  destruct (cmp_nat insert_pos_cmp pos insert_pos_bound && _); [|exact Happ].
  destruct ms as [|s ms]; [contradiction|]. cbn [forallb] in Hwf. apply andb_true_iff in Hwf as [Hs _].
  destruct (sec_wf_facts s Hs) as ((tr & Ht) & _). cbn [map List.concat]. rewrite Ht.
  change ((marker_line1 :: tr) ++ ?x) with (marker_line1 :: (tr ++ x)). rewrite insert_text_eq.
  pose proof (find_marker_spec _ _ _ _ _ Hf) as Hn. destruct (nth_error_split _ _ _ Hn) as [H1 H2].
  apply (RawInsert _ _ (firstn (S i) E) ((tr ++ List.concat (map snd ms)) ++ [EmptyString; marker_line1]) (skipn (S i) E)); [exact H2|].
  rewrite H1. now rewrite <- !app_assoc.
Qed.
