(* Proofs/PlacementStrings.v — string facts behind "the deepest matching directory key is the most specific
   containing directory": prefixes of one string are comparable, a longer containing key has more
   separators, two containing keys of equal length are equal. *)
From Coq Require Import ZArith.
From TL Require Import Lib.Base Lib.GenTypes Model.PlacementTypes Gen.PlacementGen Model.Placement.

Lemma append_empty_r (s : string) : (s ++ "")%string = s.
Proof. induction s as [|c s IH]; cbn [String.append]; [reflexivity|]. now rewrite IH. Qed.

Lemma append_assoc (a b c : string) : ((a ++ b) ++ c)%string = (a ++ (b ++ c))%string.
Proof. induction a as [|x a IH]; cbn [String.append]; [reflexivity|]. now rewrite IH. Qed.

Lemma length_append (a b : string) : String.length (a ++ b) = String.length a + String.length b.
Proof. induction a as [|x a IH]; cbn [String.append String.length]; [reflexivity|]. now rewrite IH. Qed.

Lemma starts_with_app (pre rest : string) : starts_with pre (pre ++ rest) = true.
Proof.
  induction pre as [|c pre IH]; cbn [starts_with String.append]; [reflexivity|].
  now rewrite Ascii.eqb_refl, IH.
Qed.

Lemma starts_with_inv (pre s : string) : starts_with pre s = true -> exists rest, s = (pre ++ rest)%string.
Proof.
  revert s. induction pre as [|c pre IH]; intros s H.
  - exists s. reflexivity.
  - destruct s as [|c' s]; cbn [starts_with] in H; [discriminate|].
    apply andb_true_iff in H. destruct H as [Hc Hs]. apply Ascii.eqb_eq in Hc. subst c'.
    destruct (IH s Hs) as [rest ->]. exists rest. reflexivity.
Qed.

Lemma starts_with_refl (s : string) : starts_with s s = true.
Proof. rewrite <- (append_empty_r s) at 2. apply starts_with_app. Qed.

(* a prefix of a prefix *)
Lemma starts_with_app_l (a c s : string) : starts_with (a ++ c) s = true -> starts_with a s = true.
Proof.
  revert s. induction a as [|x a IH]; intros s H; [reflexivity|].
  destruct s as [|y s]; cbn [starts_with String.append] in *; [discriminate|].
  apply andb_true_iff in H. destruct H as [H1 H2]. rewrite H1. cbn [andb]. now apply IH.
Qed.

(* two prefixes of the same string: the shorter one is a prefix of the longer one *)
Lemma prefix_comparable (a b p : string) :
  starts_with a p = true -> starts_with b p = true -> String.length a <= String.length b -> starts_with a b = true.
Proof.
  revert b p. induction a as [|x a IH]; intros b p Ha Hb Hl; [reflexivity|].
  destruct p as [|z p]; cbn [starts_with] in Ha; [discriminate|].
  destruct b as [|y b]; cbn [String.length] in Hl; [lia|].
  cbn [starts_with] in Hb |- *.
  apply andb_true_iff in Ha. destruct Ha as [Ha1 Ha2].
  apply andb_true_iff in Hb. destruct Hb as [Hb1 Hb2].
  apply Ascii.eqb_eq in Ha1. apply Ascii.eqb_eq in Hb1. subst x y. rewrite Ascii.eqb_refl. cbn [andb].
  apply (IH b p Ha2 Hb2). lia.
Qed.

Lemma starts_with_shorter (a b c : string) :
  starts_with a (b ++ c) = true -> String.length a <= String.length b -> starts_with a b = true.
Proof.
  revert b. induction a as [|x a IH]; intros b H Hl; [reflexivity|].
  destruct b as [|y b]; cbn [String.length] in Hl; [lia|].
  cbn [starts_with String.append] in H |- *.
  apply andb_true_iff in H. destruct H as [H1 H2]. rewrite H1. cbn [andb]. apply IH; [exact H2|lia].
Qed.

Lemma starts_with_same_length (a b : string) :
  starts_with a b = true -> String.length a = String.length b -> a = b.
Proof.
  revert b. induction a as [|x a IH]; intros b H Hl.
  - destruct b; [reflexivity|discriminate].
  - destruct b as [|y b]; [discriminate|]. cbn [starts_with String.length] in *.
    apply andb_true_iff in H. destruct H as [H1 H2]. apply Ascii.eqb_eq in H1. subst y.
    f_equal. apply IH; [exact H2|lia].
Qed.

Lemma count_char_app (c : ascii) (a b : string) : count_char c (a ++ b) = count_char c a + count_char c b.
Proof. induction a as [|x a IH]; cbn [String.append count_char]; [reflexivity|]. rewrite IH. lia. Qed.

Lemma split_on_nonempty (c : ascii) (s : string) : split_on c s <> [].
Proof.
  induction s as [|a s IH]; cbn [split_on]; [discriminate|].
  destruct (Ascii.eqb a c); [discriminate|]. destruct (split_on c s); discriminate.
Qed.

Lemma split_on_length (c : ascii) (s : string) : List.length (split_on c s) = S (count_char c s).
Proof.
  induction s as [|a s IH]; cbn [split_on count_char]; [reflexivity|].
  destruct (Ascii.eqb a c).
  - cbn [List.length]. rewrite IH. lia.
  - pose proof (split_on_nonempty c s) as Hne.
    destruct (split_on c s) as [|x xs]; [congruence|]. cbn [List.length] in *. lia.
Qed.

Lemma str_contains_app_r (n a b : string) : str_contains n b = true -> str_contains n (a ++ b) = true.
Proof.
  intros H. induction a as [|x a IH]; [exact H|].
  cbn [String.append str_contains]. rewrite IH. apply orb_true_r.
Qed.

Lemma starts_with_sep_contains (d p : string) : starts_with (d ++ "/") p = true -> str_contains "/" p = true.
Proof.
  intros H. destruct (starts_with_inv _ _ H) as [rest ->]. rewrite append_assoc.
  apply str_contains_app_r. reflexivity.
Qed.

(* ---------------------------------------------------------------- two keys that contain the same path *)
Section TwoKeys.
  Variables d1 d2 p : string.
  Hypothesis H1 : starts_with (d1 ++ "/") p = true.
  Hypothesis H2 : starts_with (d2 ++ "/") p = true.

  (* the shorter key is an ancestor directory of the longer one *)
  Lemma shorter_key_is_ancestor : String.length d1 < String.length d2 -> starts_with (d1 ++ "/") d2 = true.
  Proof.
    intros Hl.
    assert (Hc : starts_with (d1 ++ "/") (d2 ++ "/") = true).
    { apply (prefix_comparable _ _ p H1 H2). rewrite !length_append. cbn [String.length]. lia. }
    apply (starts_with_shorter _ _ "/" Hc). rewrite length_append. cbn [String.length]. lia.
  Qed.

  Lemma shorter_key_fewer_separators :
    String.length d1 < String.length d2 -> count_char "/" d1 < count_char "/" d2.
  Proof.
    intros Hl. destruct (starts_with_inv _ _ (shorter_key_is_ancestor Hl)) as [rest E].
    rewrite E, !count_char_app. cbn [count_char Ascii.eqb Bool.eqb]. lia.
  Qed.

  Lemma same_length_same_key : String.length d1 = String.length d2 -> d1 = d2.
  Proof.
    intros Hl.
    assert (Hc : starts_with (d1 ++ "/") (d2 ++ "/") = true).
    { apply (prefix_comparable _ _ p H1 H2). rewrite !length_append. lia. }
    apply starts_with_same_length; [|exact Hl].
    apply (starts_with_shorter _ _ "/"); [|lia]. apply (starts_with_app_l _ "/"). exact Hc.
  Qed.
End TwoKeys.

Lemma separators_vs_length (d1 d2 p : string) :
  starts_with (d1 ++ "/") p = true -> starts_with (d2 ++ "/") p = true ->
  (count_char "/" d1 <? count_char "/" d2) = (String.length d1 <? String.length d2).
Proof.
  intros H1 H2.
  destruct (Nat.lt_trichotomy (String.length d1) (String.length d2)) as [Hl|[Hl|Hl]].
  - pose proof (shorter_key_fewer_separators d1 d2 p H1 H2 Hl) as Hc.
    apply Nat.ltb_lt in Hc. apply Nat.ltb_lt in Hl. congruence.
  - rewrite (same_length_same_key d1 d2 p H1 H2 Hl), !Nat.ltb_irrefl. reflexivity.
  - pose proof (shorter_key_fewer_separators d2 d1 p H2 H1 Hl) as Hc.
    assert (E1 : (count_char "/" d1 <? count_char "/" d2) = false) by (apply Nat.ltb_ge; lia).
    assert (E2 : (String.length d1 <? String.length d2) = false) by (apply Nat.ltb_ge; lia).
    congruence.
Qed.

(* ---------------------------------------------------------------- containment, component-wise *)
Lemma split_on_app_sep (c : ascii) (a b : string) :
  split_on c (a ++ String c b) = split_on c a ++ split_on c b.
Proof.
  induction a as [|x a IH]; cbn [String.append split_on].
  - rewrite Ascii.eqb_refl. reflexivity.
  - destruct (Ascii.eqb x c); [rewrite IH; reflexivity|].
    rewrite IH. pose proof (split_on_nonempty c a) as Hne.
    destruct (split_on c a) as [|y ys]; [congruence|]. reflexivity.
Qed.

(* a path below directory d: its components are those of d followed by at least one more *)
Lemma below_components (d p : string) :
  starts_with (d ++ "/") p = true ->
  exists rest, rest <> [] /\ split_on "/" p = split_on "/" d ++ rest.
Proof.
  intros H. destruct (starts_with_inv _ _ H) as [r ->]. rewrite append_assoc.
  change ("/" ++ r)%string with (String "/" r). rewrite split_on_app_sep.
  exists (split_on "/" r). split; [apply split_on_nonempty|reflexivity].
Qed.
