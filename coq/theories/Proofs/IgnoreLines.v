(* Proofs/IgnoreLines.v — what the marker tests and the regexes of the model see on each kind of rendered line:
   every directive line contains the key word "ignore" exactly once, which pins down every search. *)
From TL Require Import Lib.Base Lib.GenTypes Gen.IgnoreGen Model.PyStr Model.Ignore Model.IgnoreSpec
     Proofs.IgnoreStr Proofs.IgnoreStr2.

(* ---------- the generated literals the proofs rely on (fail when the source changes) ---------- *)
Lemma gen_markers :
  file_marker_needles = ["# thailint: ignore-file"; "# design-lint: ignore-file"; "// thailint: ignore-file"; "// design-lint: ignore-file"] /\
  file_marker_lowered = true /\
  line_marker_needles = ["# thailint: ignore"; "# design-lint: ignore"; "// thailint: ignore"; "// design-lint: ignore"] /\
  line_marker_lowered = true /\
  next_marker_needles = ["# thailint: ignore-next-line"; "# design-lint: ignore-next-line"; "// thailint: ignore-next-line"; "// design-lint: ignore-next-line"] /\
  next_marker_lowered = true /\
  start_marker_comment_prefixes = ["#"; "//"] /\ start_marker_keyword = "ignore-start" /\ start_marker_tags = ["thailint:"; "design-lint:"] /\
  end_marker_comment_prefixes = ["#"; "//"] /\ end_marker_keyword = "ignore-end" /\ end_marker_tags = ["thailint:"; "design-lint:"].
Proof. repeat split; reflexivity. Qed.

Lemma gen_regexes :
  re_file_bracket = ("ignore-file", true) /\ re_file_space = ("ignore-file", true) /\
  re_line_bracket = ("ignore", true) /\ re_line_space = ("ignore", true) /\
  re_start_space = ("ignore-start", false) /\ re_next_bracket = ("ignore-next-line", true) /\
  file_bare_general = true /\ line_bare_suffixes = ["thailint: ignore"; "design-lint: ignore"] /\
  ignore_all_needle = "ignore-all" /\ start_default_rules = ["*"] /\ rm_bracket_sep = "," /\ rm_star_rule = "*" /\ rm_wildcard = "*".
Proof. repeat split; reflexivity. Qed.

Lemma gen_arith :
  header_scan_lines = 10 /\ valid_lo = 0 /\ valid_lo_cmp = CLt /\ valid_hi_cmp = CLe /\
  prev_min = 1 /\ prev_min_cmp = CLe /\ prev_offset = 2 /\
  cur_lo = 0 /\ cur_lo_cmp = CLe /\ cur_hi_cmp = CGt /\ cur_offset = 1 /\ block_end_cmp = None /\ block_first_line = 1.
Proof. repeat split; reflexivity. Qed.

(* ---------- decomposition of a directive line around its key word ---------- *)
Definition directive (l : aline) : bool := match l with LPlain _ => false | _ => true end.

Definition start_tail (br : bool) (n : names) : string :=
  match n with Bare => "" | Names t => if br then "[" ++ t ++ "]" else " " ++ t end.

Definition pre_of (l : aline) : string :=
  match l with
  | LPlain c => c
  | LSame c st _ => c ++ "  " ++ cm st ++ " thailint: "
  | LNext ind st _ | LStart ind st _ _ | LEnd ind st => ind ++ cm st ++ " thailint: "
  | LFile st _ => cm st ++ " thailint: "
  end.

Definition post_of (l : aline) : string :=
  match l with
  | LPlain _ => ""
  | LSame _ _ n => names_br n
  | LNext _ _ n => "-next-line" ++ names_br n
  | LStart _ _ br n => "-start" ++ start_tail br n
  | LEnd _ _ => "-end"
  | LFile _ n => "-file" ++ names_br n
  end.

Lemma render_split l : directive l = true -> render_line l = (pre_of l ++ "ignore" ++ post_of l)%string.
Proof.
  destruct l as [c|c st n|ind st n|ind st br n|ind st|st n]; intro D; try discriminate;
    destruct st; cbn [render_line pre_of post_of cm start_tail append]; rewrite ?sapp_assoc; cbn [append]; try reflexivity.
  all: try (destruct n; reflexivity).
Qed.

Lemma lower_indent ind : indent_ok ind = true -> lower ind = ind.
Proof.
  induction ind as [|c ind IH]; intro H; [reflexivity|].
  cbn [indent_ok all_chars] in H. apply andb_true_iff in H as [Hc H]. cbn [lower]. rewrite (IH H).
  unfold is in Hc. apply orb_true_iff in Hc as [Hc|Hc]; apply Ascii.eqb_eq in Hc; subst c; reflexivity.
Qed.

Lemma K_nonempty : K <> EmptyString.
Proof. discriminate. Qed.

(* the rule-list part contributes no occurrence *)
Lemma count_names_br n : names_ok n = true -> count_occ K (lower (names_br n)) = 0.
Proof.
  destruct n as [|t]; intro H; [reflexivity|].
  cbn [names_ok] in H. apply andb_true_iff in H as [H _]. apply andb_true_iff in H as [H _]. apply andb_true_iff in H as [_ Hk].
  cbn [names_br]. rewrite lower_app. change (lower "[") with "[". rewrite lower_app. change (lower "]") with "]".
  rewrite (count_app_lit K "[" _ K_nonempty eq_refl). change (count_occ K "[") with 0. cbn [plus].
  rewrite (count_sep_end K (lower t) "]" eq_refl K_nonempty). now apply kfree_count.
Qed.

Lemma count_start_tail br n : start_names_ok br n = true -> count_occ K (lower (start_tail br n)) = 0.
Proof.
  intro H. unfold start_names_ok in H. apply andb_true_iff in H as [Hn Hw].
  destruct n as [|t]; [reflexivity|]. destruct br.
  - exact (count_names_br (Names t) Hn).
  - cbn [start_tail]. rewrite lower_app. change (lower " ") with " ".
    rewrite (count_app_lit K " " _ K_nonempty eq_refl). change (count_occ K " ") with 0. cbn [plus].
    cbn [names_ok] in Hn. apply andb_true_iff in Hn as [Hn _]. apply andb_true_iff in Hn as [Hn _]. apply andb_true_iff in Hn as [_ Hk].
    now apply kfree_count.
Qed.

Lemma count_post l : line_ok l = true -> directive l = true -> count_occ K (lower (post_of l)) = 0.
Proof.
  destruct l as [c|c st n|ind st n|ind st br n|ind st|st n]; intros H D; try discriminate; cbn [line_ok post_of] in *.
  - apply andb_true_iff in H as [_ H]. now apply count_names_br.
  - apply andb_true_iff in H as [_ H]. rewrite lower_app. change (lower "-next-line") with "-next-line".
    rewrite (count_app_lit K "-next-line" _ K_nonempty eq_refl). change (count_occ K "-next-line") with 0. cbn [plus].
    now apply count_names_br.
  - apply andb_true_iff in H as [_ H]. rewrite lower_app. change (lower "-start") with "-start".
    rewrite (count_app_lit K "-start" _ K_nonempty eq_refl). change (count_occ K "-start") with 0. cbn [plus].
    now apply count_start_tail.
  - reflexivity.
  - rewrite lower_app. change (lower "-file") with "-file".
    rewrite (count_app_lit K "-file" _ K_nonempty eq_refl). change (count_occ K "-file") with 0. cbn [plus].
    now apply count_names_br.
Qed.

(* the part before the key word contributes none either, and nothing straddles into the key word *)
Lemma count_pre_K l X : line_ok l = true -> directive l = true ->
  count_occ K (lower (pre_of l) ++ K ++ X) = 1 + count_occ K X.
Proof.
  assert (Hash : forall X, count_occ K ("# thailint: " ++ K ++ X) = 1 + count_occ K X).
  { intro Y. change ("# thailint: " ++ K ++ Y)%string with ("# thailint: ignore" ++ Y)%string.
    now rewrite (count_app_lit K "# thailint: ignore" Y K_nonempty eq_refl). }
  assert (Sl : forall X, count_occ K ("// thailint: " ++ K ++ X) = 1 + count_occ K X).
  { intro Y. change ("// thailint: " ++ K ++ Y)%string with ("// thailint: ignore" ++ Y)%string.
    now rewrite (count_app_lit K "// thailint: ignore" Y K_nonempty eq_refl). }
  destruct l as [c|c st n|ind st n|ind st br n|ind st|st n]; intros H D; try discriminate; cbn [line_ok pre_of] in *.
  - apply andb_true_iff in H as [Hc _]. unfold code_ok in Hc. apply andb_true_iff in Hc as [Hk _].
    rewrite lower_app, sapp_assoc.
    destruct st; cbn [cm].
    + change (lower ("  " ++ "#" ++ " thailint: ") ++ K ++ X)%string with (String " " (" # thailint: ignore" ++ X)).
      rewrite (count_sep K (lower c) " " _ eq_refl K_nonempty), (kfree_count c Hk). cbn [plus].
      now rewrite (count_app_lit K " # thailint: ignore" X K_nonempty eq_refl).
    + change (lower ("  " ++ "//" ++ " thailint: ") ++ K ++ X)%string with (String " " (" // thailint: ignore" ++ X)).
      rewrite (count_sep K (lower c) " " _ eq_refl K_nonempty), (kfree_count c Hk). cbn [plus].
      now rewrite (count_app_lit K " // thailint: ignore" X K_nonempty eq_refl).
  - apply andb_true_iff in H as [Hi _]. rewrite lower_app, (lower_indent ind Hi), sapp_assoc, (count_indent ind _ Hi).
    destruct st; [apply Hash|apply Sl].
  - apply andb_true_iff in H as [Hi _]. rewrite lower_app, (lower_indent ind Hi), sapp_assoc, (count_indent ind _ Hi).
    destruct st; [apply Hash|apply Sl].
  - rewrite lower_app, (lower_indent ind H), sapp_assoc, (count_indent ind _ H).
    destruct st; [apply Hash|apply Sl].
  - destruct st; [apply Hash|apply Sl].
Qed.

Lemma once l : line_ok l = true -> directive l = true ->
  count_occ K (lower (pre_of l) ++ K ++ lower (post_of l)) = 1.
Proof. intros H D. rewrite (count_pre_K l _ H D), (count_post l H D). reflexivity. Qed.

Lemma lower_render l : directive l = true ->
  lower (render_line l) = (lower (pre_of l) ++ K ++ lower (post_of l))%string.
Proof. intro D. rewrite (render_split l D), !lower_app. reflexivity. Qed.

(* ---------- needles ---------- *)
(* a needle x ++ "ignore" ++ y is absent from a directive line unless y continues the line after its key word *)
Lemma needle_absent l x y : line_ok l = true -> directive l = true ->
  prefixb y (lower (post_of l)) = false -> containsb (x ++ K ++ y) (lower (render_line l)) = false.
Proof. intros H D Hy. rewrite (lower_render l D). apply unique_occ_none; [now apply once|exact Hy]. Qed.

(* a needle is present when the line continues with it right at its key word *)
Lemma needle_present l x y : directive l = true ->
  suffixb x (lower (pre_of l)) = true -> prefixb y (lower (post_of l)) = true ->
  containsb (x ++ K ++ y) (lower (render_line l)) = true.
Proof.
  intros D Hx Hy. rewrite (lower_render l D).
  unfold suffixb in Hx.
  (* pre = p0 ++ x *)
  assert (E : exists p0, lower (pre_of l) = (p0 ++ x)%string).
  { set (p := lower (pre_of l)) in *. clearbody p.
    exists (srev (sdrop (String.length (srev x)) (srev p))).
    rewrite <- (srev_involutive x) at 2. rewrite <- srev_app_distr.
    rewrite <- (srev_involutive p) at 1. f_equal.
    rewrite <- (stake_sdrop (String.length (srev x)) (srev p)) at 1. f_equal.
    revert Hx. generalize (srev x) as a, (srev p) as b. clear.
    induction a as [|c a IH]; intros b H; [reflexivity|].
    destruct b as [|d b]; cbn [prefixb] in H; [discriminate|]. apply andb_true_iff in H as [E H].
    apply Ascii.eqb_eq in E. subst d. cbn [String.length stake]. now rewrite (IH b H). }
  destruct E as [p0 E]. rewrite E, sapp_assoc. apply containsb_app_r. apply containsb_prefix.
  assert (Q : exists q0, lower (post_of l) = (y ++ q0)%string).
  { set (q := lower (post_of l)) in *. clearbody q. exists (sdrop (String.length y) q).
    rewrite <- (stake_sdrop (String.length y) q) at 1. f_equal.
    revert Hy. generalize y as a, q as b. clear.
    induction a as [|c a IH]; intros b H; [reflexivity|].
    destruct b as [|d b]; cbn [prefixb] in H; [discriminate|]. apply andb_true_iff in H as [E H].
    apply Ascii.eqb_eq in E. subst d. cbn [String.length stake]. now rewrite (IH b H). }
  destruct Q as [q0 Q]. rewrite Q.
  rewrite <- !sapp_assoc. apply prefixb_app.
Qed.

(* plain code lines carry no needle at all *)
Lemma plain_no_needle c x y : kfree c = true -> containsb (x ++ K ++ y) (lower c) = false.
Proof. unfold kfree. intro H. apply negb_true_iff in H. now apply containsb_false_sub. Qed.
