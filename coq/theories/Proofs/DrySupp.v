(* Proofs/DrySupp.v — stage C (suppression): dry.ignore path patterns, `# dry: ignore-block` / `ignore-next`,
   thailint ignore-file / ignore / ignore-next-line / ignore-start..ignore-end (fixed spellings, Model/DryPipe.v).
   (1) the constants read from the source equal the reference; hence dry_final = ref_final where dry_model = ref_report;
   (2) the clauses of the property with its exception: what is reported stays sound and exactly counted, nothing
       suppressed is reported, and every named location / every place of a reportable block is covered by a reported
       violation UNLESS it is suppressed (a stored window meeting it is suppressed);
   (3) what each directive form silences; no directive and no pattern => nothing is removed;
   (4) the executable clauses used by the judge are sound checkers. *)
From TL Require Import Lib.Base Lib.GenTypes Model.DryBase Model.DryPipe Gen.DryGen Model.Dry Model.DrySpec
     Proofs.DryGreedy Proofs.DryStageB Proofs.DryStageA Proofs.DryMain Proofs.DryOracle.

(* ------------------------------------------------------------------ (1) Gen facts *)
Lemma gen_suppression :
  dry_ignore_block_off = 1 /\ dry_ignore_block_len = 10 /\ dry_ignore_next_off = 1 /\ dry_header_scan_lines = 10
  /\ (forall line e s1 e1, dry_range_overlap line e s1 e1 = (line <=? e1) && (s1 <=? e))
  /\ (forall s c, dry_inline_end s c = s + c - 1)
  /\ dry_ignore_block_re = "#\s*dry:\s*ignore-block" /\ dry_ignore_next_re = "#\s*dry:\s*ignore-next".
Proof. repeat split; reflexivity. Qed.

Lemma model_suppressed_eq pats paths files fi line count :
  suppressed model_sparams pats paths files fi line count = ref_suppressed pats paths files fi line count.
Proof. reflexivity. Qed.

Lemma model_unsuppressed_eq pats paths files R : unsuppressed model_sparams pats paths files R = unsuppressed ref_sparams pats paths files R.
Proof. reflexivity. Qed.

Theorem final_eq_ref q W k pats paths files : lines_ok q files -> dry_final q W k pats paths files = ref_final W k pats paths files.
Proof. intros Hl. unfold dry_final, ref_final. rewrite (model_eq_ref q W k files Hl). apply model_unsuppressed_eq. Qed.

(* ------------------------------------------------------------------ (2) clauses *)
Lemma unsuppressed_in S pats paths files R v :
  In v (unsuppressed S pats paths files R) <-> In v R /\ v_suppressed S pats paths files v = false.
Proof. unfold unsuppressed. rewrite filter_In, negb_true_iff. reflexivity. Qed.

Lemma sound_subset files W R R' : (forall v, In v R' -> In v R) -> sound files W R -> sound files W R'.
Proof. intros Hsub H v Hv. exact (H v (Hsub v Hv)). Qed.

Section Supp.
  Variables (k : nat) (rows : list row) (pats paths : list string) (files : list afile).
  Hypothesis Hok : rows_ok rows.
  Hypothesis Hk : 2 <= k.
  Let R0 := report ref_bparams k rows.
  Let R := unsuppressed ref_sparams pats paths files R0.

  (* a violation of the unsuppressed report is a stored row; suppressing the violation = suppressing the row *)
  Lemma touching_reported_or_excused f s e v' : In v' R0 -> touches f s e v' = true ->
    covered R f s e \/ excused pats paths files rows f s e.
  Proof.
    intros Hv' Ht. destruct (v_suppressed ref_sparams pats paths files v') eqn:Es.
    - right. destruct (report_origin k rows v' Hv') as [b [Hbr [_ [Ev _]]]].
      pose proof (ro_range _ Hok b Hbr) as Hrange.
      exists b. split; [exact Hbr|]. subst v'. unfold touches, v_end in Ht. unfold v_suppressed in Es.
      cbn [mk_viol v_file v_line v_count p_line_count ref_bparams] in Ht, Es.
      split; [|exact Es].
      unfold row_meets. rewrite !andb_true_iff, Nat.eqb_eq, !Nat.leb_le in *. lia.
    - left. exists v'. split; [|exact Ht]. apply unsuppressed_in. split; assumption.
  Qed.

  Theorem supp_mutual : mutual_s pats paths files rows R.
  Proof.
    intros v Hv f s e Hin. apply unsuppressed_in in Hv. destruct Hv as [Hv _].
    destruct (report_mutual k rows Hok Hk v Hv f s e Hin) as [v' [Hv' Ht]].
    exact (touching_reported_or_excused f s e v' Hv' Ht).
  Qed.

  Theorem supp_complete : complete_s pats paths files rows k R.
  Proof.
    intros s ps Hps Hlen r Hr Hs.
    destruct (report_complete k rows Hok Hk s ps Hps Hlen r Hr Hs) as [p [H1 [H2 [H3 [H4 [H5 [v' [Hv' Ht]]]]]]]].
    exists p. repeat split; try assumption. exact (touching_reported_or_excused _ _ _ v' Hv' Ht).
  Qed.

  Theorem supp_count : forall v, In v R -> count_ok rows v.
  Proof. intros v Hv. apply unsuppressed_in in Hv. exact (report_count k rows Hok Hk v (proj1 Hv)). Qed.

  Theorem supp_silent : silent pats paths files R.
  Proof. intros v Hv. apply unsuppressed_in in Hv. exact (proj2 Hv). Qed.

  Theorem supp_subset : forall v, In v R -> In v R0.
  Proof. intros v Hv. apply unsuppressed_in in Hv. exact (proj1 Hv). Qed.
End Supp.

(* the whole property, for the reference and (through final_eq_ref) for the model built from the source *)
Theorem ref_final_property W k pats paths files : 1 <= W -> 2 <= k ->
  let R := ref_final W k pats paths files in
  sound files W R /\ mutual_s pats paths files (ref_rows W files) R /\ complete_s pats paths files (ref_rows W files) k R
  /\ (forall v, In v R -> count_ok (ref_rows W files) v) /\ silent pats paths files R.
Proof.
  intros HW Hk. cbn zeta. unfold ref_final, ref_report, pipeline. fold (ref_rows W files).
  pose proof (ref_rows_ok W files HW) as Hok.
  split; [|split; [exact (supp_mutual k _ pats paths files Hok Hk)|split; [exact (supp_complete k _ pats paths files Hok Hk)|
           split; [exact (supp_count k _ pats paths files Hok Hk)|exact (supp_silent k _ pats paths files)]]]].
  apply (sound_subset files W (ref_report W k files)); [|exact (ref_sound W k files HW Hk)].
  intros v Hv. exact (supp_subset k _ pats paths files v Hv).
Qed.

Theorem dry_final_property q W k pats paths files : 1 <= W -> 2 <= k -> lines_ok q files ->
  let R := dry_final q W k pats paths files in
  sound files W R /\ mutual_s pats paths files (ref_rows W files) R /\ complete_s pats paths files (ref_rows W files) k R
  /\ (forall v, In v R -> count_ok (ref_rows W files) v) /\ silent pats paths files R.
Proof. intros HW Hk Hl. cbn zeta. rewrite (final_eq_ref q W k pats paths files Hl). exact (ref_final_property W k pats paths files HW Hk). Qed.

(* ------------------------------------------------------------------ (3) what the directives do *)
Lemma dirs_in_file_suppress f line count d :
  In d (file_dirs f) -> dir_suppresses ref_sparams (total_lines f) line count d = true ->
  suppressed_in_file ref_sparams f line count = true.
Proof.
  intros Hd Hs. unfold suppressed_in_file. apply orb_true_iff. left. apply existsb_exists. exists d. split; assumption.
Qed.

(* `thailint: ignore-file dry` within the first 10 lines silences the whole file *)
Theorem ignore_file_silences f i e line count : In (i, KFile, e) (file_dirs f) -> i <= 10 ->
  suppressed_in_file ref_sparams f line count = true.
Proof. intros Hd Hi. apply (dirs_in_file_suppress f line count _ Hd). cbn. apply Nat.leb_le. exact Hi. Qed.

(* `thailint: ignore dry` on the violation's first line *)
Theorem ignore_line_silences f e line count : In (line, KLine, e) (file_dirs f) -> suppressed_in_file ref_sparams f line count = true.
Proof. intros Hd. apply (dirs_in_file_suppress f line count _ Hd). cbn. apply Nat.eqb_refl. Qed.

(* `thailint: ignore-next-line[dry]` on the line before the violation's first line *)
Theorem ignore_next_line_silences f e line count : 1 < line -> In (line - 1, KNextLine, e) (file_dirs f) ->
  suppressed_in_file ref_sparams f line count = true.
Proof.
  intros Hl Hd. apply (dirs_in_file_suppress f line count _ Hd). cbn [dir_suppresses].
  apply andb_true_iff. split; [apply Nat.ltb_lt; exact Hl|apply Nat.eqb_refl].
Qed.

(* `# dry: ignore-block` at line i silences every violation whose block meets lines i+1 .. min(i+10, total) *)
Theorem dry_block_silences f i e line count : In (i, KDryBlock, e) (file_dirs f) ->
  line <= Nat.min (i + 10) (total_lines f) -> i + 1 <= line + count - 1 ->
  suppressed_in_file ref_sparams f line count = true.
Proof.
  intros Hd H1 H2. apply (dirs_in_file_suppress f line count _ Hd). cbn [dir_suppresses ref_sparams s_range_overlap s_viol_end s_block_off s_block_len].
  apply andb_true_iff. split; apply Nat.leb_le; assumption.
Qed.

(* a dry.ignore pattern contained in the path silences the file *)
Theorem pattern_silences pats paths files fi line count p :
  In p pats -> str_contains p (nth fi paths "") = true -> ref_suppressed pats paths files fi line count = true.
Proof.
  intros Hp Hc. unfold ref_suppressed, suppressed. apply orb_true_iff. left. unfold path_ignored. apply existsb_exists. exists p. split; assumption.
Qed.

(* no pattern and no directive line anywhere: nothing is removed *)
Lemma in_block_nil line st : in_block line st [] = st.
Proof. reflexivity. Qed.

Theorem no_suppression paths files R :
  (forall f, In f files -> file_dirs f = []) -> unsuppressed ref_sparams [] paths files R = R.
Proof.
  intros Hnone. unfold unsuppressed. apply filter_all. intros v _. apply negb_true_iff.
  unfold v_suppressed, suppressed. cbn [path_ignored existsb orb]. unfold suppressed_in_file.
  set (f := nth (v_file v) files {| f_lang := DPy; f_lines := [] |}).
  assert (Hf : file_dirs f = []).
  { destruct (nth_in_or_default (v_file v) files {| f_lang := DPy; f_lines := [] |}) as [Hin|Hd]; [exact (Hnone _ Hin)|].
    unfold f. rewrite Hd. reflexivity. }
  rewrite Hf. reflexivity.
Qed.

(* ------------------------------------------------------------------ (4) the executable clauses are sound checkers *)
Lemma excused_b_excused pats paths files rows f s e : excused_b pats paths files rows f s e = true -> excused pats paths files rows f s e.
Proof.
  unfold excused_b, excused. rewrite existsb_exists. intros [r [Hr H]]. exists r. split; [exact Hr|].
  destruct (row_meets f s e r); [split; [reflexivity|exact H]|discriminate].
Qed.

Theorem mutual_sb_sound pats paths files rows R : mutual_sb pats paths files rows R = true -> mutual_s pats paths files rows R.
Proof.
  intros H v Hv f s e Hin. unfold mutual_sb in H. rewrite forallb_forall in H. specialize (H v Hv).
  rewrite forallb_forall in H. specialize (H (f, s, e) Hin). cbn beta iota in H.
  destruct (covered_b R f s e) eqn:Ec; [left; apply covered_b_covered; exact Ec|right; apply excused_b_excused; exact H].
Qed.

Theorem silent_b_sound pats paths files R : silent_b pats paths files R = true -> silent pats paths files R.
Proof. intros H v Hv. unfold silent_b in H. rewrite forallb_forall in H. apply negb_true_iff. exact (H v Hv). Qed.

Theorem complete_sb_sound pats paths files rows k R : rows_ok rows -> 2 <= k ->
  complete_sb pats paths files rows k R = true -> complete_s pats paths files rows k R.
Proof.
  intros Hok Hk H s ps Hps Hlen r Hr Hs.
  pose proof (places_optimal s rows ps Hok Hps) as Hopt.
  destruct (places_dom s rows r Hok Hr Hs) as [p [Hp [Hf [H1 H2]]]].
  destruct (places_incl s rows p Hp) as [Hpr Hpss].
  assert (Hdup : In s (dup_snips ref_bparams rows)).
  { apply dup_snips_in. split; [exists r; auto|]. destruct Hps as [Hnd [Hocc _]].
    unfold snip_count. apply (Nat.le_trans _ (List.length ps)); [lia|].
    apply NoDup_incl_length; [exact Hnd|]. intros x Hx. apply blocks_of_in. exact (Hocc x Hx). }
  unfold complete_sb in H. rewrite forallb_forall in H. specialize (H s Hdup). cbn zeta in H.
  destruct (k <=? List.length (places ref_bparams s rows)) eqn:Ek; [|apply Nat.leb_gt in Ek; lia].
  rewrite forallb_forall in H. specialize (H p Hp).
  exists p. repeat split; [exact Hpr|exact Hpss|exact Hf| |exact H2|].
  - pose proof (ro_range _ Hok r Hr). lia.
  - destruct (covered_b R (r_file p) (r_start p) (r_end p)) eqn:Ec; [left; apply covered_b_covered; exact Ec|right; apply excused_b_excused; exact H].
Qed.
