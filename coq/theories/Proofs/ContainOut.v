(* Proofs/ContainOut.v — the output stage of a linter command (C11): exit status 0 / 1 exactly when every formatter
   operation is defined on every field; which field types each --format needs; the SARIF region; the tie to the
   containment model's exit_code; the generated censuses (exit sites, SyntaxError position attributes). *)
From TL Require Import Lib.Base Lib.GenTypes Model.ContainTypes Gen.ContainGen Gen.ContainOutGen Model.Contain Model.ContainOut.
Require Import ZArith Lia.

(* ---------------------------------------------------------------- facts about the generated tables (by computation) *)
Lemma cli_error_exit_not_01 : cli_error_exit <> 0 /\ cli_error_exit <> 1.
Proof. vm_compute. split; discriminate. Qed.

(* what each formatter needs, read off output_uses *)
Lemma sarif_ok_eq : forall v,
  fmt_ok "sarif" v = is_str (o_rule v) && is_str (o_msg v) && negb (is_enum (o_line v)) && is_int (o_col v).
Proof. intros [r f l c m s g]. destruct r, l, c, m; reflexivity. Qed.

Lemma json_ok_eq : forall v,
  fmt_ok "json" v = negb (is_enum (o_rule v)) && negb (is_enum (o_line v)) && negb (is_enum (o_col v)) && is_str (o_msg v) && is_enum (o_sev v).
Proof. intros [r f l c m s g]. destruct r, l, c, m, s; reflexivity. Qed.

Lemma text_ok_eq : forall v, fmt_ok "text" v = is_str (o_msg v) && is_enum (o_sev v).
Proof. intros [r f l c m s g]. destruct m, s; reflexivity. Qed.

(* format_violations sends every format name to one of the three formatters *)
Lemma fmt_ok_cases : forall fmt v, fmt_ok fmt v = fmt_ok "json" v \/ fmt_ok fmt v = fmt_ok "sarif" v \/ fmt_ok fmt v = fmt_ok "text" v.
Proof.
  intros fmt v. unfold fmt_ok, uses_of, formatter_of. cbn [output_dispatch find fst snd].
  destruct (String.eqb fmt "json") eqn:Ej.
  - left. reflexivity.
  - destruct (String.eqb fmt "sarif") eqn:Es.
    + right; left. reflexivity.
    + right; right. reflexivity.
Qed.

Lemma well_typed_ok : forall fmt v, well_typed v = true -> fmt_ok fmt v = true.
Proof.
  intros fmt v H. unfold well_typed in H.
  repeat (apply andb_true_iff in H; destruct H as [H ?]).
  destruct (fmt_ok_cases fmt v) as [E | [E | E]]; rewrite E.
  - rewrite json_ok_eq. destruct (o_rule v), (o_line v), (o_col v), (o_msg v), (o_sev v); try discriminate; reflexivity.
  - rewrite sarif_ok_eq. destruct (o_rule v), (o_line v), (o_col v), (o_msg v); try discriminate; reflexivity.
  - rewrite text_ok_eq. destruct (o_msg v), (o_sev v); try discriminate; reflexivity.
Qed.

(* ---------------------------------------------------------------- exit status of the output stage *)
Definition exit_ok (n : nat) : Prop := n = 0 \/ n = 1.

Theorem out_exit_ok_iff : forall fmt vs, exit_ok (out_exit fmt vs) <-> (forall v, In v vs -> fmt_ok fmt v = true).
Proof.
  intros fmt vs. unfold out_exit, exit_ok. destruct (forallb (fmt_ok fmt) vs) eqn:E.
  - split; intros _.
    + apply forallb_forall. exact E.
    + destruct vs; [left | right]; reflexivity.
  - split.
    + intros [H | H]; exfalso; destruct cli_error_exit_not_01 as [A B]; [apply A | apply B]; exact H.
    + intros H. apply forallb_forall in H. rewrite H in E. discriminate.
Qed.

(* one ill-typed field anywhere costs the whole run: the exit status is the CLI error status whatever the other violations are *)
Theorem out_exit_one_bad_field : forall fmt vs v, In v vs -> fmt_ok fmt v = false -> out_exit fmt vs = cli_error_exit.
Proof.
  intros fmt vs v Hin Hbad. unfold out_exit. destruct (forallb (fmt_ok fmt) vs) eqn:E; [| reflexivity].
  rewrite forallb_forall in E. rewrite (E v Hin) in Hbad. discriminate.
Qed.

(* with well-typed fields every format ends with 0 (nothing reported) or 1 *)
Theorem out_exit_typed : forall fmt vs, (forall v, In v vs -> well_typed v = true) ->
  out_exit fmt vs = match vs with [] => 0 | _ => 1 end.
Proof.
  intros fmt vs H. unfold out_exit.
  assert (E : forallb (fmt_ok fmt) vs = true).
  { apply forallb_forall. intros v Hin. apply well_typed_ok. apply H. exact Hin. }
  rewrite E. reflexivity.
Qed.

(* exit status 0 / 1 REQUIRES the field types, per format *)
Theorem sarif_exit_requires : forall vs, exit_ok (out_exit "sarif" vs) ->
  forall v, In v vs -> is_str (o_rule v) = true /\ is_str (o_msg v) = true /\ is_int (o_col v) = true /\ is_enum (o_line v) = false.
Proof.
  intros vs H v Hin. apply out_exit_ok_iff with (v := v) in H; [| exact Hin]. rewrite sarif_ok_eq in H.
  repeat (apply andb_true_iff in H; destruct H as [H ?]).
  repeat split; try assumption. apply negb_true_iff. assumption.
Qed.

Theorem json_exit_requires : forall vs, exit_ok (out_exit "json" vs) ->
  forall v, In v vs -> is_str (o_msg v) = true /\ is_enum (o_sev v) = true /\ is_enum (o_rule v) = false /\ is_enum (o_line v) = false /\ is_enum (o_col v) = false.
Proof.
  intros vs H v Hin. apply out_exit_ok_iff with (v := v) in H; [| exact Hin]. rewrite json_ok_eq in H.
  repeat (apply andb_true_iff in H; destruct H as [H ?]).
  repeat split; try assumption; apply negb_true_iff; assumption.
Qed.

Theorem text_exit_requires : forall vs, exit_ok (out_exit "text" vs) ->
  forall v, In v vs -> is_str (o_msg v) = true /\ is_enum (o_sev v) = true.
Proof.
  intros vs H v Hin. apply out_exit_ok_iff with (v := v) in H; [| exact Hin]. rewrite text_ok_eq in H.
  apply andb_true_iff in H. exact H.
Qed.

(* all three formats end with 0 / 1 exactly when rule id and message are strings, the column an int, the severity an enum member
   and the line something json.dumps accepts *)
Definition fields_needed (v : oviol) : bool :=
  is_str (o_rule v) && is_str (o_msg v) && is_int (o_col v) && is_enum (o_sev v) && negb (is_enum (o_line v)).

Theorem all_formats_exit_ok_iff : forall vs,
  (forall fmt, exit_ok (out_exit fmt vs)) <-> (forall v, In v vs -> fields_needed v = true).
Proof.
  intros vs. split.
  - intros H v Hin.
    destruct (sarif_exit_requires vs (H "sarif") v Hin) as (A & B & C & D).
    destruct (text_exit_requires vs (H "text") v Hin) as (_ & E).
    unfold fields_needed. rewrite A, B, C, D, E. reflexivity.
  - intros H fmt. apply out_exit_ok_iff. intros v Hin. specialize (H v Hin). unfold fields_needed in H.
    repeat (apply andb_true_iff in H; destruct H as [H ?]).
    destruct (fmt_ok_cases fmt v) as [E | [E | E]]; rewrite E.
    + rewrite json_ok_eq. destruct (o_rule v), (o_line v), (o_col v), (o_msg v), (o_sev v); try discriminate; reflexivity.
    + rewrite sarif_ok_eq. destruct (o_rule v), (o_line v), (o_col v), (o_msg v); try discriminate; reflexivity.
    + rewrite text_ok_eq. destruct (o_msg v), (o_sev v); try discriminate; reflexivity.
Qed.

(* ---------------------------------------------------------------- the SARIF region *)
Lemma sarif_col_shift_eq : sarif_col_shift = 1.
Proof. reflexivity. Qed.

(* for a well-typed violation the region is valid SARIF exactly when the line is 1-based and the column 0-based *)
Theorem sarif_region_valid_iff : forall v l c, well_typed v = true -> o_line v = PInt l -> o_col v = PInt c ->
  exists r, sarif_region v = Some r /\ (region_valid r = true <-> (1 <= l /\ 0 <= c)%Z).
Proof.
  intros v l c Hw Hl Hc. unfold sarif_region. rewrite (well_typed_ok "sarif" v Hw). rewrite Hl, Hc, sarif_col_shift_eq.
  eexists. split; [reflexivity |]. cbn [region_valid]. rewrite andb_true_iff, !Z.leb_le. cbn. lia.
Qed.

(* a line of None passes the formatter (exit status 1) but the document is not valid SARIF: the exit status alone says nothing
   about the well-formedness of the document *)
Theorem sarif_none_line_passes_but_invalid : forall v, o_line v = PNone -> fmt_ok "sarif" v = true ->
  exists r, sarif_region v = Some r /\ region_valid r = false.
Proof.
  intros v Hl Hok. unfold sarif_region. rewrite Hok, Hl. eexists. split; reflexivity.
Qed.

(* ---------------------------------------------------------------- the command as a whole *)
Lemma map_nil_iff : forall (A B : Type) (f : A -> B) l, map f l = [] <-> l = [].
Proof. intros A B f [| a l]; cbn; split; intros H; try reflexivity; discriminate. Qed.

Lemma rend_typed_well_typed : forall v, well_typed (rend_typed v) = true.
Proof. intros [[r f] l]. reflexivity. Qed.

(* the exit status the containment theorems talk about is the status of the whole command PROVIDED every reported violation has
   well-typed fields *)
Theorem cli_exit_typed_is_exit_code : forall fmt rend r,
  (forall v, well_typed (rend v) = true) -> cli_exit fmt rend r = exit_code r.
Proof.
  intros fmt rend [cs fs | e] H; cbn [cli_exit exit_code]; [| reflexivity].
  rewrite out_exit_typed.
  - destruct (flat_viols cs fs); reflexivity.
  - intros v Hin. apply in_map_iff in Hin. destruct Hin as (x & <- & _). apply H.
Qed.

Theorem cli_exit_ok_iff : forall fmt rend r,
  exit_ok (cli_exit fmt rend r) <->
  exists cs fs, r = Completed cs fs /\ forall v, In v (flat_viols cs fs) -> fmt_ok fmt (rend v) = true.
Proof.
  intros fmt rend [cs fs | e]; cbn [cli_exit].
  - rewrite out_exit_ok_iff. split.
    + intros H. exists cs, fs. split; [reflexivity |]. intros v Hin. apply H. apply in_map. exact Hin.
    + intros (cs' & fs' & E & H). injection E as <- <-. intros v Hin. apply in_map_iff in Hin. destruct Hin as (x & <- & Hx). apply H. exact Hx.
  - split.
    + intros [H | H]; exfalso; destruct cli_error_exit_not_01 as [A B]; [apply A | apply B]; exact H.
    + intros (cs & fs & E & _). discriminate.
Qed.

(* ---------------------------------------------------------------- censuses *)
(* every call of format_violations in src/cli/linters is directly followed by sys.exit(1 if <the same list> else 0) *)
Theorem output_exit_sites_uniform : forallb (fun s : string * bool => snd s) output_exit_sites = true /\ 15 <= List.length output_exit_sites.
Proof. split; [vm_compute; reflexivity | vm_compute; repeat constructor]. Qed.

(* every position attribute of a caught SyntaxError (None for an error without position: NUL byte in the source) is defaulted
   with `or <int>` before it becomes a field of a Violation *)
Theorem syntax_error_fields_defaulted : forallb (fun s : string * bool => snd s) syntax_error_fields = true /\ 1 <= List.length syntax_error_fields.
Proof. split; [vm_compute; reflexivity | vm_compute; repeat constructor]. Qed.
