(* Proofs/OrchParDict.v — Violation.from_dict (Violation.to_dict v) = v, field by field, for every
   Violation object; the key / field / transformation tables are the generated ones, so a changed key,
   a dropped or swapped field in src/core/types.py breaks these proofs. *)
From TL Require Import Lib.Base Lib.GenTypes Model.OrchParTypes Gen.OrchParGen Model.OrchPar.

Lemma list_eqb_string_eq (a b : list string) : list_eqb String.eqb a b = true -> a = b.
Proof.
  revert b. induction a as [|x xs IH]; intros [|y ys] H; cbn [list_eqb] in H; try discriminate H; [reflexivity|].
  apply andb_prop in H as [H1 H2]. apply String.eqb_eq in H1. subst y. f_equal. exact (IH _ H2).
Qed.

(* the shape of the tables this development was written for (fails when the source changes them) *)
Lemma dict_tables_facts :
  map fst to_dict_spec = map fst violation_fields
  /\ map fst from_dict_spec = map fst violation_fields
  /\ map (fun r : string * (string * vtrans) => fst (snd r)) to_dict_spec = map fst violation_fields
  /\ map (fun r : string * (string * daccess * vtrans) => fst (fst (snd r))) from_dict_spec = map fst to_dict_spec.
Proof. repeat split; reflexivity. Qed.

Ltac peel_fields Hk v :=
  repeat (let k := fresh "k" in let x := fresh "x" in
          destruct v as [|[k x] v]; cbn [map fst] in Hk; [discriminate Hk|];
          injection Hk as -> Hk);
  destruct v; [clear Hk|discriminate Hk].

Ltac enum_cases He :=
  repeat match type of He with
         | (match ?x with _ => _ end && _) = true => destruct x; try discriminate He
         | (match ?x with _ => _ end) = true => destruct x; try discriminate He
         | (_ && _) = true => let H1 := fresh "He" in apply andb_prop in He as [H1 He]
         end.

(* 1. the round trip across the process boundary is the identity on Violation objects *)
Theorem dict_roundtrip v : wf_violation v = true -> roundtrip v = Some v.
Proof.
  intros H. unfold wf_violation in H. apply andb_prop in H as [Hk He].
  apply list_eqb_string_eq in Hk. cbv [violation_fields map fst] in Hk.
  peel_fields Hk v.
  cbv [forallb] in He.
  repeat match type of He with
         | (?a && ?b) = true => let H1 := fresh "Hf" in apply andb_prop in He as [H1 He]
         end.
  clear He.
  repeat match goal with
         | Hf : enum_field_ok (_, ?x) = true |- _ =>
           unfold enum_field_ok in Hf; cbn [fst snd] in Hf;
           match type of Hf with
           | context [assoc ?k ?l] => let r := eval vm_compute in (assoc k l) in change (assoc k l) with r in Hf
           end;
           cbv iota beta in Hf;
           match type of Hf with
           | true = true => clear Hf
           | _ =>
             destruct x; try discriminate Hf;
             let Hc := fresh "Hc" in let Hm := fresh "Hm" in
             apply andb_prop in Hf as [Hc Hm];
             apply String.eqb_eq in Hc; subst;
             apply existsb_exists in Hm as [? [Hm ?E]];
             apply String.eqb_eq in E; subst;
             cbv [map fst severity_members] in Hm; cbn [In] in Hm
           end
         end.
  repeat match goal with
         | Hm : _ \/ _ |- _ => destruct Hm as [<-|Hm]
         | Hm : False |- _ => contradiction
         end.
  all: vm_compute; reflexivity.
Qed.

(* field by field: every attribute of the reconstructed object is the attribute of the original *)
Corollary dict_roundtrip_fields v v' f :
  wf_violation v = true -> roundtrip v = Some v' -> assoc f v' = assoc f v.
Proof. intros H R. rewrite (dict_roundtrip v H) in R. injection R as <-. reflexivity. Qed.

(* the two halves, as used by the orchestrator proofs *)
Lemma roundtrip_split v : wf_violation v = true -> exists d, to_dict v = Some d /\ from_dict d = Some v.
Proof.
  intros H. pose proof (dict_roundtrip v H) as R. unfold roundtrip in R.
  destruct (to_dict v) as [d|]; [|discriminate R]. exists d. split; [reflexivity|exact R].
Qed.

Example wf_example :
  wf_violation [("rule_id", VStr "dry.duplicate-code"); ("file_path", VPath "src/a.py"); ("line", VInt false 3);
                ("column", VInt false 0); ("message", VStr "Duplicate code"); ("severity", VEnum "Severity" "ERROR");
                ("suggestion", VNone)] = true.
Proof. reflexivity. Qed.
