(* Proofs/EditIgnore.v — C13, suppression decisions under line insertion and replacement of directive-free lines.
   The model is Model/Ignore.v (the shared parser of src/linter_config/ignore.py, every literal from Gen/IgnoreGen.v),
   for EVERY quirk vector q, in particular the one claimed for the current tree.

   A line is directive-free when it does not contain the word "ignore" in any letter case (kfree); every marker of
   the generated layer contains that word (`keyed`, checked by computation), so such a line carries no directive. *)
From TL Require Import Lib.Base Lib.GenTypes Gen.IgnoreGen Model.PyStr Model.Ignore Model.IgnoreSpec Model.IgnoreRun
     Proofs.IgnoreStr Proofs.IgnoreStr2 Proofs.IgnoreLines Proofs.IgnoreCor Model.Edit Proofs.EditList.

Lemma keyed_true : keyed = true.
Proof. vm_compute. reflexivity. Qed.

Definition inert_pline (l : string) : pline := {| pl_text := l; pl_block := BOther; pl_next := false; pl_line := false |}.

Lemma prepare_inert q l : kfree l = true -> prepare q l = inert_pline l.
Proof.
  intro H. rewrite <- prepare_fast_eq. unfold prepare_fast, maybe_directive. rewrite keyed_true.
  unfold kfree in H. apply negb_true_iff in H. rewrite H. reflexivity.
Qed.

Lemma not_candidate q l : kfree l = true -> has_ignore_directive_marker q l = false.
Proof.
  intro H. unfold kfree in H. apply negb_true_iff in H.
  destruct (keyed_parts keyed_true) as (K1 & K2 & _).
  unfold has_ignore_directive_marker. destruct (q_file_hash_only q); now apply marker_needs_key.
Qed.

Lemma no_next_marker q l : kfree l = true -> has_ignore_next_line_marker q l = false.
Proof. intro H. pose proof (prepare_inert q l H) as P. apply (f_equal pl_next) in P. exact P. Qed.

(* ---------- admissibility of an insertion point ---------- *)
(* the header window of file-level directives: the insertion is below the window, or the line it pushes out of the
   window is not a file-level directive *)
Definition hdr_stable (q : iquirks) (k : nat) (lines : list string) : bool :=
  (header_scan_lines <=? k)
  || match nth_error lines (header_scan_lines - 1) with Some y => negb (has_ignore_directive_marker q y) | None => true end.

(* the new line does not separate a next-line directive from the line it governs *)
Definition next_stable (q : iquirks) (k : nat) (lines : list string) : bool :=
  match k with
  | 0 => true
  | S j => match nth_error lines j with Some y => negb (has_ignore_next_line_marker q y) | None => true end
  end.

Definition ins_ok (q : iquirks) (k : nat) (x : string) (lines : list string) : bool :=
  kfree x && (k <=? List.length lines) && hdr_stable q k lines && next_stable q k lines.

(* ---------- file-level directives ---------- *)
Lemma header_candidates_ins q k x lines : kfree x = true -> hdr_stable q k lines = true ->
  header_candidates q (ins k x lines) = header_candidates q lines.
Proof.
  intros Hx Hs. unfold header_candidates.
  assert (N : header_scan_lines = S (header_scan_lines - 1)) by reflexivity.
  rewrite N. apply filter_firstn_ins; [now apply not_candidate|].
  unfold hdr_stable in Hs. apply orb_true_iff in Hs as [H|H].
  - left. apply Nat.leb_le in H. rewrite N in H. exact H.
  - right. destruct (nth_error lines (header_scan_lines - 1)); [now apply negb_true_iff in H|exact I].
Qed.

(* ---------- block directives ---------- *)
Lemma block_scan_uniform q r : forall bl i v inb rules,
  block_scan q bl (S i) (S v) r inb rules = block_scan q bl i v r inb rules.
Proof.
  induction bl as [|b rest IH]; intros i v inb rules; [reflexivity|].
  cbn [block_scan]. destruct b as [rs| |].
  - apply IH.
  - destruct block_end_cmp as [c|]; [rewrite cmp_nat_SS|]; rewrite IH; reflexivity.
  - change (S i =? S v) with (i =? v). rewrite IH. reflexivity.
Qed.

Lemma block_scan_passed q r : forall bl i v inb rules, v < i ->
  block_scan q bl (S i) v r inb rules = block_scan q bl i v r inb rules.
Proof.
  induction bl as [|b rest IH]; intros i v inb rules H; [reflexivity|].
  cbn [block_scan]. destruct b as [rs| |].
  - apply IH. lia.
  - destruct block_end_cmp as [c|]; [rewrite (cmp_nat_passed _ i v H)|]; rewrite IH by lia; reflexivity.
  - replace (S i =? v) with false by (symmetry; apply Nat.eqb_neq; lia).
    replace (i =? v) with false by (symmetry; apply Nat.eqb_neq; lia).
    cbn [andb]. apply IH. lia.
Qed.

Lemma block_scan_other q r rest i v inb rules :
  block_scan q (BOther :: rest) i v r inb rules =
  if (i =? v) && inb then rules_match_violation rules r else block_scan q rest (S i) v r inb rules.
Proof. reflexivity. Qed.

(* the scan is at line i; the new line goes k lines further down, i.e. it becomes line i + k *)
Lemma block_scan_ins q r : forall bl k i v inb rules, k <= List.length bl ->
  block_scan q (ins k BOther bl) i (if i + k <=? v then S v else v) r inb rules = block_scan q bl i v r inb rules.
Proof.
  induction bl as [|b rest IH]; intros k i v inb rules Hk.
  - cbn [List.length] in Hk. assert (k = 0) by lia. subst k. cbn [ins block_scan].
    rewrite Nat.add_0_r. destruct (Nat.leb_spec i v) as [L|L].
    + replace (i =? S v) with false by (symmetry; apply Nat.eqb_neq; lia). reflexivity.
    + replace (i =? v) with false by (symmetry; apply Nat.eqb_neq; lia). reflexivity.
  - destruct k as [|k].
    + cbn [ins]. rewrite Nat.add_0_r. rewrite block_scan_other. destruct (Nat.leb_spec i v) as [L|L].
      * replace (i =? S v) with false by (symmetry; apply Nat.eqb_neq; lia). cbn [andb].
        apply (block_scan_uniform q r (b :: rest)).
      * replace (i =? v) with false by (symmetry; apply Nat.eqb_neq; lia). cbn [andb].
        apply (block_scan_passed q r (b :: rest)). exact L.
    + cbn [List.length] in Hk. cbn [ins]. replace (i + S k) with (S i + k) by lia.
      cbn [block_scan]. destruct b as [rs| |].
      * apply IH. lia.
      * destruct block_end_cmp as [c|].
        -- assert (C : cmp_nat c i (if S i + k <=? v then S v else v) = cmp_nat c i v).
           { destruct (Nat.leb_spec (S i + k) v) as [L|L]; [apply cmp_nat_far; lia|reflexivity]. }
           rewrite C. rewrite IH by lia. reflexivity.
        -- rewrite IH by lia. reflexivity.
      * assert (C : (i =? (if S i + k <=? v then S v else v)) = (i =? v)).
        { destruct (Nat.leb_spec (S i + k) v) as [L|L]; [|reflexivity].
          replace (i =? S v) with false by (symmetry; apply Nat.eqb_neq; lia).
          replace (i =? v) with false by (symmetry; apply Nat.eqb_neq; lia). reflexivity. }
        rewrite C. rewrite IH by lia. reflexivity.
Qed.

Lemma shift_ins_scan k v : shift_ins k v = if 1 + k <=? v then S v else v.
Proof. unfold shift_ins. destruct (Nat.ltb_spec k v), (Nat.leb_spec (1 + k) v); try reflexivity; lia. Qed.

Lemma valid_range_ins k v n : k <= n -> is_valid_line_range (shift_ins k v) (S n) = is_valid_line_range v n.
Proof.
  intro Hk. unfold is_valid_line_range. destruct gen_arith as (_ & -> & -> & -> & _).
  cbn [cmp_nat]. unfold shift_ins. destruct (Nat.ltb_spec k v) as [L|L].
  - change (0 <? S v) with true. replace (0 <? v) with true by (symmetry; apply Nat.ltb_lt; lia). reflexivity.
  - destruct (Nat.leb_spec v n), (Nat.leb_spec v (S n)); try reflexivity; lia.
Qed.

Lemma check_block_ins q k bl v r : k <= List.length bl ->
  check_block_ignore q (ins k BOther bl) (shift_ins k v) r = check_block_ignore q bl v r.
Proof.
  intro Hk. unfold check_block_ignore. rewrite ins_length, (valid_range_ins k v _ Hk).
  destruct (is_valid_line_range v (List.length bl)); [|reflexivity].
  destruct gen_arith as (_ & _ & _ & _ & _ & _ & _ & _ & _ & _ & _ & _ & ->).
  rewrite shift_ins_scan. now apply block_scan_ins.
Qed.

(* ---------- next-line and same-line directives ---------- *)
Lemma check_prev_ins q k x pls v r : k <= List.length pls ->
  match k with 0 => True | S j => match nth_error pls j with Some p => pl_next p = false | None => True end end ->
  check_prev_line_ignore q (ins k (inert_pline x) pls) (shift_ins k v) r = check_prev_line_ignore q pls v r.
Proof.
  intros Hk Hn. unfold check_prev_line_ignore, get_prev_line.
  destruct gen_arith as (_ & _ & _ & _ & -> & -> & -> & _). cbn [cmp_nat].
  unfold shift_ins. destruct (Nat.ltb_spec k v) as [L|L].
  - (* the violation is at or below the new line: it moves to line v + 1 *)
    destruct v as [|v]; [lia|]. change (S (S v) <=? 1) with false. change (S (S v) <? 2) with false.
    replace (S (S v) - 2) with v by lia.
    destruct (Nat.eq_dec v k) as [E|E].
    + subst v. rewrite (nth_error_ins_eq _ k pls Hk). cbn [inert_pline pl_next].
      destruct k as [|j]; [reflexivity|].
      change (S (S j) <=? 1) with false. change (S (S j) <? 2) with false. replace (S (S j) - 2) with j by lia.
      destruct (nth_error pls j) as [p|]; [now rewrite Hn|reflexivity].
    + destruct v as [|v]; [lia|]. change (S (S v) <=? 1) with false. change (S (S v) <? 2) with false.
      replace (S (S v) - 2) with v by lia. rewrite (nth_error_ins_gt _ k pls v) by lia. reflexivity.
  - destruct (v <=? 1); [reflexivity|]. destruct (Nat.ltb_spec v 2) as [L2|L2]; [reflexivity|].
    rewrite (nth_error_ins_lt _ k pls (v - 2)) by lia. reflexivity.
Qed.

Lemma check_current_ins q k x pls v r : k <= List.length pls ->
  check_current_line_ignore q (ins k (inert_pline x) pls) (shift_ins k v) r = check_current_line_ignore q pls v r.
Proof.
  intros Hk. unfold check_current_line_ignore. rewrite ins_length.
  destruct gen_arith as (_ & _ & _ & _ & _ & _ & _ & -> & -> & -> & -> & _). cbn [cmp_nat].
  unfold shift_ins. destruct (Nat.ltb_spec k v) as [L|L].
  - destruct v as [|v]; [lia|]. change (S (S v) <=? 0) with false. change (S v <=? 0) with false.
    change (S (List.length pls) <? S (S v)) with (List.length pls <? S v). cbn [orb].
    destruct (List.length pls <? S v); [reflexivity|].
    change (S (S v) <? 1) with false. change (S v <? 1) with false.
    replace (S (S v) - 1) with (S v) by lia. replace (S v - 1) with v by lia.
    rewrite (nth_error_ins_gt _ k pls v) by lia. reflexivity.
  - destruct (v <=? 0) eqn:E0; [reflexivity|]. cbn [orb]. apply Nat.leb_gt in E0.
    replace (S (List.length pls) <? v) with false by (symmetry; apply Nat.ltb_ge; lia).
    replace (List.length pls <? v) with false by (symmetry; apply Nat.ltb_ge; lia).
    destruct (v <? 1); [reflexivity|]. rewrite (nth_error_ins_lt _ k pls (v - 1)) by lia. reflexivity.
Qed.

(* ---------- the suppression decision under insertion of a directive-free line ---------- *)
Theorem should_ignore_ins q lines k x v r : ins_ok q k x lines = true ->
  should_ignore_lines q (ins k x lines) (shift_ins k v) r = should_ignore_lines q lines v r.
Proof.
  unfold ins_ok. intro H. apply andb_true_iff in H as [H Hn]. apply andb_true_iff in H as [H Hh].
  apply andb_true_iff in H as [Hx Hk]. apply Nat.leb_le in Hk.
  unfold should_ignore_lines, should_ignore_pre. rewrite (header_candidates_ins q k x lines Hx Hh).
  f_equal. unfold is_ignored_in_lines. rewrite map_ins, (prepare_inert q x Hx).
  assert (Hk' : k <= List.length (map (prepare q) lines)) by now rewrite map_length.
  rewrite (map_ins pl_block). change (pl_block (inert_pline x)) with BOther.
  rewrite check_block_ins by now rewrite map_length.
  rewrite (check_current_ins q k x _ v r Hk').
  rewrite (check_prev_ins q k x _ v r Hk'); [reflexivity|].
  unfold next_stable in Hn. destruct k as [|j]; [exact I|].
  rewrite nth_error_map'. destruct (nth_error lines j) as [y|]; [|exact I]. cbn [option_map].
  apply negb_true_iff in Hn. exact Hn.
Qed.

(* a blank line and a comment that does not contain the key word are directive-free *)
Lemma kfree_app a b : kfree (a ++ b) = true -> kfree a = true.
Proof.
  unfold kfree. intro H. apply negb_true_iff in H. apply negb_true_iff.
  destruct (containsb K (lower a)) eqn:E; [|reflexivity].
  rewrite lower_app in H. now rewrite (containsb_app_l _ _ (lower b) E) in H.
Qed.

(* ---------- replacing a directive-free line by a directive-free line (trailing white space, re-indentation, CR, BOM) ---------- *)
Lemma header_candidates_upd q f : forall lines k,
  match nth_error lines k with Some l => kfree l = true /\ kfree (f l) = true | None => True end ->
  header_candidates q (upd k f lines) = header_candidates q lines.
Proof.
  intros lines k H. unfold header_candidates. generalize header_scan_lines as n.
  revert k H. induction lines as [|y rest IH]; intros k H n; [destruct k; reflexivity|].
  destruct k as [|k]; cbn [upd].
  - cbn [nth_error] in H. destruct H as [H1 H2]. destruct n as [|n]; [reflexivity|]. cbn [firstn filter].
    now rewrite (not_candidate q y H1), (not_candidate q (f y) H2).
  - cbn [nth_error] in H. destruct n as [|n]; [reflexivity|]. cbn [firstn filter]. now rewrite (IH k H n).
Qed.

Lemma map_upd {A B} (g : A -> B) (f : A -> A) (f' : B -> B) : forall l k,
  match nth_error l k with Some y => g (f y) = f' (g y) | None => True end -> map g (upd k f l) = upd k f' (map g l).
Proof.
  induction l as [|y r IH]; intros k H; [destruct k; reflexivity|].
  destruct k as [|k]; cbn [upd map nth_error] in *; [now rewrite H|now rewrite IH].
Qed.

(* the decision procedure never looks at the text of a line that carries no marker *)
Lemma nth_error_upd {A} (f : A -> A) : forall l k i, nth_error (upd k f l) i = if i =? k then option_map f (nth_error l i) else nth_error l i.
Proof.
  induction l as [|y r IH]; intros k i.
  - destruct k, i; cbn [upd nth_error]; destruct (_ =? _); reflexivity.
  - destruct k as [|k], i as [|i]; cbn [upd nth_error]; try reflexivity. rewrite IH. reflexivity.
Qed.

Lemma upd_length {A} (f : A -> A) : forall l k, List.length (upd k f l) = List.length l.
Proof. induction l as [|y r IH]; intros [|k]; cbn [upd List.length]; try reflexivity. now rewrite IH. Qed.

Definition retext (t : string) (p : pline) : pline :=
  {| pl_text := t; pl_block := pl_block p; pl_next := pl_next p; pl_line := pl_line p |}.

Lemma block_upd_inert (f : pline -> pline) : forall pls k,
  match nth_error pls k with Some p => pl_block (f p) = pl_block p | None => True end ->
  map pl_block (upd k f pls) = map pl_block pls.
Proof.
  induction pls as [|y r IH]; intros k H; [destruct k; reflexivity|].
  destruct k as [|k]; cbn [upd map nth_error] in *; [now rewrite H|now rewrite IH].
Qed.

Theorem should_ignore_replace q lines k f v r :
  match nth_error lines k with Some l => kfree l = true /\ kfree (f l) = true | None => True end ->
  should_ignore_lines q (upd k f lines) v r = should_ignore_lines q lines v r.
Proof.
  intro H. unfold should_ignore_lines, should_ignore_pre. rewrite (header_candidates_upd q f lines k H). f_equal.
  unfold is_ignored_in_lines.
  assert (M : map (prepare q) (upd k f lines) = upd k (fun p => inert_pline (f (pl_text p))) (map (prepare q) lines)).
  { apply map_upd. destruct (nth_error lines k) as [l|]; [|exact I]. destruct H as [H1 H2].
    rewrite (prepare_inert q l H1), (prepare_inert q (f l) H2). reflexivity. }
  rewrite M. set (pls := map (prepare q) lines). set (g := fun p : pline => inert_pline (f (pl_text p))).
  assert (P : match nth_error pls k with Some p => p = inert_pline (pl_text p) | None => True end).
  { unfold pls. rewrite nth_error_map'. destruct (nth_error lines k) as [l|]; [|exact I]. cbn [option_map].
    destruct H as [H1 _]. now rewrite (prepare_inert q l H1). }
  assert (B : map pl_block (upd k g pls) = map pl_block pls).
  { apply block_upd_inert. destruct (nth_error pls k) as [p|]; [|exact I]. rewrite P. reflexivity. }
  rewrite B. f_equal; [f_equal|].
  - unfold check_prev_line_ignore, get_prev_line.
    destruct (cmp_nat prev_min_cmp v prev_min); [reflexivity|]. destruct (v <? prev_offset); [reflexivity|].
    rewrite nth_error_upd. destruct (Nat.eqb_spec (v - prev_offset) k) as [E|E]; [|reflexivity].
    rewrite E. destruct (nth_error pls k) as [p|]; [|reflexivity]. cbn [option_map]. rewrite P. reflexivity.
  - unfold check_current_line_ignore. rewrite upd_length.
    destruct (cmp_nat cur_lo_cmp v cur_lo || cmp_nat cur_hi_cmp v (List.length pls)); [reflexivity|].
    destruct (v <? cur_offset); [reflexivity|].
    rewrite nth_error_upd. destruct (Nat.eqb_spec (v - cur_offset) k) as [E|E]; [|reflexivity].
    rewrite E. destruct (nth_error pls k) as [p|]; [|reflexivity]. cbn [option_map]. rewrite P. reflexivity.
Qed.

(* ---------- the edits of Model/Edit.v ---------- *)
(* an edit is admissible for the suppression parser when the text it adds or touches is directive-free *)
Definition touch_ok (k : nat) (f : string -> string) (lines : list string) : bool :=
  match nth_error lines k with Some l => kfree l && kfree (f l) | None => true end.

Definition ignore_ok (q : iquirks) (e : edit) (lines : list string) : bool :=
  match e with
  | InsLine k x => ins_ok q k x lines
  | TrailWS k w => touch_ok k (fun l => (l ++ w)%string) lines
  | SetIndent k w => touch_ok k (set_indent w) lines
  | AddBOM => match lines with [] => false | l :: _ => kfree l && kfree (bom ++ l) end
  | DropBOM => match lines with [] => true | l :: _ => kfree l && kfree (strip_bom l) end
  | ToCRLF | ToLF => false      (* line terminators: see Proofs/EditLines.v (content level) *)
  end.

Lemma touch_ok_spec k f lines : touch_ok k f lines = true ->
  match nth_error lines k with Some l => kfree l = true /\ kfree (f l) = true | None => True end.
Proof. unfold touch_ok. destruct (nth_error lines k); [intro H; now apply andb_true_iff in H|trivial]. Qed.

Theorem should_ignore_edit q e lines v r : ignore_ok q e lines = true ->
  should_ignore_lines q (apply e lines) (shift e v) r = should_ignore_lines q lines v r.
Proof.
  destruct e as [k x|k w|k w| | | |]; cbn [ignore_ok apply shift]; intro H; try discriminate.
  - now apply should_ignore_ins.
  - apply should_ignore_replace. now apply touch_ok_spec.
  - apply should_ignore_replace. now apply touch_ok_spec.
  - destruct lines as [|l rest]; [discriminate|].
    change ((bom ++ l)%string :: rest) with (upd 0 (fun l => (bom ++ l)%string) (l :: rest)).
    apply should_ignore_replace. cbn [nth_error]. now apply andb_true_iff in H.
  - destruct lines as [|l rest]; [reflexivity|].
    change (strip_bom l :: rest) with (upd 0 strip_bom (l :: rest)).
    apply should_ignore_replace. cbn [nth_error]. now apply andb_true_iff in H.
Qed.

(* every sequence of admissible edits *)
Fixpoint ignore_ok_seq (q : iquirks) (es : list edit) (lines : list string) : bool :=
  match es with [] => true | e :: rest => ignore_ok q e lines && ignore_ok_seq q rest (apply e lines) end.

Theorem should_ignore_edits q r : forall es lines v, ignore_ok_seq q es lines = true ->
  should_ignore_lines q (apply_all es lines) (shift_all es v) r = should_ignore_lines q lines v r.
Proof.
  induction es as [|e rest IH]; intros lines v H; [reflexivity|].
  cbn [ignore_ok_seq] in H. apply andb_true_iff in H as [H1 H2].
  change (apply_all (e :: rest) lines) with (apply_all rest (apply e lines)).
  change (shift_all (e :: rest) v) with (shift_all rest (shift e v)).
  rewrite (IH _ _ H2). now apply should_ignore_edit.
Qed.

(* ---------- content level: the file as text ---------- *)
(* for files whose lines contain no line-break character the parser's line list is the list of lines itself *)
Lemma lines_of_join q ls : forallb no_newline ls = true -> forallb no_ubreak ls = true ->
  lines_of q (join_lines ls) = ls.
Proof.
  intros H U. unfold lines_of. destruct (q_splitlines_unicode q); [now apply splitlines_join|now apply split_newlines_join].
Qed.

Definition clean (ls : list string) : bool := forallb no_newline ls && forallb no_ubreak ls.

Theorem should_ignore_content_edits q repo es ls v r :
  clean ls = true -> clean (apply_all es ls) = true -> ignore_ok_seq q es ls = true ->
  should_ignore q repo (join_lines (apply_all es ls)) (shift_all es v) r = should_ignore q repo (join_lines ls) v r.
Proof.
  unfold clean. intros C1 C2 H. apply andb_true_iff in C1 as [A1 B1]. apply andb_true_iff in C2 as [A2 B2].
  unfold should_ignore. rewrite (lines_of_join q _ A1 B1), (lines_of_join q _ A2 B2).
  now rewrite (should_ignore_edits q r es ls v H).
Qed.

(* with the line-numbering defect of the parser off (lines are numbered like the analysers number them: \n, \r\n, \r),
   the other line-boundary characters of str.splitlines (form feed, vertical tab, FS GS RS, NEL, LS, PS) may occur anywhere *)
Theorem should_ignore_content_edits_nl q repo es ls v r : q_splitlines_unicode q = false ->
  forallb no_newline ls = true -> forallb no_newline (apply_all es ls) = true -> ignore_ok_seq q es ls = true ->
  should_ignore q repo (join_lines (apply_all es ls)) (shift_all es v) r = should_ignore q repo (join_lines ls) v r.
Proof.
  intros Hq C1 C2 H. unfold should_ignore, lines_of. rewrite Hq.
  rewrite (split_newlines_join _ C1), (split_newlines_join _ C2). now rewrite (should_ignore_edits q r es ls v H).
Qed.

(* ---------- the side conditions are necessary: what the documentation ties to a position is a position ---------- *)
Definition py_magic : string := "magic-numbers.numeric-literal".

(* a blank line between `ignore-next-line` and the line it governs ends the suppression *)
Example next_line_adjacency_needed q :
  let f := ["# thailint: ignore-next-line[magic-numbers]"; "x = 4242"] in
  should_ignore_lines q f 2 py_magic = true /\ should_ignore_lines q (ins 1 "" f) (shift_ins 1 2) py_magic = false.
Proof. destruct q as [[] [] [] [] [] [] []]; vm_compute; split; reflexivity. Qed.

(* a file-level directive on the last line of the header window leaves the window *)
Example header_window_needed q :
  let f := ["a";"b";"c";"d";"e";"f";"g";"h";"i"; "# thailint: ignore-file[magic-numbers]"; "x = 4242"] in
  should_ignore_lines q f 11 py_magic = true /\ should_ignore_lines q (ins 0 "" f) (shift_ins 0 11) py_magic = false.
Proof. destruct q as [[] [] [] [] [] [] []]; vm_compute; split; reflexivity. Qed.

(* non-vacuity: an admissible insertion inside a block, above a same-line directive, under the vector with every flag on *)
Definition all_on : iquirks := Build_iquirks true true true true true true true.
Example ins_ok_example :
  ins_ok all_on 1 "    # a note"
    ["# thailint: ignore-start magic-numbers"; "x = 4242"; "# thailint: ignore-end"; "y = 17  # thailint: ignore[magic-numbers]"] = true.
Proof. vm_compute. reflexivity. Qed.
