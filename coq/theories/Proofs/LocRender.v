(* Proofs/LocRender.v — C12, renderer bookkeeping: the harness renderers (harness/skel.py, props/c02_render.py,
   props/c16.py ...) emit a file line by line, `emit(level, text)` appending `" " * (unit * level) + text`, and
   record for a construct header the pair (number of lines emitted so far incl. the header, unit * level).
   This file models that scheme for arbitrarily nested blocks and proves that the recorded pair points at the
   header: the recorded line exists in the rendered file, it is the indentation followed by the header text,
   and the recorded column is the offset of the header text in it.  (The real renderers are Python code; this
   lemma states what their bookkeeping relies on, the correspondence check validates them.) *)
From TL Require Import Lib.Base Model.Loc Proofs.LocBase.

Inductive item := Stmt (text : string) | Blk (header : string) (body : list item) (footer : list string).

Fixpoint spaces (n : nat) : string := match n with 0 => EmptyString | S k => String " "%char (spaces k) end.
Definition ind (unit level : nat) (text : string) : string := (spaces (unit * level) ++ text)%string.

Fixpoint rlines (unit level : nat) (it : item) : list string :=
  match it with
  | Stmt t => [ind unit level t]
  | Blk h body foot => ind unit level h :: flat_map (rlines unit (S level)) body ++ map (ind unit level) foot
  end.

(* records: (1-based line, 0-based column, header text); n0 = number of lines emitted before the item *)
Fixpoint rrecs (unit level n0 : nat) (it : item) : list (nat * nat * string) :=
  match it with
  | Stmt _ => []
  | Blk h body _ =>
    (n0 + 1, unit * level, h) ::
    (fix go (n : nat) (l : list item) : list (nat * nat * string) :=
       match l with
       | [] => []
       | x :: xs => rrecs unit (S level) n x ++ go (n + List.length (rlines unit (S level) x)) xs
       end) (n0 + 1) body
  end.
Definition rrecs_list (unit level : nat) : nat -> list item -> list (nat * nat * string) :=
  fix go (n : nat) (l : list item) : list (nat * nat * string) :=
    match l with
    | [] => []
    | x :: xs => rrecs unit level n x ++ go (n + List.length (rlines unit level x)) xs
    end.

Section ItemInd.
  Variable P : item -> Prop.
  Hypothesis HS : forall t, P (Stmt t).
  Hypothesis HB : forall h body foot, Forall P body -> P (Blk h body foot).
  Fixpoint item_ind' (it : item) : P it :=
    match it with
    | Stmt t => HS t
    | Blk h body foot =>
      HB h body foot ((fix go (l : list item) : Forall P l :=
                         match l with [] => Forall_nil P | x :: xs => Forall_cons x (item_ind' x) (go xs) end) body)
    end.
End ItemInd.

Definition points_at (file : list string) (r : nat * nat * string) : Prop :=
  let '(line, col, h) := r in nth_error file (line - 1) = Some (spaces col ++ h)%string.

Lemma nth_error_mid {A} (pre : list A) x post : nth_error (pre ++ x :: post) (List.length pre) = Some x.
Proof. rewrite nth_error_app2 by lia. now rewrite Nat.sub_diag. Qed.

Theorem render_records_point_at_headers : forall it unit level pre post r,
  In r (rrecs unit level (List.length pre) it) -> points_at (pre ++ rlines unit level it ++ post) r.
Proof.
  induction it as [t|h body foot IH] using item_ind'; intros unit level pre post r H; [destruct H|].
  cbn [rrecs] in H. fold (rrecs_list unit (S level)) in H. destruct H as [<-|H].
  - cbn [points_at rlines]. replace (List.length pre + 1 - 1) with (List.length pre) by lia.
    cbn [app]. unfold ind. apply nth_error_mid.
  - cbn [rlines].
    (* the body sits after pre ++ [header line] *)
    set (pre1 := pre ++ [ind unit level h]).
    assert (E : pre ++ (ind unit level h :: flat_map (rlines unit (S level)) body ++ map (ind unit level) foot) ++ post
                = pre1 ++ flat_map (rlines unit (S level)) body ++ (map (ind unit level) foot ++ post)).
    { unfold pre1. rewrite <- !app_assoc. cbn [app]. now rewrite <- !app_assoc. }
    rewrite E. assert (L1 : List.length pre + 1 = List.length pre1) by (unfold pre1; rewrite app_length; cbn; lia).
    rewrite L1 in H. clear E L1. generalize dependent pre1. generalize (map (ind unit level) foot ++ post) as post1.
    clear pre post. induction IH as [|x xs Hx _ IHxs]; intros post1 pre1 H; [destruct H|].
    cbn [rrecs_list] in H. apply in_app_or in H. cbn [flat_map]. rewrite <- app_assoc. destruct H as [H|H].
    + exact (Hx unit (S level) pre1 _ r H).
    + specialize (IHxs post1 (pre1 ++ rlines unit (S level) x)). rewrite app_length in IHxs. rewrite <- app_assoc in IHxs.
      exact (IHxs H).
Qed.

Lemma list_records_point_at_headers : forall items unit level pre post r,
  In r (rrecs_list unit level (List.length pre) items) -> points_at (pre ++ flat_map (rlines unit level) items ++ post) r.
Proof.
  induction items as [|x xs IH]; intros unit level pre post r H; [destruct H|].
  cbn [rrecs_list] in H. apply in_app_or in H. cbn [flat_map]. rewrite <- app_assoc. destruct H as [H|H].
  - exact (render_records_point_at_headers x unit level pre _ r H).
  - specialize (IH unit level (pre ++ rlines unit level x) post r). rewrite app_length, <- app_assoc in IH. exact (IH H).
Qed.

Lemma record_line_pos : forall it unit level n r, In r (rrecs unit level n it) -> n + 1 <= fst (fst r).
Proof.
  induction it as [t|h0 body foot IH] using item_ind'; intros unit level n r H; [destruct H|].
  cbn [rrecs] in H. fold (rrecs_list unit (S level)) in H. destruct H as [<-|H]; [cbn; lia|].
  revert H. generalize (n + 1) as m. intros m H. enough (m + 1 <= fst (fst r)) by lia.
  revert m H. induction IH as [|x xs Hx _ IHxs]; intros m Hm; [destruct Hm|].
  cbn [rrecs_list] in Hm. apply in_app_or in Hm.
  destruct Hm as [Hm|Hm]; [exact (Hx _ _ _ _ Hm)|]. specialize (IHxs _ Hm). lia.
Qed.

Lemma list_record_line_pos : forall items unit level n r, In r (rrecs_list unit level n items) -> n + 1 <= fst (fst r).
Proof.
  induction items as [|x xs IH]; intros unit level n r H; [destruct H|].
  cbn [rrecs_list] in H. apply in_app_or in H. destruct H as [H|H]; [exact (record_line_pos _ _ _ _ _ H)|].
  specialize (IH _ _ _ _ H). lia.
Qed.

Lemma length_spaces n : String.length (spaces n) = n.
Proof. induction n; cbn [spaces String.length]; congruence. Qed.
Lemma length_append a b : String.length (a ++ b) = String.length a + String.length b.
Proof. induction a as [|c a IH]; cbn [String.append String.length]; [reflexivity|now rewrite IH]. Qed.
Lemma occurs_after_spaces n h : occurs h (spaces n ++ h) = true.
Proof.
  assert (P : forall s, sprefix s s = true) by (induction s as [|c s IH]; cbn [sprefix]; [reflexivity|now rewrite Ascii.eqb_refl]).
  induction n as [|n IH]; cbn [spaces String.append].
  - destruct h; cbn [occurs]; [reflexivity|]. now rewrite P.
  - cbn [occurs]. rewrite IH. apply Bool.orb_true_r.
Qed.

(* what the harness relies on: a recorded (line, col, header) of a whole rendered file satisfies the
   property's clauses: the line exists, the column lies within it, the header text occurs on it *)
Corollary recorded_position_ok items unit r :
  In r (rrecs_list unit 0 0 items) ->
  let file := flat_map (rlines unit 0) items in
  let '(line, col, h) := r in
  line_ok file line = true /\ col_ok file line col = true /\ occurs h (line_text file line) = true.
Proof.
  intros H file. destruct r as [[line col] h].
  assert (P : points_at file (line, col, h)).
  { pose proof (list_records_point_at_headers items unit 0 [] [] (line, col, h) H) as Q.
    cbn [app] in Q. rewrite app_nil_r in Q. exact Q. }
  cbn [points_at] in P.
  assert (Hlt : line - 1 < List.length file) by (apply nth_error_Some; congruence).
  assert (Hpos : 1 <= line) by (pose proof (list_record_line_pos _ _ _ _ _ H) as Q; cbn in Q; lia).
  assert (LT : line_text file line = (spaces col ++ h)%string).
  { unfold line_text. apply nth_error_nth with (d := ""%string) in P. exact P. }
  split; [apply line_ok_spec; unfold nlines; lia|]. split.
  - apply col_ok_spec. rewrite LT, length_append, length_spaces. lia.
  - rewrite LT. apply occurs_after_spaces.
Qed.
