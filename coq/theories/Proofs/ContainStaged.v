(* Proofs/ContainStaged.v — the two cross-file rules: what is in the store when check() raises (C11, proved part).
   The step lists dry_steps / stringly_*_steps are transcribed from the source by the translator on every run. *)
From TL Require Import Lib.Base Lib.GenTypes Model.ContainTypes Gen.ContainGen Model.Contain Proofs.ContainMain.

(* ---------- DRY: _file_contents[...] = ...; inline_ignore.parse_file; blocks = analyze(...); add_blocks; constants ---------- *)
Theorem dry_block_failure_stores_nothing an e u1 u2 :
  an "file_contents" = Ok u1 -> an "inline_ignore" = Ok u2 -> an "blocks" = Fail e ->
  run_ops dry_steps an [] [] = (Fail e, []).
Proof. intros H1 H2 H3. unfold dry_steps. cbn [run_ops]. rewrite H1, H2, H3. reflexivity. Qed.

Theorem dry_constants_failure_keeps_blocks an e u1 u2 ev :
  an "file_contents" = Ok u1 -> an "inline_ignore" = Ok u2 -> an "blocks" = Ok ev -> an "constants" = Fail e ->
  run_ops dry_steps an [] [] = (Fail e, ev).
Proof.
  intros H1 H2 H3 H4. unfold dry_steps. cbn [run_ops]. rewrite H1, H2, H3. cbn [run_ops]. rewrite H4.
  unfold held_lookup. cbn [find fst snd]. rewrite String.eqb_refl. reflexivity.
Qed.

Theorem dry_success_stores_all an u1 u2 ev cs :
  an "file_contents" = Ok u1 -> an "inline_ignore" = Ok u2 -> an "blocks" = Ok ev -> an "constants" = Ok cs ->
  run_ops dry_steps an [] [] = (Ok tt, ev ++ cs).
Proof.
  intros H1 H2 H3 H4. unfold dry_steps. cbn [run_ops]. rewrite H1, H2, H3. cbn [run_ops]. rewrite H4.
  unfold held_lookup. cbn [find fst snd]. rewrite String.eqb_refl. reflexivity.
Qed.

(* ---------- stringly-typed, Python: patterns, calls, comparisons are each analysed then stored ---------- *)
Theorem stringly_py_first_failure_stores_nothing an e :
  an "patterns" = Fail e -> run_ops stringly_py_steps an [] [] = (Fail e, []).
Proof. intros H. unfold stringly_py_steps. cbn [run_ops]. rewrite H. reflexivity. Qed.

Theorem stringly_py_later_failure_keeps_earlier an e pats :
  an "patterns" = Ok pats -> an "calls" = Fail e -> run_ops stringly_py_steps an [] [] = (Fail e, pats).
Proof.
  intros H1 H2. unfold stringly_py_steps. cbn [run_ops]. rewrite H1. cbn [run_ops].
  unfold held_lookup at 1. cbn [find fst snd]. rewrite String.eqb_refl. cbn [app]. rewrite H2. reflexivity.
Qed.

(* TypeScript/JavaScript: one analysis, stored afterwards *)
Theorem stringly_ts_failure_stores_nothing an e :
  an "ts_results" = Fail e -> run_ops stringly_ts_steps an [] [] = (Fail e, []).
Proof. intros H. unfold stringly_ts_steps. cbn [run_ops]. rewrite H. reflexivity. Qed.

(* ---------- consequence for isolation ---------- *)
(* If on every removed file the duplicate-code rule fails in (or before) its block analysis, the store - hence
   every cross-file finding - is the one of the run without those files. *)
Theorem dry_isolated_when_block_analysis_fails id an fin files (bad : string -> bool) :
  (forall p, In p files -> bad p = true ->
     exists e u1 u2, an p "file_contents" = Ok u1 /\ an p "inline_ignore" = Ok u2 /\ an p "blocks" = Fail e) ->
  store_of (staged_rule id dry_steps an fin) files
  = store_of (staged_rule id dry_steps an fin) (filter (fun p => negb (bad p)) files).
Proof.
  intros H. apply store_filter_iff. intros p I B. destruct (H p I B) as (e & u1 & u2 & H1 & H2 & H3).
  cbn [staged_rule r_contrib]. rewrite (dry_block_failure_stores_nothing (an p) e u1 u2 H1 H2 H3). reflexivity.
Qed.

(* ... and when it fails later (constant extraction) the removed file's blocks stay in the store: the stores differ
   as soon as that file had any block *)
Theorem dry_leaks_when_constants_fail id an fin p e u1 u2 ev :
  an p "file_contents" = Ok u1 -> an p "inline_ignore" = Ok u2 -> an p "blocks" = Ok ev -> an p "constants" = Fail e ->
  ev <> [] ->
  store_of (staged_rule id dry_steps an fin) [p] <> store_of (staged_rule id dry_steps an fin) (filter (fun _ => false) [p]).
Proof.
  intros H1 H2 H3 H4 Hne. unfold store_of. cbn [filter map List.concat staged_rule r_contrib].
  rewrite (dry_constants_failure_keeps_blocks (an p) e u1 u2 ev H1 H2 H3 H4). cbn [snd]. rewrite app_nil_r. exact Hne.
Qed.
