(* Proofs/OutputBytesArgs.v — the json.dumps arguments found in the source (Gen/OutputGen.v, item json_serialisation) are the ones the
   byte-level model Model/OutputBytes.v was written for: both JSON renderers use the same call, ensure_ascii is on, keys are not sorted,
   the separators are the defaults of an indented dump.  (The layout theorems of Proofs/OutputBytes.v use the separators and the indent
   themselves; this file holds the facts no other proof would notice.) *)
From TL Require Import Lib.Base Model.OutputTypes Gen.OutputGen.
From Coq Require Import Lia.
Local Open Scope string_scope.

Lemma json_ser_facts : json_dumps_uniform = true /\ json_dumps_ensure_ascii = true /\ json_dumps_sort_keys = false
                       /\ json_dumps_item_sep = "," /\ json_dumps_key_sep = ": " /\ (1 <= json_dumps_indent)%nat.
Proof. repeat split; try reflexivity. vm_compute. lia. Qed.
