(* Proofs/MagicRs.v — C02 for Rust: the analyzer model reports exactly the literals the documentation
   demands (const / static items and test code exempt), for every admissible file and configuration. *)
From Coq Require Import ZArith.
From TL Require Import Lib.Base Lib.GenTypes Gen.MagicGen Model.MagicNum Model.Magic Model.MagicSpec
     Proofs.MagicChars Proofs.MagicExtract Proofs.MagicFacts Proofs.MagicTs.

Lemma rs_is_const_app a b : rs_is_const (a ++ b) = rs_is_const a || rs_is_const b.
Proof. apply existsb_app. Qed.
Lemma rs_is_test_app a b : rs_is_test (a ++ b) = rs_is_test a || rs_is_test b.
Proof. apply existsb_app. Qed.

Lemma rs_scope_no_const sc : rs_is_const (rs_scope_chain sc) = false.
Proof. unfold rs_scope_chain, rs_mod_chain. destruct (sc_kind sc), (sc_mod_attrs sc); reflexivity. Qed.

Lemma rs_ctx_const k c : ctx_ok MRs k c = true -> rs_is_const (rs_ctx_chain c) = ctx_is_const_def c.
Proof. intros H. destruct c; try reflexivity; cbn in H; discriminate. Qed.

Lemma rs_ctx_no_test c : rs_is_test (rs_ctx_chain c) = false.
Proof. destruct c; reflexivity. Qed.

(* the substring tests of rust_context agree with the documented attributes on the attribute pools *)
Lemma fn_attr_fact a : smem a fn_attr_pool = true -> contains (chars rs_test_attr_needle) (chars a) = spec_test_attr a.
Proof.
  intros H. apply smem_In in H. cbn [fn_attr_pool In] in H.
  repeat (destruct H as [<-|H]; [reflexivity|]). destruct H.
Qed.

Lemma mod_attr_fact a : smem a mod_attr_pool = true -> contains (chars rs_cfg_test_needle) (chars a) = String.eqb "#[cfg(test)]" a.
Proof.
  intros H. apply smem_In in H. cbn [mod_attr_pool In] in H.
  repeat (destruct H as [<-|H]; [reflexivity|]). destruct H.
Qed.

Lemma attr_has_fn attrs : forallb (fun a => smem a fn_attr_pool) attrs = true -> attr_has rs_test_attr_needle attrs = existsb spec_test_attr attrs.
Proof.
  induction attrs as [|a r IH]; intros H; [reflexivity|]. cbn [forallb] in H. apply andb_prop in H. destruct H as [Ha Hr].
  unfold attr_has in *. cbn [existsb]. rewrite (fn_attr_fact a Ha), (IH Hr). reflexivity.
Qed.

Lemma attr_has_mod attrs : forallb (fun a => smem a mod_attr_pool) attrs = true -> attr_has rs_cfg_test_needle attrs = existsb (String.eqb "#[cfg(test)]") attrs.
Proof.
  induction attrs as [|a r IH]; intros H; [reflexivity|]. cbn [forallb] in H. apply andb_prop in H. destruct H as [Ha Hr].
  unfold attr_has in *. cbn [existsb]. rewrite (mod_attr_fact a Ha), (IH Hr). reflexivity.
Qed.

Lemma rs_mod_test ma :
  match ma with Some attrs => forallb (fun a => smem a mod_attr_pool) attrs | None => true end = true ->
  rs_is_test (rs_mod_chain ma) = match ma with Some attrs => existsb (String.eqb "#[cfg(test)]") attrs | None => false end.
Proof.
  destruct ma as [attrs|]; [|reflexivity]. intros H. unfold rs_mod_chain, rs_is_test.
  cbn [existsb ra_type ra_attrs rn]. replace rs_test_fn_type with "function_item" by reflexivity. replace rs_test_mod_type with "mod_item" by reflexivity.
  cbn. rewrite (attr_has_mod attrs H). rewrite orb_false_r. reflexivity.
Qed.

Lemma rs_fn_test attrs :
  forallb (fun a => smem a fn_attr_pool) attrs = true ->
  rs_is_test [mk_rsanc "function_item" attrs] = existsb spec_test_attr attrs.
Proof.
  intros H. unfold rs_is_test. cbn [existsb ra_type ra_attrs].
  replace rs_test_fn_type with "function_item" by reflexivity. replace rs_test_mod_type with "mod_item" by reflexivity.
  cbn. rewrite (attr_has_fn attrs H). rewrite !orb_false_r. reflexivity.
Qed.

Lemma rs_plain_no_test tys : forallb (fun t => negb (String.eqb t "function_item") && negb (String.eqb t "mod_item")) tys = true ->
  rs_is_test (rnames tys) = false.
Proof.
  induction tys as [|t r IH]; intros H; [reflexivity|]. cbn [forallb] in H. apply andb_prop in H. destruct H as [Ht Hr].
  apply andb_prop in Ht. destruct Ht as [H1 H2]. apply negb_true_iff in H1, H2.
  unfold rs_is_test in *. cbn [rnames map existsb rn ra_type ra_attrs].
  replace rs_test_fn_type with "function_item" by reflexivity. replace rs_test_mod_type with "mod_item" by reflexivity.
  rewrite H1, H2. cbn [andb orb]. apply IH. exact Hr.
Qed.

(* is_inside_test over the ancestors of a scope = the scope is test code in the documented sense *)
Lemma rs_scope_test sc : scope_good MRs sc = true -> rs_is_test (rs_scope_chain sc) = spec_scope_is_test sc.
Proof.
  unfold scope_good. intros H. apply andb_prop in H. destruct H as [_ H].
  apply andb_prop in H. destruct H as [H Hk]. apply andb_prop in H. destruct H as [Hfa Hma].
  unfold rs_scope_chain, spec_scope_is_test. rewrite rs_is_test_app, (rs_mod_test _ Hma).
  destruct (sc_kind sc).
  - destruct (sc_attrs sc); [reflexivity | discriminate].
  - change [rn "block"; mk_rsanc "function_item" (sc_attrs sc)] with (rnames ["block"] ++ [mk_rsanc "function_item" (sc_attrs sc)]).
    rewrite rs_is_test_app, (rs_plain_no_test ["block"] eq_refl), (rs_fn_test _ Hfa). reflexivity.
  - change ([rn "block"; mk_rsanc "function_item" (sc_attrs sc)] ++ rnames ["declaration_list"; "impl_item"])
      with (rnames ["block"] ++ [mk_rsanc "function_item" (sc_attrs sc)] ++ rnames ["declaration_list"; "impl_item"]).
    rewrite !rs_is_test_app, (rs_plain_no_test ["block"] eq_refl), (rs_fn_test _ Hfa), (rs_plain_no_test ["declaration_list"; "impl_item"] eq_refl).
    rewrite orb_false_r. reflexivity.
  - rewrite rs_is_test_app, (rs_fn_test _ Hfa).
    replace (rs_is_test (rnames ["block"; "function_item"; "block"])) with false; [reflexivity|].
    symmetry. unfold rs_is_test. cbn [rnames map existsb rn ra_type ra_attrs attr_has].
    replace rs_test_fn_type with "function_item" by reflexivity. replace rs_test_mod_type with "mod_item" by reflexivity. reflexivity.
  - rewrite (rs_plain_no_test ["declaration_list"; "impl_item"] eq_refl). destruct (sc_attrs sc); [reflexivity | discriminate].
Qed.

Lemma rs_nonnumeric_type l : lit_is_numeric l = false -> smem (rs_node_type l) rs_numeric_types = false.
Proof. destruct l; try discriminate; reflexivity. Qed.

Lemma rs_numeric_type l : lit_is_numeric l = true -> smem (rs_node_type l) rs_numeric_types = true.
Proof. destruct l; try discriminate; reflexivity. Qed.

Lemma rs_lit_exact q cfg f sc s l :
  scope_good MRs sc = true -> site_good MRs (sc_kind sc) s = true -> In l (s_lits s) ->
  rs_site_report q cfg (mk_rssite (rs_node_type l) (lit_chars l) (rs_ctx_chain (s_ctx s) ++ rs_scope_chain sc) (s_line s))
  = spec_lit MRs cfg (spec_file_exempt MRs f) sc s l.
Proof.
  intros Hsc Hsite Hin. unfold site_good in Hsite.
  apply andb_prop in Hsite. destruct Hsite as [H123 Hlits]. apply andb_prop in H123. destruct H123 as [H123 _]. apply andb_prop in H123. destruct H123 as [H12 _].
  apply andb_prop in H12. destruct H12 as [Hctx _].
  rewrite forallb_forall in Hlits. specialize (Hlits l Hin).
  unfold rs_site_report, spec_lit. cbn [r_type r_text r_anc r_line].
  destruct (lit_is_numeric l) eqn:Hnum.
  - rewrite (rs_numeric_type l Hnum). cbn [negb].
    destruct (lit_raw_numeric l Hnum) as [raw Hr].
    rewrite (rs_lit_extract q l raw Hlits Hr). unfold lit_value. rewrite Hr. cbn [option_map].
    rewrite allowed_spec, rs_is_const_app, rs_scope_no_const, orb_false_r, (rs_ctx_const _ _ Hctx).
    rewrite rs_is_test_app, rs_ctx_no_test, (rs_scope_test sc Hsc).
    unfold spec_file_exempt, spec_site_exempt, spec_is_test_file. cbn [orb]. rewrite orb_false_r.
    destruct (nmem (norm raw) (spec_allowed cfg)), (ctx_is_const_def (s_ctx s)), (spec_scope_is_test sc); reflexivity.
  - rewrite (rs_nonnumeric_type l Hnum). cbn [negb]. rewrite (lit_value_numeric l Hnum). reflexivity.
Qed.

(* Main theorem (Rust): for EVERY quirk vector - the suffix selection may be the source's own or the property's *)
Theorem rs_report_exact q cfg f :
  file_good MRs f = true -> rs_report q cfg f = spec_report MRs cfg f.
Proof.
  intros Hg. unfold file_good in Hg. apply andb_prop in Hg. destruct Hg as [_ Hscopes].
  unfold rs_report, to_rs, spec_report. rewrite flat_map_flat_map. apply flat_map_ext_in. intros sc Hsc.
  rewrite flat_map_flat_map. apply flat_map_ext_in. intros s Hs.
  rewrite forallb_forall in Hscopes. specialize (Hscopes sc Hsc).
  assert (Hscope := Hscopes). unfold scope_good in Hscopes. apply andb_prop in Hscopes. destruct Hscopes as [Hsites _].
  rewrite forallb_forall in Hsites. specialize (Hsites s Hs).
  unfold to_rs_site. rewrite flat_map_map. apply flat_map_ext_in. intros l Hl.
  apply rs_lit_exact; [exact Hscope | exact Hsites | exact Hl].
Qed.
