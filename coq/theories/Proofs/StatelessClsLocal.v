(* Proofs/StatelessClsLocal.v — the stateless-class detector (Model/StatelessCls.v) is local once its filters examine
   the class itself (q_sl_lookup_by_name = false), whatever the two name flags are: for every context that wraps in
   no class,  stateless_reports q (plug c frag) = <filler reports> ++ moved (stateless_reports q frag) ++ <filler reports>;
   n copies give n moved report lists; with the name flags off as well, identifier renaming commutes. *)
From Coq Require Import Permutation.
From TL Require Import Lib.Base Lib.GenTypes Gen.EmbedGen Model.Embed Model.PrintStmt Model.PerfConcat Model.StatelessCls
     Proofs.EmbedLocality Proofs.PrintStmtLocal Proofs.PerfConcatLocal Proofs.PerfConcatRename.

Lemma nsval_shift dl dc t : nsval (shift dl dc t) = nsval t.
Proof. destruct t. reflexivity. Qed.

Lemma sl_step_shift dl dc s t : sl_step s (shift dl dc t) = sl_step s t.
Proof. reflexivity. Qed.

Lemma sl_emit_shift q dl dc s t : sl_emit q s (shift dl dc t) = shiftRs dl dc (sl_emit q s t).
Proof.
  unfold sl_emit. rewrite is_cls_shift, erase_shift, nsval_shift.
  destruct (is_cls sl_class_cls t && is_stateless sl_min_methods_default (erase t) && negb (exempt q s (erase t)));
    destruct t as [i ks]; reflexivity.
Qed.

Lemma sl_ctx_inert q c : sl_ctx_ok c = true -> inert sl_step (sl_emit q) c.
Proof.
  induction c as [|i pre post dl dc c' IH|pre dl c' IH post]; cbn [sl_ctx_ok inert]; intro H.
  - exact I.
  - apply andb_true_iff in H. destruct H as [H1 H2]. split; [|now apply IH].
    intros s mid. split; [|reflexivity].
    unfold sl_emit, is_cls, ncls. cbn [ninfo]. apply negb_true_iff in H1. now rewrite H1.
  - now apply IH.
Qed.

Lemma stateless_reports_own q file :
  q_sl_lookup_by_name q = false -> stateless_reports q file = detectF sl_step (sl_emit q) [] file.
Proof. intro H. unfold stateless_reports, sl_table. now rewrite H. Qed.

Theorem stateless_embedding_local q c frag :
  q_sl_lookup_by_name q = false -> sl_ctx_ok c = true ->
  stateless_reports q (plug c frag) =
  ctx_pre sl_step (sl_emit q) c [] ++ shiftRs (off_l c) (off_c c) (stateless_reports q frag) ++ ctx_post sl_step (sl_emit q) c [].
Proof.
  intros Hq Hc. rewrite !(stateless_reports_own q _ Hq).
  apply (plug_local sl_step (sl_emit q) sl_step_shift (sl_emit_shift q)). now apply sl_ctx_inert.
Qed.

Theorem stateless_embedding_fillers q c frag :
  q_sl_lookup_by_name q = false -> sl_ctx_ok c = true ->
  Permutation (stateless_reports q (plug c frag))
              (shiftRs (off_l c) (off_c c) (stateless_reports q frag) ++ stateless_reports q (fillers c)).
Proof.
  intros Hq Hc. rewrite !(stateless_reports_own q _ Hq).
  apply (plug_local_perm sl_step (sl_emit q) sl_step_shift (sl_emit_shift q)). now apply sl_ctx_inert.
Qed.

Theorem stateless_copies q n h frag :
  q_sl_lookup_by_name q = false ->
  stateless_reports q (copies n h frag) = flat_map (fun k => shiftRs (k * h) 0 (stateless_reports q frag)) (seq 0 n).
Proof.
  intro Hq. rewrite !(stateless_reports_own q _ Hq).
  apply (copies_local sl_step (sl_emit q) sl_step_shift (sl_emit_shift q)).
Qed.

(* ------------------------------------------------------------------ renaming *)
Definition keeps_all (sg : string -> string) (l : list string) : Prop := forall k, In k l -> keeps sg k.
Definition sl_fixed_names : list string :=
  "" :: sl_constructor_names ++ [sl_self_name; sl_object_name] ++ sl_abc_names ++ sl_test_base_names.
Definition sl_sigma_ok (sg : string -> string) : Prop := keeps_all sg sl_fixed_names.

Lemma smem_keeps sg x l : keeps_all sg l -> smem (sg x) l = smem x l.
Proof.
  induction l as [|k l IH]; intro H; cbn [smem]; [reflexivity|].
  rewrite (H k (or_introl eq_refl) x). rewrite IH; [reflexivity|]. intros j Hj. apply H. now right.
Qed.

Lemma keeps_sub sg l1 l2 : (forall k, In k l1 -> In k l2) -> keeps_all sg l2 -> keeps_all sg l1.
Proof. intros H K k Hk. apply K. now apply H. Qed.

Lemma walk_any_rename sg p t : (forall u, p (rename sg u) = p u) -> walk_any p (rename sg t) = walk_any p t.
Proof.
  intro Hp. induction t as [i ks IH] using ast_ind'.
  rewrite rename_node. cbn [walk_any]. rewrite <- rename_node, Hp. f_equal.
  induction IH as [|k ks' Hk _ IHk]; cbn [map existsb]; [reflexivity|]. now rewrite Hk, IHk.
Qed.

Lemma nsval_rename_nc sg t : String.eqb (ncls t) "Constant" = false -> nsval (rename sg t) = sg (nsval t).
Proof. destruct t as [i ks]. unfold ncls, nsval. cbn [ninfo rename rename_info sval]. now intros ->. Qed.

Section SlRename.
  Variable sg : string -> string.
  Hypothesis Hs : sl_sigma_ok sg.

  Lemma K (l : list string) : (forall k, In k l -> In k sl_fixed_names) -> keeps_all sg l.
  Proof. intro H. exact (keeps_sub sg l sl_fixed_names H Hs). Qed.

  Lemma base_name_rename b : base_name (rename sg b) = sg (base_name b).
  Proof.
    unfold base_name. rewrite !is_cls_rename.
    destruct (is_cls sl_base_name_cls b) eqn:E1.
    - cbn [orb]. apply nsval_rename_nc. unfold is_cls in E1. apply String.eqb_eq in E1. now rewrite E1.
    - destruct (is_cls sl_base_attr_cls b) eqn:E2; cbn [orb].
      + apply nsval_rename_nc. unfold is_cls in E2. apply String.eqb_eq in E2. now rewrite E2.
      + symmetry. assert (H : keeps sg "") by (apply Hs; left; reflexivity).
        specialize (H ""). rewrite String.eqb_refl in H. now apply String.eqb_eq in H.
  Qed.

  Lemma existsb_map_rename (p : ast -> bool) l :
    (forall u, p (rename sg u) = p u) -> existsb p (map (rename sg) l) = existsb p l.
  Proof. intro Hp. induction l as [|x xs IH]; cbn [map existsb]; [reflexivity|]. now rewrite Hp, IH. Qed.

  Lemma method_name_rename it :
    is_cls sl_method_cls it = true -> nsval (rename sg it) = sg (nsval it).
  Proof. intro H. apply nsval_rename_nc. unfold is_cls in H. apply String.eqb_eq in H. now rewrite H. Qed.

  Lemma should_skip_rename c : should_skip (rename sg c) = should_skip c.
  Proof.
    unfold should_skip, has_constructor, has_decorators, inherits_abc, has_class_attrs, has_instance_attrs, has_base_classes.
    rewrite !field_rename.
    assert (A1 : existsb (fun it => is_cls sl_method_cls it && smem (nsval it) sl_constructor_names) (map (rename sg) (field "body" c))
                 = existsb (fun it => is_cls sl_method_cls it && smem (nsval it) sl_constructor_names) (field "body" c)).
    { apply existsb_map_rename. intro u. rewrite is_cls_rename. destruct (is_cls sl_method_cls u) eqn:E; [|reflexivity].
      cbn [andb]. rewrite (method_name_rename u E). apply smem_keeps. apply K. intros k Hk. right. apply in_or_app. now left. }
    assert (A2 : match map (rename sg) (field "decorator_list" c) with [] => false | _ :: _ => true end
                 = match field "decorator_list" c with [] => false | _ :: _ => true end).
    { destruct (field "decorator_list" c); reflexivity. }
    assert (A3 : existsb (fun b => smem (base_name b) sl_abc_names) (map (rename sg) (field "bases" c))
                 = existsb (fun b => smem (base_name b) sl_abc_names) (field "bases" c)).
    { apply existsb_map_rename. intro u. rewrite base_name_rename. apply smem_keeps. apply K. intros k Hk.
      right. apply in_or_app. right. apply in_or_app. right. apply in_or_app. now left. }
    assert (A4 : existsb (fun it => smem (ncls it) sl_class_attr_classes) (map (rename sg) (field "body" c))
                 = existsb (fun it => smem (ncls it) sl_class_attr_classes) (field "body" c)).
    { apply existsb_map_rename. intro u. now rewrite ncls_rename. }
    assert (Hself : forall u, is_self_attribute (rename sg u) = is_self_attribute u).
    { intro u. unfold is_self_attribute. rewrite is_cls_rename, field_rename.
      destruct (field "value" u) as [|v [|v' r]]; cbn [map]; try reflexivity.
      rewrite (named_rename_ident sg sl_self_name_cls sl_self_name v eq_refl); [reflexivity|].
      apply Hs. right. apply in_or_app. right. left. reflexivity. }
    assert (Hasg : forall u, is_self_attr_assignment (rename sg u) = is_self_attr_assignment u).
    { intro u. unfold is_self_attr_assignment. rewrite is_cls_rename, field_rename. f_equal. now apply existsb_map_rename. }
    assert (A5 : existsb (fun it => is_cls sl_method_cls it && walk_any is_self_attr_assignment it) (map (rename sg) (field "body" c))
                 = existsb (fun it => is_cls sl_method_cls it && walk_any is_self_attr_assignment it) (field "body" c)).
    { apply existsb_map_rename. intro u. rewrite is_cls_rename. f_equal. now apply walk_any_rename. }
    assert (A6 : existsb (fun b => negb (String.eqb (base_name b) "") && negb (String.eqb (base_name b) sl_object_name)) (map (rename sg) (field "bases" c))
                 = existsb (fun b => negb (String.eqb (base_name b) "") && negb (String.eqb (base_name b) sl_object_name)) (field "bases" c)).
    { apply existsb_map_rename. intro u. rewrite base_name_rename.
      assert (E1 : keeps sg "") by (apply Hs; left; reflexivity).
      assert (E2 : keeps sg sl_object_name) by (apply Hs; right; apply in_or_app; right; right; left; reflexivity).
      now rewrite (E1 (base_name u)), (E2 (base_name u)). }
    now rewrite A1, A2, A3, A4, A5, A6.
  Qed.

  Lemma is_stateless_rename m c : is_stateless m (rename sg c) = is_stateless m c.
  Proof.
    unfold is_stateless, count_methods. rewrite should_skip_rename, field_rename. f_equal. f_equal.
    induction (field "body" c) as [|x xs IH]; cbn [map filter]; [reflexivity|].
    rewrite is_cls_rename. destruct (is_cls sl_method_cls x); cbn [List.length]; now rewrite IH.
  Qed.

  Lemma exempt_rename q c :
    q_sl_lookup_by_name q = false -> q_sl_exempt_test_name q = false -> q_sl_exempt_mixin_name q = false ->
    exempt q [] (rename sg c) = exempt q [] c.
  Proof.
    intros H1 H2 H3. unfold exempt, test_pred, mixin_pred. rewrite H1, H2, H3. cbn [andb orb]. rewrite field_rename.
    rewrite !andb_false_r, !orb_false_r. f_equal.
    apply existsb_map_rename. intro u. rewrite base_name_rename. apply smem_keeps. apply K. intros k Hk.
    right. apply in_or_app. right. apply in_or_app. right. apply in_or_app. now right.
  Qed.

  Theorem stateless_rename q file :
    q_sl_lookup_by_name q = false -> q_sl_exempt_test_name q = false -> q_sl_exempt_mixin_name q = false ->
    stateless_reports q (renameF sg file) = map (renameR sg) (stateless_reports q file).
  Proof.
    intros H1 H2 H3. rewrite !(stateless_reports_own q _ H1).
    apply (renameF_commutes sl_step (sl_emit q) sg (fun s => []) (renameR sg)).
    - reflexivity.
    - intros s t. unfold sl_emit. rewrite is_cls_rename, erase_rename, is_stateless_rename, (exempt_rename q (erase t) H1 H2 H3).
      assert (E : exempt q s (erase t) = exempt q [] (erase t)) by (unfold exempt; now rewrite H1).
      rewrite E. destruct (is_cls sl_class_cls t) eqn:Ec; [|reflexivity]. cbn [andb].
      destruct (is_stateless sl_min_methods_default (erase t) && negb (exempt q [] (erase t))); [|reflexivity].
      cbn [map renameR]. rewrite (nsval_rename_nc sg t); [destruct t; reflexivity|].
      unfold is_cls in Ec. apply String.eqb_eq in Ec. now rewrite Ec.
  Qed.
End SlRename.
