(* Proofs/EditFacts.v — C13: the literals of Gen/EditGen.v the theorems rely on (these equations fail to check when the
   source changes), and the tie between those literals and the claimed quirk vector. *)
From TL Require Import Lib.Base Lib.GenTypes Gen.EditGen Model.PyStr Model.Edit.

Lemma gen_edit_facts :
  file_lines_sep = nl /\
  loc_line_seps = [nl; nl] /\ tokenize_line_seps = [nl; nl; nl] /\ block_filter_line_seps = [nl; nl; nl; nl] /\
  loc_strip_calls = ["count_loc"; "_node_loc"] /\ dry_block_window = 10.
Proof. repeat split; reflexivity. Qed.

(* FileLintContext.file_lines is the piece list the edit algebra acts on *)
Lemma file_lines_is_pieces content : split_on file_lines_sep content = pieces content.
Proof. reflexivity. Qed.
