(* Proofs/EditFacts.v — C13: the literals of Gen/EditGen.v the theorems rely on (these equations fail to check when the
   source changes), and the tie between those literals and the claimed quirk vector. *)
From TL Require Import Lib.Base Lib.GenTypes Gen.EditGen Model.PyStr Model.Ignore Model.Edit Model.EditRun Actual.EditActual.

Lemma gen_edit_facts :
  file_lines_sep = nl /\ file_read_encoding = "utf-8" /\
  ignore_line_splitters = ["splitlines"; "splitlines"; "splitlines"] /\
  loc_line_seps = [nl; nl] /\ tokenize_line_seps = [nl; nl; nl] /\ block_filter_line_seps = [nl; nl; nl; nl] /\
  loc_strip_calls = ["count_loc"; "_node_loc"] /\ dry_block_window = 10.
Proof. repeat split; reflexivity. Qed.

(* FileLintContext.file_lines is the piece list the edit algebra acts on *)
Lemma file_lines_is_pieces content : split_on file_lines_sep content = pieces content.
Proof. reflexivity. Qed.

(* the claimed vector says what the source says: the codec is not the BOM-stripping one; the suppression parser splits
   with str.splitlines at each of its three sites *)
Lemma actual_follows_source :
  e_bom_kept edit_actual = negb (String.eqb file_read_encoding "utf-8-sig") /\
  q_splitlines_unicode (e_ign edit_actual) = forallb (String.eqb "splitlines") ignore_line_splitters.
Proof. split; reflexivity. Qed.
