(* Proofs/MagicPy.v — C02 for Python: visit_Constant + is_acceptable_context + the definition-file
   detector report exactly the literals the documentation demands. *)
From Coq Require Import ZArith.
From TL Require Import Lib.Base Lib.GenTypes Gen.MagicGen Model.MagicNum Model.Magic Model.MagicSpec
     Proofs.MagicChars Proofs.MagicExtract Proofs.MagicFacts Proofs.MagicTs.

Arguments py_const_name : simpl never.
Arguments def_const_name : simpl never.
Arguments doc_upper_name : simpl never.
Arguments spec_upper_name : simpl never.
Arguments norm : simpl never.
Arguments digits_val : simpl never.
Arguments exp_val : simpl never.
Arguments nmem : simpl never.

(* outside the defect classes of the flags that are on *)
Definition py_site_plain (q : mquirks) (s : site) : bool :=
  (negb (q_py_upper_neg_flagged q) || negb (match s_ctx s with CUpperNeg => true | _ => false end))
  && (negb (q_py_upper_ann_flagged q) || negb (match s_ctx s with CUpperAnn => true | _ => false end))
  && (negb (q_py_upper_tuple_flagged q) || negb (match s_ctx s with CUpperTuple => true | _ => false end))
  && (negb (q_py_enumerate_kw_flagged q) || negb (match s_ctx s with CEnumerateKw => true | _ => false end))
  && (negb (q_py_upper_binop_flagged q) || negb (match s_ctx s with CUpperBinop => true | _ => false end)).

Definition py_file_plain (q : mquirks) (f : file) : bool :=
  forallb (fun sc => forallb (py_site_plain q) (sc_sites sc)) (f_scopes f).

(* ------------------------------------------------------------------ file names *)
(* s = x ++ suf for some x *)
Lemma ends_with_iff suf s : ends_with suf s = true <-> exists x, s = x ++ suf.
Proof.
  split.
  - induction s as [|c r IH]; cbn [ends_with]; intros H; apply orb_prop in H; destruct H as [H|H].
    + apply list_eqb_eq in H. exists []. exact H.
    + discriminate.
    + apply list_eqb_eq in H. exists []. exact H.
    + destruct (IH H) as [x ->]. exists (c :: x). reflexivity.
  - intros [x ->]. apply ends_with_app_self.
Qed.

Lemma ends_with_app_tail n e s : ends_with (n ++ e) (s ++ e) = ends_with n s.
Proof.
  apply Bool.eq_true_iff_eq. rewrite !ends_with_iff. split; intros [x H].
  - rewrite app_assoc in H. apply app_inv_tail in H. exists x. exact H.
  - exists x. rewrite H, app_assoc. reflexivity.
Qed.

Lemma ascii_eqb_sym a b : Ascii.eqb a b = Ascii.eqb b a.
Proof. destruct (Ascii.eqb a b) eqn:E; symmetry; [apply Ascii.eqb_eq in E; subst; apply Ascii.eqb_refl | apply Ascii.eqb_neq in E; apply Ascii.eqb_neq; congruence]. Qed.

Lemma prefix_l_refl s : prefix_l s s = true.
Proof. induction s as [|c r IH]; [reflexivity|]. cbn [prefix_l]. rewrite Ascii.eqb_refl. exact IH. Qed.

Lemma dot_free_cons c r : dot_free (c :: r) = true -> Ascii.eqb c_dot c = false /\ dot_free r = true.
Proof. unfold dot_free. cbn [existsb]. destruct (Ascii.eqb c_dot c); cbn [orb negb]; [discriminate|auto]. Qed.

(* a dot-free needle / text followed by the same ".xyz": the needle is a prefix only when it is the whole dot-free part *)
Lemma prefix_dot_tail e n : dot_free n = true -> forall s, dot_free s = true ->
  prefix_l (n ++ c_dot :: e) (s ++ c_dot :: e) = list_eqb s n.
Proof.
  induction n as [|a n' IH]; intros Hn s Hs.
  - destruct s as [|c r]; cbn [app prefix_l list_eqb].
    + rewrite Ascii.eqb_refl. apply prefix_l_refl.
    + apply dot_free_cons in Hs. destruct Hs as [Hc _]. rewrite Hc. reflexivity.
  - apply dot_free_cons in Hn. destruct Hn as [Ha Hn']. destruct s as [|c r]; cbn [app prefix_l list_eqb].
    + rewrite ascii_eqb_sym, Ha. reflexivity.
    + apply dot_free_cons in Hs. destruct Hs as [_ Hr]. rewrite (IH Hn' r Hr), (ascii_eqb_sym a c). reflexivity.
Qed.

Lemma contains_dot_tail e a n' : let n := a :: n' in dot_free n = true -> forall s, dot_free s = true ->
  contains (n ++ c_dot :: e) (s ++ c_dot :: e) = ends_with n s || contains (n ++ c_dot :: e) (c_dot :: e).
Proof.
  intros n Hn. induction s as [|c r IH]; intros Hs.
  - reflexivity.
  - change ((c :: r) ++ c_dot :: e) with (c :: (r ++ c_dot :: e)). cbn [contains ends_with].
    change (c :: r ++ c_dot :: e) with ((c :: r) ++ c_dot :: e). rewrite (prefix_dot_tail e n Hn (c :: r) Hs).
    apply dot_free_cons in Hs. destruct Hs as [_ Hr]. rewrite (IH Hr), orb_assoc. reflexivity.
Qed.

(* is_test_file (`name.startswith("test_") or "_test.py" in name`) = the documented test_*.py / *_test.py on every <stem>.py *)
Lemma py_test_name name : name_good MPy name = true -> py_is_test_file name = spec_is_test_file MPy name.
Proof.
  unfold name_good, py_base_ok, py_is_test_file, spec_is_test_file. intros H. apply andb_prop in H. destruct H as [He Hd].
  apply ends_with_iff in He. destruct He as [stem He]. rewrite He in Hd |- *. rewrite firstn_app_exact in Hd.
  assert (P : py_test_prefix = "test_" /\ py_test_infix = "_test.py") by (pose proof gen_py_names as G; inversion G; auto).
  destruct P as [-> ->]. f_equal.
  change (chars "_test.py") with (chars "_test" ++ c_dot :: chars "py"). change (chars ".py") with (c_dot :: chars "py").
  change (chars "_test") with ("_"%char :: chars "test").
  rewrite (contains_dot_tail (chars "py") "_"%char (chars "test") eq_refl stem Hd), ends_with_app_tail.
  replace (contains (("_"%char :: chars "test") ++ c_dot :: chars "py") (c_dot :: chars "py")) with false by reflexivity.
  apply orb_false_r.
Qed.

Lemma def_name_spec name : def_name_match name = spec_def_name name.
Proof.
  unfold def_name_match, spec_def_name. rewrite gen_def_patterns. cbn [existsb]. rewrite orb_false_r, orb_assoc. reflexivity.
Qed.

(* ------------------------------------------------------------------ one literal *)
Section Lit.
  Variables (q : mquirks) (cfg : mconfig).

  Definition py_exempt (s : pysite) : bool :=
    py_is_const_def q (p_anc s)
    || py_small_in py_range_value_types py_range_lo py_range_lo_cmp py_range_hi_cmp py_range_name cfg s
    || py_small_in py_enumerate_value_types py_enumerate_lo py_enumerate_lo_cmp py_enumerate_hi_cmp py_enumerate_name cfg s
    || (negb (q_py_enumerate_kw_flagged q)
        && py_small_kw py_enumerate_value_types py_enumerate_lo py_enumerate_lo_cmp py_enumerate_hi_cmp py_enumerate_name cfg s)
    || py_string_repetition s.

  Lemma py_site_report_eq t s :
    py_site_report q cfg t s =
    if negb (val_is (p_val s) py_numeric_types (excl (q_py_bool_is_number q) py_numeric_excluded)) then []
    else if nmem (val_num (p_val s)) (allowed cfg) then []
    else if t || py_exempt s then [] else [(p_line s, rval_of (p_val s))].
  Proof. unfold py_site_report, py_exempt. rewrite !orb_assoc. reflexivity. Qed.

  (* the exemption the analyzer computes for a numeric literal = the documented one *)
  Lemma py_ctx_exempt k c name l v line :
    ctx_ok MPy k c = true -> name_ok MPy c name = true -> lit_is_numeric l = true -> py_const l = Some v ->
    (negb (q_py_upper_neg_flagged q) || negb (match c with CUpperNeg => true | _ => false end)) = true ->
    (negb (q_py_upper_ann_flagged q) || negb (match c with CUpperAnn => true | _ => false end)) = true ->
    (negb (q_py_upper_tuple_flagged q) || negb (match c with CUpperTuple => true | _ => false end)) = true ->
    (negb (q_py_enumerate_kw_flagged q) || negb (match c with CEnumerateKw => true | _ => false end)) = true ->
    (negb (q_py_upper_binop_flagged q) || negb (match c with CUpperBinop => true | _ => false end)) = true ->
    py_exempt (mk_pysite v (py_ctx_chain c name l ++ py_scope_chain k) line)
    = ctx_is_const_def c || spec_usage_exempt cfg c l (lit_int_value l).
  Proof.
    intros Hc Hn Hnum Hv G1 G2 G3 G4 G5. unfold py_exempt, py_small_in, py_small_kw, py_string_repetition, name_ok in *.
    rewrite max_small_spec.
    replace py_range_name with "range" by reflexivity. replace py_enumerate_name with "enumerate" by reflexivity.
    replace py_range_lo with 0%Z by reflexivity. replace py_enumerate_lo with 0%Z by reflexivity.
    replace py_range_lo_cmp with CLe by reflexivity. replace py_range_hi_cmp with CLe by reflexivity.
    replace py_enumerate_lo_cmp with CLe by reflexivity. replace py_enumerate_hi_cmp with CLe by reflexivity.
    replace py_range_value_types with ["int"] by reflexivity. replace py_enumerate_value_types with ["int"] by reflexivity.
    replace py_strrep_value_types with ["int"] by reflexivity.
    cbn [p_val p_anc].
    destruct l as [r gs up sfx | ip fp ex sfx | b | st | st]; try discriminate; cbn [py_const] in Hv; inversion Hv; subst v; clear Hv;
      destruct c; cbn [ctx_is_const_def] in Hn; try (cbn in Hc; discriminate);
      try (apply andb_prop in Hn; destruct Hn as [Hn Hne]; apply andb_prop in Hn; destruct Hn as [Hn Hnr];
           apply negb_true_iff in Hne; apply negb_true_iff in Hnr; apply negb_true_iff in Hn);
      cbn [py_ctx_chain app py_is_const_def parent_is_call kw_parent_is_call lit_is_str spec_usage_exempt lit_is_int lit_int_value ctx_is_const_def
           val_isinstance val_types existsb smem val_int cmp_z upper_target negb andb orb];
      cbn;
      rewrite ?py_const_spec; try rewrite Hn;
      try rewrite Hnr; try rewrite Hne;
      try (destruct (q_py_upper_neg_flagged q); [discriminate G1|]);
      try (destruct (q_py_upper_ann_flagged q); [discriminate G2|]);
      try (destruct (q_py_upper_tuple_flagged q); [discriminate G3|]);
      try (destruct (q_py_enumerate_kw_flagged q); [discriminate G4|]);
      try (destruct (q_py_upper_binop_flagged q); [discriminate G5|]);
      cbn; try reflexivity;
      rewrite ?andb_false_r, ?andb_true_r, ?orb_false_r, ?orb_true_r; cbn [orb andb]; rewrite ?orb_false_r; try reflexivity.
  Qed.
End Lit.

(* ------------------------------------------------------------------ one literal: report *)
Definition to_py_lit (k : skind) (s : site) (l : lit) : list pysite :=
  match py_const l with
  | Some v => [mk_pysite v (py_ctx_chain (s_ctx s) (s_name s) l ++ py_scope_chain k) (s_line s)]
  | None => []
  end.

Lemma to_py_site_eq k s : to_py_site k s = flat_map (to_py_lit k s) (s_lits s).
Proof. reflexivity. Qed.

Lemma site_good_parts lg k s :
  site_good lg k s = true ->
  ctx_ok lg k (s_ctx s) = true /\ name_ok lg (s_ctx s) (s_name s) = true
  /\ match s_lits s with [] => false | [_] => true | _ => negb (single_lit_ctx (s_ctx s)) end = true
  /\ forallb (lit_ok lg) (s_lits s) = true.
Proof.
  unfold site_good. intros H. apply andb_prop in H. destruct H as [H H4]. apply andb_prop in H. destruct H as [H _].
  apply andb_prop in H. destruct H as [H H3]. apply andb_prop in H. destruct H as [H1 H2]. repeat split; assumption.
Qed.

Lemma py_site_plain_parts q s :
  py_site_plain q s = true ->
  (negb (q_py_upper_neg_flagged q) || negb (match s_ctx s with CUpperNeg => true | _ => false end)) = true
  /\ (negb (q_py_upper_ann_flagged q) || negb (match s_ctx s with CUpperAnn => true | _ => false end)) = true
  /\ (negb (q_py_upper_tuple_flagged q) || negb (match s_ctx s with CUpperTuple => true | _ => false end)) = true
  /\ (negb (q_py_enumerate_kw_flagged q) || negb (match s_ctx s with CEnumerateKw => true | _ => false end)) = true
  /\ (negb (q_py_upper_binop_flagged q) || negb (match s_ctx s with CUpperBinop => true | _ => false end)) = true.
Proof.
  unfold py_site_plain. intros H. apply andb_prop in H. destruct H as [H H5]. apply andb_prop in H. destruct H as [H H4]. apply andb_prop in H. destruct H as [H H3].
  apply andb_prop in H. destruct H as [H1 H2]. repeat split; assumption.
Qed.

Lemma py_lit_exact q cfg sc s l (t : bool) :
  site_good MPy (sc_kind sc) s = true -> py_site_plain q s = true -> In l (s_lits s) ->
  flat_map (py_site_report q cfg t) (to_py_lit (sc_kind sc) s l) = spec_lit MPy cfg t sc s l.
Proof.
  intros Hg Hp Hin. destruct (site_good_parts _ _ _ Hg) as [Hctx [Hnm [_ _]]].
  destruct (py_site_plain_parts q s Hp) as [G1 [G2 [G3 [G4 G5]]]].
  destruct (excl_fact (q_py_bool_is_number q)) as [EX _].
  unfold to_py_lit, spec_lit.
  destruct (lit_is_numeric l) eqn:Hnum.
  - assert (Hv : exists v, py_const l = Some v /\ val_is v py_numeric_types ["bool"] = true
                           /\ lit_value l = Some (val_num v) /\ rval_of v = RNum (val_num v)).
    { destruct l; try discriminate; cbn [py_const lit_value lit_raw option_map]; eexists; (split; [reflexivity|]); (split; [reflexivity|]); split; reflexivity. }
    destruct Hv as [v [Ev [Hi [Hval Hrv]]]]. rewrite Ev. cbn [flat_map]. rewrite app_nil_r.
    rewrite py_site_report_eq. cbn [p_val p_line]. rewrite EX, Hi. cbn [negb]. rewrite Hval, Hrv, allowed_spec.
    rewrite (py_ctx_exempt q cfg _ _ _ _ _ _ Hctx Hnm Hnum Ev G1 G2 G3 G4 G5).
    unfold spec_site_exempt. cbn [orb]. reflexivity.
  - rewrite (lit_value_numeric l Hnum).
    destruct l as [ | | b | st | st]; try discriminate; cbn [py_const flat_map]; try reflexivity;
      rewrite app_nil_r, py_site_report_eq; cbn [p_val]; rewrite EX; reflexivity.
Qed.

(* ------------------------------------------------------------------ the definition-file detector *)
Lemma sum_nat_app a b : sum_nat (a ++ b) = sum_nat a + sum_nat b.
Proof. unfold sum_nat. induction a as [|x xs IH]; [reflexivity|]. cbn [app fold_right]. rewrite IH. lia. Qed.

Lemma map_flat_map {A B C} (g : B -> C) (h : A -> list B) l : map g (flat_map h l) = flat_map (fun x => map g (h x)) l.
Proof. induction l as [|x xs IH]; [reflexivity|]. cbn [flat_map]. rewrite map_app, IH. reflexivity. Qed.

Lemma sum_nat_flat_map {A} (h : A -> list nat) l : sum_nat (flat_map h l) = sum_nat (map (fun x => sum_nat (h x)) l).
Proof. induction l as [|x xs IH]; [reflexivity|]. cbn [flat_map map]. rewrite sum_nat_app, IH. reflexivity. Qed.

Lemma existsb_flat_map {A B} (p : B -> bool) (h : A -> list B) l : existsb p (flat_map h l) = existsb (fun x => existsb p (h x)) l.
Proof. induction l as [|x xs IH]; [reflexivity|]. cbn [flat_map existsb]. rewrite existsb_app, IH. reflexivity. Qed.

Lemma existsb_map {A B} (p : B -> bool) (h : A -> B) l : existsb p (map h l) = existsb (fun x => p (h x)) l.
Proof. induction l as [|x xs IH]; [reflexivity|]. cbn [map existsb]. rewrite IH. reflexivity. Qed.

Lemma existsb_ext_in {A} (p r : A -> bool) l : (forall x, In x l -> p x = r x) -> existsb p l = existsb r l.
Proof. induction l as [|x xs IH]; intros H; [reflexivity|]. cbn [existsb]. rewrite (H x (or_introl eq_refl)), IH; [reflexivity|]. intros y Hy. apply H. right. exact Hy. Qed.

Definition spec_upper_site (k : skind) (s : site) : nat :=
  match k with
  | STop => match s_ctx s, s_lits s with CUpper, [l] => b2n (lit_is_numeric l && doc_upper_name (s_name s)) | _, _ => 0 end
  | _ => 0
  end.

(* the chain of a constant is [Assign; Module] only for `name = L` at module level *)
Lemma count_site_other q k c name l v line :
  match k, c with STop, (CAssign | CUpper) => False | _, _ => True end ->
  def_upper_count_site (q_py_bool_is_number q) (mk_pysite v (py_ctx_chain c name l ++ py_scope_chain k) line) = 0.
Proof. intros H. destruct k, c; try destruct H; reflexivity. Qed.

Lemma sum_zero {A} (g : A -> nat) l : (forall x, In x l -> g x = 0) -> sum_nat (map g l) = 0.
Proof. induction l as [|x xs IH]; intros H; [reflexivity|]. cbn [map sum_nat fold_right]. rewrite (H x (or_introl eq_refl)). apply IH. intros y Hy. apply H. right. exact Hy. Qed.

Lemma count_site q k s :
  site_good MPy k s = true ->
  sum_nat (map (def_upper_count_site (q_py_bool_is_number q)) (to_py_site k s)) = spec_upper_site k s.
Proof.
  intros Hg. destruct (site_good_parts _ _ _ Hg) as [Hctx [Hnm [Hlen _]]].
  destruct (excl_fact (q_py_bool_is_number q)) as [_ [EX _]].
  destruct s as [c name lits line]. cbn [s_ctx s_name s_lits s_line] in *.
  assert (OTHER : match k, c with STop, (CAssign | CUpper) => False | _, _ => True end ->
                  sum_nat (map (def_upper_count_site (q_py_bool_is_number q)) (to_py_site k (mk_site c name lits line))) = 0).
  { intros H. apply sum_zero. intros x Hx. unfold to_py_site in Hx. apply in_flat_map in Hx. destruct Hx as [l [_ Hx]].
    cbn [s_lits s_ctx s_name s_line] in Hx. destruct (py_const l); [|destruct Hx]. destruct Hx as [<-|[]].
    apply count_site_other. exact H. }
  unfold spec_upper_site. cbn [s_ctx s_lits].
  destruct k; try (rewrite OTHER by (destruct c; exact I); destruct c; reflexivity).
  destruct c; try (rewrite OTHER by exact I; reflexivity).
  - (* CAssign at module level: a lower-case name is not counted *)
    destruct lits as [|l [|l2 r]]; try discriminate. unfold name_ok in Hnm. cbn [ctx_is_const_def] in Hnm.
    apply andb_prop in Hnm. destruct Hnm as [Hnm _]. apply andb_prop in Hnm. destruct Hnm as [Hnm _]. apply negb_true_iff in Hnm.
    unfold to_py_site. cbn [s_lits s_ctx s_name s_line flat_map]. rewrite app_nil_r.
    destruct (py_const l) as [v|]; [|reflexivity]. cbn [map sum_nat fold_right py_ctx_chain py_scope_chain app def_upper_count_site p_anc p_val].
    destruct (val_is v def_numeric_types (excl (q_py_bool_is_number q) def_numeric_excluded)); [|reflexivity].
    cbn [filter]. rewrite (spec_not_upper_def name Hnm). reflexivity.
  - (* CUpper at module level *)
    destruct lits as [|l [|l2 r]]; try discriminate. unfold name_ok in Hnm. cbn [ctx_is_const_def] in Hnm.
    unfold to_py_site. cbn [s_lits s_ctx s_name s_line flat_map]. rewrite app_nil_r.
    destruct l as [r gs up sfx | ip fp ex sfx | b | st | st]; cbn [py_const lit_is_numeric b2n map sum_nat fold_right]; try reflexivity.
    + cbn [py_ctx_chain py_scope_chain app def_upper_count_site p_anc p_val]. rewrite EX. replace def_numeric_types with ["int"; "float"] by reflexivity.
      cbn. rewrite def_const_doc. destruct (doc_upper_name name); reflexivity.
    + cbn [py_ctx_chain py_scope_chain app def_upper_count_site p_anc p_val]. rewrite EX. replace def_numeric_types with ["int"; "float"] by reflexivity.
      cbn. rewrite def_const_doc. destruct (doc_upper_name name); reflexivity.
    + cbn [py_ctx_chain py_scope_chain app def_upper_count_site p_anc p_val]. rewrite EX. reflexivity.
Qed.

Definition spec_dict_site (s : site) : bool :=
  match s_ctx s with CDictKeys => 5 <=? List.length (filter lit_is_int (s_lits s)) | _ => false end.

Lemma int_keys_dict q k s0 all :
  s_ctx s0 = CDictKeys ->
  def_int_keys (q_py_bool_is_number q) (flat_map (to_py_lit k s0) all) = List.length (filter lit_is_int all).
Proof.
  intros Ec. destruct (excl_fact (q_py_bool_is_number q)) as [_ [_ EX]].
  induction all as [|l r IH]; [reflexivity|].
  cbn [flat_map]. unfold def_int_keys in *. rewrite filter_app, app_length, IH. cbn [filter].
  unfold to_py_lit. rewrite Ec, EX. replace def_int_key_types with ["int"] by reflexivity.
  destruct l as [r0 gs up sfx | ip fp ex sfx | b | st | st]; cbn [py_const lit_is_int]; reflexivity.
Qed.

Lemma int_keys_other q k s0 all :
  match s_ctx s0 with CDictKeys => False | _ => True end ->
  def_int_keys (q_py_bool_is_number q) (flat_map (to_py_lit k s0) all) = 0.
Proof.
  intros Hc. induction all as [|l r IH]; [reflexivity|].
  cbn [flat_map]. unfold def_int_keys in *. rewrite filter_app, app_length, IH.
  unfold to_py_lit. destruct (py_const l) as [v|]; [|reflexivity].
  destruct (s_ctx s0); try destruct Hc; reflexivity.
Qed.

Lemma dict_site q k s :
  cmp_nat def_min_dict_cmp (def_int_keys (q_py_bool_is_number q) (to_py_site k s)) def_min_dict = spec_dict_site s.
Proof.
  replace def_min_dict_cmp with CGe by reflexivity. replace def_min_dict with 5 by reflexivity. cbn [cmp_nat].
  rewrite to_py_site_eq. unfold spec_dict_site. destruct (s_ctx s) eqn:Ec;
    try (rewrite int_keys_other by (rewrite Ec; exact I); reflexivity).
  rewrite int_keys_dict; [reflexivity | exact Ec].
Qed.

Lemma py_definition_file q f :
  file_good MPy f = true -> py_is_definition_file q (f_name f) (to_py f) = spec_is_definition_file f.
Proof.
  intros Hg. unfold file_good in Hg. apply andb_prop in Hg. destruct Hg as [_ Hscopes].
  rewrite forallb_forall in Hscopes.
  unfold py_is_definition_file, spec_is_definition_file. rewrite def_name_spec.
  replace def_min_upper_cmp with CGe by reflexivity. replace def_min_upper with 10 by reflexivity. cbn [cmp_nat].
  f_equal; [f_equal; f_equal|].
  - unfold to_py, spec_upper_defs. rewrite map_flat_map, sum_nat_flat_map. f_equal. apply map_ext_in. intros sc Hsc.
    specialize (Hscopes sc Hsc). unfold scope_good in Hscopes. apply andb_prop in Hscopes. destruct Hscopes as [Hsites _].
    rewrite forallb_forall in Hsites. rewrite map_map.
    assert (E : map (fun s => sum_nat (map (def_upper_count_site (q_py_bool_is_number q)) (to_py_site (sc_kind sc) s))) (sc_sites sc)
                = map (spec_upper_site (sc_kind sc)) (sc_sites sc)).
    { apply map_ext_in. intros s Hs. apply count_site. apply Hsites. exact Hs. }
    rewrite E. clear. unfold spec_upper_site. destruct (sc_kind sc); try (apply sum_zero; reflexivity).
    induction (sc_sites sc) as [|s r IH]; [reflexivity|]. cbn [map filter]. unfold sum_nat in *. cbn [fold_right]. rewrite IH.
    destruct (s_ctx s); try reflexivity. destruct (s_lits s) as [|l [|l2 r2]]; try reflexivity. destruct (lit_is_numeric l && doc_upper_name (s_name s)); reflexivity.
  - unfold to_py, spec_has_int_dict. rewrite existsb_flat_map. apply existsb_ext_in. intros sc Hsc.
    rewrite existsb_map. apply existsb_ext_in. intros s Hs. apply dict_site.
Qed.

(* ------------------------------------------------------------------ main theorem (Python) *)
Theorem py_report_guarded q cfg f :
  file_good MPy f = true -> py_file_plain q f = true -> py_report q cfg f = spec_report MPy cfg f.
Proof.
  intros Hg Hp. unfold py_report. rewrite (py_definition_file q f Hg).
  assert (Hname : name_good MPy (f_name f) = true) by (unfold file_good in Hg; apply andb_prop in Hg; tauto).
  assert (Hscopes : forallb (scope_good MPy) (f_scopes f) = true) by (unfold file_good in Hg; apply andb_prop in Hg; tauto).
  unfold spec_report, spec_file_exempt. rewrite (py_test_name _ Hname).
  destruct (spec_is_definition_file f).
  - (* a constants-definition module: nothing is demanded, nothing is reported *)
    rewrite orb_true_r. symmetry. apply flat_map_nil. intros sc _. apply flat_map_nil. intros s _. apply flat_map_nil. intros l _.
    unfold spec_lit. destruct (lit_value l); [|reflexivity]. destruct (nmem n (spec_allowed cfg)); reflexivity.
  - rewrite orb_false_r. unfold to_py. rewrite flat_map_flat_map. apply flat_map_ext_in. intros sc Hsc.
    rewrite flat_map_map. apply flat_map_ext_in. intros s Hs.
    unfold py_file_plain in Hp. rewrite forallb_forall in Hscopes, Hp. specialize (Hscopes sc Hsc). specialize (Hp sc Hsc).
    unfold scope_good in Hscopes. apply andb_prop in Hscopes. destruct Hscopes as [Hsites _]. rewrite forallb_forall in Hsites, Hp.
    rewrite to_py_site_eq, flat_map_flat_map. apply flat_map_ext_in. intros l Hl.
    apply py_lit_exact; [apply Hsites; exact Hs | apply Hp; exact Hs | exact Hl].
Qed.

Lemma py_plain_ideal q f :
  q_py_upper_neg_flagged q = false -> q_py_upper_ann_flagged q = false ->
  q_py_upper_tuple_flagged q = false -> q_py_enumerate_kw_flagged q = false -> q_py_upper_binop_flagged q = false -> py_file_plain q f = true.
Proof.
  intros H2 H3 H4 H5 H6. unfold py_file_plain. rewrite forallb_forall. intros sc _. rewrite forallb_forall. intros s _.
  unfold py_site_plain. rewrite H2, H3, H4, H5, H6. reflexivity.
Qed.

(* whether bool is excluded because the source says so (flag on) or because the property says so (flag off) *)
Theorem py_report_exact q cfg f :
  q_py_upper_neg_flagged q = false -> q_py_upper_ann_flagged q = false ->
  q_py_upper_tuple_flagged q = false -> q_py_enumerate_kw_flagged q = false -> q_py_upper_binop_flagged q = false ->
  file_good MPy f = true -> py_report q cfg f = spec_report MPy cfg f.
Proof. intros H2 H3 H4 H5 H6 Hg. apply py_report_guarded; [exact Hg | apply py_plain_ideal; assumption]. Qed.
