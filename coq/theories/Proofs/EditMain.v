(* Proofs/EditMain.v — C13: the suppression decision on a CRLF text (Proofs/EditLines.v + Model/Ignore.v). *)
From TL Require Import Lib.Base Lib.GenTypes Gen.IgnoreGen Model.PyStr Model.Ignore Model.Edit Proofs.EditLines.

Theorem should_ignore_crlf q repo content v r : no_cr content = true ->
  should_ignore q repo (to_crlf content) v r = should_ignore q repo content v r.
Proof.
  intro H. unfold should_ignore, lines_of. destruct (q_splitlines_unicode q).
  - now rewrite (splitlines_to_crlf content H).
  - now rewrite (split_newlines_to_crlf content H).
Qed.
