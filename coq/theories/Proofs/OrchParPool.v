(* Proofs/OrchParPool.v — worker assignment does not matter: if the outcome of lint_file does not depend on the
   process-level state a pooled worker carries from earlier tasks, the pooled run IS the run of Model/OrchPar.v
   (one fresh process per file), for every assignment of tasks to workers; and the hypothesis is necessary. *)
From Coq Require Import Permutation.
From TL Require Import Lib.Base Lib.GenTypes Model.OrchParTypes Gen.OrchParGen Model.OrchPar Model.OrchParPool
     Proofs.OrchParDict Proofs.OrchParMain.

Section PoolProofs.
  Variables file evidence wstate : Type.
  Variable step : wstate -> file -> option (list violation) * wstate.
  Variable init : wstate.
  Variable collect : file -> evidence.
  Variable report : list evidence -> list violation.
  Variable parent_sees : file -> bool.

  Let perfile := fresh_perfile file wstate step init.

  (* the outcome for a file is the same whatever the worker has served before *)
  Hypothesis state_irrelevant : forall s f, fst (step s f) = fst (step init f).

  Lemma all_some_mapM {A B} (g : A -> option B) l : all_some (map g l) = mapM g l.
  Proof.
    induction l as [|x xs IH]; [reflexivity|]. cbn [map all_some mapM].
    destruct (g x); [|reflexivity]. now rewrite IH.
  Qed.

  Lemma pool_results_fresh q st assign files :
    pool_results file wstate step q st assign files = map (worker file perfile q) files.
  Proof.
    revert st assign. induction files as [|f fs IH]; intros st assign; [reflexivity|].
    cbn [pool_results map]. destruct (step (st (hd 0 assign)) f) as [r s'] eqn:E.
    rewrite IH. f_equal. unfold worker, perfile, fresh_perfile.
    rewrite <- (state_irrelevant (st (hd 0 assign)) f), E. reflexivity.
  Qed.

  (* 1. the pooled run is the fresh-process run, for every assignment (any length, any worker ids) *)
  Theorem pooled_is_fresh q mw cpu assign sched files :
    par_run_pooled file evidence wstate step init collect report parent_sees q mw cpu assign sched files
    = par_run file evidence perfile collect report parent_sees q mw cpu sched files.
  Proof.
    unfold par_run_pooled, par_run. destruct files as [|f fs]; [reflexivity|].
    destruct (below_threshold file mw cpu (f :: fs)); [reflexivity|].
    rewrite pool_results_fresh, all_some_mapM. reflexivity.
  Qed.

  (* 2. hence: two assignments of the tasks to the workers give the same result *)
  Corollary assignment_independent q mw cpu a1 a2 sched files :
    par_run_pooled file evidence wstate step init collect report parent_sees q mw cpu a1 sched files
    = par_run_pooled file evidence wstate step init collect report parent_sees q mw cpu a2 sched files.
  Proof. now rewrite !pooled_is_fresh. Qed.

  (* 3. and the main theorem transfers to the pooled run *)
  Hypothesis perfile_wf : forall f vs, perfile f = Some vs -> forallb wf_violation vs = true.
  Hypothesis report_nil : report [] = [].

  Theorem pooled_equals_seq q mw cpu assign sched files :
    Permutation sched (seq 0 (List.length files)) ->
    out_equiv (par_run_pooled file evidence wstate step init collect report parent_sees q mw cpu assign sched files)
              (seq_run file evidence perfile collect report files).
  Proof.
    intros S. rewrite pooled_is_fresh.
    now apply (par_equals_seq_source file evidence perfile collect report parent_sees perfile_wf report_nil).
  Qed.
End PoolProofs.

(* the hypothesis is necessary: a linter whose finding depends on how many files its process served before
   (state = a counter shown in the line number) gives different results under two assignments *)
Definition cnt_v (n : nat) : violation :=
  [("rule_id", VStr "r"); ("file_path", VStr "a.py"); ("line", VInt false n); ("column", VInt false 0);
   ("message", VStr "m"); ("severity", VEnum "Severity" "ERROR"); ("suggestion", VNone)].
Definition cnt_step (s : nat) (f : nat) : option (list violation) * nat := (Some [cnt_v s], S s).

Example stateful_worker_breaks_assignment_independence :
  par_run_pooled nat nat nat cnt_step 0 (fun f => f) (fun _ => []) (fun _ => true) ideal (Some 1) 16 [0;0] [0;1] [0;1]
  <> par_run_pooled nat nat nat cnt_step 0 (fun f => f) (fun _ => []) (fun _ => true) ideal (Some 1) 16 [0;1] [0;1] [0;1].
Proof. vm_compute. discriminate. Qed.
