(* Proofs/RegexLoopLocal.v — the regex-in-loop detector (Model/RegexLoop.v):
   * every quirk vector: n copies give n moved report lists (the name facts are used through membership only);
   * q_rx_file_wide_names = false: the embedding law for every context whose wrappers are neither loops nor import /
     assignment statements and whose parts contain no loop and bind no regex name at the level of their scope - what such
     a context binds INSIDE its own functions and classes does not matter;
   * q_rx_file_wide_names = true (confinement): the same law for contexts that bind no regex name anywhere. *)
From Coq Require Import Permutation.
From TL Require Import Lib.Base Lib.GenTypes Gen.EmbedGen Gen.Embed2Gen Model.Embed Model.PrintStmt Model.PerfConcat Model.RegexLoop
     Proofs.EmbedLocality Proofs.PrintStmtLocal Proofs.PerfConcatLocal.

Lemma rx_default_is_module : rx_default_alias = rx_module.
Proof. reflexivity. Qed.

(* ------------------------------------------------------------------ position independence *)
Lemma rx_node_shift dl dc t : rx_node (shift dl dc t) = rx_node t.
Proof. unfold rx_node. now rewrite erase_shift. Qed.

Lemma names_all_node i ks : names_all (Node i ks) = rx_node (Node i ks) ++ flat_map names_all ks.
Proof. reflexivity. Qed.
Lemma names_sc_node i ks :
  names_sc (Node i ks) = if is_scope (Node i ks) then [] else rx_node (Node i ks) ++ flat_map names_sc ks.
Proof. reflexivity. Qed.

Lemma names_sc_shift dl dc t : names_sc (shift dl dc t) = names_sc t.
Proof.
  induction t as [i ks IH] using ast_ind'.
  rewrite shift_node, names_sc_node. rewrite <- shift_node.
  rewrite is_scope_shift, rx_node_shift, names_sc_node.
  destruct (is_scope (Node i ks)); [reflexivity|]. f_equal.
  rewrite flat_map_map. apply flat_map_ext_F. exact IH.
Qed.
Lemma names_all_shift dl dc t : names_all (shift dl dc t) = names_all t.
Proof.
  induction t as [i ks IH] using ast_ind'.
  rewrite shift_node, names_all_node. rewrite <- shift_node.
  rewrite rx_node_shift, names_all_node. f_equal.
  rewrite flat_map_map. apply flat_map_ext_F. exact IH.
Qed.
Lemma names_scF_shift dl dc ts : names_scF (shiftF dl dc ts) = names_scF ts.
Proof.
  unfold names_scF, shiftF. rewrite flat_map_map. apply flat_map_ext_F.
  apply Forall_forall. intros k _. apply names_sc_shift.
Qed.
Lemma names_allF_shift dl dc ts : names_allF (shiftF dl dc ts) = names_allF ts.
Proof.
  unfold names_allF, shiftF. rewrite flat_map_map. apply flat_map_ext_F.
  apply Forall_forall. intros k _. apply names_all_shift.
Qed.
Lemma names_scF_app a b : names_scF (a ++ b) = names_scF a ++ names_scF b.
Proof. apply flat_map_app. Qed.
Lemma names_allF_app a b : names_allF (a ++ b) = names_allF a ++ names_allF b.
Proof. apply flat_map_app. Qed.

Lemma rx_loop_type_shift dl dc t : rx_loop_type (shift dl dc t) = rx_loop_type t.
Proof. unfold rx_loop_type. now rewrite ncls_shift. Qed.

Lemma rx_enter_shift q g dl dc t : rx_enter q g (shift dl dc t) = rx_enter q g t.
Proof.
  unfold rx_enter. destruct (q_rx_file_wide_names q); [reflexivity|].
  rewrite is_scope_shift, nkids_shift. destruct (is_scope t); [|reflexivity]. f_equal. apply names_scF_shift.
Qed.

Lemma rx_step_shift q dl dc s t : rx_step q s (shift dl dc t) = rx_step q s t.
Proof. unfold rx_step. now rewrite rx_loop_type_shift, rx_enter_shift. Qed.

Lemma rx_emit_shift dl dc s t : rx_emit s (shift dl dc t) = shiftRs dl dc (rx_emit s t).
Proof.
  unfold rx_emit. rewrite erase_shift. destruct (String.eqb (fst s) ""); [reflexivity|].
  destruct (rx_call (snd s) (erase t)) as [[m x]|]; destruct t as [i ks]; reflexivity.
Qed.

(* ------------------------------------------------------------------ membership is all that matters *)
Definition eqs (g1 g2 : list fact) : Prop := forall e, In e g1 <-> In e g2.

Lemma eqs_refl g : eqs g g.
Proof. intro e. tauto. Qed.

Lemma existsb_eqs (p : fact -> bool) g1 g2 : eqs g1 g2 -> existsb p g1 = existsb p g2.
Proof.
  intro H. apply Bool.eq_true_iff_eq. rewrite !existsb_exists.
  split; intros [x [Hx Hp]]; exists x; (split; [now apply H|exact Hp]).
Qed.

Lemma existsb_ext_p {A} (p p' : A -> bool) l : (forall e, p e = p' e) -> existsb p l = existsb p' l.
Proof. intro H. induction l as [|x xs IH]; cbn [existsb]; [reflexivity|]. now rewrite H, IH. Qed.

Lemma is_alias_ext g1 g2 y : eqs g1 g2 -> is_alias g1 y = is_alias g2 y.
Proof. intro H. unfold is_alias. f_equal. now apply existsb_eqs. Qed.
Lemma is_direct_ext g1 g2 y : eqs g1 g2 -> is_direct g1 y = is_direct g2 y.
Proof. intro H. unfold is_direct. now apply existsb_eqs. Qed.
Lemma is_compiled_ext g1 g2 y : eqs g1 g2 -> is_compiled g1 y = is_compiled g2 y.
Proof.
  intro H. unfold is_compiled. rewrite (existsb_eqs _ g1 g2 H). apply existsb_ext_p.
  intro e. now rewrite (is_alias_ext g1 g2 (f_base e) H).
Qed.

Lemma rx_call_ext g1 g2 t : eqs g1 g2 -> rx_call g1 t = rx_call g2 t.
Proof.
  intro H. unfold rx_call. destruct (is_cls rx_call_cls t); [|reflexivity].
  destruct (field "func" t) as [|f [|f' r]]; try reflexivity.
  destruct (is_cls rx_func_attr_cls f).
  - destruct (smem (nsval f) rx_functions); [|reflexivity].
    destruct (field "value" f) as [|b [|b' r]]; try reflexivity.
    now rewrite (is_compiled_ext g1 g2 (nsval b) H), (is_alias_ext g1 g2 (nsval b) H).
  - now rewrite (is_direct_ext g1 g2 (nsval f) H).
Qed.

Lemma rx_emit_ext l g1 g2 t : eqs g1 g2 -> rx_emit (l, g1) t = rx_emit (l, g2) t.
Proof. intro H. unfold rx_emit. cbn [fst snd]. now rewrite (rx_call_ext g1 g2 (erase t) H). Qed.

Lemma rx_enter_ext q g1 g2 t : eqs g1 g2 -> eqs (rx_enter q g1 t) (rx_enter q g2 t).
Proof.
  intro H. unfold rx_enter. destruct (q_rx_file_wide_names q); [exact H|].
  destruct (is_scope t); [|exact H]. intro e. rewrite !in_app_iff. specialize (H e). tauto.
Qed.

Lemma rx_detect_ext q t : forall l g1 g2, eqs g1 g2 ->
  detect (rx_step q) rx_emit (l, g1) t = detect (rx_step q) rx_emit (l, g2) t.
Proof.
  induction t as [i ks IH] using ast_ind'. intros l g1 g2 H. rewrite !detect_node.
  rewrite (rx_emit_ext l g1 g2 (Node i ks) H). f_equal.
  apply flat_map_ext_F. eapply Forall_impl; [|exact IH]. intros k Hk.
  unfold rx_step. cbn [fst snd]. apply Hk. now apply rx_enter_ext.
Qed.

Lemma rx_detectF_ext q ts l g1 g2 : eqs g1 g2 ->
  detectF (rx_step q) rx_emit (l, g1) ts = detectF (rx_step q) rx_emit (l, g2) ts.
Proof. intro H. unfold detectF. apply flat_map_ext. intro k. now apply rx_detect_ext. Qed.

Lemma copies_eqs (N : list ast -> list fact) :
  (forall a b, N (a ++ b) = N a ++ N b) -> (forall dl dc ts, N (shiftF dl dc ts) = N ts) -> N [] = [] ->
  forall h frag ks, ks <> [] -> eqs (N (flat_map (fun k => shiftF (k * h) 0 frag) ks)) (N frag).
Proof.
  intros Happ Hsh Hnil h frag. induction ks as [|k ks IH]; [congruence|]. intros _.
  cbn [flat_map]. rewrite Happ, Hsh. destruct ks as [|k' ks'].
  - cbn [flat_map]. rewrite Hnil, app_nil_r. apply eqs_refl.
  - intro e. rewrite in_app_iff. specialize (IH ltac:(discriminate) e). tauto.
Qed.

Theorem rx_copies q n h frag :
  rx_reports q (copies n h frag) = flat_map (fun k => shiftRs (k * h) 0 (rx_reports q frag)) (seq 0 n).
Proof.
  unfold rx_reports. destruct n as [|n]; [reflexivity|].
  rewrite (rx_detectF_ext q (copies (S n) h frag) "" _ (rx_names0 q frag)).
  - apply (copies_local (rx_step q) rx_emit (rx_step_shift q) rx_emit_shift).
  - unfold rx_names0, copies. destruct (q_rx_file_wide_names q).
    + apply (copies_eqs names_allF names_allF_app names_allF_shift eq_refl). cbn [seq]. discriminate.
    + apply (copies_eqs names_scF names_scF_app names_scF_shift eq_refl). cbn [seq]. discriminate.
Qed.

(* ------------------------------------------------------------------ loop-free code is silent outside a loop *)
Lemma rx_loop_free_node i ks :
  rx_loop_free (Node i ks) = match rx_loop_type (Node i ks) with Some _ => false | None => forallb rx_loop_free ks end.
Proof. reflexivity. Qed.

Lemma flat_map_nil' {A B} (f : A -> list B) l : Forall (fun x => f x = []) l -> flat_map f l = [].
Proof. induction 1 as [|x xs Hx _ IH]; cbn [flat_map]; [reflexivity|]. now rewrite Hx, IH. Qed.

Lemma rx_loop_free_silent q t : rx_loop_free t = true -> forall g, detect (rx_step q) rx_emit ("", g) t = [].
Proof.
  induction t as [i ks IH] using ast_ind'. intros H g. rewrite rx_loop_free_node in H.
  rewrite detect_node. change (rx_emit ("", g) (Node i ks)) with (@nil rep). cbn [app].
  unfold rx_step. destruct (rx_loop_type (Node i ks)); [discriminate|]. cbn [fst snd].
  rewrite forallb_forall in H. apply flat_map_nil'. rewrite Forall_forall in IH |- *.
  intros k Hk. apply (IH k Hk (H k Hk)).
Qed.

Lemma rx_loop_free_all_silent q ks g : forallb rx_loop_free ks = true -> detectF (rx_step q) rx_emit ("", g) ks = [].
Proof.
  intro H. unfold detectF. apply flat_map_nil'. apply Forall_forall. intros k Hk.
  rewrite forallb_forall in H. now apply rx_loop_free_silent, H.
Qed.

Lemma rx_quiet_facts q ks : rx_quiet ks = true ->
  (forall g, detectF (rx_step q) rx_emit ("", g) ks = []) /\ names_scF ks = [].
Proof.
  unfold rx_quiet. intro H. apply andb_true_iff in H. destruct H as [H1 H2]. split.
  - intro g. now apply rx_loop_free_all_silent.
  - destruct (names_scF ks); [reflexivity|discriminate].
Qed.

(* a wrapper that is no binder statement contributes no fact of its own *)
Lemma wrap_no_fact i ks : smem (cls i) rx_binder_classes = false -> rx_node (Node i ks) = [].
Proof.
  unfold rx_binder_classes. cbn [smem]. intro H. unfold rx_node, rx_node0, is_cls, ncls. cbn [erase ninfo erase_info cls].
  destruct (String.eqb (cls i) rx_import_cls); [discriminate|].
  destruct (String.eqb (cls i) rx_importfrom_cls); [discriminate|].
  destruct (String.eqb (cls i) rx_assign_cls); [discriminate|].
  destruct (String.eqb (cls i) rx_annassign_cls); [discriminate|]. reflexivity.
Qed.

Lemma rx_wrap_parts i pre post : rx_wrap_ok i pre post = true ->
  assoc (cls i) rx_loop_types = None /\ smem (cls i) rx_binder_classes = false /\ rx_quiet pre = true /\ rx_quiet post = true.
Proof.
  unfold rx_wrap_ok. intro H. repeat (apply andb_true_iff in H; destruct H as [H ?]).
  repeat split; try assumption.
  - destruct (assoc (cls i) rx_loop_types); [discriminate|reflexivity].
  - now apply negb_true_iff.
Qed.

(* ------------------------------------------------------------------ names from the enclosing scopes only *)
Section Ideal.
  Variable q : rquirks.
  Hypothesis Hq : q_rx_file_wide_names q = false.
  Notation D := (detectF (rx_step q) rx_emit).

  Lemma rx_plug c frag : rx_ctx_ok c = true -> forall g,
    D ("", g ++ names_scF (plug c frag)) (plug c frag) =
    shiftRs (off_l c) (off_c c) (D ("", g ++ names_scF frag) frag).
  Proof.
    induction c as [|i pre post dl dc c' IH|pre dl c' IH post]; cbn [rx_ctx_ok]; intros H g.
    - cbn [plug off_l off_c]. now rewrite shiftRs_0.
    - apply andb_true_iff in H. destruct H as [Hw Hc]. specialize (IH Hc g).
      destruct (rx_wrap_parts i pre post Hw) as (Hl & Hb & Hpre & Hpost).
      destruct (rx_quiet_facts q pre Hpre) as [Spre Npre]. destruct (rx_quiet_facts q post Hpost) as [Spost Npost].
      cbn [plug off_l off_c].
      set (mid := shiftF dl dc (plug c' frag)).
      set (ks := pre ++ mid ++ post).
      assert (Nk : names_scF ks = names_scF (plug c' frag)).
      { unfold ks. rewrite !names_scF_app, Npre, Npost, app_nil_r. cbn [app]. unfold mid. apply names_scF_shift. }
      assert (NW : names_sc (Node i ks) = if is_scope (Node i ks) then [] else names_scF (plug c' frag)).
      { rewrite names_sc_node. destruct (is_scope (Node i ks)); [reflexivity|].
        rewrite (wrap_no_fact i ks Hb). cbn [app]. exact Nk. }
      assert (Hs : rx_step q ("", g ++ names_scF [Node i ks]) (Node i ks) = ("", g ++ names_scF (plug c' frag))).
      { unfold rx_step, rx_loop_type, rx_enter, ncls. cbn [ninfo fst snd nkids]. rewrite Hl, Hq. f_equal.
        change (names_scF [Node i ks]) with (names_sc (Node i ks) ++ []). rewrite app_nil_r, NW.
        destruct (is_scope (Node i ks)); [|reflexivity]. now rewrite app_nil_r, Nk. }
      rewrite detectF_one, detect_node.
      change (rx_emit ("", g ++ names_scF [Node i ks]) (Node i ks)) with (@nil rep). cbn [app]. rewrite Hs.
      change (flat_map (detect (rx_step q) rx_emit ("", g ++ names_scF (plug c' frag))))
        with (D ("", g ++ names_scF (plug c' frag))).
      unfold ks. rewrite !detectF_app, Spre, Spost, app_nil_r. cbn [app]. unfold mid.
      rewrite (detectF_shift (rx_step q) rx_emit (rx_step_shift q) rx_emit_shift).
      now rewrite IH, shiftRs_shiftRs.
    - apply andb_true_iff in H. destruct H as [H Hc]. apply andb_true_iff in H. destruct H as [Hpre Hpost].
      specialize (IH Hc g).
      destruct (rx_quiet_facts q pre Hpre) as [Spre Npre]. destruct (rx_quiet_facts q post Hpost) as [Spost Npost].
      cbn [plug off_l off_c].
      rewrite !names_scF_app, Npre, Npost, app_nil_r. cbn [app]. rewrite names_scF_shift.
      rewrite !detectF_app, Spre, Spost, app_nil_r. cbn [app].
      rewrite (detectF_shift (rx_step q) rx_emit (rx_step_shift q) rx_emit_shift).
      now rewrite IH, shiftRs_shiftRs, Nat.add_0_l.
  Qed.

  Lemma rx_fillers_quiet c : rx_ctx_ok c = true -> forall g, D ("", g) (fillers c) = [].
  Proof.
    induction c as [|i pre post dl dc c' IH|pre dl c' IH post]; cbn [rx_ctx_ok fillers]; intros H g.
    - reflexivity.
    - apply andb_true_iff in H. destruct H as [Hw Hc].
      destruct (rx_wrap_parts i pre post Hw) as (_ & _ & Hpre & Hpost).
      destruct (rx_quiet_facts q pre Hpre) as [Spre _]. destruct (rx_quiet_facts q post Hpost) as [Spost _].
      rewrite !detectF_app, Spre, Spost, (detectF_shift (rx_step q) rx_emit (rx_step_shift q) rx_emit_shift), (IH Hc g).
      reflexivity.
    - apply andb_true_iff in H. destruct H as [H Hc]. apply andb_true_iff in H. destruct H as [Hpre Hpost].
      destruct (rx_quiet_facts q pre Hpre) as [Spre _]. destruct (rx_quiet_facts q post Hpost) as [Spost _].
      rewrite !detectF_app, Spre, Spost, (detectF_shift (rx_step q) rx_emit (rx_step_shift q) rx_emit_shift), (IH Hc g).
      reflexivity.
  Qed.

  Theorem rx_embedding_local c frag :
    rx_ctx_ok c = true ->
    rx_reports q (plug c frag) = shiftRs (off_l c) (off_c c) (rx_reports q frag) ++ rx_reports q (fillers c).
  Proof.
    intro H. unfold rx_reports, rx_names0. rewrite Hq.
    rewrite (rx_fillers_quiet c H), app_nil_r. apply (rx_plug c frag H []).
  Qed.
End Ideal.

(* ------------------------------------------------------------------ confinement of q_rx_file_wide_names *)
(* with the name facts taken from the whole file the law still holds for every context that binds no regex name anywhere
   (also not inside its own functions), contains no loop and wraps in no loop *)
Definition rx_mute (ks : list ast) : bool := forallb rx_loop_free ks && is_nilb (names_allF ks).
Fixpoint rx_ctx_binds_nothing (c : ctx) : bool :=
  match c with
  | Hole => true
  | Wrap i pre post _ _ c' =>
    match assoc (cls i) rx_loop_types with Some _ => false | None => true end
    && negb (smem (cls i) rx_binder_classes) && rx_mute pre && rx_mute post && rx_ctx_binds_nothing c'
  | Seq pre _ c' post => rx_mute pre && rx_mute post && rx_ctx_binds_nothing c'
  end.

Lemma rx_mute_facts q ks : rx_mute ks = true ->
  (forall g, detectF (rx_step q) rx_emit ("", g) ks = []) /\ names_allF ks = [].
Proof.
  unfold rx_mute. intro H. apply andb_true_iff in H. destruct H as [H1 H2]. split.
  - intro g. now apply rx_loop_free_all_silent.
  - destruct (names_allF ks); [reflexivity|discriminate].
Qed.

Section Wide.
  Variable q : rquirks.
  Hypothesis Hq : q_rx_file_wide_names q = true.
  Notation D := (detectF (rx_step q) rx_emit).

  Lemma rx_wide_plug c frag : rx_ctx_binds_nothing c = true -> forall G,
    D ("", G) (plug c frag) = shiftRs (off_l c) (off_c c) (D ("", G) frag) /\ names_allF (plug c frag) = names_allF frag.
  Proof.
    induction c as [|i pre post dl dc c' IH|pre dl c' IH post]; cbn [rx_ctx_binds_nothing]; intros H G.
    - cbn [plug off_l off_c]. now rewrite shiftRs_0.
    - repeat (apply andb_true_iff in H; destruct H as [H ?]).
      match goal with Hc : rx_ctx_binds_nothing c' = true |- _ => destruct (IH Hc G) as [IH1 IH2] end.
      match goal with Hm : rx_mute pre = true |- _ => destruct (rx_mute_facts q pre Hm) as [Spre Npre] end.
      match goal with Hm : rx_mute post = true |- _ => destruct (rx_mute_facts q post Hm) as [Spost Npost] end.
      match goal with Hb : negb _ = true |- _ => apply negb_true_iff in Hb; pose proof Hb as Hbind end.
      assert (Hl : assoc (cls i) rx_loop_types = None) by (destruct (assoc (cls i) rx_loop_types); [discriminate|reflexivity]).
      cbn [plug off_l off_c]. set (ks := pre ++ shiftF dl dc (plug c' frag) ++ post). split.
      + rewrite detectF_one, detect_node. change (rx_emit ("", G) (Node i ks)) with (@nil rep). cbn [app].
        assert (Hs : rx_step q ("", G) (Node i ks) = ("", G)).
        { unfold rx_step, rx_loop_type, rx_enter, ncls. cbn [ninfo fst snd]. now rewrite Hl, Hq. }
        rewrite Hs. change (flat_map (detect (rx_step q) rx_emit ("", G))) with (D ("", G)).
        unfold ks. rewrite !detectF_app, Spre, Spost, app_nil_r. cbn [app].
        rewrite (detectF_shift (rx_step q) rx_emit (rx_step_shift q) rx_emit_shift).
        now rewrite IH1, shiftRs_shiftRs.
      + unfold names_allF at 1. cbn [flat_map]. rewrite app_nil_r, names_all_node, (wrap_no_fact i ks Hbind). cbn [app].
        fold (names_allF ks). unfold ks. now rewrite !names_allF_app, Npre, Npost, app_nil_r, names_allF_shift.
    - apply andb_true_iff in H. destruct H as [H Hc]. apply andb_true_iff in H. destruct H as [Hpre Hpost].
      destruct (IH Hc G) as [IH1 IH2].
      destruct (rx_mute_facts q post Hpost) as [Spost Npost]. destruct (rx_mute_facts q pre Hpre) as [Spre Npre].
      cbn [plug off_l off_c]. split.
      + rewrite !detectF_app, Spre, Spost, app_nil_r. cbn [app].
        rewrite (detectF_shift (rx_step q) rx_emit (rx_step_shift q) rx_emit_shift).
        now rewrite IH1, shiftRs_shiftRs, Nat.add_0_l.
      + now rewrite !names_allF_app, Npre, Npost, app_nil_r, names_allF_shift.
  Qed.

  Theorem rx_file_wide_partial c frag :
    rx_ctx_binds_nothing c = true ->
    rx_reports q (plug c frag) = shiftRs (off_l c) (off_c c) (rx_reports q frag).
  Proof.
    intro H. unfold rx_reports, rx_names0. rewrite Hq.
    destruct (rx_wide_plug c frag H (names_allF frag)) as [E1 E2]. now rewrite E2.
  Qed.
End Wide.
